package main

import (
	"fmt"
	"verif/checker/internal/codec"
	"verif/checker/internal/core"
)

func main() {
	c := core.NewCtx("/repo", "quick", "X", 0)
	defer c.Cleanup()
	if err := c.Load(); err != nil { panic(err) }
	codec.RunDec(c)
	codec.RunUnkAccessors(c)
	codec.RunOpts(c)
	ok, bad := 0, 0
	cnt := map[string]int{}
	for _, o := range c.Obligations() {
		if o.Status == core.OK { ok++; continue }
		bad++
		cnt[o.Rule]++
		if cnt[o.Rule] < 4 { fmt.Println(o.Status, o.Rule, o.Construct, "::", o.Detail, o.Pos) }
	}
	fmt.Println("ok", ok, "bad", bad, cnt, c.Stats)
}
