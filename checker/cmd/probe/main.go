package main

import (
	"fmt"
	"go/ast"
	"go/types"
	"sort"
	"strings"
	"verif/checker/internal/core"
)

func main() {
	c := core.NewCtx("/repo", "quick", "X", 0)
	if err := c.Load(); err != nil { panic(err) }
	for _, rel := range []string{"features/fastreflection", "features/protoc", "generator", "cmd/protoc-gen-go-pulsar", "features/fastreflection/copied"} {
		p := c.Pkg(rel)
		for _, f := range p.Syntax {
			for _, d := range f.Decls {
				fd, ok := d.(*ast.FuncDecl); if !ok || fd.Body == nil { continue }
				ast.Inspect(fd.Body, func(n ast.Node) bool {
					switch t := n.(type) {
					case *ast.SwitchStmt:
						if t.Tag == nil { return true }
						tt := p.TypesInfo.TypeOf(t.Tag)
						if tt == nil || !strings.HasSuffix(tt.String(), "protoreflect.Kind") { return true }
						var ks []string
						def := false
						for _, cs := range t.Body.List {
							cc := cs.(*ast.CaseClause)
							if cc.List == nil { def = true }
							for _, e := range cc.List { ks = append(ks, strings.TrimPrefix(types.ExprString(e), "protoreflect.")) }
						}
						sort.Strings(ks)
						fmt.Printf("SWITCH %s %s:%d tag=%s default=%v n=%d %v\n", rel, fd.Name.Name, p.Fset.Position(t.Pos()).Line, types.ExprString(t.Tag), def, len(ks), ks)
					case *ast.RangeStmt:
						tt := p.TypesInfo.TypeOf(t.X)
						if _, ok := tt.Underlying().(*types.Map); ok {
							fmt.Printf("MAPRANGE %s %s:%d %s\n", rel, fd.Name.Name, p.Fset.Position(t.Pos()).Line, types.ExprString(t.X))
						}
					}
					return true
				})
			}
		}
	}
}
