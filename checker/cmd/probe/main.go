package main

import (
	"fmt"
	"verif/checker/internal/refl"
	"verif/checker/internal/core"
)

func main() {
	c := core.NewCtx("/repo", "quick", "X", 0)
	defer c.Cleanup()
	if err := c.Load(); err != nil { panic(err) }
	refl.RunPure(c)
	ok, bad := 0, 0
	cnt := map[string]int{}
	seen := map[string]bool{}
	for _, o := range c.Obligations() {
		if o.Status == core.OK { ok++; continue }
		bad++
		cnt[o.Rule]++
		if !seen[o.Detail] && len(seen) < 25 { seen[o.Detail] = true; fmt.Println(o.Status, o.Rule, o.Construct, "::", o.Detail, o.Pos) }
	}
	fmt.Println("ok", ok, "bad", bad, cnt, c.Stats)
}
