package main

import (
	"os"
	"verif/checker/internal/refl"
	"verif/checker/internal/core"
)

func main() {
	c := core.NewCtx("/repo", "quick", "X", 0)
	defer c.Cleanup()
	if err := c.Load(); err != nil { panic(err) }
	refl.DumpViews(c, os.Args[1])
}
