// pulsarcheck decides the properties C01..C19 of cosmos-proto by static
// analysis of /repo's current working tree (see /verif/DESIGN.md).
package main

import (
	"encoding/json"
	"flag"
	"fmt"
	"os"
	"path/filepath"
	"runtime/debug"
	"sort"
	"strconv"
	"strings"

	"verif/checker/internal/core"
	"verif/checker/internal/props"
)

func main() {
	prop := flag.String("property", "", "property id (C01..C19)")
	tier := flag.String("tier", "", "quick|thorough (default $VERIF_TIER or quick)")
	replay := flag.String("replay", "", "replay file: re-decide the property of that report and show the obligation")
	list := flag.Bool("list", false, "list properties, rules and floors")
	verif := flag.String("verif", "", "verif directory (default: directory containing bin/)")
	manifest := flag.Bool("manifest", false, "print MANIFEST.json derived from the property table")
	flag.Parse()
	if *manifest {
		printManifest()
		return
	}

	vdir := *verif
	if vdir == "" {
		if v := os.Getenv("VERIF_DIR"); v != "" {
			vdir = v
		} else if exe, err := os.Executable(); err == nil {
			vdir = filepath.Dir(filepath.Dir(exe))
		} else {
			vdir = "/verif"
		}
	}
	repo := os.Getenv("VERIF_REPO")
	if repo == "" {
		repo = "/repo"
	}
	if *tier == "" {
		*tier = os.Getenv("VERIF_TIER")
	}
	if *tier != "thorough" {
		*tier = "quick"
	}
	var seed int64
	if s := os.Getenv("VERIF_SEED"); s != "" {
		seed, _ = strconv.ParseInt(s, 10, 64)
	}
	if *list {
		ids := []string{}
		for id := range props.Table {
			ids = append(ids, id)
		}
		sort.Strings(ids)
		for _, id := range ids {
			p := props.Table[id]
			fmt.Printf("%s rules=%s\n", id, strings.Join(p.RulePrefixes, ","))
			for _, f := range p.Floors {
				fmt.Printf("   floor %-22s >= %d  (%s)\n", f.Rule, f.Min, f.Why)
			}
		}
		return
	}
	wantKey := ""
	if *replay != "" {
		b, err := os.ReadFile(*replay)
		if err != nil {
			fmt.Println(err)
			os.Exit(2)
		}
		var r struct{ Property, Rule, Construct string }
		if err := json.Unmarshal(b, &r); err != nil {
			fmt.Println(err)
			os.Exit(2)
		}
		*prop = r.Property
		wantKey = r.Rule + " " + r.Construct
	}
	p, ok := props.Table[*prop]
	if !ok {
		fmt.Printf("unknown property %q\n", *prop)
		os.Exit(2)
	}
	c := core.NewCtx(repo, *tier, *prop, seed)
	exit := 1
	func() {
		defer c.Cleanup()
		defer func() {
			if r := recover(); r != nil {
				c.Fail("CHECKER.panic", fmt.Sprint(r), string(debug.Stack()), "", "")
				exit = finish(c, p, vdir)
			}
		}()
		if err := c.Load(); err != nil {
			c.Fail("LOAD", "repo", err.Error(), "", "S0")
		} else {
			for _, eng := range p.Engines {
				eng(c)
			}
		}
		exit = finish(c, p, vdir)
	}()
	if wantKey != "" {
		for _, o := range c.Obligations() {
			if o.Key() == wantKey {
				b, _ := json.MarshalIndent(o, "", " ")
				fmt.Printf("replayed obligation:\n%s\n", b)
			}
		}
	}
	os.Exit(exit)
}

func finish(c *core.Ctx, p *props.Prop, vdir string) int {
	known, err := core.LoadKnown(filepath.Join(vdir, "KNOWN_FINDINGS.json"))
	if err != nil {
		c.Fail("CHECKER.known", "KNOWN_FINDINGS.json", err.Error(), "", "")
	}
	return c.Finish(core.FinishSpec{
		Property: p.ID,
		Rules: func(rule string) bool {
			if rule == "LOAD" || strings.HasPrefix(rule, "CHECKER.") || rule == "VACUITY" {
				return true
			}
			for _, pre := range p.RulePrefixes {
				if rule == pre || strings.HasPrefix(rule, pre+".") || (strings.HasSuffix(pre, ".") && strings.HasPrefix(rule, pre)) {
					return true
				}
			}
			return false
		},
		Floors:      p.Floors,
		Explanation: p.LevelText + " [rules and engines: " + p.Technique + "]",
		RuleText:    p.RuleText,
		Assumptions: p.Assumptions,
		Trusted:     props.Trusted,
		VerifDir:    vdir,
		Known:       known,
		CheckerCmd:  fmt.Sprintf("./bin/pulsarcheck -property %s -tier %s", p.ID, c.Tier),
	})
}

func printManifest() {
	ids := []string{}
	for id := range props.Table {
		ids = append(ids, id)
	}
	sort.Strings(ids)
	var checks []map[string]interface{}
	for _, id := range ids {
		p := props.Table[id]
		checks = append(checks, map[string]interface{}{
			"property_id":         id,
			"quick_cmd":           "./bin/pulsarcheck -property " + id + " -tier quick",
			"thorough_cmd":        "./bin/pulsarcheck -property " + id + " -tier thorough",
			"evidence_file":       "/verif/evidence/" + id + ".json",
			"replay_cmd_template": "./bin/pulsarcheck -replay {path}",
			"engine":              "pulsarcheck",
			"level_claimed":       map[string]string{"category": "other", "text": p.LevelText, "design_ref": p.DesignRef},
			"level_note":          p.LevelNote,
			"technique":           p.Technique,
		})
	}
	var na []map[string]string
	nids := []string{}
	for id := range props.NotYet {
		nids = append(nids, id)
	}
	sort.Strings(nids)
	for _, id := range nids {
		if _, claimed := props.Table[id]; !claimed {
			na = append(na, map[string]string{"property_id": id, "reason": props.NotYet[id]})
		}
	}
	if na == nil {
		na = []map[string]string{}
	}
	m := map[string]interface{}{
		"version":   1,
		"setup_cmd": "cd /verif/checker && GOFLAGS=-mod=mod GOPROXY=off GOSUMDB=off GOTOOLCHAIN=local GOWORK=off go build -o /verif/bin/pulsarcheck ./cmd/pulsarcheck",
		"hooks": map[string]interface{}{
			"guard":            "verif",
			"enable":           "none needed: static analysis reads the working tree; no instrumentation is compiled into /repo",
			"baseline_off_cmd": "cd /repo && go test -vet=off -count=1 -timeout 25m ./...",
			"source_commits":   []string{},
			"add_only":         true,
		},
		"engines": []map[string]interface{}{{
			"name": "pulsarcheck", "path": "/verif/checker", "serves_properties": ids,
			"kind_free_text": "repository-specific static analyser (go/packages typed AST, go/cfg, go/ssa) over /repo's working tree and over sources regenerated from the working-tree generator; nothing of cosmos-proto's codecs/accessors/helpers is executed",
		}},
		"checks":         checks,
		"not_applicable": na,
		"notes":          "All checks are static analysis; see DESIGN.md. Known findings: /verif/KNOWN_FINDINGS.json.",
	}
	b, _ := json.MarshalIndent(m, "", " ")
	fmt.Println(string(b))
}
