// regen rebuilds the generator from a repository tree and regenerates the six
// checked-in *.pulsar.go files from the descriptors embedded in them, writing
// the output under -out (relative paths as in the repo). It is a maintenance
// tool for preparing "fix:" commits (diff of two regenerations applied to the
// checked-in files); it is not part of any check.
package main

import (
	"flag"
	"fmt"
	"os"
	"path/filepath"
	"sort"
	"strings"

	"google.golang.org/protobuf/proto"
	"google.golang.org/protobuf/types/descriptorpb"

	"verif/checker/internal/core"
	"verif/checker/internal/gen"
	"verif/checker/internal/source"
)

func main() {
	repo := flag.String("repo", "/repo", "repository tree")
	out := flag.String("out", "", "output directory")
	flag.Parse()
	if *out == "" {
		fmt.Println("need -out")
		os.Exit(2)
	}
	c := core.NewCtx(*repo, "quick", "regen", 0)
	defer c.Cleanup()
	if err := c.Load(); err != nil {
		fmt.Println(err)
		os.Exit(1)
	}
	ws, err := gen.NewWorkspace(c)
	if err != nil {
		fmt.Println(err)
		os.Exit(1)
	}
	s1 := source.GetS1(c)
	var cosmos *descriptorpb.FileDescriptorProto
	if p := c.Pkg(""); p != nil {
		m, _, _ := gen.RawDescs(p.Syntax, p.TypesInfo)
		for _, fd := range m {
			cosmos = fd
		}
	}
	for _, g := range s1.S1 {
		byName := map[string]*descriptorpb.FileDescriptorProto{}
		var names []string
		for _, fd := range g.RawVars {
			byName[fd.GetName()] = fd
			names = append(names, fd.GetName())
		}
		sort.Strings(names)
		var files []*descriptorpb.FileDescriptorProto
		done := map[string]bool{}
		var visit func(n string)
		visit = func(n string) {
			if done[n] || byName[n] == nil {
				return
			}
			done[n] = true
			for _, d := range byName[n].GetDependency() {
				visit(d)
			}
			files = append(files, proto.Clone(byName[n]).(*descriptorpb.FileDescriptorProto))
		}
		for _, n := range names {
			visit(n)
		}
		sc := &gen.Schema{Name: g.Name, Files: files, Param: "Mcosmos_proto/cosmos.proto=github.com/cosmos/cosmos-proto;cosmos_proto"}
		if cosmos != nil {
			sc.ExtraDeps = append(sc.ExtraDeps, cosmos)
		}
		r := ws.Run(sc)
		if r.RunErr != nil || (r.Response != nil && r.Response.Error != nil) {
			fmt.Println("generation failed for", g.Name, r.RunErr, r.Response.GetError())
			os.Exit(1)
		}
		for n, content := range r.Files {
			rel := strings.TrimPrefix(n, core.RepoModule+"/")
			p := filepath.Join(*out, rel)
			os.MkdirAll(filepath.Dir(p), 0o755)
			if err := os.WriteFile(p, []byte(content), 0o644); err != nil {
				fmt.Println(err)
				os.Exit(1)
			}
			fmt.Println("wrote", p)
		}
	}
}
