// Package inline normalises hand-written packages before they are analysed:
// unexported functions that did not exist when the rules were written (they
// are not in the package's table of confirmed function names) are inlined, at
// source level, into their callers. A refactor that merely extracts a helper
// from an analysed function therefore presents the rules with the shape they
// know; the semantics are unchanged because inlining is done only where it is
// exact (see the conditions in candidates and sites).
//
// The result is an overlay (file path -> new source) for go/packages.
package inline

import (
	"strconv"
	"regexp"
	"bytes"
	"fmt"
	"go/ast"
	"go/parser"
	"go/token"
	"go/types"
	"os"
	"sort"
	"strings"

	"golang.org/x/tools/go/packages"
)

type edit struct {
	start, end int
	text       string
}

// Loader re-loads one package (by directory pattern relative to the repo) with the given overlay.
type Loader func(pattern string, overlay map[string][]byte) (*packages.Package, error)

// Normalize inlines new helpers of the package matched by pattern. keep lists the function names
// ("Name" or "Recv.Name") that are never inlined. It returns the overlay entries it produced (possibly none)
// and a description of what was inlined.
func Normalize(load Loader, pattern string, keep map[string]bool, overlay map[string][]byte) ([]string, error) {
	var log []string
	for pass := 0; pass < 5; pass++ {
		p, err := load(pattern, overlay)
		if err != nil {
			return log, err
		}
		if p == nil || p.Types == nil || p.TypesInfo == nil || len(p.Errors) > 0 {
			if p != nil && len(p.Errors) > 0 && pass > 0 {
				return log, fmt.Errorf("package %s does not type-check after inlining: %v", pattern, p.Errors[0])
			}
			return log, nil
		}
		n, l, err := onePass(p, keep, overlay)
		if err != nil {
			return log, err
		}
		log = append(log, l...)
		if n == 0 {
			return log, nil
		}
	}
	return log, nil
}

type helper struct {
	decl    *ast.FuncDecl
	obj     *types.Func
	file    *ast.File
	src     []byte
	nRes    int
	resText []string
}

func funcKey(fd *ast.FuncDecl) string {
	if fd.Recv != nil && len(fd.Recv.List) == 1 {
		t := fd.Recv.List[0].Type
		if st, ok := t.(*ast.StarExpr); ok {
			t = st.X
		}
		if id, ok := t.(*ast.Ident); ok {
			return id.Name + "." + fd.Name.Name
		}
	}
	return fd.Name.Name
}

func fileSrc(p *packages.Package, f *ast.File, overlay map[string][]byte) ([]byte, string, error) {
	name := p.Fset.Position(f.Pos()).Filename
	if b, ok := overlay[name]; ok {
		return b, name, nil
	}
	b, err := os.ReadFile(name)
	return b, name, err
}

func isGenerated(f *ast.File) bool {
	for _, cg := range f.Comments {
		if cg.Pos() < f.Package && strings.Contains(cg.Text(), "Code generated") {
			return true
		}
	}
	return false
}

var inlNumRe = regexp.MustCompile(`__inl(\d+)`)

func onePass(p *packages.Package, keep map[string]bool, overlay map[string][]byte) (int, []string, error) {
	info := p.TypesInfo
	fset := p.Fset
	off := func(pos token.Pos) int { return fset.Position(pos).Offset }
	srcOf := map[*ast.File][]byte{}
	nameOf := map[*ast.File]string{}
	for _, f := range p.Syntax {
		b, n, err := fileSrc(p, f, overlay)
		if err != nil {
			return 0, nil, err
		}
		srcOf[f], nameOf[f] = b, n
	}
	// ---- candidates
	helpers := map[*types.Func]*helper{}
	for _, f := range p.Syntax {
		if isGenerated(f) {
			continue
		}
		for _, d := range f.Decls {
			fd, ok := d.(*ast.FuncDecl)
			if !ok || fd.Body == nil || keep[funcKey(fd)] || fd.Name.Name == "init" || fd.Name.Name == "main" {
				continue
			}
			obj, _ := info.Defs[fd.Name].(*types.Func)
			if obj == nil {
				continue
			}
			h := &helper{decl: fd, obj: obj, file: f, src: srcOf[f]}
			ok = true
			if fd.Type.TypeParams != nil {
				// a generic function: only when its type parameters appear in parameter types alone (the arguments carry
				// the instantiated types into the body)
				if fd.Recv != nil || mentionsTypeParam(info, fd.Body) || (fd.Type.Results != nil && mentionsTypeParam(info, fd.Type.Results)) {
					continue
				}
			}
			if fd.Type.Results != nil {
				for _, r := range fd.Type.Results.List {
					if len(r.Names) > 0 {
						ok = false // named results
					}
					h.nRes++
					h.resText = append(h.resText, string(h.src[off(r.Type.Pos()):off(r.Type.End())]))
				}
			}
			for _, pl := range fd.Type.Params.List {
				if _, variadic := pl.Type.(*ast.Ellipsis); variadic {
					ok = false
				}
			}
			ast.Inspect(fd.Body, func(n ast.Node) bool {
				switch t := n.(type) {
				case *ast.DeferStmt, *ast.GoStmt, *ast.LabeledStmt:
					ok = false
				case *ast.BranchStmt:
					if t.Label != nil || t.Tok == token.GOTO {
						ok = false
					}
				case *ast.CallExpr:
					if id, isId := t.Fun.(*ast.Ident); isId {
						if info.Uses[id] == obj {
							ok = false // recursive
						}
						if b, isB := info.Uses[id].(*types.Builtin); isB && b.Name() == "recover" {
							ok = false
						}
					}
					if sel, isSel := t.Fun.(*ast.SelectorExpr); isSel && info.Uses[sel.Sel] == obj {
						ok = false
					}
				}
				return true
			})
			if ok {
				helpers[obj] = h
			}
		}
	}
	// `if gate(…) { return }` at the top of main: the gate of an informational mode is judged as a unit (its effects must be
	// confined to the paths on which it returns true), so it stays a function
	if p.Name == "main" {
		for _, f := range p.Syntax {
			for _, d := range f.Decls {
				fd, ok := d.(*ast.FuncDecl)
				if !ok || fd.Body == nil || fd.Recv != nil || fd.Name.Name != "main" {
					continue
				}
				for _, st := range fd.Body.List {
					is, ok := st.(*ast.IfStmt)
					if !ok || is.Init != nil || is.Else != nil || len(is.Body.List) != 1 {
						continue
					}
					if rs, ok := is.Body.List[0].(*ast.ReturnStmt); !ok || len(rs.Results) != 0 {
						continue
					}
					if call, ok := ast.Unparen(is.Cond).(*ast.CallExpr); ok {
						if id, ok := ast.Unparen(call.Fun).(*ast.Ident); ok {
							if fo, ok := info.Uses[id].(*types.Func); ok {
								delete(helpers, fo)
							}
						}
					}
				}
			}
		}
	}
	if len(helpers) == 0 {
		return 0, nil, nil
	}
	// every use of a helper must be the function of a call
	callFun := map[*ast.Ident]bool{}
	for _, f := range p.Syntax {
		ast.Inspect(f, func(n ast.Node) bool {
			if c, ok := n.(*ast.CallExpr); ok {
				switch t := ast.Unparen(c.Fun).(type) {
				case *ast.Ident:
					callFun[t] = true
				case *ast.SelectorExpr:
					callFun[t.Sel] = true
				}
			}
			return true
		})
	}
	for id, o := range info.Uses {
		if f, ok := o.(*types.Func); ok && helpers[f] != nil && !callFun[id] {
			delete(helpers, f)
		}
	}
	if len(helpers) == 0 {
		return 0, nil, nil
	}
	// ---- call sites
	// labels and result variables must stay unique across passes: continue after the highest number already present
	counter := 0
	for _, b := range srcOf {
		for _, m := range inlNumRe.FindAllSubmatch(b, -1) {
			if v, err := strconv.Atoi(string(m[1])); err == nil && v > counter {
				counter = v
			}
		}
	}
	edits := map[*ast.File][]edit{}
	var log []string
	calleeOf := func(c *ast.CallExpr) *helper {
		switch t := ast.Unparen(c.Fun).(type) {
		case *ast.Ident:
			if f, ok := info.Uses[t].(*types.Func); ok {
				return helpers[f]
			}
		case *ast.SelectorExpr:
			if f, ok := info.Uses[t.Sel].(*types.Func); ok {
				if sel := info.Selections[t]; sel != nil && sel.Kind() == types.MethodVal {
					return helpers[f]
				}
			}
		}
		return nil
	}
	importsOf := func(f *ast.File) map[string]string {
		m := map[string]string{}
		for _, is := range f.Imports {
			path := strings.Trim(is.Path.Value, `"`)
			for _, o := range []types.Object{info.Implicits[is]} {
				if pn, ok := o.(*types.PkgName); ok {
					m[pn.Name()] = path
				}
			}
			if is.Name != nil {
				if pn, ok := info.Defs[is.Name].(*types.PkgName); ok {
					m[pn.Name()] = path
				}
			}
		}
		return m
	}
	// build the inlined text of one call; returns (prefix statements, result names) or ok=false
	build := func(caller *ast.File, call *ast.CallExpr, h *helper) (string, []string, bool) {
		// free identifiers of the helper must mean the same thing at the call site
		callerImports := importsOf(caller)
		scope := p.Types.Scope().Innermost(call.Pos())
		okFree := true
		check := func(root ast.Node) {
			ast.Inspect(root, func(n ast.Node) bool {
				id, ok := n.(*ast.Ident)
				if !ok {
					return true
				}
				o := info.Uses[id]
				if o == nil {
					return true
				}
				switch t := o.(type) {
				case *types.PkgName:
					if callerImports[t.Name()] != t.Imported().Path() {
						okFree = false
					}
					if scope != nil {
						if _, found := scope.LookupParent(id.Name, call.Pos()); found != nil {
							if _, isPkg := found.(*types.PkgName); !isPkg {
								okFree = false
							}
						}
					}
				default:
					if o.Parent() == p.Types.Scope() || o.Parent() == types.Universe {
						if scope != nil {
							if _, found := scope.LookupParent(id.Name, call.Pos()); found != o {
								okFree = false
							}
						}
					}
				}
				return true
			})
		}
		check(h.decl.Body)
		if h.decl.Type.Results != nil {
			check(h.decl.Type.Results)
		}
		check(h.decl.Type.Params)
		if !okFree {
			return "", nil, false
		}
		counter++
		k := counter
		csrc := srcOf[caller]
		var sb strings.Builder
		var res []string
		for i, t := range h.resText {
			r := fmt.Sprintf("__inl%d_r%d", k, i)
			res = append(res, r)
			fmt.Fprintf(&sb, "var %s %s\n", r, t)
		}
		// body with returns rewritten
		body := h.src[off(h.decl.Body.Lbrace)+1 : off(h.decl.Body.Rbrace)]
		base := off(h.decl.Body.Lbrace) + 1
		var rets []edit
		label := fmt.Sprintf("__inl%d", k)
		var walk func(n ast.Node)
		walk = func(n ast.Node) {
			ast.Inspect(n, func(x ast.Node) bool {
				switch t := x.(type) {
				case *ast.FuncLit:
					return false
				case *ast.ReturnStmt:
					txt := ""
					if len(t.Results) > 0 {
						var rs []string
						for _, e := range t.Results {
							rs = append(rs, string(h.src[off(e.Pos()):off(e.End())]))
						}
						txt = strings.Join(res, ", ") + " = " + strings.Join(rs, ", ") + "; "
					}
					rets = append(rets, edit{off(t.Pos()) - base, off(t.End()) - base, "{ " + txt + "break " + label + " }"})
				}
				return true
			})
		}
		walk(h.decl.Body)
		sort.Slice(rets, func(i, j int) bool { return rets[i].start > rets[j].start })
		b := append([]byte{}, body...)
		for _, e := range rets {
			b = append(b[:e.start], append([]byte(e.text), b[e.end:]...)...)
		}
		if len(rets) > 0 {
			fmt.Fprintf(&sb, "%s:\n", label)
		}
		sb.WriteString("switch {\ndefault:\n")
		// receiver and parameters
		var names, args []string
		if h.decl.Recv != nil && len(h.decl.Recv.List) == 1 && len(h.decl.Recv.List[0].Names) == 1 && h.decl.Recv.List[0].Names[0].Name != "_" {
			sel, ok := ast.Unparen(call.Fun).(*ast.SelectorExpr)
			if !ok {
				return "", nil, false
			}
			x := string(csrc[off(sel.X.Pos()):off(sel.X.End())])
			_, recvPtr := h.obj.Type().(*types.Signature).Recv().Type().(*types.Pointer)
			_, argPtr := info.TypeOf(sel.X).Underlying().(*types.Pointer)
			switch {
			case recvPtr && !argPtr:
				x = "&(" + x + ")"
			case !recvPtr && argPtr:
				x = "*(" + x + ")"
			}
			names = append(names, h.decl.Recv.List[0].Names[0].Name)
			args = append(args, x)
		}
		ai := 0
		for _, pl := range h.decl.Type.Params.List {
			if len(pl.Names) == 0 {
				if ai < len(call.Args) {
					names = append(names, "_")
					args = append(args, string(csrc[off(call.Args[ai].Pos()):off(call.Args[ai].End())]))
				}
				ai++
				continue
			}
			for _, n := range pl.Names {
				if ai >= len(call.Args) {
					return "", nil, false
				}
				nm := n.Name
				names = append(names, nm)
				ptxt := string(h.src[off(pl.Type.Pos()):off(pl.Type.End())])
				atxt := string(csrc[off(call.Args[ai].Pos()):off(call.Args[ai].End())])
				if mentionsTypeParam(info, pl.Type) {
					// the parameter type cannot be written at the call site: the argument must already have its type
					if tv, ok := info.Types[call.Args[ai]]; !ok || tv.Type == nil || tv.IsNil() {
						return "", nil, false
					} else if b, isB := tv.Type.(*types.Basic); isB && b.Info()&types.IsUntyped != 0 {
						return "", nil, false
					}
					args = append(args, "("+atxt+")")
				} else {
					args = append(args, "("+ptxt+")("+atxt+")")
				}
				ai++
			}
		}
		if ai != len(call.Args) {
			return "", nil, false // multi-value call as argument list etc.
		}
		if len(names) > 0 {
			allBlank := true
			for _, n := range names {
				if n != "_" {
					allBlank = false
				}
			}
			if allBlank {
				fmt.Fprintf(&sb, "%s = %s\n", strings.Join(names, ", "), strings.Join(args, ", "))
			} else {
				fmt.Fprintf(&sb, "%s := %s\n", strings.Join(names, ", "), strings.Join(args, ", "))
				var used []string
				for _, n := range names {
					if n != "_" {
						used = append(used, n)
					}
				}
				blanks := strings.TrimSuffix(strings.Repeat("_, ", len(used)), ", ")
				fmt.Fprintf(&sb, "%s = %s\n", blanks, strings.Join(used, ", "))
			}
		}
		sb.Write(b)
		sb.WriteString("\n}\n")
		log = append(log, fmt.Sprintf("%s inlined into %s (line %d)", funcKey(h.decl), nameOf[caller][strings.LastIndex(nameOf[caller], "/")+1:], fset.Position(call.Pos()).Line))
		return sb.String(), res, true
	}
	text := func(f *ast.File, n ast.Node) string { return string(srcOf[f][off(n.Pos()):off(n.End())]) }
	for _, f := range p.Syntax {
		if isGenerated(f) {
			continue
		}
		var taken []edit
		overlaps := func(s, e int) bool {
			for _, t := range taken {
				if s < t.end && t.start < e {
					return true
				}
			}
			return false
		}
		add := func(n ast.Node, txt string) {
			e := edit{off(n.Pos()), off(n.End()), txt}
			taken = append(taken, e)
			edits[f] = append(edits[f], e)
		}
		// firstCall: the call that is invoked first when the expressions are evaluated (arguments before the call they
		// belong to, left to right; nothing under the right operand of && / ||, nothing inside function literals).
		// Conversions and len/cap are not calls in this sense.
		firstCall := func(exprs []ast.Expr) *ast.CallExpr {
			var found *ast.CallExpr
			var walk func(x ast.Node) bool // false once found or blocked
			blocked := false
			walk = func(x ast.Node) bool {
				if x == nil || found != nil || blocked {
					return false
				}
				switch t := x.(type) {
				case *ast.FuncLit:
					return true
				case *ast.BinaryExpr:
					if t.Op == token.LAND || t.Op == token.LOR {
						walk(t.X)
						if found == nil {
							// a call on the right would run conditionally: nothing after this point may be hoisted
							hasCall := false
							ast.Inspect(t.Y, func(n ast.Node) bool {
								if _, ok := n.(*ast.CallExpr); ok {
									hasCall = true
								}
								return true
							})
							if hasCall {
								blocked = true
							}
						}
						return true
					}
					walk(t.X)
					walk(t.Y)
					return true
				case *ast.UnaryExpr:
					if t.Op == token.ARROW {
						blocked = true
						return true
					}
					walk(t.X)
					return true
				case *ast.CallExpr:
					walk(t.Fun)
					for _, a := range t.Args {
						walk(a)
					}
					if found != nil || blocked {
						return true
					}
					if tv, ok := info.Types[t.Fun]; ok && tv.IsType() {
						return true
					}
					if id, ok := ast.Unparen(t.Fun).(*ast.Ident); ok {
						if b, ok := info.Uses[id].(*types.Builtin); ok && (b.Name() == "len" || b.Name() == "cap") {
							return true
						}
					}
					found = t
					return true
				case *ast.ParenExpr:
					walk(t.X)
				case *ast.SelectorExpr:
					walk(t.X)
				case *ast.IndexExpr:
					walk(t.X)
					walk(t.Index)
				case *ast.SliceExpr:
					walk(t.X)
					walk(t.Low)
					walk(t.High)
					walk(t.Max)
				case *ast.StarExpr:
					walk(t.X)
				case *ast.TypeAssertExpr:
					walk(t.X)
				case *ast.CompositeLit:
					for _, e := range t.Elts {
						walk(e)
					}
				case *ast.KeyValueExpr:
					walk(t.Key)
					walk(t.Value)
				case *ast.Ident, *ast.BasicLit:
				default:
					blocked = true
				}
				return true
			}
			for _, e := range exprs {
				if e != nil {
					walk(e)
				}
			}
			if blocked && found == nil {
				return nil
			}
			return found
		}
		// hoistNested: a helper call nested in the expressions of a simple statement, invoked before any other call of
		// that statement, is computed in front of it
		hoistNested := func(st ast.Stmt, exprs []ast.Expr, top ast.Expr) bool {
			c := firstCall(exprs)
			if c == nil || ast.Expr(c) == ast.Unparen(top) {
				return false
			}
			h := calleeOf(c)
			if h == nil || h.nRes != 1 {
				return false
			}
			pre, res, ok := build(f, c, h)
			if !ok {
				return false
			}
			whole := text(f, st)
			rel := off(c.Pos()) - off(st.Pos())
			relEnd := off(c.End()) - off(st.Pos())
			add(st, pre+whole[:rel]+res[0]+whole[relEnd:]+"\n")
			return true
		}
		visitList := func(list []ast.Stmt) {
			for _, st := range list {
				if overlaps(off(st.Pos()), off(st.End())) {
					continue
				}
				switch t := st.(type) {
				case *ast.ExprStmt:
					if hoistNested(st, []ast.Expr{t.X}, t.X) {
						continue
					}
				case *ast.AssignStmt:
					var top ast.Expr
					if len(t.Rhs) == 1 {
						top = t.Rhs[0]
					}
					if hoistNested(st, append(append([]ast.Expr{}, t.Lhs...), t.Rhs...), top) {
						continue
					}
				case *ast.ReturnStmt:
					var top ast.Expr
					if len(t.Results) == 1 {
						top = t.Results[0]
					}
					if hoistNested(st, t.Results, top) {
						continue
					}
				}
				switch t := st.(type) {
				case *ast.ExprStmt:
					if c, ok := t.X.(*ast.CallExpr); ok {
						if h := calleeOf(c); h != nil {
							if pre, res, ok := build(f, c, h); ok {
								for _, r := range res {
									pre += "_ = " + r + "\n"
								}
								add(st, pre)
							}
						}
					}
				case *ast.AssignStmt:
					if len(t.Rhs) == 1 {
						if c, ok := ast.Unparen(t.Rhs[0]).(*ast.CallExpr); ok {
							if h := calleeOf(c); h != nil && h.nRes == len(t.Lhs) {
								if pre, res, ok := build(f, c, h); ok {
									var ls []string
									for _, l := range t.Lhs {
										ls = append(ls, text(f, l))
									}
									add(st, pre+strings.Join(ls, ", ")+" "+t.Tok.String()+" "+strings.Join(res, ", ")+"\n")
								}
							}
						}
					}
				case *ast.ReturnStmt:
					if len(t.Results) == 1 {
						if c, ok := ast.Unparen(t.Results[0]).(*ast.CallExpr); ok {
							if h := calleeOf(c); h != nil && h.nRes >= 1 {
								if pre, res, ok := build(f, c, h); ok {
									add(st, pre+"return "+strings.Join(res, ", ")+"\n")
								}
							}
						}
					}
				case *ast.IfStmt:
					// if a, b := h(args); cond { ... }
					if as, ok := t.Init.(*ast.AssignStmt); ok && len(as.Rhs) == 1 {
						if c, ok := ast.Unparen(as.Rhs[0]).(*ast.CallExpr); ok {
							if h := calleeOf(c); h != nil && h.nRes == len(as.Lhs) {
								if pre, res, ok := build(f, c, h); ok {
									whole := text(f, st)
									rel := off(c.Pos()) - off(st.Pos())
									relEnd := off(c.End()) - off(st.Pos())
									add(st, "{\n"+pre+whole[:rel]+strings.Join(res, ", ")+whole[relEnd:]+"\n}\n")
								}
							}
						}
						continue
					}
					// if h(args) { ... }   /   if !h(args) { ... }
					if t.Init == nil {
						cond := ast.Unparen(t.Cond)
						if u, ok := cond.(*ast.UnaryExpr); ok && u.Op == token.NOT {
							cond = ast.Unparen(u.X)
						}
						if c, ok := cond.(*ast.CallExpr); ok {
							if h := calleeOf(c); h != nil && h.nRes == 1 {
								if pre, res, ok := build(f, c, h); ok {
									whole := text(f, st)
									rel := off(c.Pos()) - off(st.Pos())
									relEnd := off(c.End()) - off(st.Pos())
									add(st, "{\n"+pre+whole[:rel]+res[0]+whole[relEnd:]+"\n}\n")
								}
							}
						}
					}
				}
			}
		}
		ast.Inspect(f, func(n ast.Node) bool {
			switch t := n.(type) {
			case *ast.FuncDecl:
				// never rewrite inside a helper that is itself going to be inlined elsewhere in this pass
				if o, ok := info.Defs[t.Name].(*types.Func); ok && helpers[o] != nil {
					return false
				}
				// callers whose rule follows helper calls itself ("!Name" entries of the table)
				if keep["!"+funcKey(t)] {
					return false
				}
			case *ast.BlockStmt:
				visitList(t.List)
			case *ast.CaseClause:
				visitList(t.Body)
			case *ast.CommClause:
				visitList(t.Body)
			}
			return true
		})
	}
	n := 0
	for f, es := range edits {
		sort.Slice(es, func(i, j int) bool { return es[i].start > es[j].start })
		b := append([]byte{}, srcOf[f]...)
		for _, e := range es {
			b = append(b[:e.start], append([]byte(e.text), b[e.end:]...)...)
			n++
		}
		// sanity: must parse
		if _, err := parser.ParseFile(token.NewFileSet(), nameOf[f], b, 0); err != nil {
			return 0, log, fmt.Errorf("inlining produced unparsable source for %s: %v", nameOf[f], err)
		}
		overlay[nameOf[f]] = bytes.Clone(b)
	}
	return n, log, nil
}


// mentionsTypeParam: some identifier under n names a type parameter.
func mentionsTypeParam(info *types.Info, n ast.Node) bool {
	found := false
	ast.Inspect(n, func(x ast.Node) bool {
		if id, ok := x.(*ast.Ident); ok {
			if tn, ok := info.ObjectOf(id).(*types.TypeName); ok {
				if _, isTP := tn.Type().(*types.TypeParam); isTP {
					found = true
				}
			}
		}
		return true
	})
	return found
}
