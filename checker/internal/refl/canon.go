package refl

import (
	"sort"
	"regexp"
	"fmt"
	"go/ast"
	"go/token"
	"go/types"
	"strings"
)

// canon renders statements of an accessor arm in a canonical form:
// receiver and parameters are renamed positionally, single-assignment
// temporaries are substituted, conversions to the identical type are dropped,
// parentheses are normalised. Two arms with the same canonical form compute
// the same thing; the expected forms are derived from the descriptor.
type canon struct {
	info  *types.Info
	names map[types.Object]string // receiver/params/bound locals
	subst map[types.Object]string // single-assignment temporaries
	err   string
	ntemp int
}

func newCanon(info *types.Info, fd *ast.FuncDecl) *canon {
	c := &canon{info: info, names: map[types.Object]string{}, subst: map[types.Object]string{}}
	if fd.Recv != nil && len(fd.Recv.List) == 1 && len(fd.Recv.List[0].Names) == 1 {
		c.names[info.ObjectOf(fd.Recv.List[0].Names[0])] = "x"
	}
	i := 1
	for _, f := range fd.Type.Params.List {
		for _, n := range f.Names {
			c.names[info.ObjectOf(n)] = fmt.Sprintf("$%d", i)
			i++
		}
	}
	return c
}

func (c *canon) fail(f string, a ...interface{}) string {
	if c.err == "" {
		c.err = fmt.Sprintf(f, a...)
	}
	return "?"
}

// pkgLabel prints the package name for the packages the expected forms refer to, the full path for any other
// (so an import alias that re-points a familiar name is visible).
func pkgLabel(p *types.Package) string {
	switch p.Path() {
	case "google.golang.org/protobuf/reflect/protoreflect", "google.golang.org/protobuf/runtime/protoimpl", "google.golang.org/protobuf/runtime/protoiface",
		"math", "fmt", "sort", "sync", "reflect", "io", "encoding/binary", "github.com/cosmos/cosmos-proto/runtime":
		return p.Name()
	}
	return p.Path()
}

func (c *canon) typ(t types.Type) string {
	return types.TypeString(t, pkgLabel)
}

func (c *canon) expr(x ast.Expr) string {
	info := c.info
	switch t := x.(type) {
	case *ast.ParenExpr:
		return c.expr(t.X)
	case *ast.BasicLit:
		return t.Value
	case *ast.Ident:
		o := info.ObjectOf(t)
		if s, ok := c.subst[o]; ok {
			return s
		}
		if s, ok := c.names[o]; ok {
			return s
		}
		switch ot := o.(type) {
		case *types.Nil:
			return "nil"
		case *types.Const:
			if ot.Pkg() == nil {
				return t.Name // true/false
			}
			return ot.Name()
		case *types.TypeName:
			return c.typ(ot.Type())
		case *types.Builtin:
			return t.Name
		case *types.Var:
			if ot.Pkg() != nil && ot.Parent() == ot.Pkg().Scope() {
				return ot.Name() // package-level variable
			}
			return c.fail("unbound local %s", t.Name)
		case *types.Func:
			return ot.Name()
		}
		return t.Name
	case *ast.SelectorExpr:
		if id, ok := t.X.(*ast.Ident); ok {
			if pn, ok := info.ObjectOf(id).(*types.PkgName); ok {
				if tn, ok := info.ObjectOf(t.Sel).(*types.TypeName); ok {
					return c.typ(tn.Type())
				}
				return pkgLabel(pn.Imported()) + "." + t.Sel.Name
			}
		}
		return c.expr(t.X) + "." + t.Sel.Name
	case *ast.StarExpr:
		return "*" + c.expr(t.X)
	case *ast.UnaryExpr:
		// &T{} of a struct type is new(T)
		if cl, ok := ast.Unparen(t.X).(*ast.CompositeLit); ok && t.Op == token.AND && len(cl.Elts) == 0 {
			if ct := info.TypeOf(cl); ct != nil {
				if _, isStruct := ct.Underlying().(*types.Struct); isStruct {
					return "new(" + c.typ(ct) + ")"
				}
			}
		}
		return t.Op.String() + c.expr(t.X)
	case *ast.BinaryExpr:
		if t.Op == token.LAND || t.Op == token.LOR {
			// a chain of operands none of which can panic or have an effect is order-insensitive: sorted
			var ops []ast.Expr
			var flat func(e ast.Expr)
			flat = func(e ast.Expr) {
				if b, ok := ast.Unparen(e).(*ast.BinaryExpr); ok && b.Op == t.Op {
					flat(b.X)
					flat(b.Y)
					return
				}
				ops = append(ops, e)
			}
			flat(t)
			all := true
			for _, o := range ops {
				all = all && c.total(o)
			}
			if all {
				var ss []string
				for _, o := range ops {
					ss = append(ss, c.expr(o))
				}
				sort.Strings(ss)
				out := ss[0]
				for _, x := range ss[1:] {
					out = "(" + out + " " + t.Op.String() + " " + x + ")"
				}
				if len(ss) == 1 {
					out = "(" + out + ")"
				}
				return out
			}
		}
		return "(" + c.expr(t.X) + " " + t.Op.String() + " " + c.expr(t.Y) + ")"
	case *ast.IndexExpr:
		return c.expr(t.X) + "[" + c.expr(t.Index) + "]"
	case *ast.SliceExpr:
		s := c.expr(t.X) + "["
		if t.Low != nil {
			s += c.expr(t.Low)
		}
		s += ":"
		if t.High != nil {
			s += c.expr(t.High)
		}
		return s + "]"
	case *ast.TypeAssertExpr:
		if t.Type == nil {
			return c.expr(t.X) + ".(type)"
		}
		return c.expr(t.X) + ".(" + c.typ(info.TypeOf(t.Type)) + ")"
	case *ast.CompositeLit:
		var parts []string
		for _, e := range t.Elts {
			if kv, ok := e.(*ast.KeyValueExpr); ok {
				k := ""
				if id, ok := kv.Key.(*ast.Ident); ok {
					if v, ok := info.ObjectOf(id).(*types.Var); ok && v.IsField() {
						k = id.Name
					}
				}
				if k == "" {
					k = c.expr(kv.Key)
				}
				parts = append(parts, k+": "+c.expr(kv.Value))
			} else {
				parts = append(parts, c.expr(e))
			}
		}
		return c.typ(info.TypeOf(t)) + "{" + strings.Join(parts, ", ") + "}"
	case *ast.CallExpr:
		if tv, ok := info.Types[t.Fun]; ok && tv.IsType() && len(t.Args) == 1 {
			at := info.TypeOf(t.Args[0])
			a := c.expr(t.Args[0])
			if at != nil && types.Identical(at, tv.Type) {
				return a
			}
			// conversion of an untyped constant: keep as typed zero/value
			if atv, ok := info.Types[t.Args[0]]; ok && atv.Value != nil {
				return c.typ(tv.Type) + "(" + atv.Value.ExactString() + ")"
			}
			return c.typ(tv.Type) + "(" + a + ")"
		}
		// Value.MapKey() is the conversion MapKey(Value) (protoreflect: "MapKey returns v as a MapKey")
		if sel, ok := t.Fun.(*ast.SelectorExpr); ok && len(t.Args) == 0 && sel.Sel.Name == "MapKey" {
			if fn, ok := info.Uses[sel.Sel].(*types.Func); ok && fn.FullName() == "(google.golang.org/protobuf/reflect/protoreflect.Value).MapKey" {
				return c.typ(info.TypeOf(t)) + "(" + c.expr(sel.X) + ")"
			}
		}
		var args []string
		for _, a := range t.Args {
			args = append(args, c.expr(a))
		}
		s := c.expr(t.Fun) + "(" + strings.Join(args, ", ")
		if t.Ellipsis.IsValid() {
			s += "..."
		}
		return s + ")"
	case *ast.FuncLit:
		return "func{…}"
	case *ast.ArrayType, *ast.MapType:
		return c.typ(info.TypeOf(x))
	case *ast.KeyValueExpr:
		return c.expr(t.Key) + ": " + c.expr(t.Value)
	}
	return c.fail("expression %T", x)
}

// stmts renders a statement list.
func (c *canon) stmts(list []ast.Stmt) string {
	var parts []string
	for i := 0; i < len(list); i++ {
		s := list[i]
		switch t := s.(type) {
		case *ast.ReturnStmt:
			var rs []string
			for _, r := range t.Results {
				rs = append(rs, c.expr(r))
			}
			parts = append(parts, "return "+strings.Join(rs, ", "))
		case *ast.ExprStmt:
			if call, ok := t.X.(*ast.CallExpr); ok {
				if id, ok := call.Fun.(*ast.Ident); ok && id.Name == "panic" {
					parts = append(parts, "panic")
					continue
				}
			}
			parts = append(parts, c.expr(t.X))
		case *ast.AssignStmt:
			if t.Tok == token.DEFINE {
				// substitute temporaries: v := E  /  v, ok := E
				if len(t.Lhs) == 1 && len(t.Rhs) == 1 {
					if id, ok := t.Lhs[0].(*ast.Ident); ok {
						o := c.info.Defs[id]
						if o != nil && c.assignedOnce(o, list[i+1:]) && (!c.identityMatters(t.Rhs[0]) || c.useCount(o, list[i+1:]) == 1) {
							c.subst[o] = c.expr(t.Rhs[0])
							continue
						}
					}
				}
				var l []string
				for _, x := range t.Lhs {
					id, ok := x.(*ast.Ident)
					if !ok {
						l = append(l, c.expr(x))
						continue
					}
					if o := c.info.Defs[id]; o != nil {
						c.ntemp++
						c.names[o] = fmt.Sprintf("%%t%d", c.ntemp)
						l = append(l, c.names[o])
					} else {
						l = append(l, id.Name)
					}
				}
				var r []string
				for _, x := range t.Rhs {
					r = append(r, c.expr(x))
				}
				parts = append(parts, strings.Join(l, ", ")+" := "+strings.Join(r, ", "))
				continue
			}
			var l, r []string
			for _, x := range t.Lhs {
				l = append(l, c.expr(x))
			}
			for _, x := range t.Rhs {
				r = append(r, c.expr(x))
			}
			parts = append(parts, strings.Join(l, ", ")+" "+t.Tok.String()+" "+strings.Join(r, ", "))
		case *ast.IfStmt:
			parts = append(parts, c.ifStmt(t))
		case *ast.BlockStmt:
			parts = append(parts, c.stmts(t.List))
		case *ast.SwitchStmt, *ast.TypeSwitchStmt:
			parts = append(parts, c.switchStmt(s))
		case *ast.ForStmt:
			h := "for "
			if t.Init != nil {
				if as, ok := t.Init.(*ast.AssignStmt); ok && as.Tok == token.DEFINE && len(as.Lhs) == 1 {
					if id, ok := as.Lhs[0].(*ast.Ident); ok {
						if o := c.info.Defs[id]; o != nil {
							c.names[o] = "%i"
							h += "%i := " + c.expr(as.Rhs[0])
						}
					}
				} else {
					h += c.stmts([]ast.Stmt{t.Init})
				}
			}
			h += "; "
			if t.Cond != nil {
				h += c.expr(t.Cond)
			}
			h += "; "
			if t.Post != nil {
				h += c.stmts([]ast.Stmt{t.Post})
			}
			parts = append(parts, h+" {"+c.stmts(t.Body.List)+"}")
		case *ast.RangeStmt:
			k, v := "_", "_"
			if id, ok := t.Key.(*ast.Ident); ok && id.Name != "_" {
				if o := c.info.Defs[id]; o != nil {
					c.names[o] = "%k"
					k = "%k"
				}
			}
			if id, ok := t.Value.(*ast.Ident); ok && id.Name != "_" {
				if o := c.info.Defs[id]; o != nil {
					c.names[o] = "%v"
					v = "%v"
				}
			}
			parts = append(parts, "range "+k+", "+v+" := "+c.expr(t.X)+" {"+c.stmts(t.Body.List)+"}")
		case *ast.BranchStmt:
			parts = append(parts, t.Tok.String())
		case *ast.IncDecStmt:
			parts = append(parts, c.expr(t.X)+t.Tok.String())
		case *ast.DeclStmt:
			gd := t.Decl.(*ast.GenDecl)
			for _, sp := range gd.Specs {
				if vs, ok := sp.(*ast.ValueSpec); ok {
					for k, n := range vs.Names {
						if o := c.info.Defs[n]; o != nil {
							c.ntemp++
							c.names[o] = fmt.Sprintf("%%t%d", c.ntemp)
							d := "var " + c.names[o] + " " + c.typ(o.Type())
							if k < len(vs.Values) {
								d += " = " + c.expr(vs.Values[k])
							}
							parts = append(parts, d)
						}
					}
				}
			}
		default:
			parts = append(parts, c.fail("statement %T", s))
		}
	}
	return strings.Join(parts, "; ")
}

// total: evaluating the expression cannot panic and has no effect — a variable, a constant, a package-level name, or
// a comparison of such a thing with nil or a constant, possibly negated.
func (c *canon) total(x ast.Expr) bool {
	x = ast.Unparen(x)
	if tv, ok := c.info.Types[x]; ok && tv.Value != nil {
		return true
	}
	switch t := x.(type) {
	case *ast.Ident:
		return true
	case *ast.SelectorExpr:
		if id, ok := t.X.(*ast.Ident); ok {
			_, isPkg := c.info.Uses[id].(*types.PkgName)
			return isPkg
		}
	case *ast.UnaryExpr:
		return t.Op == token.NOT && c.total(t.X)
	case *ast.BinaryExpr:
		switch t.Op {
		case token.EQL, token.NEQ, token.LSS, token.GTR, token.LEQ, token.GEQ:
			isConst := func(e ast.Expr) bool {
				tv, ok := c.info.Types[e]
				return ok && (tv.Value != nil || tv.IsNil())
			}
			return (c.total(t.X) && isConst(t.Y)) || (isConst(t.X) && c.total(t.Y))
		}
	}
	return false
}

// identityMatters: duplicating the expression could change the meaning — it allocates, or it calls something that is
// not known to be a pure function of its operands (conversions, len/cap, protoreflect.ValueOf*, the accessors of
// protoreflect.Value, ProtoReflect()/Interface() of fast-reflection types are).
func (c *canon) identityMatters(x ast.Expr) bool {
	if allocates(x) {
		return true
	}
	found := false
	ast.Inspect(x, func(n ast.Node) bool {
		call, ok := n.(*ast.CallExpr)
		if !ok {
			return true
		}
		if tv, ok := c.info.Types[call.Fun]; ok && tv.IsType() {
			return true
		}
		switch f := call.Fun.(type) {
		case *ast.Ident:
			if _, isB := c.info.Uses[f].(*types.Builtin); isB && (f.Name == "len" || f.Name == "cap") {
				return true
			}
		case *ast.SelectorExpr:
			if fn, ok := c.info.Uses[f.Sel].(*types.Func); ok {
				full := fn.FullName()
				switch {
				case strings.HasPrefix(full, "google.golang.org/protobuf/reflect/protoreflect.ValueOf"),
					strings.HasPrefix(full, "(google.golang.org/protobuf/reflect/protoreflect.Value)."),
					strings.HasPrefix(full, "(google.golang.org/protobuf/reflect/protoreflect.MapKey)."),
					strings.HasPrefix(full, "math."):
					return true
				case fn.Name() == "ProtoReflect" || fn.Name() == "Interface" || fn.Name() == "Descriptor":
					return true
				}
			}
		}
		found = true
		return true
	})
	return found
}

// allocates: the expression creates new memory (its identity matters, so it is never duplicated by substitution).
func allocates(x ast.Expr) bool {
	found := false
	ast.Inspect(x, func(n ast.Node) bool {
		switch t := n.(type) {
		case *ast.CompositeLit:
			found = true
		case *ast.CallExpr:
			if id, ok := t.Fun.(*ast.Ident); ok && (id.Name == "new" || id.Name == "make") {
				found = true
			}
		}
		return true
	})
	return found
}

// useCount counts the reads of a variable in the remaining statements.
func (c *canon) useCount(o types.Object, rest []ast.Stmt) int {
	n := 0
	for _, s := range rest {
		ast.Inspect(s, func(x ast.Node) bool {
			if id, ok := x.(*ast.Ident); ok && c.info.Uses[id] == o {
				n++
			}
			return true
		})
	}
	return n
}

// assignedOnce: the variable is never re-assigned nor has its address taken in the remaining statements.
func (c *canon) assignedOnce(o types.Object, rest []ast.Stmt) bool {
	ok := true
	for _, s := range rest {
		ast.Inspect(s, func(n ast.Node) bool {
			switch t := n.(type) {
			case *ast.AssignStmt:
				for _, l := range t.Lhs {
					if id, isID := l.(*ast.Ident); isID && c.info.ObjectOf(id) == o {
						ok = false
					}
				}
			case *ast.UnaryExpr:
				if t.Op == token.AND {
					if id, isID := t.X.(*ast.Ident); isID && c.info.ObjectOf(id) == o {
						ok = false
					}
				}
			case *ast.IncDecStmt:
				if id, isID := t.X.(*ast.Ident); isID && c.info.ObjectOf(id) == o {
					ok = false
				}
			}
			return true
		})
	}
	return ok
}

func (c *canon) ifStmt(t *ast.IfStmt) string {
	s := "if "
	if t.Init != nil {
		// v, ok := E  inside if-init: bind names positionally
		if as, ok := t.Init.(*ast.AssignStmt); ok && as.Tok == token.DEFINE {
			var l []string
			for k, x := range as.Lhs {
				id, _ := x.(*ast.Ident)
				if id != nil && id.Name != "_" {
					if o := c.info.Defs[id]; o != nil {
						nm := "%v"
						if k == 1 {
							nm = "%ok"
						}
						c.names[o] = nm
						l = append(l, nm)
						continue
					}
				}
				l = append(l, "_")
			}
			s += strings.Join(l, ", ") + " := " + c.expr(as.Rhs[0]) + "; "
		} else {
			s += c.stmts([]ast.Stmt{t.Init}) + "; "
		}
	}
	s += c.expr(t.Cond) + " {" + c.stmts(t.Body.List) + "}"
	switch e := t.Else.(type) {
	case *ast.BlockStmt:
		s += " else {" + c.stmts(e.List) + "}"
	case *ast.IfStmt:
		s += " else " + c.ifStmt(e)
	}
	return s
}

func (c *canon) switchStmt(s ast.Stmt) string {
	var head string
	var body *ast.BlockStmt
	switch t := s.(type) {
	case *ast.SwitchStmt:
		head = "switch "
		if t.Tag != nil {
			head += c.expr(t.Tag)
		}
		body = t.Body
	case *ast.TypeSwitchStmt:
		head = "typeswitch "
		switch a := t.Assign.(type) {
		case *ast.AssignStmt:
			head += "%w := " + c.expr(a.Rhs[0])
		case *ast.ExprStmt:
			head += c.expr(a.X)
		}
		body = t.Body
	}
	var arms []string
	for _, cs := range body.List {
		cc := cs.(*ast.CaseClause)
		if o := c.info.Implicits[cc]; o != nil {
			c.names[o] = "%w"
		}
		lbl := "default"
		if cc.List != nil {
			var ls []string
			for _, e := range cc.List {
				if tv, ok := c.info.Types[e]; ok && tv.IsType() {
					ls = append(ls, c.typ(tv.Type))
				} else {
					ls = append(ls, c.expr(e))
				}
			}
			lbl = "case " + strings.Join(ls, ",")
		}
		arms = append(arms, lbl+": "+c.stmts(cc.Body))
	}
	// the cases of a type switch over concrete types exclude each other: their order carries no meaning
	if ts, ok := s.(*ast.TypeSwitchStmt); ok {
		concrete := true
		for _, cs := range ts.Body.List {
			for _, e := range cs.(*ast.CaseClause).List {
				tv, ok := c.info.Types[e]
				if !ok || !tv.IsType() || types.IsInterface(tv.Type) {
					concrete = false
				}
			}
		}
		if concrete {
			sortArms(arms)
		}
	}
	return head + " {" + strings.Join(arms, " | ") + "}"
}

// qualExpr renders an expression like types.ExprString, with every package qualifier replaced by the label of the
// package it resolves to (import path, or the plain name for the few well-known packages): local import aliases
// such as protoimpl1 do not matter.
func qualExpr(info *types.Info, e ast.Expr) string {
	out := types.ExprString(e)
	alias := map[string]string{}
	ast.Inspect(e, func(n ast.Node) bool {
		if id, ok := n.(*ast.Ident); ok {
			if pn, ok := info.Uses[id].(*types.PkgName); ok {
				alias[id.Name] = pkgLabel(pn.Imported())
			}
		}
		return true
	})
	for a, l := range alias {
		if a != l {
			out = regexp.MustCompile(`(^|[^A-Za-z0-9_.])`+regexp.QuoteMeta(a)+`\.`).ReplaceAllString(out, "${1}"+l+".")
		}
	}
	return out
}

// sortArms orders switch arms canonically: by text, the default arm last.
func sortArms(arms []string) {
	sort.SliceStable(arms, func(i, j int) bool {
		di, dj := strings.HasPrefix(arms[i], "default:"), strings.HasPrefix(arms[j], "default:")
		if di != dj {
			return dj
		}
		return arms[i] < arms[j]
	})
}
