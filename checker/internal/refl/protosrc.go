package refl

import (
	"fmt"
	"os"
	"path/filepath"
	"regexp"
	"strings"

	"google.golang.org/protobuf/proto"
	"google.golang.org/protobuf/reflect/protodesc"
	"google.golang.org/protobuf/reflect/protoreflect"
	"google.golang.org/protobuf/reflect/protoregistry"
	"google.golang.org/protobuf/types/descriptorpb"

	"verif/checker/internal/core"
	"verif/checker/internal/model"
	"verif/checker/internal/protosrc"
)

var managedRe = regexp.MustCompile(`(?m)^managed:\s*\n(\s+.*\n)*?\s+enabled:\s*true`)

// checkProtoSource (COH.proto): the descriptor embedded in a checked-in *.pulsar.go equals the .proto file next to
// it, as protoc would describe that file to a plugin (names, numbers, kinds, labels, json names, oneof membership,
// map entries, nesting order, enums, services, imports, options including the cosmos_proto extension options).
func checkProtoSource(c *core.Ctx, g *model.GenPkg, rawVar string, got *descriptorpb.FileDescriptorProto) {
	const src = "S1"
	con := g.Name + " " + rawVar + " vs .proto"
	obj := g.Types.Scope().Lookup(rawVar)
	if obj == nil {
		c.Undec("COH.proto", con, "descriptor variable not found in the package scope", "", src)
		return
	}
	goFile := g.Fset.Position(obj.Pos()).Filename
	base := strings.TrimSuffix(strings.TrimSuffix(filepath.Base(goFile), ".pulsar.go"), ".pb.go")
	protoPath := filepath.Join(filepath.Dir(goFile), base+".proto")
	pos := strings.TrimPrefix(protoPath, c.Repo+"/")
	if _, err := os.Stat(protoPath); err != nil {
		// not next to the generated file: try the registered path under the repository root and proto/
		for _, root := range []string{c.Repo, filepath.Join(c.Repo, "proto")} {
			cand := filepath.Join(root, filepath.FromSlash(got.GetName()))
			if _, err2 := os.Stat(cand); err2 == nil && filepath.Base(cand) == base+".proto" {
				protoPath = cand
				pos = strings.TrimPrefix(protoPath, c.Repo+"/")
				break
			}
		}
	}
	if _, err := os.Stat(protoPath); err != nil {
		c.Undec("COH.proto", con, "no schema source "+pos+" next to the generated file: the embedded descriptor cannot be compared with the schema given to the generator", pos, src)
		return
	}
	if filepath.Base(got.GetName()) != base+".proto" {
		c.Fail("COH.proto", con, fmt.Sprintf("the embedded descriptor is registered as %q but the file was generated from %s", got.GetName(), pos), pos, src)
		return
	}
	cache := map[string]*descriptorpb.FileDescriptorProto{}
	var resolve protosrc.ImportResolver
	resolve = func(ip string) (*descriptorpb.FileDescriptorProto, error) {
		if fd, ok := cache[ip]; ok {
			if fd == nil {
				return nil, fmt.Errorf("import cycle")
			}
			return fd, nil
		}
		cache[ip] = nil
		for _, root := range []string{filepath.Dir(protoPath), c.Repo, filepath.Join(c.Repo, "proto")} {
			cand := filepath.Join(root, filepath.FromSlash(ip))
			if _, err := os.Stat(cand); err == nil {
				fd, err := protosrc.Parse(cand, ip, resolve)
				if err != nil {
					return nil, fmt.Errorf("%s: %v", strings.TrimPrefix(cand, c.Repo+"/"), err)
				}
				cache[ip] = fd
				return fd, nil
			}
		}
		if d, err := protoregistry.GlobalFiles.FindFileByPath(ip); err == nil {
			fd := protodesc.ToFileDescriptorProto(d)
			cache[ip] = fd
			return fd, nil
		}
		return nil, fmt.Errorf("not found in %s, the repository root, proto/ or the well-known files", filepath.Dir(pos))
	}
	want, err := protosrc.Parse(protoPath, got.GetName(), resolve)
	if err != nil {
		c.Undec("COH.proto", con, "schema source outside the modelled proto3 subset: "+err.Error(), pos, src)
		return
	}
	g2 := proto.Clone(got).(*descriptorpb.FileDescriptorProto)
	g2.SourceCodeInfo = nil
	// buf "managed mode" (buf.gen.yaml next to the sources) adds language-specific file options to the schema
	// it hands to plugins; those the source does not set itself are taken from the descriptor.
	managedNote := ""
	var y []byte
	for dir := filepath.Dir(protoPath); strings.HasPrefix(dir, c.Repo); dir = filepath.Dir(dir) {
		if b, err := os.ReadFile(filepath.Join(dir, "buf.gen.yaml")); err == nil {
			y = b
			break
		}
		if dir == c.Repo {
			break
		}
	}
	if y != nil && managedRe.Match(y) && g2.Options != nil {
		if want.Options == nil {
			want.Options = &descriptorpb.FileOptions{}
		}
		wm, gm := want.Options.ProtoReflect(), g2.Options.ProtoReflect()
		managed := []string{}
		if strings.Contains(string(y), "go_package_prefix") {
			managed = append(managed, "go_package") // managed mode rewrites go_package under the configured prefix
		}
		for _, n := range append(managed, []string{"java_package", "java_outer_classname", "java_multiple_files", "cc_enable_arenas", "optimize_for",
			"objc_class_prefix", "csharp_namespace", "php_namespace", "php_metadata_namespace", "ruby_package", "java_string_check_utf8"}...) {
			fd := wm.Descriptor().Fields().ByName(protoreflect.Name(n))
			if fd != nil && gm.Has(fd) && (!wm.Has(fd) || n == "go_package") {
				wm.Set(fd, gm.Get(fd))
				managedNote = "; language-specific file options added by buf managed mode are not compared"
			}
		}
	}
	if proto.Equal(want, g2) {
		n := 0
		var cnt func(ms []*descriptorpb.DescriptorProto)
		cnt = func(ms []*descriptorpb.DescriptorProto) {
			for _, m := range ms {
				n += len(m.Field)
				cnt(m.NestedType)
			}
		}
		cnt(want.MessageType)
		c.Ok("COH.proto", con, fmt.Sprintf("embedded descriptor equals %s (%d message types at top level, %d fields, %d enums, %d services, options included%s)", pos, len(want.MessageType), n, len(want.EnumType), len(want.Service), managedNote), pos, src)
		return
	}
	var diffs []string
	protosrc.Diff(want.ProtoReflect(), g2.ProtoReflect(), "file", 6, &diffs)
	if len(diffs) == 0 {
		diffs = []string{"descriptors differ (no field-level difference found: unknown-field layout)"}
	}
	c.Fail("COH.proto", con, "the registered descriptor is not the schema in "+pos+": "+strings.Join(diffs, "; "), pos, src)
}
