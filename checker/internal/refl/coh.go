package refl

import (
	"verif/checker/internal/gen"
	"google.golang.org/protobuf/reflect/protoregistry"
	"google.golang.org/protobuf/types/descriptorpb"
	"fmt"
	"go/ast"
	"go/constant"
	"go/token"
	"go/types"
	"reflect"
	"sort"
	"strconv"
	"strings"

	"google.golang.org/protobuf/proto"
	"google.golang.org/protobuf/reflect/protoreflect"

	"verif/checker/internal/core"
	"verif/checker/internal/model"
	"verif/checker/internal/source"
)

// flattened ordering of protobuf-go's filetype.TypeBuilder.
func flatEnums(fd protoreflect.FileDescriptor) []protoreflect.EnumDescriptor {
	var out []protoreflect.EnumDescriptor
	es := fd.Enums()
	for i := 0; i < es.Len(); i++ {
		out = append(out, es.Get(i))
	}
	var walk func(ms protoreflect.MessageDescriptors)
	walk = func(ms protoreflect.MessageDescriptors) {
		for i := 0; i < ms.Len(); i++ {
			m := ms.Get(i)
			for j := 0; j < m.Enums().Len(); j++ {
				out = append(out, m.Enums().Get(j))
			}
			walk(m.Messages())
		}
	}
	walk(fd.Messages())
	return out
}

func flatMsgs(fd protoreflect.FileDescriptor) []protoreflect.MessageDescriptor {
	var out []protoreflect.MessageDescriptor
	ms := fd.Messages()
	for i := 0; i < ms.Len(); i++ {
		out = append(out, ms.Get(i))
	}
	var walk func(ms protoreflect.MessageDescriptors)
	walk = func(ms protoreflect.MessageDescriptors) {
		for i := 0; i < ms.Len(); i++ {
			m := ms.Get(i)
			for j := 0; j < m.Messages().Len(); j++ {
				out = append(out, m.Messages().Get(j))
			}
			walk(m.Messages())
		}
	}
	walk(fd.Messages())
	return out
}

func tagKeyword(k protoreflect.Kind) string {
	switch k {
	case protoreflect.BoolKind, protoreflect.EnumKind, protoreflect.Int32Kind, protoreflect.Int64Kind, protoreflect.Uint32Kind, protoreflect.Uint64Kind:
		return "varint"
	case protoreflect.Sint32Kind:
		return "zigzag32"
	case protoreflect.Sint64Kind:
		return "zigzag64"
	case protoreflect.Fixed32Kind, protoreflect.Sfixed32Kind, protoreflect.FloatKind:
		return "fixed32"
	case protoreflect.Fixed64Kind, protoreflect.Sfixed64Kind, protoreflect.DoubleKind:
		return "fixed64"
	}
	return "bytes"
}

func goKindType(k protoreflect.Kind) string {
	switch k {
	case protoreflect.BoolKind:
		return "bool"
	case protoreflect.Int32Kind, protoreflect.Sint32Kind, protoreflect.Sfixed32Kind:
		return "int32"
	case protoreflect.Int64Kind, protoreflect.Sint64Kind, protoreflect.Sfixed64Kind:
		return "int64"
	case protoreflect.Uint32Kind, protoreflect.Fixed32Kind:
		return "uint32"
	case protoreflect.Uint64Kind, protoreflect.Fixed64Kind:
		return "uint64"
	case protoreflect.FloatKind:
		return "float32"
	case protoreflect.DoubleKind:
		return "float64"
	case protoreflect.StringKind:
		return "string"
	case protoreflect.BytesKind:
		return "[]byte"
	}
	return ""
}

func canonBody(g *model.GenPkg, fd *ast.FuncDecl) (string, string) {
	cn := newCanon(g.Info, fd)
	s := cn.stmts(fd.Body.List)
	return s, cn.err
}

// pkgVarLit finds the composite literal assigned to a package variable.
func pkgVarLit(g *model.GenPkg, name string) *ast.CompositeLit {
	for _, f := range g.Files {
		for _, d := range f.Decls {
			gd, ok := d.(*ast.GenDecl)
			if !ok || gd.Tok != token.VAR {
				continue
			}
			for _, sp := range gd.Specs {
				vs := sp.(*ast.ValueSpec)
				for i, n := range vs.Names {
					if n.Name == name && i < len(vs.Values) {
						if cl, ok := vs.Values[i].(*ast.CompositeLit); ok {
							return cl
						}
					}
				}
			}
		}
	}
	return nil
}

// fileDeclaring: the file of the package that declares the package-level variable.
func fileDeclaring(g *model.GenPkg, v string) *ast.File {
	for _, f := range g.Files {
		for _, d := range f.Decls {
			if gd, ok := d.(*ast.GenDecl); ok && gd.Tok == token.VAR {
				for _, sp := range gd.Specs {
					for _, n := range sp.(*ast.ValueSpec).Names {
						if n.Name == v {
							return f
						}
					}
				}
			}
		}
	}
	return nil
}

// RunCoh decides COH.* (C19).
func RunCoh(c *core.Ctx) {
	checkPlainPbGo(c)
	s2 := source.GetS2(c)
	// request descriptors by file name (S2)
	reqByName := map[string]proto.Message{}
	if s2.Err == nil {
		for _, r := range s2.Results {
			for _, f := range r.Schema.Files {
				// comments and source positions are not part of the schema: protoc-gen-go embeds the descriptor without them
				if f.SourceCodeInfo != nil {
					f = proto.Clone(f).(*descriptorpb.FileDescriptorProto)
					f.SourceCodeInfo = nil
				}
				reqByName[r.Schema.Name+"|"+f.GetName()] = f
			}
		}
	}
	// Go type of every message / enum of every analysed package, by source set and full name: a dependency declared
	// in another generated package must be bound to exactly that package's Go type (a same-named local type is not it)
	goTypeOf := map[string]string{}
	for _, g := range sources(c) {
		for _, m := range g.Msgs {
			goTypeOf[g.Source+"|"+string(m.Desc.FullName())] = "*" + tq(m.Named)
		}
		for _, e := range g.Enums {
			goTypeOf[g.Source+"|"+string(e.Desc.FullName())] = tq(e.Named)
		}
	}
	// Go package that holds each schema file, per source set: the analysed package that embeds its descriptor, else
	// (a file the request did not ask to generate) the go_package the request gives it
	depGoPkg := map[string]string{}
	if s2.Err == nil {
		for _, r := range s2.Results {
			for _, f := range append(append([]*descriptorpb.FileDescriptorProto{}, r.Schema.ExtraDeps...), r.Schema.Files...) {
				depGoPkg["S2:"+r.Schema.Name+"|"+f.GetName()] = f.GetOptions().GetGoPackage()
			}
		}
	}
	if rp := c.Pkg(""); rp != nil {
		if raws, _, err := gen.RawDescs(rp.Syntax, rp.TypesInfo); err == nil {
			for _, fd := range raws {
				depGoPkg["S1|"+fd.GetName()] = rp.PkgPath
			}
		}
	}
	for _, g := range sources(c) {
		for _, fdp := range g.RawVars {
			depGoPkg[g.Source+"|"+fdp.GetName()] = g.Types.Path()
		}
	}
	for _, g := range sources(c) {
		src := g.Source
		info := g.Info
		// ---- COH.rawdesc
		for v, fdp := range g.RawVars {
			con := g.Name + " " + v
			if strings.HasPrefix(src, "S2:") {
				req := reqByName[strings.TrimPrefix(src, "S2:")+"|"+fdp.GetName()]
				if req == nil {
					c.Fail("COH.rawdesc", con, "no request file corresponds to the embedded descriptor "+fdp.GetName(), "", src)
					continue
				}
				c.Check(proto.Equal(req, fdp), "COH.rawdesc", con, "embedded descriptor equals the schema given to the generator (options included)", "embedded descriptor differs from the schema given to the generator", "", src)
			} else {
				c.Ok("COH.rawdesc", con, "embedded descriptor parses and links ("+fdp.GetName()+")", "", src)
				checkProtoSource(c, g, v, fdp)
			}
		}
		// ---- COH.pkgname: the package clause of a generated file is the Go package name its schema asks for — the
		// `;name` part of go_package, else the last element of the import path (made an identifier) — so that it can share a
		// directory with what other generators produce for the same go_package
		for v, fdp := range g.RawVars {
			gp := fdp.GetOptions().GetGoPackage()
			if sc := s2.SchemaOf[g.Types.Path()]; sc != nil && strings.Contains(sc.Param, "M"+fdp.GetName()+"=") {
				continue // renamed by an M parameter
			}
			if gp == "" {
				continue
			}
			want := gp
			if k := strings.Index(gp, ";"); k >= 0 {
				want = gp[k+1:]
			} else {
				want = gp[strings.LastIndex(gp, "/")+1:]
			}
			var sb strings.Builder
			for i, r := range want {
				ok := r == '_' || (r >= 'a' && r <= 'z') || (r >= 'A' && r <= 'Z') || (r >= '0' && r <= '9' && i > 0) || r > 127
				if r >= '0' && r <= '9' && i == 0 {
					sb.WriteByte('_')
					ok = true
				}
				if ok {
					sb.WriteRune(r)
				} else {
					sb.WriteByte('_')
				}
			}
			want = sb.String()
			for _, f := range g.Files {
				declares := false
				for _, d := range f.Decls {
					if gd, ok := d.(*ast.GenDecl); ok && gd.Tok == token.VAR {
						for _, sp := range gd.Specs {
							for _, n := range sp.(*ast.ValueSpec).Names {
								declares = declares || n.Name == v
							}
						}
					}
				}
				if declares {
					c.Check(f.Name.Name == want, "COH.pkgname", g.Name+" "+v, "package "+want, "the file says `package "+f.Name.Name+"`, its schema's go_package ("+gp+") asks for `package "+want+"`", "", src)
				}
			}
		}
		// ---- COH.imports: the Go package of every (non-weak) import of the schema is linked in — imported by the
		// generated file, by name or blank — so that the dependency is registered whenever this file is
		schemaParam := ""
		if sc := s2.SchemaOf[g.Types.Path()]; sc != nil {
			schemaParam = sc.Param
		}
		for v, fdp := range g.RawVars {
			var file *ast.File
			for _, f := range g.Files {
				for _, d := range f.Decls {
					if gd, ok := d.(*ast.GenDecl); ok && gd.Tok == token.VAR {
						for _, sp := range gd.Specs {
							for _, n := range sp.(*ast.ValueSpec).Names {
								if n.Name == v {
									file = f
								}
							}
						}
					}
				}
			}
			if file == nil {
				continue
			}
			imported := map[string]bool{}
			for _, im := range file.Imports {
				if p, err := strconv.Unquote(im.Path.Value); err == nil {
					imported[p] = true
				}
			}
			weak := map[int32]bool{}
			for _, w := range fdp.WeakDependency {
				weak[w] = true
			}
			var missing []string
			n := 0
			for i, dep := range fdp.Dependency {
				if weak[int32(i)] {
					continue
				}
				gp := depGoPkg[src+"|"+dep]
				if gp == "" {
					if fd, err := protoregistry.GlobalFiles.FindFileByPath(dep); err == nil && strings.HasPrefix(dep, "google/protobuf/") {
						if o, ok := fd.Options().(*descriptorpb.FileOptions); ok {
							gp = o.GetGoPackage()
						}
					}
				}
				if k := strings.Index(gp, ";"); k >= 0 {
					gp = gp[:k]
				}
				// an M parameter can rename the dependency's Go package: not followed here (GEN.types covers that request)
				if gp == "" || strings.Contains(schemaParam, "M"+dep+"=") {
					continue
				}
				n++
				if gp != g.Types.Path() && !imported[gp] {
					missing = append(missing, dep+" ("+gp+")")
				}
			}
			c.Check(len(missing) == 0, "COH.imports", g.Name+" "+v, fmt.Sprintf("the Go packages of all %d schema imports are the file's own or imported by it", n),
				"schema imports whose Go package the generated file does not import (the dependency may be missing from the binary): "+strings.Join(missing, ", "), "", src)
		}
		// ---- COH.pubfwd: a file that publicly imports a file of another Go package re-exports what that file declares for
		// its schema — message, enum and oneof-wrapper types, enum value constants, the E_name/E_value maps, extension
		// descriptors, default-value constants — each as a forwarding declaration bound to the imported package's symbol
		// (a symbol that is itself a forward, and the file descriptor variable, are not re-exported)
		for v, fdp := range g.RawVars {
			for _, pi := range fdp.PublicDependency {
				if int(pi) >= len(fdp.Dependency) {
					continue
				}
				dep := fdp.Dependency[pi]
				gp := depGoPkg[src+"|"+dep]
				if k := strings.Index(gp, ";"); k >= 0 {
					gp = gp[:k]
				}
				if gp == "" || gp == g.Types.Path() || strings.Contains(schemaParam, "M"+dep+"=") {
					continue
				}
				var q *model.GenPkg
				depVar := ""
				for _, o := range sources(c) {
					if o.Source != src || o.Types.Path() != gp {
						continue
					}
					for ov, ofd := range o.RawVars {
						if ofd.GetName() == dep {
							q, depVar = o, ov
						}
					}
				}
				if q == nil {
					continue // the imported file was not generated in this run: nothing to compare with
				}
				dfile := fileDeclaring(q, depVar)
				if dfile == nil {
					continue
				}
				enumNames := map[string]bool{}
				for _, e := range q.Enums {
					enumNames[e.Named.Obj().Name()] = true
				}
				var missing []string
				n := 0
				want := func(name string) {
					n++
					qo := q.Types.Scope().Lookup(name)
					fo := g.Types.Scope().Lookup(name)
					if qo == nil {
						return
					}
					ok := fo != nil && types.Identical(fo.Type(), qo.Type())
					if ok {
						switch qt := qo.(type) {
						case *types.Const:
							ft, isC := fo.(*types.Const)
							ok = isC && ft.Val().ExactString() == qt.Val().ExactString()
						case *types.TypeName:
							_, ok = fo.(*types.TypeName)
						case *types.Var:
							_, ok = fo.(*types.Var)
						}
					}
					if !ok {
						missing = append(missing, name)
					}
				}
				for _, d := range dfile.Decls {
					gd, ok := d.(*ast.GenDecl)
					if !ok {
						continue
					}
					for _, sp := range gd.Specs {
						switch t := sp.(type) {
						case *ast.TypeSpec:
							if !t.Name.IsExported() {
								continue
							}
							if _, fwd := t.Type.(*ast.SelectorExpr); fwd {
								continue
							}
							switch q.Info.Defs[t.Name].Type().Underlying().(type) {
							case *types.Struct, *types.Basic:
								want(t.Name.Name)
							}
						case *ast.ValueSpec:
							for i, nm := range t.Names {
								if !nm.IsExported() {
									continue
								}
								if i < len(t.Values) {
									if _, fwd := t.Values[i].(*ast.SelectorExpr); fwd {
										continue
									}
								}
								o := q.Info.Defs[nm]
								if o == nil {
									continue
								}
								switch gd.Tok {
								case token.CONST:
									if nt, ok := o.Type().(*types.Named); (ok && nt.Obj().Pkg() == q.Types) || strings.HasPrefix(nm.Name, "Default_") {
										want(nm.Name)
									}
								case token.VAR:
									base := strings.TrimSuffix(strings.TrimSuffix(nm.Name, "_name"), "_value")
									if base != nm.Name && enumNames[base] {
										want(nm.Name)
									} else if strings.HasSuffix(o.Type().String(), "protoimpl.ExtensionInfo") {
										want(nm.Name)
									}
								}
							}
						}
					}
				}
				c.Check(len(missing) == 0, "COH.pubfwd", g.Name+" "+v+" re-exports "+dep, fmt.Sprintf("all %d schema symbols of the publicly imported file are forwarded to %s", n, gp),
					"symbols the publicly imported file declares for its schema that this file does not forward (code written against this file's package cannot name them): "+strings.Join(missing, ", "), "", src)
			}
		}
		// ---- per file tables
		for v, fdesc := range g.FileDescs {
			base := strings.TrimSuffix(v, "_rawDesc")
			enums, msgs := flatEnums(fdesc), flatMsgs(fdesc)
			goT := pkgVarLit(g, base+"_goTypes")
			con := g.Name + " " + base + "_goTypes"
			if goT == nil {
				c.Fail("COH.gotypes", con, "goTypes table not found", "", src)
				continue
			}
			// Go type of an entry: (T)(0) / (*T)(nil) / nil
			entryType := func(e ast.Expr) (types.Type, bool) {
				e = ast.Unparen(e)
				if id, ok := e.(*ast.Ident); ok && id.Name == "nil" {
					return nil, true
				}
				call, ok := e.(*ast.CallExpr)
				if !ok {
					return nil, false
				}
				tv, ok := info.Types[call.Fun]
				if !ok || !tv.IsType() {
					return nil, false
				}
				return tv.Type, true
			}
			msgGo := map[protoreflect.FullName]*model.Msg{}
			for _, m := range g.Msgs {
				msgGo[m.Desc.FullName()] = m
			}
			enumGo := map[protoreflect.FullName]*model.Enum{}
			for _, e := range g.Enums {
				enumGo[e.Desc.FullName()] = e
			}
			var bad []string
			if len(goT.Elts) < len(enums)+len(msgs) {
				bad = append(bad, fmt.Sprintf("%d entries for %d enums + %d messages", len(goT.Elts), len(enums), len(msgs)))
			} else {
				for i, ed := range enums {
					t, ok := entryType(goT.Elts[i])
					eg := enumGo[ed.FullName()]
					if !ok || eg == nil || t == nil || !types.Identical(t, eg.Named) {
						bad = append(bad, fmt.Sprintf("entry %d is %s, expected the Go type of enum %s", i, types.ExprString(goT.Elts[i]), ed.FullName()))
					}
				}
				for i, md := range msgs {
					e := goT.Elts[len(enums)+i]
					t, ok := entryType(e)
					if md.IsMapEntry() {
						if !ok || t != nil {
							bad = append(bad, fmt.Sprintf("entry %d is %s, expected nil (map entry %s)", len(enums)+i, types.ExprString(e), md.FullName()))
						}
						continue
					}
					mg := msgGo[md.FullName()]
					if !ok || mg == nil || t == nil || !types.Identical(t, types.NewPointer(mg.Named)) {
						bad = append(bad, fmt.Sprintf("entry %d is %s, expected *%s (the Go type of message %s)", len(enums)+i, types.ExprString(e), goNameOf(mg), md.FullName()))
					}
				}
			}
			c.Check(len(bad) == 0, "COH.gotypes", con, fmt.Sprintf("%d enums then %d messages in TypeBuilder's flattened order, each bound to its own Go type", len(enums), len(msgs)),
				"Go type table does not follow the flattened declaration order of the descriptor: "+strings.Join(bad, "; "), c.PosStr(g.Fset, goT.Pos()), src)
			// depIdxs: field type_name dependencies
			dep := pkgVarLit(g, base+"_depIdxs")
			if dep == nil {
				c.Fail("COH.depidx", g.Name+" "+base+"_depIdxs", "table not found", "", src)
			} else {
				var want []protoreflect.Descriptor
				for _, md := range msgs {
					for i := 0; i < md.Fields().Len(); i++ {
						f := md.Fields().Get(i)
						if f.Enum() != nil {
							want = append(want, f.Enum())
						} else if f.Message() != nil {
							want = append(want, f.Message())
						}
					}
				}
				var bad2 []string
				// services: method input types then output types
				var ins, outs []protoreflect.Descriptor
				svcs := fdesc.Services()
				for i := 0; i < svcs.Len(); i++ {
					ms := svcs.Get(i).Methods()
					for j := 0; j < ms.Len(); j++ {
						ins = append(ins, ms.Get(j).Input())
						outs = append(outs, ms.Get(j).Output())
					}
				}
				nF := len(want)
				// extensions (flattened order): the extended messages, then the enum/message types of the extension fields
				exts := flatExts(fdesc)
				var xTargets, xDeps []protoreflect.Descriptor
				for _, x := range exts {
					xTargets = append(xTargets, x.ContainingMessage())
					if x.Enum() != nil {
						xDeps = append(xDeps, x.Enum())
					} else if x.Message() != nil {
						xDeps = append(xDeps, x.Message())
					}
				}
				all := append(append(append(append(append([]protoreflect.Descriptor{}, want...), xTargets...), xDeps...), ins...), outs...)
				if len(dep.Elts) != len(all)+5 {
					bad2 = append(bad2, fmt.Sprintf("%d entries, expected %d dependencies + 5 sub-list offsets", len(dep.Elts), len(all)))
				} else {
					for i, w := range all {
						k, ok := constIntE(info, dep.Elts[i])
						if !ok || k < 0 || int(k) >= len(goT.Elts) {
							bad2 = append(bad2, fmt.Sprintf("entry %d out of range", i))
							continue
						}
						switch d := w.(type) {
						case protoreflect.EnumDescriptor:
							if idx := indexEnum(enums, d); idx >= 0 {
								if int(k) != idx {
									bad2 = append(bad2, fmt.Sprintf("dependency %d (%s) points to entry %d, expected %d", i, d.FullName(), k, idx))
								}
							} else if t, ok := entryType(goT.Elts[k]); !ok || t == nil || !sameTail(tq(t), string(d.Name())) {
								bad2 = append(bad2, fmt.Sprintf("dependency %d (%s) points to entry %d = %s", i, d.FullName(), k, types.ExprString(goT.Elts[k])))
							} else if want, known := goTypeOf[src+"|"+string(d.FullName())]; known && tq(t) != want {
								bad2 = append(bad2, fmt.Sprintf("dependency %d (%s) points to entry %d = %s, which is not the Go type of that enum (%s)", i, d.FullName(), k, tq(t), want))
							}
						case protoreflect.MessageDescriptor:
							if idx := indexMsg(msgs, d); idx >= 0 {
								if int(k) != len(enums)+idx {
									bad2 = append(bad2, fmt.Sprintf("dependency %d (%s) points to entry %d, expected %d", i, d.FullName(), k, len(enums)+idx))
								}
							} else if t, ok := entryType(goT.Elts[k]); !ok || t == nil || !sameTail(tq(t), string(d.Name())) {
								bad2 = append(bad2, fmt.Sprintf("dependency %d (%s) points to entry %d = %s", i, d.FullName(), k, types.ExprString(goT.Elts[k])))
							} else if want, known := goTypeOf[src+"|"+string(d.FullName())]; known && tq(t) != want {
								bad2 = append(bad2, fmt.Sprintf("dependency %d (%s) points to entry %d = %s, which is not the Go type of that message (%s)", i, d.FullName(), k, tq(t), want))
							}
						}
					}
					nI := int64(len(ins))
					n := int64(nF)
					nXT, nXD := int64(len(xTargets)), int64(len(xDeps))
					for j, wv := range []int64{n + nXT + nXD + nI, n + nXT + nXD, n + nXT, n, 0} {
						if k, ok := constIntE(info, dep.Elts[len(all)+j]); !ok || k != wv {
							bad2 = append(bad2, fmt.Sprintf("sub-list offset %d is %d, expected %d", j, k, wv))
						}
					}
				}
				c.Check(len(bad2) == 0, "COH.depidx", g.Name+" "+base+"_depIdxs", fmt.Sprintf("%d field type dependencies resolve to the right table entries", len(want)), strings.Join(bad2, "; "), c.PosStr(g.Fset, dep.Pos()), src)
			}
			// per message: index into msgTypes
			for i, md := range msgs {
				if md.IsMapEntry() {
					continue
				}
				m := msgGo[md.FullName()]
				if m == nil {
					c.Fail("COH.msgindex", g.Name+" "+string(md.FullName()), "message has no Go type in this package", "", src)
					continue
				}
				idxExpr := base + "_msgTypes[" + strconv.Itoa(i) + "]"
				for _, mn := range []string{"slowProtoReflect", "Reset"} {
					fd := g.Funcs[m.GoName+"."+mn]
					con := fmt.Sprintf("%s.(*%s).%s", g.Name, m.GoName, mn)
					if fd == nil {
						c.Fail("COH.msgindex", con, "method not found", "", src)
						continue
					}
					got, cerr := canonBody(g, fd)
					var want []string
					if mn == "slowProtoReflect" {
						ms := "protoimpl.X.MessageStateOf(protoimpl.Pointer(x))"
						want = []string{"if ((x != nil) && protoimpl.UnsafeEnabled) {%t1 := " + ms + "; if (%t1.LoadMessageInfo() == nil) {%t1.StoreMessageInfo(&" + idxExpr + ")}; return %t1}; return &" + idxExpr + ".MessageOf(x)",
							"if ((x != nil) && protoimpl.UnsafeEnabled) {if (" + ms + ".LoadMessageInfo() == nil) {" + ms + ".StoreMessageInfo(&" + idxExpr + ")}; return " + ms + "}; return &" + idxExpr + ".MessageOf(x)"}
					} else {
						want = []string{"*x = " + tq(m.Named) + "{}; if protoimpl.UnsafeEnabled {protoimpl.X.MessageStateOf(protoimpl.Pointer(x)).StoreMessageInfo(&" + idxExpr + ")}"}
					}
					c.Check(cerr == "" && in(got, want), "COH.msgindex", con, "uses "+idxExpr+" (the message's flattened index); Reset zeroes *x",
						fmt.Sprintf("method does: %s ; expected: %s", clip(got, 400), want[0]), pos(c, g, fd.Pos()), src)
				}
			}
			// enums
			for i, ed := range enums {
				e := enumGo[ed.FullName()]
				if e == nil {
					c.Fail("COH.enum", g.Name+" "+string(ed.FullName()), "enum has no Go type in this package", "", src)
					continue
				}
				idxExpr := base + "_enumTypes[" + strconv.Itoa(i) + "]"
				wantBodies := map[string][]string{
					// (x.Number() is held to its own form below)
					"String":     {"return protoimpl.X.EnumStringOf(x.Descriptor(), protoreflect.EnumNumber(x))", "return protoimpl.X.EnumStringOf(x.Descriptor(), x.Number())"},
					"Descriptor": {"return " + idxExpr + ".Descriptor()", "return x.Type().Descriptor()"},
					"Type":       {"return &" + idxExpr},
					"Number":     {"return protoreflect.EnumNumber(x)"},
				}
				for mn, wants := range wantBodies {
					want := wants[0]
					fd := g.Funcs[e.GoName+"."+mn]
					con := fmt.Sprintf("%s.%s.%s", g.Name, e.GoName, mn)
					if fd == nil {
						c.Fail("COH.enum", con, "method not found", "", src)
						continue
					}
					got, cerr := canonBody(g, fd)
					c.Check(cerr == "" && in(got, wants), "COH.enum", con, want, fmt.Sprintf("method does: %s ; expected: %s", got, want), pos(c, g, fd.Pos()), src)
				}
				// name/value maps and constants
				checkEnumMaps(c, g, e)
			}
			// TypeBuilder counts
			checkTypeBuilder(c, g, base, len(enums), len(msgs))
			checkInitChain(c, g, v, base, fdesc)
			checkExtensions(c, g, base, fdesc)
			checkRawDescGZIP(c, g, base, len(enums)+len(msgs) > 0)
			// legacy Descriptor() / EnumDescriptor(): the compressed descriptor of this file plus the index path of the
			// declaration inside it (top-level index first)
			pathOf := func(d protoreflect.Descriptor) []int64 {
				var p []int64
				for ; d != nil; d = d.Parent() {
					if _, isFile := d.(protoreflect.FileDescriptor); isFile {
						break
					}
					p = append([]int64{int64(d.Index())}, p...)
				}
				return p
			}
			legacyPath := func(goName, method string, d protoreflect.Descriptor) {
				fd := g.Funcs[goName+"."+method]
				con := fmt.Sprintf("%s.%s.%s index path", g.Name, goName, method)
				if fd == nil {
					c.Fail("COH.legacy", con, "legacy method not found", "", src)
					return
				}
				want := pathOf(d)
				ok := false
				var got []int64
				if len(fd.Body.List) == 1 {
					if rs, isRet := fd.Body.List[0].(*ast.ReturnStmt); isRet && len(rs.Results) == 2 {
						call, isCall := ast.Unparen(rs.Results[0]).(*ast.CallExpr)
						cl, isLit := ast.Unparen(rs.Results[1]).(*ast.CompositeLit)
						if isCall && isLit && len(call.Args) == 0 && types.ExprString(call.Fun) == base+"_rawDescGZIP" {
							ok = true
							for _, e := range cl.Elts {
								k, isK := constIntE(info, e)
								if !isK {
									ok = false
								}
								got = append(got, k)
							}
							if len(got) != len(want) {
								ok = false
							}
							for i := range want {
								if ok && got[i] != want[i] {
									ok = false
								}
							}
						}
					}
				}
				c.Check(ok, "COH.legacy", con, fmt.Sprintf("returns %s_rawDescGZIP() and the path %v", base, want),
					fmt.Sprintf("does not return %s_rawDescGZIP() with the declaration's index path %v (found %v)", base, want, got), pos(c, g, fd.Pos()), src)
			}
			for _, md := range msgs {
				if m := msgGo[md.FullName()]; m != nil && !md.IsMapEntry() {
					legacyPath(m.GoName, "Descriptor", md)
				}
			}
			for _, ed := range enums {
				if e := enumGo[ed.FullName()]; e != nil {
					legacyPath(e.GoName, "EnumDescriptor", ed)
				}
			}
			checkMsgInfos(c, g, base, msgs, msgGo)
		}
		// ---- per message API
		fdVars := fdVarMap(g)
		mdVars := mdVarMap(g)
		for _, m := range g.Msgs {
			checkMessageAPI(c, g, m, fdVars, mdVars)
		}
	}
}

func goNameOf(m *model.Msg) string {
	if m == nil {
		return "?"
	}
	return m.GoName
}

func constIntE(info *types.Info, e ast.Expr) (int64, bool) {
	tv, ok := info.Types[e]
	if !ok || tv.Value == nil {
		return 0, false
	}
	return constant.Int64Val(constant.ToInt(tv.Value))
}

func indexEnum(es []protoreflect.EnumDescriptor, d protoreflect.EnumDescriptor) int {
	for i, e := range es {
		if e.FullName() == d.FullName() && e.ParentFile().Path() == d.ParentFile().Path() {
			return i
		}
	}
	return -1
}

func indexMsg(ms []protoreflect.MessageDescriptor, d protoreflect.MessageDescriptor) int {
	for i, m := range ms {
		if m.FullName() == d.FullName() && m.ParentFile().Path() == d.ParentFile().Path() {
			return i
		}
	}
	return -1
}

func goIdent(fn protoreflect.FullName, f protoreflect.FileDescriptor) string {
	s := strings.TrimPrefix(string(fn), string(f.Package())+".")
	return strings.ReplaceAll(s, ".", "_")
}

func sameTail(goType, protoName string) bool {
	// *pkg.A_B for message A.B: the last component must match
	goType = strings.TrimPrefix(goType, "*")
	if i := strings.LastIndexAny(goType, "._"); i >= 0 {
		return goType[i+1:] == protoName || strings.HasSuffix(goType, protoName)
	}
	return goType == protoName
}

func checkEnumMaps(c *core.Ctx, g *model.GenPkg, e *model.Enum) {
	src := g.Source
	name := pkgVarLit(g, e.GoName+"_name")
	value := pkgVarLit(g, e.GoName+"_value")
	con := g.Name + "." + e.GoName + " name/value maps"
	if name == nil || value == nil {
		c.Fail("COH.enum", con, "maps not found", "", src)
		return
	}
	wantN := map[int64]string{}
	wantV := map[string]int64{}
	vals := e.Desc.Values()
	for i := 0; i < vals.Len(); i++ {
		v := vals.Get(i)
		if _, dup := wantN[int64(v.Number())]; !dup {
			wantN[int64(v.Number())] = string(v.Name())
		}
		wantV[string(v.Name())] = int64(v.Number())
	}
	gotN := map[int64]string{}
	gotV := map[string]int64{}
	for _, el := range name.Elts {
		kv := el.(*ast.KeyValueExpr)
		k, _ := constIntE(g.Info, kv.Key)
		s, _ := strconv.Unquote(types.ExprString(kv.Value))
		gotN[k] = s
	}
	for _, el := range value.Elts {
		kv := el.(*ast.KeyValueExpr)
		s, _ := strconv.Unquote(types.ExprString(kv.Key))
		k, _ := constIntE(g.Info, kv.Value)
		gotV[s] = k
	}
	c.Check(reflect.DeepEqual(wantN, gotN) && reflect.DeepEqual(wantV, gotV), "COH.enum", con, fmt.Sprintf("%d values as in the descriptor", vals.Len()), fmt.Sprintf("maps %v / %v differ from the descriptor's values %v", gotN, gotV, wantV), c.PosStr(g.Fset, name.Pos()), src)
}

func flatExts(fd protoreflect.FileDescriptor) []protoreflect.ExtensionDescriptor {
	var out []protoreflect.ExtensionDescriptor
	xs := fd.Extensions()
	for i := 0; i < xs.Len(); i++ {
		out = append(out, xs.Get(i))
	}
	var walk func(ms protoreflect.MessageDescriptors)
	walk = func(ms protoreflect.MessageDescriptors) {
		for i := 0; i < ms.Len(); i++ {
			m := ms.Get(i)
			for j := 0; j < m.Extensions().Len(); j++ {
				out = append(out, m.Extensions().Get(j))
			}
			walk(m.Messages())
		}
	}
	walk(fd.Messages())
	return out
}

// goCamelCase is protobuf-go's strs.GoCamelCase.
func goCamelCase(s string) string {
	lower := func(c byte) bool { return 'a' <= c && c <= 'z' }
	digit := func(c byte) bool { return '0' <= c && c <= '9' }
	var b []byte
	for i := 0; i < len(s); i++ {
		c := s[i]
		switch {
		case c == '.' && i+1 < len(s) && lower(s[i+1]):
		case c == '.':
			b = append(b, '_')
		case c == '_' && (i == 0 || s[i-1] == '.'):
			b = append(b, 'X')
		case c == '_' && i+1 < len(s) && lower(s[i+1]):
		case digit(c):
			b = append(b, c)
		default:
			if lower(c) {
				c -= 'a' - 'A'
			}
			b = append(b, c)
			for ; i+1 < len(s) && lower(s[i+1]); i++ {
				b = append(b, s[i+1])
			}
		}
	}
	return string(b)
}

// checkExtensions (COH.ext): the extension table lists the file's extensions in protobuf-go's flattened order,
// each with its extendee, number, full name, wire tag, Go type and file; every E_<Name> variable points at the
// entry of the extension it is named after; the TypeBuilder receives the table and its length.
func checkExtensions(c *core.Ctx, g *model.GenPkg, base string, fdesc protoreflect.FileDescriptor) {
	src := g.Source
	exts := flatExts(fdesc)
	tbl := pkgVarLit(g, base+"_extTypes")
	con := g.Name + " " + base + "_extTypes"
	if len(exts) == 0 {
		if tbl != nil && len(tbl.Elts) > 0 {
			c.Fail("COH.ext", con, "extension table has entries but the descriptor declares no extension", "", src)
		}
		return
	}
	if tbl == nil || len(tbl.Elts) != len(exts) {
		c.Fail("COH.ext", con, fmt.Sprintf("extension table missing or of the wrong length (descriptor declares %d extensions)", len(exts)), "", src)
		return
	}
	info := g.Info
	var bad []string
	for k, x := range exts {
		cl, ok := tbl.Elts[k].(*ast.CompositeLit)
		if !ok {
			bad = append(bad, fmt.Sprintf("entry %d is not a literal", k))
			continue
		}
		got := map[string]ast.Expr{}
		for _, e := range cl.Elts {
			if kv, ok := e.(*ast.KeyValueExpr); ok {
				got[types.ExprString(kv.Key)] = kv.Value
			}
		}
		str := func(key string) string {
			if e := got[key]; e != nil {
				if tv := info.Types[e]; tv.Value != nil && tv.Value.Kind() == constant.String {
					return constant.StringVal(tv.Value)
				}
			}
			return "<missing>"
		}
		typeOf := func(key string) string {
			e := got[key]
			if e == nil {
				return "<missing>"
			}
			if call, ok := ast.Unparen(e).(*ast.CallExpr); ok {
				if tv, ok := info.Types[call.Fun]; ok && tv.IsType() {
					return tq(tv.Type)
				}
			}
			return types.ExprString(e)
		}
		name := fmt.Sprintf("entry %d (%s)", k, x.FullName())
		if n, ok := constIntE(info, got["Field"]); !ok || n != int64(x.Number()) {
			bad = append(bad, fmt.Sprintf("%s: Field is %s, expected %d", name, types.ExprString(got["Field"]), x.Number()))
		}
		if str("Name") != string(x.FullName()) {
			bad = append(bad, fmt.Sprintf("%s: Name is %q", name, str("Name")))
		}
		if str("Filename") != fdesc.Path() {
			bad = append(bad, fmt.Sprintf("%s: Filename is %q, expected %q", name, str("Filename"), fdesc.Path()))
		}
		if et := typeOf("ExtendedType"); !strings.HasPrefix(et, "*") || !sameTail(et, string(x.ContainingMessage().Name())) {
			bad = append(bad, fmt.Sprintf("%s: ExtendedType is %s, expected a pointer to the Go type of %s", name, et, x.ContainingMessage().FullName()))
		}
		// Go type of the value
		var wantT string
		switch {
		case x.Message() != nil:
			wantT = "*" + string(x.Message().Name())
		case x.Enum() != nil:
			wantT = "*" + string(x.Enum().Name())
		case x.Kind() == protoreflect.BytesKind:
			wantT = "[]byte"
		default:
			wantT = "*" + goKindType(x.Kind())
		}
		if x.IsList() {
			wantT = "[]" + strings.TrimPrefix(wantT, "*")
			if x.Message() != nil {
				wantT = "[]*" + string(x.Message().Name())
			}
		}
		gt := typeOf("ExtensionType")
		okT := gt == wantT
		if !okT && (x.Message() != nil || x.Enum() != nil) {
			// qualified or nested Go names: same shape, same tail
			shape := wantT[:strings.LastIndexAny(wantT, "*]")+1]
			var tail string
			if x.Message() != nil {
				tail = string(x.Message().Name())
			} else {
				tail = string(x.Enum().Name())
			}
			okT = strings.HasPrefix(gt, shape) && sameTail(gt, tail)
		}
		if !okT {
			bad = append(bad, fmt.Sprintf("%s: ExtensionType is %s, expected %s", name, gt, wantT))
		}
		// wire tag
		tag := tagKeyword(x.Kind()) + "," + strconv.Itoa(int(x.Number()))
		if x.IsList() {
			tag += ",rep"
			if x.IsPacked() {
				tag += ",packed"
			}
		} else {
			tag += ",opt"
		}
		tag += ",name=" + string(x.Name())
		if x.HasJSONName() && !strings.HasPrefix(x.JSONName(), "[") && x.JSONName() != protosrcJSON(string(x.Name())) {
			tag += ",json=" + x.JSONName()
		}
		if x.Enum() != nil {
			tag += ",enum=" + string(x.Enum().FullName())
		}
		if str("Tag") != tag {
			bad = append(bad, fmt.Sprintf("%s: Tag is %q, expected %q", name, str("Tag"), tag))
		}
	}
	c.Check(len(bad) == 0, "COH.ext", con, fmt.Sprintf("%d extensions in flattened order with their extendee, number, name, tag, Go type and file", len(exts)), strings.Join(bad, "; "), c.PosStr(g.Fset, tbl.Pos()), src)
	// E_ variables
	seen := map[int]string{}
	var bad2 []string
	for _, f := range g.Files {
		for _, d := range f.Decls {
			gd, ok := d.(*ast.GenDecl)
			if !ok || gd.Tok != token.VAR {
				continue
			}
			for _, sp := range gd.Specs {
				vs := sp.(*ast.ValueSpec)
				for i, n := range vs.Names {
					if i >= len(vs.Values) {
						continue
					}
					ue, ok := ast.Unparen(vs.Values[i]).(*ast.UnaryExpr)
					if !ok || ue.Op != token.AND {
						continue
					}
					ix, ok := ast.Unparen(ue.X).(*ast.IndexExpr)
					if !ok || types.ExprString(ix.X) != base+"_extTypes" {
						continue
					}
					k, ok := constIntE(info, ix.Index)
					if !ok || k < 0 || int(k) >= len(exts) {
						bad2 = append(bad2, n.Name+" indexes outside the table")
						continue
					}
					x := exts[k]
					want := "E_" + goCamelCase(string(x.Name()))
					if pm, ok := x.Parent().(protoreflect.MessageDescriptor); ok {
						want = "E_" + goCamelCase(strings.TrimPrefix(string(pm.FullName()), string(fdesc.Package())+".")) + "_" + goCamelCase(string(x.Name()))
					}
					if n.Name != want {
						bad2 = append(bad2, fmt.Sprintf("%s points at entry %d, which is extension %s (its variable is %s)", n.Name, k, x.FullName(), want))
					}
					if prev, dup := seen[int(k)]; dup {
						bad2 = append(bad2, fmt.Sprintf("%s and %s share entry %d", prev, n.Name, k))
					}
					seen[int(k)] = n.Name
				}
			}
		}
	}
	if len(seen) != len(exts) {
		bad2 = append(bad2, fmt.Sprintf("%d extension variables for %d extensions", len(seen), len(exts)))
	}
	c.Check(len(bad2) == 0, "COH.ext", g.Name+" "+base+" extension variables", fmt.Sprintf("%d E_ variables, each bound to the entry of its own extension", len(exts)), strings.Join(bad2, "; "), c.PosStr(g.Fset, tbl.Pos()), src)
	// TypeBuilder
	if initFn := g.Funcs[base+"_init"]; initFn != nil {
		got := map[string]string{}
		ast.Inspect(initFn.Body, func(n ast.Node) bool {
			if kv, ok := n.(*ast.KeyValueExpr); ok {
				if id, ok := kv.Key.(*ast.Ident); ok && (id.Name == "NumExtensions" || id.Name == "ExtensionInfos") {
					got[id.Name] = types.ExprString(kv.Value)
				}
			}
			return true
		})
		c.Check(got["NumExtensions"] == strconv.Itoa(len(exts)) && got["ExtensionInfos"] == base+"_extTypes", "COH.ext", g.Name+" "+base+"_init extensions",
			fmt.Sprintf("NumExtensions=%d, ExtensionInfos=%s_extTypes", len(exts), base), fmt.Sprintf("TypeBuilder has %v for %d extensions", got, len(exts)), pos(c, g, initFn.Pos()), src)
	}
}

// protosrcJSON is protoc's default json name.
func protosrcJSON(n string) string {
	var sb strings.Builder
	up := false
	for i := 0; i < len(n); i++ {
		ch := n[i]
		if ch == '_' {
			up = true
			continue
		}
		if up && ch >= 'a' && ch <= 'z' {
			ch -= 'a' - 'A'
		}
		up = false
		sb.WriteByte(ch)
	}
	return sb.String()
}

func checkTypeBuilder(c *core.Ctx, g *model.GenPkg, base string, nEnums, nMsgs int) {
	src := g.Source
	initFn := g.Funcs[base+"_init"]
	con := g.Name + " " + base + "_init TypeBuilder"
	if initFn == nil {
		c.Fail("COH.builder", con, "init function not found", "", src)
		return
	}
	got := map[string]string{}
	ast.Inspect(initFn.Body, func(n ast.Node) bool {
		kv, ok := n.(*ast.KeyValueExpr)
		if !ok {
			return true
		}
		if id, ok := kv.Key.(*ast.Ident); ok {
			switch id.Name {
			case "NumEnums", "NumMessages", "RawDescriptor", "GoTypes", "DependencyIndexes", "EnumInfos", "MessageInfos":
				got[id.Name] = types.ExprString(kv.Value)
			}
		}
		return true
	})
	ok := got["NumEnums"] == strconv.Itoa(nEnums) && got["NumMessages"] == strconv.Itoa(nMsgs) && got["RawDescriptor"] == base+"_rawDesc" &&
		got["GoTypes"] == base+"_goTypes" && got["DependencyIndexes"] == base+"_depIdxs" && (nMsgs == 0 || got["MessageInfos"] == base+"_msgTypes") && (nEnums == 0 || got["EnumInfos"] == base+"_enumTypes")
	c.Check(ok, "COH.builder", con, fmt.Sprintf("NumEnums=%d NumMessages=%d and the file's own tables", nEnums, nMsgs), fmt.Sprintf("TypeBuilder literal %v does not match %d enums / %d messages / the file's own tables", got, nEnums, nMsgs), pos(c, g, initFn.Pos()), src)
}

// checkMsgInfos: in the file's init function, msgTypes[k].OneofWrappers lists exactly the wrappers of
// message k and msgTypes[k].Exporter asserts message k's Go type.
func checkMsgInfos(c *core.Ctx, g *model.GenPkg, base string, msgs []protoreflect.MessageDescriptor, msgGo map[protoreflect.FullName]*model.Msg) {
	src := g.Source
	initFn := g.Funcs[base+"_init"]
	if initFn == nil {
		return
	}
	info := g.Info
	idxOf := func(x ast.Expr) (int, string, bool) {
		// file_x_msgTypes[k].Field
		sel, ok := x.(*ast.SelectorExpr)
		if !ok {
			return 0, "", false
		}
		ie, ok := sel.X.(*ast.IndexExpr)
		if !ok || types.ExprString(ie.X) != base+"_msgTypes" {
			return 0, "", false
		}
		k, ok := constIntE(info, ie.Index)
		return int(k), sel.Sel.Name, ok
	}
	seenW := map[int]bool{}
	ast.Inspect(initFn.Body, func(n ast.Node) bool {
		as, ok := n.(*ast.AssignStmt)
		if !ok || len(as.Lhs) != 1 || len(as.Rhs) != 1 {
			return true
		}
		k, field, ok := idxOf(as.Lhs[0])
		if !ok {
			return true
		}
		con := fmt.Sprintf("%s %s_msgTypes[%d].%s", g.Name, base, k, field)
		if k < 0 || k >= len(msgs) || msgGo[msgs[k].FullName()] == nil {
			c.Fail("COH.msginfo", con, "index does not denote a message with a Go type", c.PosStr(g.Fset, as.Pos()), src)
			return true
		}
		m := msgGo[msgs[k].FullName()]
		switch field {
		case "OneofWrappers":
			seenW[k] = true
			var got []string
			if cl, ok := as.Rhs[0].(*ast.CompositeLit); ok {
				for _, e := range cl.Elts {
					if call, ok := ast.Unparen(e).(*ast.CallExpr); ok {
						if tv, ok := info.Types[call.Fun]; ok && tv.IsType() {
							got = append(got, tq(tv.Type))
						}
					}
				}
			}
			var want []string
			for _, f := range m.Fields {
				if f.Oneof != nil {
					want = append(want, "*"+tq(f.Wrapper))
				}
			}
			sort.Strings(got)
			sort.Strings(want)
			c.Check(strings.Join(got, ",") == strings.Join(want, ","), "COH.msginfo", con, fmt.Sprintf("%d wrappers of message %s", len(want), m.GoName),
				fmt.Sprintf("wrapper list %v is not the set of oneof wrappers of message %s (%v)", got, m.GoName, want), c.PosStr(g.Fset, as.Pos()), src)
		case "Exporter":
			okT := false
			ast.Inspect(as.Rhs[0], func(x ast.Node) bool {
				if ta, ok := x.(*ast.TypeAssertExpr); ok && ta.Type != nil {
					if t := info.TypeOf(ta.Type); t != nil && types.Identical(t, types.NewPointer(m.Named)) {
						okT = true
					}
				}
				return true
			})
			c.Check(okT, "COH.msginfo", con, "exporter asserts *"+m.GoName, "exporter of this message info does not assert *"+m.GoName, c.PosStr(g.Fset, as.Pos()), src)
		}
		return true
	})
	for k, md := range msgs {
		m := msgGo[md.FullName()]
		if m == nil || len(m.Oneofs) == 0 {
			continue
		}
		if !seenW[k] {
			c.Fail("COH.msginfo", fmt.Sprintf("%s %s_msgTypes[%d].OneofWrappers", g.Name, base, k), "message "+m.GoName+" has oneofs but its message info has no wrapper list", "", src)
		}
	}
}

// mdVarMap: md_X package variable -> message path ("A" / "A.B.C"), from chains
// <File>.Messages().ByName("A").Messages().ByName("B")… or <md var>.Messages().ByName("B").
func mdVarMap(g *model.GenPkg) map[string]string {
	out := map[string]string{}
	byObj := map[types.Object]string{}
	for _, file := range g.Files {
		for _, d := range file.Decls {
			fd, ok := d.(*ast.FuncDecl)
			if !ok || fd.Name.Name != "init" || fd.Recv != nil || fd.Body == nil {
				continue
			}
			for _, s := range fd.Body.List {
				as, ok := s.(*ast.AssignStmt)
				if !ok || len(as.Lhs) != 1 {
					continue
				}
				id, ok := as.Lhs[0].(*ast.Ident)
				if !ok {
					continue
				}
				var names []string
				x := as.Rhs[0]
				base := ""
				okChain := true
				for {
					call, ok := x.(*ast.CallExpr)
					if !ok {
						break
					}
					sel, ok := call.Fun.(*ast.SelectorExpr)
					if !ok || sel.Sel.Name != "ByName" || len(call.Args) != 1 {
						okChain = false
						break
					}
					inner, ok := sel.X.(*ast.CallExpr)
					if !ok {
						okChain = false
						break
					}
					isel, ok := inner.Fun.(*ast.SelectorExpr)
					if !ok || isel.Sel.Name != "Messages" {
						okChain = false
						break
					}
					nm, _ := strconv.Unquote(types.ExprString(call.Args[0]))
					names = append([]string{nm}, names...)
					x = isel.X
				}
				if !okChain || len(names) == 0 {
					continue
				}
				if bid, ok := x.(*ast.Ident); ok {
					if p, ok := byObj[g.Info.ObjectOf(bid)]; ok {
						base = p + "."
					}
				}
				path := base + strings.Join(names, ".")
				byObj[g.Info.ObjectOf(id)] = path
				out[id.Name] = path
			}
		}
	}
	return out
}

func checkMessageAPI(c *core.Ctx, g *model.GenPkg, m *model.Msg, fdVars map[types.Object]string, mdVars map[string]string) {
	src := g.Source
	pkgPrefix := ""
	if p := string(m.Desc.ParentFile().Package()); p != "" {
		pkgPrefix = p + "."
	}
	rel := strings.TrimPrefix(string(m.Desc.FullName()), pkgPrefix)
	// md variable used by Descriptor()
	fast := m.Fast.Obj().Name()
	mt := fast + "_messageType"
	mtVar := "_" + fast + "_messageType"
	// find the md variable whose path is this message
	mdName := ""
	for v, p := range mdVars {
		if p == rel {
			if mdName == "" || v < mdName {
				mdName = v
			}
		}
	}
	c.Check(mdName != "", "COH.md", m.Q()+" descriptor variable", mdName+" = …ByName chain resolving to "+rel, "no md_ variable is initialised with the descriptor of "+rel, "", src)
	// every field has an fd variable resolving to it
	have := map[string]bool{}
	for _, p := range fdVars {
		have[p] = true
	}
	var missing []string
	for _, f := range m.Fields {
		if !have[rel+"."+string(f.Desc.Name())] {
			missing = append(missing, string(f.Desc.Name()))
		}
	}
	c.Check(len(missing) == 0, "COH.md", m.Q()+" field descriptor variables", fmt.Sprintf("%d fd_ variables resolve by name through the parent chain", len(m.Fields)), fmt.Sprintf("fields without a descriptor variable: %v", missing), "", src)
	want := map[string][]string{
		mt + ".Zero":          {"return *" + tq(m.Fast) + "(nil)", "var %t1 *" + tq(m.Fast) + "; return %t1"},
		mt + ".New":           {"return new(" + tq(m.Fast) + ")", "return &" + tq(m.Fast) + "{}"},
		mt + ".Descriptor":    {"return " + mdName},
		fast + ".Descriptor":  {"return " + mdName},
		fast + ".Type":        {"return " + mtVar},
		// (or through the type singleton, whose New is held to the form above)
		fast + ".New":         {"return new(" + tq(m.Fast) + ")", "return &" + tq(m.Fast) + "{}", "return " + mtVar + ".New()"},
		fast + ".Interface":   {"return *" + tq(m.Named) + "(x)"},
		m.GoName + ".ProtoReflect": {"return *" + tq(m.Fast) + "(x)"},
		m.GoName + ".String":       {"return protoimpl.X.MessageStringOf(x)"},
		fast + ".IsValid":          {"return (x != nil)"},
	}
	var ks []string
	for k := range want {
		ks = append(ks, k)
	}
	sort.Strings(ks)
	for _, k := range ks {
		fd := g.Funcs[k]
		con := g.Name + "." + k
		if fd == nil {
			c.Fail("COH.type", con, "method not found", "", src)
			continue
		}
		got, cerr := canonBody(g, fd)
		c.Check(cerr == "" && in(got, want[k]), "COH.type", con, got, fmt.Sprintf("method does: %s ; expected: %s", got, want[k][0]), pos(c, g, fd.Pos()), src)
	}
	// the message type singleton variable has the messageType type
	if o, ok := g.Types.Scope().Lookup(mtVar).(*types.Var); !ok || tq(o.Type()) != pkgLabel(g.Types)+"."+mt {
		c.Fail("COH.type", g.Name+"."+mtVar, "message type singleton not found or of the wrong type", "", src)
	}
	// struct tags
	for _, f := range m.Fields {
		con := f.Q() + " struct tag"
		_, parts, ok := model.TagNumber(f.Tag)
		if !ok {
			c.Fail("COH.tags", con, "no protobuf tag", "", src)
			continue
		}
		fd := f.Desc
		var bad []string
		k := fd.Kind()
		if fd.IsMap() {
			k = protoreflect.MessageKind
		}
		if parts[0] != tagKeyword(k) {
			bad = append(bad, "wire keyword "+parts[0]+" for kind "+fd.Kind().String())
		}
		lab := "opt"
		if fd.Cardinality() == protoreflect.Repeated {
			lab = "rep"
		}
		has := func(s string) bool {
			for _, p := range parts[2:] {
				if p == s {
					return true
				}
			}
			return false
		}
		if !has(lab) {
			bad = append(bad, "label is not "+lab)
		}
		if !has("name=" + string(fd.Name())) {
			bad = append(bad, "name= is not "+string(fd.Name()))
		}
		if has("packed") != fd.IsPacked() {
			bad = append(bad, fmt.Sprintf("packed flag %v, descriptor says %v", has("packed"), fd.IsPacked()))
		}
		if has("oneof") != (f.Oneof != nil) {
			bad = append(bad, "oneof flag")
		}
		if !has("proto3") {
			bad = append(bad, "proto3 flag missing")
		}
		// Go type agrees with the kind
		gt := fieldGoTypeOf(f)
		if fd.IsList() {
			if sl, ok := gt.(*types.Slice); ok {
				gt = sl.Elem()
			} else {
				bad = append(bad, "repeated field is not a slice")
			}
		}
		if !fd.IsMap() {
			if w := goKindType(fd.Kind()); w != "" && tq(gt.Underlying()) != w && tq(gt) != w {
				bad = append(bad, "Go type "+tq(gt)+" for kind "+fd.Kind().String())
			}
		} else {
			st := reflect.StructTag(f.Tag)
			kt, vt := strings.Split(st.Get("protobuf_key"), ","), strings.Split(st.Get("protobuf_val"), ",")
			if kt[0] != tagKeyword(fd.MapKey().Kind()) || vt[0] != tagKeyword(fd.MapValue().Kind()) {
				bad = append(bad, "map key/value tags "+kt[0]+"/"+vt[0])
			}
		}
		c.Check(len(bad) == 0, "COH.tags", con, strings.Join(parts, ","), strings.Join(bad, "; "), "", src)
		// getters
		checkGetter(c, g, m, f)
	}
	for _, o := range m.Oneofs {
		fd := g.Funcs[m.GoName+".Get"+o.GoName]
		con := fmt.Sprintf("%s.(*%s).Get%s", g.Name, m.GoName, o.GoName)
		if fd == nil {
			c.Fail("COH.getter", con, "oneof getter not found", "", src)
			continue
		}
		got, cerr := canonBody(g, fd)
		want := "if (x != nil) {return x." + o.GoName + "}; return nil"
		guardFirst := "if (x == nil) {return nil}; return x." + o.GoName
		c.Check(cerr == "" && (got == want || got == guardFirst), "COH.getter", con, want, "getter does: "+got+" ; expected: "+want, pos(c, g, fd.Pos()), src)
	}
}

func fieldGoTypeOf(f *model.Field) types.Type {
	if f.Oneof != nil {
		return f.WrapperField.Type()
	}
	return f.Var.Type()
}

func checkGetter(c *core.Ctx, g *model.GenPkg, m *model.Msg, f *model.Field) {
	src := g.Source
	fd := g.Funcs[m.GoName+".Get"+f.GoName]
	con := fmt.Sprintf("%s.(*%s).Get%s", g.Name, m.GoName, f.GoName)
	if fd == nil {
		c.Fail("COH.getter", con, "getter not found", "", src)
		return
	}
	got, cerr := canonBody(g, fd)
	k := f.Desc.Kind()
	var zeros []string
	switch {
	case f.Desc.IsList() || f.Desc.IsMap() || k == protoreflect.MessageKind || k == protoreflect.BytesKind:
		zeros = []string{"nil"}
	case k == protoreflect.EnumKind:
		// the enum's first value constant (number 0 in proto3)
		zeros = []string{"0"}
		// … by name only for an enum of this very package: how another package names its constants is up to whatever
		// generated it (golang/protobuf#513), the conversion pkg.Enum(0) always compiles
		if ev := f.Desc.Enum().Values(); ev.Len() > 0 {
			if cn := enumConstName(g, f, ev.Get(0)); !strings.Contains(cn, ".") {
				zeros = append(zeros, cn)
			}
		}
	case k == protoreflect.BoolKind:
		zeros = []string{"false"}
	case k == protoreflect.StringKind:
		zeros = []string{`""`}
	default:
		zeros = []string{"0"}
	}
	var want []string
	for _, z := range zeros {
		if f.Oneof != nil {
			want = append(want, "if %v, %ok := x.Get"+f.Oneof.GoName+"().(*"+tq(f.Wrapper)+"); %ok {return %v."+f.GoName+"}; return "+z)
		} else {
			want = append(want, "if (x != nil) {return x."+f.GoName+"}; return "+z, "if (x == nil) {return "+z+"}; return x."+f.GoName)
		}
	}
	if f.Oneof != nil && !(cerr == "" && in(got, want)) {
		// another arrangement of the same tests: decided on every shape of the oneof
		mi := memberIndex(f.Oneof, f)
		e := newOneofEval(g, fd, f.Oneof, f.Oneof.Members)
		spec := func(sh oneofShape) []string {
			var out []string
			if sh.member == mi && !sh.nilPtr {
				return []string{"return %w." + f.GoName}
			}
			for _, z := range zeros {
				out = append(out, "return "+z)
			}
			if sh.member == mi {
				// a nil wrapper pointer of this member: protoc-gen-go's getter dereferences it; returning the default is as good
				out = append(out, "nilderef")
			}
			return out
		}
		if ok, _ := decideOneof(e, fd.Body.List, len(f.Oneof.Members), spec); mi >= 0 && ok {
			c.Ok("COH.getter", con, "the member's value when it is held, the default otherwise — in every shape of the oneof, evaluated on the syntax tree", pos(c, g, fd.Pos()), src)
			return
		}
	}
	c.Check(cerr == "" && in(got, want), "COH.getter", con, got, "getter does: "+got+" ; expected: "+want[0], pos(c, g, fd.Pos()), src)
}

// enumConstName finds the Go constant of an enum value by type and value.
func enumConstName(g *model.GenPkg, f *model.Field, v protoreflect.EnumValueDescriptor) string {
	gt := fieldGoTypeOf(f)
	if sl, ok := gt.(*types.Slice); ok {
		gt = sl.Elem()
	}
	named, ok := gt.(*types.Named)
	if !ok || named.Obj().Pkg() == nil {
		return "?"
	}
	scope := named.Obj().Pkg().Scope()
	for _, n := range scope.Names() {
		if k, ok := scope.Lookup(n).(*types.Const); ok && types.Identical(k.Type(), named) {
			if val, ok := constant.Int64Val(constant.ToInt(k.Val())); ok && val == int64(v.Number()) && strings.HasSuffix(n, "_"+string(v.Name())) {
				if named.Obj().Pkg() != g.Types {
					return named.Obj().Pkg().Name() + "." + n
				}
				return n
			}
		}
	}
	return "?"
}

// checkInitChain (COH.initchain): a file's init function first initialises every file it imports that lives in the
// same Go package (their types are referenced by this file's goTypes/depIdxs tables); without the call the
// descriptor is built against uninitialised dependencies whenever this file's init happens to run first.
func checkInitChain(c *core.Ctx, g *model.GenPkg, rawVar, base string, fdesc protoreflect.FileDescriptor) {
	src := g.Source
	initFn := g.Funcs[base+"_init"]
	if initFn == nil {
		return // reported by COH.builder
	}
	sameGoPkg := map[string]string{} // proto file name -> base of its tables
	for v, fdp := range g.RawVars {
		if v != rawVar {
			sameGoPkg[fdp.GetName()] = strings.TrimSuffix(v, "_rawDesc")
		}
	}
	// files of the same Go package generated by another generator (protoc-gen-go for a proto2 neighbour): their init
	// function exists in the package under the standard name
	for i, imps := 0, fdesc.Imports(); i < imps.Len(); i++ {
		dep := imps.Get(i).Path()
		if _, known := sameGoPkg[dep]; known {
			continue
		}
		cand := "file_" + strings.Map(func(r rune) rune {
			if r == '_' || (r >= 'a' && r <= 'z') || (r >= 'A' && r <= 'Z') || (r >= '0' && r <= '9') {
				return r
			}
			return '_'
		}, dep)
		if fn, ok := g.Types.Scope().Lookup(cand + "_init").(*types.Func); ok && fn != nil {
			sameGoPkg[dep] = cand
		}
	}
	builderAt := -1
	calls := map[string]int{}
	for i, st := range initFn.Body.List {
		if es, ok := st.(*ast.ExprStmt); ok {
			if call, ok := es.X.(*ast.CallExpr); ok && len(call.Args) == 0 {
				if id, ok := call.Fun.(*ast.Ident); ok {
					if _, seen := calls[id.Name]; !seen {
						calls[id.Name] = i
					}
				}
			}
		}
		if builderAt < 0 {
			ast.Inspect(st, func(n ast.Node) bool {
				if sel, ok := n.(*ast.SelectorExpr); ok && sel.Sel.Name == "TypeBuilder" {
					builderAt = i
				}
				return true
			})
		}
	}
	// the file registers itself when the package is initialised: some `func init()` calls <base>_init()
	registered := false
	var bodyGuard bool
	for _, f := range g.Files {
		for _, d := range f.Decls {
			fd, ok := d.(*ast.FuncDecl)
			if !ok || fd.Recv != nil || fd.Name.Name != "init" || fd.Body == nil {
				continue
			}
			for _, st := range fd.Body.List {
				if es, ok := st.(*ast.ExprStmt); ok {
					if call, ok := es.X.(*ast.CallExpr); ok && len(call.Args) == 0 {
						if id, ok := call.Fun.(*ast.Ident); ok && id.Name == base+"_init" {
							registered = true
						}
					}
				}
			}
		}
	}
	// and <base>_init is idempotent: it returns at once when File_<x> is already set
	if len(initFn.Body.List) > 0 {
		if is, ok := initFn.Body.List[0].(*ast.IfStmt); ok && is.Init == nil && is.Else == nil && len(is.Body.List) == 1 {
			if _, isRet := is.Body.List[0].(*ast.ReturnStmt); isRet {
				if be, ok := ast.Unparen(is.Cond).(*ast.BinaryExpr); ok && be.Op == token.NEQ && strings.HasPrefix(types.ExprString(be.X), "File_") && types.ExprString(be.Y) == "nil" {
					bodyGuard = true
				}
			}
		}
	}
	c.Check(registered && bodyGuard, "COH.initchain", g.Name+" "+base+"_init registration", "a package init function calls "+base+"_init(), which returns at once when the file is already initialised",
		fmt.Sprintf("package initialisation does not register the file (init calls %s_init: %v; idempotence guard `if File_… != nil { return }`: %v): the descriptor would not be in the global registry until something else touches it", base, registered, bodyGuard), pos(c, g, initFn.Pos()), src)
	imps := fdesc.Imports()
	for i := 0; i < imps.Len(); i++ {
		dep := imps.Get(i).Path()
		depBase, same := sameGoPkg[dep]
		if !same {
			continue
		}
		con := g.Name + " " + base + "_init -> " + dep
		at, ok := calls[depBase+"_init"]
		c.Check(ok && (builderAt < 0 || at < builderAt), "COH.initchain", con, "calls "+depBase+"_init() before building its own types",
			"the imported file "+dep+" is generated into the same Go package but "+base+"_init does not call "+depBase+"_init() before the TypeBuilder: when this file's init runs first its message and enum dependencies are unresolved placeholders", pos(c, g, initFn.Pos()), src)
	}
}

// pkgVarInit returns the initialiser expression of a package variable.
func pkgVarInit(g *model.GenPkg, name string) ast.Expr {
	for _, f := range g.Files {
		for _, d := range f.Decls {
			gd, ok := d.(*ast.GenDecl)
			if !ok || gd.Tok != token.VAR {
				continue
			}
			for _, sp := range gd.Specs {
				vs := sp.(*ast.ValueSpec)
				for i, n := range vs.Names {
					if n.Name == name && i < len(vs.Values) {
						return vs.Values[i]
					}
				}
			}
		}
	}
	return nil
}

// checkRawDescGZIP (COH.legacy): the bytes the legacy Descriptor()/EnumDescriptor() methods hand out are the
// gzip-compressed raw descriptor: <base>_rawDescData starts as <base>_rawDesc (the init function later sets
// <base>_rawDesc to nil) and <base>_rawDescGZIP compresses and returns <base>_rawDescData, once.
func checkRawDescGZIP(c *core.Ctx, g *model.GenPkg, base string, needed bool) {
	src := g.Source
	con := g.Name + " " + base + "_rawDescGZIP"
	fd := g.Funcs[base+"_rawDescGZIP"]
	if fd == nil {
		if !needed {
			// no enum or message of the file hands the legacy descriptor out: protoc-gen-go emits no such function
			c.Ok("COH.legacy", con, "the file declares neither enums nor messages: no legacy descriptor accessor is needed", "", src)
			return
		}
		c.Fail("COH.legacy", con, "function not found", "", src)
		return
	}
	init := pkgVarInit(g, base+"_rawDescData")
	initOK := init != nil && types.ExprString(init) == base+"_rawDesc"
	want := fmt.Sprintf("%[1]s_rawDescOnce.Do(func() { %[1]s_rawDescData = protoimpl.X.CompressGZIP(%[1]s_rawDescData) }); return %[1]s_rawDescData", base)
	got := "a different statement structure"
	shape := false
	if len(fd.Body.List) == 2 {
		if es, ok := fd.Body.List[0].(*ast.ExprStmt); ok {
			if call, ok := es.X.(*ast.CallExpr); ok && len(call.Args) == 1 && types.ExprString(call.Fun) == base+"_rawDescOnce.Do" {
				if fl, ok := call.Args[0].(*ast.FuncLit); ok && len(fl.Body.List) == 1 {
					if rs, ok := fd.Body.List[1].(*ast.ReturnStmt); ok && len(rs.Results) == 1 {
						if as, ok := fl.Body.List[0].(*ast.AssignStmt); ok && as.Tok == token.ASSIGN && len(as.Lhs) == 1 && len(as.Rhs) == 1 {
							got = fmt.Sprintf("%s(func() { %s = %s }); return %s", types.ExprString(call.Fun), types.ExprString(as.Lhs[0]), qualExpr(g.Info, as.Rhs[0]), types.ExprString(rs.Results[0]))
							shape = true
						}
					}
				}
			}
		}
	}
	ok := initOK && shape && got == want
	if ok {
		// the compressor is protobuf-go's
		ok = false
		ast.Inspect(fd.Body, func(n ast.Node) bool {
			if call, ok2 := n.(*ast.CallExpr); ok2 {
				if q := core.QualName(core.CalleeObj(g.Info, call)); strings.HasSuffix(q, "CompressGZIP") && strings.Contains(q, "google.golang.org/protobuf/") {
					ok = true
				}
			}
			return true
		})
	}
	detail := "body is: " + got
	if !initOK {
		detail = base + "_rawDescData is not initialised with " + base + "_rawDesc"
	}
	c.Check(ok, "COH.legacy", con, "compresses and returns "+base+"_rawDescData, which starts as the raw descriptor",
		"the legacy descriptor bytes are not the compressed raw descriptor ("+base+"_rawDesc is nil after init; only "+base+"_rawDescData keeps the bytes): "+detail+"; expected: "+want, pos(c, g, fd.Pos()), src)
}
