package refl

import (
	"fmt"
	"go/ast"
	"go/token"
	"go/types"
	"sort"
	"strings"

	"verif/checker/internal/core"
	"verif/checker/internal/model"
)

// PURE — effect analysis of the read-only entry points.
//
// A function is write-free when every store it performs targets (a) a local
// variable itself, (b) memory freshly allocated in this activation (make, new,
// composite literal, append to a fresh slice), or (c) a by-value parameter's own
// copy; and every call goes to a callee from the summary table below (pure, or
// writing only into a fresh buffer passed to it) or to a function-typed
// parameter (its effects belong to the caller of the read operation).
// Anything else is reported. Closures are analysed together with their parent
// (captured variables keep their classification).

var pureCallees = map[string]string{
	"len": "builtin", "cap": "builtin", "panic": "builtin", "new": "alloc", "make": "alloc", "append": "alloc-or-fresh", "copy": "fresh-dst", "delete": "WRITE",
	"fmt.Errorf": "pure", "fmt.Sprintf": "pure", "fmt.Sprint": "pure",
	"google.golang.org/protobuf/encoding/protowire.EncodeZigZag": "pure", "google.golang.org/protobuf/encoding/protowire.DecodeZigZag": "pure",
	"google.golang.org/protobuf/encoding/protowire.SizeVarint": "pure", "google.golang.org/protobuf/encoding/protowire.SizeBytes": "pure", "google.golang.org/protobuf/encoding/protowire.SizeTag": "pure",
	"math.Signbit": "pure", "math.Float32bits": "pure", "math.Float64bits": "pure", "math.Float32frombits": "pure", "math.Float64frombits": "pure",
	"sort.Slice": "fresh-arg0", "sort.SliceStable": "fresh-arg0", "sort.Strings": "fresh-arg0", "sort.Sort": "fresh-arg0", "sort.Ints": "fresh-arg0", "slices.Sort": "fresh-arg0",
	"encoding/binary.littleEndian.PutUint32": "fresh-arg0", "encoding/binary.littleEndian.PutUint64": "fresh-arg0", "encoding/binary.PutUvarint": "fresh-arg0", "encoding/binary.PutVarint": "fresh-arg0",
	"encoding/binary.littleEndian.Uint32": "pure", "encoding/binary.littleEndian.Uint64": "pure",
	core.RepoModule + "/runtime.Sov": "pure", core.RepoModule + "/runtime.Soz": "pure", core.RepoModule + "/runtime.EncodeVarint": "fresh-arg0", core.RepoModule + "/runtime.Skip": "pure",
	core.RepoModule + "/runtime.SizeInputToOptions": "pure", core.RepoModule + "/runtime.MarshalInputToOptions": "pure", core.RepoModule + "/runtime.UnmarshalInputToOptions": "pure",
	"google.golang.org/protobuf/proto.MarshalOptions.Size":    "pure (by induction for generated types; protobuf-go uses atomics for its own caches: A3)",
	"google.golang.org/protobuf/proto.MarshalOptions.Marshal": "pure (same)",
	"google.golang.org/protobuf/internal/impl.Export.MessageStringOf": "pure (A3)", "google.golang.org/protobuf/internal/impl.Export.MessageStateOf": "pure",
	"google.golang.org/protobuf/internal/impl.Export.CompressGZIP": "pure", "google.golang.org/protobuf/internal/impl.Export.EnumStringOf": "pure", "google.golang.org/protobuf/internal/impl.Export.EnumDescriptorOf": "pure", "google.golang.org/protobuf/internal/impl.Export.EnumTypeOf": "pure",
	"google.golang.org/protobuf/internal/impl.messageState.LoadMessageInfo": "atomic load", "google.golang.org/protobuf/internal/impl.messageState.StoreMessageInfo": "atomic store (idempotent lazy init)",
	"google.golang.org/protobuf/internal/impl.MessageInfo.MessageOf": "pure (A3)",
	"sync.Once.Do": "once",
}

// pure by name for interface methods of protoreflect descriptors / values
func pureInvoke(recv types.Type, name string) bool {
	rs := recv.String()
	switch {
	case strings.Contains(rs, "protoreflect.") && (strings.HasSuffix(rs, "Descriptor") || strings.HasSuffix(rs, "Descriptors") || strings.HasSuffix(rs, "Name") || strings.Contains(rs, "protoreflect.Value") || strings.Contains(rs, "protoreflect.MapKey")):
		return true
	case strings.HasSuffix(rs, "protoreflect.Message") || strings.HasSuffix(rs, "protoreflect.ProtoMessage") || strings.HasSuffix(rs, "proto.Message"):
		switch name {
		case "ProtoReflect", "Interface", "Descriptor", "IsValid", "Type":
			return true
		}
	case strings.HasSuffix(rs, "protoreflect.List"), strings.HasSuffix(rs, "protoreflect.Map"):
		switch name {
		case "Len", "IsValid":
			return true
		}
	case strings.HasSuffix(rs, "protoreflect.EnumNumber"), strings.HasSuffix(rs, "protoreflect.FullName"):
		return true
	}
	return false
}

type pureScan struct {
	info    *types.Info
	pkg     *types.Package
	fresh   map[types.Object]bool // locals known to hold freshly allocated memory
	locals  map[types.Object]bool // variables declared inside the analysed function (incl. params)
	byValue map[types.Object]bool // by-value struct params / locals: writing their fields is local
	fparams map[types.Object]bool // function-typed params
	probs   []string
	undec   []string
	localFn func(obj types.Object) (*ast.FuncDecl, bool)
	depth   int
	inOnce  bool
}

func rootIdent(x ast.Expr) (*ast.Ident, int) {
	derefs := 0
	for {
		switch t := x.(type) {
		case *ast.ParenExpr:
			x = t.X
		case *ast.SelectorExpr:
			x = t.X
			derefs++
		case *ast.IndexExpr:
			x = t.X
			derefs++
		case *ast.StarExpr:
			x = t.X
			derefs++
		case *ast.SliceExpr:
			x = t.X
			derefs++
		case *ast.Ident:
			return t, derefs
		default:
			return nil, derefs
		}
	}
}

func isFreshExpr(info *types.Info, x ast.Expr, fresh map[types.Object]bool) bool {
	x = ast.Unparen(x)
	switch t := x.(type) {
	case *ast.CompositeLit:
		return true
	case *ast.UnaryExpr:
		if t.Op == token.AND {
			if _, ok := ast.Unparen(t.X).(*ast.CompositeLit); ok {
				return true
			}
		}
	case *ast.CallExpr:
		if id, ok := t.Fun.(*ast.Ident); ok {
			if b, ok := info.ObjectOf(id).(*types.Builtin); ok {
				switch b.Name() {
				case "make", "new":
					return true
				case "append":
					if id0, _ := rootIdent(t.Args[0]); id0 != nil && fresh[info.ObjectOf(id0)] {
						return true
					}
				}
			}
		}
	case *ast.Ident:
		return fresh[info.ObjectOf(t)]
	case *ast.BasicLit:
		return true
	}
	return false
}

func (s *pureScan) scanFunc(params *ast.FieldList, recv *ast.FieldList, body *ast.BlockStmt) {
	info := s.info
	addParams := func(fl *ast.FieldList) {
		if fl == nil {
			return
		}
		for _, f := range fl.List {
			for _, n := range f.Names {
				o := info.ObjectOf(n)
				if o == nil {
					continue
				}
				s.locals[o] = true
				switch o.Type().Underlying().(type) {
				case *types.Struct:
					s.byValue[o] = true
				case *types.Signature:
					s.fparams[o] = true
				}
			}
		}
	}
	addParams(params)
	addParams(recv)
	// declare locals (two passes so that closures see outer locals)
	ast.Inspect(body, func(n ast.Node) bool {
		switch t := n.(type) {
		case *ast.AssignStmt:
			if t.Tok == token.DEFINE {
				for i, l := range t.Lhs {
					if id, ok := l.(*ast.Ident); ok {
						if o := info.Defs[id]; o != nil {
							s.locals[o] = true
							if len(t.Rhs) == len(t.Lhs) && isFreshExpr(info, t.Rhs[i], s.fresh) {
								s.fresh[o] = true
							}
							if _, isSt := o.Type().Underlying().(*types.Struct); isSt {
								s.byValue[o] = true
							}
							if _, isArr := o.Type().Underlying().(*types.Array); isArr {
								s.byValue[o] = true
							}
						}
					}
				}
			}
		case *ast.DeclStmt:
			if gd, ok := t.Decl.(*ast.GenDecl); ok {
				for _, sp := range gd.Specs {
					if vs, ok := sp.(*ast.ValueSpec); ok {
						for _, n := range vs.Names {
							if o := info.Defs[n]; o != nil {
								s.locals[o] = true
								switch o.Type().Underlying().(type) {
								case *types.Struct, *types.Array:
									s.byValue[o] = true
								}
							}
						}
					}
				}
			}
		case *ast.RangeStmt:
			for _, x := range []ast.Expr{t.Key, t.Value} {
				if id, ok := x.(*ast.Ident); ok {
					if o := info.Defs[id]; o != nil {
						s.locals[o] = true
					}
				}
			}
		case *ast.TypeSwitchStmt:
			for _, cs := range t.Body.List {
				if o := info.Implicits[cs]; o != nil {
					s.locals[o] = true
				}
			}
		case *ast.FuncLit:
			for _, f := range t.Type.Params.List {
				for _, n := range f.Names {
					if o := info.ObjectOf(n); o != nil {
						s.locals[o] = true
						if _, isSt := o.Type().Underlying().(*types.Struct); isSt {
							s.byValue[o] = true
						}
					}
				}
			}
		}
		return true
	})
	// the tail window of a grown destination: `w := v[len(P):]` where every value v ever holds is make(…) or
	// append(P, …) and P is never assigned. The window holds appended elements only; writing it touches what append itself
	// is entitled to write (P's spare capacity or a new array), never P's visible elements.
	ast.Inspect(body, func(n ast.Node) bool {
		as, ok := n.(*ast.AssignStmt)
		if !ok || as.Tok != token.DEFINE || len(as.Lhs) != 1 || len(as.Rhs) != 1 {
			return true
		}
		wid, ok := as.Lhs[0].(*ast.Ident)
		se, ok2 := ast.Unparen(as.Rhs[0]).(*ast.SliceExpr)
		if !ok || !ok2 || se.High != nil || se.Slice3 || se.Low == nil {
			return true
		}
		vid, ok := ast.Unparen(se.X).(*ast.Ident)
		if !ok || !s.locals[info.ObjectOf(vid)] {
			return true
		}
		lc, ok := ast.Unparen(se.Low).(*ast.CallExpr)
		if !ok || len(lc.Args) != 1 {
			return true
		}
		if b, ok := info.Uses[identOf(lc.Fun)].(*types.Builtin); !ok || b.Name() != "len" {
			return true
		}
		prefix := types.ExprString(ast.Unparen(lc.Args[0]))
		pid, _ := rootIdent(lc.Args[0])
		if pid == nil {
			return true
		}
		vobj, pobj := info.ObjectOf(vid), info.ObjectOf(pid)
		good, nAssign := true, 0
		ast.Inspect(body, func(m ast.Node) bool {
			switch t := m.(type) {
			case *ast.AssignStmt:
				for i, l := range t.Lhs {
					if id, _ := rootIdent(l); id != nil && info.ObjectOf(id) == pobj {
						good = false // the prefix changes
					}
					if id, ok := ast.Unparen(l).(*ast.Ident); ok && info.ObjectOf(id) == vobj {
						nAssign++
						if len(t.Lhs) != len(t.Rhs) {
							good = false
							continue
						}
						call, ok := ast.Unparen(t.Rhs[i]).(*ast.CallExpr)
						if !ok {
							good = false
							continue
						}
						b, ok := info.Uses[identOf(call.Fun)].(*types.Builtin)
						switch {
						case ok && b.Name() == "make":
						case ok && b.Name() == "append" && len(call.Args) >= 1 && types.ExprString(ast.Unparen(call.Args[0])) == prefix:
						default:
							good = false
						}
					}
				}
			case *ast.ValueSpec:
				for _, nm := range t.Names {
					if info.Defs[nm] == vobj && len(t.Values) != 0 {
						good = false
					}
				}
			case *ast.UnaryExpr:
				if t.Op == token.AND {
					if id, _ := rootIdent(t.X); id != nil && (info.ObjectOf(id) == vobj || info.ObjectOf(id) == pobj) {
						good = false
					}
				}
			}
			return true
		})
		if good && nAssign > 0 {
			if o := info.Defs[wid]; o != nil {
				s.fresh[o] = true
			}
		}
		return true
	})
	// re-assignments of a fresh local with non-fresh values revoke freshness
	ast.Inspect(body, func(n ast.Node) bool {
		if as, ok := n.(*ast.AssignStmt); ok && as.Tok == token.ASSIGN && len(as.Lhs) == len(as.Rhs) {
			for i, l := range as.Lhs {
				if id, ok := l.(*ast.Ident); ok {
					o := info.ObjectOf(id)
					if s.fresh[o] && !isFreshExpr(info, as.Rhs[i], s.fresh) {
						delete(s.fresh, o)
					}
				}
			}
		}
		return true
	})
	s.scanNode(body)
}

func (s *pureScan) write(lhs ast.Expr, where token.Pos) {
	info := s.info
	id, derefs := rootIdent(lhs)
	if id == nil {
		s.undec = append(s.undec, "store target "+types.ExprString(lhs))
		return
	}
	if id.Name == "_" {
		return
	}
	o := info.ObjectOf(id)
	if derefs == 0 {
		if s.locals[o] {
			return // assigning a local variable itself
		}
		if s.inOnce {
			return // package variable initialised inside sync.Once.Do
		}
		s.probs = append(s.probs, "writes package-level variable "+id.Name)
		return
	}
	if s.locals[o] && (s.fresh[o] || (s.byValue[o] && onlyFieldPath(lhs))) {
		return
	}
	if !s.locals[o] && s.inOnce {
		return
	}
	s.probs = append(s.probs, "stores through "+types.ExprString(lhs)+" (memory reachable from the receiver, a parameter or a global)")
}

// onlyFieldPath: x.f.g … (no pointer indirection, index or slice) — for by-value structs.
func onlyFieldPath(x ast.Expr) bool {
	for {
		switch t := x.(type) {
		case *ast.ParenExpr:
			x = t.X
		case *ast.SelectorExpr:
			x = t.X
		case *ast.Ident:
			return true
		default:
			return false
		}
	}
}

func (s *pureScan) scanNode(n ast.Node) {
	ast.Inspect(n, func(x ast.Node) bool {
		switch t := x.(type) {
		case *ast.AssignStmt:
			if t.Tok != token.DEFINE {
				for _, l := range t.Lhs {
					s.write(l, t.Pos())
				}
			}
		case *ast.IncDecStmt:
			s.write(t.X, t.Pos())
		case *ast.SendStmt:
			s.probs = append(s.probs, "channel send")
		case *ast.GoStmt:
			s.undec = append(s.undec, "go statement")
		case *ast.CallExpr:
			if s.call(t) {
				// children handled (sync.Once.Do body); still scan the receiver expression
				return false
			}
		}
		return true
	})
}

func (s *pureScan) call(t *ast.CallExpr) (handledChildren bool) {
	info := s.info
	if tv, ok := info.Types[t.Fun]; ok && tv.IsType() {
		return // conversion
	}
	fun := ast.Unparen(t.Fun)
	// function-typed parameter or local closure
	if id, ok := fun.(*ast.Ident); ok {
		o := info.ObjectOf(id)
		if s.fparams[o] {
			return
		}
		if _, isVar := o.(*types.Var); isVar && s.locals[o] {
			return // local closure: its body is scanned as part of the parent
		}
	}
	obj := core.CalleeObj(info, t)
	q := core.QualName(obj)
	if b, ok := obj.(*types.Builtin); ok {
		q = b.Name()
	}
	if kind, ok := pureCallees[q]; ok {
		switch {
		case q == "append" && len(t.Args) > 1:
			// append(s[lo:hi], elems...) writes elems into the backing array of s whenever hi < cap(s): for a slice
			// that is not a buffer of this call, that is a store into shared memory
			if se, ok := ast.Unparen(t.Args[0]).(*ast.SliceExpr); ok {
				if id, _ := rootIdent(se.X); id == nil || !(s.fresh[info.ObjectOf(id)] && s.locals[info.ObjectOf(id)]) {
					s.probs = append(s.probs, "append onto the re-sliced "+types.ExprString(t.Args[0])+" overwrites the backing array of memory that is not a buffer allocated in this call")
				}
			}
		case kind == "WRITE":
			if id, _ := rootIdent(t.Args[0]); id == nil || !s.fresh[info.ObjectOf(id)] {
				s.probs = append(s.probs, q+" on "+types.ExprString(t.Args[0]))
			}
		case kind == "fresh-dst" || kind == "fresh-arg0":
			id, _ := rootIdent(t.Args[0])
			if id == nil || !(s.fresh[info.ObjectOf(id)] && s.locals[info.ObjectOf(id)]) {
				// EncodeVarint / PutUint / copy into the buffer parameter of the function itself is a write for the caller's buffer
				s.probs = append(s.probs, q+" writes into "+types.ExprString(t.Args[0])+", which is not a buffer allocated in this call")
			}
		case kind == "once":
			if len(t.Args) == 1 {
				if fl, ok := t.Args[0].(*ast.FuncLit); ok {
					was := s.inOnce
					s.inOnce = true
					s.scanNode(fl.Body)
					s.inOnce = was
					return true
				}
			}
		}
		return
	}
	// interface method calls on descriptors / values
	if sel, ok := fun.(*ast.SelectorExpr); ok {
		if selinfo, ok := info.Selections[sel]; ok {
			if _, isIface := selinfo.Recv().Underlying().(*types.Interface); isIface {
				if pureInvoke(selinfo.Recv(), sel.Sel.Name) {
					return
				}
				s.undec = append(s.undec, "interface call "+types.ExprString(sel)+" on "+selinfo.Recv().String())
				return
			}
			// named non-interface receivers from protoreflect (Value, MapKey, FullName …)
			if pureInvoke(selinfo.Recv(), sel.Sel.Name) {
				return
			}
		}
	}
	// functions of the same package: analysed recursively
	if f, ok := obj.(*types.Func); ok && f.Pkg() == s.pkg && s.localFn != nil {
		if fd, ok := s.localFn(f); ok {
			if s.depth > 6 {
				return
			}
			sub := &pureScan{info: info, pkg: s.pkg, fresh: map[types.Object]bool{}, locals: map[types.Object]bool{}, byValue: map[types.Object]bool{}, fparams: map[types.Object]bool{}, localFn: s.localFn, depth: s.depth + 1}
			sub.scanFunc(fd.Type.Params, fd.Recv, fd.Body)
			for _, p := range sub.probs {
				s.probs = append(s.probs, f.Name()+": "+p)
			}
			for _, p := range sub.undec {
				s.undec = append(s.undec, f.Name()+": "+p)
			}
			return
		}
	}
	if strings.HasPrefix(q, "google.golang.org/protobuf/reflect/protoreflect.ValueOf") || strings.HasPrefix(q, "google.golang.org/protobuf/reflect/protoreflect.Value.") ||
		strings.HasPrefix(q, "google.golang.org/protobuf/reflect/protoreflect.MapKey.") || strings.HasPrefix(q, "google.golang.org/protobuf/reflect/protoreflect.EnumNumber") {
		return
	}
	// generated ProtoReflect / getters of other generated or protobuf-go message types: conversions / nil-safe reads
	if f, ok := obj.(*types.Func); ok {
		switch f.Name() {
		case "ProtoReflect", "Descriptor", "Number", "String", "Enum", "Type":
			return
		}
	}
	// another helper of the repository's runtime package: its own body decides (analysed like a generated function: no
	// store to memory reachable from its parameters or from package variables; it may call Sov, Soz and its like)
	if f, ok := obj.(*types.Func); ok && f.Pkg() != nil && f.Pkg().Path() == core.RepoModule+"/runtime" && pureCtx != nil && s.depth <= 6 {
		if rp := pureCtx.Pkg("runtime"); rp != nil {
			fns := core.FuncDecls(rp)
			if fd := fns[f.Name()]; fd != nil && fd.Body != nil && fd.Recv == nil {
				sub := &pureScan{info: rp.TypesInfo, pkg: rp.Types, fresh: map[types.Object]bool{}, locals: map[types.Object]bool{}, byValue: map[types.Object]bool{}, fparams: map[types.Object]bool{}, depth: s.depth + 1}
				sub.localFn = func(o types.Object) (*ast.FuncDecl, bool) {
					lf, ok := o.(*types.Func)
					if !ok || lf.Type().(*types.Signature).Recv() != nil {
						return nil, false
					}
					d := fns[lf.Name()]
					return d, d != nil && d.Body != nil
				}
				// named results are locals of the helper
				if fd.Type.Results != nil {
					for _, fl := range fd.Type.Results.List {
						for _, nm := range fl.Names {
							if o := rp.TypesInfo.ObjectOf(nm); o != nil {
								sub.locals[o] = true
							}
						}
					}
				}
				sub.scanFunc(fd.Type.Params, nil, fd.Body)
				if len(sub.probs) > 0 && len(fd.Type.Params.List) > 0 && len(fd.Type.Params.List[0].Names) > 0 && len(t.Args) > 0 {
					// a helper like EncodeVarint: its only effect may be a write into the buffer it is handed as first
					// argument. Scanned again with that parameter taken as a fresh buffer; if nothing else is written, the call
					// is a write into the caller's first argument, which must then be a buffer allocated in this call
					p0 := rp.TypesInfo.ObjectOf(fd.Type.Params.List[0].Names[0])
					if _, isSlice := p0.Type().Underlying().(*types.Slice); isSlice {
						sub2 := &pureScan{info: rp.TypesInfo, pkg: rp.Types, fresh: map[types.Object]bool{p0: true}, locals: map[types.Object]bool{}, byValue: map[types.Object]bool{}, fparams: map[types.Object]bool{}, depth: s.depth + 1, localFn: sub.localFn}
						if fd.Type.Results != nil {
							for _, fl := range fd.Type.Results.List {
								for _, nm := range fl.Names {
									if o := rp.TypesInfo.ObjectOf(nm); o != nil {
										sub2.locals[o] = true
									}
								}
							}
						}
						sub2.scanFunc(fd.Type.Params, nil, fd.Body)
						if len(sub2.probs) == 0 && len(sub2.undec) == 0 {
							id, _ := rootIdent(t.Args[0])
							if id == nil || !(s.fresh[info.ObjectOf(id)] && s.locals[info.ObjectOf(id)]) {
								s.probs = append(s.probs, q+" writes into "+types.ExprString(t.Args[0])+", which is not a buffer allocated in this call")
							}
							return
						}
					}
				}
				for _, p := range sub.probs {
					s.probs = append(s.probs, q+": "+p)
				}
				for _, p := range sub.undec {
					s.undec = append(s.undec, q+": "+p)
				}
				return
			}
		}
	}
	s.undec = append(s.undec, "call "+q+" is not in the effect summary table")
	return
}

var pureCtx *core.Ctx

// scanDecl analyses one function declaration.
func scanDecl(g *model.GenPkg, fd *ast.FuncDecl) *pureScan {
	s := &pureScan{info: g.Info, pkg: g.Types, fresh: map[types.Object]bool{}, locals: map[types.Object]bool{}, byValue: map[types.Object]bool{}, fparams: map[types.Object]bool{}}
	s.localFn = func(o types.Object) (*ast.FuncDecl, bool) {
		f, ok := o.(*types.Func)
		if !ok {
			return nil, false
		}
		name := f.Name()
		if sig := f.Type().(*types.Signature); sig.Recv() != nil {
			t := sig.Recv().Type()
			if p, ok := t.(*types.Pointer); ok {
				t = p.Elem()
			}
			if n, ok := t.(*types.Named); ok {
				name = n.Obj().Name() + "." + name
			}
		}
		d, ok := g.Funcs[name]
		return d, ok && d.Body != nil
	}
	s.scanFunc(fd.Type.Params, fd.Recv, fd.Body)
	return s
}

// scanLit analyses a closure in the context of its parent declaration.
func scanLit(g *model.GenPkg, parent *ast.FuncDecl, fl *ast.FuncLit) *pureScan {
	s := &pureScan{info: g.Info, pkg: g.Types, fresh: map[types.Object]bool{}, locals: map[types.Object]bool{}, byValue: map[types.Object]bool{}, fparams: map[types.Object]bool{}}
	s.scanFunc(fl.Type.Params, nil, fl.Body)
	return s
}

var msgReadMethods = []string{"Descriptor", "Type", "New", "Interface", "Range", "Has", "Get", "WhichOneof", "GetUnknown", "IsValid", "NewField"}

// RunPure decides PURE.* for the read-only entry points of all generated packages.
func RunPure(c *core.Ctx) {
	pureCtx = c
	n := 0
	report := func(src, con string, s *pureScan, p string) {
		n++
		sort.Strings(s.probs)
		sort.Strings(s.undec)
		switch {
		case len(s.probs) > 0:
			c.Fail("PURE", con, "read-only operation writes shared memory: "+strings.Join(uniq(s.probs), "; "), p, src)
		case len(s.undec) > 0:
			c.Undec("PURE", con, "effect not decidable: "+strings.Join(uniq(s.undec), "; "), p, src)
		default:
			c.Ok("PURE", con, "no store to memory reachable from the receiver, parameters or globals; all callees in the effect summary table", p, src)
		}
	}
	// the runtime helpers that the effect summary table calls "pure" are checked to be so: they (and what they
	// call inside the package) neither write nor take the address of package-level variables, and start no goroutine
	if rp := c.Pkg("runtime"); rp != nil {
		fns := core.FuncDecls(rp)
		pkgVars := map[types.Object]bool{}
		for _, nm := range rp.Types.Scope().Names() {
			if v, ok := rp.Types.Scope().Lookup(nm).(*types.Var); ok {
				pkgVars[v] = true
			}
		}
		var names []string
		for q := range pureCallees {
			if strings.HasPrefix(q, core.RepoModule+"/runtime.") {
				names = append(names, strings.TrimPrefix(q, core.RepoModule+"/runtime."))
			}
		}
		sort.Strings(names)
		for _, nm := range names {
			fd := fns[nm]
			con := "runtime." + nm + " effect"
			if fd == nil || fd.Body == nil {
				c.Undec("PURE", con, "helper listed in the effect summary table not found", "", "S0")
				continue
			}
			n++
			var probs []string
			seen := map[string]bool{}
			var scan func(f *ast.FuncDecl)
			scan = func(f *ast.FuncDecl) {
				if seen[f.Name.Name] {
					return
				}
				seen[f.Name.Name] = true
				rootVar := func(x ast.Expr) *ast.Ident {
					for {
						switch t := x.(type) {
						case *ast.ParenExpr:
							x = t.X
						case *ast.SelectorExpr:
							x = t.X
						case *ast.IndexExpr:
							x = t.X
						case *ast.StarExpr:
							x = t.X
						case *ast.SliceExpr:
							x = t.X
						case *ast.Ident:
							if pkgVars[rp.TypesInfo.ObjectOf(t)] {
								return t
							}
							return nil
						default:
							return nil
						}
					}
				}
				ast.Inspect(f.Body, func(x ast.Node) bool {
					switch t := x.(type) {
					case *ast.AssignStmt:
						if t.Tok != token.DEFINE {
							for _, l := range t.Lhs {
								if id := rootVar(l); id != nil {
									probs = append(probs, f.Name.Name+" writes package variable "+id.Name)
								}
							}
						}
					case *ast.IncDecStmt:
						if id := rootVar(t.X); id != nil {
							probs = append(probs, f.Name.Name+" modifies package variable "+id.Name)
						}
					case *ast.UnaryExpr:
						if t.Op == token.AND {
							if id := rootVar(t.X); id != nil {
								probs = append(probs, f.Name.Name+" takes the address of package variable "+id.Name+" (writes through the pointer are shared by all callers)")
							}
						}
					case *ast.GoStmt:
						probs = append(probs, f.Name.Name+" starts a goroutine")
					case *ast.CallExpr:
						if o, ok := core.CalleeObj(rp.TypesInfo, t).(*types.Func); ok && o.Pkg() == rp.Types {
							if cf := fns[o.Name()]; cf != nil && cf.Body != nil {
								scan(cf)
							}
						}
					}
					return true
				})
			}
			scan(fd)
			sort.Strings(probs)
			c.Check(len(probs) == 0, "PURE", con, "no write to, or address of, a package-level variable; no goroutine", "helper used by read-only operations has a shared-memory effect: "+strings.Join(uniq(probs), "; "), c.PosStr(rp.Fset, fd.Pos()), "S0")
		}
	}
	for _, g := range sources(c) {
		src := g.Source
		for _, m := range g.Msgs {
			for _, name := range msgReadMethods {
				if fd := m.Methods[name]; fd != nil {
					report(src, fmt.Sprintf("%s.%s", m.Q(), name), scanDecl(g, fd), pos(c, g, fd.Pos()))
				}
			}
			for name, lit := range map[string]*ast.FuncLit{"size": m.Size, "marshal": m.Marshal} {
				if lit != nil {
					report(src, fmt.Sprintf("%s.ProtoMethods$%s", m.Q(), name), scanLit(g, m.ProtoMethods, lit), pos(c, g, lit.Pos()))
				}
			}
			for _, name := range []string{"ProtoReflect", "slowProtoReflect", "String", "Descriptor", "ProtoMessage"} {
				if fd := g.Funcs[m.GoName+"."+name]; fd != nil {
					report(src, fmt.Sprintf("%s.(*%s).%s", g.Name, m.GoName, name), scanDecl(g, fd), pos(c, g, fd.Pos()))
				}
			}
			for _, f := range m.Fields {
				if fd := g.Funcs[m.GoName+".Get"+f.GoName]; fd != nil {
					report(src, fmt.Sprintf("%s.(*%s).Get%s", g.Name, m.GoName, f.GoName), scanDecl(g, fd), pos(c, g, fd.Pos()))
				}
			}
		}
		// views and message types
		names := make([]string, 0, len(g.Funcs))
		for k := range g.Funcs {
			names = append(names, k)
		}
		sort.Strings(names)
		for _, k := range names {
			fd := g.Funcs[k]
			i := strings.IndexByte(k, '.')
			if i < 0 {
				continue
			}
			tn, mn := k[:i], k[i+1:]
			isView := strings.HasPrefix(tn, "_") && (strings.HasSuffix(tn, "_list") || strings.HasSuffix(tn, "_map"))
			isMT := strings.HasSuffix(tn, "_messageType")
			if isView {
				switch mn {
				case "Len", "Get", "Range", "Has", "IsValid", "NewElement", "NewValue":
					report(src, fmt.Sprintf("%s.%s", g.Name, k), scanDecl(g, fd), pos(c, g, fd.Pos()))
				}
			}
			if isMT {
				report(src, fmt.Sprintf("%s.%s", g.Name, k), scanDecl(g, fd), pos(c, g, fd.Pos()))
			}
		}
	}
	c.Stat("PURE entry points", n)
}

func uniq(s []string) []string {
	var out []string
	for i, x := range s {
		if i == 0 || x != s[i-1] {
			out = append(out, x)
		}
	}
	return out
}

func identOf(x ast.Expr) *ast.Ident {
	id, _ := ast.Unparen(x).(*ast.Ident)
	return id
}
