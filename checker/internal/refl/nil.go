// Package refl holds the engines for the reflection accessors of generated
// code: NIL (nil receivers / read-only empties), PRES (presence predicates),
// ACC (accessor conformance), METH (protoiface.Methods table) and COH (C19).
package refl

import (
	"fmt"
	"go/ast"
	"go/token"
	"go/types"
	"sort"
	"strings"

	"verif/checker/internal/core"
	"verif/checker/internal/model"
	"verif/checker/internal/source"
)

func sources(c *core.Ctx) []*model.GenPkg {
	s := source.GetS2(c)
	if s.Err != nil {
		c.Fail("GEN.build", "working-tree generator", s.Err.Error(), "", "S2")
		return source.GetS1(c).S1
	}
	return s.All()
}

func pos(c *core.Ctx, g *model.GenPkg, p token.Pos) string { return c.PosStr(g.Fset, p) }

// recvObj returns the receiver variable of a method declaration.
func recvObj(info *types.Info, fd *ast.FuncDecl) types.Object {
	if fd.Recv == nil || len(fd.Recv.List) != 1 || len(fd.Recv.List[0].Names) != 1 {
		return nil
	}
	return info.ObjectOf(fd.Recv.List[0].Names[0])
}

func isIdentObj(info *types.Info, x ast.Expr, o types.Object) bool {
	id, ok := ast.Unparen(x).(*ast.Ident)
	return ok && o != nil && info.ObjectOf(id) == o
}

func isNilIdent(info *types.Info, x ast.Expr) bool {
	id, ok := ast.Unparen(x).(*ast.Ident)
	if !ok {
		return false
	}
	_, isNil := info.ObjectOf(id).(*types.Nil)
	return isNil
}

// terminates: block ends in return / panic / break (leaves the path).
func terminates(info *types.Info, b *ast.BlockStmt) bool {
	if b == nil || len(b.List) == 0 {
		return false
	}
	switch t := b.List[len(b.List)-1].(type) {
	case *ast.ReturnStmt:
		return true
	case *ast.BranchStmt:
		return t.Tok == token.BREAK || t.Tok == token.CONTINUE
	case *ast.ExprStmt:
		if call, ok := t.X.(*ast.CallExpr); ok {
			if id, ok := call.Fun.(*ast.Ident); ok && id.Name == "panic" {
				return true
			}
		}
	}
	return false
}

// derefSites lists the places where the pointer held by obj is dereferenced
// (field selection through the pointer, or explicit *obj), that are not
// protected by a dominating nil test of obj. Structured control flow only:
// protection = inside `if obj != nil {…}` (possibly `obj != nil && …`), or after
// a preceding sibling `if obj == nil { …leaves… }`.
func unguardedDerefs(info *types.Info, body *ast.BlockStmt, obj types.Object, isDeref func(n ast.Node) (ast.Node, bool)) []ast.Node {
	var out []ast.Node
	var walkStmts func(list []ast.Stmt, guarded bool)
	var walkNode func(n ast.Node, guarded bool)
	condGuards := func(c ast.Expr) (thenG, elseG bool) {
		c = ast.Unparen(c)
		if be, ok := c.(*ast.BinaryExpr); ok {
			switch be.Op {
			case token.NEQ:
				if isIdentObj(info, be.X, obj) && isNilIdent(info, be.Y) {
					return true, false
				}
			case token.EQL:
				if isIdentObj(info, be.X, obj) && isNilIdent(info, be.Y) {
					return false, true
				}
			case token.LAND:
				a, _ := func() (bool, bool) {
					l := ast.Unparen(be.X)
					if b2, ok := l.(*ast.BinaryExpr); ok && b2.Op == token.NEQ && isIdentObj(info, b2.X, obj) && isNilIdent(info, b2.Y) {
						return true, false
					}
					return false, false
				}()
				return a, false
			}
		}
		return false, false
	}
	walkNode = func(n ast.Node, guarded bool) {
		if n == nil {
			return
		}
		ast.Inspect(n, func(x ast.Node) bool {
			switch t := x.(type) {
			case *ast.FuncLit:
				return false
			case *ast.BlockStmt:
				walkStmts(t.List, guarded)
				return false
			case *ast.IfStmt:
				if t.Init != nil {
					walkNode(t.Init, guarded)
				}
				tg, eg := condGuards(t.Cond)
				// the condition itself: for `obj != nil && obj.f` the right operand is guarded
				if be, ok := ast.Unparen(t.Cond).(*ast.BinaryExpr); ok && be.Op == token.LAND && tg {
					walkNode(be.X, guarded)
					walkNode(be.Y, true)
				} else {
					walkNode(t.Cond, guarded)
				}
				walkStmts(t.Body.List, guarded || tg)
				if t.Else != nil {
					walkNode(t.Else, guarded || eg)
				}
				return false
			}
			if site, ok := isDeref(x); ok && !guarded {
				out = append(out, site)
			}
			return true
		})
	}
	walkStmts = func(list []ast.Stmt, guarded bool) {
		g := guarded
		for _, s := range list {
			walkNode(s, g)
			// `if obj == nil { leaves }` protects what follows
			if is, ok := s.(*ast.IfStmt); ok && is.Else == nil {
				if be, ok := ast.Unparen(is.Cond).(*ast.BinaryExpr); ok && be.Op == token.EQL && isIdentObj(info, be.X, obj) && isNilIdent(info, be.Y) {
					if terminates(info, is.Body) || rebindsFresh(info, is.Body, obj) {
						g = true
					}
				}
			}
		}
	}
	walkStmts(body.List, false)
	return out
}

// fieldDerefOf: selector obj.f where f is a struct field reached through the pointer.
func fieldDerefOf(info *types.Info, obj types.Object) func(n ast.Node) (ast.Node, bool) {
	return func(n ast.Node) (ast.Node, bool) {
		switch t := n.(type) {
		case *ast.SelectorExpr:
			if isIdentObj(info, t.X, obj) {
				if sel, ok := info.Selections[t]; ok && sel.Kind() == types.FieldVal {
					return t, true
				}
			}
		case *ast.StarExpr:
			if isIdentObj(info, t.X, obj) {
				return t, true
			}
		}
		return nil, false
	}
}

var readMethods = []string{"Descriptor", "Type", "New", "Interface", "Range", "Has", "Get", "WhichOneof", "GetUnknown", "IsValid", "ProtoMethods"}

// RunNil decides NIL.* (C09, and the "accepted messages are safe to read" clause of C06).
func RunNil(c *core.Ctx) {
	nM := 0
	for _, g := range sources(c) {
		info := g.Info
		for _, m := range g.Msgs {
			nM++
			src := g.Source
			// ---- NIL.recv: read methods of the fast-reflection type
			for _, name := range readMethods {
				fd := m.Methods[name]
				con := fmt.Sprintf("%s.%s", m.Q(), name)
				if fd == nil {
					c.Fail("NIL.recv", con, "method not found", "", src)
					continue
				}
				ro := recvObj(info, fd)
				if ro == nil {
					c.Ok("NIL.recv", con, "receiver unused", pos(c, g, fd.Pos()), src)
					continue
				}
				sites := unguardedDerefs(info, fd.Body, ro, fieldDerefOf(info, ro))
				if len(sites) == 0 {
					c.Ok("NIL.recv", con, "no dereference of the receiver without a nil test", pos(c, g, fd.Pos()), src)
				} else {
					c.Fail("NIL.recv", con, fmt.Sprintf("a nil *%s (the read-only empty message, e.g. Type().Zero() or Get of an unset message field) is dereferenced by %s without a nil test at %d site(s), first %s", m.GoName, name, len(sites), types.ExprString(sites[0].(ast.Expr))), pos(c, g, sites[0].Pos()), src)
				}
			}
			// ---- NIL.recv (receiver kind): every method of the fast-reflection type has a pointer receiver. A value
			// receiver makes the call itself dereference the receiver: on the nil (read-only empty) message it panics
			// before the body runs (and mutators would write to a copy).
			{
				var names []string
				for n := range m.Methods {
					names = append(names, n)
				}
				sort.Strings(names)
				var bad []string
				for _, n := range names {
					fd := m.Methods[n]
					if fd == nil || fd.Recv == nil || len(fd.Recv.List) != 1 {
						continue
					}
					if _, isPtr := info.TypeOf(fd.Recv.List[0].Type).(*types.Pointer); !isPtr {
						bad = append(bad, n)
					}
				}
				c.Check(len(bad) == 0, "NIL.recv", m.Q()+" receiver kinds", fmt.Sprintf("%d methods, all with pointer receivers", len(names)),
					fmt.Sprintf("methods %v of the fast-reflection type have value receivers: calling them on the nil message panics", bad), pos(c, g, m.Methods[names[0]].Pos()), src)
			}
			// ---- NIL.msgmut: a mutator of the message must fail on the nil (read-only empty) message: it may not
			// give the receiver a fresh value (the write would land in a throw-away message) nor leave when it is nil
			for _, name := range []string{"Set", "Mutable", "Clear", "SetUnknown"} {
				fd := m.Methods[name]
				con := fmt.Sprintf("%s.%s", m.Q(), name)
				if fd == nil {
					c.Fail("NIL.msgmut", con, "method not found", "", src)
					continue
				}
				ro := recvObj(info, fd)
				if ro == nil {
					c.Fail("NIL.msgmut", con, "the mutator does not use its receiver: nothing can be stored", pos(c, g, fd.Pos()), src)
					continue
				}
				if _, isPtr := ro.Type().(*types.Pointer); !isPtr {
					c.Fail("NIL.msgmut", con, name+" has a value receiver: it stores into a copy of the message and the caller's message is unchanged", pos(c, g, fd.Pos()), src)
					continue
				}
				bad := ""
				var at ast.Node
				ast.Inspect(fd.Body, func(x ast.Node) bool {
					if bad != "" {
						return false
					}
					switch t := x.(type) {
					case *ast.AssignStmt:
						for _, l := range t.Lhs {
							if isIdentObj(info, l, ro) {
								bad, at = "assigns the receiver ("+types.ExprString(l)+" = ...): on the nil message the data is stored into a throw-away value instead of panicking", t
							}
						}
					case *ast.BinaryExpr:
						if (t.Op == token.EQL || t.Op == token.NEQ) && ((isIdentObj(info, t.X, ro) && isNilIdent(info, t.Y)) || (isIdentObj(info, t.Y, ro) && isNilIdent(info, t.X))) {
							bad, at = "tests the receiver for nil: the store can be skipped silently on the nil message", t
						}
					case *ast.CallExpr:
						// x.IsValid() is that very test (COH.type holds IsValid to `x != nil`)
						if sel, ok := ast.Unparen(t.Fun).(*ast.SelectorExpr); ok && sel.Sel.Name == "IsValid" && isIdentObj(info, sel.X, ro) {
							bad, at = "asks the receiver whether it is valid (x.IsValid() is x != nil): the store can be skipped silently on the nil message", t
						}
					}
					return true
				})
				if bad != "" {
					c.Fail("NIL.msgmut", con, name+" "+bad, pos(c, g, at.Pos()), src)
				} else {
					c.Ok("NIL.msgmut", con, "the receiver is neither rebound nor nil-tested: storing into the nil message dereferences nil and panics", pos(c, g, fd.Pos()), src)
				}
			}
			// ---- NIL.wrap: typed-nil oneof wrappers in Get / Range / Has / WhichOneof
			for _, name := range []string{"Get", "Range"} {
				fd := m.Methods[name]
				if fd == nil || len(m.Oneofs) == 0 {
					continue
				}
				// wrapper variables: `v, ok := x.O.(*W)` and `switch o := x.O.(type) { case *W: … }`
				bad := 0
				var first ast.Node
				n := 0
				check := func(wo types.Object, scope ast.Node) {
					if wo == nil {
						return
					}
					n++
					var body *ast.BlockStmt
					switch s := scope.(type) {
					case *ast.BlockStmt:
						body = s
					case *ast.CaseClause:
						body = &ast.BlockStmt{List: s.Body}
					}
					sites := unguardedDerefs(info, body, wo, fieldDerefOf(info, wo))
					if len(sites) > 0 {
						bad++
						if first == nil {
							first = sites[0]
						}
					}
				}
				ast.Inspect(fd.Body, func(x ast.Node) bool {
					switch t := x.(type) {
					case *ast.IfStmt:
						if as, ok := t.Init.(*ast.AssignStmt); ok && len(as.Lhs) == 2 && len(as.Rhs) == 1 {
							if ta, ok := as.Rhs[0].(*ast.TypeAssertExpr); ok && ta.Type != nil {
								if id, ok := as.Lhs[0].(*ast.Ident); ok && id.Name != "_" {
									// `ok && v != nil` in the condition protects the body
									if condHasNonNil(info, t.Cond, info.ObjectOf(id)) {
										n++
									} else {
										check(info.ObjectOf(id), t.Body)
									}
								}
							}
						}
					case *ast.TypeSwitchStmt:
						for _, cs := range t.Body.List {
							cc := cs.(*ast.CaseClause)
							if o := info.Implicits[cc]; o != nil {
								check(o, cc)
							}
						}
					}
					return true
				})
				con := fmt.Sprintf("%s.%s oneof wrappers", m.Q(), name)
				if bad == 0 {
					c.Ok("NIL.wrap", con, fmt.Sprintf("%d wrapper bindings, none dereferenced without a nil test", n), pos(c, g, fd.Pos()), src)
				} else {
					c.Fail("NIL.wrap", con, fmt.Sprintf("%d of %d oneof wrapper bindings are dereferenced without a nil test: a oneof holding a typed-nil wrapper makes %s panic", bad, n, name), pos(c, g, first.Pos()), src)
				}
			}
			// ---- NIL.getter: plain getters GetF are nil-safe
			for _, f := range m.Fields {
				gname := "Get" + f.GoName
				if f.Oneof != nil {
					gname = "Get" + f.GoName
				}
				fd := g.Funcs[m.GoName+"."+gname]
				con := fmt.Sprintf("%s.%s", m.Q(), gname)
				if fd == nil {
					c.Fail("NIL.getter", con, "getter not found", "", src)
					continue
				}
				ro := recvObj(info, fd)
				sites := unguardedDerefs(info, fd.Body, ro, fieldDerefOf(info, ro))
				c.Check(len(sites) == 0, "NIL.getter", con, "receiver dereferenced only under x != nil", "getter dereferences a nil receiver", pos(c, g, fd.Pos()), src)
			}
		}
		// ---- views
		runNilViews(c, g)
	}
	c.Stat("NIL message types", nM)
}

// runNilViews: list/map view types (struct with a single pointer field to a slice/map).
func runNilViews(c *core.Ctx, g *model.GenPkg) {
	info := g.Info
	src := g.Source
	scope := g.Types.Scope()
	names := scope.Names()
	sort.Strings(names)
	for _, n := range names {
		tn, ok := scope.Lookup(n).(*types.TypeName)
		if !ok {
			continue
		}
		st, ok := tn.Type().Underlying().(*types.Struct)
		if !ok || st.NumFields() != 1 {
			continue
		}
		pt, ok := st.Field(0).Type().(*types.Pointer)
		if !ok {
			continue
		}
		kind := ""
		switch pt.Elem().Underlying().(type) {
		case *types.Slice:
			kind = "list"
		case *types.Map:
			kind = "map"
		default:
			continue
		}
		back := st.Field(0)
		// derefs of the backing pointer:  *x.list
		isBackDeref := func(ro types.Object) func(ast.Node) (ast.Node, bool) {
			return func(nd ast.Node) (ast.Node, bool) {
				se, ok := nd.(*ast.StarExpr)
				if !ok {
					return nil, false
				}
				sel, ok := ast.Unparen(se.X).(*ast.SelectorExpr)
				if !ok || !isIdentObj(info, sel.X, ro) || info.ObjectOf(sel.Sel) != back {
					return nil, false
				}
				return se, true
			}
		}
		reads := []string{"Len", "IsValid"}
		if kind == "map" {
			reads = append(reads, "Range", "Has", "Get")
		}
		for _, mname := range reads {
			fd := g.Funcs[n+"."+mname]
			con := fmt.Sprintf("%s.%s.%s", g.Name, n, mname)
			if fd == nil {
				c.Fail("NIL.view", con, "method not found", "", src)
				continue
			}
			ro := recvObj(info, fd)
			// guard form: `if x.m == nil { return … }` protects what follows
			sites := unguardedBackDerefs(info, fd.Body, ro, back, isBackDeref(ro))
			c.Check(len(sites) == 0, "NIL.view", con, "empty read-only view (nil backing pointer) is not dereferenced", "read method dereferences the nil backing pointer of an empty read-only "+kind, pos(c, g, fd.Pos()), src)
		}
		muts := []string{"Set", "Append", "AppendMutable", "Truncate"}
		if kind == "map" {
			muts = []string{"Set", "Mutable"}
		}
		for _, mname := range muts {
			fd := g.Funcs[n+"."+mname]
			con := fmt.Sprintf("%s.%s.%s", g.Name, n, mname)
			if fd == nil {
				c.Fail("NIL.mut", con, "method not found", "", src)
				continue
			}
			ro := recvObj(info, fd)
			// a mutator must not leave silently when the backing pointer is nil
			silent := false
			ast.Inspect(fd.Body, func(x ast.Node) bool {
				is, ok := x.(*ast.IfStmt)
				if !ok {
					return true
				}
				if be, ok := ast.Unparen(is.Cond).(*ast.BinaryExpr); ok && be.Op == token.EQL && isNilIdent(info, be.Y) {
					if sel, ok := ast.Unparen(be.X).(*ast.SelectorExpr); ok && isIdentObj(info, sel.X, ro) && info.ObjectOf(sel.Sel) == back {
						if len(is.Body.List) > 0 {
							if _, isRet := is.Body.List[len(is.Body.List)-1].(*ast.ReturnStmt); isRet {
								silent = true
							}
						}
					}
				}
				return true
			})
			// and it must touch the backing store on every path: at least one deref exists
			has := false
			ast.Inspect(fd.Body, func(x ast.Node) bool {
				if _, ok := isBackDeref(ro)(x); ok {
					has = true
				}
				// or delegates to another mutator of the same view, which is held to this rule itself
				if call, ok := x.(*ast.CallExpr); ok {
					if sel, ok := call.Fun.(*ast.SelectorExpr); ok && isIdentObj(info, sel.X, ro) && sel.Sel.Name != mname {
						for _, other := range muts {
							if od := g.Funcs[n+"."+other]; sel.Sel.Name == other && od != nil {
								// the delegate itself dereferences the backing pointer (no delegation chains)
								oro := recvObj(info, od)
								ast.Inspect(od.Body, func(y ast.Node) bool {
									if _, ok := isBackDeref(oro)(y); ok {
										has = true
									}
									return true
								})
							}
						}
					}
				}
				return true
			})
			if !has && !silent && alwaysPanics(fd.Body) {
				c.Ok("NIL.mut", con, "unsupported for this element kind: panics on every path", pos(c, g, fd.Pos()), src)
				continue
			}
			c.Check(!silent && has, "NIL.mut", con, "writes through the backing pointer (a read-only empty view panics instead of dropping the write)", "mutator returns silently on a read-only empty view (or never touches the backing store): the write is dropped", pos(c, g, fd.Pos()), src)
		}
	}
}

// unguardedBackDerefs: derefs of x.<back> not after `if x.<back> == nil { return }`.
func unguardedBackDerefs(info *types.Info, body *ast.BlockStmt, ro types.Object, back *types.Var, isDeref func(ast.Node) (ast.Node, bool)) []ast.Node {
	guarded := false
	var out []ast.Node
	for _, s := range body.List {
		if !guarded {
			ast.Inspect(s, func(x ast.Node) bool {
				if site, ok := isDeref(x); ok {
					out = append(out, site)
				}
				return true
			})
		}
		if is, ok := s.(*ast.IfStmt); ok && is.Else == nil {
			if be, ok := ast.Unparen(is.Cond).(*ast.BinaryExpr); ok && be.Op == token.EQL && isNilIdent(info, be.Y) {
				if sel, ok := ast.Unparen(be.X).(*ast.SelectorExpr); ok && isIdentObj(info, sel.X, ro) && info.ObjectOf(sel.Sel) == back && terminates(info, is.Body) {
					guarded = true
				}
			}
		}
	}
	return out
}

// rebindsFresh: the block is `obj = new(T)` / `obj = &T{}`: afterwards obj is non-nil.
func rebindsFresh(info *types.Info, b *ast.BlockStmt, obj types.Object) bool {
	if b == nil || len(b.List) != 1 {
		return false
	}
	as, ok := b.List[0].(*ast.AssignStmt)
	if !ok || as.Tok != token.ASSIGN || len(as.Lhs) != 1 || !isIdentObj(info, as.Lhs[0], obj) {
		return false
	}
	switch r := ast.Unparen(as.Rhs[0]).(type) {
	case *ast.CallExpr:
		if id, ok := r.Fun.(*ast.Ident); ok && id.Name == "new" {
			return true
		}
	case *ast.UnaryExpr:
		if _, ok := ast.Unparen(r.X).(*ast.CompositeLit); ok && r.Op == token.AND {
			return true
		}
	}
	return false
}

// condHasNonNil: the condition is a conjunction containing `obj != nil`.
func condHasNonNil(info *types.Info, c ast.Expr, obj types.Object) bool {
	c = ast.Unparen(c)
	if be, ok := c.(*ast.BinaryExpr); ok {
		if be.Op == token.LAND {
			return condHasNonNil(info, be.X, obj) || condHasNonNil(info, be.Y, obj)
		}
		if be.Op == token.NEQ && isIdentObj(info, be.X, obj) && isNilIdent(info, be.Y) {
			return true
		}
	}
	return false
}

// alwaysPanics: no return statement, last statement is a panic call.
func alwaysPanics(b *ast.BlockStmt) bool {
	if b == nil || len(b.List) == 0 {
		return false
	}
	hasRet := false
	ast.Inspect(b, func(x ast.Node) bool {
		if _, ok := x.(*ast.ReturnStmt); ok {
			hasRet = true
		}
		return true
	})
	if hasRet {
		return false
	}
	es, ok := b.List[len(b.List)-1].(*ast.ExprStmt)
	if !ok {
		return false
	}
	call, ok := es.X.(*ast.CallExpr)
	if !ok {
		return false
	}
	id, ok := call.Fun.(*ast.Ident)
	return ok && id.Name == "panic"
}

var _ = strings.HasPrefix
