package refl

import (
	"fmt"
	"go/ast"
	"go/token"
	"go/types"
	"strings"

	"verif/checker/internal/model"
)

// The value of a oneof field is one of finitely many shapes: the nil interface, a non-nil wrapper of member i, or a
// typed-nil wrapper of member i. An accessor arm that only tests the oneof (comparison with nil, type assertion, type
// switch, nil test of the asserted wrapper) is decided by evaluating it once per shape — a small interpreter over the
// typed syntax tree; nothing is executed. It is the fallback when an arm is not one of the canonical forms: whatever
// the arrangement of the tests, the arm conforms iff it yields the specified outcome in every shape.

type oneofShape struct {
	member int  // -1: nil interface
	nilPtr bool // typed-nil wrapper
}

func (s oneofShape) String() string {
	switch {
	case s.member < 0:
		return "unset"
	case s.nilPtr:
		return fmt.Sprintf("typed-nil wrapper of member %d", s.member)
	}
	return fmt.Sprintf("member %d held", s.member)
}

type oneofOutcome struct {
	kind    string // "return" | "fall" | "panic" | "nilderef" | "undecided"
	ret     []string
	effects []string
	why     string
}

func (o oneofOutcome) String() string {
	s := o.kind
	if o.kind == "return" && len(o.ret) > 0 {
		s += " " + strings.Join(o.ret, ", ")
	}
	if len(o.effects) > 0 {
		s = strings.Join(o.effects, "; ") + "; " + s
	}
	if o.why != "" {
		s += " (" + o.why + ")"
	}
	return s
}

type oval struct {
	isBool bool
	b      bool
	isW    bool // the asserted wrapper pointer
	wNil   bool
	wValid bool // assertion succeeded (else the zero value: nil pointer of the wrapper type)
	sym    string
	unk    bool
}

type oneofEval struct {
	g        *model.GenPkg
	fn       *ast.FuncDecl
	recv     types.Object
	field    string        // Go name of the oneof field of the receiver
	getter   string        // name of the legacy getter returning the oneof ("" = none)
	wrappers []*types.Named // by member index
	shape    oneofShape
	env      map[types.Object]oval
	cn       *canon
	effects  []string
	yield    types.Object // the Range callback parameter (nil outside Range)
	steps    int
}

type oneofStop struct{ out oneofOutcome }

func (e *oneofEval) isOneofExpr(x ast.Expr) bool {
	x = ast.Unparen(x)
	switch t := x.(type) {
	case *ast.SelectorExpr:
		if id, ok := ast.Unparen(t.X).(*ast.Ident); ok && e.g.Info.ObjectOf(id) == e.recv && t.Sel.Name == e.field {
			return true
		}
	case *ast.CallExpr:
		if sel, ok := t.Fun.(*ast.SelectorExpr); ok && len(t.Args) == 0 && e.getter != "" && sel.Sel.Name == e.getter {
			if id, ok := ast.Unparen(sel.X).(*ast.Ident); ok && e.g.Info.ObjectOf(id) == e.recv {
				return true
			}
		}
	}
	return false
}

func (e *oneofEval) memberOf(t types.Type) int {
	pt, ok := t.(*types.Pointer)
	if !ok {
		return -2
	}
	for i, w := range e.wrappers {
		if types.Identical(pt.Elem(), w) {
			return i
		}
	}
	return -2
}

func (e *oneofEval) und(format string, a ...interface{}) {
	panic(oneofStop{oneofOutcome{kind: "undecided", why: fmt.Sprintf(format, a...)}})
}

// render gives the canonical text of an expression with the asserted wrapper variable written %w.
func (e *oneofEval) render(x ast.Expr) string {
	s := e.cn.expr(x)
	if e.cn.err != "" {
		e.und("expression: %s", e.cn.err)
	}
	return s
}

func (e *oneofEval) eval(x ast.Expr) oval {
	info := e.g.Info
	x = ast.Unparen(x)
	if tv, ok := info.Types[x]; ok && tv.Value != nil && tv.Value.Kind().String() == "Bool" {
		return oval{isBool: true, b: tv.Value.ExactString() == "true"}
	}
	switch t := x.(type) {
	case *ast.Ident:
		if v, ok := e.env[info.ObjectOf(t)]; ok {
			return v
		}
		if t.Name == "nil" {
			return oval{sym: "nil"}
		}
	case *ast.UnaryExpr:
		if t.Op == token.NOT {
			v := e.eval(t.X)
			if v.isBool {
				return oval{isBool: true, b: !v.b}
			}
			return oval{unk: true}
		}
	case *ast.BinaryExpr:
		switch t.Op {
		case token.LAND, token.LOR:
			l := e.eval(t.X)
			if l.isBool {
				if t.Op == token.LAND && !l.b {
					return oval{isBool: true, b: false}
				}
				if t.Op == token.LOR && l.b {
					return oval{isBool: true, b: true}
				}
				return e.eval(t.Y)
			}
			return oval{unk: true}
		case token.EQL, token.NEQ:
			a, b := t.X, t.Y
			if tv, ok := info.Types[ast.Unparen(a)]; ok && tv.IsNil() {
				a, b = b, a
			}
			if tv, ok := info.Types[ast.Unparen(b)]; ok && tv.IsNil() {
				isNil, known := false, false
				if e.isOneofExpr(a) {
					isNil, known = e.shape.member < 0, true
				} else if v := e.eval(a); v.isW {
					isNil, known = !v.wValid || v.wNil, true
				}
				if known {
					return oval{isBool: true, b: isNil == (t.Op == token.EQL)}
				}
			}
			return oval{unk: true}
		}
	case *ast.SelectorExpr:
		// field of the asserted wrapper: a nil wrapper cannot be dereferenced
		if v := e.eval(t.X); v.isW {
			if !v.wValid || v.wNil {
				panic(oneofStop{oneofOutcome{kind: "nilderef", effects: e.effects}})
			}
		}
	case *ast.CallExpr:
		for _, a := range t.Args {
			e.eval(a)
		}
		if sel, ok := t.Fun.(*ast.SelectorExpr); ok {
			e.eval(sel.X)
		}
	case *ast.StarExpr:
		e.eval(t.X)
	}
	return oval{sym: "?", unk: true}
}

// symbolic renders a value expression after checking that evaluating it dereferences no nil wrapper.
func (e *oneofEval) symbolic(x ast.Expr) string {
	if v := e.eval(x); v.isBool {
		if v.b {
			return "true"
		}
		return "false"
	} else if v.sym != "" && v.sym != "?" {
		return v.sym
	}
	return e.render(x)
}

func (e *oneofEval) bindAssert(lhs []ast.Expr, ta *ast.TypeAssertExpr, define bool) {
	info := e.g.Info
	if !e.isOneofExpr(ta.X) || ta.Type == nil {
		e.und("type assertion on something other than the oneof")
	}
	mi := e.memberOf(info.TypeOf(ta.Type))
	if mi == -2 {
		e.und("assertion to a type that is not a wrapper of this oneof")
	}
	hit := e.shape.member == mi
	if len(lhs) != 2 {
		e.und("single-result assertion")
	}
	if id, ok := lhs[0].(*ast.Ident); ok && id.Name != "_" {
		o := info.ObjectOf(id)
		e.env[o] = oval{isW: true, wValid: hit, wNil: !hit || e.shape.nilPtr}
		e.cn.names[o] = "%w"
	}
	if id, ok := lhs[1].(*ast.Ident); ok && id.Name != "_" {
		e.env[info.ObjectOf(id)] = oval{isBool: true, b: hit}
	}
}

// exec runs a statement list; it returns false when control left the list through break.
func (e *oneofEval) exec(list []ast.Stmt) (broke bool) {
	info := e.g.Info
	for _, s := range list {
		e.steps++
		if e.steps > 400 {
			e.und("too many steps")
		}
		switch t := s.(type) {
		case *ast.ReturnStmt:
			var rs []string
			for _, r := range t.Results {
				rs = append(rs, e.symbolic(r))
			}
			panic(oneofStop{oneofOutcome{kind: "return", ret: rs, effects: e.effects}})
		case *ast.ExprStmt:
			if call, ok := t.X.(*ast.CallExpr); ok {
				if id, ok := call.Fun.(*ast.Ident); ok && id.Name == "panic" {
					if _, isB := info.Uses[id].(*types.Builtin); isB {
						panic(oneofStop{oneofOutcome{kind: "panic", effects: e.effects}})
					}
				}
			}
			e.und("statement %s", types.ExprString(t.X))
		case *ast.BlockStmt:
			if e.exec(t.List) {
				return true
			}
		case *ast.BranchStmt:
			if t.Tok == token.BREAK && t.Label == nil {
				return true
			}
			e.und("branch statement")
		case *ast.DeclStmt:
			gd, ok := t.Decl.(*ast.GenDecl)
			if !ok || gd.Tok != token.VAR {
				e.und("declaration")
			}
			for _, sp := range gd.Specs {
				vs := sp.(*ast.ValueSpec)
				for i, n := range vs.Names {
					if i < len(vs.Values) {
						e.env[info.Defs[n]] = oval{sym: e.symbolic(vs.Values[i])}
					} else {
						z := "nil"
						if b, isB := info.Defs[n].Type().Underlying().(*types.Basic); isB {
							switch {
							case b.Info()&types.IsBoolean != 0:
								e.env[info.Defs[n]] = oval{isBool: true}
								continue
							case b.Info()&types.IsString != 0:
								z = `""`
							default:
								z = "0"
							}
						}
						e.env[info.Defs[n]] = oval{sym: z}
					}
				}
			}
		case *ast.AssignStmt:
			if len(t.Rhs) == 1 {
				if ta, ok := ast.Unparen(t.Rhs[0]).(*ast.TypeAssertExpr); ok && len(t.Lhs) == 2 {
					e.bindAssert(t.Lhs, ta, t.Tok == token.DEFINE)
					continue
				}
			}
			if len(t.Lhs) != len(t.Rhs) || (t.Tok != token.ASSIGN && t.Tok != token.DEFINE) {
				e.und("assignment form")
			}
			for i, l := range t.Lhs {
				if e.isOneofExpr(l) {
					if _, isCall := ast.Unparen(l).(*ast.CallExpr); isCall {
						e.und("assignment to a call")
					}
					e.effects = append(e.effects, "x."+e.field+" = "+e.symbolic(t.Rhs[i]))
					// the oneof changes shape; only clearing is followed
					if tv, ok := info.Types[ast.Unparen(t.Rhs[i])]; ok && tv.IsNil() {
						e.shape = oneofShape{member: -1}
					} else {
						e.und("store of a new member")
					}
					continue
				}
				id, ok := l.(*ast.Ident)
				if !ok {
					e.und("assignment target %s", types.ExprString(l))
				}
				if id.Name == "_" {
					e.eval(t.Rhs[i])
					continue
				}
				o := info.ObjectOf(id)
				if o == nil || o.Parent() == nil || o.Parent() == o.Pkg().Scope() {
					e.und("assignment to a package-level variable")
				}
				v := e.eval(t.Rhs[i])
				if v.isBool || v.isW {
					e.env[o] = v
				} else {
					e.env[o] = oval{sym: e.symbolic(t.Rhs[i])}
				}
			}
		case *ast.IfStmt:
			if t.Init != nil {
				if e.exec([]ast.Stmt{t.Init}) {
					return true
				}
			}
			c := e.condWithYield(t)
			if c == 1 {
				if e.exec(t.Body.List) {
					return true
				}
			} else if c == 0 && t.Else != nil {
				if e.exec([]ast.Stmt{t.Else}) {
					return true
				}
			}
		case *ast.TypeSwitchStmt:
			if t.Init != nil {
				e.und("type switch with init")
			}
			var x ast.Expr
			var bind *ast.Ident
			switch a := t.Assign.(type) {
			case *ast.AssignStmt:
				bind, _ = a.Lhs[0].(*ast.Ident)
				x = a.Rhs[0]
			case *ast.ExprStmt:
				x = a.X
			}
			ta, ok := ast.Unparen(x).(*ast.TypeAssertExpr)
			if !ok || !e.isOneofExpr(ta.X) {
				e.und("type switch on something other than the oneof")
			}
			var chosen, deflt *ast.CaseClause
			for _, cs := range t.Body.List {
				cc := cs.(*ast.CaseClause)
				if cc.List == nil {
					deflt = cc
					continue
				}
				for _, ce := range cc.List {
					if tv, ok := info.Types[ce]; ok && tv.IsNil() {
						if e.shape.member < 0 && chosen == nil {
							chosen = cc
						}
						continue
					}
					mi := e.memberOf(info.TypeOf(ce))
					if mi == -2 {
						e.und("type switch case that is not a wrapper of this oneof")
					}
					if mi == e.shape.member && chosen == nil {
						chosen = cc
					}
				}
			}
			if chosen == nil {
				chosen = deflt
			}
			if chosen != nil {
				if bind != nil {
					if o := info.Implicits[chosen]; o != nil {
						if len(chosen.List) == 1 && e.shape.member >= 0 && chosen != deflt {
							e.env[o] = oval{isW: true, wValid: true, wNil: e.shape.nilPtr}
							e.cn.names[o] = "%w"
						} else {
							e.env[o] = oval{sym: "x." + e.field}
						}
					}
				}
				e.exec(chosen.Body) // a break leaves the switch only
			}
		case *ast.SwitchStmt:
			if t.Init != nil || t.Tag != nil {
				e.und("switch with init or tag")
			}
			var chosen, deflt *ast.CaseClause
			for _, cs := range t.Body.List {
				cc := cs.(*ast.CaseClause)
				if cc.List == nil {
					deflt = cc
					continue
				}
				if chosen != nil {
					continue
				}
				for _, ce := range cc.List {
					v := e.eval(ce)
					if !v.isBool {
						e.und("switch case %s", types.ExprString(ce))
					}
					if v.b {
						chosen = cc
						break
					}
				}
			}
			if chosen == nil {
				chosen = deflt
			}
			if chosen != nil {
				e.exec(chosen.Body)
			}
		default:
			e.und("statement %T", s)
		}
	}
	return false
}

// condWithYield decides an if condition. `!f(fd, v)` with f the Range callback is an effect: the value is handed to
// the callback, and a false answer must stop the iteration (the body returns); the walk goes on as if it said true.
func (e *oneofEval) condWithYield(t *ast.IfStmt) int {
	conj := []ast.Expr{}
	var flat func(x ast.Expr)
	flat = func(x ast.Expr) {
		if be, ok := ast.Unparen(x).(*ast.BinaryExpr); ok && be.Op == token.LAND {
			flat(be.X)
			flat(be.Y)
			return
		}
		conj = append(conj, x)
	}
	flat(t.Cond)
	for i, cj := range conj {
		if ue, ok := ast.Unparen(cj).(*ast.UnaryExpr); ok && ue.Op == token.NOT && e.yield != nil {
			if call, ok := ast.Unparen(ue.X).(*ast.CallExpr); ok && len(call.Args) == 2 {
				if id, ok := ast.Unparen(call.Fun).(*ast.Ident); ok && e.g.Info.ObjectOf(id) == e.yield {
					if i != len(conj)-1 {
						e.und("callback is not the last operand of the condition")
					}
					stops := t.Else == nil && len(t.Body.List) == 1
					if stops {
						rs, isRet := t.Body.List[0].(*ast.ReturnStmt)
						stops = isRet && len(rs.Results) == 0
					}
					if !stops {
						e.und("a false answer of the callback does not return from Range")
					}
					e.effects = append(e.effects, "yield("+e.symbolic(call.Args[0])+", "+e.symbolic(call.Args[1])+")")
					return 0
				}
			}
		}
		v := e.eval(cj)
		if !v.isBool {
			e.und("condition %s", types.ExprString(cj))
		}
		if !v.b {
			return 0
		}
	}
	return 1
}

// run evaluates the statements in one shape.
func (e *oneofEval) run(list []ast.Stmt, shape oneofShape) (out oneofOutcome) {
	e.shape = shape
	e.env = map[types.Object]oval{}
	e.effects = nil
	e.steps = 0
	e.cn = newCanon(e.g.Info, e.fn)
	defer func() {
		if r := recover(); r != nil {
			if st, ok := r.(oneofStop); ok {
				out = st.out
				return
			}
			panic(r)
		}
	}()
	e.exec(list)
	return oneofOutcome{kind: "fall", effects: e.effects}
}

// oneofShapes lists every shape of a oneof with n members.
func oneofShapes(n int) []oneofShape {
	out := []oneofShape{{member: -1}}
	for i := 0; i < n; i++ {
		out = append(out, oneofShape{member: i}, oneofShape{member: i, nilPtr: true})
	}
	return out
}

// newOneofEval prepares the interpreter for the oneof of field f's message.
func newOneofEval(g *model.GenPkg, fd *ast.FuncDecl, o *model.Oneof, members []*model.Field) *oneofEval {
	e := &oneofEval{g: g, fn: fd, field: o.GoName, getter: "Get" + o.GoName}
	if fd.Recv != nil && len(fd.Recv.List) == 1 && len(fd.Recv.List[0].Names) == 1 {
		e.recv = g.Info.ObjectOf(fd.Recv.List[0].Names[0])
	}
	for _, m := range members {
		e.wrappers = append(e.wrappers, m.Wrapper)
	}
	return e
}

// decideOneof evaluates the statements in every shape and compares with the specification.
// spec(shape) returns the accepted outcomes, rendered like oneofOutcome.String().
func decideOneof(e *oneofEval, list []ast.Stmt, n int, spec func(s oneofShape) []string) (bool, string) {
	for _, sh := range oneofShapes(n) {
		out := e.run(list, sh)
		if out.kind == "undecided" {
			return false, "not decided: " + out.why
		}
		got := out.String()
		if !in(got, spec(sh)) {
			return false, fmt.Sprintf("with the oneof %s the code does: %s ; specified: %s", sh, got, spec(sh)[0])
		}
	}
	return true, ""
}


func memberIndex(o *model.Oneof, f *model.Field) int {
	for i, m := range o.Members {
		if m == f {
			return i
		}
	}
	return -1
}

// oneofArmConforms decides the Has / Get / Clear arm of a oneof member.
func oneofArmConforms(g *model.GenPkg, fd *ast.FuncDecl, body []ast.Stmt, f *model.Field, method string, ex accExpect) (bool, string) {
	o := f.Oneof
	mi := memberIndex(o, f)
	if mi < 0 {
		return false, "member not found"
	}
	e := newOneofEval(g, fd, o, o.Members)
	spec := func(sh oneofShape) []string {
		held := sh.member == mi && !sh.nilPtr
		switch method {
		case "Has":
			if held {
				return []string{"return true"}
			}
			return []string{"return false"}
		case "Get":
			var out []string
			src := ex.oneofOther
			if held {
				src = ex.oneofHeld
			}
			for _, v := range src {
				out = append(out, "return "+v)
			}
			if len(out) == 0 {
				out = []string{"<no specification>"}
			}
			return out
		default: // Clear: the member's wrapper (nil pointer or not) is dropped, any other content stays
			if sh.member == mi {
				return []string{"x." + o.GoName + " = nil; fall", "x." + o.GoName + " = nil; return"}
			}
			return []string{"fall", "return"}
		}
	}
	return decideOneof(e, body, len(o.Members), spec)
}

// whichOneofConforms decides the arm of one oneof in WhichOneof, together with what follows the dispatch.
func whichOneofConforms(g *model.GenPkg, fd *ast.FuncDecl, sw ast.Stmt, arm *ast.CaseClause, m *model.Msg, o *model.Oneof, fdVars map[types.Object]string) (bool, string) {
	var list []ast.Stmt
	seen := false
	for _, st := range fd.Body.List {
		if st == sw {
			// the arm runs inside the dispatch: a break leaves it
			list = append(list, &ast.SwitchStmt{Body: &ast.BlockStmt{List: []ast.Stmt{&ast.CaseClause{Body: arm.Body}}}})
			seen = true
			continue
		}
		if !seen {
			cn0 := newCanon(g.Info, fd)
			if cn0.stmts([]ast.Stmt{st}) == "if (x == nil) {x = new("+tq(m.Fast)+")}" {
				continue
			}
		}
		list = append(list, st)
	}
	pkgPrefix := ""
	if p := string(m.Desc.ParentFile().Package()); p != "" {
		pkgPrefix = p + "."
	}
	e := newOneofEval(g, fd, o, o.Members)
	spec := func(sh oneofShape) []string {
		if sh.member < 0 || sh.nilPtr {
			return []string{"return nil"}
		}
		f := o.Members[sh.member]
		out := []string{"return x.Descriptor().Fields().ByName(\"" + string(f.Desc.Name()) + "\")"}
		rel := strings.TrimPrefix(string(f.Desc.FullName()), pkgPrefix)
		for ob, pth := range fdVars {
			if pth == rel {
				out = append(out, "return "+ob.Name())
			}
		}
		return out
	}
	return decideOneof(e, list, len(o.Members), spec)
}


// rangeOneofBlock finds the top-level statement of Range that visits the oneof and decides it; -1 if none conforms.
func rangeOneofBlock(g *model.GenPkg, fd *ast.FuncDecl, o *model.Oneof, used []bool, varFor func(*model.Field) string) int {
	if len(fd.Type.Params.List) != 1 || len(fd.Type.Params.List[0].Names) != 1 {
		return -1
	}
	for i, st := range fd.Body.List {
		if i >= len(used) || used[i] {
			continue
		}
		e := newOneofEval(g, fd, o, o.Members)
		e.yield = g.Info.ObjectOf(fd.Type.Params.List[0].Names[0])
		mentions := false
		ast.Inspect(st, func(n ast.Node) bool {
			if x, ok := n.(ast.Expr); ok && e.isOneofExpr(x) {
				mentions = true
			}
			return !mentions
		})
		if !mentions {
			continue
		}
		spec := func(sh oneofShape) []string {
			if sh.member < 0 || sh.nilPtr {
				return []string{"fall"}
			}
			f := o.Members[sh.member]
			var out []string
			for _, v := range wrapAlts(f.Desc.Kind(), "%w."+f.GoName) {
				out = append(out, "yield("+varFor(f)+", "+v+"); fall")
			}
			return out
		}
		if ok, _ := decideOneof(e, []ast.Stmt{st}, len(o.Members), spec); ok {
			return i
		}
	}
	return -1
}
