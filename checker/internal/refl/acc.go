package refl

import (
	"fmt"
	"go/ast"
	"strconv"

	"verif/checker/internal/core"
	"verif/checker/internal/model"
)

// nameSwitch finds `switch <param>.FullName() { case "…": … }` at the top level of a method body.
func nameSwitch(fd *ast.FuncDecl) *ast.SwitchStmt {
	for _, s := range fd.Body.List {
		if sw, ok := s.(*ast.SwitchStmt); ok && sw.Tag != nil {
			if call, ok := sw.Tag.(*ast.CallExpr); ok {
				if sel, ok := call.Fun.(*ast.SelectorExpr); ok && sel.Sel.Name == "FullName" {
					return sw
				}
			}
		}
	}
	return nil
}

// arms returns label -> case clause (labels are string literals), plus the default clause.
func arms(sw *ast.SwitchStmt) (map[string]*ast.CaseClause, *ast.CaseClause, []string) {
	m := map[string]*ast.CaseClause{}
	var def *ast.CaseClause
	var dups []string
	for _, cs := range sw.Body.List {
		cc := cs.(*ast.CaseClause)
		if cc.List == nil {
			def = cc
			continue
		}
		for _, e := range cc.List {
			if bl, ok := e.(*ast.BasicLit); ok {
				s, _ := strconv.Unquote(bl.Value)
				if _, dup := m[s]; dup {
					dups = append(dups, s)
				}
				m[s] = cc
			}
		}
	}
	return m, def, dups
}

// DumpAcc prints canonical arms (development aid).
func DumpAcc(c *core.Ctx, only string) {
	for _, g := range sources(c) {
		for _, m := range g.Msgs {
			if only != "" && m.Q() != only {
				continue
			}
			for _, name := range []string{"Has", "Clear", "Get", "Set", "Mutable", "NewField"} {
				fd := m.Methods[name]
				if fd == nil {
					continue
				}
				sw := nameSwitch(fd)
				if sw == nil {
					fmt.Println(m.Q(), name, "NO SWITCH")
					continue
				}
				am, def, _ := arms(sw)
				for _, f := range m.Fields {
					cc := am[string(f.Desc.FullName())]
					if cc == nil {
						fmt.Println(m.Q(), name, f.Q(), "MISSING")
						continue
					}
					cn := newCanon(g.Info, fd)
					s := cn.stmts(cc.Body)
					fmt.Printf("%s %-8s %-40s %s %s\n", m.Q(), name, model.Shape(f.Desc), s, cn.err)
				}
				if def != nil {
					cn := newCanon(g.Info, fd)
					fmt.Printf("%s %-8s %-40s %s\n", m.Q(), name, "default", cn.stmts(def.Body))
				}
			}
			for k, fd := range g.Funcs {
				if len(k) > 3 && k[0] == '_' && (contains(k, "_"+m.GoName+"_")) {
					cn := newCanon(g.Info, fd)
					fmt.Printf("VIEW %-34s %s %s\n", k, cn.stmts(fd.Body.List), cn.err)
				}
			}
			for _, name := range []string{"Range", "WhichOneof"} {
				if fd := m.Methods[name]; fd != nil {
					cn := newCanon(g.Info, fd)
					fmt.Printf("%s %-8s %s %s\n", m.Q(), name, cn.stmts(fd.Body.List), cn.err)
				}
			}
		}
	}
}

func contains(s, sub string) bool {
	for i := 0; i+len(sub) <= len(s); i++ {
		if s[i:i+len(sub)] == sub {
			return true
		}
	}
	return false
}
