package refl

import (
	"go/token"
	"go/constant"
	"fmt"
	"go/ast"
	"go/types"
	"sort"
	"strconv"
	"strings"

	"google.golang.org/protobuf/reflect/protoreflect"

	"verif/checker/internal/core"
	"verif/checker/internal/model"
)

// nameSwitch finds `switch <param>.FullName() { case "…": … }` at the top level of a method body.
func nameSwitch(fd *ast.FuncDecl) *ast.SwitchStmt {
	for _, s := range fd.Body.List {
		if sw, ok := s.(*ast.SwitchStmt); ok && sw.Tag != nil {
			if call, ok := sw.Tag.(*ast.CallExpr); ok {
				if sel, ok := call.Fun.(*ast.SelectorExpr); ok && sel.Sel.Name == "FullName" {
					return sw
				}
			}
		}
	}
	return nil
}

// arms returns label -> case clause (labels are string literals), plus the default clause.
func arms(sw *ast.SwitchStmt) (map[string]*ast.CaseClause, *ast.CaseClause, []string) {
	m := map[string]*ast.CaseClause{}
	var def *ast.CaseClause
	var dups []string
	for _, cs := range sw.Body.List {
		cc := cs.(*ast.CaseClause)
		if cc.List == nil {
			def = cc
			continue
		}
		for _, e := range cc.List {
			if bl, ok := e.(*ast.BasicLit); ok {
				s, _ := strconv.Unquote(bl.Value)
				if _, dup := m[s]; dup {
					dups = append(dups, s)
				}
				m[s] = cc
			}
		}
	}
	return m, def, dups
}

// tq renders a type with its packages qualified the way canonical forms are (import path, except for the few
// well-known packages): two packages that share a NAME stay distinguishable.
func tq(t types.Type) string {
	return types.TypeString(t, pkgLabel)
}

// oneofGetForms: the accepted shapes of "the member's value if this member is set (typed-nil wrapper = unset), else z".
func oneofGetForms(O, W, v, z string) []string {
	test := "%v, %ok := " + O + ".(*" + W + "); (%ok && (%v != nil))"
	return []string{
		"if (" + O + " == nil) {return " + z + "} else if " + test + " {return " + v + "} else {return " + z + "}",
		// a nil interface fails the assertion, so the first arm is implied
		"if " + test + " {return " + v + "}; return " + z,
		"if " + test + " {return " + v + "} else {return " + z + "}",
	}
}

// kinds table ---------------------------------------------------------------

func valueCtor(k protoreflect.Kind) string {
	switch k {
	case protoreflect.BoolKind:
		return "Bool"
	case protoreflect.Int32Kind, protoreflect.Sint32Kind, protoreflect.Sfixed32Kind:
		return "Int32"
	case protoreflect.Int64Kind, protoreflect.Sint64Kind, protoreflect.Sfixed64Kind:
		return "Int64"
	case protoreflect.Uint32Kind, protoreflect.Fixed32Kind:
		return "Uint32"
	case protoreflect.Uint64Kind, protoreflect.Fixed64Kind:
		return "Uint64"
	case protoreflect.FloatKind:
		return "Float32"
	case protoreflect.DoubleKind:
		return "Float64"
	case protoreflect.StringKind:
		return "String"
	case protoreflect.BytesKind:
		return "Bytes"
	case protoreflect.EnumKind:
		return "Enum"
	case protoreflect.MessageKind:
		return "Message"
	}
	return "?"
}

// wrapV renders protoreflect.ValueOf<K>(E) for a Go expression E of the field's Go type.
func wrapV(k protoreflect.Kind, e string) string {
	switch k {
	case protoreflect.EnumKind:
		return "protoreflect.ValueOfEnum(protoreflect.EnumNumber(" + e + "))"
	case protoreflect.MessageKind:
		return "protoreflect.ValueOfMessage(" + e + ".ProtoReflect())"
	}
	return "protoreflect.ValueOf" + valueCtor(k) + "(" + e + ")"
}

// unwrapV renders the conversion of protoreflect.Value V to the Go type T of the kind; alternatives accepted.
func unwrapV(k protoreflect.Kind, v string, T types.Type) []string {
	switch k {
	case protoreflect.BoolKind:
		return []string{v + ".Bool()"}
	case protoreflect.Int32Kind, protoreflect.Sint32Kind, protoreflect.Sfixed32Kind:
		return []string{"int32(" + v + ".Int())"}
	case protoreflect.Int64Kind, protoreflect.Sint64Kind, protoreflect.Sfixed64Kind:
		return []string{v + ".Int()"}
	case protoreflect.Uint32Kind, protoreflect.Fixed32Kind:
		return []string{"uint32(" + v + ".Uint())"}
	case protoreflect.Uint64Kind, protoreflect.Fixed64Kind:
		return []string{v + ".Uint()"}
	case protoreflect.FloatKind:
		return []string{"float32(" + v + ".Float())"}
	case protoreflect.DoubleKind:
		return []string{v + ".Float()"}
	case protoreflect.StringKind:
		return []string{v + ".Interface().(string)", v + ".String()"}
	case protoreflect.BytesKind:
		return []string{v + ".Bytes()"}
	case protoreflect.EnumKind:
		return []string{tq(T) + "(" + v + ".Enum())"}
	case protoreflect.MessageKind:
		return []string{v + ".Message().Interface().(" + tq(T) + ")"}
	}
	return []string{"?"}
}

// zeroLit renders the zero value as the templates write it in a typed context.
func zeroLit(k protoreflect.Kind, T types.Type) []string {
	switch k {
	case protoreflect.BoolKind:
		return []string{"false"}
	case protoreflect.StringKind:
		return []string{`""`}
	case protoreflect.BytesKind:
		return []string{"nil", "[]byte(nil)"}
	case protoreflect.MessageKind:
		return []string{"nil"}
	}
	// numerics: untyped 0 or typed T(0)
	return []string{"0", tq(T) + "(0)"}
}

func isNumericKind(k protoreflect.Kind) bool {
	switch k {
	case protoreflect.BoolKind, protoreflect.StringKind, protoreflect.BytesKind, protoreflect.MessageKind:
		return false
	}
	return true
}

// view type of a list/map field: _<Msg>_<num>_list / _map
func viewType(g *model.GenPkg, f *model.Field) (*types.Named, string) {
	suffix, fieldName := "_list", "list"
	if f.Desc.IsMap() {
		suffix, fieldName = "_map", "m"
	}
	name := fmt.Sprintf("_%s_%d%s", f.Msg.GoName, f.Desc.Number(), suffix)
	if tn, ok := g.Types.Scope().Lookup(name).(*types.TypeName); ok {
		if n, ok := tn.Type().(*types.Named); ok {
			return n, fieldName
		}
	}
	return nil, fieldName
}

func in(s string, alts []string) bool {
	for _, a := range alts {
		if s == a {
			return true
		}
	}
	return false
}

func cross(prefix string, alts []string, suffix string) []string {
	var out []string
	for _, a := range alts {
		out = append(out, prefix+a+suffix)
	}
	return out
}

// expected forms ---------------------------------------------------------------

type accExpect struct {
	has, clear, get, set, mutable, newField []string
	clearBug                               string // the unconditional oneof clear (F9)
	// oneof members: what Get returns when the member is held (its wrapper written %w) and when it is not
	oneofHeld, oneofOther []string
}

func expectFor(g *model.GenPkg, f *model.Field) (accExpect, error) {
	var e accExpect
	fd := f.Desc
	k := fd.Kind()
	switch {
	case fd.IsList() || fd.IsMap():
		L := "x." + f.GoName
		vt, vf := viewType(g, f)
		if vt == nil {
			return e, fmt.Errorf("view type for %s not found", f.Q())
		}
		V := "&" + tq(vt)
		ctor := "protoreflect.ValueOfList"
		if fd.IsMap() {
			ctor = "protoreflect.ValueOfMap"
		}
		T := tq(f.Var.Type())
		e.has = []string{"return (len(" + L + ") != 0)", "return (len(" + L + ") > 0)"}
		e.clear = []string{L + " = nil"}
		e.get = []string{"if (len(" + L + ") == 0) {return " + ctor + "(new(" + tq(vt) + "))}; return " + ctor + "(" + V + "{" + vf + ": &" + L + "})",
			// one view value, bound to the field only when the field has elements
			"%t1 := new(" + tq(vt) + "); if (len(" + L + ") != 0) {%t1." + vf + " = &" + L + "}; return " + ctor + "(%t1)"}
		accessor := ".List()"
		if fd.IsMap() {
			accessor = ".Map()"
		}
		e.set = []string{L + " = *$2" + accessor + ".(*" + tq(vt) + ")." + vf,
			// the same with the failed assertion turned into an explicit panic
			"%t1, %t2 := $2" + accessor + ".(*" + tq(vt) + "); if !%t2 {panic}; " + L + " = *%t1." + vf}
		init := T + "{}"
		if fd.IsMap() {
			init = "make(" + T + ")"
		}
		e.mutable = []string{"if (" + L + " == nil) {" + L + " = " + init + "}; return " + ctor + "(" + V + "{" + vf + ": &" + L + "})"}
		e.newField = []string{"%t1 := " + init + "; return " + ctor + "(" + V + "{" + vf + ": &%t1})"}
	case f.Oneof != nil:
		O := "x." + f.Oneof.GoName
		W := tq(f.Wrapper)
		T := f.WrapperField.Type()
		F := f.GoName
		// a typed-nil wrapper counts as unset (as in protobuf-go's own oneof reflection)
		e.has = []string{"if (" + O + " == nil) {return false} else if %v, %ok := " + O + ".(*" + W + "); (%ok && (%v != nil)) {return true} else {return false}",
			// the same decision without the branches (a nil interface fails the assertion, so the first arm is implied)
			"%t1, %t2 := " + O + ".(*" + W + "); return (%t2 && (%t1 != nil))",
			"if %v, %ok := " + O + ".(*" + W + "); (%ok && (%v != nil)) {return true}; return false",
			"if %v, %ok := " + O + ".(*" + W + "); (%ok && (%v != nil)) {return true} else {return false}"}
		e.clearBug = O + " = nil"
		e.clear = []string{"if _, %ok := " + O + ".(*" + W + "); %ok {" + O + " = nil}"}
		if k == protoreflect.MessageKind {
			MT := tq(T.(*types.Pointer).Elem())
			z := "protoreflect.ValueOfMessage(*" + MT + "(nil).ProtoReflect())"
			e.get = oneofGetForms(O, W, "protoreflect.ValueOfMessage(%v."+F+".ProtoReflect())", z)
			e.oneofHeld, e.oneofOther = []string{"protoreflect.ValueOfMessage(%w." + F + ".ProtoReflect())"}, []string{z}
			e.set = cross(O+" = &"+W+"{"+F+": ", unwrapV(k, "$2", T), "}")
			fresh := "%t1 := new(" + MT + "); " + O + " = &" + W + "{" + F + ": %t1}; return protoreflect.ValueOfMessage(%t1.ProtoReflect())"
			fresh2 := "%t2 := new(" + MT + "); " + O + " = &" + W + "{" + F + ": %t2}; return protoreflect.ValueOfMessage(%t2.ProtoReflect())"
			e.mutable = []string{"if (" + O + " == nil) {" + fresh + "}; typeswitch %w := " + O + ".(type) {case *" + W + ": return protoreflect.ValueOfMessage(%w." + F + ".ProtoReflect()) | default: " + fresh2 + "}",
				// the same decision with one assertion: held member -> its message, anything else (unset or another member) -> a new one
				"if %v, %ok := " + O + ".(*" + W + "); %ok {return protoreflect.ValueOfMessage(%v." + F + ".ProtoReflect())}; " + fresh}
			e.newField = []string{"return protoreflect.ValueOfMessage(&" + MT + "{}.ProtoReflect())", "return protoreflect.ValueOfMessage(new(" + MT + ").ProtoReflect())"}
		} else {
			for _, z := range zeroLit(k, T) {
				zv := wrapV(k, z)
				e.oneofHeld = wrapAlts(k, "%w."+F)
				if k == protoreflect.EnumKind {
					zv = "protoreflect.ValueOfEnum(" + z + ")"
					e.get = append(e.get, oneofGetForms(O, W, wrapV(k, "%v."+F), zv)...)
					zv2 := "protoreflect.ValueOfEnum(protoreflect.EnumNumber(" + z + "))"
					e.get = append(e.get, oneofGetForms(O, W, wrapV(k, "%v."+F), zv2)...)
					e.newField = append(e.newField, "return "+zv, "return "+zv2)
					e.oneofOther = append(e.oneofOther, zv, zv2)
					continue
				}
				e.oneofOther = append(e.oneofOther, zv)
				e.get = append(e.get, oneofGetForms(O, W, wrapV(k, "%v."+F), zv)...)
				e.newField = append(e.newField, "return "+zv)
			}
			e.set = cross(O+" = &"+W+"{"+F+": ", unwrapV(k, "$2", T), "}")
			e.mutable = []string{"panic"}
		}
	default:
		L := "x." + f.GoName
		T := f.Var.Type()
		switch k {
		case protoreflect.BoolKind:
			e.has = []string{"return (" + L + " != false)", "return " + L}
		case protoreflect.FloatKind:
			e.has = []string{"return ((" + L + " != 0) || math.Signbit(float64(" + L + ")))", "return ((" + L + " != float32(0)) || math.Signbit(float64(" + L + ")))",
				"return (math.Float32bits(" + L + ") != 0)"} // the bit pattern is non-zero exactly when the value is not +0
		case protoreflect.DoubleKind:
			e.has = []string{"return ((" + L + " != 0) || math.Signbit(" + L + "))", "return ((" + L + " != float64(0)) || math.Signbit(" + L + "))",
				"return (math.Float64bits(" + L + ") != 0)"}
		case protoreflect.StringKind:
			e.has = []string{"return (" + L + ` != "")`, "return (len(" + L + ") != 0)", "return (len(" + L + ") > 0)"}
		case protoreflect.BytesKind:
			e.has = []string{"return (len(" + L + ") != 0)", "return (len(" + L + ") > 0)"}
		case protoreflect.MessageKind:
			e.has = []string{"return (" + L + " != nil)"}
		default:
			e.has = cross("return ("+L+" != ", zeroLit(k, T), ")")
		}
		e.clear = cross(L+" = ", zeroLit(k, T), "")
		e.get = []string{"return " + wrapV(k, L)}
		e.set = cross(L+" = ", unwrapV(k, "$2", T), "")
		if k == protoreflect.MessageKind {
			MT := tq(T.(*types.Pointer).Elem())
			e.mutable = []string{"if (" + L + " == nil) {" + L + " = new(" + MT + ")}; return protoreflect.ValueOfMessage(" + L + ".ProtoReflect())",
				"if (" + L + " == nil) {" + L + " = new(" + MT + ")}; return protoreflect.ValueOfMessage(" + L + ".ProtoReflect())",
				// the stored message first, allocation otherwise
				"if %v := " + L + "; (%v != nil) {return protoreflect.ValueOfMessage(%v.ProtoReflect())}; " + L + " = new(" + MT + "); return protoreflect.ValueOfMessage(" + L + ".ProtoReflect())"}
			e.newField = []string{"return protoreflect.ValueOfMessage(new(" + MT + ").ProtoReflect())", "return protoreflect.ValueOfMessage(&" + MT + "{}.ProtoReflect())"}
		} else {
			e.mutable = []string{"panic"}
			for _, z := range zeroLit(k, T) {
				if k == protoreflect.EnumKind {
					e.newField = append(e.newField, "return protoreflect.ValueOfEnum("+z+")", "return protoreflect.ValueOfEnum(protoreflect.EnumNumber("+z+"))")
				} else {
					e.newField = append(e.newField, "return "+wrapV(k, z))
				}
			}
		}
	}
	return e, nil
}

// RunAcc decides ACC.* (accessor conformance) on every generated message type.
func RunAcc(c *core.Ctx) {
	nArms := 0
	for _, g := range sources(c) {
		src := g.Source
		fdVars := fdVarMap(g)
		for _, m := range g.Msgs {
			type meth struct {
				name string
				pick func(accExpect) []string
			}
			for _, mt := range []meth{
				{"Has", func(e accExpect) []string { return e.has }},
				{"Clear", func(e accExpect) []string { return e.clear }},
				{"Get", func(e accExpect) []string { return e.get }},
				{"Set", func(e accExpect) []string { return e.set }},
				{"Mutable", func(e accExpect) []string { return e.mutable }},
				{"NewField", func(e accExpect) []string { return e.newField }},
			} {
				fd := m.Methods[mt.name]
				con := fmt.Sprintf("%s.%s", m.Q(), mt.name)
				if fd == nil {
					c.Fail("ACC.arms", con, "method not found", "", src)
					continue
				}
				sw := nameSwitch(fd)
				if sw == nil {
					// a message without fields needs no switch: whatever descriptor is passed, the accessor panics
					if len(m.Fields) == 0 {
						body := fd.Body.List
						cn0 := newCanon(g.Info, fd)
						if len(body) > 0 && cn0.stmts(body[:1]) == "if (x == nil) {x = new("+tq(m.Fast)+")}" {
							body = body[1:]
						}
						c.Check(alwaysPanics(&ast.BlockStmt{List: body}), "ACC.arms", con, "message has no fields: every call panics", "message has no fields but the accessor does not panic for every descriptor", pos(c, g, fd.Pos()), src)
						continue
					}
					c.Undec("ACC.arms", con, "no switch on the field's full name", pos(c, g, fd.Pos()), src)
					continue
				}
				am, def, dups := arms(sw)
				var missing, extra []string
				want := map[string]bool{}
				for _, f := range m.Fields {
					want[string(f.Desc.FullName())] = true
					if am[string(f.Desc.FullName())] == nil {
						missing = append(missing, string(f.Desc.Name()))
					}
				}
				for l := range am {
					if !want[l] {
						extra = append(extra, l)
					}
				}
				sort.Strings(extra)
				defOK := def != nil && alwaysPanics(&ast.BlockStmt{List: def.Body})
				// besides the switch only the nil-receiver prologue `if x == nil { x = new(T) }` may appear
				others := 0
				for _, st := range fd.Body.List {
					if st == ast.Stmt(sw) {
						continue
					}
					cn0 := newCanon(g.Info, fd)
					if cn0.stmts([]ast.Stmt{st}) == "if (x == nil) {x = new("+tq(m.Fast)+")}" {
						continue
					}
					others++
				}
				c.Check(len(missing) == 0 && len(extra) == 0 && len(dups) == 0 && defOK && others == 0, "ACC.arms", con,
					fmt.Sprintf("%d arms = %d schema fields; unknown descriptors panic", len(am), len(m.Fields)),
					fmt.Sprintf("fields without arm %v; arms for names not in the schema %v; duplicate labels %v; default arm panics on every path: %v; statements besides the switch and the nil-receiver prologue: %d", missing, extra, dups, defOK, others), pos(c, g, fd.Pos()), src)
				for _, f := range m.Fields {
					cc := am[string(f.Desc.FullName())]
					if cc == nil {
						continue
					}
					nArms++
					fcon := fmt.Sprintf("%s.%s %s", m.Q(), mt.name, fieldTag(f))
					ex, err := expectFor(g, f)
					if err != nil {
						c.Undec("ACC."+strings.ToLower(mt.name), fcon, err.Error(), pos(c, g, cc.Pos()), src)
						continue
					}
					cn := newCanon(g.Info, fd)
					got := cn.stmts(cc.Body)
					alts := mt.pick(ex)
					// a oneof member's Has/Get/Clear in another arrangement of the same tests: decided shape by shape
					if f.Oneof != nil && (cn.err != "" || !in(got, alts)) && (mt.name == "Has" || mt.name == "Get" || mt.name == "Clear") {
						if ok, _ := oneofArmConforms(g, fd, cc.Body, f, mt.name, ex); ok {
							rule := "ACC." + strings.ToLower(mt.name)
							if mt.name == "Clear" {
								rule = "ACC.clearoneof"
							}
							c.Ok(rule, fcon, "conforms in every shape of the oneof (unset, each member held, each member's typed-nil wrapper), evaluated on the syntax tree", pos(c, g, cc.Pos()), src)
							continue
						}
					}
					if cn.err != "" {
						c.Undec("ACC."+strings.ToLower(mt.name), fcon, "arm not canonicalisable: "+cn.err, pos(c, g, cc.Pos()), src)
						continue
					}
					if mt.name == "Clear" && f.Oneof != nil && got == ex.clearBug {
						c.Fail("ACC.clearoneof", fcon, "Clear of a oneof member empties the oneof unconditionally: clearing a member that is not the one set destroys the member that is", pos(c, g, cc.Pos()), src)
						continue
					}
					rule := "ACC." + strings.ToLower(mt.name)
					if mt.name == "Clear" && f.Oneof != nil {
						rule = "ACC.clearoneof"
					}
					c.Check(in(got, alts), rule, fcon, got, fmt.Sprintf("arm does: %s ; expected: %s", got, alts[0]), pos(c, g, cc.Pos()), src)
				}
			}
			runRange(c, g, m, fdVars)
			runWhichOneof(c, g, m, fdVars)
		}
		runViews(c, g)
	}
	c.Stat("ACC arms", nArms)
}

func fieldTag(f *model.Field) string {
	return fmt.Sprintf("#%d(%s)", f.Desc.Number(), model.Shape(f.Desc))
}

// fdVarMap: package variable fd_X -> "Msg.field" (path relative to the file's proto package), from the init functions:
// `md_M = <File>.Messages().ByName("M")…`, `fd_X = md_M.Fields().ByName("f")`, by declaration index
// (`.Get(i)`), or through a local that holds the list (`fields := md_M.Fields(); fd_X = fields.Get(i)`).
func fdVarMap(g *model.GenPkg) map[types.Object]string {
	out := map[types.Object]string{}
	md := map[types.Object]string{} // md var / local -> message path "A" / "A.B"
	// descriptors by relative path, for index lookups
	msgByRel := map[string]protoreflect.MessageDescriptor{}
	for _, m := range g.Msgs {
		rel := string(m.Desc.FullName())
		if p := string(m.Desc.ParentFile().Package()); p != "" {
			rel = strings.TrimPrefix(rel, p+".")
		}
		msgByRel[rel] = m.Desc
	}
	fileByVar := map[string]protoreflect.FileDescriptor{}
	for v, fdesc := range g.FileDescs {
		fileByVar["File"+strings.TrimSuffix(strings.TrimPrefix(v, "file"), "_rawDesc")] = fdesc
	}
	type listRef struct {
		kind string // "Fields" | "Messages"
		base string // message path, "" for the file
		file protoreflect.FileDescriptor
	}
	// resolve evaluates a descriptor expression: a message path (kind "msg"), a field path (kind "field") or a list.
	var resolve func(x ast.Expr, lists map[types.Object]listRef) (kind, path string, lr listRef, ok bool)
	resolve = func(x ast.Expr, lists map[types.Object]listRef) (string, string, listRef, bool) {
		x = ast.Unparen(x)
		if id, isID := x.(*ast.Ident); isID {
			o := g.Info.ObjectOf(id)
			if p, has := md[o]; has {
				return "msg", p, listRef{}, true
			}
			if l, has := lists[o]; has {
				return "list", "", l, true
			}
			if fdesc, has := fileByVar[id.Name]; has {
				return "file", "", listRef{file: fdesc}, true
			}
			return "", "", listRef{}, false
		}
		call, isCall := x.(*ast.CallExpr)
		if !isCall {
			return "", "", listRef{}, false
		}
		sel, isSel := call.Fun.(*ast.SelectorExpr)
		if !isSel {
			return "", "", listRef{}, false
		}
		k, p, l, ok := resolve(sel.X, lists)
		if !ok {
			return "", "", listRef{}, false
		}
		switch sel.Sel.Name {
		case "Fields", "Messages":
			if len(call.Args) != 0 || (k != "msg" && !(k == "file" && sel.Sel.Name == "Messages")) {
				return "", "", listRef{}, false
			}
			return "list", "", listRef{kind: sel.Sel.Name, base: p, file: l.file}, true
		case "ByName", "Get":
			if k != "list" || len(call.Args) != 1 {
				return "", "", listRef{}, false
			}
			name := ""
			if sel.Sel.Name == "ByName" {
				tv, has := g.Info.Types[call.Args[0]]
				if !has || tv.Value == nil || tv.Value.Kind() != constant.String {
					return "", "", listRef{}, false
				}
				name = constant.StringVal(tv.Value)
			} else {
				idx, isConst := constIntOf(g.Info, call.Args[0])
				if !isConst {
					return "", "", listRef{}, false
				}
				switch {
				case l.kind == "Fields":
					mdesc := msgByRel[l.base]
					if mdesc == nil || idx < 0 || int(idx) >= mdesc.Fields().Len() {
						return "", "", listRef{}, false
					}
					name = string(mdesc.Fields().Get(int(idx)).Name())
				case l.base != "":
					mdesc := msgByRel[l.base]
					if mdesc == nil || idx < 0 || int(idx) >= mdesc.Messages().Len() {
						return "", "", listRef{}, false
					}
					name = string(mdesc.Messages().Get(int(idx)).Name())
				default:
					if l.file == nil || idx < 0 || int(idx) >= l.file.Messages().Len() {
						return "", "", listRef{}, false
					}
					name = string(l.file.Messages().Get(int(idx)).Name())
				}
			}
			path := name
			if l.base != "" {
				path = l.base + "." + name
			}
			if l.kind == "Fields" {
				return "field", path, listRef{}, true
			}
			return "msg", path, listRef{}, true
		}
		return "", "", listRef{}, false
	}
	for _, file := range g.Files {
		for _, d := range file.Decls {
			fd, ok := d.(*ast.FuncDecl)
			if !ok || fd.Name.Name != "init" || fd.Recv != nil || fd.Body == nil {
				continue
			}
			lists := map[types.Object]listRef{}
			for _, s := range fd.Body.List {
				as, ok := s.(*ast.AssignStmt)
				if !ok || len(as.Lhs) != 1 || len(as.Rhs) != 1 {
					continue
				}
				id, ok := as.Lhs[0].(*ast.Ident)
				if !ok {
					continue
				}
				o := g.Info.ObjectOf(id)
				k, p, l, ok := resolve(as.Rhs[0], lists)
				if !ok {
					delete(lists, o)
					continue
				}
				switch k {
				case "field":
					out[o] = p
				case "msg":
					md[o] = p
				case "list":
					if as.Tok == token.DEFINE || lists[o] != (listRef{}) {
						lists[o] = l
					}
				}
			}
		}
	}
	return out
}

func constIntOf(info *types.Info, x ast.Expr) (int64, bool) {
	tv, ok := info.Types[x]
	if !ok || tv.Value == nil || tv.Value.Kind() != constant.Int {
		return 0, false
	}
	return constant.Int64Val(tv.Value)
}

// runRange checks Range: one block per non-oneof field guarded by its presence predicate,
// one block per oneof with one arm per member; f is called with the field's own descriptor variable
// and the same value Get returns; the callback's false stops the iteration.
func runRange(c *core.Ctx, g *model.GenPkg, m *model.Msg, fdVars map[types.Object]string) {
	src := g.Source
	fd := m.Methods["Range"]
	if fd == nil {
		return
	}
	cn := newCanon(g.Info, fd)
	// canonical per top-level statement
	var blocks []string
	for _, s := range fd.Body.List {
		blocks = append(blocks, cn.stmts([]ast.Stmt{s}))
	}
	if cn.err != "" {
		c.Undec("ACC.range", m.Q()+".Range", "not canonicalisable: "+cn.err, pos(c, g, fd.Pos()), src)
		return
	}
	pkgPrefix := ""
	if p := string(m.Desc.ParentFile().Package()); p != "" {
		pkgPrefix = p + "."
	}
	// the fd variable that maps to a field
	varFor := func(f *model.Field) string {
		want := strings.TrimPrefix(string(f.Desc.FullName()), pkgPrefix)
		var names []string
		for o, p := range fdVars {
			if p == want {
				names = append(names, o.Name())
			}
		}
		sort.Strings(names)
		if len(names) == 0 {
			return "?fd"
		}
		return names[0]
	}
	used := make([]bool, len(blocks))
	for i, b := range blocks {
		if b == "if (x == nil) {x = new("+tq(m.Fast)+")}" || b == "if (x == nil) {return }" {
			used[i] = true // nil-receiver prologue: a nil message ranges like the empty message — nothing is visited
		}
	}
	take := func(alts []string) (string, bool) {
		for i, b := range blocks {
			if !used[i] && in(b, alts) {
				used[i] = true
				return b, true
			}
		}
		return "", false
	}
	for _, f := range m.Fields {
		if f.Oneof != nil {
			continue
		}
		con := fmt.Sprintf("%s.Range %s", m.Q(), fieldTag(f))
		ex, err := expectFor(g, f)
		if err != nil {
			c.Undec("ACC.range", con, err.Error(), pos(c, g, fd.Pos()), src)
			continue
		}
		V := varFor(f)
		var alts []string
		for _, h := range ex.has {
			cond := strings.TrimPrefix(h, "return ")
			var val string
			switch {
			case f.Desc.IsList() || f.Desc.IsMap():
				vt, vf := viewType(g, f)
				ctor := "protoreflect.ValueOfList"
				if f.Desc.IsMap() {
					ctor = "protoreflect.ValueOfMap"
				}
				val = ctor + "(&" + tq(vt) + "{" + vf + ": &x." + f.GoName + "})"
			default:
				val = wrapV(f.Desc.Kind(), "x."+f.GoName)
			}
			alts = append(alts, "if "+cond+" {if !$1("+V+", "+val+") {return }}")
		}
		if _, ok := take(alts); ok {
			c.Ok("ACC.range", con, "visited once, under its presence predicate, with its own descriptor and the value Get returns; a false callback stops the iteration", pos(c, g, fd.Pos()), src)
		} else {
			near := ""
			for i, b := range blocks {
				if !used[i] && strings.Contains(b, "x."+f.GoName) {
					near = b
				}
			}
			c.Fail("ACC.range", con, fmt.Sprintf("no Range block equals %s (closest: %s)", alts[0], clip(near, 300)), pos(c, g, fd.Pos()), src)
		}
	}
	for _, o := range m.Oneofs {
		con := fmt.Sprintf("%s.Range oneof %s", m.Q(), o.Desc.Name())
		O := "x." + o.GoName
		var armsS []string
		for _, f := range o.Members {
			armsS = append(armsS, "case *"+tq(f.Wrapper)+": if (%w == nil) {break}; if !$1("+varFor(f)+", "+wrapV(f.Desc.Kind(), "%w."+f.GoName)+") {return }")
		}
		sortArms(armsS)
		want := "if (" + O + " != nil) {typeswitch %w := " + O + ".(type) {" + strings.Join(armsS, " | ") + "}}"
		if _, ok := take([]string{want}); ok {
			c.Ok("ACC.range", con, "the set member (and only it) is visited with its own descriptor", pos(c, g, fd.Pos()), src)
		} else if bi := rangeOneofBlock(g, fd, o, used, varFor); bi >= 0 {
			// another arrangement of the same tests: decided shape by shape
			used[bi] = true
			c.Ok("ACC.range", con, "the member held (and only it, and not through a nil wrapper) is handed to the callback with its own descriptor, a false answer returns — in every shape of the oneof, evaluated on the syntax tree", pos(c, g, fd.Pos()), src)
		} else {
			near := ""
			for i, b := range blocks {
				if !used[i] && strings.Contains(b, O) {
					near = b
				}
			}
			c.Fail("ACC.range", con, fmt.Sprintf("no Range block equals %s (closest: %s)", clip(want, 400), clip(near, 400)), pos(c, g, fd.Pos()), src)
		}
	}
	var extra []string
	for i, b := range blocks {
		if !used[i] {
			extra = append(extra, clip(b, 120))
		}
	}
	c.Check(len(extra) == 0, "ACC.range", m.Q()+".Range total", "every block belongs to exactly one field or oneof (each populated field is visited exactly once)", "Range has blocks that match no schema field: "+strings.Join(extra, " ; "), pos(c, g, fd.Pos()), src)
}

func clip(s string, n int) string {
	if len(s) > n {
		return s[:n] + "…"
	}
	return s
}

func runWhichOneof(c *core.Ctx, g *model.GenPkg, m *model.Msg, fdVars map[types.Object]string) {
	src := g.Source
	fd := m.Methods["WhichOneof"]
	if fd == nil {
		c.Fail("ACC.whichoneof", m.Q()+".WhichOneof", "method not found", "", src)
		return
	}
	sw := nameSwitch(fd)
	if sw == nil {
		if len(m.Oneofs) == 0 {
			body := fd.Body.List
			cn0 := newCanon(g.Info, fd)
			if len(body) > 0 && cn0.stmts(body[:1]) == "if (x == nil) {x = new("+tq(m.Fast)+")}" {
				body = body[1:]
			}
			c.Check(alwaysPanics(&ast.BlockStmt{List: body}), "ACC.whichoneof", m.Q()+".WhichOneof arms", "message has no oneofs: every call panics", "message has no oneofs but WhichOneof does not panic for every descriptor", pos(c, g, fd.Pos()), src)
			return
		}
		c.Undec("ACC.whichoneof", m.Q()+".WhichOneof", "no switch on the oneof's full name", pos(c, g, fd.Pos()), src)
		return
	}
	am, def, _ := arms(sw)
	c.Check(len(am) == len(m.Oneofs) && def != nil && alwaysPanics(&ast.BlockStmt{List: def.Body}), "ACC.whichoneof", m.Q()+".WhichOneof arms",
		fmt.Sprintf("%d arms = %d oneofs", len(am), len(m.Oneofs)), fmt.Sprintf("%d arms for %d oneofs (or the default arm does not panic)", len(am), len(m.Oneofs)), pos(c, g, fd.Pos()), src)
	for _, o := range m.Oneofs {
		con := fmt.Sprintf("%s.WhichOneof %s", m.Q(), o.Desc.Name())
		cc := am[string(o.Desc.FullName())]
		if cc == nil {
			c.Fail("ACC.whichoneof", con, "no arm for this oneof", pos(c, g, fd.Pos()), src)
			continue
		}
		cn := newCanon(g.Info, fd)
		got := cn.stmts(cc.Body)
		O := "x." + o.GoName
		var as []string
		pkgPrefix := ""
		if p := string(m.Desc.ParentFile().Package()); p != "" {
			pkgPrefix = p + "."
		}
		for _, f := range o.Members {
			byName := "x.Descriptor().Fields().ByName(\"" + string(f.Desc.Name()) + "\")"
			// the package-level descriptor variable of the field (bound by name in init, COH.md) is the same descriptor
			rel := strings.TrimPrefix(string(f.Desc.FullName()), pkgPrefix)
			for ob, pth := range fdVars {
				if pth == rel {
					got = strings.ReplaceAll(got, "return "+ob.Name()+"}", "return "+byName+"}")
					got = strings.ReplaceAll(got, "return "+ob.Name()+" |", "return "+byName+" |")
				}
			}
			as = append(as, "case *"+tq(f.Wrapper)+": if (%w == nil) {return nil}; return "+byName)
		}
		sortArms(as)
		want := "if (" + O + " == nil) {return nil}; typeswitch %w := " + O + ".(type) {" + strings.Join(as, " | ") + "}"
		if !(got == want && cn.err == "") {
			if ok, _ := whichOneofConforms(g, fd, sw, cc, m, o, fdVars); ok {
				c.Ok("ACC.whichoneof", con, "nil when unset or when the wrapper held is a nil pointer, else the descriptor of the member held — in every shape of the oneof, evaluated on the syntax tree", pos(c, g, cc.Pos()), src)
				continue
			}
		}
		c.Check(got == want && cn.err == "", "ACC.whichoneof", con, "nil when unset, else the descriptor of the member whose wrapper is held", fmt.Sprintf("arm does: %s ; expected: %s", clip(got, 400), clip(want, 400)), pos(c, g, cc.Pos()), src)
	}
}

// DumpViews prints canonical view methods (development aid).
func DumpViews(c *core.Ctx, only string) {
	for _, g := range sources(c) {
		if g.Name != only {
			continue
		}
		var ks []string
		for k := range g.Funcs {
			if len(k) > 1 && k[0] == '_' {
				ks = append(ks, k)
			}
		}
		sort.Strings(ks)
		for _, k := range ks {
			cn := newCanon(g.Info, g.Funcs[k])
			fmt.Printf("VIEW %-40s %s %s\n", k, cn.stmts(g.Funcs[k].Body.List), cn.err)
		}
	}
}


// wrapAlts: accepted Value constructors for an expression of the kind.
func wrapAlts(k protoreflect.Kind, e string) []string {
	if k == protoreflect.EnumKind {
		return []string{wrapV(k, e), "protoreflect.ValueOfEnum(" + e + ".Number())"}
	}
	return []string{wrapV(k, e)}
}

func keyUnwrap(k protoreflect.Kind) string {
	switch k {
	case protoreflect.BoolKind:
		return "$1.Bool()"
	case protoreflect.Int32Kind, protoreflect.Sint32Kind, protoreflect.Sfixed32Kind:
		return "int32($1.Int())"
	case protoreflect.Int64Kind, protoreflect.Sint64Kind, protoreflect.Sfixed64Kind:
		return "$1.Int()"
	case protoreflect.Uint32Kind, protoreflect.Fixed32Kind:
		return "uint32($1.Uint())"
	case protoreflect.Uint64Kind, protoreflect.Fixed64Kind:
		return "$1.Uint()"
	case protoreflect.StringKind:
		return "$1.String()"
	}
	return "?"
}

// newValueForms: forms of a detached default value of the kind.
func newValueForms(k protoreflect.Kind, T types.Type) []string {
	switch k {
	case protoreflect.MessageKind:
		MT := tq(T.(*types.Pointer).Elem())
		return []string{"return protoreflect.ValueOfMessage(new(" + MT + ").ProtoReflect())", "return protoreflect.ValueOfMessage(&" + MT + "{}.ProtoReflect())"}
	case protoreflect.BytesKind:
		return []string{"var %t1 []byte; return protoreflect.ValueOfBytes(%t1)", "return protoreflect.ValueOfBytes(nil)", "return protoreflect.ValueOfBytes([]byte(nil))"}
	case protoreflect.EnumKind:
		return []string{"return protoreflect.ValueOfEnum(protoreflect.EnumNumber(0))", "return protoreflect.ValueOfEnum(0)"}
	}
	var out []string
	for _, z := range zeroLit(k, T) {
		out = append(out, "return "+wrapV(k, z))
	}
	return out
}

// runViews checks every method of every list/map view type against the forms for its element kinds.
func runViews(c *core.Ctx, g *model.GenPkg) {
	src := g.Source
	for _, m := range g.Msgs {
		for _, f := range m.Fields {
			if !(f.Desc.IsList() || f.Desc.IsMap()) {
				continue
			}
			vt, vf := viewType(g, f)
			if vt == nil {
				c.Fail("ACC.view", f.Q()+" view type", "view type not found", "", src)
				continue
			}
			vn := vt.Obj().Name()
			// the view's backing field must be a pointer to the field's Go type
			okBack := false
			if st, ok := vt.Underlying().(*types.Struct); ok && st.NumFields() == 1 && st.Field(0).Name() == vf {
				if pt, ok := st.Field(0).Type().(*types.Pointer); ok && types.Identical(pt.Elem(), f.Var.Type()) {
					okBack = true
				}
			}
			c.Check(okBack, "ACC.view", f.Q()+" view backing", "single field *"+tq(f.Var.Type()), "view struct does not hold a pointer to the field's Go type", "", src)
			exp := map[string][]string{}
			B := "*x." + vf
			if f.Desc.IsList() {
				k := f.Desc.Kind()
				E := f.Var.Type().(*types.Slice).Elem()
				exp["Len"] = []string{"if (x.list == nil) {return 0}; return len(" + B + ")", "if %v := x.list; (%v != nil) {return len(*%v)}; return 0", "%t1 := x.list; if (%t1 == nil) {return 0}; return len(*%t1)"}
				exp["IsValid"] = []string{"return (x.list != nil)"}
				exp["Get"] = cross("return ", wrapAlts(k, B+"[$1]"), "")
				exp["Set"] = cross(B+"[$1] = ", unwrapV(k, "$2", E), "")
				exp["Append"] = cross(B+" = append("+B+", ", unwrapV(k, "$1", E), ")")
				exp["Truncate"] = []string{B + " = " + B + "[:$1]"}
				exp["AppendMutable"] = []string{"panic"}
				if k == protoreflect.MessageKind {
					MT := tq(E.(*types.Pointer).Elem())
					exp["Truncate"] = []string{"for %i := $1; (%i < len(" + B + ")); %i++ {" + B + "[%i] = nil}; " + B + " = " + B + "[:$1]"}
					exp["AppendMutable"] = []string{"%t1 := new(" + MT + "); " + B + " = append(" + B + ", %t1); return protoreflect.ValueOfMessage(%t1.ProtoReflect())",
						"%t1 := new(" + MT + "); " + B + " = append(" + B + ", %t1); return protoreflect.ValueOfMessage(%t1.ProtoReflect())",
						// composed from the view's own NewElement and Append (each checked against its form here): the
						// element appended is the one wrapped by the value returned, as in protobuf-go's own list type
						"%t1 := x.NewElement(); x.Append(%t1); return %t1"}
				}
				exp["NewElement"] = newValueForms(k, E)
			} else {
				kk, vk := f.Desc.MapKey().Kind(), f.Desc.MapValue().Kind()
				mt := f.Var.Type().(*types.Map)
				V := mt.Elem()
				key := keyUnwrap(kk)
				exp["Len"] = []string{"if (x.m == nil) {return 0}; return len(" + B + ")", "if %v := x.m; (%v != nil) {return len(*%v)}; return 0", "%t1 := x.m; if (%t1 == nil) {return 0}; return len(*%t1)"}
				exp["IsValid"] = []string{"return (x.m != nil)"}
				for _, w := range wrapAlts(vk, "%v") {
					for _, leave := range []string{"break", "return "} {
						exp["Range"] = append(exp["Range"], "if (x.m == nil) {return }; range %k, %v := "+B+" {if !$1(protoreflect.MapKey("+wrapV(kk, "%k")+"), "+w+") {"+leave+"}}")
					}
				}
				exp["Has"] = []string{"if (x.m == nil) {return false}; %t1, %t2 := " + B + "[" + key + "]; return %t2"}
				exp["Clear"] = []string{"if (x.m == nil) {return }; delete(" + B + ", " + key + ")"}
				exp["Get"] = cross("if (x.m == nil) {return protoreflect.Value{}}; %t1, %t2 := "+B+"["+key+"]; if !%t2 {return protoreflect.Value{}}; return ", wrapAlts(vk, "%t1"), "")
				exp["Get"] = append(exp["Get"], cross("if (x.m == nil) {return protoreflect.Value{}}; if %v, %ok := "+B+"["+key+"]; %ok {return ", wrapAlts(vk, "%v"), "}; return protoreflect.Value{}")...)
				exp["Set"] = cross("if (!$1.IsValid() || !$2.IsValid()) {panic}; "+B+"["+key+"] = ", unwrapV(vk, "$2", V), "")
				exp["Mutable"] = []string{"panic"}
				if vk == protoreflect.MessageKind {
					MT := tq(V.(*types.Pointer).Elem())
					exp["Mutable"] = []string{"%t1, %t2 := " + B + "[" + key + "]; if %t2 {return protoreflect.ValueOfMessage(%t1.ProtoReflect())}; %t3 := new(" + MT + "); " + B + "[" + key + "] = %t3; return protoreflect.ValueOfMessage(%t3.ProtoReflect())",
						"if %v, %ok := " + B + "[" + key + "]; %ok {return protoreflect.ValueOfMessage(%v.ProtoReflect())}; %t1 := new(" + MT + "); " + B + "[" + key + "] = %t1; return protoreflect.ValueOfMessage(%t1.ProtoReflect())"}
				}
				exp["NewValue"] = newValueForms(vk, V)
			}
			var names []string
			for n := range exp {
				names = append(names, n)
			}
			sort.Strings(names)
			for _, n := range names {
				fd := g.Funcs[vn+"."+n]
				con := fmt.Sprintf("%s %s.%s", f.Q(), vn, n)
				if fd == nil {
					c.Fail("ACC.view", con, "method not found", "", src)
					continue
				}
				cn := newCanon(g.Info, fd)
				got := cn.stmts(fd.Body.List)
				if cn.err != "" {
					c.Undec("ACC.view", con, "not canonicalisable: "+cn.err, pos(c, g, fd.Pos()), src)
					continue
				}
				// `return runtime.H(x.list)`: a one-parameter helper of the runtime package stands for its body
				if !in(got, exp[n]) {
					if inl, ok := runtimeHelperBody(c, got, "x."+vf); ok {
						got = inl
					}
				}
				// an explicit `if x.m == nil { panic(…) }` in a method whose expected form dereferences x.m on its way anyhow:
				// the read-only empty view panics either way (NIL.mut decides that no path returns silently), only the panic
				// value differs
				if guard := "if (x." + vf + " == nil) {panic}; "; !in(got, exp[n]) && strings.Count(got, guard) == 1 && len(exp[n]) > 0 && strings.Contains(exp[n][0], "*x."+vf) {
					if g2 := strings.Replace(got, guard, "", 1); in(g2, exp[n]) {
						got = g2
					}
				}
				c.Check(in(got, exp[n]), "ACC.view", con, got, fmt.Sprintf("method does: %s ; expected: %s", clip(got, 400), clip(exp[n][0], 400)), pos(c, g, fd.Pos()), src)
			}
		}
	}
}


// runtimeHelperBody: for a method whose canonical form is `return runtime.H(<arg>)`, the canonical body of H (a function
// of the repository's runtime package with one parameter and nothing but that parameter free) with the parameter
// replaced by the argument.
func runtimeHelperBody(c *core.Ctx, got, arg string) (string, bool) {
	const pre = "return runtime."
	if !strings.HasPrefix(got, pre) || !strings.HasSuffix(got, "("+arg+")") {
		return "", false
	}
	name := got[len(pre) : len(got)-len(arg)-2]
	rp := c.Pkg("runtime")
	if rp == nil || strings.ContainsAny(name, "(). ") {
		return "", false
	}
	fd := core.FuncDecls(rp)[name]
	if fd == nil || fd.Body == nil || fd.Recv != nil || len(fd.Type.Params.List) != 1 || len(fd.Type.Params.List[0].Names) != 1 {
		return "", false
	}
	cn := newCanon(rp.TypesInfo, fd)
	po := rp.TypesInfo.Defs[fd.Type.Params.List[0].Names[0]]
	cn.names[po] = arg
	body := cn.stmts(fd.Body.List)
	if cn.err != "" {
		return "", false
	}
	// nothing of the helper's own package may be referred to
	free := false
	ast.Inspect(fd.Body, func(n ast.Node) bool {
		if id, ok := n.(*ast.Ident); ok {
			if o := rp.TypesInfo.Uses[id]; o != nil && o.Pkg() == rp.Types && o.Parent() == rp.Types.Scope() {
				free = true
			}
		}
		return true
	})
	if free {
		return "", false
	}
	return body, true
}
