package refl

import (
	"fmt"
	"sort"
	"strings"

	"verif/checker/internal/core"
)

// RunMeth decides METH.*: the protoiface.Methods literal of every generated type leaves Merge and
// CheckInitialized to protobuf-go's generic implementations and advertises exactly the flags it implements.
func RunMeth(c *core.Ctx) {
	for _, g := range sources(c) {
		src := g.Source
		for _, m := range g.Msgs {
			con := m.Q() + " protoiface.Methods"
			if m.MethodsLit == nil {
				c.Fail("METH", con, "protoiface.Methods value not found", "", src)
				continue
			}
			got := map[string]string{}
			for k, v := range m.MethodsFields {
				got[k] = qualExpr(g.Info, v)
			}
			var bad []string
			for _, k := range []string{"Merge", "CheckInitialized"} {
				if v, present := got[k]; present && v != "nil" {
					bad = append(bad, k+" is overridden by "+v+" (its agreement with the reference algorithm would be a runtime-value question)")
				}
			}
			flags := strings.Split(strings.ReplaceAll(got["Flags"], " ", ""), "|")
			sort.Strings(flags)
			if strings.Join(flags, "|") != "protoiface.SupportMarshalDeterministic|protoiface.SupportUnmarshalDiscardUnknown" {
				bad = append(bad, "Flags = "+got["Flags"]+", expected SupportMarshalDeterministic|SupportUnmarshalDiscardUnknown")
			}
			for _, k := range []string{"Size", "Marshal", "Unmarshal"} {
				if got[k] == "" || got[k] == "nil" {
					bad = append(bad, k+" is not set")
				}
			}
			// the value must be what ProtoMethods returns
			okRet := m.MethodsReturned
			if !okRet {
				bad = append(bad, "ProtoMethods does not return (the address of) this value")
			}
			c.Check(len(bad) == 0, "METH", con, "Merge and CheckInitialized left to the generic implementations; Flags = deterministic|discard-unknown; Size/Marshal/Unmarshal set",
				strings.Join(bad, "; "), pos(c, g, m.MethodsLit.Pos()), src)
			_ = fmt.Sprint
		}
	}
}
