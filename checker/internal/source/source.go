// Package source assembles the generated packages to analyse: S1 (checked in)
// and S2 (regenerated from the working-tree generator for the corpus).
package source

import (
	"fmt"
	"sort"
	"strings"

	"golang.org/x/tools/go/packages"
	"google.golang.org/protobuf/proto"
	"google.golang.org/protobuf/types/descriptorpb"

	"verif/checker/internal/core"
	"verif/checker/internal/gen"
	"verif/checker/internal/model"
)

// S1Rel lists the checked-in generated packages (relative to the module root).
var S1Rel = []string{"testpb", "internal/testprotos/test3"}

type Set struct {
	S1      []*model.GenPkg
	S2      []*model.GenPkg
	Results []*gen.Result // per schema
	Pkgs    []*packages.Package // loaded S2 packages
	WS      *gen.Workspace
	Err     error // fatal S2 error (plugin build etc.)
	Linker  *model.Linker
	SchemaOf map[string]*gen.Schema // S2 package path -> schema
}

func (s *Set) All() []*model.GenPkg { return append(append([]*model.GenPkg{}, s.S1...), s.S2...) }

// rootCosmos returns cosmos.proto as embedded in the root package.
func rootCosmos(c *core.Ctx) *descriptorpb.FileDescriptorProto {
	p := c.Pkg("")
	if p == nil {
		return nil
	}
	m, _, err := gen.RawDescs(p.Syntax, p.TypesInfo)
	if err != nil {
		return nil
	}
	for _, fd := range m {
		return fd
	}
	return nil
}

// GetS1 builds the models of the checked-in generated packages.
func GetS1(c *core.Ctx) *Set {
	return c.Memo("source.S1", func() interface{} {
		s := &Set{Linker: model.NewLinker()}
		if cp := rootCosmos(c); cp != nil {
			s.Linker.Add(cp)
		}
		// the two packages confirmed by hand, plus any other package of the working tree that holds *.pulsar.go files
		rels := append([]string{}, S1Rel...)
		var extra []string
		for path, p := range c.PkgByID {
			if !strings.HasPrefix(path, core.RepoModule+"/") {
				continue
			}
			rel := strings.TrimPrefix(path, core.RepoModule+"/")
			known := false
			for _, r := range S1Rel {
				known = known || r == rel
			}
			if known {
				continue
			}
			for _, f := range p.CompiledGoFiles {
				if strings.HasSuffix(f, ".pulsar.go") {
					extra = append(extra, rel)
					break
				}
			}
		}
		sort.Strings(extra)
		rels = append(rels, extra...)
		for _, rel := range rels {
			p := c.Pkg(rel)
			if p == nil {
				c.Fail("G.anchor", "S1 package "+rel, "checked-in generated package not found", "", "S1")
				continue
			}
			g, err := model.Build(p.Name, "S1", p.Fset, p.Syntax, p.TypesInfo, p.Types, s.Linker)
			if err != nil {
				c.Fail("G.model", "S1 package "+rel, err.Error(), "", "S1")
				continue
			}
			for _, pr := range g.Problems {
				c.Fail("G.model", "S1 "+rel+": "+pr, pr, "", "S1")
			}
			for _, gw := range model.GlobalWrites(g) {
				c.Fail("G.model", "S1 "+rel+": "+gw, "package-level state of generated code is written outside its generated initialisation: "+gw, "", "S1")
			}
			s.S1 = append(s.S1, g)
		}
		n := 0
		for _, g := range s.S1 {
			n += len(g.Msgs)
		}
		c.Stat("S1 message types", n)
		return s
	}).(*Set)
}

// embeddedSchemas re-homes the schemas embedded in S1 into the corpus module.
func embeddedSchemas(c *core.Ctx, s1 *Set) []*gen.Schema {
	var out []*gen.Schema
	cosmos := rootCosmos(c)
	for _, g := range s1.S1 {
		var files []*descriptorpb.FileDescriptorProto
		names := []string{}
		for _, fd := range g.RawVars {
			names = append(names, fd.GetName())
		}
		sort.Strings(names)
		byName := map[string]*descriptorpb.FileDescriptorProto{}
		for _, fd := range g.RawVars {
			byName[fd.GetName()] = fd
		}
		// dependency order
		done := map[string]bool{}
		var visit func(n string)
		visit = func(n string) {
			if done[n] || byName[n] == nil {
				return
			}
			done[n] = true
			for _, d := range byName[n].GetDependency() {
				visit(d)
			}
			cp := proto.Clone(byName[n]).(*descriptorpb.FileDescriptorProto)
			if cp.Options == nil {
				cp.Options = &descriptorpb.FileOptions{}
			}
			cp.Options.GoPackage = proto.String(gen.CorpusModule + "/emb_" + g.Name)
			files = append(files, cp)
		}
		for _, n := range names {
			visit(n)
		}
		sc := &gen.Schema{Name: "emb_" + g.Name, Files: files}
		if cosmos != nil {
			cc := proto.Clone(cosmos).(*descriptorpb.FileDescriptorProto)
			cc.Options.GoPackage = proto.String("github.com/cosmos/cosmos-proto;cosmos_proto")
			sc.ExtraDeps = append(sc.ExtraDeps, cc)
		}
		out = append(out, sc)
	}
	return out
}

// GetS2 builds the generator, runs it on the corpus, type-checks the output and models it.
func GetS2(c *core.Ctx) *Set {
	return c.Memo("source.S2", func() interface{} {
		s1 := GetS1(c)
		s := &Set{S1: s1.S1, Linker: s1.Linker, SchemaOf: map[string]*gen.Schema{}}
		ws, err := gen.NewWorkspace(c)
		if err != nil {
			s.Err = err
			return s
		}
		s.WS = ws
		corpus := gen.Corpus(c.Tier, embeddedSchemas(c, s1))
		if c.Tier == "thorough" {
			// random schemas per seed (VERIF_SEED); 24 files
			corpus = append(corpus, gen.RandomSchemas(c.Seed+1, 64)...)
		}
		s.Results = ws.RunAll(corpus)
		for _, r := range s.Results {
			if r.RunErr != nil || r.Response == nil || r.Response.Error != nil {
				continue
			}
			if _, err := ws.Write(r); err != nil {
				r.RunErr = err
			}
			for n := range r.Files {
				dir := n[:strings.LastIndex(n, "/")]
				s.SchemaOf[dir] = r.Schema
			}
		}
		pkgs, err := ws.LoadGenerated("")
		if err != nil {
			s.Err = fmt.Errorf("loading regenerated sources: %v", err)
			return s
		}
		s.Pkgs = pkgs
		// make every embedded descriptor known to the linker first: packages are modelled in path order, which need
		// not be dependency order
		for _, p := range pkgs {
			if len(p.Errors) > 0 || p.Types == nil || p.TypesInfo == nil {
				continue
			}
			if raws, _, err := gen.RawDescs(p.Syntax, p.TypesInfo); err == nil {
				for _, fd := range raws {
					if _, known := s.Linker.Protos[fd.GetName()]; !known {
						s.Linker.Add(fd)
					}
				}
			}
		}
		for _, p := range pkgs {
			if len(p.Errors) > 0 || p.Types == nil || p.TypesInfo == nil {
				// code the working-tree generator emits for this schema cannot be analysed at all: no rule about
				// generated code can be discharged for it, whatever the property (details under GEN.types)
				msg := "no type information"
				if len(p.Errors) > 0 {
					msg = p.Errors[0].Msg
				}
				// a schema that exists only to isolate a known finding: GEN.types (C12) carries it; there is nothing to
				// analyse for the other properties
				if sc := s.SchemaOf[p.PkgPath]; sc != nil && sc.Known != "" {
					continue
				}
				c.Fail("G.model", "S2 package "+strings.TrimPrefix(p.PkgPath, gen.CorpusModule+"/")+" type-checks", "the code generated by the working-tree plugin for this corpus schema does not type-check and cannot be analysed: "+msg, "", "S2")
				continue
			}
			for _, sh := range core.ShadowedUniverse(p) {
				c.Fail("LOAD", "shadowed predeclared identifier "+sh+" in regenerated "+p.PkgPath, "generated code declares a name that shadows a predeclared identifier", "", "S2")
			}
			sc := s.SchemaOf[p.PkgPath]
			name := strings.TrimPrefix(p.PkgPath, gen.CorpusModule+"/")
			src := "S2"
			if sc != nil {
				src = "S2:" + sc.Name
			}
			if sc != nil && sc.NoModel {
				continue
			}
			// companion files of the stock protoc-gen-go (Schema.PbGo) are part of the package but not generated code of
			// this plugin
			syn := p.Syntax
			if sc != nil && len(sc.PbGo) > 0 {
				syn = nil
				for _, f := range p.Syntax {
					if !strings.HasSuffix(p.Fset.Position(f.Pos()).Filename, ".pb.go") {
						syn = append(syn, f)
					}
				}
				if len(syn) == 0 {
					continue
				}
			}
			g, err := model.Build(name, src, p.Fset, syn, p.TypesInfo, p.Types, s.Linker)
			if err != nil {
				c.Fail("G.model", "S2 package "+name, err.Error(), "", src)
				continue
			}
			for _, pr := range g.Problems {
				c.Fail("G.model", "S2 "+name+": "+pr, pr, "", src)
			}
			for _, gw := range model.GlobalWrites(g) {
				c.Fail("G.model", "S2 "+name+": "+gw, "package-level state of generated code is written outside its generated initialisation: "+gw, "", src)
			}
			s.S2 = append(s.S2, g)
		}
		n := 0
		for _, g := range s.S2 {
			n += len(g.Msgs)
		}
		c.Stat("S2 message types", n)
		c.Stat("S2 packages", len(s.S2))
		c.Stat("S2 schemas", len(s.Results))
		return s
	}).(*Set)
}
