package lib

import (
	"fmt"
	"go/ast"
	"go/constant"
	"go/token"
	"go/types"
	"sort"
	"strings"

	"golang.org/x/tools/go/packages"

	"verif/checker/internal/core"
)

// ---------------------------------------------------------------------------
// A small evaluator for integer/boolean functions whose parameters are
// touched only through comparisons: the parameters' fields are bound to
// concrete representatives of each abstract ordering, and the function body
// is interpreted by the checker (the code under analysis is never executed).

type mval struct {
	isBool bool
	b      bool
	n      int64
}

type outcome struct {
	panicked bool
	ret      []mval
}

type miniInterp struct {
	pkg   *packages.Package
	fns   map[string]*ast.FuncDecl
	depth int
}

type menv struct {
	vars   map[string]mval  // locals and "param.Field"
	ptrNil map[string]bool  // pointer params that are nil
	alias  map[string]string // param name -> actual param key (for calls)
}

func (m *miniInterp) evalE(x ast.Expr, env *menv) (mval, error) {
	info := m.pkg.TypesInfo
	x = ast.Unparen(x)
	if tv, ok := info.Types[x]; ok && tv.Value != nil {
		switch tv.Value.Kind() {
		case constant.Bool:
			return mval{isBool: true, b: constant.BoolVal(tv.Value)}, nil
		case constant.Int:
			v, _ := constant.Int64Val(tv.Value)
			return mval{n: v}, nil
		}
	}
	switch t := x.(type) {
	case *ast.Ident:
		if v, ok := env.vars[t.Name]; ok {
			return v, nil
		}
		return mval{}, und("identifier %s has no abstract value", t.Name)
	case *ast.SelectorExpr:
		if id, ok := ast.Unparen(t.X).(*ast.Ident); ok {
			key := id.Name
			if a, ok := env.alias[key]; ok {
				key = a
			}
			if v, ok := env.vars[key+"."+t.Sel.Name]; ok {
				return v, nil
			}
		}
		return mval{}, und("selector %s has no abstract value", types.ExprString(t))
	case *ast.UnaryExpr:
		v, err := m.evalE(t.X, env)
		if err != nil {
			return mval{}, err
		}
		switch t.Op {
		case token.NOT:
			return mval{isBool: true, b: !v.b}, nil
		case token.SUB:
			return mval{n: -v.n}, nil
		}
		return mval{}, und("unary %s", t.Op)
	case *ast.BinaryExpr:
		// nil tests on pointer params
		if t.Op == token.EQL || t.Op == token.NEQ {
			if isNilIdent(info, t.Y) {
				if id, ok := ast.Unparen(t.X).(*ast.Ident); ok {
					key := id.Name
					if a, ok := env.alias[key]; ok {
						key = a
					}
					isNil, known := env.ptrNil[key]
					if known {
						return mval{isBool: true, b: isNil == (t.Op == token.EQL)}, nil
					}
				}
				return mval{}, und("nil test on %s", types.ExprString(t.X))
			}
		}
		l, err := m.evalE(t.X, env)
		if err != nil {
			return mval{}, err
		}
		if t.Op == token.LAND {
			if !l.b {
				return mval{isBool: true, b: false}, nil
			}
			return m.evalE(t.Y, env)
		}
		if t.Op == token.LOR {
			if l.b {
				return mval{isBool: true, b: true}, nil
			}
			return m.evalE(t.Y, env)
		}
		r, err := m.evalE(t.Y, env)
		if err != nil {
			return mval{}, err
		}
		switch t.Op {
		case token.EQL:
			if l.isBool {
				return mval{isBool: true, b: l.b == r.b}, nil
			}
			return mval{isBool: true, b: l.n == r.n}, nil
		case token.NEQ:
			if l.isBool {
				return mval{isBool: true, b: l.b != r.b}, nil
			}
			return mval{isBool: true, b: l.n != r.n}, nil
		case token.LSS:
			return mval{isBool: true, b: l.n < r.n}, nil
		case token.LEQ:
			return mval{isBool: true, b: l.n <= r.n}, nil
		case token.GTR:
			return mval{isBool: true, b: l.n > r.n}, nil
		case token.GEQ:
			return mval{isBool: true, b: l.n >= r.n}, nil
		}
		return mval{}, und("binary %s is not a comparison or connective", t.Op)
	case *ast.CallExpr:
		if isIntCmpCompare(info, t) {
			l, err := m.evalE(t.Args[0], env)
			if err != nil {
				return mval{}, err
			}
			r, err := m.evalE(t.Args[1], env)
			if err != nil {
				return mval{}, err
			}
			switch {
			case l.n < r.n:
				return mval{n: -1}, nil
			case l.n > r.n:
				return mval{n: 1}, nil
			}
			return mval{n: 0}, nil
		}
		// int64(x) of an int32/int64 value keeps the order (and the value)
		if tv, ok := info.Types[t.Fun]; ok && tv.IsType() && len(t.Args) == 1 {
			if bt, ok := tv.Type.Underlying().(*types.Basic); ok && bt.Kind() == types.Int64 {
				if at, ok := info.TypeOf(t.Args[0]).Underlying().(*types.Basic); ok && (at.Kind() == types.Int32 || at.Kind() == types.Int64) {
					return m.evalE(t.Args[0], env)
				}
			}
		}
		obj := core.CalleeObj(info, t)
		if f, ok := obj.(*types.Func); ok && f.Pkg() == m.pkg.Types {
			out, err := m.call(f.Name(), t.Args, env)
			if err != nil {
				return mval{}, err
			}
			if out.panicked {
				return mval{}, panicSignal{}
			}
			if len(out.ret) != 1 {
				return mval{}, und("call %s result arity", f.Name())
			}
			return out.ret[0], nil
		}
		return mval{}, und("call to %s", core.QualName(obj))
	}
	return mval{}, und("expression form %T", x)
}

type panicSignal struct{}

func (panicSignal) Error() string { return "panic" }

func isNilIdent(info *types.Info, e ast.Expr) bool {
	id, ok := ast.Unparen(e).(*ast.Ident)
	if !ok {
		return false
	}
	_, isNil := info.Uses[id].(*types.Nil)
	return isNil
}

func (m *miniInterp) call(fn string, args []ast.Expr, caller *menv) (outcome, error) {
	fd := m.fns[fn]
	if fd == nil || fd.Body == nil {
		return outcome{}, und("function %s not found", fn)
	}
	m.depth++
	defer func() { m.depth-- }()
	if m.depth > 8 {
		return outcome{}, und("call depth")
	}
	env := &menv{vars: map[string]mval{}, ptrNil: map[string]bool{}, alias: map[string]string{}}
	// share field bindings with the caller
	for k, v := range caller.vars {
		if strings.Contains(k, ".") {
			env.vars[k] = v
		}
	}
	for k, v := range caller.ptrNil {
		env.ptrNil[k] = v
	}
	i := 0
	for _, f := range fd.Type.Params.List {
		for _, n := range f.Names {
			if i >= len(args) {
				return outcome{}, und("arity")
			}
			a := ast.Unparen(args[i])
			i++
			if u, ok := a.(*ast.UnaryExpr); ok && u.Op == token.AND {
				a = ast.Unparen(u.X)
			}
			if id, ok := a.(*ast.Ident); ok {
				key := id.Name
				if al, ok := caller.alias[key]; ok {
					key = al
				}
				if _, isPtr := caller.ptrNil[key]; isPtr {
					env.alias[n.Name] = key
					continue
				}
			}
			v, err := m.evalE(args[i-1], caller)
			if err != nil {
				return outcome{}, err
			}
			env.vars[n.Name] = v
		}
	}
	return m.execBody(fd.Body.List, env)
}

func (m *miniInterp) execBody(list []ast.Stmt, env *menv) (out outcome, err error) {
	defer func() {
		if _, ok := err.(panicSignal); ok {
			out, err = outcome{panicked: true}, nil
		}
	}()
	done, o, err := m.execList(list, env)
	if err != nil {
		return outcome{}, err
	}
	if !done {
		return outcome{}, nil // fell off the end: no result (void function)
	}
	return o, nil
}

func (m *miniInterp) execList(list []ast.Stmt, env *menv) (bool, outcome, error) {
	for _, s := range list {
		switch st := s.(type) {
		case *ast.IfStmt:
			if st.Init != nil {
				// `if v := E; cond`: v lives for the if statement only
				as, ok := st.Init.(*ast.AssignStmt)
				if !ok || as.Tok != token.DEFINE || len(as.Lhs) != 1 || len(as.Rhs) != 1 {
					return false, outcome{}, und("if with an init statement other than v := E")
				}
				id, _ := as.Lhs[0].(*ast.Ident)
				if id == nil {
					return false, outcome{}, und("if init target")
				}
				v, err := m.evalE(as.Rhs[0], env)
				if err != nil {
					return false, outcome{}, err
				}
				old, had := env.vars[id.Name]
				env.vars[id.Name] = v
				plain := *st
				plain.Init = nil
				done, o, err := m.execList([]ast.Stmt{&plain}, env)
				if had {
					env.vars[id.Name] = old
				} else {
					delete(env.vars, id.Name)
				}
				if err != nil || done {
					return done, o, err
				}
				continue
			}
			c, err := m.evalE(st.Cond, env)
			if err != nil {
				return false, outcome{}, err
			}
			if c.b {
				done, o, err := m.execList(st.Body.List, env)
				if err != nil || done {
					return done, o, err
				}
			} else if st.Else != nil {
				var l []ast.Stmt
				switch e := st.Else.(type) {
				case *ast.BlockStmt:
					l = e.List
				case *ast.IfStmt:
					l = []ast.Stmt{e}
				}
				done, o, err := m.execList(l, env)
				if err != nil || done {
					return done, o, err
				}
			}
		case *ast.SwitchStmt:
			// tagless switch = if / else-if ladder (no fallthrough, no break)
			if st.Init != nil || st.Tag != nil {
				return false, outcome{}, und("switch with init or tag")
			}
			var chosen, deflt *ast.CaseClause
			for _, cs := range st.Body.List {
				cc := cs.(*ast.CaseClause)
				if cc.List == nil {
					deflt = cc
					continue
				}
				if chosen != nil {
					continue
				}
				for _, ce := range cc.List {
					c, err := m.evalE(ce, env)
					if err != nil {
						return false, outcome{}, err
					}
					if c.b {
						chosen = cc
						break
					}
				}
			}
			if chosen == nil {
				chosen = deflt
			}
			if chosen != nil {
				bad := false
				ast.Inspect(chosen, func(n ast.Node) bool {
					if b, ok := n.(*ast.BranchStmt); ok && (b.Tok == token.FALLTHROUGH || b.Tok == token.BREAK || b.Tok == token.GOTO) {
						bad = true
					}
					return true
				})
				if bad {
					return false, outcome{}, und("branch statement inside switch")
				}
				done, o, err := m.execList(chosen.Body, env)
				if err != nil || done {
					return done, o, err
				}
			}
		case *ast.ReturnStmt:
			var rs []mval
			for _, r := range st.Results {
				v, err := m.evalE(r, env)
				if err != nil {
					return false, outcome{}, err
				}
				rs = append(rs, v)
			}
			return true, outcome{ret: rs}, nil
		case *ast.ExprStmt:
			call, ok := st.X.(*ast.CallExpr)
			if !ok {
				return false, outcome{}, und("expression statement")
			}
			if id, ok := call.Fun.(*ast.Ident); ok && id.Name == "panic" {
				if _, isB := m.pkg.TypesInfo.Uses[id].(*types.Builtin); isB {
					return true, outcome{panicked: true}, nil
				}
			}
			if _, err := m.evalE(call, env); err != nil {
				if _, ok := err.(panicSignal); ok {
					return true, outcome{panicked: true}, nil
				}
				// void call to a package function
				obj := core.CalleeObj(m.pkg.TypesInfo, call)
				if f, ok := obj.(*types.Func); ok && f.Pkg() == m.pkg.Types {
					o, err2 := m.call(f.Name(), call.Args, env)
					if err2 != nil {
						return false, outcome{}, err2
					}
					if o.panicked {
						return true, o, nil
					}
					continue
				}
				return false, outcome{}, err
			}
		case *ast.AssignStmt:
			if len(st.Lhs) != 1 || len(st.Rhs) != 1 || (st.Tok != token.DEFINE && st.Tok != token.ASSIGN) {
				return false, outcome{}, und("assignment form")
			}
			id, ok := st.Lhs[0].(*ast.Ident)
			if !ok {
				return false, outcome{}, und("assignment target")
			}
			v, err := m.evalE(st.Rhs[0], env)
			if err != nil {
				return false, outcome{}, err
			}
			env.vars[id.Name] = v
		default:
			return false, outcome{}, und("statement %T", s)
		}
	}
	return false, outcome{}, nil
}

// isWidening: a conversion int64(x) of an int32 or int64 value (keeps value and order).
func isWidening(info *types.Info, c *ast.CallExpr) bool {
	tv, ok := info.Types[c.Fun]
	if !ok || !tv.IsType() || len(c.Args) != 1 {
		return false
	}
	bt, ok := tv.Type.Underlying().(*types.Basic)
	if !ok || bt.Kind() != types.Int64 {
		return false
	}
	at, ok := info.TypeOf(c.Args[0]).Underlying().(*types.Basic)
	return ok && (at.Kind() == types.Int32 || at.Kind() == types.Int64)
}

func stripWidening(info *types.Info, x ast.Expr) ast.Expr {
	for {
		x = ast.Unparen(x)
		if c, ok := x.(*ast.CallExpr); ok && isWidening(info, c) {
			x = c.Args[0]
			continue
		}
		return x
	}
}

// orderOnly: every parameter of the function is an integer, and every use of a parameter in its body is a direct
// operand of a comparison (or of cmp.Compare) with another parameter (or, where allowed, the constant 0): its result
// depends on nothing but the mutual order of its arguments.
func orderOnly(pkg *packages.Package, fd *ast.FuncDecl, allowZeroConst bool) bool {
	info := pkg.TypesInfo
	params := map[types.Object]bool{}
	for _, f := range fd.Type.Params.List {
		for _, n := range f.Names {
			o := info.Defs[n]
			bt, ok := o.Type().Underlying().(*types.Basic)
			if !ok || bt.Info()&types.IsInteger == 0 {
				return false
			}
			params[o] = true
		}
	}
	if len(params) < 2 || fd.Body == nil {
		return false
	}
	parents := map[ast.Node]ast.Node{}
	var stack []ast.Node
	ast.Inspect(fd.Body, func(n ast.Node) bool {
		if n == nil {
			stack = stack[:len(stack)-1]
			return true
		}
		if len(stack) > 0 {
			parents[n] = stack[len(stack)-1]
		}
		stack = append(stack, n)
		return true
	})
	good := true
	isParam := func(x ast.Expr) bool {
		id, ok := ast.Unparen(x).(*ast.Ident)
		return ok && params[info.Uses[id]]
	}
	ast.Inspect(fd.Body, func(n ast.Node) bool {
		switch t := n.(type) {
		case *ast.FuncLit, *ast.GoStmt, *ast.DeferStmt:
			good = false
		case *ast.AssignStmt, *ast.IncDecStmt:
			good = false // no locals, no writes: nothing but comparisons and returns
		case *ast.CallExpr:
			if !isIntCmpCompare(info, t) {
				good = false
			}
		case *ast.Ident:
			if !params[info.Uses[t]] {
				return true
			}
			q := parents[t]
			for {
				if pe, ok := q.(*ast.ParenExpr); ok {
					q = parents[pe]
					continue
				}
				break
			}
			switch pq := q.(type) {
			case *ast.BinaryExpr:
				if !isCmp(pq.Op) {
					good = false
					break
				}
				other := pq.X
				if ast.Unparen(pq.X) == ast.Expr(t) {
					other = pq.Y
				}
				if isParam(other) {
					break
				}
				if tv, ok := info.Types[ast.Unparen(other)]; ok && tv.Value != nil && allowZeroConst {
					if v, ok := constant.Int64Val(constant.ToInt(tv.Value)); ok && v == 0 {
						break
					}
				}
				good = false
			case *ast.CallExpr:
				if !isIntCmpCompare(info, pq) || !isParam(pq.Args[0]) || !isParam(pq.Args[1]) {
					good = false
				}
			default:
				good = false
			}
		}
		return good
	})
	return good
}

// onlyCompared verifies the soundness side-condition of the finite abstraction:
// every use of a field of the given parameters is a direct operand of a
// comparison whose other operand is the same field of another parameter or a
// constant; parameters themselves are only nil-tested, selected, or passed on
// to package functions for which the same holds.
func onlyCompared(pkg *packages.Package, fd *ast.FuncDecl, fns map[string]*ast.FuncDecl, seen map[string]bool, allowZeroConst bool) error {
	if seen[fd.Name.Name] {
		return nil
	}
	seen[fd.Name.Name] = true
	info := pkg.TypesInfo
	params := map[types.Object]bool{}
	for _, f := range fd.Type.Params.List {
		for _, n := range f.Names {
			if _, ok := info.Defs[n].Type().Underlying().(*types.Pointer); ok {
				params[info.Defs[n]] = true
			}
		}
	}
	parents := map[ast.Node]ast.Node{}
	var stack []ast.Node
	ast.Inspect(fd.Body, func(n ast.Node) bool {
		if n == nil {
			stack = stack[:len(stack)-1]
			return true
		}
		if len(stack) > 0 {
			parents[n] = stack[len(stack)-1]
		}
		stack = append(stack, n)
		return true
	})
	var err error
	ast.Inspect(fd.Body, func(n ast.Node) bool {
		id, ok := n.(*ast.Ident)
		if !ok || !params[info.Uses[id]] {
			return true
		}
		p := parents[id]
		for {
			if pe, ok := p.(*ast.ParenExpr); ok {
				p = parents[pe]
				continue
			}
			break
		}
		switch pp := p.(type) {
		case *ast.SelectorExpr:
			// field use: parent must be comparison (possibly through an order-preserving conversion to int64)
			q := parents[pp]
			var self ast.Expr = pp
			for {
				if pe, ok := q.(*ast.ParenExpr); ok {
					self = pe
					q = parents[pe]
					continue
				}
				if ce, ok := q.(*ast.CallExpr); ok && isWidening(info, ce) {
					self = ce
					q = parents[ce]
					continue
				}
				break
			}
			// h(a.F, b.F) where h is a function of the package over integers whose result depends on nothing but the
			// mutual order of its arguments: the same abstraction applies one level down
			if call, isCall := q.(*ast.CallExpr); isCall && !isIntCmpCompare(info, call) {
				if f, ok := core.CalleeObj(info, call).(*types.Func); ok && f.Pkg() == pkg.Types && fns[f.Name()] != nil && orderOnly(pkg, fns[f.Name()], allowZeroConst) {
					okArgs := len(call.Args) >= 2
					seenParam := map[types.Object]bool{}
					for _, a := range call.Args {
						a = stripWidening(info, a)
						os, ok := a.(*ast.SelectorExpr)
						if !ok || os.Sel.Name != pp.Sel.Name {
							okArgs = false
							break
						}
						oid, ok := ast.Unparen(os.X).(*ast.Ident)
						if !ok || !params[info.Uses[oid]] || seenParam[info.Uses[oid]] {
							okArgs = false
							break
						}
						seenParam[info.Uses[oid]] = true
					}
					if okArgs {
						return true
					}
					err = und("%s: field %s is handed to %s together with something other than the same field of the other parameters", fd.Name.Name, types.ExprString(pp), f.Name())
					return false
				}
			}
			_ = self
			// cmp.Compare(a.F, b.F) on integers is a three-way comparison of the two fields
			if call, isCall := q.(*ast.CallExpr); isCall && isIntCmpCompare(info, call) {
				other := call.Args[0]
				if ast.Unparen(other) == ast.Expr(pp) {
					other = call.Args[1]
				}
				if os, ok := ast.Unparen(other).(*ast.SelectorExpr); ok && os.Sel.Name == pp.Sel.Name {
					if oid, ok := ast.Unparen(os.X).(*ast.Ident); ok && params[info.Uses[oid]] {
						return true
					}
				}
				err = und("%s: field %s compared with %s by cmp.Compare (not the same field of another parameter)", fd.Name.Name, types.ExprString(pp), types.ExprString(other))
				return false
			}
			be, ok := q.(*ast.BinaryExpr)
			if !ok || !isCmp(be.Op) {
				err = und("%s: field %s is used outside a comparison", fd.Name.Name, types.ExprString(pp))
				return false
			}
			other := be.X
			if stripWidening(info, be.X) == ast.Expr(pp) {
				other = be.Y
			}
			other = stripWidening(info, other)
			if tv, ok := info.Types[other]; ok && tv.Value != nil {
				if allowZeroConst {
					if v, ok := constant.Int64Val(constant.ToInt(tv.Value)); ok && v == 0 {
						return true
					}
				}
				err = und("%s: field %s is compared with the constant %s: the result then depends on more than the mutual ordering of the arguments (the finite abstraction is not exact)", fd.Name.Name, types.ExprString(pp), tv.Value.String())
				return false
			}
			if os, ok := other.(*ast.SelectorExpr); ok && os.Sel.Name == pp.Sel.Name {
				if oid, ok := ast.Unparen(os.X).(*ast.Ident); ok && params[info.Uses[oid]] {
					return true
				}
			}
			err = und("%s: field %s compared with %s (not the same field of another parameter or a constant)", fd.Name.Name, types.ExprString(pp), types.ExprString(other))
			return false
		case *ast.BinaryExpr:
			if (pp.Op == token.EQL || pp.Op == token.NEQ) && (isNilIdent(info, pp.X) || isNilIdent(info, pp.Y)) {
				return true
			}
			err = und("%s: parameter %s used in %s", fd.Name.Name, id.Name, types.ExprString(pp))
			return false
		case *ast.CallExpr:
			obj := core.CalleeObj(info, pp)
			if f, ok := obj.(*types.Func); ok && f.Pkg() == pkg.Types {
				if callee := fns[f.Name()]; callee != nil {
					if e2 := onlyCompared(pkg, callee, fns, seen, allowZeroConst); e2 != nil {
						err = e2
						return false
					}
					return true
				}
			}
			// argument of fmt.Sprint inside a panic(...) is harmless: only reached on the panic path
			if isInsidePanic(pp, parents, info) {
				return true
			}
			err = und("%s: parameter %s passed to %s", fd.Name.Name, id.Name, core.QualName(obj))
			return false
		}
		err = und("%s: parameter %s used in %T", fd.Name.Name, id.Name, p)
		return false
	})
	return err
}

// isIntCmpCompare: a call of the standard library's cmp.Compare on two integer operands.
func isIntCmpCompare(info *types.Info, call *ast.CallExpr) bool {
	f, ok := core.CalleeObj(info, call).(*types.Func)
	if !ok || f.Pkg() == nil || f.Pkg().Path() != "cmp" || f.Name() != "Compare" || len(call.Args) != 2 {
		return false
	}
	for _, a := range call.Args {
		b, ok := info.TypeOf(a).Underlying().(*types.Basic)
		if !ok || b.Info()&types.IsInteger == 0 {
			return false
		}
	}
	return true
}

func isInsidePanic(n ast.Node, parents map[ast.Node]ast.Node, info *types.Info) bool {
	for p := parents[n]; p != nil; p = parents[p] {
		if c, ok := p.(*ast.CallExpr); ok {
			if id, ok := c.Fun.(*ast.Ident); ok && id.Name == "panic" {
				if _, isB := info.Uses[id].(*types.Builtin); isB {
					return true
				}
			}
		}
	}
	return false
}

func isCmp(op token.Token) bool {
	switch op {
	case token.EQL, token.NEQ, token.LSS, token.LEQ, token.GTR, token.GEQ:
		return true
	}
	return false
}

var ordNames = map[int]string{-1: "<", 0: "=", 1: ">"}

// RunTimepb decides C17's clauses.
func RunTimepb(c *core.Ctx) {
	const src = "S0"
	pkg := c.Pkg("support/timepb")
	if pkg == nil {
		c.Fail("TIME.anchor", "support/timepb", "package not found", "", src)
		return
	}
	fns := core.FuncDecls(pkg)
	pos := func(fn string) string {
		if fd := fns[fn]; fd != nil {
			return c.PosStr(pkg.Fset, fd.Pos())
		}
		return ""
	}
	for _, fn := range []string{"Compare", "DurationIsNegative", "overflowPanic", "Add"} {
		if fns[fn] == nil {
			c.Fail("TIME.anchor", "timepb."+fn, "function not found", "", src)
			return
		}
	}
	m := &miniInterp{pkg: pkg, fns: fns}

	// ---- TIME.cmp: Compare on the 9 orderings of (Seconds, Nanos)
	if err := onlyCompared(pkg, fns["Compare"], fns, map[string]bool{}, false); err != nil {
		c.Undec("TIME.cmp", "timepb.Compare side-condition", err.Error(), pos("Compare"), src)
	} else {
		c.Ok("TIME.cmp", "timepb.Compare side-condition", "fields of t1,t2 are touched only through comparisons with the same field of the other argument", pos("Compare"), src)
	}
	params := paramNames(fns["Compare"])
	res := map[[2]int]int{}
	for _, so := range []int{-1, 0, 1} {
		for _, no := range []int{-1, 0, 1} {
			con := fmt.Sprintf("timepb.Compare ordering Seconds%sSeconds Nanos%sNanos", ordNames[so], ordNames[no])
			if len(params) != 2 {
				c.Undec("TIME.cmp", con, "Compare does not have two parameters", pos("Compare"), src)
				continue
			}
			env := &menv{vars: map[string]mval{
				params[0] + ".Seconds": {n: int64(5 + so)}, params[1] + ".Seconds": {n: 5},
				params[0] + ".Nanos": {n: int64(7 + no)}, params[1] + ".Nanos": {n: 7},
			}, ptrNil: map[string]bool{params[0]: false, params[1]: false}, alias: map[string]string{}}
			out, err := m.execBody(fns["Compare"].Body.List, env)
			if err != nil {
				c.Undec("TIME.cmp", con, err.Error(), pos("Compare"), src)
				continue
			}
			want := so
			if so == 0 {
				want = no
			}
			if out.panicked || len(out.ret) != 1 {
				c.Fail("TIME.cmp", con, "panics or returns nothing on non-nil inputs", pos("Compare"), src)
				continue
			}
			res[[2]int{so, no}] = int(out.ret[0].n)
			c.Check(int(out.ret[0].n) == want, "TIME.cmp", con,
				fmt.Sprintf("returns %d = lexicographic order", want),
				fmt.Sprintf("returns %d, chronological (lexicographic) order demands %d", out.ret[0].n, want), pos("Compare"), src)
		}
	}
	// antisymmetry over the abstract orderings
	anti := true
	for k, v := range res {
		if w, ok := res[[2]int{-k[0], -k[1]}]; ok && w != -v {
			anti = false
		}
	}
	c.Check(anti && len(res) == 9, "TIME.cmp", "timepb.Compare antisymmetry", "Compare(a,b) = -Compare(b,a) on all 9 orderings", "Compare is not antisymmetric on the abstract orderings", pos("Compare"), src)
	// nil arguments panic (documented)
	for _, nils := range [][2]bool{{true, false}, {false, true}, {true, true}} {
		con := fmt.Sprintf("timepb.Compare nil=%v", nils)
		if len(params) != 2 {
			continue
		}
		env := &menv{vars: map[string]mval{}, ptrNil: map[string]bool{params[0]: nils[0], params[1]: nils[1]}, alias: map[string]string{}}
		out, err := m.execBody(fns["Compare"].Body.List, env)
		if err != nil {
			c.Undec("TIME.cmp", con, err.Error(), pos("Compare"), src)
			continue
		}
		c.Check(out.panicked, "TIME.cmp", con, "panics before touching a nil argument", "does not panic on a nil argument (would dereference it)", pos("Compare"), src)
	}

	// ---- TIME.neg: DurationIsNegative on the 9 sign combinations
	if err := onlyCompared(pkg, fns["DurationIsNegative"], fns, map[string]bool{}, true); err != nil {
		c.Undec("TIME.neg", "timepb.DurationIsNegative side-condition", err.Error(), pos("DurationIsNegative"), src)
	} else {
		c.Ok("TIME.neg", "timepb.DurationIsNegative side-condition", "fields of d are only compared with constants", pos("DurationIsNegative"), src)
	}
	dparams := paramNames(fns["DurationIsNegative"])
	for _, ss := range []int{-1, 0, 1} {
		for _, ns := range []int{-1, 0, 1} {
			con := fmt.Sprintf("timepb.DurationIsNegative sign(Seconds)=%d sign(Nanos)=%d", ss, ns)
			if len(dparams) != 1 {
				c.Undec("TIME.neg", con, "arity", pos("DurationIsNegative"), src)
				continue
			}
			bad := false
			var got []bool
			// two magnitudes per sign class: comparisons against constants other than 0 would differ
			for _, mag := range []int64{1, 999999999} {
				env := &menv{vars: map[string]mval{dparams[0] + ".Seconds": {n: int64(ss) * mag}, dparams[0] + ".Nanos": {n: int64(ns) * mag}},
					ptrNil: map[string]bool{dparams[0]: false}, alias: map[string]string{}}
				out, err := m.execBody(fns["DurationIsNegative"].Body.List, env)
				if err != nil || out.panicked || len(out.ret) != 1 {
					bad = true
					break
				}
				got = append(got, out.ret[0].b)
			}
			if bad {
				c.Undec("TIME.neg", con, "cannot evaluate", pos("DurationIsNegative"), src)
				continue
			}
			want := ss < 0 || ss == 0 && ns < 0
			c.Check(got[0] == want && got[1] == want, "TIME.neg", con, fmt.Sprintf("= %v", want), fmt.Sprintf("returns %v, sign of the duration is negative=%v", got, want), pos("DurationIsNegative"), src)
		}
	}

	// ---- TIME.ovf.fn: overflowPanic panics iff the result moved against the sign
	oparams := paramNames(fns["overflowPanic"])
	if err := onlyCompared(pkg, fns["overflowPanic"], fns, map[string]bool{}, false); err != nil {
		c.Undec("TIME.ovf", "timepb.overflowPanic side-condition", err.Error(), pos("overflowPanic"), src)
	}
	for _, so := range []int{-1, 0, 1} {
		for _, no := range []int{-1, 0, 1} {
			for _, neg := range []bool{false, true} {
				con := fmt.Sprintf("timepb.overflowPanic t1.S%st2.S t1.N%st2.N negative=%v", ordNames[so], ordNames[no], neg)
				if len(oparams) != 3 {
					c.Undec("TIME.ovf", con, "arity", pos("overflowPanic"), src)
					continue
				}
				env := &menv{vars: map[string]mval{
					oparams[0] + ".Seconds": {n: int64(5 + so)}, oparams[1] + ".Seconds": {n: 5},
					oparams[0] + ".Nanos": {n: int64(7 + no)}, oparams[1] + ".Nanos": {n: 7},
					oparams[2]: {isBool: true, b: neg},
				}, ptrNil: map[string]bool{oparams[0]: false, oparams[1]: false}, alias: map[string]string{}}
				out, err := m.execBody(fns["overflowPanic"].Body.List, env)
				if err != nil {
					c.Undec("TIME.ovf", con, err.Error(), pos("overflowPanic"), src)
					continue
				}
				cmp := so
				if so == 0 {
					cmp = no
				}
				// t1 = operand, t2 = result. adding a non-negative duration must not move the result before t1 (cmp>0 means t1>t2)
				want := (neg && cmp < 0) || (!neg && cmp > 0)
				c.Check(out.panicked == want, "TIME.ovf", con, fmt.Sprintf("panics=%v", want), fmt.Sprintf("panics=%v, expected %v (result moved against the sign of the duration)", out.panicked, want), pos("overflowPanic"), src)
			}
		}
	}

	runTimepbAdd(c, pkg, fns)
	runTimepbAddStd(c, pkg, fns)
}

// runTimepbAddStd: structural clauses of AddStd (its arithmetic is time.Time's: A3).
// Every non-nil return is a fresh value (address of a local copy, or the result of timestamppb.New
// applied to t.AsTime().Add(d)); the computed result is returned only after
// overflowPanic(t, result, d < 0).
func runTimepbAddStd(c *core.Ctx, pkg *packages.Package, fns map[string]*ast.FuncDecl) {
	const src = "S0"
	fd := fns["AddStd"]
	if fd == nil {
		c.Fail("TIME.anchor", "timepb.AddStd", "function not found", "", src)
		return
	}
	info := pkg.TypesInfo
	ps := paramNames(fd)
	if len(ps) != 2 {
		c.Undec("TIME.std", "timepb.AddStd", "expected parameters (t, d)", c.PosStr(pkg.Fset, fd.Pos()), src)
		return
	}
	tP, dP := ps[0], ps[1]
	fresh := map[types.Object]string{} // local -> how it was created
	checked := map[types.Object]bool{} // overflowPanic(t, local, d < 0) seen
	nRet := 0
	// single-assignment value locals (x := e, never written again, address never taken) are read through
	defs := map[types.Object]ast.Expr{}
	writes := map[types.Object]int{}
	ast.Inspect(fd.Body, func(n ast.Node) bool {
		switch t := n.(type) {
		case *ast.AssignStmt:
			for i, l := range t.Lhs {
				if id, ok := l.(*ast.Ident); ok {
					o := info.ObjectOf(id)
					writes[o]++
					if t.Tok == token.DEFINE && len(t.Lhs) == len(t.Rhs) {
						defs[o] = t.Rhs[i]
					}
				}
			}
		case *ast.IncDecStmt:
			if id, ok := t.X.(*ast.Ident); ok {
				writes[info.ObjectOf(id)] += 2
			}
		case *ast.UnaryExpr:
			if id, ok := ast.Unparen(t.X).(*ast.Ident); ok && t.Op == token.AND {
				writes[info.ObjectOf(id)] += 2
			}
		}
		return true
	})
	// reading through a local is only sound while the parameters keep their values
	for _, f := range fd.Type.Params.List {
		for _, n := range f.Names {
			if writes[info.ObjectOf(n)] > 0 {
				defs = map[types.Object]ast.Expr{}
			}
		}
	}
	var render func(x ast.Expr) string
	render = func(x ast.Expr) string {
		switch t := ast.Unparen(x).(type) {
		case *ast.Ident:
			o := info.ObjectOf(t)
			if d, ok := defs[o]; ok && writes[o] == 1 {
				if _, isPtr := info.TypeOf(t).(*types.Pointer); !isPtr {
					return render(d)
				}
			}
			return t.Name
		case *ast.SelectorExpr:
			return render(t.X) + "." + t.Sel.Name
		case *ast.CallExpr:
			var as []string
			for _, a := range t.Args {
				as = append(as, render(a))
			}
			return render(t.Fun) + "(" + strings.Join(as, ", ") + ")"
		case *ast.BinaryExpr:
			return render(t.X) + " " + t.Op.String() + " " + render(t.Y)
		case *ast.UnaryExpr:
			return t.Op.String() + render(t.X)
		case *ast.StarExpr:
			return "*" + render(t.X)
		}
		return types.ExprString(x)
	}
	var walk func(list []ast.Stmt, guardZero bool)
	walk = func(list []ast.Stmt, guardZero bool) {
		for _, s := range list {
			switch t := s.(type) {
			case *ast.IfStmt:
				walk(t.Body.List, render(t.Cond) == dP+" == 0")
				if b, ok := t.Else.(*ast.BlockStmt); ok {
					walk(b.List, false)
				}
			case *ast.AssignStmt:
				if t.Tok == token.DEFINE && len(t.Lhs) == 1 && len(t.Rhs) == 1 {
					id, _ := t.Lhs[0].(*ast.Ident)
					if id == nil {
						continue
					}
					rhs := types.ExprString(t.Rhs[0])
					switch {
					case rhs == "*"+tP:
						fresh[info.ObjectOf(id)] = "copy"
					default:
						if call, ok := t.Rhs[0].(*ast.CallExpr); ok && core.QualName(core.CalleeObj(info, call)) == "google.golang.org/protobuf/types/known/timestamppb.New" &&
							len(call.Args) == 1 && render(call.Args[0]) == tP+".AsTime().Add("+dP+")" {
							fresh[info.ObjectOf(id)] = "new"
						}
					}
				}
			case *ast.ExprStmt:
				if call, ok := t.X.(*ast.CallExpr); ok && len(call.Args) == 3 {
					if f, ok := core.CalleeObj(info, call).(*types.Func); ok && f.Pkg() == pkg.Types && f.Name() == "overflowPanic" {
						if render(call.Args[0]) == tP && render(call.Args[2]) == dP+" < 0" {
							if id, ok := call.Args[1].(*ast.Ident); ok {
								checked[info.ObjectOf(id)] = true
							}
						}
					}
				}
			case *ast.ReturnStmt:
				nRet++
				con := fmt.Sprintf("timepb.AddStd return#%d", nRet)
				rp := c.PosStr(pkg.Fset, t.Pos())
				if len(t.Results) != 1 {
					continue
				}
				r := ast.Unparen(t.Results[0])
				if types.ExprString(r) == "nil" {
					c.Ok("TIME.std", con, "nil for a nil timestamp", rp, src)
					continue
				}
				if isCloneOf(info, fns, r, tP) && guardZero {
					c.Ok("TIME.std", con, "zero duration: a deep copy of t (proto.Clone)", rp, src)
					continue
				}
				if u, ok := r.(*ast.UnaryExpr); ok && u.Op == token.AND {
					if id, ok := u.X.(*ast.Ident); ok && fresh[info.ObjectOf(id)] == "copy" && guardZero {
						c.Ok("TIME.std", con, "zero duration: address of a fresh copy of *t", rp, src)
						continue
					}
				}
				if id, ok := r.(*ast.Ident); ok && fresh[info.ObjectOf(id)] == "new" {
					c.Check(checked[info.ObjectOf(id)], "TIME.std", con, "timestamppb.New(t.AsTime().Add(d)) returned after overflowPanic(t, result, d < 0)",
						"the computed timestamp is returned without the overflowPanic(t, result, d < 0) check", rp, src)
					continue
				}
				c.Fail("TIME.std", con, "returns "+types.ExprString(r)+", which is neither nil, a fresh copy of *t under d == 0, nor the checked result of timestamppb.New(t.AsTime().Add(d))", rp, src)
			}
		}
	}
	walk(fd.Body.List, false)
	c.Check(nRet >= 3, "TIME.std", "timepb.AddStd returns", fmt.Sprintf("%d returns analysed", nRet), "expected the nil, zero-duration and computed returns", c.PosStr(pkg.Fset, fd.Pos()), src)
}

func paramNames(fd *ast.FuncDecl) []string {
	var out []string
	for _, f := range fd.Type.Params.List {
		for _, n := range f.Names {
			out = append(out, n.Name)
		}
	}
	return out
}

// ---------------------------------------------------------------------------
// Add: symbolic path enumeration with interval refinement.
//
// State: the local struct t2's fields as linear terms over the symbols
// tS,dS,tN,dN (+constant); the interval of the base sum s = tN+dN refined by
// the branch conditions on t2.Nanos; the ordered event list (writes to t2,
// calls). Every return is checked.

type lin struct {
	tS, dS, tN, dN int64
	c              int64
	ok             bool
}

func (l lin) String() string {
	var p []string
	add := func(k int64, n string) {
		if k == 1 {
			p = append(p, n)
		} else if k != 0 {
			p = append(p, fmt.Sprintf("%d*%s", k, n))
		}
	}
	add(l.tS, "t.Seconds")
	add(l.dS, "d.Seconds")
	add(l.tN, "t.Nanos")
	add(l.dN, "d.Nanos")
	if l.c != 0 || len(p) == 0 {
		p = append(p, fmt.Sprintf("%d", l.c))
	}
	return strings.Join(p, "+")
}

type addState struct {
	fields  map[string]lin // "Seconds","Nanos" of the local result struct
	local   string         // name of the local struct
	copyOfT bool           // local is *t copy
	lo, hi  int64          // interval of tN+dN (only meaningful when Nanos = tN+dN+c)
	events  []string
	dZero   int // 1: d.Seconds==0&&d.Nanos==0 known true; -1 known false; 0 unknown
	path    []string
	scalars map[types.Object]lin // integer locals (and helper parameters) as linear terms of the inputs
	ptr     bool                 // local holds the address of a fresh composite literal (&T{...})
}

func (s *addState) clone() *addState {
	n := *s
	n.fields = map[string]lin{}
	for k, v := range s.fields {
		n.fields[k] = v
	}
	n.events = append([]string(nil), s.events...)
	n.path = append([]string(nil), s.path...)
	n.scalars = map[types.Object]lin{}
	for k, v := range s.scalars {
		n.scalars[k] = v
	}
	return &n
}

const nanoMax = 999999999

func runTimepbAdd(c *core.Ctx, pkg *packages.Package, fns map[string]*ast.FuncDecl) {
	const src = "S0"
	fd := fns["Add"]
	info := pkg.TypesInfo
	pos := c.PosStr(pkg.Fset, fd.Pos())
	ps := paramNames(fd)
	if len(ps) != 2 {
		c.Undec("TIME.add", "timepb.Add", "expected parameters (t, d)", pos, src)
		return
	}
	tP, dP := ps[0], ps[1]

	secondVal := int64(0)
	if o := pkg.Types.Scope().Lookup("second"); o != nil {
		if k, ok := o.(*types.Const); ok {
			secondVal, _ = constant.Int64Val(constant.ToInt(k.Val()))
		}
	}

	type ret struct {
		st   *addState
		expr ast.Expr
		pos  token.Pos
	}
	var rets []ret
	var undecidedMsg string

	var linOf func(e ast.Expr, st *addState) lin
	linOf = func(e ast.Expr, st *addState) lin {
		e = ast.Unparen(e)
		if tv, ok := info.Types[e]; ok && tv.Value != nil {
			if v, ok := constant.Int64Val(constant.ToInt(tv.Value)); ok {
				return lin{c: v, ok: true}
			}
		}
		switch t := e.(type) {
		case *ast.Ident:
			if v, ok := st.scalars[info.ObjectOf(t)]; ok {
				return v
			}
		case *ast.CallExpr:
			// integer conversions keep the value (the sums involved stay far inside int32/int64 for valid inputs)
			if tv, ok := info.Types[t.Fun]; ok && tv.IsType() && len(t.Args) == 1 {
				if b, ok := tv.Type.Underlying().(*types.Basic); ok && b.Info()&types.IsInteger != 0 {
					return linOf(t.Args[0], st)
				}
			}
		case *ast.SelectorExpr:
			if id, ok := ast.Unparen(t.X).(*ast.Ident); ok {
				switch {
				case id.Name == tP && t.Sel.Name == "Seconds":
					return lin{tS: 1, ok: true}
				case id.Name == tP && t.Sel.Name == "Nanos":
					return lin{tN: 1, ok: true}
				case id.Name == dP && t.Sel.Name == "Seconds":
					return lin{dS: 1, ok: true}
				case id.Name == dP && t.Sel.Name == "Nanos":
					return lin{dN: 1, ok: true}
				case id.Name == st.local:
					if v, ok := st.fields[t.Sel.Name]; ok {
						return v
					}
				}
			}
		case *ast.BinaryExpr:
			l, r := linOf(t.X, st), linOf(t.Y, st)
			if l.ok && r.ok {
				switch t.Op {
				case token.ADD:
					return lin{l.tS + r.tS, l.dS + r.dS, l.tN + r.tN, l.dN + r.dN, l.c + r.c, true}
				case token.SUB:
					return lin{l.tS - r.tS, l.dS - r.dS, l.tN - r.tN, l.dN - r.dN, l.c - r.c, true}
				case token.MUL:
					isConst := func(x lin) bool { return x.tS == 0 && x.dS == 0 && x.tN == 0 && x.dN == 0 }
					if isConst(r) {
						l, r = r, l
					}
					if isConst(l) {
						return lin{l.c * r.tS, l.c * r.dS, l.c * r.tN, l.c * r.dN, l.c * r.c, true}
					}
				}
			}
		case *ast.UnaryExpr:
			if t.Op == token.SUB {
				l := linOf(t.X, st)
				if l.ok {
					return lin{-l.tS, -l.dS, -l.tN, -l.dN, -l.c, true}
				}
			}
		}
		return lin{}
	}

	// condition evaluation: returns (then-state, else-state); nil = infeasible
	var evalCond func(e ast.Expr, st *addState) (*addState, *addState, error)
	evalCond = func(e ast.Expr, st *addState) (*addState, *addState, error) {
		e = ast.Unparen(e)
		be, ok := e.(*ast.BinaryExpr)
		if !ok {
			return nil, nil, und("condition form %s", types.ExprString(e))
		}
		// t == nil
		if (be.Op == token.EQL || be.Op == token.NEQ) && isNilIdent(info, be.Y) {
			if id, ok := ast.Unparen(be.X).(*ast.Ident); ok && id.Name == tP {
				// precondition of the clause: t non-nil (nil returns nil, checked separately)
				if be.Op == token.EQL {
					return nil, st, nil
				}
				return st, nil, nil
			}
		}
		// d.Seconds == 0 && d.Nanos == 0
		if be.Op == token.LAND {
			l, lok := ast.Unparen(be.X).(*ast.BinaryExpr)
			r, rok := ast.Unparen(be.Y).(*ast.BinaryExpr)
			if lok && rok && l.Op == token.EQL && r.Op == token.EQL {
				a, b := linOf(l.X, st), linOf(r.X, st)
				za, zb := linOf(l.Y, st), linOf(r.Y, st)
				isD := func(x lin) int {
					if x.ok && x.tS == 0 && x.tN == 0 && x.c == 0 {
						if x.dS == 1 && x.dN == 0 {
							return 1
						}
						if x.dN == 1 && x.dS == 0 {
							return 2
						}
					}
					return 0
				}
				zero := func(x lin) bool { return x.ok && x == lin{ok: true} }
				if isD(a)+isD(b) == 3 && zero(za) && zero(zb) {
					th, el := st.clone(), st.clone()
					th.dZero, el.dZero = 1, -1
					th.path = append(th.path, "d==0")
					el.path = append(el.path, "d!=0")
					return th, el, nil
				}
			}
			return nil, nil, und("conjunction form %s", types.ExprString(e))
		}
		// comparison of Nanos linear term with a constant
		l, r := linOf(be.X, st), linOf(be.Y, st)
		if !l.ok || !r.ok {
			return nil, nil, und("condition operands %s", types.ExprString(e))
		}
		d := lin{l.tS - r.tS, l.dS - r.dS, l.tN - r.tN, l.dN - r.dN, l.c - r.c, true}
		if d.tS != 0 || d.dS != 0 || d.tN != 1 || d.dN != 1 {
			return nil, nil, und("condition %s is not a test of t.Nanos+d.Nanos against a constant", types.ExprString(e))
		}
		// s + d.c  OP 0   where s in [lo,hi]
		k := -d.c // s OP k
		th, el := st.clone(), st.clone()
		switch be.Op {
		case token.GEQ: // s >= k
			th.lo = max64(th.lo, k)
			el.hi = min64(el.hi, k-1)
		case token.GTR:
			th.lo = max64(th.lo, k+1)
			el.hi = min64(el.hi, k)
		case token.LEQ:
			th.hi = min64(th.hi, k)
			el.lo = max64(el.lo, k+1)
		case token.LSS:
			th.hi = min64(th.hi, k-1)
			el.lo = max64(el.lo, k)
		default:
			return nil, nil, und("condition operator %s", be.Op)
		}
		th.path = append(th.path, types.ExprString(e))
		el.path = append(el.path, "!("+types.ExprString(e)+")")
		if th.lo > th.hi {
			th = nil
		}
		if el.lo > el.hi {
			el = nil
		}
		return th, el, nil
	}

	// callHelper evaluates a package function over integers on every path: parameters are bound to the argument
	// terms, the body may branch on tests of the nanosecond sum, assign integer locals and return integer terms.
	type helperOut struct {
		st  *addState
		val lin
	}
	var callHelper func(hd *ast.FuncDecl, args []ast.Expr, st *addState) ([]helperOut, error)
	callHelper = func(hd *ast.FuncDecl, args []ast.Expr, st *addState) ([]helperOut, error) {
		if hd.Body == nil || hd.Recv != nil {
			return nil, und("call of %s", hd.Name.Name)
		}
		var params []*ast.Ident
		for _, f := range hd.Type.Params.List {
			params = append(params, f.Names...)
		}
		if len(params) != len(args) || hd.Type.Results == nil || len(hd.Type.Results.List) != 1 {
			return nil, und("call of %s: arity", hd.Name.Name)
		}
		ns := st.clone()
		for i, p := range params {
			v := linOf(args[i], st)
			if !v.ok {
				return nil, und("argument %s of %s is not linear in the inputs", types.ExprString(args[i]), hd.Name.Name)
			}
			ns.scalars[info.ObjectOf(p)] = v
		}
		var outs []helperOut
		var run func(list []ast.Stmt, st *addState) ([]*addState, error)
		run = func(list []ast.Stmt, st *addState) ([]*addState, error) {
			cur := []*addState{st}
			for _, s := range list {
				s = desugarSwitch(s)
				var next []*addState
				for _, st := range cur {
					switch t := s.(type) {
					case *ast.ReturnStmt:
						if len(t.Results) != 1 {
							return nil, und("%s: return arity", hd.Name.Name)
						}
						v := linOf(t.Results[0], st)
						if !v.ok {
							return nil, und("%s returns %s, not linear in the inputs", hd.Name.Name, types.ExprString(t.Results[0]))
						}
						outs = append(outs, helperOut{st, v})
					case *ast.IfStmt:
						if t.Init != nil {
							return nil, und("%s: if with init", hd.Name.Name)
						}
						th, el, err := evalCond(t.Cond, st)
						if err != nil {
							return nil, err
						}
						if th != nil {
							o, err := run(t.Body.List, th)
							if err != nil {
								return nil, err
							}
							next = append(next, o...)
						}
						if el != nil {
							switch e := t.Else.(type) {
							case nil:
								next = append(next, el)
							case *ast.BlockStmt:
								o, err := run(e.List, el)
								if err != nil {
									return nil, err
								}
								next = append(next, o...)
							case *ast.IfStmt:
								o, err := run([]ast.Stmt{e}, el)
								if err != nil {
									return nil, err
								}
								next = append(next, o...)
							}
						}
					case *ast.AssignStmt:
						id, ok := t.Lhs[0].(*ast.Ident)
						if !ok || len(t.Lhs) != 1 || len(t.Rhs) != 1 || (t.Tok != token.DEFINE && t.Tok != token.ASSIGN) {
							return nil, und("%s: assignment form", hd.Name.Name)
						}
						v := linOf(t.Rhs[0], st)
						if !v.ok {
							return nil, und("%s: %s is not linear in the inputs", hd.Name.Name, types.ExprString(t.Rhs[0]))
						}
						n2 := st.clone()
						n2.scalars[info.ObjectOf(id)] = v
						next = append(next, n2)
					case *ast.EmptyStmt:
						next = append(next, st)
					default:
						return nil, und("%s: statement %T", hd.Name.Name, s)
					}
				}
				cur = next
			}
			return cur, nil
		}
		fall, err := run(hd.Body.List, ns)
		if err != nil {
			return nil, err
		}
		if len(fall) > 0 {
			return nil, und("%s: a path falls off the end", hd.Name.Name)
		}
		return outs, nil
	}

	var exec func(list []ast.Stmt, st *addState) ([]*addState, error)
	exec = func(list []ast.Stmt, st *addState) ([]*addState, error) {
		cur := []*addState{st}
		for _, s := range list {
			s = desugarSwitch(s)
			var next []*addState
			for _, st := range cur {
				switch t := s.(type) {
				case *ast.IfStmt:
					if t.Init != nil {
						return nil, und("if with init")
					}
					th, el, err := evalCond(t.Cond, st)
					if err != nil {
						return nil, err
					}
					if th != nil {
						out, err := exec(t.Body.List, th)
						if err != nil {
							return nil, err
						}
						next = append(next, out...)
					} else {
						c.Note("timepb.Add: branch %q is dead under the input ranges (path %v)", types.ExprString(t.Cond), st.path)
					}
					if el != nil {
						if t.Else == nil {
							next = append(next, el)
						} else {
							var l []ast.Stmt
							switch e := t.Else.(type) {
							case *ast.BlockStmt:
								l = e.List
							case *ast.IfStmt:
								l = []ast.Stmt{e}
							}
							out, err := exec(l, el)
							if err != nil {
								return nil, err
							}
							next = append(next, out...)
						}
					}
				case *ast.ReturnStmt:
					if len(t.Results) != 1 {
						return nil, und("return arity")
					}
					rets = append(rets, ret{st, t.Results[0], t.Pos()})
				case *ast.AssignStmt:
					if len(t.Lhs) != 1 || len(t.Rhs) != 1 {
						return nil, und("assignment arity")
					}
					ns := st.clone()
					switch lhs := t.Lhs[0].(type) {
					case *ast.Ident:
						if t.Tok != token.DEFINE {
							return nil, und("assignment to %s", lhs.Name)
						}
						rhs := ast.Unparen(t.Rhs[0])
						if star, ok := rhs.(*ast.StarExpr); ok {
							if id, ok := ast.Unparen(star.X).(*ast.Ident); ok && id.Name == tP {
								ns.local, ns.copyOfT = lhs.Name, true
								ns.fields = map[string]lin{"Seconds": {tS: 1, ok: true}, "Nanos": {tN: 1, ok: true}}
								ns.events = append(ns.events, "write")
								next = append(next, ns)
								continue
							}
						}
						isPtr := false
						if u, ok := rhs.(*ast.UnaryExpr); ok && u.Op == token.AND {
							if cl2, ok := ast.Unparen(u.X).(*ast.CompositeLit); ok {
								rhs, isPtr = cl2, true
							}
						}
						// x := helper(args): a function of this package over integers, evaluated on every path
						if call, ok := rhs.(*ast.CallExpr); ok {
							if f, ok := core.CalleeObj(info, call).(*types.Func); ok && f.Pkg() == pkg.Types && fns[f.Name()] != nil && f.Name() != "overflowPanic" {
								outs, err := callHelper(fns[f.Name()], call.Args, st)
								if err != nil {
									return nil, err
								}
								for _, o := range outs {
									o.st.scalars[info.ObjectOf(lhs)] = o.val
									next = append(next, o.st)
								}
								continue
							}
						}
						if v := linOf(rhs, st); v.ok {
							if _, isInt := info.TypeOf(lhs).Underlying().(*types.Basic); isInt {
								ns.scalars[info.ObjectOf(lhs)] = v
								next = append(next, ns)
								continue
							}
						}
						if cl, ok := rhs.(*ast.CompositeLit); ok {
							ns.local, ns.copyOfT, ns.ptr = lhs.Name, false, isPtr
							ns.fields = map[string]lin{"Seconds": {ok: true}, "Nanos": {ok: true}}
							for _, el := range cl.Elts {
								kv, ok := el.(*ast.KeyValueExpr)
								if !ok {
									return nil, und("unkeyed composite literal")
								}
								k := kv.Key.(*ast.Ident).Name
								v := linOf(kv.Value, st)
								if !v.ok {
									return nil, und("field %s value %s is not linear in the inputs", k, types.ExprString(kv.Value))
								}
								ns.fields[k] = v
							}
							ns.events = append(ns.events, "write")
							next = append(next, ns)
							continue
						}
						return nil, und("definition %s := %s", lhs.Name, types.ExprString(rhs))
					case *ast.SelectorExpr:
						id, ok := ast.Unparen(lhs.X).(*ast.Ident)
						if !ok || id.Name != st.local {
							return nil, und("store to %s", types.ExprString(lhs))
						}
						cur := st.fields[lhs.Sel.Name]
						r := linOf(t.Rhs[0], st)
						if !r.ok {
							return nil, und("non-linear right-hand side %s", types.ExprString(t.Rhs[0]))
						}
						switch t.Tok {
						case token.ASSIGN:
							ns.fields[lhs.Sel.Name] = r
						case token.ADD_ASSIGN:
							ns.fields[lhs.Sel.Name] = lin{cur.tS + r.tS, cur.dS + r.dS, cur.tN + r.tN, cur.dN + r.dN, cur.c + r.c, true}
						case token.SUB_ASSIGN:
							ns.fields[lhs.Sel.Name] = lin{cur.tS - r.tS, cur.dS - r.dS, cur.tN - r.tN, cur.dN - r.dN, cur.c - r.c, true}
						default:
							return nil, und("assignment operator %s", t.Tok)
						}
						ns.events = append(ns.events, "write")
						next = append(next, ns)
					default:
						return nil, und("assignment target %T", lhs)
					}
				case *ast.IncDecStmt:
					lhs, ok := t.X.(*ast.SelectorExpr)
					if !ok {
						return nil, und("inc/dec target")
					}
					id, ok := ast.Unparen(lhs.X).(*ast.Ident)
					if !ok || id.Name != st.local {
						return nil, und("inc/dec of %s", types.ExprString(lhs))
					}
					ns := st.clone()
					cur := st.fields[lhs.Sel.Name]
					if t.Tok == token.INC {
						cur.c++
					} else {
						cur.c--
					}
					ns.fields[lhs.Sel.Name] = cur
					ns.events = append(ns.events, "write")
					next = append(next, ns)
				case *ast.ExprStmt:
					call, ok := t.X.(*ast.CallExpr)
					if !ok {
						return nil, und("expression statement")
					}
					obj := core.CalleeObj(info, call)
					ns := st.clone()
					if f, ok := obj.(*types.Func); ok && f.Pkg() == pkg.Types && f.Name() == "overflowPanic" && len(call.Args) == 3 {
						// args: t, &local, DurationIsNegative(d)
						a0, _ := ast.Unparen(call.Args[0]).(*ast.Ident)
						okArgs := a0 != nil && a0.Name == tP
						if u, ok := ast.Unparen(call.Args[1]).(*ast.UnaryExpr); ok && u.Op == token.AND && !st.ptr {
							if id, ok := ast.Unparen(u.X).(*ast.Ident); !ok || id.Name != st.local {
								okArgs = false
							}
						} else if id, ok := ast.Unparen(call.Args[1]).(*ast.Ident); !(ok && st.ptr && id.Name == st.local) {
							okArgs = false
						}
						if c2, ok := ast.Unparen(call.Args[2]).(*ast.CallExpr); ok {
							o2 := core.CalleeObj(info, c2)
							if f2, ok := o2.(*types.Func); !ok || f2.Name() != "DurationIsNegative" || len(c2.Args) != 1 {
								okArgs = false
							} else if id, ok := ast.Unparen(c2.Args[0]).(*ast.Ident); !ok || id.Name != dP {
								okArgs = false
							}
						} else {
							okArgs = false
						}
						if okArgs {
							ns.events = append(ns.events, "ovfcheck")
						} else {
							ns.events = append(ns.events, "ovfcheck-wrong-args")
						}
						next = append(next, ns)
						continue
					}
					return nil, und("call to %s", core.QualName(obj))
				default:
					return nil, und("statement %T", s)
				}
			}
			cur = next
		}
		return cur, nil
	}

	init := &addState{fields: map[string]lin{}, scalars: map[types.Object]lin{}, lo: -nanoMax, hi: 2 * nanoMax}
	// inputs: t.Nanos in [0, 1e9-1], d.Nanos in [-(1e9-1), 1e9-1]
	init.lo, init.hi = 0+(-nanoMax), nanoMax+nanoMax
	fall, err := exec(fd.Body.List, init)
	if err != nil {
		undecidedMsg = err.Error()
	}
	if undecidedMsg != "" {
		c.Undec("TIME.add", "timepb.Add", undecidedMsg, pos, src)
		return
	}
	if len(fall) > 0 {
		c.Undec("TIME.add", "timepb.Add", "a path falls off the end of the function", pos, src)
	}
	_ = secondVal
	sort.SliceStable(rets, func(i, j int) bool { return rets[i].pos < rets[j].pos })
	for i, r := range rets {
		st := r.st
		con := fmt.Sprintf("timepb.Add return#%d path[%s]", i+1, strings.Join(st.path, " && "))
		rp := c.PosStr(pkg.Fset, r.pos)
		// proto.Clone(t).(*Timestamp): a deep copy of t (A3), i.e. a fresh value equal to t
		if isCloneOf(info, fns, r.expr, tP) {
			st = st.clone()
			st.local, st.copyOfT, st.ptr = "\x00clone", true, true
			st.fields = map[string]lin{"Seconds": {tS: 1, ok: true}, "Nanos": {tN: 1, ok: true}}
			r.expr = &ast.Ident{Name: "\x00clone"}
		}
		// nil return on t == nil is excluded by precondition; any other return must be &local
		u, ok := ast.Unparen(r.expr).(*ast.UnaryExpr)
		var lid *ast.Ident
		if ok && u.Op == token.AND {
			lid, _ = ast.Unparen(u.X).(*ast.Ident)
		}
		if id, isId := ast.Unparen(r.expr).(*ast.Ident); isId && st.ptr && id.Name == st.local {
			lid = id // the local already is the address of the fresh value
		} else if st.ptr {
			lid = nil
		}
		if lid == nil || lid.Name != st.local || st.local == "" {
			c.Fail("TIME.fresh", con, fmt.Sprintf("returns %s, which is not the address of a value created in this call", types.ExprString(r.expr)), rp, src)
			continue
		}
		c.Ok("TIME.fresh", con, "returns the address of a local value (fresh allocation)", rp, src)
		S, N := st.fields["Seconds"], st.fields["Nanos"]
		// exactness
		k := S.c
		exact := S.ok && N.ok && S.tS == 1 && S.tN == 0 && S.dN == 0 && N.tS == 0 && N.dS == 0 && N.tN == 1 && (k >= -1 && k <= 1)
		if st.dZero == 1 {
			// d == 0: result must be t itself
			exact = exact && S.dS == 0 && N.dN == 0 && S.c == 0 && N.c == 0
		} else {
			exact = exact && S.dS == 1 && N.dN == 1 && N.c == -k*1000000000
		}
		c.Check(exact, "TIME.exact", con,
			fmt.Sprintf("(Seconds,Nanos) = (%s, %s): the instant t+d with carry %d", S, N, k),
			fmt.Sprintf("(Seconds,Nanos) = (%s, %s) does not denote t+d (expected (t.S+d.S+k, t.N+d.N-k*1e9), k in {-1,0,1})", S, N), rp, src)
		// normalisation
		var lo, hi int64
		if st.dZero == 1 {
			lo, hi = 0, nanoMax
		} else {
			lo, hi = st.lo+N.c, st.hi+N.c
		}
		if N.ok && N.tN == 1 {
			c.Check(lo >= 0 && hi <= nanoMax, "TIME.norm", con,
				fmt.Sprintf("Nanos in [%d,%d] within [0,1e9)", lo, hi),
				fmt.Sprintf("Nanos ranges over [%d,%d], outside [0,1e9): the result is not normalised (e.g. t.Nanos+d.Nanos=%d)", lo, hi, pickBad(st.lo, st.hi, N.c)), rp, src)
		} else {
			c.Undec("TIME.norm", con, "Nanos is not t.Nanos+d.Nanos+const", rp, src)
		}
		// overflow check must follow the last write unless d==0 copy
		if st.dZero == 1 && st.copyOfT {
			c.Ok("TIME.ovf.call", con, "no addition on this path", rp, src)
		} else {
			lastWrite, lastChk, wrong := -1, -1, false
			for j, e := range st.events {
				switch e {
				case "write":
					lastWrite = j
				case "ovfcheck":
					lastChk = j
				case "ovfcheck-wrong-args":
					wrong = true
				}
			}
			c.Check(!wrong && lastChk > lastWrite, "TIME.ovf.call", con,
				"overflowPanic(t, &result, DurationIsNegative(d)) is called after the last write to the result",
				"no overflowPanic(t, &result, DurationIsNegative(d)) call after the last write to the result on this path", rp, src)
		}
	}
	c.Stat("timepb.Add paths", len(rets))
}

func pickBad(lo, hi, c int64) int64 {
	if lo+c < 0 {
		return lo
	}
	return hi
}

func max64(a, b int64) int64 {
	if a > b {
		return a
	}
	return b
}
func min64(a, b int64) int64 {
	if a < b {
		return a
	}
	return b
}

// desugarSwitch turns a tagless switch without fallthrough/break into the equivalent if / else-if chain
// (the default clause becomes the final else); any other statement is returned unchanged.
func desugarSwitch(s ast.Stmt) ast.Stmt {
	sw, ok := s.(*ast.SwitchStmt)
	if !ok || sw.Tag != nil || sw.Init != nil {
		return s
	}
	bad := false
	ast.Inspect(sw.Body, func(n ast.Node) bool {
		switch t := n.(type) {
		case *ast.FuncLit, *ast.ForStmt, *ast.RangeStmt, *ast.SelectStmt:
			return false
		case *ast.SwitchStmt, *ast.TypeSwitchStmt:
			if n != ast.Node(sw) {
				return false
			}
		case *ast.BranchStmt:
			if t.Tok == token.BREAK || t.Tok == token.FALLTHROUGH || t.Tok == token.GOTO {
				bad = true
			}
		}
		return true
	})
	if bad {
		return s
	}
	var deflt *ast.CaseClause
	var cases []*ast.CaseClause
	for _, cs := range sw.Body.List {
		cc := cs.(*ast.CaseClause)
		if cc.List == nil {
			deflt = cc
		} else {
			cases = append(cases, cc)
		}
	}
	var tail ast.Stmt
	if deflt != nil {
		tail = &ast.BlockStmt{List: deflt.Body}
	}
	for i := len(cases) - 1; i >= 0; i-- {
		cc := cases[i]
		cond := cc.List[0]
		for _, e := range cc.List[1:] {
			cond = &ast.BinaryExpr{X: cond, Op: token.LOR, Y: e}
		}
		tail = &ast.IfStmt{If: cc.Pos(), Cond: cond, Body: &ast.BlockStmt{List: cc.Body}, Else: tail}
	}
	if tail == nil {
		return &ast.EmptyStmt{}
	}
	return tail
}

// isCloneOf: e is proto.Clone(<param>).(*T), possibly parenthesised — or a call F(<param>) of a function of the
// package whose whole body is such a copy of its only parameter (`c := *p; return &c`, or the proto.Clone form).
func isCloneOf(info *types.Info, fns map[string]*ast.FuncDecl, e ast.Expr, param string) bool {
	if call, ok := ast.Unparen(e).(*ast.CallExpr); ok && len(call.Args) == 1 && fns != nil {
		if f, ok := core.CalleeObj(info, call).(*types.Func); ok {
			if id, ok := ast.Unparen(call.Args[0]).(*ast.Ident); ok && id.Name == param {
				if fd := fns[f.Name()]; fd != nil && fd.Recv == nil && fd.Body != nil && info.Defs[fd.Name] == types.Object(f) &&
					len(fd.Type.Params.List) == 1 && len(fd.Type.Params.List[0].Names) == 1 {
					pn := fd.Type.Params.List[0].Names[0].Name
					switch len(fd.Body.List) {
					case 1:
						if rs, ok := fd.Body.List[0].(*ast.ReturnStmt); ok && len(rs.Results) == 1 {
							return isCloneOf(info, nil, rs.Results[0], pn)
						}
					case 2:
						as, ok1 := fd.Body.List[0].(*ast.AssignStmt)
						rs, ok2 := fd.Body.List[1].(*ast.ReturnStmt)
						if ok1 && ok2 && as.Tok == token.DEFINE && len(as.Lhs) == 1 && len(as.Rhs) == 1 && len(rs.Results) == 1 {
							lid, _ := as.Lhs[0].(*ast.Ident)
							st, _ := ast.Unparen(as.Rhs[0]).(*ast.StarExpr)
							ue, _ := ast.Unparen(rs.Results[0]).(*ast.UnaryExpr)
							if lid != nil && st != nil && ue != nil && ue.Op == token.AND {
								src, _ := ast.Unparen(st.X).(*ast.Ident)
								ret, _ := ast.Unparen(ue.X).(*ast.Ident)
								return src != nil && ret != nil && src.Name == pn && ret.Name == lid.Name
							}
						}
					}
				}
			}
		}
		return false
	}
	ta, ok := ast.Unparen(e).(*ast.TypeAssertExpr)
	if !ok || ta.Type == nil {
		return false
	}
	call, ok := ast.Unparen(ta.X).(*ast.CallExpr)
	if !ok || len(call.Args) != 1 || core.QualName(core.CalleeObj(info, call)) != "google.golang.org/protobuf/proto.Clone" {
		return false
	}
	id, ok := ast.Unparen(call.Args[0]).(*ast.Ident)
	return ok && id.Name == param
}
