package lib

import (
	"fmt"
	"go/ast"
	"go/constant"
	"go/token"
	"go/types"
	"sort"
	"strings"

	"golang.org/x/tools/go/ssa"

	"verif/checker/internal/core"
)

// RunRapid decides the structural clauses of C18.
func RunRapid(c *core.Ctx) {
	const src = "S0"
	c.BuildSSA()
	sp := c.SSAPkg("rapidproto")
	pkg := c.Pkg("rapidproto")
	if sp == nil || pkg == nil {
		c.Fail("RAPID.anchor", "rapidproto", "package not found", "", src)
		return
	}
	fset := c.Prog.Fset
	pos := func(p token.Pos) string { return c.PosStr(fset, p) }

	// all functions of the package (methods, generic bodies, closures)
	var fns []*ssa.Function
	seen := map[*ssa.Function]bool{}
	var addFn func(f *ssa.Function)
	addFn = func(f *ssa.Function) {
		if f == nil || seen[f] || f.Blocks == nil {
			return
		}
		seen[f] = true
		fns = append(fns, f)
		for _, a := range f.AnonFuncs {
			addFn(a)
		}
	}
	for _, m := range sp.Members {
		switch t := m.(type) {
		case *ssa.Function:
			addFn(t)
		case *ssa.Type:
			for _, T := range []types.Type{t.Type(), types.NewPointer(t.Type())} {
				ms := c.Prog.MethodSets.MethodSet(T)
				for i := 0; i < ms.Len(); i++ {
					if f := c.Prog.MethodValue(ms.At(i)); f != nil && f.Pkg == sp && f.Synthetic == "" {
						addFn(f)
					}
				}
			}
		}
	}
	sort.Slice(fns, func(i, j int) bool { return fns[i].String() < fns[j].String() })
	byName := map[string]*ssa.Function{}
	for _, f := range fns {
		byName[f.Name()] = f
	}
	for _, n := range []string{"setFields", "setFieldValue", "genAny", "genScalarFieldValue", "genTimestamp", "genDuration", "genFieldMask", "setSecondsNanosFields"} {
		if byName[n] == nil {
			c.Fail("RAPID.anchor", "rapidproto."+n, "function not found", "", src)
			return
		}
	}
	c.Stat("rapidproto functions", len(fns))

	// ------------------------------------------------------------------ RAPID.term
	type edge struct {
		from, to *ssa.Function
		call     ssa.CallInstruction
		delta    int // -1 unknown
	}
	depthParam := func(f *ssa.Function) *ssa.Parameter {
		for _, p := range f.Params {
			if p.Name() == "depth" && isBasic(p.Type(), types.Int) {
				return p
			}
		}
		return nil
	}
	paramIndex := func(f *ssa.Function, p *ssa.Parameter) int {
		for i, q := range f.Params {
			if q == p {
				return i
			}
		}
		return -1
	}
	var edges []edge
	adj := map[*ssa.Function][]*ssa.Function{}
	for _, f := range fns {
		allInstrs(f, func(b *ssa.BasicBlock, in ssa.Instruction) {
			ci, ok := in.(ssa.CallInstruction)
			if !ok {
				return
			}
			callee := ci.Common().StaticCallee()
			if callee == nil || !seen[callee] {
				return
			}
			e := edge{from: f, to: callee, call: ci, delta: -1}
			if dp := depthParam(callee); dp != nil {
				idx := paramIndex(callee, dp)
				arg := ci.Common().Args[idx]
				if fd := depthParam(f); fd != nil {
					if arg == ssa.Value(fd) {
						e.delta = 0
					} else if bo, ok := arg.(*ssa.BinOp); ok && bo.Op == token.ADD && bo.X == ssa.Value(fd) {
						if k, ok := bo.Y.(*ssa.Const); ok && k.Value != nil {
							if v, ok := constant.Int64Val(k.Value); ok && v >= 1 {
								e.delta = int(v)
							}
						}
					}
				}
			}
			edges = append(edges, e)
			adj[f] = append(adj[f], callee)
		})
		// closures are reachable from their parent
		for _, a := range f.AnonFuncs {
			adj[f] = append(adj[f], a)
		}
	}
	sccOf := tarjan(fns, adj)
	sccMembers := map[int][]*ssa.Function{}
	for f, id := range sccOf {
		sccMembers[id] = append(sccMembers[id], f)
	}
	selfLoop := map[*ssa.Function]bool{}
	for _, e := range edges {
		if e.from == e.to {
			selfLoop[e.from] = true
		}
	}
	nCyc := 0
	for id, ms := range sccMembers {
		if len(ms) == 1 && !selfLoop[ms[0]] {
			continue
		}
		nCyc++
		sort.Slice(ms, func(i, j int) bool { return ms[i].Name() < ms[j].Name() })
		var names []string
		for _, m := range ms {
			names = append(names, m.Name())
		}
		sccName := strings.Join(names, ",")
		// every intra-SCC edge must carry a known delta
		zero := map[*ssa.Function][]*ssa.Function{}
		for _, e := range edges {
			if sccOf[e.from] != id || sccOf[e.to] != id {
				continue
			}
			con := fmt.Sprintf("rapidproto.%s -> %s", e.from.Name(), e.to.Name())
			if e.delta < 0 {
				c.Fail("RAPID.term", con+" depth argument", "recursive call does not pass depth or depth+k (k>=1): nesting is not bounded by the depth limit", pos(e.call.Pos()), src)
				continue
			}
			c.Ok("RAPID.term", con+fmt.Sprintf(" depth+%d", e.delta), "depth argument is depth+const", pos(e.call.Pos()), src)
			if e.delta == 0 {
				zero[e.from] = append(zero[e.from], e.to)
			}
		}
		// no zero-weight cycle
		zscc := tarjan(ms, zero)
		cnt := map[int]int{}
		for _, m := range ms {
			cnt[zscc[m]]++
		}
		zeroCycle := false
		for _, m := range ms {
			if cnt[zscc[m]] > 1 {
				zeroCycle = true
			}
			for _, t := range zero[m] {
				if t == m {
					zeroCycle = true
				}
			}
		}
		c.Check(!zeroCycle, "RAPID.term", "rapidproto cycle{"+sccName+"} progress", "every recursion cycle increases depth by at least 1", "a recursion cycle exists along which depth does not increase", "", src)
		// guarded functions: entry tests depth > limit and returns before any intra-SCC call
		guarded := map[*ssa.Function]bool{}
		for _, m := range ms {
			dp := depthParam(m)
			if dp == nil || len(m.Blocks) == 0 {
				continue
			}
			iff, ok := m.Blocks[0].Instrs[len(m.Blocks[0].Instrs)-1].(*ssa.If)
			if !ok {
				continue
			}
			bo, ok := iff.Cond.(*ssa.BinOp)
			if !ok || bo.X != ssa.Value(dp) || (bo.Op != token.GTR && bo.Op != token.GEQ) {
				continue
			}
			if k, ok := bo.Y.(*ssa.Const); !ok || k.Value == nil {
				continue
			}
			okAll := true
			// no call before the test, and all intra-SCC calls dominated by the false edge
			for _, in := range m.Blocks[0].Instrs {
				if _, isCall := in.(ssa.CallInstruction); isCall {
					okAll = false
				}
			}
			for _, e := range edges {
				if e.from == m && sccOf[e.to] == id && !edgeDom(iff, 1, e.call.Block()) {
					okAll = false
				}
			}
			// the true branch returns without further calls into the SCC
			tb := m.Blocks[0].Succs[0]
			if _, isRet := tb.Instrs[len(tb.Instrs)-1].(*ssa.Return); !isRet {
				okAll = false
			}
			if okAll {
				guarded[m] = true
				c.Ok("RAPID.term", "rapidproto."+m.Name()+" depth guard", fmt.Sprintf("entry test %s %s %s returns before any recursive call", dp.Name(), bo.Op, bo.Y), pos(iff.Pos()), src)
			}
		}
		// remove guarded nodes: remaining intra-SCC graph must be acyclic
		rest := map[*ssa.Function][]*ssa.Function{}
		var restNodes []*ssa.Function
		for _, m := range ms {
			if !guarded[m] {
				restNodes = append(restNodes, m)
			}
		}
		for _, e := range edges {
			if sccOf[e.from] == id && sccOf[e.to] == id && !guarded[e.from] && !guarded[e.to] {
				rest[e.from] = append(rest[e.from], e.to)
			}
		}
		rs := tarjan(restNodes, rest)
		rc := map[int]int{}
		for _, m := range restNodes {
			rc[rs[m]]++
		}
		unguarded := false
		for _, m := range restNodes {
			if rc[rs[m]] > 1 {
				unguarded = true
			}
			for _, t := range rest[m] {
				if t == m {
					unguarded = true
				}
			}
		}
		c.Check(!unguarded && len(guarded) > 0, "RAPID.term", "rapidproto cycle{"+sccName+"} guard", "every recursion cycle passes a function that returns when depth exceeds the limit", "a recursion cycle avoids every depth-limit guard", "", src)
	}
	c.Check(nCyc >= 1, "RAPID.term", "rapidproto recursion cycles found", fmt.Sprintf("%d recursive component(s) analysed", nCyc), "no recursive component found (anchor lost: setFields/setFieldValue/genAny are expected to be mutually recursive)", "", src)

	// loops: counted loops / ranges only
	info := pkg.TypesInfo
	loopN := map[string]int{}
	for _, file := range pkg.Syntax {
		ast.Inspect(file, func(n ast.Node) bool {
			if rs, isRange := n.(*ast.RangeStmt); isRange {
				// a range over an integer, string, array, slice or map runs a bounded number of times (the operand is
				// evaluated once); channels and iterator functions are not bounded
				fn := enclosingFunc(file, rs.Pos())
				loopN[fn]++
				con := fmt.Sprintf("rapidproto loop@%s#%d", fn, loopN[fn])
				bounded := false
				if t := info.TypeOf(rs.X); t != nil {
					switch u := t.Underlying().(type) {
					case *types.Basic:
						bounded = u.Info()&(types.IsInteger|types.IsString) != 0
					case *types.Slice, *types.Array, *types.Map:
						bounded = true
					case *types.Pointer:
						_, bounded = u.Elem().Underlying().(*types.Array)
					}
				}
				if bounded {
					c.Ok("RAPID.term.loop", con+" range "+types.ExprString(rs.X), "range over a finite operand evaluated once", pos(rs.Pos()), src)
				} else {
					c.Undec("RAPID.term.loop", con, "range over a channel or an iterator function: not bounded", pos(rs.Pos()), src)
				}
				return true
			}
			fs, ok := n.(*ast.ForStmt)
			if !ok {
				return true
			}
			loopN[enclosingFunc(file, fs.Pos())]++
			con := fmt.Sprintf("rapidproto loop@%s#%d", enclosingFunc(file, fs.Pos()), loopN[enclosingFunc(file, fs.Pos())])
			okLoop, why := countedLoop(info, fs)
			if okLoop {
				c.Ok("RAPID.term.loop", con+" "+why, "counted loop with loop-invariant bound", pos(fs.Pos()), src)
			} else {
				c.Undec("RAPID.term.loop", con, "loop is not of the counted form `for i := 0; i < n; i++` with i,n unmodified in the body: "+why, pos(fs.Pos()), src)
			}
			return true
		})
	}

	// ------------------------------------------------------------------ RAPID.set
	// mutating calls on List/Map/Message values must have a write-through origin
	mutating := map[string]bool{"Append": true, "AppendMutable": true, "Set": true, "Truncate": true, "Clear": true, "Mutable": true}
	var originOK func(v ssa.Value, depth int) (bool, string)
	originOK = func(v ssa.Value, depth int) (bool, string) {
		if depth > 8 {
			return false, "origin chain too long"
		}
		v = stripConv(v)
		switch t := v.(type) {
		case *ssa.Parameter:
			return true, "parameter"
		case *ssa.Phi:
			for _, e := range t.Edges {
				if ok, why := originOK(e, depth+1); !ok {
					return false, why
				}
			}
			return true, "phi"
		case *ssa.Call:
			if t.Call.IsInvoke() {
				switch t.Call.Method.Name() {
				case "New": // MessageType.New(): fresh root message, caller owns it
					return true, "New()"
				case "Mutable", "AppendMutable":
					return true, t.Call.Method.Name() + "()"
				case "NewField", "NewElement", "NewValue", "Get":
					return false, "value obtained from " + t.Call.Method.Name() + "() is detached from the message (or read-only); mutations are lost unless it is stored back with Set"
				}
				return false, "origin invoke " + t.Call.Method.Name()
			}
			f := t.Call.StaticCallee()
			if f != nil && f.Pkg != nil && f.Pkg.Pkg.Path() == "google.golang.org/protobuf/reflect/protoreflect" {
				switch f.Name() {
				case "List", "Map", "Message": // Value.List() etc: unwrap the carrier Value
					return originOK(t.Call.Args[0], depth+1)
				}
			}
			return false, "origin call " + calleeName(&t.Call)
		case *ssa.UnOp:
			if t.Op == token.MUL { // load of a free variable / local cell: find its stores
				if fv, ok := t.X.(*ssa.FreeVar); ok {
					_ = fv
					return true, "captured variable"
				}
			}
		}
		return false, fmt.Sprintf("origin %T", v)
	}
	nMut := 0
	for _, f := range fns {
		allInstrs(f, func(b *ssa.BasicBlock, in ssa.Instruction) {
			ci, ok := in.(ssa.CallInstruction)
			if !ok || !ci.Common().IsInvoke() || !mutating[ci.Common().Method.Name()] {
				return
			}
			rt := types.TypeString(ci.Common().Value.Type(), nil)
			if !strings.HasSuffix(rt, "protoreflect.List") && !strings.HasSuffix(rt, "protoreflect.Map") && !strings.HasSuffix(rt, "protoreflect.Message") {
				return
			}
			nMut++
			con := fmt.Sprintf("rapidproto.%s %s.%s#%d", f.Name(), rt[strings.LastIndex(rt, ".")+1:], ci.Common().Method.Name(), ordinalInFunc(f, in))
			ok2, why := originOK(ci.Common().Value, 0)
			c.Check(ok2, "RAPID.set", con, "receiver is a write-through view or an owned message ("+why+")", why, pos(in.Pos()), src)
		})
	}
	c.Stat("rapidproto mutating calls", nMut)

	// ------------------------------------------------------------------ RAPID.enum
	for _, f := range fns {
		allInstrs(f, func(b *ssa.BasicBlock, in ssa.Instruction) {
			call, ok := in.(*ssa.Call)
			if !ok {
				return
			}
			cf := call.Call.StaticCallee()
			if cf == nil || cf.String() != "google.golang.org/protobuf/reflect/protoreflect.ValueOfEnum" {
				return
			}
			con := fmt.Sprintf("rapidproto.%s ValueOfEnum#%d", f.Name(), ordinalInFunc(f, in))
			arg := stripConv(call.Call.Args[0])
			okE := false
			if ac, ok := arg.(*ssa.Call); ok && ac.Call.IsInvoke() && ac.Call.Method.Name() == "Number" &&
				strings.HasSuffix(types.TypeString(ac.Call.Value.Type(), nil), "protoreflect.EnumValueDescriptor") {
				okE = true
			}
			c.Check(okE, "RAPID.enum", con, "enum number comes from EnumValueDescriptor.Number() of a declared value",
				"the enum number is not taken from a declared EnumValueDescriptor (an index or arbitrary integer is used as the number: sparse or negative enums get undeclared values)", pos(in.Pos()), src)
		})
	}

	// ------------------------------------------------------------------ RAPID.range
	rangeOf := func(v ssa.Value) (lo, hi int64, gen string, ok bool) {
		// v = (*rapid.Generator[T]).Draw(rapid.IntXXRange(lo,hi), t, label)
		call, isCall := stripConv(v).(*ssa.Call)
		if !isCall || call.Call.StaticCallee() == nil || !strings.HasPrefix(call.Call.StaticCallee().Name(), "Draw") || len(call.Call.Args) < 1 {
			return
		}
		g, isCall := call.Call.Args[0].(*ssa.Call)
		if !isCall || g.Call.StaticCallee() == nil {
			return
		}
		gen = g.Call.StaticCallee().Name()
		if !strings.HasSuffix(gen, "Range") || len(g.Call.Args) != 2 {
			return
		}
		a, okA := g.Call.Args[0].(*ssa.Const)
		b, okB := g.Call.Args[1].(*ssa.Const)
		if !okA || !okB || a.Value == nil || b.Value == nil {
			return
		}
		lo, _ = constant.Int64Val(constant.ToInt(a.Value))
		hi, _ = constant.Int64Val(constant.ToInt(b.Value))
		ok = true
		return
	}
	checkSN := func(fn string, sLo, sHi int64, what string) {
		f := byName[fn]
		found := false
		allInstrs(f, func(b *ssa.BasicBlock, in ssa.Instruction) {
			call, ok := in.(*ssa.Call)
			if !ok || call.Call.StaticCallee() != byName["setSecondsNanosFields"] || len(call.Call.Args) != 4 {
				return
			}
			found = true
			lo, hi, _, ok1 := rangeOf(call.Call.Args[2])
			nlo, nhi, _, ok2 := rangeOf(call.Call.Args[3])
			if !ok1 || !ok2 {
				c.Undec("RAPID.range", "rapidproto."+fn+" draws", "seconds/nanos are not drawn from constant Int64Range/Int32Range generators", pos(in.Pos()), src)
				return
			}
			c.Check(lo >= sLo && hi <= sHi && lo <= hi, "RAPID.range", "rapidproto."+fn+" seconds",
				fmt.Sprintf("[%d,%d] within the valid %s seconds range [%d,%d]", lo, hi, what, sLo, sHi),
				fmt.Sprintf("seconds drawn from [%d,%d], valid %s range is [%d,%d]", lo, hi, what, sLo, sHi), pos(in.Pos()), src)
			nanoOK := nlo >= -999999999 && nhi <= 999999999 && nlo <= nhi
			if what == "Timestamp" {
				nanoOK = nlo >= 0 && nhi <= 999999999 && nlo <= nhi
			} else {
				// sign agreement for durations
				if lo >= 0 && nlo < 0 || hi <= 0 && nhi > 0 {
					nanoOK = false
				}
				if lo < 0 && hi > 0 && (nlo != 0 || nhi != 0) {
					nanoOK = false // mixed-sign seconds with independent nanos can disagree in sign
				}
			}
			c.Check(nanoOK, "RAPID.range", "rapidproto."+fn+" nanos",
				fmt.Sprintf("[%d,%d] valid for %s", nlo, nhi, what), fmt.Sprintf("nanos drawn from [%d,%d] are not always valid for a %s with seconds in [%d,%d]", nlo, nhi, what, lo, hi), pos(in.Pos()), src)
		})
		if !found {
			c.Undec("RAPID.range", "rapidproto."+fn+" draws", "no call of setSecondsNanosFields found", pos(f.Pos()), src)
		}
	}
	checkSN("genTimestamp", -62135596800, 253402300799, "Timestamp")
	checkSN("genDuration", -315576000000, 315576000000, "Duration")
	// setSecondsNanosFields stores param seconds under "seconds" as int64, nanos under "nanos" as int32
	{
		f := byName["setSecondsNanosFields"]
		got := map[string]string{}
		allInstrs(f, func(b *ssa.BasicBlock, in ssa.Instruction) {
			ci, ok := in.(ssa.CallInstruction)
			if !ok || !ci.Common().IsInvoke() || ci.Common().Method.Name() != "Set" || len(ci.Common().Args) != 2 {
				return
			}
			// field arg = fields.ByName(const)
			fa, ok := stripConv(ci.Common().Args[0]).(*ssa.Call)
			if !ok || !fa.Call.IsInvoke() || fa.Call.Method.Name() != "ByName" {
				return
			}
			name, _ := constString(stripConv(fa.Call.Args[0]))
			va, ok := ci.Common().Args[1].(*ssa.Call)
			if !ok || va.Call.StaticCallee() == nil {
				return
			}
			p, _ := va.Call.Args[0].(*ssa.Parameter)
			if p != nil {
				got[name] = va.Call.StaticCallee().Name() + "(" + p.Name() + ")"
			}
		})
		c.Check(got["seconds"] == "ValueOfInt64(seconds)" && got["nanos"] == "ValueOfInt32(nanos)", "RAPID.range", "rapidproto.setSecondsNanosFields mapping",
			"seconds->\"seconds\" (int64), nanos->\"nanos\" (int32)", fmt.Sprintf("field mapping is %v", got), pos(f.Pos()), src)
	}

	// ------------------------------------------------------------------ RAPID.fresh
	// every draw fills a message of its own: wherever the recursion is entered from outside (a call of setFields in a
	// function that is not one of the generator methods), the message handed over is created by New() inside the
	// innermost function around that call - the closure rapid runs per draw, or a helper that is called per draw.
	// A message created further out would be shared by all draws (lists, maps, FieldMask paths accumulate).
	{
		inner := map[string]bool{"setFields": true, "setFieldValue": true, "genAny": true, "genScalarFieldValue": true, "genTimestamp": true, "genDuration": true, "genFieldMask": true, "setSecondsNanosFields": true}
		// the recursive part grows by every function that is called only from inside it
		callers := map[string]map[string]bool{}
		for _, file := range pkg.Syntax {
			for _, d := range file.Decls {
				fd, ok := d.(*ast.FuncDecl)
				if !ok || fd.Body == nil {
					continue
				}
				ast.Inspect(fd.Body, func(x ast.Node) bool {
					if call, ok := x.(*ast.CallExpr); ok {
						if f, ok := core.CalleeObj(pkg.TypesInfo, call).(*types.Func); ok && f.Pkg() == pkg.Types {
							if callers[f.Name()] == nil {
								callers[f.Name()] = map[string]bool{}
							}
							callers[f.Name()][fd.Name.Name] = true
						}
					}
					return true
				})
			}
		}
		for changed := true; changed; {
			changed = false
			for fn, cs := range callers {
				if inner[fn] || len(cs) == 0 {
					continue
				}
				all := true
				for cl := range cs {
					if !inner[cl] {
						all = false
					}
				}
				if all {
					inner[fn] = true
					changed = true
				}
			}
		}
		n := 0
		for _, file := range pkg.Syntax {
			for _, d := range file.Decls {
				fd, ok := d.(*ast.FuncDecl)
				if !ok || fd.Body == nil {
					continue
				}
				// helpers split off the generator methods (setListField, ...) recurse with the message they were given
				if inner[fd.Name.Name] {
					continue
				}
				// an unexported function nobody calls (left behind by the helper normalisation) cannot be entered
				if !ast.IsExported(fd.Name.Name) && len(callers[fd.Name.Name]) == 0 {
					continue
				}
				var stack []ast.Node
				ast.Inspect(fd, func(x ast.Node) bool {
					if x == nil {
						stack = stack[:len(stack)-1]
						return true
					}
					stack = append(stack, x)
					call, ok := x.(*ast.CallExpr)
					if !ok {
						return true
					}
					f, ok := core.CalleeObj(pkg.TypesInfo, call).(*types.Func)
					if !ok || f.Pkg() != pkg.Types || f.Name() != "setFields" || len(call.Args) < 3 {
						return true
					}
					n++
					con := fmt.Sprintf("rapidproto.%s setFields#%d message", fd.Name.Name, n)
					// innermost function around the call
					var body *ast.BlockStmt
					for k := len(stack) - 1; k >= 0 && body == nil; k-- {
						switch t := stack[k].(type) {
						case *ast.FuncLit:
							body = t.Body
						case *ast.FuncDecl:
							body = t.Body
						}
					}
					id, ok := ast.Unparen(call.Args[2]).(*ast.Ident)
					if !ok || body == nil {
						c.Undec("RAPID.fresh", con, "message argument is not a local variable", pos(call.Pos()), src)
						return true
					}
					obj := pkg.TypesInfo.ObjectOf(id)
					inside := obj != nil && obj.Pos() >= body.Pos() && obj.Pos() < body.End()
					fromNew := false
					writes := 0
					ast.Inspect(fd.Body, func(z ast.Node) bool {
						if as, ok := z.(*ast.AssignStmt); ok {
							for i, l := range as.Lhs {
								if li, ok := l.(*ast.Ident); ok && pkg.TypesInfo.ObjectOf(li) == obj {
									writes++
									if len(as.Rhs) == len(as.Lhs) {
										if rc, ok := ast.Unparen(as.Rhs[i]).(*ast.CallExpr); ok {
											if sel, ok := rc.Fun.(*ast.SelectorExpr); ok && sel.Sel.Name == "New" && len(rc.Args) == 0 {
												fromNew = as.Pos() >= body.Pos() && as.Pos() < body.End()
											}
										}
									}
								}
							}
						}
						return true
					})
					c.Check(inside && fromNew && writes == 1, "RAPID.fresh", con, "the message is created by New() inside the function that runs for each draw",
						"the message that setFields fills is not created by a New() call inside the innermost function around the call: all draws share (and keep appending to) one message", pos(call.Pos()), src)
					return true
				})
			}
		}
		if n == 0 {
			c.Undec("RAPID.fresh", "rapidproto", "no entry call of setFields found outside the generator methods", "", src)
		}
	}

	// ------------------------------------------------------------------ RAPID.any (results)
	// genAny reports whether it could produce a value (it cannot without AnyTypeURLs): no caller may drop that answer,
	// and setFields must hand it on, otherwise an empty Any (no type URL) stays in the message. A list element whose
	// generation failed is removed again: Truncate(Len()-1), not Truncate(i) (the list holds only the successes so far).
	{
		nAny := 0
		for _, f := range fns {
			allInstrs(f, func(b *ssa.BasicBlock, in ssa.Instruction) {
				call, ok := in.(*ssa.Call)
				if !ok || call.Call.StaticCallee() == nil {
					return
				}
				switch call.Call.StaticCallee().Name() {
				case "genAny":
					nAny++
					refs := call.Referrers()
					c.Check(refs != nil && len(*refs) > 0, "RAPID.any", fmt.Sprintf("rapidproto.%s genAny result#%d", f.Name(), nAny),
						"the result of genAny is used", "the result of genAny is discarded: when no value can be generated the field keeps an empty Any with an unresolvable type URL", pos(call.Pos()), src)
				}
			})
		}
		// setFields says "nothing was generated" (callers then clear the field / drop the element) for exactly two reasons:
		// the depth limit, and genAny having no type to draw from. Every other return reports success.
		if f := byName["setFields"]; f != nil {
			dp := depthParam(f)
			nRet := 0
			var bad []string
			var resolve func(v ssa.Value, b *ssa.BasicBlock, seen map[ssa.Value]bool) // classifies what a return may hand back
			resolve = func(v ssa.Value, b *ssa.BasicBlock, seen map[ssa.Value]bool) {
				if seen[v] {
					return
				}
				seen[v] = true
				switch t := v.(type) {
				case *ssa.Const:
					if t.Value != nil && t.Value.Kind() == constant.Bool {
						if constant.BoolVal(t.Value) {
							return
						}
						// false: only on the true edge of the entry test depth > limit
						okFalse := false
						if dp != nil && len(f.Blocks) > 0 {
							if iff, ok := f.Blocks[0].Instrs[len(f.Blocks[0].Instrs)-1].(*ssa.If); ok {
								if bo, ok := iff.Cond.(*ssa.BinOp); ok && bo.X == ssa.Value(dp) && (bo.Op == token.GTR || bo.Op == token.GEQ) {
									okFalse = edgeDom(iff, 0, b)
								}
							}
						}
						if !okFalse {
							bad = append(bad, "false outside the depth-limit test")
						}
						return
					}
				case *ssa.Call:
					if cal := t.Call.StaticCallee(); cal != nil && cal == byName["genAny"] {
						return
					}
				case *ssa.Phi:
					for i, e := range t.Edges {
						resolve(e, t.Block().Preds[i], seen)
					}
					return
				}
				bad = append(bad, v.String())
			}
			allInstrs(f, func(b *ssa.BasicBlock, in ssa.Instruction) {
				r, ok := in.(*ssa.Return)
				if !ok || len(r.Results) != 1 {
					return
				}
				nRet++
				resolve(r.Results[0], b, map[ssa.Value]bool{})
			})
			c.Check(len(bad) == 0 && nRet > 0, "RAPID.any", "rapidproto.setFields result", "reports failure only beyond the depth limit or when genAny does; success otherwise",
				"setFields reports that nothing was generated for another reason (the caller then clears the field or drops the list element, e.g. for a message type without fields): "+strings.Join(bad, "; "), pos(f.Pos()), src)
		}
		// Truncate after a failed element
		if f := byName["setFieldValue"]; f != nil {
			nTr := 0
			allInstrs(f, func(b *ssa.BasicBlock, in ssa.Instruction) {
				ci, ok := in.(ssa.CallInstruction)
				if !ok || !ci.Common().IsInvoke() || ci.Common().Method.Name() != "Truncate" || len(ci.Common().Args) != 1 {
					return
				}
				nTr++
				okT := false
				if bo, ok := ci.Common().Args[0].(*ssa.BinOp); ok && bo.Op == token.SUB {
					if k, ok := bo.Y.(*ssa.Const); ok && k.Value != nil && k.Int64() == 1 {
						if lc, ok := bo.X.(*ssa.Call); ok && lc.Call.IsInvoke() && lc.Call.Method.Name() == "Len" && lc.Call.Value == ci.Common().Value {
							okT = true
						}
					}
				}
				c.Check(okT, "RAPID.any", fmt.Sprintf("rapidproto.setFieldValue Truncate#%d", nTr), "a failed element is removed with Truncate(list.Len()-1)",
					"the element whose generation failed is not removed: Truncate is not called with list.Len()-1 (Truncate(i) keeps the failed element for every i > 0)", pos(in.Pos()), src)
			})
		}
	}

	// ------------------------------------------------------------------ RAPID.dispatch
	// the well-known types are recognised by their real full names and each is handed to its own generator
	{
		want := map[string]string{
			"google.protobuf.Timestamp": "genTimestamp", "google.protobuf.Duration": "genDuration",
			"google.protobuf.Any": "genAny", "google.protobuf.FieldMask": "genFieldMask",
		}
		gens := map[string]bool{}
		for _, g := range want {
			gens[g] = true
		}
		var fd *ast.FuncDecl
		for _, file := range pkg.Syntax {
			for _, d := range file.Decls {
				if f, ok := d.(*ast.FuncDecl); ok && f.Name.Name == "setFields" && f.Body != nil {
					fd = f
				}
			}
		}
		seenCase := map[string]bool{}
		if fd == nil {
			c.Undec("RAPID.dispatch", "rapidproto.setFields", "declaration not found", "", src)
		} else {
			callsIn := func(n ast.Node) map[string]bool {
				out := map[string]bool{}
				ast.Inspect(n, func(x ast.Node) bool {
					if ce, ok := x.(*ast.CallExpr); ok {
						if f, ok := core.CalleeObj(pkg.TypesInfo, ce).(*types.Func); ok && f.Pkg() == pkg.Types && gens[f.Name()] {
							out[f.Name()] = true
						}
					}
					return true
				})
				return out
			}
			inCases := map[string]bool{}
			ast.Inspect(fd.Body, func(n ast.Node) bool {
				sw, ok := n.(*ast.SwitchStmt)
				if !ok || sw.Tag == nil {
					return true
				}
				// the tag is msg.Descriptor().FullName(), directly or through a local assigned once
				tagOK := false
				tag := ast.Unparen(sw.Tag)
				if id, ok := tag.(*ast.Ident); ok {
					ast.Inspect(fd.Body, func(m ast.Node) bool {
						if as, ok := m.(*ast.AssignStmt); ok && len(as.Lhs) == 1 && len(as.Rhs) == 1 {
							if l, ok := as.Lhs[0].(*ast.Ident); ok && pkg.TypesInfo.ObjectOf(l) == pkg.TypesInfo.ObjectOf(id) {
								tag = as.Rhs[0]
							}
						}
						return true
					})
				}
				if ce, ok := tag.(*ast.CallExpr); ok {
					if f, ok := core.CalleeObj(pkg.TypesInfo, ce).(*types.Func); ok && f.Name() == "FullName" {
						tagOK = true
					}
				}
				if !tagOK {
					return true
				}
				for _, st := range sw.Body.List {
					cc := st.(*ast.CaseClause)
					calls := callsIn(cc)
					for g := range calls {
						inCases[g] = true
					}
					if cc.List == nil {
						for g := range calls {
							c.Fail("RAPID.dispatch", "rapidproto.setFields default arm calls "+g, "the generic arm calls a well-known-type generator", pos(cc.Pos()), src)
						}
						continue
					}
					for _, e := range cc.List {
						tv := pkg.TypesInfo.Types[e]
						if tv.Value == nil || tv.Value.Kind() != constant.String {
							c.Undec("RAPID.dispatch", "rapidproto.setFields case "+types.ExprString(e), "case label is not a string constant", pos(e.Pos()), src)
							continue
						}
						name := constant.StringVal(tv.Value)
						seenCase[name] = true
						g, known := want[name]
						if !known {
							for gg := range calls {
								c.Fail("RAPID.dispatch", "rapidproto.setFields case \""+name+"\"", "messages named "+name+" are handed to "+gg, pos(e.Pos()), src)
							}
							continue
						}
						ok := calls[g] && len(calls) == 1 && len(cc.List) == 1
						c.Check(ok, "RAPID.dispatch", "rapidproto.setFields case \""+name+"\"", name+" -> "+g,
							fmt.Sprintf("messages named %s must be generated by %s alone; the arm calls %v", name, g, keys(calls)), pos(e.Pos()), src)
					}
				}
				return true
			})
			for name, g := range want {
				if !seenCase[name] {
					c.Fail("RAPID.dispatch", "rapidproto.setFields case \""+name+"\"", "no case for "+name+" (generator "+g+"): the generic field walk would produce invalid values for it", pos(fd.Pos()), src)
				}
			}
			for g := range callsIn(fd.Body) {
				if !inCases[g] {
					c.Fail("RAPID.dispatch", "rapidproto.setFields call of "+g, g+" is called outside the full-name dispatch", pos(fd.Pos()), src)
				}
			}
		}
	}

	// ------------------------------------------------------------------ RAPID.opts
	{
		f := byName["setFieldValue"]
		// list lower bound phi
		found := false
		allInstrs(f, func(b *ssa.BasicBlock, in ssa.Instruction) {
			call, ok := in.(*ssa.Call)
			if !ok || call.Call.StaticCallee() == nil || call.Call.StaticCallee().Name() != "IntRange" || len(call.Call.Args) != 2 {
				return
			}
			phi, ok := call.Call.Args[0].(*ssa.Phi)
			if !ok {
				return // the map-size draw uses a constant lower bound
			}
			found = true
			okPhi := len(phi.Edges) == 2
			var oneEdge, zeroEdge int = -1, -1
			for i, e := range phi.Edges {
				if k, ok := e.(*ssa.Const); ok && k.Value != nil {
					if v, _ := constant.Int64Val(k.Value); v == 1 {
						oneEdge = i
					} else if v == 0 {
						zeroEdge = i
					}
				}
			}
			okPhi = okPhi && oneEdge >= 0 && zeroEdge >= 0
			if okPhi {
				// the pred of the "1" edge must be the true-successor of If(opts.NoEmptyLists)
				pb := phi.Block().Preds[oneEdge]
				zb := phi.Block().Preds[zeroEdge]
				iff, isIf := zb.Instrs[len(zb.Instrs)-1].(*ssa.If)
				okPhi = isIf && zb.Succs[0] == pb && len(pb.Preds) == 1 && isOptsField(iff.Cond, "NoEmptyLists")
			}
			c.Check(okPhi, "RAPID.opts", "rapidproto.setFieldValue list lower bound", "list length lower bound is 1 exactly when opts.NoEmptyLists", "list length lower bound is not (1 iff opts.NoEmptyLists)", pos(in.Pos()), src)
		})
		if !found {
			c.Undec("RAPID.opts", "rapidproto.setFieldValue list lower bound", "no IntRange(min,…) draw with a conditional lower bound found", pos(f.Pos()), src)
		}
	}
	{
		// in setFields: a path from the loop header back to it that avoids the setFieldValue call must pass the false edge of opts.DisallowNilMessages
		f := byName["setFields"]
		var callB *ssa.BasicBlock
		allInstrs(f, func(b *ssa.BasicBlock, in ssa.Instruction) {
			if ci, ok := in.(ssa.CallInstruction); ok && ci.Common().StaticCallee() == byName["setFieldValue"] {
				callB = b
			}
		})
		if callB == nil {
			c.Undec("RAPID.opts", "rapidproto.setFields skip path", "call of setFieldValue not found", pos(f.Pos()), src)
		} else {
			// find If(opts.DisallowNilMessages)
			var dIf *ssa.If
			allInstrs(f, func(b *ssa.BasicBlock, in ssa.Instruction) {
				if iff, ok := in.(*ssa.If); ok && isOptsField(iff.Cond, "DisallowNilMessages") {
					dIf = iff
				}
			})
			okSkip := false
			if dIf != nil {
				// true edge (DisallowNilMessages set) must lead only to the call block: i.e. from Succs[0], every path reaches callB before leaving the loop iteration
				okSkip = mustReach(dIf.Block().Succs[0], callB, dIf.Block())
				// and every block that bypasses callB is dominated by the false edge of dIf: check preds of the loop latch other than via callB
			}
			// additionally: the only way to skip the call within an iteration is through dIf's false edge
			if okSkip {
				okSkip = bypassOnlyVia(f, callB, dIf)
			}
			c.Check(okSkip, "RAPID.opts", "rapidproto.setFields skip path", "a field is skipped only on the !opts.DisallowNilMessages edge", "a message field can be skipped although DisallowNilMessages is set (or the option test is gone)", pos(f.Pos()), src)
		}
	}
	{
		// genScalarFieldValue: the per-kind draws are dominated by the completion of the FieldMaps loop
		f := byName["genScalarFieldValue"]
		var rangeNext *ssa.BasicBlock // block holding the loop test over opts.FieldMaps
		allInstrs(f, func(b *ssa.BasicBlock, in ssa.Instruction) {
			if call, ok := in.(*ssa.Call); ok {
				if _, isParamFn := call.Call.Value.(*ssa.UnOp); isParamFn && call.Call.StaticCallee() == nil && !call.Call.IsInvoke() {
					// dynamic call of fm(t, field, name)
					rangeNext = b
				}
			}
		})
		// or the consultation sits in a helper of the package (a function that makes the dynamic mapper call): then
		// the draws must come after the call of that helper
		var helperCall *ssa.BasicBlock
		if rangeNext == nil {
			allInstrs(f, func(b *ssa.BasicBlock, in ssa.Instruction) {
				call, ok := in.(*ssa.Call)
				if !ok || call.Call.StaticCallee() == nil || call.Call.StaticCallee().Pkg != sp {
					return
				}
				dyn := false
				allInstrs(call.Call.StaticCallee(), func(_ *ssa.BasicBlock, in2 ssa.Instruction) {
					if c2, ok := in2.(*ssa.Call); ok {
						if _, isParamFn := c2.Call.Value.(*ssa.UnOp); isParamFn && c2.Call.StaticCallee() == nil && !c2.Call.IsInvoke() {
							dyn = true
						}
					}
				})
				if dyn && helperCall == nil {
					helperCall = b
				}
			})
		}
		if helperCall != nil {
			nD, okH := 0, true
			allInstrs(f, func(b *ssa.BasicBlock, in ssa.Instruction) {
				if call, ok := in.(*ssa.Call); ok && call.Call.StaticCallee() != nil && strings.HasPrefix(call.Call.StaticCallee().Name(), "ValueOf") {
					nD++
					if !helperCall.Dominates(b) || b == helperCall {
						okH = false
					}
				}
			})
			c.Check(okH && nD >= 10, "RAPID.opts", "rapidproto.genScalarFieldValue field mappers first", fmt.Sprintf("all %d per-kind draws come after the call of the field-mapper helper", nD), "per-kind draws are not preceded by the field-mapper consultation", pos(f.Pos()), src)
		}
		okFM := rangeNext != nil
		nDraw := 0
		if helperCall != nil {
			okFM = false
		}
		if okFM {
			allInstrs(f, func(b *ssa.BasicBlock, in ssa.Instruction) {
				if call, ok := in.(*ssa.Call); ok && call.Call.StaticCallee() != nil && strings.HasPrefix(call.Call.StaticCallee().Name(), "ValueOf") {
					nDraw++
					// must not be reachable without passing the loop header that iterates FieldMaps: the loop header dominates
					hdr := loopHeaderOf(rangeNext)
					if hdr == nil || !hdr.Dominates(b) || reachable(b, rangeNext) {
						okFM = false
					}
				}
			})
		}
		if helperCall == nil {
			c.Check(okFM && nDraw >= 10, "RAPID.opts", "rapidproto.genScalarFieldValue field mappers first", fmt.Sprintf("all %d per-kind draws come after the FieldMaps loop", nDraw), "per-kind draws are not preceded by the FieldMaps loop", pos(f.Pos()), src)
		}
	}

	// ------------------------------------------------------------------ RAPID.utf8
	// every protoreflect.ValueOfString argument derives from a rapid string generator (valid UTF-8 by construction),
	// a constant, fmt.Sprintf of such, or a parameter
	var strOK func(v ssa.Value, d int) bool
	strOK = func(v ssa.Value, d int) bool {
		if d > 8 {
			return false
		}
		v = stripConv(v)
		switch t := v.(type) {
		case *ssa.Const, *ssa.Parameter:
			return true
		case *ssa.Phi:
			for _, e := range t.Edges {
				if !strOK(e, d+1) {
					return false
				}
			}
			return true
		case *ssa.Call:
			cf := t.Call.StaticCallee()
			if cf == nil {
				return false
			}
			if strings.HasPrefix(cf.Name(), "Draw") && len(t.Call.Args) >= 1 {
				if g, ok := t.Call.Args[0].(*ssa.Call); ok && g.Call.StaticCallee() != nil {
					switch g.Call.StaticCallee().Name() {
					case "String", "StringN", "StringOf", "StringOfN", "StringMatching":
						return true
					}
					if strings.HasPrefix(g.Call.StaticCallee().Name(), "SampledFrom") {
						return true // sampled from caller-supplied strings
					}
				}
				return false
			}
			if cf.String() == "fmt.Sprintf" {
				return true
			}
		case *ssa.BinOp:
			// concatenation of valid UTF-8 strings is valid UTF-8
			return t.Op == token.ADD && strOK(t.X, d+1) && strOK(t.Y, d+1)
		case *ssa.UnOp, *ssa.Index, *ssa.Lookup, *ssa.Extract, *ssa.Next:
			return true // element of a collection of such strings (paths list): checked at its source below
		}
		return false
	}
	nStr := 0
	for _, f := range fns {
		allInstrs(f, func(b *ssa.BasicBlock, in ssa.Instruction) {
			call, ok := in.(*ssa.Call)
			if !ok || call.Call.StaticCallee() == nil || call.Call.StaticCallee().String() != "google.golang.org/protobuf/reflect/protoreflect.ValueOfString" {
				return
			}
			nStr++
			con := fmt.Sprintf("rapidproto.%s ValueOfString#%d", f.Name(), ordinalInFunc(f, in))
			c.Check(strOK(call.Call.Args[0], 0), "RAPID.utf8", con, "string value comes from a rapid string generator, a constant or a parameter", "string value does not come from a UTF-8 producing source (e.g. bytes converted to string)", pos(in.Pos()), src)
		})
	}
	// ------------------------------------------------------------------ RAPID.any
	{
		f := byName["genAny"]
		var find, marshal *ssa.Call
		var setURL, setVal ssa.CallInstruction
		allInstrs(f, func(b *ssa.BasicBlock, in ssa.Instruction) {
			ci, ok := in.(ssa.CallInstruction)
			if !ok {
				return
			}
			n := calleeName(ci.Common())
			switch {
			case strings.HasSuffix(n, ".FindMessageByURL"):
				find, _ = in.(*ssa.Call)
			case n == "google.golang.org/protobuf/proto.Marshal":
				marshal, _ = in.(*ssa.Call)
			case ci.Common().IsInvoke() && ci.Common().Method.Name() == "Set" && len(ci.Common().Args) == 2:
				if fa, ok := stripConv(ci.Common().Args[0]).(*ssa.Call); ok && fa.Call.IsInvoke() && fa.Call.Method.Name() == "ByName" {
					nm, _ := constString(stripConv(fa.Call.Args[0]))
					switch nm {
					case "type_url":
						setURL = ci
					case "value":
						setVal = ci
					}
				}
			}
		})
		okAny := find != nil && marshal != nil && setURL != nil && setVal != nil
		why := "expected FindMessageByURL, proto.Marshal, Set(type_url) and Set(value)"
		if okAny {
			// type_url stored = the URL that was resolved
			uv, ok := setURL.Common().Args[1].(*ssa.Call)
			okAny = ok && len(uv.Call.Args) == 1 && len(find.Call.Args) == 1 && uv.Call.Args[0] == find.Call.Args[0]
			why = "the stored type_url is not the URL that was resolved"
		}
		if okAny {
			// value = proto.Marshal(typ.New().Interface()) with typ the resolved type
			root, ok := invokeChain(marshal.Call.Args[0], "New", "Interface")
			okAny = false
			why = "the marshalled message is not typ.New() of the resolved type"
			if ok {
				if ex, ok := root.(*ssa.Extract); ok && ex.Tuple == ssa.Value(find) && ex.Index == 0 {
					okAny = true
				}
			}
		}
		if okAny {
			vv, ok := setVal.Common().Args[1].(*ssa.Call)
			okAny = false
			why = "the stored value is not the bytes returned by proto.Marshal"
			if ok && len(vv.Call.Args) == 1 {
				if ex, ok := vv.Call.Args[0].(*ssa.Extract); ok && ex.Tuple == ssa.Value(marshal) && ex.Index == 0 {
					okAny = true
				}
			}
		}
		c.Check(okAny, "RAPID.any", "rapidproto.genAny consistency", "type_url is the resolved URL; value is proto.Marshal of a new message of exactly that resolved type", why, pos(f.Pos()), src)
	}
	// ------------------------------------------------------------------ RAPID.url
	// WithAnyTypes: URL = "/" + full name of the message; WithInterfaceHint: hint = full name
	if f := byName["WithAnyTypes"]; f != nil {
		okU := false
		allInstrs(f, func(b *ssa.BasicBlock, in ssa.Instruction) {
			if v, ok := in.(ssa.Value); ok {
				for _, x := range slashPlus(v) {
					if _, ok := invokeChain(x, "ProtoReflect", "Descriptor", "FullName"); ok {
						okU = true
					}
				}
			}
		})
		c.Check(okU, "RAPID.url", "rapidproto.WithAnyTypes URL", "type URL is \"/\" + the message's full name", "the Any type URL is not \"/\" + Descriptor().FullName() (a short name is not resolvable for packaged or nested types)", pos(f.Pos()), src)
	} else {
		c.Fail("RAPID.anchor", "rapidproto.WithAnyTypes", "function not found", "", src)
	}
	if f := byName["WithInterfaceHint"]; f != nil {
		okH := false
		allInstrs(f, func(b *ssa.BasicBlock, in ssa.Instruction) {
			mu, ok := in.(*ssa.MapUpdate)
			if !ok {
				return
			}
			if _, ok := invokeChain(mu.Value, "ProtoReflect", "Descriptor", "FullName"); ok {
				okH = true
			}
		})
		c.Check(okH, "RAPID.url", "rapidproto.WithInterfaceHint value", "the hinted implementation is stored by its full name", "the interface hint is not the implementation's Descriptor().FullName(): genAny builds an unresolvable URL for packaged or nested types", pos(f.Pos()), src)
	} else {
		c.Fail("RAPID.anchor", "rapidproto.WithInterfaceHint", "function not found", "", src)
	}
	// genAny: hinted URL = "/" + hint
	{
		f := byName["genAny"]
		okS := false
		allInstrs(f, func(b *ssa.BasicBlock, in ssa.Instruction) {
			if v, ok := in.(ssa.Value); ok && len(slashPlus(v)) > 0 {
				okS = true
			}
		})
		c.Check(okS, "RAPID.url", "rapidproto.genAny hinted URL", "hinted URL is \"/\" + hint", "the hinted type URL is not built as \"/\" + hint", pos(f.Pos()), src)
	}
	// ------------------------------------------------------------------ RAPID.nil
	runRapidNil(c, fns, seen)
}

func isOptsField(v ssa.Value, field string) bool {
	// load of opts.<field> : UnOp(MUL, FieldAddr(alloc-of-opts)) or Field(opts)
	switch t := v.(type) {
	case *ssa.Field:
		st, ok := t.X.Type().Underlying().(*types.Struct)
		return ok && st.Field(t.Field).Name() == field
	case *ssa.UnOp:
		if fa, ok := t.X.(*ssa.FieldAddr); ok {
			return fieldName(fa) == field
		}
	}
	return false
}

// mustReach: every path from `from` reaches `target` before reaching `stop` or a function exit.
func mustReach(from, target, stop *ssa.BasicBlock) bool {
	seen := map[*ssa.BasicBlock]bool{}
	var dfs func(b *ssa.BasicBlock) bool
	dfs = func(b *ssa.BasicBlock) bool {
		if b == target {
			return true
		}
		if b == stop || len(b.Succs) == 0 {
			return false
		}
		if seen[b] {
			return true // cycle not through target: handled by other branches; conservative would be false
		}
		seen[b] = true
		for _, s := range b.Succs {
			if !dfs(s) {
				return false
			}
		}
		return true
	}
	return dfs(from)
}

// bypassOnlyVia: removing the false edge of dIf, the loop back-edge is not
// reachable from the loop header without passing callB.
func bypassOnlyVia(f *ssa.Function, callB *ssa.BasicBlock, dIf *ssa.If) bool {
	hdr := loopHeaderOf(callB)
	if hdr == nil {
		return false
	}
	// DFS from header's in-loop successor; avoid callB; forbid taking dIf false edge; if header reached again -> bypass exists
	seen := map[*ssa.BasicBlock]bool{}
	var dfs func(b *ssa.BasicBlock) bool
	dfs = func(b *ssa.BasicBlock) bool {
		if b == callB || seen[b] {
			return false
		}
		seen[b] = true
		for i, s := range b.Succs {
			if b == dIf.Block() && i == 1 {
				continue
			}
			if s == hdr {
				return true
			}
			if dfs(s) {
				return true
			}
		}
		return false
	}
	for _, s := range hdr.Succs {
		if hdr.Dominates(s) && reachable(s, hdr) { // in-loop successor
			if dfs(s) {
				return false
			}
		}
	}
	return true
}

// loopHeaderOf returns the innermost natural-loop header whose loop contains b.
func loopHeaderOf(b *ssa.BasicBlock) *ssa.BasicBlock {
	f := b.Parent()
	var best *ssa.BasicBlock
	for _, h := range f.Blocks {
		// h is a header if some pred p of h is dominated by h
		isHdr := false
		for _, p := range h.Preds {
			if h.Dominates(p) {
				isHdr = true
			}
		}
		if !isHdr || !h.Dominates(b) || !reachable(b, h) {
			continue
		}
		if best == nil || best.Dominates(h) {
			best = h
		}
	}
	return best
}

func ordinalInFunc(f *ssa.Function, target ssa.Instruction) int {
	n := 0
	for _, b := range f.Blocks {
		for _, in := range b.Instrs {
			if _, ok := in.(ssa.CallInstruction); ok {
				n++
			}
			if in == target {
				return n
			}
		}
	}
	return n
}

func tarjan(nodes []*ssa.Function, adj map[*ssa.Function][]*ssa.Function) map[*ssa.Function]int {
	index := 0
	idx := map[*ssa.Function]int{}
	low := map[*ssa.Function]int{}
	on := map[*ssa.Function]bool{}
	var stack []*ssa.Function
	comp := map[*ssa.Function]int{}
	inSet := map[*ssa.Function]bool{}
	for _, n := range nodes {
		inSet[n] = true
	}
	nc := 0
	var strong func(v *ssa.Function)
	strong = func(v *ssa.Function) {
		index++
		idx[v], low[v] = index, index
		stack = append(stack, v)
		on[v] = true
		for _, w := range adj[v] {
			if !inSet[w] {
				continue
			}
			if idx[w] == 0 {
				strong(w)
				if low[w] < low[v] {
					low[v] = low[w]
				}
			} else if on[w] && idx[w] < low[v] {
				low[v] = idx[w]
			}
		}
		if low[v] == idx[v] {
			nc++
			for {
				w := stack[len(stack)-1]
				stack = stack[:len(stack)-1]
				on[w] = false
				comp[w] = nc
				if w == v {
					break
				}
			}
		}
	}
	for _, n := range nodes {
		if idx[n] == 0 {
			strong(n)
		}
	}
	return comp
}

func enclosingFunc(file *ast.File, p token.Pos) string {
	for _, d := range file.Decls {
		if fd, ok := d.(*ast.FuncDecl); ok && fd.Pos() <= p && p <= fd.End() {
			return fd.Name.Name
		}
	}
	return "?"
}

// countedLoop: for i := 0; i < n; i++ with i and n not assigned in the body.
func countedLoop(info *types.Info, fs *ast.ForStmt) (bool, string) {
	init, ok := fs.Init.(*ast.AssignStmt)
	if !ok || init.Tok != token.DEFINE {
		return false, "init form"
	}
	cond, ok := fs.Cond.(*ast.BinaryExpr)
	if !ok || cond.Op != token.LSS {
		return false, "condition is not i < n"
	}
	ci, ok := cond.X.(*ast.Ident)
	if !ok {
		return false, "condition does not test the induction variable"
	}
	// the induction variable is one of the variables the init statement defines (for i, n := 0, xs.Len(); i < n; i++)
	var iv *ast.Ident
	for _, l := range init.Lhs {
		if id, ok := l.(*ast.Ident); ok && info.ObjectOf(id) == info.ObjectOf(ci) {
			iv = id
		}
	}
	if iv == nil {
		return false, "condition does not test the induction variable"
	}
	bound, ok := cond.Y.(*ast.Ident)
	boundText := ""
	if !ok {
		// len(v) of a variable, or v.Len() of an immutable protoreflect list (descriptor lists), v not assigned in the body
		if call, isCall := cond.Y.(*ast.CallExpr); isCall {
			switch f := call.Fun.(type) {
			case *ast.Ident:
				if _, isB := info.Uses[f].(*types.Builtin); isB && f.Name == "len" && len(call.Args) == 1 {
					bound, ok = call.Args[0].(*ast.Ident)
				}
			case *ast.SelectorExpr:
				if fn, isF := info.Uses[f.Sel].(*types.Func); isF && fn.Name() == "Len" && len(call.Args) == 0 && fn.Pkg() != nil &&
					fn.Pkg().Path() == "google.golang.org/protobuf/reflect/protoreflect" {
					if rt := info.TypeOf(f.X); rt != nil && strings.HasSuffix(rt.String(), "Descriptors") {
						bound, ok = f.X.(*ast.Ident)
					}
				}
			}
			if ok {
				boundText = types.ExprString(cond.Y)
			}
		}
		if !ok {
			return false, "bound is not a plain variable"
		}
	}
	post, ok := fs.Post.(*ast.IncDecStmt)
	if !ok || post.Tok != token.INC {
		return false, "post is not i++"
	}
	pi, ok := post.X.(*ast.Ident)
	if !ok || info.ObjectOf(pi) != info.ObjectOf(iv) {
		return false, "post does not increment the induction variable"
	}
	bad := ""
	ast.Inspect(fs.Body, func(n ast.Node) bool {
		switch t := n.(type) {
		case *ast.AssignStmt:
			for _, l := range t.Lhs {
				if id, ok := l.(*ast.Ident); ok && t.Tok != token.DEFINE {
					if o := info.ObjectOf(id); o == info.ObjectOf(iv) || o == info.ObjectOf(bound) {
						bad = id.Name + " is assigned in the body"
					}
				}
			}
		case *ast.IncDecStmt:
			if id, ok := t.X.(*ast.Ident); ok {
				if o := info.ObjectOf(id); o == info.ObjectOf(iv) || o == info.ObjectOf(bound) {
					bad = id.Name + " is modified in the body"
				}
			}
		case *ast.UnaryExpr:
			if t.Op == token.AND {
				if id, ok := t.X.(*ast.Ident); ok {
					if o := info.ObjectOf(id); o == info.ObjectOf(iv) || o == info.ObjectOf(bound) {
						bad = "address of " + id.Name + " taken"
					}
				}
			}
		}
		return true
	})
	if bad != "" {
		return false, bad
	}
	if boundText == "" {
		boundText = bound.Name
	}
	return true, fmt.Sprintf("for %s < %s", iv.Name, boundText)
}

// runRapidNil: interprocedural flow of nil FieldDescriptor arguments.
func runRapidNil(c *core.Ctx, fns []*ssa.Function, inPkg map[*ssa.Function]bool) {
	const src = "S0"
	fset := c.Prog.Fset
	pos := func(p token.Pos) string { return c.PosStr(fset, p) }
	type key struct {
		f *ssa.Function
		i int
	}
	mayNil := map[key]string{} // param -> witness call site
	isFD := func(t types.Type) bool {
		return strings.HasSuffix(types.TypeString(t, nil), "protoreflect.FieldDescriptor")
	}
	changed := true
	for changed {
		changed = false
		for _, f := range fns {
			allInstrs(f, func(b *ssa.BasicBlock, in ssa.Instruction) {
				ci, ok := in.(ssa.CallInstruction)
				if !ok {
					return
				}
				callee := ci.Common().StaticCallee()
				if callee == nil || !inPkg[callee] {
					return
				}
				for i, a := range ci.Common().Args {
					if i >= len(callee.Params) || !isFD(callee.Params[i].Type()) {
						continue
					}
					nilHere := isNilConst(a)
					if p, ok := a.(*ssa.Parameter); ok {
						for j, q := range f.Params {
							if q == p {
								if _, mn := mayNil[key{f, j}]; mn && !guardedNonNil(p, b) {
									nilHere = true
								}
							}
						}
					}
					if nilHere {
						k := key{callee, i}
						if _, ok := mayNil[k]; !ok {
							mayNil[k] = fmt.Sprintf("%s passes nil at %s", f.Name(), pos(in.Pos()))
							changed = true
						}
					}
				}
			})
		}
	}
	n := 0
	for k, wit := range mayNil {
		p := k.f.Params[k.i]
		for _, r := range *p.Referrers() {
			ci, ok := r.(ssa.CallInstruction)
			if !ok || !ci.Common().IsInvoke() || ci.Common().Value != ssa.Value(p) {
				continue
			}
			n++
			con := fmt.Sprintf("rapidproto.%s %s.%s()", k.f.Name(), p.Name(), ci.Common().Method.Name())
			c.Check(guardedNonNil(p, r.Block()), "RAPID.nil", con, "method call on a possibly-nil descriptor is guarded by a nil test",
				fmt.Sprintf("%s may be nil (%s) and %s.%s() is called without a nil test: nil interface method call panics", p.Name(), wit, p.Name(), ci.Common().Method.Name()), pos(r.Pos()), src)
		}
	}
	c.Check(len(mayNil) >= 1, "RAPID.nil", "rapidproto nil descriptor sources", fmt.Sprintf("%d parameters may receive a nil FieldDescriptor; %d method calls on them inspected", len(mayNil), n),
		"no nil FieldDescriptor argument found (anchor lost: MessageGenerator passes nil as the top-level field)", "", src)
}

// guardedNonNil: block b is dominated by the true edge of `p != nil` or the false edge of `p == nil`
// (possibly as the left operand of a short-circuit &&, which SSA lowers to the same edge structure).
func guardedNonNil(p *ssa.Parameter, b *ssa.BasicBlock) bool {
	for _, r := range *p.Referrers() {
		bo, ok := r.(*ssa.BinOp)
		if !ok || !(isNilConst(bo.X) || isNilConst(bo.Y)) {
			continue
		}
		for _, r2 := range *bo.Referrers() {
			iff, ok := r2.(*ssa.If)
			if !ok {
				continue
			}
			if bo.Op == token.NEQ && edgeDom(iff, 0, b) {
				return true
			}
			if bo.Op == token.EQL && edgeDom(iff, 1, b) {
				return true
			}
		}
	}
	return false
}

func keys(m map[string]bool) []string {
	var out []string
	for k := range m {
		out = append(out, k)
	}
	sort.Strings(out)
	return out
}

// slashPlus: v is "/" followed by one value: fmt.Sprintf("/%s", x) (or %v) or "/" + x (x possibly converted to
// string). It returns the candidate x values.
func slashPlus(v ssa.Value) []ssa.Value {
	var out []ssa.Value
	switch t := v.(type) {
	case *ssa.Call:
		if t.Call.StaticCallee() == nil || t.Call.StaticCallee().String() != "fmt.Sprintf" || len(t.Call.Args) != 2 {
			return nil
		}
		if fs, ok := constString(t.Call.Args[0]); !ok || (fs != "/%s" && fs != "/%v") {
			return nil
		}
		if sl, ok := t.Call.Args[1].(*ssa.Slice); ok {
			if al, ok := sl.X.(*ssa.Alloc); ok {
				for _, r := range *al.Referrers() {
					if ia, ok := r.(*ssa.IndexAddr); ok {
						for _, r2 := range *ia.Referrers() {
							if st, ok := r2.(*ssa.Store); ok {
								out = append(out, st.Val)
							}
						}
					}
				}
			}
		}
	case *ssa.BinOp:
		if t.Op != token.ADD {
			return nil
		}
		if l, ok := constString(t.X); ok && l == "/" {
			out = append(out, t.Y)
		}
	}
	return out
}
