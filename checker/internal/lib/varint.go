// Package lib holds the rules for the hand-written libraries
// (runtime, timepb, anyutil, rapidproto).
package lib

import (
	"fmt"
	"go/ast"
	"go/constant"
	"go/token"
	"go/types"
	"strings"

	"golang.org/x/tools/go/packages"
	"google.golang.org/protobuf/encoding/protowire"

	"verif/checker/internal/core"
)

// ---------------------------------------------------------------------------
// Bit-length abstract domain.
//
// A uint64 is abstracted by a class: for "unsigned view" classes the bit
// length L in 0..64; for "signed view" classes (needed by zig-zag) the sign and
// the bit length of the magnitude pattern (x if x>=0, ^x if x<0). Every
// operation Sov/Soz/EncodeVarint use is exact on these classes, so evaluating
// each class once is a complete case analysis of all 2^64 inputs.

type aval struct {
	kind  int // 0 exact int, 1 uclass (unsigned bit length), 2 sclass (sign+len of int64 view)
	n     int64
	L     int  // bit length
	neg   bool // sclass only
	shift int  // number of bits already shifted out of the ORIGINAL argument (uclass derived by >>)
}

const (
	kInt = iota
	kU
	kS
)

func (a aval) String() string {
	switch a.kind {
	case kInt:
		return fmt.Sprintf("int(%d)", a.n)
	case kU:
		return fmt.Sprintf("u64[len=%d,>>%d]", a.L, a.shift)
	}
	return fmt.Sprintf("i64[neg=%v,len=%d]", a.neg, a.L)
}

type undecided struct{ msg string }

func (u undecided) Error() string { return u.msg }

func und(format string, a ...interface{}) error { return undecided{fmt.Sprintf(format, a...)} }

// representatives of a uclass: min and max value with that bit length.
func uReps(L int) []uint64 {
	if L == 0 {
		return []uint64{0}
	}
	lo := uint64(1) << uint(L-1)
	var hi uint64
	if L == 64 {
		hi = ^uint64(0)
	} else {
		hi = (uint64(1) << uint(L)) - 1
	}
	return []uint64{lo, hi, lo | (hi >> 1 & 0x5555555555555555)}
}

func sReps(neg bool, L int) []uint64 {
	var out []uint64
	for _, m := range uReps(L) {
		if neg {
			out = append(out, ^m)
		} else {
			out = append(out, m)
		}
	}
	return out
}

type varintEngine struct {
	c    *core.Ctx
	pkg  *packages.Package
	fns  map[string]*ast.FuncDecl
	sums map[string]map[string]aval // function summaries: fn -> class string -> result
}

// evalExpr evaluates an expression of the helper functions on the abstract domain.
func (e *varintEngine) evalExpr(x ast.Expr, env map[string]aval) (aval, error) {
	info := e.pkg.TypesInfo
	x = ast.Unparen(x)
	if tv, ok := info.Types[x]; ok && tv.Value != nil {
		if v, ok := constant.Int64Val(constant.ToInt(tv.Value)); ok {
			return aval{kind: kInt, n: v}, nil
		}
	}
	switch t := x.(type) {
	case *ast.Ident:
		if v, ok := env[t.Name]; ok {
			return v, nil
		}
		return aval{}, und("unknown identifier %s", t.Name)
	case *ast.BinaryExpr:
		// zig-zag form: (x << 1) ^ uint64(int64(x) >> 63)
		if t.Op == token.XOR {
			if id, ok := matchZigZag64(t, info); ok {
				v, ok := env[id]
				if !ok || v.kind != kS {
					return aval{}, und("zig-zag operand %s is not the signed-view parameter", id)
				}
				// result is an unsigned value: for x>=0 it is 2x (len L+1, or 0); for x<0 it is 2*(^x)+1 (len L+1)
				if !v.neg && v.L == 0 {
					return aval{kind: kU, L: 0}, nil
				}
				return aval{kind: kU, L: v.L + 1}, nil
			}
		}
		l, err := e.evalExpr(t.X, env)
		if err != nil {
			return aval{}, err
		}
		r, err := e.evalExpr(t.Y, env)
		if err != nil {
			return aval{}, err
		}
		switch {
		case l.kind == kInt && r.kind == kInt:
			switch t.Op {
			case token.ADD:
				return aval{kind: kInt, n: l.n + r.n}, nil
			case token.SUB:
				return aval{kind: kInt, n: l.n - r.n}, nil
			case token.QUO:
				if r.n <= 0 || l.n < 0 {
					return aval{}, und("division with non-positive operand")
				}
				return aval{kind: kInt, n: l.n / r.n}, nil
			case token.MUL:
				return aval{kind: kInt, n: l.n * r.n}, nil
			}
		case l.kind == kU && r.kind == kInt && t.Op == token.OR && r.n == 1:
			// x|1 : bit length max(L,1); (shift info lost – only used by Sov)
			L := l.L
			if L == 0 {
				L = 1
			}
			return aval{kind: kU, L: L, shift: -1}, nil
		case l.kind == kU && r.kind == kInt && t.Op == token.SHR && r.n >= 0:
			L := l.L - int(r.n)
			if L < 0 {
				L = 0
			}
			return aval{kind: kU, L: L, shift: l.shift + int(r.n)}, nil
		}
		return aval{}, und("operation %s on %s,%s outside the bit-length table", t.Op, l, r)
	case *ast.CallExpr:
		obj := core.CalleeObj(info, t)
		qn := core.QualName(obj)
		switch qn {
		case "math/bits.Len64":
			a, err := e.evalExpr(t.Args[0], env)
			if err != nil {
				return aval{}, err
			}
			if a.kind != kU {
				return aval{}, und("bits.Len64 of non-class value")
			}
			return aval{kind: kInt, n: int64(a.L)}, nil
		case "google.golang.org/protobuf/encoding/protowire.EncodeZigZag":
			// protowire's zig-zag of the signed view of the parameter (A3): same result as the open-coded form
			if len(t.Args) == 1 {
				if conv, ok := ast.Unparen(t.Args[0]).(*ast.CallExpr); ok && len(conv.Args) == 1 && isTypeConv(info, conv, types.Int64) {
					if id, ok := ast.Unparen(conv.Args[0]).(*ast.Ident); ok {
						if v, ok := env[id.Name]; ok && v.kind == kS {
							if !v.neg && v.L == 0 {
								return aval{kind: kU, L: 0}, nil
							}
							return aval{kind: kU, L: v.L + 1}, nil
						}
					}
				}
			}
			return aval{}, und("protowire.EncodeZigZag of something other than int64(<parameter>)")
		case core.RepoModule + "/runtime.Sov":
			a, err := e.evalExpr(t.Args[0], env)
			if err != nil {
				return aval{}, err
			}
			if a.kind != kU {
				return aval{}, und("Sov of non-class value %s", a)
			}
			return e.callSov(a)
		}
		// conversions
		if tv, ok := info.Types[t.Fun]; ok && tv.IsType() && len(t.Args) == 1 {
			a, err := e.evalExpr(t.Args[0], env)
			if err != nil {
				return aval{}, err
			}
			b, _ := tv.Type.Underlying().(*types.Basic)
			if b == nil {
				return aval{}, und("conversion to %s", tv.Type)
			}
			switch {
			case a.kind == kInt:
				return a, nil
			case a.kind == kU && b.Kind() == types.Uint64:
				return a, nil
			case a.kind == kU && b.Kind() == types.Int && a.L <= 62:
				return a, nil
			}
			return aval{}, und("conversion %s of %s outside the table", tv.Type, a)
		}
		return aval{}, und("call %s outside the table", qn)
	}
	return aval{}, und("expression form %T outside the table", x)
}

// matchZigZag64 recognises (x << 1) ^ uint64(int64(x) >> 63) (either operand order).
func matchZigZag64(b *ast.BinaryExpr, info *types.Info) (string, bool) {
	try := func(l, r ast.Expr) (string, bool) {
		l, r = ast.Unparen(l), ast.Unparen(r)
		shl, ok := l.(*ast.BinaryExpr)
		if !ok || shl.Op != token.SHL || !isConstInt(info, shl.Y, 1) {
			return "", false
		}
		id, ok := ast.Unparen(shl.X).(*ast.Ident)
		if !ok || !isBasic(info.TypeOf(id), types.Uint64) {
			return "", false
		}
		conv, ok := r.(*ast.CallExpr)
		if !ok || len(conv.Args) != 1 || !isTypeConv(info, conv, types.Uint64) {
			return "", false
		}
		shr, ok := ast.Unparen(conv.Args[0]).(*ast.BinaryExpr)
		if !ok || shr.Op != token.SHR || !isConstInt(info, shr.Y, 63) {
			return "", false
		}
		c2, ok := ast.Unparen(shr.X).(*ast.CallExpr)
		if !ok || len(c2.Args) != 1 || !isTypeConv(info, c2, types.Int64) {
			return "", false
		}
		id2, ok := ast.Unparen(c2.Args[0]).(*ast.Ident)
		if !ok || id2.Name != id.Name || info.ObjectOf(id2) != info.ObjectOf(id) {
			return "", false
		}
		return id.Name, true
	}
	if s, ok := try(b.X, b.Y); ok {
		return s, true
	}
	return try(b.Y, b.X)
}

func isConstInt(info *types.Info, e ast.Expr, want int64) bool {
	tv, ok := info.Types[e]
	if !ok || tv.Value == nil {
		return false
	}
	v, ok := constant.Int64Val(constant.ToInt(tv.Value))
	return ok && v == want
}

func isBasic(t types.Type, k types.BasicKind) bool {
	if t == nil {
		return false
	}
	b, ok := t.Underlying().(*types.Basic)
	return ok && b.Kind() == k
}

func isTypeConv(info *types.Info, c *ast.CallExpr, k types.BasicKind) bool {
	tv, ok := info.Types[c.Fun]
	return ok && tv.IsType() && isBasic(tv.Type, k)
}

// evalFunc evaluates a one-parameter helper on the abstract domain: a straight-line body of single
// assignments to locals (or the named result) ending in a return.
func (e *varintEngine) evalFunc(fn string, arg aval) (aval, error) {
	fd := e.fns[fn]
	if fd == nil || fd.Body == nil {
		return aval{}, und("function %s not found", fn)
	}
	if len(fd.Type.Params.List) != 1 || len(fd.Type.Params.List[0].Names) != 1 {
		return aval{}, und("%s: expected one parameter", fn)
	}
	env := map[string]aval{fd.Type.Params.List[0].Names[0].Name: arg}
	named := ""
	if fd.Type.Results != nil && len(fd.Type.Results.List) == 1 && len(fd.Type.Results.List[0].Names) == 1 {
		named = fd.Type.Results.List[0].Names[0].Name
		env[named] = aval{kind: kInt, n: 0}
	}
	for _, st := range fd.Body.List {
		switch t := st.(type) {
		case *ast.AssignStmt:
			if len(t.Lhs) != 1 || len(t.Rhs) != 1 || (t.Tok != token.ASSIGN && t.Tok != token.DEFINE) {
				return aval{}, und("%s: assignment form outside the table", fn)
			}
			id, ok := t.Lhs[0].(*ast.Ident)
			if !ok {
				return aval{}, und("%s: assignment target form", fn)
			}
			v, err := e.evalExpr(t.Rhs[0], env)
			if err != nil {
				return aval{}, err
			}
			env[id.Name] = v
		case *ast.ReturnStmt:
			if len(t.Results) == 0 && named != "" {
				return env[named], nil
			}
			if len(t.Results) != 1 {
				return aval{}, und("%s: return form", fn)
			}
			return e.evalExpr(t.Results[0], env)
		default:
			return aval{}, und("%s: statement %T outside the table (straight-line assignments and a return)", fn, st)
		}
	}
	return aval{}, und("%s: body does not end in a return", fn)
}

func (e *varintEngine) callSov(a aval) (aval, error) {
	a.shift = 0
	return e.evalFunc("Sov", a)
}

// RunVarint decides C15's Sov / Soz / EncodeVarint clauses.
func RunVarint(c *core.Ctx) {
	const src = "S0"
	pkg := c.Pkg("runtime")
	if pkg == nil {
		c.Fail("L.anchor", "runtime", "package runtime not found", "", src)
		return
	}
	e := &varintEngine{c: c, pkg: pkg, fns: core.FuncDecls(pkg)}
	pos := func(fn string) string {
		if fd := e.fns[fn]; fd != nil {
			return c.PosStr(pkg.Fset, fd.Pos())
		}
		return ""
	}
	// ---- Sov: 65 classes
	for L := 0; L <= 64; L++ {
		con := fmt.Sprintf("runtime.Sov class bitlen=%d", L)
		got, err := e.callSov(aval{kind: kU, L: L})
		if err != nil {
			c.Undec("L.sov", con, err.Error(), pos("Sov"), src)
			continue
		}
		ok := got.kind == kInt
		want := -1
		for _, r := range uReps(L) {
			w := protowire.SizeVarint(r)
			if want == -1 {
				want = w
			} else if w != want {
				ok = false // class not uniform for the reference: cannot happen
			}
		}
		c.Check(ok && int(got.n) == want, "L.sov", con,
			fmt.Sprintf("abstract result %d = protowire.SizeVarint on class representatives", want),
			fmt.Sprintf("abstract result %s, protowire.SizeVarint gives %d for values of bit length %d (e.g. %#x)", got, want, L, uReps(L)[0]),
			pos("Sov"), src)
	}
	// ---- Soz: 128 signed classes
	for _, neg := range []bool{false, true} {
		for L := 0; L <= 63; L++ {
			con := fmt.Sprintf("runtime.Soz class neg=%v maglen=%d", neg, L)
			got, err2 := e.evalFunc("Soz", aval{kind: kS, neg: neg, L: L})
			if err2 != nil {
				c.Undec("L.soz", con, err2.Error(), pos("Soz"), src)
				continue
			}
			want := -1
			ok := got.kind == kInt
			var rep uint64
			for _, r := range sReps(neg, L) {
				w := protowire.SizeVarint(protowire.EncodeZigZag(int64(r)))
				if want == -1 {
					want, rep = w, r
				} else if w != want {
					ok = false
				}
			}
			c.Check(ok && int(got.n) == want, "L.soz", con,
				fmt.Sprintf("abstract result %d = SizeVarint(EncodeZigZag) on class representatives", want),
				fmt.Sprintf("abstract result %s, reference gives %d (e.g. x=%#x)", got, want, rep), pos("Soz"), src)
		}
	}
	// ---- EncodeVarint: abstract execution per class
	for L := 0; L <= 64; L++ {
		con := fmt.Sprintf("runtime.EncodeVarint class bitlen=%d", L)
		msg, err := e.execEncodeVarint(L)
		if err != nil {
			if _, ok := err.(undecided); ok {
				c.Undec("L.encvarint", con, err.Error(), pos("EncodeVarint"), src)
			} else {
				c.Fail("L.encvarint", con, err.Error(), pos("EncodeVarint"), src)
			}
			continue
		}
		c.Ok("L.encvarint", con, msg, pos("EncodeVarint"), src)
	}
}

// execEncodeVarint abstractly executes EncodeVarint for v of bit length L.
// It checks: stores hit exactly offsets [off-n, off) ascending, where
// n = protowire.SizeVarint; store k (0-based) has the continuation form of
// v>>(7k) for k<n-1 and the plain form for k=n-1; the result is off-n.
func (e *varintEngine) execEncodeVarint(L int) (string, error) {
	fd := e.fns["EncodeVarint"]
	if fd == nil || fd.Body == nil {
		return "", und("EncodeVarint not found")
	}
	info := e.pkg.TypesInfo
	var names []string
	for _, f := range fd.Type.Params.List {
		for _, n := range f.Names {
			names = append(names, n.Name)
		}
	}
	if len(names) != 3 {
		return "", und("EncodeVarint: expected 3 parameters")
	}
	buf, off, v := names[0], names[1], names[2]
	env := map[string]aval{v: {kind: kU, L: L}, off: {kind: kInt, n: 0}}
	type store struct {
		delta int64
		form  string // "cont" | "last"
		shift int
	}
	var stores []store
	var ret *aval
	steps := 0
	var exec func(list []ast.Stmt) error
	classifyByte := func(x ast.Expr) (string, int, error) {
		// uint8(v&0x7f | 0x80), uint8(v) | 0x80 (bit 7 is forced either way), or uint8(v)
		x = ast.Unparen(x)
		if b, ok := x.(*ast.BinaryExpr); ok && b.Op == token.OR && isConstInt(info, b.Y, 0x80) {
			if call, ok := ast.Unparen(b.X).(*ast.CallExpr); ok && len(call.Args) == 1 && isTypeConv(info, call, types.Uint8) {
				a := ast.Unparen(call.Args[0])
				if and, ok := a.(*ast.BinaryExpr); ok && and.Op == token.AND && isConstInt(info, and.Y, 0x7f) {
					a = ast.Unparen(and.X)
				}
				if id, ok := a.(*ast.Ident); ok && id.Name == v {
					return "cont", env[v].shift, nil
				}
			}
			return "", 0, und("stored byte expression is not a continuation byte of v")
		}
		call, ok := x.(*ast.CallExpr)
		if !ok || len(call.Args) != 1 || !(isTypeConv(info, call, types.Uint8)) {
			return "", 0, und("stored byte is not a uint8 conversion")
		}
		a := ast.Unparen(call.Args[0])
		if id, ok := a.(*ast.Ident); ok && id.Name == v {
			return "last", env[v].shift, nil
		}
		if b, ok := a.(*ast.BinaryExpr); ok && b.Op == token.OR && isConstInt(info, b.Y, 0x80) {
			if and, ok := ast.Unparen(b.X).(*ast.BinaryExpr); ok && and.Op == token.AND && isConstInt(info, and.Y, 0x7f) {
				if id, ok := ast.Unparen(and.X).(*ast.Ident); ok && id.Name == v {
					return "cont", env[v].shift, nil
				}
			}
		}
		return "", 0, und("stored byte expression is neither uint8(v&0x7f|0x80) nor uint8(v)")
	}
	evalCond := func(x ast.Expr) (bool, error) {
		b, ok := ast.Unparen(x).(*ast.BinaryExpr)
		if !ok {
			return false, und("loop condition form")
		}
		// a comparison of two exact integers (loop counters, offsets)
		if l, err := e.evalExpr(b.X, env); err == nil && l.kind == kInt {
			if r, err := e.evalExpr(b.Y, env); err == nil && r.kind == kInt {
				switch b.Op {
				case token.LSS:
					return l.n < r.n, nil
				case token.LEQ:
					return l.n <= r.n, nil
				case token.GTR:
					return l.n > r.n, nil
				case token.GEQ:
					return l.n >= r.n, nil
				case token.NEQ:
					return l.n != r.n, nil
				case token.EQL:
					return l.n == r.n, nil
				}
			}
		}
		id, ok := ast.Unparen(b.X).(*ast.Ident)
		if !ok || id.Name != v {
			return false, und("loop condition does not test v")
		}
		tv := info.Types[b.Y]
		if tv.Value == nil {
			return false, und("loop condition bound not constant")
		}
		k, _ := constant.Uint64Val(constant.ToInt(tv.Value))
		// exactness on the class: the bound must be a power of two
		if k == 0 || k&(k-1) != 0 {
			return false, und("loop bound %d is not a power of two (not exact on bit-length classes)", k)
		}
		kb := 0
		for t := k; t > 1; t >>= 1 {
			kb++
		} // k = 2^kb ; v >= 2^kb  <=> len(v) >= kb+1
		cur := env[v].L
		switch b.Op {
		case token.GEQ:
			return cur >= kb+1, nil
		case token.GTR: // v > 2^kb: not exact on classes
			return false, und("'>' against a power of two is not exact on bit-length classes")
		case token.LSS:
			return cur < kb+1, nil
		}
		return false, und("loop condition operator %s", b.Op)
	}
	exec = func(list []ast.Stmt) error {
		for _, s := range list {
			if ret != nil {
				return nil
			}
			steps++
			if steps > 400 {
				return und("abstract execution did not terminate in 400 steps")
			}
			switch st := s.(type) {
			case *ast.AssignStmt:
				if len(st.Lhs) != 1 || len(st.Rhs) != 1 {
					return und("multi-assignment")
				}
				if ix, ok := st.Lhs[0].(*ast.IndexExpr); ok {
					id, ok := ast.Unparen(ix.X).(*ast.Ident)
					if !ok || id.Name != buf || st.Tok != token.ASSIGN {
						return und("store to something other than the buffer parameter")
					}
					idx, err := e.evalExpr(ix.Index, env)
					if err != nil {
						return err
					}
					if idx.kind != kInt {
						return und("store index not an offset expression")
					}
					form, sh, err := classifyByte(st.Rhs[0])
					if err != nil {
						return err
					}
					stores = append(stores, store{idx.n, form, sh})
					continue
				}
				id, ok := st.Lhs[0].(*ast.Ident)
				if !ok {
					return und("assignment target form")
				}
				rhs, err := e.evalExpr(st.Rhs[0], env)
				if err != nil {
					return err
				}
				switch st.Tok {
				case token.ASSIGN, token.DEFINE:
					env[id.Name] = rhs
				case token.SUB_ASSIGN:
					cur := env[id.Name]
					if cur.kind != kInt || rhs.kind != kInt {
						return und("-= on non-integers")
					}
					env[id.Name] = aval{kind: kInt, n: cur.n - rhs.n}
				case token.ADD_ASSIGN:
					cur := env[id.Name]
					if cur.kind != kInt || rhs.kind != kInt {
						return und("+= on non-integers")
					}
					env[id.Name] = aval{kind: kInt, n: cur.n + rhs.n}
				case token.SHR_ASSIGN:
					cur := env[id.Name]
					if cur.kind != kU || rhs.kind != kInt {
						return und(">>= form")
					}
					nl := cur.L - int(rhs.n)
					if nl < 0 {
						nl = 0
					}
					env[id.Name] = aval{kind: kU, L: nl, shift: cur.shift + int(rhs.n)}
				default:
					return und("assignment operator %s", st.Tok)
				}
			case *ast.IncDecStmt:
				id, ok := st.X.(*ast.Ident)
				if !ok || env[id.Name].kind != kInt {
					return und("inc/dec target")
				}
				d := int64(1)
				if st.Tok == token.DEC {
					d = -1
				}
				env[id.Name] = aval{kind: kInt, n: env[id.Name].n + d}
			case *ast.ForStmt:
				if st.Cond == nil {
					return und("for-loop form")
				}
				if st.Init != nil {
					if err := exec([]ast.Stmt{st.Init}); err != nil {
						return err
					}
				}
				for {
					ok, err := evalCond(st.Cond)
					if err != nil {
						return err
					}
					if !ok {
						break
					}
					if err := exec(st.Body.List); err != nil {
						return err
					}
					if ret != nil {
						return nil
					}
					if st.Post != nil {
						if err := exec([]ast.Stmt{st.Post}); err != nil {
							return err
						}
					}
					steps++
					if steps > 400 {
						return und("loop did not terminate")
					}
				}
			case *ast.ReturnStmt:
				if len(st.Results) != 1 {
					return und("return form")
				}
				r, err := e.evalExpr(st.Results[0], env)
				if err != nil {
					return err
				}
				ret = &r
			default:
				return und("statement %T outside the table", s)
			}
		}
		return nil
	}
	if err := exec(fd.Body.List); err != nil {
		return "", err
	}
	if ret == nil || ret.kind != kInt {
		return "", und("no integer result")
	}
	n := int64(protowire.SizeVarint(uReps(L)[0]))
	if int64(len(stores)) != n {
		return "", fmt.Errorf("writes %d bytes, minimal varint of a %d-bit value has %d", len(stores), L, n)
	}
	var desc []string
	for k, s := range stores {
		if s.delta != -n+int64(k) {
			return "", fmt.Errorf("store %d goes to offset%+d, expected offset%+d (bytes must fill [offset-%d, offset))", k, s.delta, -n+int64(k), n)
		}
		wantForm := "cont"
		if int64(k) == n-1 {
			wantForm = "last"
		}
		if s.form != wantForm {
			return "", fmt.Errorf("store %d has form %s, expected %s", k, s.form, wantForm)
		}
		if s.shift != 7*k {
			return "", fmt.Errorf("store %d holds bits from shift %d, expected %d", k, s.shift, 7*k)
		}
		desc = append(desc, fmt.Sprintf("[off%+d]=%s(v>>%d)", s.delta, s.form, s.shift))
	}
	if ret.n != -n {
		return "", fmt.Errorf("returns offset%+d, expected offset-%d", ret.n, n)
	}
	return strings.Join(desc, " ") + fmt.Sprintf(" ret=off-%d", n), nil
}
