package lib

import (
	"fmt"
	"go/constant"
	"go/token"
	"go/types"
	"strings"

	"golang.org/x/tools/go/ssa"

	"verif/checker/internal/core"
)

// helpers on SSA -------------------------------------------------------------

func ssaFunc(p *ssa.Package, name string) *ssa.Function {
	if p == nil {
		return nil
	}
	return p.Func(name)
}

func calleeName(c *ssa.CallCommon) string {
	if c.IsInvoke() {
		recv := c.Value.Type()
		return "invoke " + types.TypeString(recv, nil) + "." + c.Method.Name()
	}
	if f := c.StaticCallee(); f != nil {
		return f.String()
	}
	if b, ok := c.Value.(*ssa.Builtin); ok {
		return "builtin " + b.Name()
	}
	return "dynamic"
}

func allInstrs(f *ssa.Function, visit func(b *ssa.BasicBlock, i ssa.Instruction)) {
	for _, b := range f.Blocks {
		for _, in := range b.Instrs {
			visit(b, in)
		}
	}
}

// reachable reports whether block `to` is reachable from block `from` (from itself counts).
func reachable(from, to *ssa.BasicBlock) bool {
	seen := map[*ssa.BasicBlock]bool{}
	var dfs func(b *ssa.BasicBlock) bool
	dfs = func(b *ssa.BasicBlock) bool {
		if b == to {
			return true
		}
		if seen[b] {
			return false
		}
		seen[b] = true
		for _, s := range b.Succs {
			if dfs(s) {
				return true
			}
		}
		return false
	}
	return dfs(from)
}

// edgeDom reports whether every path to target passes the idx-th out-edge of
// the If (the successor has that edge as its only predecessor and dominates target).
func edgeDom(iff *ssa.If, idx int, target *ssa.BasicBlock) bool {
	succ := iff.Block().Succs[idx]
	return len(succ.Preds) == 1 && succ.Dominates(target)
}

func isNilConst(v ssa.Value) bool {
	c, ok := v.(*ssa.Const)
	return ok && c.Value == nil
}

func constString(v ssa.Value) (string, bool) {
	c, ok := v.(*ssa.Const)
	if !ok || c.Value == nil || c.Value.Kind() != constant.String {
		return "", false
	}
	return constant.StringVal(c.Value), true
}

// stripConv removes ChangeType/Convert/MakeInterface wrappers.
func stripConv(v ssa.Value) ssa.Value {
	for {
		switch t := v.(type) {
		case *ssa.ChangeType:
			v = t.X
		case *ssa.Convert:
			v = t.X
		case *ssa.MakeInterface:
			v = t.X
		case *ssa.ChangeInterface:
			v = t.X
		default:
			return v
		}
	}
}

// invokeChain matches v = (((root).m1()).m2())...; returns root when the method names match (innermost first).
func invokeChain(v ssa.Value, methods ...string) (ssa.Value, bool) {
	for i := len(methods) - 1; i >= 0; i-- {
		call, ok := stripConv(v).(*ssa.Call)
		if !ok {
			return nil, false
		}
		if call.Call.IsInvoke() {
			if call.Call.Method.Name() != methods[i] {
				return nil, false
			}
			v = call.Call.Value
		} else {
			f := call.Call.StaticCallee()
			if f == nil || f.Name() != methods[i] || len(call.Call.Args) < 1 {
				return nil, false
			}
			v = call.Call.Args[0]
		}
	}
	return stripConv(v), true
}

// RunAnyutil decides C16's clauses.
func RunAnyutil(c *core.Ctx) {
	const src = "S0"
	c.BuildSSA()
	sp := c.SSAPkg("anyutil")
	if sp == nil {
		c.Fail("ANY.anchor", "anyutil", "package not found", "", src)
		return
	}
	fset := c.Prog.Fset
	pos := func(p token.Pos) string { return c.PosStr(fset, p) }
	mf := ssaFunc(sp, "MarshalFrom")
	up := ssaFunc(sp, "Unpack")
	nw := ssaFunc(sp, "New")
	for n, f := range map[string]*ssa.Function{"MarshalFrom": mf, "Unpack": up, "New": nw} {
		if f == nil {
			c.Fail("ANY.anchor", "anyutil."+n, "function not found", "", src)
			return
		}
	}

	// ---------------- MarshalFrom
	dst, srcP, opts := mf.Params[0], mf.Params[1], mf.Params[2]
	var stores []*ssa.Store
	var dstEscapes []ssa.Instruction
	allInstrs(mf, func(b *ssa.BasicBlock, in ssa.Instruction) {
		switch t := in.(type) {
		case *ssa.Store:
			if fa, ok := t.Addr.(*ssa.FieldAddr); ok && fa.X == dst {
				stores = append(stores, t)
			}
		case ssa.CallInstruction:
			for _, a := range t.Common().Args {
				if a == dst {
					dstEscapes = append(dstEscapes, in)
				}
			}
			if t.Common().IsInvoke() && t.Common().Value == dst {
				dstEscapes = append(dstEscapes, in)
			}
		}
	})
	c.Check(len(dstEscapes) == 0, "ANY.atomic", "anyutil.MarshalFrom dst-escape",
		"dst is written only by direct field stores in this function",
		"dst is handed to another function; its writes cannot be ordered against the error return", pos(mf.Pos()), src)
	// every Return with a non-nil error must not be reachable from a store to dst
	nErrRet := 0
	allInstrs(mf, func(b *ssa.BasicBlock, in ssa.Instruction) {
		r, ok := in.(*ssa.Return)
		if !ok || len(r.Results) != 1 {
			return
		}
		if isNilConst(r.Results[0]) {
			return
		}
		nErrRet++
		con := fmt.Sprintf("anyutil.MarshalFrom error-return#%d", nErrRet)
		bad := ""
		for _, s := range stores {
			if reachable(s.Block(), b) {
				bad = fmt.Sprintf("store to dst.%s at %s can be followed by this error return", fieldName(s.Addr.(*ssa.FieldAddr)), pos(s.Pos()))
			}
		}
		c.Check(bad == "", "ANY.atomic", con, "no store to *dst on any path to this error return", bad, pos(r.Pos()), src)
	})
	c.Check(nErrRet >= 2, "ANY.atomic", "anyutil.MarshalFrom error-returns", fmt.Sprintf("%d error returns analysed", nErrRet), "expected at least the nil-source and the marshal-error returns", pos(mf.Pos()), src)

	// TypeUrl and Value stores
	var sawURL, sawVal bool
	for _, s := range stores {
		fn := fieldName(s.Addr.(*ssa.FieldAddr))
		switch fn {
		case "TypeUrl":
			sawURL = true
			ok, why := isSlashFullName(s.Val, srcP)
			c.Check(ok, "ANY.url", "anyutil.MarshalFrom store dst.TypeUrl", "TypeUrl = \"/\" + string(src.ProtoReflect().Descriptor().FullName())", "TypeUrl is not \"/\" + full name of src: "+why, pos(s.Pos()), src)
		case "Value":
			sawVal = true
			ok := false
			if ex, isEx := s.Val.(*ssa.Extract); isEx && ex.Index == 0 {
				if call, isCall := ex.Tuple.(*ssa.Call); isCall {
					if f := call.Call.StaticCallee(); f != nil && f.String() == "(google.golang.org/protobuf/proto.MarshalOptions).Marshal" &&
						len(call.Call.Args) == 2 && loadOf(call.Call.Args[0], opts) && call.Call.Args[1] == srcP {
						ok = true
					}
				}
			}
			c.Check(ok, "ANY.value", "anyutil.MarshalFrom store dst.Value", "Value = opts.Marshal(src) with the caller's options", "Value is not the result of opts.Marshal(src) with the caller's options", pos(s.Pos()), src)
		default:
			c.Fail("ANY.atomic", "anyutil.MarshalFrom store dst."+fn, "unexpected store to dst field "+fn, pos(s.Pos()), src)
		}
	}
	c.Check(sawURL && sawVal, "ANY.url", "anyutil.MarshalFrom stores", "both TypeUrl and Value are stored", "TypeUrl or Value store missing", pos(mf.Pos()), src)
	// … on every path that reports success: a success return that some path reaches without the TypeUrl store or without
	// the Value store leaves part of a re-used destination as it was (a new type URL over the previous payload)
	{
		nOK := 0
		var bad []string
		allInstrs(mf, func(b *ssa.BasicBlock, in ssa.Instruction) {
			r, ok := in.(*ssa.Return)
			if !ok || len(r.Results) != 1 || !isNilConst(r.Results[0]) {
				return
			}
			nOK++
			for _, fld := range []string{"TypeUrl", "Value"} {
				dom := false
				for _, s := range stores {
					if fieldName(s.Addr.(*ssa.FieldAddr)) == fld && (s.Block() == b || s.Block().Dominates(b)) {
						dom = true
					}
				}
				if !dom {
					bad = append(bad, "dst."+fld+" is not stored on every path to the success return at "+pos(r.Pos()))
				}
			}
		})
		c.Check(len(bad) == 0 && nOK > 0, "ANY.value", "anyutil.MarshalFrom success paths", "both fields are stored on every path to a nil-error return",
			strings.Join(bad, "; "), pos(mf.Pos()), src)
	}

	// no host prefix constants in the package
	for _, m := range sp.Members {
		f, ok := m.(*ssa.Function)
		if !ok {
			continue
		}
		fns := append([]*ssa.Function{f}, f.AnonFuncs...)
		for _, fn := range fns {
			allInstrs(fn, func(b *ssa.BasicBlock, in ssa.Instruction) {
				for _, op := range in.Operands(nil) {
					if s, ok := constString(*op); ok && (strings.Contains(s, "googleapis") || strings.Contains(s, "://")) {
						c.Fail("ANY.url", "anyutil."+fn.Name()+" host-prefix constant", fmt.Sprintf("string constant %q looks like a type-URL host prefix", s), pos(in.Pos()), src)
					}
				}
			})
		}
	}
	c.Ok("ANY.url", "anyutil host-prefix scan", "no host-like string constants", "", src)

	// packing and unpacking leave the process-wide registries alone: what an Any resolves to depends only on the
	// resolvers handed in (or the global ones as they are), never on earlier calls
	nReg := 0
	for _, m := range sp.Members {
		f, ok := m.(*ssa.Function)
		if !ok {
			continue
		}
		for _, fn := range append([]*ssa.Function{f}, f.AnonFuncs...) {
			allInstrs(fn, func(b *ssa.BasicBlock, in ssa.Instruction) {
				switch t := in.(type) {
				case ssa.CallInstruction:
					cn := calleeName(t.Common())
					if t.Common().IsInvoke() {
						cn = t.Common().Method.Name()
					}
					if i := strings.LastIndex(cn, "."); i >= 0 {
						cn = cn[i+1:]
					}
					cn = strings.TrimSuffix(cn, ")")
					if strings.HasPrefix(cn, "Register") {
						nReg++
						c.Fail("ANY.global", "anyutil."+fn.Name()+" calls "+cn, "a registry is modified while packing/unpacking: later calls resolve type URLs differently from what their resolvers say", pos(in.Pos()), src)
					}
				case *ssa.Store:
					if g, ok := t.Addr.(*ssa.Global); ok && g.Pkg != sp {
						nReg++
						c.Fail("ANY.global", "anyutil."+fn.Name()+" stores to "+g.String(), "a variable of another package is assigned", pos(in.Pos()), src)
					}
				}
			})
		}
	}
	if nReg == 0 {
		c.Ok("ANY.global", "anyutil registry scan", "no Register* call and no store to another package's variable", "", src)
	}

	// ---------------- New: result is dst only when MarshalFrom returned nil
	{
		okNew := false
		allInstrs(nw, func(b *ssa.BasicBlock, in ssa.Instruction) {
			if call, ok := in.(*ssa.Call); ok {
				if f := call.Call.StaticCallee(); f == mf {
					okNew = true
				}
			}
		})
		c.Check(okNew, "ANY.value", "anyutil.New delegates", "New calls MarshalFrom", "New does not call MarshalFrom", pos(nw.Pos()), src)
		// New returns the freshly allocated Any it packed into, and (nil, err) on failure
		var dstAlloc ssa.Value
		var mfErr ssa.Value
		allInstrs(nw, func(b *ssa.BasicBlock, in ssa.Instruction) {
			if call, ok := in.(*ssa.Call); ok && call.Call.StaticCallee() == mf && len(call.Call.Args) == 3 {
				if _, isAlloc := call.Call.Args[0].(*ssa.Alloc); isAlloc && call.Call.Args[1] == ssa.Value(nw.Params[0]) {
					dstAlloc = call.Call.Args[0]
					mfErr = call
				}
			}
		})
		okRets := dstAlloc != nil
		nR := 0
		pair := func(r0, r1 ssa.Value) {
			nR++
			if isNilConst(r1) {
				if r0 != dstAlloc {
					okRets = false
				}
			} else if !isNilConst(r0) || r1 != mfErr {
				okRets = false
			}
		}
		allInstrs(nw, func(b *ssa.BasicBlock, in ssa.Instruction) {
			r, ok := in.(*ssa.Return)
			if !ok || len(r.Results) != 2 {
				return
			}
			// one return fed by several paths (the body written through a helper that is inlined, or result variables):
			// the pairs that arrive together over each edge
			p0, isP0 := r.Results[0].(*ssa.Phi)
			p1, isP1 := r.Results[1].(*ssa.Phi)
			if isP0 && isP1 && p0.Block() == p1.Block() && len(p0.Edges) == len(p1.Edges) {
				for i := range p0.Edges {
					pair(p0.Edges[i], p1.Edges[i])
				}
				return
			}
			pair(r.Results[0], r.Results[1])
		})
		c.Check(okRets && nR == 2, "ANY.value", "anyutil.New results", "returns the freshly allocated Any packed from src, or (nil, the marshal error)",
			"New does not return (the fresh Any it packed, nil) on success and (nil, err) on failure", pos(nw.Pos()), src)
	}

	// ---------------- nopanic: Unpack / MarshalFrom / New
	for _, fn := range []*ssa.Function{up, mf, nw} {
		n := 0
		allInstrs(fn, func(b *ssa.BasicBlock, in ssa.Instruction) {
			switch t := in.(type) {
			case *ssa.TypeAssert:
				n++
				c.Check(t.CommaOk, "ANY.nopanic", fmt.Sprintf("anyutil.%s type-assert to %s", fn.Name(), types.TypeString(t.AssertedType, nil)),
					"comma-ok form", "single-result type assertion panics when the resolver returns a descriptor of another kind (e.g. an enum)", pos(t.Pos()), src)
			case *ssa.Panic:
				n++
				c.Fail("ANY.nopanic", fmt.Sprintf("anyutil.%s explicit panic", fn.Name()), "explicit panic on an input-dependent path", pos(t.Pos()), src)
			case *ssa.Index, *ssa.IndexAddr:
				n++
				if ia, ok := in.(*ssa.IndexAddr); ok && isVarargCell(ia) {
					return // compiler-generated variadic argument array, constant in-range index
				}
				c.Fail("ANY.nopanic", fmt.Sprintf("anyutil.%s index expression", fn.Name()), "index expression may panic", pos(in.Pos()), src)
			case *ssa.Slice:
				n++
				if al, ok := t.X.(*ssa.Alloc); ok && t.Low == nil && t.High == nil && t.Max == nil {
					if _, isArr := al.Type().Underlying().(*types.Pointer).Elem().Underlying().(*types.Array); isArr {
						return // full slice of a local array (variadic argument packing)
					}
				}
				c.Fail("ANY.nopanic", fmt.Sprintf("anyutil.%s slice expression", fn.Name()), "slice expression may panic", pos(in.Pos()), src)
			}
		})
		c.Ok("ANY.nopanic", fmt.Sprintf("anyutil.%s scan", fn.Name()), fmt.Sprintf("%d potentially panicking instructions inspected", n), pos(fn.Pos()), src)
	}

	// ---------------- Unpack structure
	runUnpack(c, up)

	// ---------------- any/alias.go
	if ap := c.SSAPkg("any"); ap != nil {
		want := map[string]*ssa.Function{"New": nw, "MarshalFrom": mf, "Unpack": up}
		initf := ap.Func("init")
		got := map[string]*ssa.Function{}
		if initf != nil {
			allInstrs(initf, func(b *ssa.BasicBlock, in ssa.Instruction) {
				if st, ok := in.(*ssa.Store); ok {
					if g, ok := st.Addr.(*ssa.Global); ok {
						if f, ok := st.Val.(*ssa.Function); ok {
							got[g.Name()] = f
						}
					}
				}
			})
		}
		for n, f := range want {
			c.Check(got[n] == f, "ANY.alias", "any."+n, "bound to anyutil."+n, fmt.Sprintf("any.%s is not bound to anyutil.%s", n, n), "", src)
		}
	} else {
		c.Fail("ANY.anchor", "any", "package any not found", "", src)
	}
}

// isVarargCell: IndexAddr into a local array Alloc with a constant in-range index.
func isVarargCell(ia *ssa.IndexAddr) bool {
	al, ok := ia.X.(*ssa.Alloc)
	if !ok {
		return false
	}
	arr, ok := al.Type().Underlying().(*types.Pointer).Elem().Underlying().(*types.Array)
	if !ok {
		return false
	}
	k, ok := ia.Index.(*ssa.Const)
	if !ok || k.Value == nil {
		return false
	}
	v, ok := constant.Int64Val(k.Value)
	return ok && v >= 0 && v < arr.Len()
}

func fieldName(fa *ssa.FieldAddr) string {
	st := fa.X.Type().Underlying().(*types.Pointer).Elem().Underlying().(*types.Struct)
	return st.Field(fa.Field).Name()
}

// loadOf reports whether v is (a load of the spilled copy of) parameter p, or p itself.
func loadOf(v ssa.Value, p *ssa.Parameter) bool {
	if v == p {
		return true
	}
	if u, ok := v.(*ssa.UnOp); ok && u.Op == token.MUL {
		if a, ok := u.X.(*ssa.Alloc); ok {
			// the alloc must be stored exactly once, with p
			n, okp := 0, false
			for _, r := range *a.Referrers() {
				if st, ok := r.(*ssa.Store); ok && st.Addr == a {
					n++
					if st.Val == p {
						okp = true
					}
				}
			}
			return n == 1 && okp
		}
	}
	return false
}

// isSlashFullName: v == "/" + string(src.ProtoReflect().Descriptor().FullName())  or Sprintf("/%s", thatName)
func isSlashFullName(v ssa.Value, srcP *ssa.Parameter) (bool, string) {
	isName := func(x ssa.Value) bool {
		root, ok := invokeChain(x, "ProtoReflect", "Descriptor", "FullName")
		return ok && root == srcP
	}
	if b, ok := v.(*ssa.BinOp); ok && b.Op == token.ADD {
		s, isC := constString(b.X)
		if !isC || s != "/" {
			return false, fmt.Sprintf("left operand is not the constant \"/\" (got %s)", b.X)
		}
		if !isName(b.Y) {
			return false, "right operand is not src.ProtoReflect().Descriptor().FullName()"
		}
		return true, ""
	}
	if call, ok := v.(*ssa.Call); ok {
		if f := call.Call.StaticCallee(); f != nil && f.String() == "fmt.Sprintf" && len(call.Call.Args) == 2 {
			if s, ok := constString(call.Call.Args[0]); ok && (s == "/%s" || s == "/%v") {
				// variadic slice: find the single element stored
				if sl, ok := call.Call.Args[1].(*ssa.Slice); ok {
					if al, ok := sl.X.(*ssa.Alloc); ok {
						var vals []ssa.Value
						for _, r := range *al.Referrers() {
							if ia, ok := r.(*ssa.IndexAddr); ok {
								for _, r2 := range *ia.Referrers() {
									if st, ok := r2.(*ssa.Store); ok {
										vals = append(vals, st.Val)
									}
								}
							}
						}
						if len(vals) == 1 && isName(vals[0]) {
							return true, ""
						}
					}
				}
			}
		}
		return false, "call form not recognised"
	}
	return false, fmt.Sprintf("expression form %T not recognised", v)
}

// nonNilIface: v is a non-nil interface value: a MakeInterface, or a phi whose parameter edges come only from
// blocks reached through the non-nil outcome of a nil test of that parameter.
func nonNilIface(v ssa.Value, depth int) (bool, string) {
	if depth > 6 {
		return false, "value chain too long"
	}
	switch t := v.(type) {
	case *ssa.MakeInterface:
		return true, ""
	case *ssa.ChangeInterface:
		return nonNilIface(t.X, depth+1)
	case *ssa.Phi:
		for i, e := range t.Edges {
			if p, ok := e.(*ssa.Parameter); ok {
				pred := t.Block().Preds[i]
				if !paramNonNilOnEdge(p, pred, t.Block()) {
					return false, "parameter " + p.Name() + " reaches the call without a nil test on some path"
				}
				continue
			}
			if ok, why := nonNilIface(e, depth+1); !ok {
				return false, why
			}
		}
		return true, ""
	case *ssa.Parameter:
		return false, "parameter " + t.Name() + " is used without any nil test"
	}
	return false, "value " + v.String() + " not recognised as non-nil"
}

// paramNonNilOnEdge: the edge pred->succ is only taken when p != nil: pred (or a dominator of pred) is the
// outcome block of `p == nil` (false edge) / `p != nil` (true edge), or pred itself ends in that test and succ is that outcome.
func paramNonNilOnEdge(p *ssa.Parameter, pred, succ *ssa.BasicBlock) bool {
	for _, r := range *p.Referrers() {
		bo, ok := r.(*ssa.BinOp)
		if !ok || !(isNilConst(bo.X) || isNilConst(bo.Y)) {
			continue
		}
		for _, r2 := range *bo.Referrers() {
			iff, ok := r2.(*ssa.If)
			if !ok {
				continue
			}
			idx := 0 // outcome index where p != nil
			if bo.Op == token.EQL {
				idx = 1
			} else if bo.Op != token.NEQ {
				continue
			}
			out := iff.Block().Succs[idx]
			if iff.Block() == pred && out == succ {
				return true
			}
			if len(out.Preds) == 1 && out.Dominates(pred) {
				return true
			}
		}
	}
	return false
}

func runUnpack(c *core.Ctx, up *ssa.Function) {
	const src = "S0"
	fset := c.Prog.Fset
	pos := func(p token.Pos) string { return c.PosStr(fset, p) }
	anyP := up.Params[0]
	// collect calls
	var find, findDesc, newDyn, unmarshalTo *ssa.Call
	var trim *ssa.Call
	allInstrs(up, func(b *ssa.BasicBlock, in ssa.Instruction) {
		call, ok := in.(*ssa.Call)
		if !ok {
			return
		}
		n := calleeName(&call.Call)
		switch {
		case strings.HasSuffix(n, ".FindMessageByURL"):
			find = call
		case strings.HasSuffix(n, ".FindDescriptorByName"):
			findDesc = call
		case n == "google.golang.org/protobuf/types/dynamicpb.NewMessageType":
			newDyn = call
		case strings.HasSuffix(n, ").UnmarshalTo"):
			unmarshalTo = call
		case n == "strings.TrimPrefix":
			trim = call
		}
	})
	if find == nil || findDesc == nil || newDyn == nil || unmarshalTo == nil {
		c.Undec("ANY.fallback", "anyutil.Unpack anchors", "expected calls FindMessageByURL, FindDescriptorByName, dynamicpb.NewMessageType, UnmarshalTo not all found", pos(up.Pos()), src)
		return
	}
	isAnyURL := func(v ssa.Value) bool {
		u, ok := v.(*ssa.UnOp)
		if !ok || u.Op != token.MUL {
			return false
		}
		fa, ok := u.X.(*ssa.FieldAddr)
		return ok && fa.X == anyP && fieldName(fa) == "TypeUrl"
	}
	// 0. the resolvers are non-nil where they are used: a nil parameter is replaced by the global default on every path
	nonNilRecv := func(call *ssa.Call, what string) {
		recv := call.Call.Value
		okR, why := nonNilIface(recv, 0)
		c.Check(okR, "ANY.nopanic", "anyutil.Unpack "+what+" receiver", "receiver is the parameter only on paths where it was tested non-nil, otherwise the global default", "receiver of "+what+" may be a nil interface: "+why, pos(call.Pos()), src)
	}
	if find.Call.IsInvoke() {
		nonNilRecv(find, "FindMessageByURL")
	}
	if findDesc.Call.IsInvoke() {
		nonNilRecv(findDesc, "FindDescriptorByName")
	}
	// 1. type resolver consulted first with any.TypeUrl
	c.Check(len(find.Call.Args) == 1 && isAnyURL(find.Call.Args[0]), "ANY.fallback", "anyutil.Unpack FindMessageByURL arg",
		"type resolver is asked for any.TypeUrl", "FindMessageByURL is not called with any.TypeUrl", pos(find.Pos()), src)
	c.Check(find.Block().Dominates(findDesc.Block()), "ANY.fallback", "anyutil.Unpack resolver order",
		"type resolver lookup dominates the file-resolver fallback", "file resolver may be consulted before the type resolver", pos(findDesc.Pos()), src)
	// 2. fallback only on NotFound: findDesc's block dominated by true-branch of err == NotFound
	var findErr ssa.Value
	for _, r := range *find.Referrers() {
		if ex, ok := r.(*ssa.Extract); ok && ex.Index == 1 {
			findErr = ex
		}
	}
	guardOK := false
	var nfIf *ssa.If
	if findErr != nil {
		for _, r := range *findErr.Referrers() {
			b, ok := r.(*ssa.BinOp)
			if !ok || b.Op != token.EQL {
				continue
			}
			other := b.Y
			if other == findErr {
				other = b.X
			}
			if u, ok := other.(*ssa.UnOp); ok {
				if g, ok := u.X.(*ssa.Global); ok && g.String() == "google.golang.org/protobuf/reflect/protoregistry.NotFound" {
					for _, r2 := range *b.Referrers() {
						if iff, ok := r2.(*ssa.If); ok {
							nfIf = iff
							if edgeDom(iff, 0, findDesc.Block()) {
								guardOK = true
							}
						}
					}
				}
			}
		}
	}
	c.Check(guardOK, "ANY.fallback", "anyutil.Unpack fallback guard", "file-resolver fallback is entered only when the type resolver answered protoregistry.NotFound",
		"fallback is not guarded by err == protoregistry.NotFound", pos(findDesc.Pos()), src)
	// 3. every other resolver error is returned: on the false branch of NotFound test, err != nil leads to a return of that err
	otherErrOK := false
	// semantic form: assume the type resolver's error is neither nil nor NotFound and follow the (then unique) path
	// from the call: every test of that error against nil / NotFound is decided, and the path must end in
	// `return nil, <that error>` before anything else is tested
	if findErr != nil {
		isNotFound := func(v ssa.Value) bool {
			if u, ok := v.(*ssa.UnOp); ok {
				if g, ok := u.X.(*ssa.Global); ok && g.String() == "google.golang.org/protobuf/reflect/protoregistry.NotFound" {
					return true
				}
			}
			return false
		}
		b, pred := find.Block(), (*ssa.BasicBlock)(nil)
		_ = pred
		for steps := 0; steps < 30 && b != nil; steps++ {
			switch last := b.Instrs[len(b.Instrs)-1].(type) {
			case *ssa.Return:
				otherErrOK = len(last.Results) == 2 && last.Results[1] == findErr && isNilConst(last.Results[0])
				b = nil
			case *ssa.Jump:
				b = b.Succs[0]
			case *ssa.If:
				bo, ok := last.Cond.(*ssa.BinOp)
				if !ok || (bo.Op != token.EQL && bo.Op != token.NEQ) {
					b = nil
					break
				}
				other := bo.Y
				if bo.X != findErr {
					if bo.Y != findErr {
						b = nil
						break
					}
					other = bo.X
				}
				if !isNilConst(other) && !isNotFound(other) {
					b = nil
					break
				}
				// err is neither nil nor NotFound: == is false, != is true
				if bo.Op == token.NEQ {
					b = b.Succs[0]
				} else {
					b = b.Succs[1]
				}
			default:
				b = nil
			}
		}
	}
	if !otherErrOK && nfIf != nil && findErr != nil {
		for _, r := range *findErr.Referrers() {
			b, ok := r.(*ssa.BinOp)
			if !ok || b.Op != token.NEQ || !(isNilConst(b.X) || isNilConst(b.Y)) {
				continue
			}
			if !edgeDom(nfIf, 1, b.Block()) {
				continue
			}
			for _, r2 := range *b.Referrers() {
				if iff, ok := r2.(*ssa.If); ok {
					tb := iff.Block().Succs[0]
					if ret, ok := tb.Instrs[len(tb.Instrs)-1].(*ssa.Return); ok && len(ret.Results) == 2 && ret.Results[1] == findErr && isNilConst(ret.Results[0]) {
						otherErrOK = true
					}
				}
			}
		}
	}
	c.Check(otherErrOK, "ANY.fallback", "anyutil.Unpack other resolver errors", "any resolver error other than NotFound is returned unchanged with a nil message",
		"a resolver error other than NotFound is not returned", pos(find.Pos()), src)
	// 4. fallback name = TrimPrefix(any.TypeUrl, "/")
	nameOK := false
	if trim != nil && len(trim.Call.Args) == 2 && isAnyURL(trim.Call.Args[0]) {
		if s, ok := constString(trim.Call.Args[1]); ok && s == "/" {
			if len(findDesc.Call.Args) == 1 && stripConv(findDesc.Call.Args[0]) == ssa.Value(trim) {
				nameOK = true
			}
		}
	}
	c.Check(nameOK, "ANY.fallback", "anyutil.Unpack fallback name", "descriptor looked up under TrimPrefix(any.TypeUrl, \"/\")", "fallback does not look up TrimPrefix(any.TypeUrl, \"/\")", pos(findDesc.Pos()), src)
	// 5. FindDescriptorByName error is checked before the descriptor is used
	errChecked := func(call *ssa.Call, useBlock *ssa.BasicBlock, what string) {
		var errV ssa.Value
		for _, r := range *call.Referrers() {
			if ex, ok := r.(*ssa.Extract); ok && ex.Type().String() == "error" {
				errV = ex
			}
		}
		if call.Type().String() == "error" {
			errV = call
		}
		ok := false
		if errV != nil {
			for _, r := range *errV.Referrers() {
				b, isB := r.(*ssa.BinOp)
				if !isB || b.Op != token.NEQ || !(isNilConst(b.X) || isNilConst(b.Y)) {
					continue
				}
				for _, r2 := range *b.Referrers() {
					if iff, isIf := r2.(*ssa.If); isIf {
						tb := iff.Block().Succs[0]
						_, rets := tb.Instrs[len(tb.Instrs)-1].(*ssa.Return)
						// directly, or along the only feasible path (through result variables of an inlined helper)
						if !rets {
							rets = leadsToErrorReturn(tb, iff.Block(), map[ssa.Value]bool{errV: true}, useBlock)
						}
						if rets && (useBlock == nil || edgeDom(iff, 1, useBlock)) {
							ok = true
						}
					}
				}
			}
		}
		c.Check(ok, "ANY.errors", "anyutil.Unpack "+what, "error result is tested and returned before the value is used", "error result is not tested (and returned) before the value is used", pos(call.Pos()), src)
	}
	errChecked(findDesc, newDyn.Block(), "FindDescriptorByName error")
	// 6. dynamic type built from the found descriptor (through a comma-ok assertion)
	dynOK := false
	if len(newDyn.Call.Args) == 1 {
		v := newDyn.Call.Args[0]
		if ex, ok := v.(*ssa.Extract); ok && ex.Index == 0 {
			v = ex.Tuple
		}
		if ta, ok := v.(*ssa.TypeAssert); ok {
			if ex, ok := ta.X.(*ssa.Extract); ok && ex.Tuple == ssa.Value(findDesc) && ex.Index == 0 {
				dynOK = true
				if ta.CommaOk {
					// the ok flag must be tested and the failure returned as an error before NewMessageType
					tested := false
					for _, r := range *ta.Referrers() {
						if ex2, ok := r.(*ssa.Extract); ok && ex2.Index == 1 {
							for _, r2 := range *ex2.Referrers() {
								if iff, ok := r2.(*ssa.If); ok && edgeDom(iff, 0, newDyn.Block()) {
									tested = true
								}
							}
						}
					}
					c.Check(tested, "ANY.nopanic", "anyutil.Unpack assert-ok tested", "the ok flag of the descriptor assertion guards dynamicpb.NewMessageType", "ok flag of the descriptor assertion is not tested before use", pos(ta.Pos()), src)
				}
			}
		}
	}
	c.Check(dynOK, "ANY.fallback", "anyutil.Unpack dynamic type", "dynamicpb type is built from the descriptor returned by the file resolver", "dynamicpb.NewMessageType argument is not the descriptor found by the file resolver", pos(newDyn.Pos()), src)
	// 7. message = typ.New().Interface(); UnmarshalTo(message); error checked; message returned
	recvOK := len(unmarshalTo.Call.Args) == 2 && unmarshalTo.Call.Args[0] == ssa.Value(anyP)
	var msgV ssa.Value
	if recvOK {
		msgV = unmarshalTo.Call.Args[1]
		root, ok := invokeChain(msgV, "New", "Interface")
		recvOK = ok
		if ok {
			// root must be phi/typ from find or newDyn
			okRoot := func(v ssa.Value) bool {
				v = stripConv(v)
				if ex, ok := v.(*ssa.Extract); ok && ex.Tuple == ssa.Value(find) && ex.Index == 0 {
					return true
				}
				return v == ssa.Value(newDyn)
			}
			// the type may reach the call through several phis (result variables); nil edges belong to error paths,
			// which return before the type is used (ANY.errors / the fallback guard)
			leaves := flattenPhi(root, map[ssa.Value]bool{})
			nLeaf := 0
			for _, e := range leaves {
				if isNilConst(e) {
					continue
				}
				nLeaf++
				if !okRoot(e) {
					recvOK = false
				}
			}
			if nLeaf == 0 {
				recvOK = false
			}
		}
	}
	c.Check(recvOK, "ANY.fallback", "anyutil.Unpack target message", "any.UnmarshalTo decodes into typ.New().Interface() of the resolved (or dynamic) type", "UnmarshalTo target is not a new message of the resolved type", pos(unmarshalTo.Pos()), src)
	errChecked(unmarshalTo, nil, "UnmarshalTo error")
	// the success return returns that message with nil error
	retOK := false
	allInstrs(up, func(b *ssa.BasicBlock, in ssa.Instruction) {
		if r, ok := in.(*ssa.Return); ok && len(r.Results) == 2 && isNilConst(r.Results[1]) {
			retOK = r.Results[0] == msgV
			if !retOK {
				c.Fail("ANY.fallback", "anyutil.Unpack success return", "a success return does not return the unpacked message", pos(r.Pos()), src)
			}
		}
	})
	c.Check(retOK, "ANY.fallback", "anyutil.Unpack success return", "returns the decoded message with a nil error", "no success return of the decoded message", pos(up.Pos()), src)
}

func flattenPhi(v ssa.Value, seen map[ssa.Value]bool) []ssa.Value {
	v = stripConv(v)
	if seen[v] {
		return nil
	}
	seen[v] = true
	if phi, ok := v.(*ssa.Phi); ok {
		var out []ssa.Value
		for _, e := range phi.Edges {
			out = append(out, flattenPhi(e, seen)...)
		}
		return out
	}
	return []ssa.Value{v}
}

// leadsToErrorReturn follows the single feasible path from block b (entered from pred) to a return: phis are
// resolved by the edge taken, nil tests of values known to be non-nil (the tested error, a freshly built error) or
// nil take the corresponding branch. It succeeds when the path ends in a return whose error result is non-nil and
// whose other results are nil, without passing through avoid.
func leadsToErrorReturn(b, pred *ssa.BasicBlock, nonNil map[ssa.Value]bool, avoid *ssa.BasicBlock) bool {
	env := map[*ssa.Phi]ssa.Value{}
	resolve := func(v ssa.Value) ssa.Value {
		for i := 0; i < 10; i++ {
			v = stripConv(v)
			if mi, ok := v.(*ssa.MakeInterface); ok {
				v = mi.X
				continue
			}
			if phi, ok := v.(*ssa.Phi); ok {
				if r, ok := env[phi]; ok {
					v = r
					continue
				}
			}
			break
		}
		return v
	}
	isNonNil := func(v ssa.Value) (bool, bool) { // (known, nonNil)
		v = resolve(v)
		if nonNil[v] {
			return true, true
		}
		if isNilConst(v) {
			return true, false
		}
		if call, ok := v.(*ssa.Call); ok {
			switch calleeName(&call.Call) {
			case "fmt.Errorf", "errors.New":
				return true, true
			}
			if strings.HasSuffix(calleeName(&call.Call), "NewError") {
				return true, true
			}
		}
		return false, false
	}
	for steps := 0; steps < 40; steps++ {
		if b == avoid {
			return false
		}
		// bind the phis of b for the edge pred -> b
		idx := -1
		for i, p := range b.Preds {
			if p == pred {
				idx = i
			}
		}
		for _, in := range b.Instrs {
			phi, ok := in.(*ssa.Phi)
			if !ok {
				break
			}
			if idx >= 0 && idx < len(phi.Edges) {
				env[phi] = resolve(phi.Edges[idx])
			}
		}
		switch last := b.Instrs[len(b.Instrs)-1].(type) {
		case *ssa.Return:
			n := len(last.Results)
			if n == 0 {
				return false
			}
			if known, nn := isNonNil(last.Results[n-1]); !known || !nn {
				return false
			}
			for _, r := range last.Results[:n-1] {
				if known, nn := isNonNil(r); !known || nn {
					return false
				}
			}
			return true
		case *ssa.Jump:
			pred, b = b, b.Succs[0]
		case *ssa.If:
			bo, ok := last.Cond.(*ssa.BinOp)
			if !ok || (bo.Op != token.NEQ && bo.Op != token.EQL) {
				return false
			}
			x := bo.X
			if isNilConst(bo.X) {
				x = bo.Y
			} else if !isNilConst(bo.Y) {
				return false
			}
			known, nn := isNonNil(x)
			if !known {
				return false
			}
			taken := (bo.Op == token.NEQ) == nn
			if taken {
				pred, b = b, b.Succs[0]
			} else {
				pred, b = b, b.Succs[1]
			}
		default:
			return false
		}
	}
	return false
}
