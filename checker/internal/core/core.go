// Package core holds what every engine shares: the loaded program (typed
// syntax, lazily SSA), the obligation/report model, known-findings matching
// and evidence output.
package core

import (
	"verif/checker/internal/inline"
	"go/parser"
	"encoding/json"
	"fmt"
	"go/ast"
	"go/token"
	"go/types"
	"os"
	"path/filepath"
	"regexp"
	"sort"
	"strings"
	"sync"
	"time"

	"golang.org/x/tools/go/packages"
	"golang.org/x/tools/go/ssa"
	"golang.org/x/tools/go/ssa/ssautil"
)

const RepoModule = "github.com/cosmos/cosmos-proto"

var libPkgs = map[string]bool{RepoModule + "/runtime": true, RepoModule + "/anyutil": true, RepoModule + "/any": true, RepoModule + "/support/timepb": true, RepoModule + "/rapidproto": true, RepoModule: true}

// PackageVarWrites lists assignments to (or address-of / pointer-method calls on) package-level variables inside function bodies.
func PackageVarWrites(p *packages.Package) []string {
	info := p.TypesInfo
	if info == nil {
		return nil
	}
	// guarded: the values the analysed functions return or call through (error values, function variables);
	// other package state (a cache, a registry) is the library's own business
	pkgVars := map[types.Object]bool{}
	for _, n := range p.Types.Scope().Names() {
		if v, ok := p.Types.Scope().Lookup(n).(*types.Var); ok {
			switch v.Type().Underlying().(type) {
			case *types.Interface, *types.Signature:
				pkgVars[v] = true
			}
		}
	}
	root := func(x ast.Expr) *ast.Ident {
		for {
			switch t := x.(type) {
			case *ast.ParenExpr:
				x = t.X
			case *ast.SelectorExpr:
				x = t.X
			case *ast.IndexExpr:
				x = t.X
			case *ast.StarExpr:
				x = t.X
			case *ast.Ident:
				return t
			default:
				return nil
			}
		}
	}
	var out []string
	for _, f := range p.Syntax {
		// generated protoc-gen-go files initialise their own tables
		gen := false
		for _, cg := range f.Comments {
			if cg.Pos() < f.Package && strings.Contains(cg.Text(), "Code generated") {
				gen = true
			}
		}
		if gen {
			continue
		}
		for _, d := range f.Decls {
			fd, ok := d.(*ast.FuncDecl)
			if !ok || fd.Body == nil {
				continue
			}
			ast.Inspect(fd.Body, func(n ast.Node) bool {
				var targets []ast.Expr
				switch t := n.(type) {
				case *ast.AssignStmt:
					if t.Tok != token.DEFINE {
						targets = t.Lhs
					}
				case *ast.IncDecStmt:
					targets = []ast.Expr{t.X}
				case *ast.UnaryExpr:
					if t.Op == token.AND {
						targets = []ast.Expr{t.X}
					}
				}
				for _, l := range targets {
					if id := root(l); id != nil && pkgVars[info.ObjectOf(id)] {
						pos := p.Fset.Position(l.Pos())
						out = append(out, fmt.Sprintf("%s in %s (%s:%d)", id.Name, fd.Name.Name, filepath.Base(pos.Filename), pos.Line))
					}
				}
				return true
			})
		}
	}
	sort.Strings(out)
	return out
}

// importsOnly: the file declares nothing but imports (the usual tools.go that pins tool dependencies behind a
// build tag): whatever configuration compiles it, it adds no code.
func importsOnly(path string) bool {
	f, err := parser.ParseFile(token.NewFileSet(), path, nil, parser.SkipObjectResolution)
	if err != nil {
		return false
	}
	return importsOnlyAST(f)
}

func importsOnlyAST(f *ast.File) bool {
	for _, d := range f.Decls {
		gd, ok := d.(*ast.GenDecl)
		if !ok || gd.Tok != token.IMPORT {
			return false
		}
	}
	return true
}

// confirmedFuncs: per hand-written package, the functions ("Name" / "Recv.Name") that exist on the pinned tree and
// that the rules know by name. Unexported functions outside this table are treated as helpers extracted later and
// are inlined before analysis (package inline).
var confirmedFuncs = map[string]map[string]bool{
	"runtime":                  set("EncodeVarint", "MarshalInputToOptions", "SizeInputToOptions", "Skip", "Sov", "Soz", "UnmarshalInputToOptions", "nestedRecursionLimit",
		// the option-mapping rule evaluates helper calls itself (OPTS): nothing is inlined into these three
		"!MarshalInputToOptions", "!SizeInputToOptions", "!UnmarshalInputToOptions",
		// the Skip matcher recognises varint-reader functions itself
		"!Skip"),
	"anyutil":                  set("MarshalFrom", "New", "Unpack"),
	// support/timepb is not normalised: its rules interpret calls of package functions themselves
	"rapidproto":               set("GeneratorOptions.WithAnyTypes", "GeneratorOptions.WithDisallowNil", "GeneratorOptions.WithInterfaceHint", "GeneratorOptions.genAny", "GeneratorOptions.genDuration", "GeneratorOptions.genFieldMask", "GeneratorOptions.genScalarFieldValue", "GeneratorOptions.genTimestamp", "GeneratorOptions.setFieldValue", "GeneratorOptions.setFields", "MessageGenerator", "setSecondsNanosFields",
		// the same generators as plain functions (a receiver that is not used may be dropped)
		"genAny", "genDuration", "genFieldMask", "genScalarFieldValue", "genTimestamp", "setFieldValue", "setFields"),
	"cmd/protoc-gen-go-pulsar": set("ObjectSet.Set", "ObjectSet.String", "generateAllFiles", "main", "rewriteMessageField"),
	"generator":                set("GeneratedFile.FieldGoType", "GeneratedFile.Ident", "GeneratedFile.IsLocalMessage", "Generator.GenerateFile", "KeySize", "NewGenerator", "ProtoWireType", "RegisterFeature", "findFeatures"),
}

func set(names ...string) map[string]bool {
	m := map[string]bool{}
	for _, n := range names {
		m[n] = true
	}
	return m
}

// guardedUniverse: the predeclared identifiers whose meaning the rules rely on
// (any, min, max, clear, print, … are not relied upon and may be shadowed, as the pinned tree does).
var guardedUniverse = map[string]bool{
	"nil": true, "true": true, "false": true, "iota": true, "len": true, "cap": true, "append": true, "copy": true, "make": true, "new": true,
	"panic": true, "recover": true, "delete": true, "bool": true, "string": true, "byte": true, "rune": true, "error": true,
	"int": true, "int8": true, "int16": true, "int32": true, "int64": true, "uint": true, "uint8": true, "uint16": true, "uint32": true, "uint64": true,
	"uintptr": true, "float32": true, "float64": true,
}

// AllowedShadow: declarations present in the pinned tree that shadow a predeclared identifier, confirmed harmless
// ("<pkgpath> <name>"; the shadowed name is not used as the builtin in that scope by any rule).
var AllowedShadow = map[string]bool{}

// Status of an obligation.
type Status string

const (
	OK        Status = "discharged"
	Violation Status = "violation"
	Undecided Status = "undecided"
)

// Obligation is one rule instance. Key = Rule + " " + Construct; never a line.
type Obligation struct {
	Rule      string `json:"rule"`
	Construct string `json:"construct"`
	Status    Status `json:"status"`
	Detail    string `json:"detail,omitempty"`
	Pos       string `json:"pos,omitempty"`
	Source    string `json:"source,omitempty"` // S0 / S1 / S2:<schema>
	Known     string `json:"known_finding,omitempty"`
}

func (o *Obligation) Key() string { return o.Rule + " " + o.Construct }

// Ctx is the analysis context for one run.
type Ctx struct {
	Inlined  []string // helper normalisation log
	Repo     string
	Tier     string
	Property string
	Seed     int64
	Start    time.Time

	mu      sync.Mutex
	obls    []*Obligation
	seen    map[string]*Obligation
	notes   []string
	Stats   map[string]int
	Samples []interface{}

	loadOnce sync.Once
	loadErr  error
	Pkgs     []*packages.Package
	PkgByID  map[string]*packages.Package
	Fset     *token.FileSet

	ssaOnce sync.Once
	Prog    *ssa.Program
	SSAPkgs map[string]*ssa.Package

	Scratch []string // directories to remove at exit
	Cache   map[string]interface{}
}

// Memo computes a value once per run.
func (c *Ctx) Memo(key string, f func() interface{}) interface{} {
	c.mu.Lock()
	if c.Cache == nil {
		c.Cache = map[string]interface{}{}
	}
	if v, ok := c.Cache[key]; ok {
		c.mu.Unlock()
		return v
	}
	c.mu.Unlock()
	v := f()
	c.mu.Lock()
	c.Cache[key] = v
	c.mu.Unlock()
	return v
}

func NewCtx(repo, tier, property string, seed int64) *Ctx {
	return &Ctx{Repo: repo, Tier: tier, Property: property, Seed: seed, Start: time.Now(),
		seen: map[string]*Obligation{}, Stats: map[string]int{}}
}

// GoEnv is the environment used for every go invocation (offline).
func GoEnv(extra ...string) []string {
	env := []string{}
	for _, e := range os.Environ() {
		if strings.HasPrefix(e, "GOWORK=") || strings.HasPrefix(e, "GOFLAGS=") ||
			strings.HasPrefix(e, "GOPROXY=") || strings.HasPrefix(e, "GOSUMDB=") ||
			strings.HasPrefix(e, "GOTOOLCHAIN=") || strings.HasPrefix(e, "GOARCH=") {
			continue
		}
		env = append(env, e)
	}
	env = append(env, "GOWORK=off", "GOPROXY=off", "GOSUMDB=off", "GOTOOLCHAIN=local")
	env = append(env, extra...)
	return env
}

// Load type-checks all packages of the repo (working tree).
func (c *Ctx) Load() error {
	c.loadOnce.Do(func() {
		cfg := &packages.Config{
			Mode: packages.NeedName | packages.NeedFiles | packages.NeedCompiledGoFiles | packages.NeedImports |
				packages.NeedDeps | packages.NeedTypes | packages.NeedSyntax | packages.NeedTypesInfo | packages.NeedTypesSizes | packages.NeedModule,
			Dir:   c.Repo,
			Env:   GoEnv("GOFLAGS=-mod=readonly"),
			Tests: false,
		}
		pkgs, err := packages.Load(cfg, "./...")
		if err != nil {
			c.loadErr = err
			return
		}
		if len(pkgs) == 0 {
			c.loadErr = fmt.Errorf("no packages loaded from %s", c.Repo)
			return
		}
		// Normalisation: unexported helpers that are not in the table of function names confirmed on the pinned
		// tree are inlined (at source level, through an overlay) into their callers in the hand-written packages,
		// so that extracting a helper from an analysed function does not hide the function's shape from the rules.
		{
			first := map[string]*packages.Package{}
			packages.Visit(pkgs, nil, func(p *packages.Package) { first[p.PkgPath] = p })
			overlay := map[string][]byte{}
			rels := make([]string, 0, len(confirmedFuncs))
			for rel := range confirmedFuncs {
				rels = append(rels, rel)
			}
			sort.Strings(rels)
			for _, rel := range rels {
				rel := rel
				loader := func(pattern string, ov map[string][]byte) (*packages.Package, error) {
					if len(ov) == 0 {
						return first[RepoModule+"/"+rel], nil
					}
					c2 := *cfg
					c2.Overlay = ov
					ps, err := packages.Load(&c2, "./"+rel)
					if err != nil || len(ps) != 1 {
						return nil, fmt.Errorf("reloading %s: %v", rel, err)
					}
					return ps[0], nil
				}
				log, err := inline.Normalize(loader, rel, confirmedFuncs[rel], overlay)
				if err != nil {
					c.Undec("LOAD", "helper normalisation of "+rel, err.Error(), rel, "S0")
				}
				c.Inlined = append(c.Inlined, log...)
			}
			if dir := os.Getenv("VERIF_DUMP_INLINED"); dir != "" { // development aid: write the normalised sources there
				for name, b := range overlay {
					_ = os.WriteFile(filepath.Join(dir, strings.ReplaceAll(strings.TrimPrefix(name, c.Repo+"/"), "/", "__")), b, 0o644)
				}
			}
			if len(overlay) > 0 {
				cfg.Overlay = overlay
				pkgs, err = packages.Load(cfg, "./...")
				if err != nil {
					c.loadErr = err
					return
				}
			}
		}
		c.PkgByID = map[string]*packages.Package{}
		var errs []string
		packages.Visit(pkgs, nil, func(p *packages.Package) {
			c.PkgByID[p.PkgPath] = p
			if strings.HasPrefix(p.PkgPath, RepoModule) {
				for _, e := range p.Errors {
					if strings.Contains(e.Msg, "build constraints exclude all Go files") {
						all := len(p.IgnoredFiles) > 0
						for _, f := range p.IgnoredFiles {
							all = all && (!strings.HasSuffix(f, ".go") || strings.HasSuffix(f, "_test.go") || importsOnly(f))
						}
						if all {
							continue // a tools-style package: imports only
						}
					}
					errs = append(errs, e.Error())
				}
			}
		})
		if len(errs) > 0 {
			c.loadErr = fmt.Errorf("type/load errors in repo: %s", strings.Join(errs, "; "))
			return
		}
		// The rules take the published google.golang.org/protobuf (and the other dependencies) as the reference
		// semantics; a dependency substituted by a local copy (replace directive, vendor directory) is outside what was read.
		seenMod := map[string]bool{}
		packages.Visit(pkgs, nil, func(p *packages.Package) {
			if p.Module == nil || p.Module.Main || seenMod[p.Module.Path] {
				return
			}
			seenMod[p.Module.Path] = true
			if p.Module.Replace != nil {
				c.Undec("LOAD", "dependency replaced: "+p.Module.Path, "module "+p.Module.Path+" is replaced by "+p.Module.Replace.Path+"; the rules assume the published module", "go.mod", "S0")
			}
			if p.Module.Dir != "" && strings.HasPrefix(p.Module.Dir, c.Repo+"/") {
				c.Undec("LOAD", "dependency inside repository: "+p.Module.Path, "module "+p.Module.Path+" is loaded from "+p.Module.Dir, "go.mod", "S0")
			}
		})
		if _, err := os.Stat(filepath.Join(c.Repo, "vendor", "modules.txt")); err == nil {
			c.Undec("LOAD", "vendor directory", "the repository vendors its dependencies: the test suite would build against vendor/ while the rules assume the published modules", "vendor/modules.txt", "S0")
		}
		sort.Slice(pkgs, func(i, j int) bool { return pkgs[i].PkgPath < pkgs[j].PkgPath })
		for _, p := range pkgs {
			// the analysis sees one build configuration: a file that is compiled only under some other GOOS/GOARCH/tag
			// (or excluded from this one) would escape it, so the repository must not use build constraints
			for _, f := range p.IgnoredFiles {
				if strings.HasSuffix(f, ".go") && !strings.HasSuffix(f, "_test.go") && !importsOnly(f) {
					c.Fail("LOAD", "file excluded by build constraints: "+strings.TrimPrefix(f, c.Repo+"/"), "a Go file of the repository is not part of the analysed build configuration", "", "S0")
				}
			}
			for _, f := range p.Syntax {
				for _, cg := range f.Comments {
					if cg.Pos() > f.Package {
						break
					}
					for _, cm := range cg.List {
						if (strings.HasPrefix(cm.Text, "//go:build") || strings.HasPrefix(cm.Text, "// +build")) && !importsOnlyAST(f) {
							c.Fail("LOAD", "build constraint in "+c.PosStr(p.Fset, cm.Pos()), "a file with a build constraint is compiled only in some configurations; the analysis covers one", "", "S0")
						}
					}
				}
			}
			if libPkgs[p.PkgPath] {
				for _, w := range PackageVarWrites(p) {
					c.Fail("LOAD", "package variable written in "+p.PkgPath+": "+w, "package-level state of a hand-written library (error values, tables) is modified after initialisation: what the analysed functions return or compare against is no longer what their source says", "", "S0")
				}
			}
			for _, sh := range ShadowedUniverse(p) {
				if AllowedShadow[p.PkgPath+" "+strings.SplitN(sh, " ", 2)[0]] {
					continue
				}
				c.Fail("LOAD", "shadowed predeclared identifier "+sh+" in "+p.PkgPath, "a declaration shadows a predeclared identifier; rules that recognise builtins and basic types would be misled, and so would a reader", "", "S0")
			}
		}
		c.Pkgs = pkgs
		c.Fset = pkgs[0].Fset
		c.Stats["packages"] = len(pkgs)
	})
	return c.loadErr
}

// Pkg returns a repo package by path relative to the module ("" = root).
func (c *Ctx) Pkg(rel string) *packages.Package {
	p := RepoModule
	if rel != "" {
		p += "/" + rel
	}
	return c.PkgByID[p]
}

// BuildSSA builds SSA for the whole program (all deps).
func (c *Ctx) BuildSSA() {
	c.ssaOnce.Do(func() {
		prog, _ := ssautil.AllPackages(c.Pkgs, ssa.InstantiateGenerics)
		prog.Build()
		c.Prog = prog
		c.SSAPkgs = map[string]*ssa.Package{}
		for _, p := range prog.AllPackages() {
			c.SSAPkgs[p.Pkg.Path()] = p
		}
	})
}

func (c *Ctx) SSAPkg(rel string) *ssa.Package {
	c.BuildSSA()
	p := RepoModule
	if rel != "" {
		p += "/" + rel
	}
	return c.SSAPkgs[p]
}

// ShadowedUniverse lists declarations in a package that shadow a predeclared identifier
// (nil, true, len, append, panic, uint64, …). Several rules identify builtins and basic types
// by these names after resolving callees; a shadowing declaration would change the meaning of
// identical-looking code, so it is reported for every property (rule LOAD).
func ShadowedUniverse(p *packages.Package) []string {
	var out []string
	if p.TypesInfo == nil {
		return nil
	}
	shadows := map[types.Object]*ast.Ident{}
	for id, obj := range p.TypesInfo.Defs {
		if obj == nil || obj.Parent() == nil { // fields and methods have no lexical parent
			continue
		}
		if id.Name == "_" || types.Universe.Lookup(id.Name) == nil || !guardedUniverse[id.Name] {
			continue
		}
		shadows[obj] = id
	}
	if len(shadows) == 0 {
		return nil
	}
	// A shadowing declaration matters to the rules (which read calls, conversions, type expressions and the
	// constants nil/true/false by name) only where it is USED in such a position; a plain value variable that
	// happens to be called `new` or `len` and is only read as a value cannot be mistaken for the builtin.
	risky := map[types.Object]bool{}
	for obj, id := range shadows {
		switch obj.(type) {
		case *types.TypeName, *types.Func:
			risky[obj] = true // a type or function with a predeclared name: every use reads like the builtin
		case *types.Const:
			risky[obj] = true
		case *types.Var:
			switch id.Name {
			case "nil", "true", "false", "iota":
				risky[obj] = true
			}
		}
	}
	for _, f := range p.Syntax {
		ast.Inspect(f, func(n ast.Node) bool {
			if call, ok := n.(*ast.CallExpr); ok {
				if id, ok := ast.Unparen(call.Fun).(*ast.Ident); ok {
					if obj := p.TypesInfo.Uses[id]; obj != nil && shadows[obj] != nil {
						risky[obj] = true // called like the builtin / used like the conversion
					}
				}
			}
			return true
		})
	}
	for obj, id := range shadows {
		if !risky[obj] {
			continue
		}
		pos := p.Fset.Position(id.Pos())
		out = append(out, fmt.Sprintf("%s (%s:%d)", id.Name, filepath.Base(pos.Filename), pos.Line))
	}
	sort.Strings(out)
	return out
}

// PosStr renders a position relative to the repo.
func (c *Ctx) PosStr(fset *token.FileSet, p token.Pos) string {
	if !p.IsValid() || fset == nil {
		return ""
	}
	pos := fset.Position(p)
	f := pos.Filename
	if r, err := filepath.Rel(c.Repo, f); err == nil && !strings.HasPrefix(r, "..") {
		f = r
	} else if i := strings.Index(f, "/src/verifcorpus/"); i >= 0 {
		f = "S2:" + f[i+len("/src/verifcorpus/"):]
	}
	return fmt.Sprintf("%s:%d", f, pos.Line)
}

// Add records an obligation. A second report for the same key keeps the worst status.
func (c *Ctx) Add(o Obligation) {
	c.mu.Lock()
	defer c.mu.Unlock()
	if prev, ok := c.seen[o.Key()]; ok {
		if rank(o.Status) > rank(prev.Status) {
			*prev = o
		}
		return
	}
	oc := o
	c.seen[o.Key()] = &oc
	c.obls = append(c.obls, &oc)
}

func rank(s Status) int {
	switch s {
	case OK:
		return 0
	case Undecided:
		return 1
	}
	return 2
}

func (c *Ctx) Ok(rule, construct, detail, pos, src string) {
	c.Add(Obligation{Rule: rule, Construct: construct, Status: OK, Detail: detail, Pos: pos, Source: src})
}
func (c *Ctx) Fail(rule, construct, detail, pos, src string) {
	c.Add(Obligation{Rule: rule, Construct: construct, Status: Violation, Detail: detail, Pos: pos, Source: src})
}
func (c *Ctx) Undec(rule, construct, detail, pos, src string) {
	c.Add(Obligation{Rule: rule, Construct: construct, Status: Undecided, Detail: detail, Pos: pos, Source: src})
}

// Check records OK when cond holds, Violation otherwise.
func (c *Ctx) Check(cond bool, rule, construct, okDetail, failDetail, pos, src string) bool {
	if cond {
		c.Ok(rule, construct, okDetail, pos, src)
	} else {
		c.Fail(rule, construct, failDetail, pos, src)
	}
	return cond
}

func (c *Ctx) Note(format string, a ...interface{}) {
	c.mu.Lock()
	c.notes = append(c.notes, fmt.Sprintf(format, a...))
	c.mu.Unlock()
}

func (c *Ctx) Stat(name string, n int) {
	c.mu.Lock()
	c.Stats[name] += n
	c.mu.Unlock()
}

func (c *Ctx) Obligations() []*Obligation { return c.obls }

func (c *Ctx) Cleanup() {
	if keep := os.Getenv("VERIF_KEEP_S2"); keep != "" { // development aid: keep the regenerated corpus
		for _, d := range c.Scratch {
			fmt.Fprintln(os.Stderr, "kept scratch:", d)
		}
		return
	}
	for _, d := range c.Scratch {
		os.RemoveAll(d)
	}
}

// ---------------------------------------------------------------------------
// Known findings

type KnownFinding struct {
	ID        string `json:"id"`
	Property  string `json:"property"`            // primary property
	Also      []string `json:"also,omitempty"`    // other properties the same defect breaks
	Rule      string `json:"rule"`                // exact rule id
	Construct string `json:"construct"`           // regexp on the construct
	Status    string `json:"status"`              // open | fixed
	Commit    string `json:"commit,omitempty"`
	What      string `json:"what"`
	Witness   string `json:"witness,omitempty"`
	re        *regexp.Regexp
}

type KnownFile struct {
	Findings []*KnownFinding `json:"findings"`
}

func LoadKnown(path string) (*KnownFile, error) {
	b, err := os.ReadFile(path)
	if err != nil {
		return nil, err
	}
	var kf KnownFile
	if err := json.Unmarshal(b, &kf); err != nil {
		return nil, err
	}
	for _, f := range kf.Findings {
		re, err := regexp.Compile("^(?:" + f.Construct + ")$")
		if err != nil {
			return nil, fmt.Errorf("known finding %s: %v", f.ID, err)
		}
		f.re = re
	}
	return &kf, nil
}

func (f *KnownFinding) appliesTo(prop string) bool {
	if f.Property == prop {
		return true
	}
	for _, p := range f.Also {
		if p == prop {
			return true
		}
	}
	return false
}

func (kf *KnownFile) Match(prop string, o *Obligation) *KnownFinding {
	if kf == nil {
		return nil
	}
	for _, f := range kf.Findings {
		if f.Status != "open" || !f.appliesTo(prop) {
			continue
		}
		if f.Rule == o.Rule && f.re.MatchString(o.Construct) {
			return f
		}
	}
	return nil
}

// ---------------------------------------------------------------------------
// Floors (vacuity guards)

type Floor struct {
	Rule string // rule id (exact) whose obligations are counted
	Min  int
	Why  string
}

// ---------------------------------------------------------------------------
// Finish: evidence + exit code

type Result struct {
	Exit int
}

type FinishSpec struct {
	Property    string
	Rules       func(rule string) bool // which obligations belong to this property
	Floors      []Floor
	Explanation string
	RuleText    string
	Assumptions []string
	Trusted     []string
	VerifDir    string
	Known       *KnownFile
	CheckerCmd  string
}

func (c *Ctx) Finish(spec FinishSpec) int {
	var mine []*Obligation
	for _, o := range c.obls {
		if spec.Rules == nil || spec.Rules(o.Rule) {
			mine = append(mine, o)
		}
	}
	sort.SliceStable(mine, func(i, j int) bool { return mine[i].Key() < mine[j].Key() })
	perRule := map[string]int{}
	for _, o := range mine {
		perRule[o.Rule]++
	}
	// floors
	for _, f := range spec.Floors {
		if perRule[f.Rule] < f.Min {
			o := &Obligation{Rule: "VACUITY", Construct: f.Rule, Status: Violation,
				Detail: fmt.Sprintf("rule %s matched %d instances, floor confirmed by hand is %d (%s)", f.Rule, perRule[f.Rule], f.Min, f.Why)}
			mine = append(mine, o)
		}
	}
	evDir := filepath.Join(spec.VerifDir, "evidence")
	replayDir := filepath.Join(evDir, "replay")
	os.MkdirAll(replayDir, 0o755)
	// remove stale replay files for this property
	if old, _ := filepath.Glob(filepath.Join(replayDir, spec.Property+"-*.json")); old != nil {
		for _, f := range old {
			os.Remove(f)
		}
	}
	discharged, violations, undecided, known := 0, 0, 0, 0
	knownSeen := map[string][]*Obligation{}
	var knownOrder []*KnownFinding
	var lines []string
	n := 0
	for _, o := range mine {
		switch o.Status {
		case OK:
			discharged++
			continue
		}
		if kf := spec.Known.Match(spec.Property, o); kf != nil {
			o.Known = kf.ID
			if _, ok := knownSeen[kf.ID]; !ok {
				knownOrder = append(knownOrder, kf)
			}
			knownSeen[kf.ID] = append(knownSeen[kf.ID], o)
			known++
			continue
		}
		if o.Status == Undecided {
			undecided++
		} else {
			violations++
		}
		n++
		rp := filepath.Join(replayDir, fmt.Sprintf("%s-%04d.json", spec.Property, n))
		b, _ := json.MarshalIndent(map[string]interface{}{
			"property": spec.Property, "rule": o.Rule, "construct": o.Construct, "status": o.Status,
			"detail": o.Detail, "pos": o.Pos, "source": o.Source, "tier": c.Tier,
		}, "", " ")
		os.WriteFile(rp, b, 0o644)
		lines = append(lines, fmt.Sprintf("%s %s [%s] %s: %s (%s)", spec.Property, o.Rule, o.Status, o.Construct, o.Detail, o.Pos))
		lines = append(lines, fmt.Sprintf("VIOLATION property=%s replay=%s", spec.Property, rp))
	}
	for _, kf := range knownOrder {
		os_ := knownSeen[kf.ID]
		fmt.Printf("KNOWN-FINDING: property=%s %s %s: %s [%d instance(s), e.g. %s %s]\n", spec.Property, kf.ID, kf.Rule, kf.What, len(os_), os_[0].Construct, os_[0].Pos)
	}
	// samples
	var samples []interface{}
	samples = append(samples, c.Samples...)
	step := len(mine)/8 + 1
	for i := 0; i < len(mine) && len(samples) < 12; i += step {
		samples = append(samples, mine[i])
	}
	for _, o := range mine {
		if o.Status != OK && len(samples) < 40 {
			samples = append(samples, o)
		}
	}
	rulesOut := map[string]interface{}{}
	floorOf := map[string]int{}
	for _, f := range spec.Floors {
		floorOf[f.Rule] = f.Min
	}
	for r, k := range perRule {
		rulesOut[r] = map[string]int{"instances": k, "floor": floorOf[r]}
	}
	distinct := map[string]bool{}
	for _, o := range mine {
		distinct[o.Key()] = true
	}
	cov := map[string]interface{}{
		"explanation":         spec.Explanation,
		"rule":                spec.RuleText,
		"obligations":         len(mine),
		"discharged":          discharged,
		"matched_known":       known,
		"undecided":           undecided,
		"evaluations":         len(mine),
		"distinct_nontrivial": len(distinct),
		"rules":               rulesOut,
		"stats":               c.Stats,
		"samples":             samples,
		"checker_cmd":         spec.CheckerCmd,
		"trusted_base":        spec.Trusted,
		"notes":               c.notes,
		"exhaustive":          false,
	}
	ev := map[string]interface{}{
		"property_id": spec.Property,
		"tier":        c.Tier,
		"seed":        c.Seed,
		"level":       "other",
		"coverage":    cov,
		"assumptions": spec.Assumptions,
		"wall_s":      time.Since(c.Start).Seconds(),
		"violations":  violations + undecided,
	}
	b, _ := json.MarshalIndent(ev, "", " ")
	if err := os.WriteFile(filepath.Join(evDir, spec.Property+".json"), b, 0o644); err != nil {
		fmt.Printf("cannot write evidence: %v\n", err)
		return 1
	}
	for _, l := range lines {
		fmt.Println(l)
	}
	fmt.Printf("%s tier=%s obligations=%d discharged=%d known=%d violations=%d undecided=%d wall=%.1fs\n",
		spec.Property, c.Tier, len(mine), discharged, known, violations, undecided, time.Since(c.Start).Seconds())
	if violations+undecided > 0 {
		return 1
	}
	return 0
}

// ---------------------------------------------------------------------------
// small AST/type helpers shared by engines

// FuncDecls returns all function declarations of a package keyed by
// "Recv.Name" or "Name".
func FuncDecls(p *packages.Package) map[string]*ast.FuncDecl {
	m := map[string]*ast.FuncDecl{}
	for _, f := range p.Syntax {
		for _, d := range f.Decls {
			fd, ok := d.(*ast.FuncDecl)
			if !ok {
				continue
			}
			name := fd.Name.Name
			if fd.Recv != nil && len(fd.Recv.List) == 1 {
				name = RecvName(fd.Recv.List[0].Type) + "." + name
			}
			m[name] = fd
		}
	}
	return m
}

func RecvName(e ast.Expr) string {
	switch t := e.(type) {
	case *ast.StarExpr:
		return RecvName(t.X)
	case *ast.Ident:
		return t.Name
	case *ast.IndexExpr:
		return RecvName(t.X)
	}
	return "?"
}

// CalleeObj resolves the called function/method object of a call, or nil.
func CalleeObj(info *types.Info, call *ast.CallExpr) types.Object {
	fun := ast.Unparen(call.Fun)
	switch f := fun.(type) {
	case *ast.Ident:
		return info.Uses[f]
	case *ast.SelectorExpr:
		if sel, ok := info.Selections[f]; ok {
			return sel.Obj()
		}
		return info.Uses[f.Sel]
	}
	return nil
}

// QualName renders pkgpath.Name or pkgpath.(Recv).Name of a func object.
func QualName(o types.Object) string {
	if o == nil {
		return ""
	}
	if f, ok := o.(*types.Func); ok {
		sig := f.Type().(*types.Signature)
		if r := sig.Recv(); r != nil {
			t := r.Type()
			if p, ok := t.(*types.Pointer); ok {
				t = p.Elem()
			}
			if n, ok := t.(*types.Named); ok {
				pk := ""
				if n.Obj().Pkg() != nil {
					pk = n.Obj().Pkg().Path() + "."
				}
				return pk + n.Obj().Name() + "." + f.Name()
			}
			return "(" + t.String() + ")." + f.Name()
		}
	}
	// package-level variables holding functions are not the functions the rules mean
	if v, ok := o.(*types.Var); ok && !v.IsField() && o.Pkg() != nil {
		return "var " + o.Pkg().Path() + "." + o.Name()
	}
	if o.Pkg() != nil {
		return o.Pkg().Path() + "." + o.Name()
	}
	return o.Name()
}
