package gen

import (
	"fmt"
	"math/rand"

	"google.golang.org/protobuf/types/descriptorpb"
)

// RandomSchemas builds n random proto3 files (thorough tier; seeded by VERIF_SEED):
// random mixes of kinds, shapes (singular, repeated packed/unpacked, oneof member, map),
// field numbers spread over all tag widths, declaration order unrelated to number order,
// several oneofs per message, nesting and recursion.
func RandomSchemas(seed int64, n int) []*Schema {
	rng := rand.New(rand.NewSource(seed))
	var out []*Schema
	for i := 0; i < n; i++ {
		name := fmt.Sprintf("rnd%d", i)
		pkg := "vc." + name
		f := file("vc/"+name+".proto", pkg, goPkg(name, ""))
		f.EnumType = append(f.EnumType, enum("E", "E_ZERO", 0, "E_A", 1+rng.Intn(100), "E_NEG", -1-rng.Intn(1000)))
		nMsgs := 2 + rng.Intn(4)
		var msgs []*mb
		for m := 0; m < nMsgs; m++ {
			msgs = append(msgs, newMsg(pkg, fmt.Sprintf("M%d", m)))
		}
		for mi, m := range msgs {
			used := map[int32]bool{}
			num := func() int32 {
				for {
					var v int32
					switch rng.Intn(6) {
					case 0:
						v = 1 + rng.Int31n(15)
					case 1:
						v = 16 + rng.Int31n(2032)
					case 2:
						v = 2048 + rng.Int31n(260000)
					case 3:
						v = 262144 + rng.Int31n(33000000)
					case 4:
						v = 33554432 + rng.Int31n(500000000)
					default:
						v = tagNumbers[rng.Intn(len(tagNumbers))]
					}
					if v >= 19000 && v <= 19999 { // reserved range
						continue
					}
					if !used[v] {
						used[v] = true
						return v
					}
				}
			}
			typeOf := func(k T) string {
				switch k {
				case tEnum:
					return "." + pkg + ".E"
				case tMessage:
					return msgs[rng.Intn(len(msgs))].path
				}
				return ""
			}
			allKinds := append(append([]T{}, scalarKinds...), tEnum, tMessage)
			nFields := 3 + rng.Intn(10)
			fi := 0
			fname := func() string { fi++; return fmt.Sprintf("f%d_%d", mi, fi) }
			for k := 0; k < nFields; k++ {
				kind := allKinds[rng.Intn(len(allKinds))]
				switch rng.Intn(5) {
				case 0, 1:
					m.field(fname(), num(), kind, typeOf(kind))
				case 2:
					if rng.Intn(2) == 0 && kind != tString && kind != tBytes && kind != tMessage {
						m.unpacked(fname(), num(), kind, typeOf(kind))
					} else {
						m.repeated(fname(), num(), kind, typeOf(kind))
					}
				case 3:
					kk := mapKeyKinds[rng.Intn(len(mapKeyKinds))]
					m.mapField(fname(), num(), kk, kind, typeOf(kind))
				case 4:
					o := m.oneof(fmt.Sprintf("o%d_%d", mi, k))
					nm := 1 + rng.Intn(4)
					for j := 0; j < nm; j++ {
						mk := allKinds[rng.Intn(len(allKinds))]
						m.member(o, fname(), num(), mk, typeOf(mk))
					}
				}
			}
		}
		for _, m := range msgs {
			f.MessageType = append(f.MessageType, m.msg)
		}
		out = append(out, &Schema{Name: name, Files: []*descriptorpb.FileDescriptorProto{f}, Tier: "thorough"})
	}
	return out
}
