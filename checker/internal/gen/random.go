package gen

import (
	"fmt"
	"math/rand"

	"google.golang.org/protobuf/proto"
	"google.golang.org/protobuf/types/descriptorpb"
)

// RandomSchemas builds n random proto3 files (thorough tier; seeded by VERIF_SEED):
// random mixes of kinds, shapes (singular, repeated packed/unpacked, oneof member, map),
// field numbers spread over all tag widths, declaration order unrelated to number order,
// several oneofs per message, nesting and recursion.
func RandomSchemas(seed int64, n int) []*Schema {
	rng := rand.New(rand.NewSource(seed))
	var out []*Schema
	for i := 0; i < n; i++ {
		name := fmt.Sprintf("rnd%d", i)
		pkg := "vc." + name
		f := file("vc/"+name+".proto", pkg, goPkg(name, ""))
		f.EnumType = append(f.EnumType, enum("E", "E_ZERO", 0, "E_A", 1+rng.Intn(100), "E_NEG", -1-rng.Intn(1000)))
		nMsgs := 2 + rng.Intn(4)
		var msgs []*mb
		var top []*mb
		for m := 0; m < nMsgs; m++ {
			// about a third of the messages are nested in an earlier one
			if m > 0 && rng.Intn(3) == 0 {
				parent := msgs[rng.Intn(len(msgs))]
				msgs = append(msgs, parent.nested(fmt.Sprintf("N%d", m)))
				continue
			}
			t := newMsg(pkg, fmt.Sprintf("M%d", m))
			msgs = append(msgs, t)
			top = append(top, t)
		}
		// a nested enum with two names for one number
		if rng.Intn(2) == 0 {
			ne := enum("Alias", "AL_ZERO", 0, "AL_ONE", 1, "AL_UNO", 1)
			ne.Options = &descriptorpb.EnumOptions{AllowAlias: proto.Bool(true)}
			msgs[0].msg.EnumType = append(msgs[0].msg.EnumType, ne)
		}
		oneofPool := []string{"value", "kind", "sum", "choice", "payload", "body"}
		fieldPool := []string{"type", "get", "set", "has", "clear", "range", "new", "descriptor", "interface", "mutable", "is_valid", "x", "n", "l", "i", "options", "size", "input", "b", "v", "k", "f", "fd", "err", "state", "string", "reset"}
		for mi, m := range msgs {
			used := map[int32]bool{}
			num := func() int32 {
				for {
					var v int32
					switch rng.Intn(6) {
					case 0:
						v = 1 + rng.Int31n(15)
					case 1:
						v = 16 + rng.Int31n(2032)
					case 2:
						v = 2048 + rng.Int31n(260000)
					case 3:
						v = 262144 + rng.Int31n(33000000)
					case 4:
						v = 33554432 + rng.Int31n(500000000)
					default:
						v = tagNumbers[rng.Intn(len(tagNumbers))]
					}
					if v >= 19000 && v <= 19999 { // reserved range
						continue
					}
					if !used[v] {
						used[v] = true
						return v
					}
				}
			}
			typeOf := func(k T) string {
				switch k {
				case tEnum:
					return "." + pkg + ".E"
				case tMessage:
					return msgs[rng.Intn(len(msgs))].path
				}
				return ""
			}
			allKinds := append(append([]T{}, scalarKinds...), tEnum, tMessage)
			nFields := 3 + rng.Intn(10)
			fi := 0
			usedNames := map[string]bool{}
			fname := func() string {
				fi++
				if rng.Intn(5) == 0 {
					if n := fieldPool[rng.Intn(len(fieldPool))]; !usedNames[n] {
						usedNames[n] = true
						return n
					}
				}
				return fmt.Sprintf("f%d_%d", mi, fi)
			}
			usedOneofs := map[string]bool{}
			oname := func(k int) string {
				if n := oneofPool[rng.Intn(len(oneofPool))]; !usedOneofs[n] {
					usedOneofs[n] = true
					return n
				}
				return fmt.Sprintf("o%d_%d", mi, k)
			}
			for k := 0; k < nFields; k++ {
				kind := allKinds[rng.Intn(len(allKinds))]
				switch rng.Intn(5) {
				case 0, 1:
					m.field(fname(), num(), kind, typeOf(kind))
				case 2:
					if rng.Intn(2) == 0 && kind != tString && kind != tBytes && kind != tMessage {
						m.unpacked(fname(), num(), kind, typeOf(kind))
					} else {
						m.repeated(fname(), num(), kind, typeOf(kind))
					}
				case 3:
					kk := mapKeyKinds[rng.Intn(len(mapKeyKinds))]
					m.mapField(fname(), num(), kk, kind, typeOf(kind))
				case 4:
					o := m.oneof(oname(k))
					nm := 1 + rng.Intn(4)
					for j := 0; j < nm; j++ {
						mk := allKinds[rng.Intn(len(allKinds))]
						m.member(o, fname(), num(), mk, typeOf(mk))
					}
				}
			}
		}
		for _, m := range top {
			f.MessageType = append(f.MessageType, m.msg)
		}
		files := []*descriptorpb.FileDescriptorProto{f}
		// every other schema has a second file in another Go package that uses the first one's types
		if i%2 == 1 {
			pkg2 := pkg + ".sub"
			f2 := file("vc/"+name+"_sub.proto", pkg2, goPkg(name, "sub"), f.GetName())
			u := newMsg(pkg2, "M0")
			o := u.oneof("value")
			target := msgs[rng.Intn(len(msgs))]
			u.member(o, "remote", 1, tMessage, target.path)
			u.member(o, "local", 2, tMessage, u.path)
			u.member(o, "e", 3, tEnum, "."+pkg+".E")
			u.repeated("all", 4, tMessage, msgs[rng.Intn(len(msgs))].path)
			u.mapField("by_id", 5, tInt64, tMessage, msgs[rng.Intn(len(msgs))].path)
			u.field("type", 6, tEnum, "."+pkg+".E")
			f2.MessageType = append(f2.MessageType, u.msg)
			files = append(files, f2)
		}
		out = append(out, &Schema{Name: name, Files: files, Tier: "thorough"})
	}
	return out
}
