package gen

import (
	"fmt"
	"math/rand"

	"google.golang.org/protobuf/proto"
	"google.golang.org/protobuf/types/descriptorpb"
)

// RandomSchemas builds n random proto3 files (thorough tier; seeded by VERIF_SEED):
// random mixes of kinds, shapes (singular, repeated packed/unpacked, oneof member, map),
// field numbers spread over all tag widths, declaration order unrelated to number order,
// several oneofs per message, nesting and recursion.
func RandomSchemas(seed int64, n int) []*Schema {
	rng := rand.New(rand.NewSource(seed))
	var out []*Schema
	for i := 0; i < n; i++ {
		name := fmt.Sprintf("rnd%d", i)
		pkg := "vc." + name
		f := file("vc/"+name+".proto", pkg, goPkg(name, ""))
		f.EnumType = append(f.EnumType, enum("E", "E_ZERO", 0, "E_A", 1+rng.Intn(100), "E_NEG", -1-rng.Intn(1000)))
		nMsgs := 2 + rng.Intn(4)
		var msgs []*mb
		var top []*mb
		// now and then a look-alike name: like a well-known type, like a map entry, like the file descriptor variable,
		// a nested name that flattens like a top-level one (Order.Item / OrderItem)
		topPool := []string{"Duration", "Timestamp", "Any", "Value", "Struct", "Empty", "LogEntry", "MapEntry", "File", "Pair", "Order", "OrderItem", "Item"}
		nestPool := []string{"Entry", "LogEntry", "Pair", "Item", "KeyValue", "Kind"}
		taken := map[string]bool{}
		pick := func(scope string, pool []string, fallback string) string {
			if rng.Intn(4) == 0 {
				if n := pool[rng.Intn(len(pool))]; !taken[scope+"."+n] {
					taken[scope+"."+n] = true
					return n
				}
			}
			return fallback
		}
		for m := 0; m < nMsgs; m++ {
			// about a third of the messages are nested in an earlier one
			if m > 0 && rng.Intn(3) == 0 {
				parent := msgs[rng.Intn(len(msgs))]
				msgs = append(msgs, parent.nested(pick(parent.path, nestPool, fmt.Sprintf("N%d", m))))
				continue
			}
			t := newMsg(pkg, pick("", topPool, fmt.Sprintf("M%d", m)))
			msgs = append(msgs, t)
			top = append(top, t)
		}
		// a nested enum with two names for one number
		if rng.Intn(2) == 0 {
			ne := enum("Alias", "AL_ZERO", 0, "AL_ONE", 1, "AL_UNO", 1)
			ne.Options = &descriptorpb.EnumOptions{AllowAlias: proto.Bool(true)}
			msgs[0].msg.EnumType = append(msgs[0].msg.EnumType, ne)
		}
		oneofPool := []string{"value", "kind", "sum", "choice", "payload", "body"}
		fieldPool := []string{"type", "get", "set", "has", "clear", "range", "new", "descriptor", "interface", "mutable", "is_valid", "x", "n", "l", "i", "options", "size", "input", "b", "v", "k", "f", "fd", "err", "state", "string", "reset"}
		for mi, m := range msgs {
			used := map[int32]bool{}
			num := func() int32 {
				for {
					var v int32
					switch rng.Intn(6) {
					case 0:
						v = 1 + rng.Int31n(15)
					case 1:
						v = 16 + rng.Int31n(2032)
					case 2:
						v = 2048 + rng.Int31n(260000)
					case 3:
						v = 262144 + rng.Int31n(33000000)
					case 4:
						v = 33554432 + rng.Int31n(500000000)
					default:
						v = tagNumbers[rng.Intn(len(tagNumbers))]
					}
					if v >= 19000 && v <= 19999 { // reserved range
						continue
					}
					if !used[v] {
						used[v] = true
						return v
					}
				}
			}
			typeOf := func(k T) string {
				switch k {
				case tEnum:
					return "." + pkg + ".E"
				case tMessage:
					return msgs[rng.Intn(len(msgs))].path
				}
				return ""
			}
			allKinds := append(append([]T{}, scalarKinds...), tEnum, tMessage)
			nFields := 3 + rng.Intn(10)
			// now and then a message without fields (still usable as a field type: it can carry unknown fields)
			if mi > 0 && rng.Intn(7) == 0 {
				nFields = 0
			}
			fi := 0
			usedNames := map[string]bool{}
			fname := func() string {
				fi++
				if rng.Intn(5) == 0 {
					if n := fieldPool[rng.Intn(len(fieldPool))]; !usedNames[n] {
						usedNames[n] = true
						return n
					}
				}
				return fmt.Sprintf("f%d_%d", mi, fi)
			}
			usedOneofs := map[string]bool{}
			oname := func(k int) string {
				if n := oneofPool[rng.Intn(len(oneofPool))]; !usedOneofs[n] {
					usedOneofs[n] = true
					return n
				}
				return fmt.Sprintf("o%d_%d", mi, k)
			}
			// an ordinary message that looks like a map entry
			if nFields > 0 && rng.Intn(8) == 0 {
				m.field("key", 1, mapKeyKinds[rng.Intn(len(mapKeyKinds))], "")
				vk := allKinds[rng.Intn(len(allKinds))]
				m.field("value", 2, vk, typeOf(vk))
				continue
			}
			for k := 0; k < nFields; k++ {
				kind := allKinds[rng.Intn(len(allKinds))]
				switch rng.Intn(5) {
				case 0, 1:
					m.field(fname(), num(), kind, typeOf(kind))
				case 2:
					if rng.Intn(2) == 0 && kind != tString && kind != tBytes && kind != tMessage {
						m.unpacked(fname(), num(), kind, typeOf(kind))
					} else {
						m.repeated(fname(), num(), kind, typeOf(kind))
					}
				case 3:
					kk := mapKeyKinds[rng.Intn(len(mapKeyKinds))]
					m.mapField(fname(), num(), kk, kind, typeOf(kind))
				case 4:
					on := oname(k)
					first := fname()
					// a hand-written oneof named like the synthetic oneof of a proto3-optional field (`_f` around f)
					if rng.Intn(6) == 0 && !usedOneofs["_"+first] {
						on = "_" + first
						usedOneofs[on] = true
					}
					o := m.oneof(on)
					nm := 1 + rng.Intn(4)
					for j := 0; j < nm; j++ {
						mk := allKinds[rng.Intn(len(allKinds))]
						fn := first
						if j > 0 {
							fn = fname()
						}
						m.member(o, fn, num(), mk, typeOf(mk))
					}
				}
			}
		}
		// standard options that do not change the Go API, explicit packed=true, explicit json_name, deprecation marks
		for _, m := range msgs {
			if rng.Intn(8) == 0 {
				m.msg.Options = &descriptorpb.MessageOptions{Deprecated: proto.Bool(true)}
			}
			for _, fd := range m.msg.Field {
				if rng.Intn(4) != 0 {
					continue
				}
				if fd.Options == nil {
					fd.Options = &descriptorpb.FieldOptions{}
				}
				repeated := fd.GetLabel() == descriptorpb.FieldDescriptorProto_LABEL_REPEATED
				switch fd.GetType() {
				case tInt64, tUint64, tSint64, tFixed64, tSfixed64:
					fd.Options.Jstype = []descriptorpb.FieldOptions_JSType{descriptorpb.FieldOptions_JS_STRING, descriptorpb.FieldOptions_JS_NUMBER, descriptorpb.FieldOptions_JS_NORMAL}[rng.Intn(3)].Enum()
				case tString:
					fd.Options.Ctype = []descriptorpb.FieldOptions_CType{descriptorpb.FieldOptions_CORD, descriptorpb.FieldOptions_STRING_PIECE}[rng.Intn(2)].Enum()
				case tMessage:
					if fd.OneofIndex == nil && !repeated {
						fd.Options.Lazy = proto.Bool(true)
					}
				default:
					if repeated && fd.Options.Packed == nil && fd.GetType() != tBytes {
						fd.Options.Packed = proto.Bool(true)
					}
				}
				if rng.Intn(3) == 0 {
					fd.Options.Deprecated = proto.Bool(true)
				}
				if rng.Intn(3) == 0 {
					fd.JsonName = proto.String("J" + fd.GetName() + ".x")
				}
			}
		}
		for _, m := range top {
			f.MessageType = append(f.MessageType, m.msg)
		}
		// a service over the file's own messages
		if rng.Intn(4) == 0 {
			a, b := msgs[rng.Intn(len(msgs))], msgs[rng.Intn(len(msgs))]
			f.Service = append(f.Service, &descriptorpb.ServiceDescriptorProto{Name: proto.String("Svc"), Method: []*descriptorpb.MethodDescriptorProto{
				{Name: proto.String("Call"), InputType: proto.String(a.path), OutputType: proto.String(b.path)},
				{Name: proto.String("Stream"), InputType: proto.String(b.path), OutputType: proto.String(a.path), ClientStreaming: proto.Bool(true), ServerStreaming: proto.Bool(true)},
			}})
		}
		// comments of every placement, as protoc passes them on
		if rng.Intn(3) == 0 {
			f.SourceCodeInfo = commentEverything(f)
		}
		files := []*descriptorpb.FileDescriptorProto{f}
		// every other schema has a second file in another Go package that uses the first one's types
		if i%2 == 1 {
			pkg2 := pkg + ".sub"
			f2 := file("vc/"+name+"_sub.proto", pkg2, goPkg(name, "sub"), f.GetName())
			u := newMsg(pkg2, "M0")
			o := u.oneof("value")
			target := msgs[rng.Intn(len(msgs))]
			u.member(o, "remote", 1, tMessage, target.path)
			u.member(o, "local", 2, tMessage, u.path)
			u.member(o, "e", 3, tEnum, "."+pkg+".E")
			u.repeated("all", 4, tMessage, msgs[rng.Intn(len(msgs))].path)
			u.mapField("by_id", 5, tInt64, tMessage, msgs[rng.Intn(len(msgs))].path)
			u.field("type", 6, tEnum, "."+pkg+".E")
			f2.MessageType = append(f2.MessageType, u.msg)
			files = append(files, f2)
		}
		sc := &Schema{Name: name, Files: files, Tier: "thorough"}
		// the request: files listed in reverse, one invocation per file, or the feature list spelled out
		switch rng.Intn(6) {
		case 0:
			if len(files) == 2 {
				sc.Generate = []string{files[1].GetName(), files[0].GetName()}
			}
		case 1:
			sc.PerFile = true
		case 2:
			sc.Param = "features=fast+protoc"
		}
		out = append(out, sc)
	}
	return out
}
