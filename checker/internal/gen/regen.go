package gen

import (
	"bytes"
	"fmt"
	"os"
	"os/exec"
	"path/filepath"
	"sort"
	"strings"
	"sync"

	"golang.org/x/tools/go/packages"
	"google.golang.org/protobuf/proto"
	"google.golang.org/protobuf/reflect/protodesc"
	"google.golang.org/protobuf/reflect/protoregistry"
	"google.golang.org/protobuf/types/descriptorpb"
	"google.golang.org/protobuf/types/pluginpb"

	"verif/checker/internal/core"
)

const CorpusModule = "verifcorpus"

// Schema is one generator request of the corpus.
type Schema struct {
	Name     string
	Files    []*descriptorpb.FileDescriptorProto // own files, dependency order
	Generate []string                            // file names to generate (default: all own files)
	Param    string
	// Expect describes what the request must produce.
	ExpectError  bool // plugin must answer with an error
	ExpectNoFile bool // plugin must produce no file
	Known        string // id of the known finding this schema isolates ("" = none)
	Tier         string // "quick" or "thorough"
	ExtraDeps    []*descriptorpb.FileDescriptorProto // non-generated, non-wellknown deps (e.g. cosmos.proto)
	PerFile      bool // one plugin invocation per file to generate (the way protoc is usually driven), outputs merged
	// NoModel: the output is type-checked but not modelled (a request for the protoc-gen-go part alone has no
	// fast-reflection code to analyse).
	NoModel bool
	// SomeNoFile: files to generate for which the plugin must produce nothing (proto2 files listed in the request).
	SomeNoFile []string
	// PbGo lists files of the request that the stock protoc-gen-go (built from the module cache) generates into the
	// same workspace: proto2 neighbours of the generated files, whose Go code another generator provides in real use.
	PbGo []string
	// OutMap places response files whose names are not import-path based (paths=source_relative, module=) into the
	// directory of their Go package: response name -> name under the corpus root. A name it does not list is kept.
	OutMap map[string]string
}

// Result of running the plugin on a schema.
type Result struct {
	Schema   *Schema
	Response *pluginpb.CodeGeneratorResponse
	RunErr   error
	Stderr   string
	Files    map[string]string // generated name -> content
}

// Workspace is the scratch area of one checker run.
type Workspace struct {
	Dir    string // scratch root
	Plugin string // built plugin binary
	ModDir string // root of the corpus module
	repo   string
	pbgo     string // the stock protoc-gen-go, built on demand
	pbgoOnce sync.Once
	pbgoErr  error
}

// NewWorkspace builds the working-tree plugin into a scratch dir.
func NewWorkspace(c *core.Ctx) (*Workspace, error) {
	dir, err := os.MkdirTemp("", "pulsarcheck-")
	if err != nil {
		return nil, err
	}
	c.Scratch = append(c.Scratch, dir)
	w := &Workspace{Dir: dir, Plugin: filepath.Join(dir, "protoc-gen-go-pulsar"), ModDir: filepath.Join(dir, "src", CorpusModule), repo: c.Repo}
	cmd := exec.Command("go", "build", "-o", w.Plugin, "./cmd/protoc-gen-go-pulsar")
	cmd.Dir = c.Repo
	cmd.Env = core.GoEnv("GOFLAGS=-mod=readonly")
	if out, err := cmd.CombinedOutput(); err != nil {
		return nil, fmt.Errorf("building the working-tree generator failed: %v\n%s", err, out)
	}
	if err := os.MkdirAll(w.ModDir, 0o755); err != nil {
		return nil, err
	}
	gomod := fmt.Sprintf("module %s\n\ngo 1.18\n\nrequire (\n\tgithub.com/cosmos/cosmos-proto v0.0.0\n\tgoogle.golang.org/protobuf v1.34.0\n)\n\nreplace github.com/cosmos/cosmos-proto => %s\n", CorpusModule, c.Repo)
	if err := os.WriteFile(filepath.Join(w.ModDir, "go.mod"), []byte(gomod), 0o644); err != nil {
		return nil, err
	}
	sum, err := os.ReadFile(filepath.Join(c.Repo, "go.sum"))
	if err != nil {
		return nil, err
	}
	if err := os.WriteFile(filepath.Join(w.ModDir, "go.sum"), sum, 0o644); err != nil {
		return nil, err
	}
	return w, nil
}

// depClosure returns all files needed by the schema in dependency order.
func depClosure(s *Schema) ([]*descriptorpb.FileDescriptorProto, error) {
	own := map[string]*descriptorpb.FileDescriptorProto{}
	for _, f := range s.Files {
		own[f.GetName()] = f
	}
	for _, f := range s.ExtraDeps {
		own[f.GetName()] = f
	}
	var out []*descriptorpb.FileDescriptorProto
	done := map[string]bool{}
	var visit func(name string) error
	visit = func(name string) error {
		if done[name] {
			return nil
		}
		done[name] = true
		var fdp *descriptorpb.FileDescriptorProto
		if f, ok := own[name]; ok {
			fdp = f
		} else {
			fd, err := protoregistry.GlobalFiles.FindFileByPath(name)
			if err != nil {
				return fmt.Errorf("dependency %s: %v", name, err)
			}
			fdp = protodesc.ToFileDescriptorProto(fd)
		}
		for _, d := range fdp.GetDependency() {
			if err := visit(d); err != nil {
				return err
			}
		}
		out = append(out, fdp)
		return nil
	}
	for _, f := range s.ExtraDeps {
		if err := visit(f.GetName()); err != nil {
			return nil, err
		}
	}
	for _, f := range s.Files {
		if err := visit(f.GetName()); err != nil {
			return nil, err
		}
	}
	return out, nil
}

// Request builds the CodeGeneratorRequest of a schema.
func Request(s *Schema) (*pluginpb.CodeGeneratorRequest, error) {
	all, err := depClosure(s)
	if err != nil {
		return nil, err
	}
	gen := s.Generate
	if gen == nil {
		for _, f := range s.Files {
			gen = append(gen, f.GetName())
		}
	}
	req := &pluginpb.CodeGeneratorRequest{FileToGenerate: gen, ProtoFile: all}
	if s.Param != "" {
		req.Parameter = proto.String(s.Param)
	}
	return req, nil
}

// Run executes the plugin (the repo's build tool) on one schema.
func (w *Workspace) Run(s *Schema) *Result {
	if s.PerFile {
		res := &Result{Schema: s, Files: map[string]string{}}
		gen := s.Generate
		if gen == nil {
			for _, f := range s.Files {
				gen = append(gen, f.GetName())
			}
		}
		// reverse dependency order, so that nothing depends on what an earlier invocation happened to produce
		for i := len(gen) - 1; i >= 0; i-- {
			one := *s
			one.PerFile = false
			one.Generate = []string{gen[i]}
			r := w.Run(&one)
			if r.RunErr != nil {
				res.RunErr = fmt.Errorf("invocation for %s: %v", gen[i], r.RunErr)
				return res
			}
			if r.Response.Error != nil {
				res.Response = r.Response
				return res
			}
			if res.Response == nil {
				res.Response = &pluginpb.CodeGeneratorResponse{SupportedFeatures: r.Response.SupportedFeatures}
			}
			res.Response.File = append(res.Response.File, r.Response.File...)
			for n, c := range r.Files {
				if _, dup := res.Files[n]; dup {
					res.RunErr = fmt.Errorf("file %s produced by two invocations", n)
					return res
				}
				res.Files[n] = c
			}
		}
		return res
	}
	res := &Result{Schema: s, Files: map[string]string{}}
	req, err := Request(s)
	if err != nil {
		res.RunErr = err
		return res
	}
	in, err := proto.Marshal(req)
	if err != nil {
		res.RunErr = err
		return res
	}
	cmd := exec.Command(w.Plugin)
	cmd.Stdin = bytes.NewReader(in)
	var stdout, stderr bytes.Buffer
	cmd.Stdout, cmd.Stderr = &stdout, &stderr
	cmd.Env = []string{"PATH=/usr/bin:/bin", "HOME=" + w.Dir, "TMPDIR=" + w.Dir}
	err = cmd.Run()
	res.Stderr = stderr.String()
	if err != nil {
		res.RunErr = fmt.Errorf("plugin process failed: %v: %s", err, tail(res.Stderr, 600))
		return res
	}
	resp := &pluginpb.CodeGeneratorResponse{}
	if err := proto.Unmarshal(stdout.Bytes(), resp); err != nil {
		res.RunErr = fmt.Errorf("plugin response does not parse: %v", err)
		return res
	}
	res.Response = resp
	for _, f := range resp.File {
		n := f.GetName()
		if to, ok := s.OutMap[n]; ok {
			n = to
		}
		res.Files[n] = f.GetContent()
	}
	if len(s.PbGo) > 0 && resp.Error == nil {
		if err := w.runPbGo(s, req, res); err != nil {
			res.RunErr = fmt.Errorf("companion protoc-gen-go: %v", err)
		}
	}
	return res
}

// runPbGo generates the schema's PbGo files with the stock protoc-gen-go.
func (w *Workspace) runPbGo(s *Schema, req *pluginpb.CodeGeneratorRequest, res *Result) error {
	w.pbgoOnce.Do(func() {
		w.pbgo = filepath.Join(w.Dir, "protoc-gen-go")
		cmd := exec.Command("go", "build", "-o", w.pbgo, "google.golang.org/protobuf/cmd/protoc-gen-go")
		cmd.Dir = w.repo
		cmd.Env = core.GoEnv("GOFLAGS=-mod=mod")
		if out, err := cmd.CombinedOutput(); err != nil {
			w.pbgoErr = fmt.Errorf("building protoc-gen-go from the module cache failed: %v\n%s", err, out)
		}
	})
	if w.pbgoErr != nil {
		return w.pbgoErr
	}
	r2 := proto.Clone(req).(*pluginpb.CodeGeneratorRequest)
	r2.FileToGenerate = s.PbGo
	r2.Parameter = nil
	in, err := proto.Marshal(r2)
	if err != nil {
		return err
	}
	cmd := exec.Command(w.pbgo)
	cmd.Stdin = bytes.NewReader(in)
	var stdout, stderr bytes.Buffer
	cmd.Stdout, cmd.Stderr = &stdout, &stderr
	cmd.Env = []string{"PATH=/usr/bin:/bin", "HOME=" + w.Dir, "TMPDIR=" + w.Dir}
	if err := cmd.Run(); err != nil {
		return fmt.Errorf("%v: %s", err, tail(stderr.String(), 400))
	}
	resp := &pluginpb.CodeGeneratorResponse{}
	if err := proto.Unmarshal(stdout.Bytes(), resp); err != nil {
		return err
	}
	if resp.Error != nil {
		return fmt.Errorf("%s", resp.GetError())
	}
	for _, f := range resp.File {
		res.Files[f.GetName()] = f.GetContent()
	}
	return nil
}

func tail(s string, n int) string {
	if len(s) > n {
		return "…" + s[len(s)-n:]
	}
	return s
}

// RunAll runs the plugin on all schemas in parallel.
func (w *Workspace) RunAll(ss []*Schema) []*Result {
	out := make([]*Result, len(ss))
	var wg sync.WaitGroup
	sem := make(chan struct{}, 16)
	for i, s := range ss {
		wg.Add(1)
		go func(i int, s *Schema) {
			defer wg.Done()
			sem <- struct{}{}
			out[i] = w.Run(s)
			<-sem
		}(i, s)
	}
	wg.Wait()
	return out
}

// Write stores the generated files of a result under the corpus module.
// Generated names are import-path based ("verifcorpus/<schema>/.../x.pulsar.go").
func (w *Workspace) Write(r *Result) ([]string, error) {
	var dirs []string
	seen := map[string]bool{}
	names := make([]string, 0, len(r.Files))
	for n := range r.Files {
		names = append(names, n)
	}
	sort.Strings(names)
	for _, n := range names {
		if !strings.HasPrefix(n, CorpusModule+"/") {
			return nil, fmt.Errorf("generated file %s is outside the corpus module", n)
		}
		p := filepath.Join(filepath.Dir(w.ModDir), n)
		if err := os.MkdirAll(filepath.Dir(p), 0o755); err != nil {
			return nil, err
		}
		if err := os.WriteFile(p, []byte(r.Files[n]), 0o644); err != nil {
			return nil, err
		}
		d := filepath.Dir(p)
		if !seen[d] {
			seen[d] = true
			dirs = append(dirs, d)
		}
	}
	return dirs, nil
}

// LoadGenerated type-checks all packages under the corpus module.
func (w *Workspace) LoadGenerated(goarch string) ([]*packages.Package, error) {
	// -trimpath keeps the compile actions independent of the scratch directory, so repeated runs hit the build cache
	env := core.GoEnv("GOFLAGS=-mod=mod -trimpath")
	if goarch != "" {
		env = append(env, "GOARCH="+goarch)
	}
	cfg := &packages.Config{
		Mode: packages.NeedName | packages.NeedFiles | packages.NeedCompiledGoFiles | packages.NeedImports |
			packages.NeedTypes | packages.NeedSyntax | packages.NeedTypesInfo | packages.NeedTypesSizes,
		Dir: w.ModDir,
		Env: env,
	}
	pkgs, err := packages.Load(cfg, "./...")
	if err != nil {
		return nil, err
	}
	sort.Slice(pkgs, func(i, j int) bool { return pkgs[i].PkgPath < pkgs[j].PkgPath })
	return pkgs, nil
}
