// Package gen obtains generated sources to analyse: it reads the descriptors
// embedded in generated Go files (statically, from the AST), builds the
// working-tree generator and runs it, as a build step, on those schemas and on
// the checker's schema corpus.
package gen

import (
	"fmt"
	"go/ast"
	"go/constant"
	"go/token"
	"go/types"
	"strings"

	"google.golang.org/protobuf/proto"
	"google.golang.org/protobuf/types/descriptorpb"
)

// RawDescs extracts every `file_*_rawDesc = []byte{...}` literal of the files.
func RawDescs(files []*ast.File, info *types.Info) (map[string]*descriptorpb.FileDescriptorProto, map[string][]byte, error) {
	out := map[string]*descriptorpb.FileDescriptorProto{}
	raw := map[string][]byte{}
	for _, f := range files {
		for _, d := range f.Decls {
			gd, ok := d.(*ast.GenDecl)
			if !ok || gd.Tok != token.VAR {
				continue
			}
			for _, sp := range gd.Specs {
				vs := sp.(*ast.ValueSpec)
				for i, n := range vs.Names {
					if !strings.HasPrefix(n.Name, "file_") || !strings.HasSuffix(n.Name, "_rawDesc") || i >= len(vs.Values) {
						continue
					}
					var b []byte
					cl, ok := vs.Values[i].(*ast.CompositeLit)
					if !ok {
						// []byte("…" + "…"): a constant string converted to bytes
						if call, isCall := ast.Unparen(vs.Values[i]).(*ast.CallExpr); isCall && len(call.Args) == 1 {
							if tv, has := info.Types[call.Fun]; has && tv.IsType() && tv.Type.String() == "[]byte" {
								if av, has := info.Types[call.Args[0]]; has && av.Value != nil && av.Value.Kind() == constant.String {
									b = []byte(constant.StringVal(av.Value))
									ok = true
								}
							}
						}
						if !ok {
							return nil, nil, fmt.Errorf("%s is neither a byte list nor a constant string converted to []byte", n.Name)
						}
						cl = &ast.CompositeLit{}
					} else {
						b = make([]byte, 0, len(cl.Elts))
					}
					for _, e := range cl.Elts {
						tv, ok := info.Types[e]
						if !ok || tv.Value == nil {
							return nil, nil, fmt.Errorf("%s: non-constant element", n.Name)
						}
						v, ok := constant.Uint64Val(constant.ToInt(tv.Value))
						if !ok || v > 255 {
							return nil, nil, fmt.Errorf("%s: element out of range", n.Name)
						}
						b = append(b, byte(v))
					}
					fd := &descriptorpb.FileDescriptorProto{}
					if err := (proto.UnmarshalOptions{AllowPartial: true}).Unmarshal(b, fd); err != nil {
						return nil, nil, fmt.Errorf("%s: %v", n.Name, err)
					}
					out[n.Name] = fd
					raw[n.Name] = b
				}
			}
		}
	}
	return out, raw, nil
}
