package gen

import (
	"google.golang.org/protobuf/reflect/protodesc"
	"google.golang.org/protobuf/reflect/protoregistry"
	"google.golang.org/protobuf/encoding/protowire"
	"fmt"
	"strings"

	"google.golang.org/protobuf/proto"
	"google.golang.org/protobuf/types/descriptorpb"
)

type T = descriptorpb.FieldDescriptorProto_Type

const (
	tDouble   = descriptorpb.FieldDescriptorProto_TYPE_DOUBLE
	tFloat    = descriptorpb.FieldDescriptorProto_TYPE_FLOAT
	tInt64    = descriptorpb.FieldDescriptorProto_TYPE_INT64
	tUint64   = descriptorpb.FieldDescriptorProto_TYPE_UINT64
	tInt32    = descriptorpb.FieldDescriptorProto_TYPE_INT32
	tFixed64  = descriptorpb.FieldDescriptorProto_TYPE_FIXED64
	tFixed32  = descriptorpb.FieldDescriptorProto_TYPE_FIXED32
	tBool     = descriptorpb.FieldDescriptorProto_TYPE_BOOL
	tString   = descriptorpb.FieldDescriptorProto_TYPE_STRING
	tMessage  = descriptorpb.FieldDescriptorProto_TYPE_MESSAGE
	tBytes    = descriptorpb.FieldDescriptorProto_TYPE_BYTES
	tUint32   = descriptorpb.FieldDescriptorProto_TYPE_UINT32
	tEnum     = descriptorpb.FieldDescriptorProto_TYPE_ENUM
	tSfixed32 = descriptorpb.FieldDescriptorProto_TYPE_SFIXED32
	tSfixed64 = descriptorpb.FieldDescriptorProto_TYPE_SFIXED64
	tSint32   = descriptorpb.FieldDescriptorProto_TYPE_SINT32
	tSint64   = descriptorpb.FieldDescriptorProto_TYPE_SINT64
)

var scalarKinds = []T{tDouble, tFloat, tInt64, tUint64, tInt32, tFixed64, tFixed32, tBool, tString, tBytes, tUint32, tSfixed32, tSfixed64, tSint32, tSint64}
var numericKinds = []T{tDouble, tFloat, tInt64, tUint64, tInt32, tFixed64, tFixed32, tBool, tUint32, tSfixed32, tSfixed64, tSint32, tSint64}
var mapKeyKinds = []T{tInt64, tUint64, tInt32, tFixed64, tFixed32, tBool, tString, tUint32, tSfixed32, tSfixed64, tSint32, tSint64}

func kname(t T) string { return strings.ToLower(strings.TrimPrefix(t.String(), "TYPE_")) }

type mb struct {
	pkg  string
	msg  *descriptorpb.DescriptorProto
	path string // fully-qualified name with leading dot
}

func newMsg(pkg, name string) *mb {
	return &mb{pkg: pkg, msg: &descriptorpb.DescriptorProto{Name: proto.String(name)}, path: "." + pkg + "." + name}
}

func (m *mb) nested(name string) *mb {
	n := &mb{pkg: m.pkg, msg: &descriptorpb.DescriptorProto{Name: proto.String(name)}, path: m.path + "." + name}
	m.msg.NestedType = append(m.msg.NestedType, n.msg)
	return n
}

func jsonName(n string) string {
	out := ""
	up := false
	for _, r := range n {
		if r == '_' {
			up = true
			continue
		}
		if up && r >= 'a' && r <= 'z' {
			r -= 32
		}
		up = false
		out += string(r)
	}
	return out
}

func (m *mb) field(name string, num int32, t T, typeName string) *descriptorpb.FieldDescriptorProto {
	f := &descriptorpb.FieldDescriptorProto{Name: proto.String(name), Number: proto.Int32(num), Type: t.Enum(),
		Label: descriptorpb.FieldDescriptorProto_LABEL_OPTIONAL.Enum(), JsonName: proto.String(jsonName(name))}
	if typeName != "" {
		f.TypeName = proto.String(typeName)
	}
	m.msg.Field = append(m.msg.Field, f)
	return f
}

func (m *mb) repeated(name string, num int32, t T, typeName string) *descriptorpb.FieldDescriptorProto {
	f := m.field(name, num, t, typeName)
	f.Label = descriptorpb.FieldDescriptorProto_LABEL_REPEATED.Enum()
	return f
}

func (m *mb) unpacked(name string, num int32, t T, typeName string) *descriptorpb.FieldDescriptorProto {
	f := m.repeated(name, num, t, typeName)
	f.Options = &descriptorpb.FieldOptions{Packed: proto.Bool(false)}
	return f
}

func (m *mb) oneof(name string) int32 {
	m.msg.OneofDecl = append(m.msg.OneofDecl, &descriptorpb.OneofDescriptorProto{Name: proto.String(name)})
	return int32(len(m.msg.OneofDecl) - 1)
}

func (m *mb) member(oneof int32, name string, num int32, t T, typeName string) *descriptorpb.FieldDescriptorProto {
	f := m.field(name, num, t, typeName)
	f.OneofIndex = proto.Int32(oneof)
	return f
}

func camel(s string) string {
	out := ""
	up := true
	for _, r := range s {
		if r == '_' {
			up = true
			continue
		}
		if up && r >= 'a' && r <= 'z' {
			r -= 32
		}
		up = false
		out += string(r)
	}
	return out
}

func (m *mb) mapField(name string, num int32, kt T, vt T, vTypeName string) *descriptorpb.FieldDescriptorProto {
	en := camel(name) + "Entry"
	e := m.nested(en)
	e.msg.Options = &descriptorpb.MessageOptions{MapEntry: proto.Bool(true)}
	e.field("key", 1, kt, "")
	e.field("value", 2, vt, vTypeName)
	return m.repeated(name, num, tMessage, e.path)
}

func file(name, pkg, goPkg string, deps ...string) *descriptorpb.FileDescriptorProto {
	return &descriptorpb.FileDescriptorProto{Name: proto.String(name), Package: proto.String(pkg), Syntax: proto.String("proto3"),
		Dependency: deps, Options: &descriptorpb.FileOptions{GoPackage: proto.String(goPkg)}}
}

func enum(name string, vals ...interface{}) *descriptorpb.EnumDescriptorProto {
	e := &descriptorpb.EnumDescriptorProto{Name: proto.String(name)}
	for i := 0; i < len(vals); i += 2 {
		e.Value = append(e.Value, &descriptorpb.EnumValueDescriptorProto{Name: proto.String(vals[i].(string)), Number: proto.Int32(int32(vals[i+1].(int)))})
	}
	return e
}

func goPkg(schema, sub string) string {
	p := CorpusModule + "/" + schema
	if sub != "" {
		p += "/" + sub
	}
	return p
}

var tagNumbers = []int32{1, 15, 16, 2047, 2048, 262143, 262144, 33554431, 33554432, 536870911}

// Corpus returns the schema corpus for the tier.
func Corpus(tier string, embedded []*Schema) []*Schema {
	var out []*Schema
	add := func(s *Schema) {
		if s.Tier == "" {
			s.Tier = "quick"
		}
		if s.Tier == "quick" || tier == "thorough" {
			out = append(out, s)
		}
	}

	// ---- kinds: every kind in every legal shape
	{
		pkg := "vc.kinds"
		f := file("vc/kinds.proto", pkg, goPkg("kinds", ""))
		f.EnumType = append(f.EnumType, enum("E", "E_ZERO", 0, "E_ONE", 1, "E_BIG", 1000))
		sub := newMsg(pkg, "Sub")
		sub.field("v", 1, tInt32, "")
		sub.field("s", 2, tString, "")
		sc := newMsg(pkg, "Scalars")
		n := int32(1)
		for _, k := range scalarKinds {
			sc.field("f_"+kname(k), n, k, "")
			n++
		}
		sc.field("f_enum", n, tEnum, "."+pkg+".E")
		n++
		sc.field("f_msg", n, tMessage, sub.path)
		rp := newMsg(pkg, "Repeated")
		n = 1
		for _, k := range scalarKinds {
			rp.repeated("r_"+kname(k), n, k, "")
			n++
		}
		rp.repeated("r_enum", n, tEnum, "."+pkg+".E")
		n++
		rp.repeated("r_msg", n, tMessage, sub.path)
		up := newMsg(pkg, "Unpacked")
		n = 1
		for _, k := range numericKinds {
			up.unpacked("u_"+kname(k), n, k, "")
			n++
		}
		up.unpacked("u_enum", n, tEnum, "."+pkg+".E")
		oo := newMsg(pkg, "Oneofs")
		o := oo.oneof("choice")
		n = 1
		for _, k := range scalarKinds {
			oo.member(o, "o_"+kname(k), n, k, "")
			n++
		}
		oo.member(o, "o_enum", n, tEnum, "."+pkg+".E")
		n++
		oo.member(o, "o_msg", n, tMessage, sub.path)
		mp := newMsg(pkg, "Maps")
		n = 1
		vals := append(append([]T{}, scalarKinds...), tEnum, tMessage)
		for i, vt := range vals {
			kt := mapKeyKinds[i%len(mapKeyKinds)]
			tn := ""
			if vt == tEnum {
				tn = "." + pkg + ".E"
			} else if vt == tMessage {
				tn = sub.path
			}
			mp.mapField(fmt.Sprintf("m_%s_%s", kname(kt), kname(vt)), n, kt, vt, tn)
			n++
		}
		f.MessageType = append(f.MessageType, sub.msg, sc.msg, rp.msg, up.msg, oo.msg, mp.msg)
		add(&Schema{Name: "kinds", Files: []*descriptorpb.FileDescriptorProto{f}})
	}

	// ---- full map matrix (thorough)
	{
		pkg := "vc.mapmatrix"
		f := file("vc/mapmatrix.proto", pkg, goPkg("mapmatrix", ""))
		f.EnumType = append(f.EnumType, enum("E", "E_ZERO", 0, "E_ONE", 1))
		sub := newMsg(pkg, "Sub")
		sub.field("v", 1, tInt32, "")
		f.MessageType = append(f.MessageType, sub.msg)
		vals := append(append([]T{}, scalarKinds...), tEnum, tMessage)
		for _, kt := range mapKeyKinds {
			m := newMsg(pkg, "K"+camel(kname(kt)))
			n := int32(1)
			for _, vt := range vals {
				tn := ""
				if vt == tEnum {
					tn = "." + pkg + ".E"
				} else if vt == tMessage {
					tn = sub.path
				}
				m.mapField("m_"+kname(vt), n, kt, vt, tn)
				n++
			}
			f.MessageType = append(f.MessageType, m.msg)
		}
		add(&Schema{Name: "mapmatrix", Files: []*descriptorpb.FileDescriptorProto{f}, Tier: "thorough"})
	}

	// ---- tag widths
	{
		pkg := "vc.tags"
		f := file("vc/tags.proto", pkg, goPkg("tags", ""))
		sub := newMsg(pkg, "Sub")
		sub.field("v", 1, tInt32, "")
		f.MessageType = append(f.MessageType, sub.msg)
		mk := func(name string, build func(m *mb, fname string, num int32)) {
			m := newMsg(pkg, name)
			for _, n := range tagNumbers {
				build(m, fmt.Sprintf("f%d", n), n)
			}
			f.MessageType = append(f.MessageType, m.msg)
		}
		mk("TVarint", func(m *mb, fn string, n int32) { m.field(fn, n, tInt64, "") })
		mk("TFixed32", func(m *mb, fn string, n int32) { m.field(fn, n, tFixed32, "") })
		mk("TFixed64", func(m *mb, fn string, n int32) { m.field(fn, n, tDouble, "") })
		mk("TString", func(m *mb, fn string, n int32) { m.field(fn, n, tString, "") })
		mk("TMsg", func(m *mb, fn string, n int32) { m.field(fn, n, tMessage, sub.path) })
		mk("TPacked", func(m *mb, fn string, n int32) { m.repeated(fn, n, tSint64, "") })
		mk("TRepMsg", func(m *mb, fn string, n int32) { m.repeated(fn, n, tMessage, sub.path) })
		mk("TMap", func(m *mb, fn string, n int32) { m.mapField(fn, n, tString, tInt32, "") })
		{
			m := newMsg(pkg, "TOneof")
			o := m.oneof("o")
			for i, n := range tagNumbers {
				k := []T{tInt32, tString, tFixed64, tMessage, tBool}[i%5]
				tn := ""
				if k == tMessage {
					tn = sub.path
				}
				m.member(o, fmt.Sprintf("f%d", n), n, k, tn)
			}
			f.MessageType = append(f.MessageType, m.msg)
		}
		add(&Schema{Name: "tags", Files: []*descriptorpb.FileDescriptorProto{f}})
	}

	// ---- ordering: interleaved oneofs, fields out of number order
	{
		pkg := "vc.order"
		f := file("vc/order.proto", pkg, goPkg("order", ""))
		m := newMsg(pkg, "Interleaved")
		o1 := m.oneof("first")
		o2 := m.oneof("second")
		o3 := m.oneof("third")
		m.field("z_last", 90, tInt32, "")
		m.member(o2, "b2", 12, tString, "")
		m.member(o2, "b1", 50, tFixed32, "")
		m.field("mid", 40, tString, "")
		m.member(o1, "a2", 30, tInt64, "")
		m.member(o1, "a1", 7, tBytes, "")
		m.field("a_first", 1, tDouble, "")
		m.member(o3, "c2", 60, tSfixed64, "")
		m.member(o3, "c1", 3, tBool, "")
		m.repeated("packed_mid", 20, tUint32, "")
		m.mapField("tail_map", 100, tInt32, tString, "")
		f.MessageType = append(f.MessageType, m.msg)
		// oneofs whose field numbers run against their declaration order (the first declared uses the largest numbers)
		r := newMsg(pkg, "Reordered")
		s1 := r.oneof("source")
		s2 := r.oneof("payload")
		s3 := r.oneof("extra")
		r.member(s1, "user", 16, tString, "")
		r.member(s1, "system", 17, tInt32, "")
		r.member(s2, "text", 2, tString, "")
		r.member(s2, "blob", 30, tBytes, "")
		r.member(s3, "flag", 4, tBool, "")
		r.field("id", 1, tInt32, "")
		r.field("seq", 9, tInt32, "")
		f.MessageType = append(f.MessageType, r.msg)
		add(&Schema{Name: "order", Files: []*descriptorpb.FileDescriptorProto{f}})
	}

	// ---- nesting and recursion
	{
		pkg := "vc.nest"
		f := file("vc/nest.proto", pkg, goPkg("nest", ""))
		outer := newMsg(pkg, "Outer")
		mid := outer.nested("Mid")
		inner := mid.nested("Inner")
		inner.field("leaf", 1, tString, "")
		inner.msg.EnumType = append(inner.msg.EnumType, enum("Color", "RED", 0, "GREEN", 1))
		inner.field("color", 2, tEnum, inner.path+".Color")
		// a fourth nesting level, and json_name set explicitly (to something the default derivation would not give)
		deepest := inner.nested("Deepest")
		deepest.field("some_value", 1, tInt64, "")
		deepest.msg.Field[0].JsonName = proto.String("custom_JSON.name")
		deepest.repeated("more_values", 2, tString, "")
		deepest.msg.Field[1].JsonName = proto.String("MoreValues")
		deepest.field("quoted", 3, tBool, "")
		deepest.msg.Field[2].JsonName = proto.String("a`b`c\\\"d")
		inner.field("deepest", 3, tMessage, deepest.path)
		mid.field("inner", 1, tMessage, inner.path)
		mid.repeated("inners", 2, tMessage, inner.path)
		outer.field("mid", 1, tMessage, mid.path)
		outer.mapField("by_name", 2, tString, tMessage, inner.path)
		o := outer.oneof("alt")
		outer.member(o, "alt_inner", 3, tMessage, inner.path)
		outer.member(o, "alt_color", 4, tEnum, inner.path+".Color")
		rec := newMsg(pkg, "Rec")
		rec.field("self", 1, tMessage, rec.path)
		rec.repeated("children", 2, tMessage, rec.path)
		rec.mapField("named", 3, tString, tMessage, rec.path)
		ro := rec.oneof("pick")
		rec.member(ro, "pick_self", 4, tMessage, rec.path)
		rec.field("v", 5, tInt32, "")
		ma := newMsg(pkg, "MutA")
		mbb := newMsg(pkg, "MutB")
		ma.field("b", 1, tMessage, mbb.path)
		mbb.field("a", 1, tMessage, ma.path)
		mbb.field("n", 2, tSint32, "")
		// declarations reached through different, non-zero indexes at every level (index paths of four and five elements)
		deep := newMsg(pkg, "Deep")
		deep.nested("A0").field("a", 1, tBool, "")
		a1 := deep.nested("A1")
		a1.nested("B0").field("b", 1, tBool, "")
		a1.nested("B1").field("b", 1, tInt32, "")
		b2 := a1.nested("B2")
		b2.nested("C0").field("c", 1, tString, "")
		c1 := b2.nested("C1")
		c1.msg.EnumType = append(c1.msg.EnumType, enum("First", "FIRST_ZERO", 0), enum("Second", "SECOND_ZERO", 0, "SECOND_ONE", 1))
		c1.field("second", 1, tEnum, c1.path+".Second")
		c1.field("up", 2, tMessage, a1.path)
		// enums spread over the tree so that declaration order, depth-first order and "all messages" order differ
		deep.msg.NestedType[0].EnumType = append(deep.msg.NestedType[0].EnumType, enum("InA0", "IN_A0_ZERO", 0, "IN_A0_ONE", 1))
		a1.msg.NestedType[0].EnumType = append(a1.msg.NestedType[0].EnumType, enum("InB0", "IN_B0_ZERO", 0, "IN_B0_TWO", 2))
		a1.msg.EnumType = append(a1.msg.EnumType, enum("InA1", "IN_A1_ZERO", 0, "IN_A1_THREE", 3))
		deep.msg.EnumType = append(deep.msg.EnumType, enum("InDeep", "IN_DEEP_ZERO", 0, "IN_DEEP_FOUR", 4))
		deep.field("e_a0", 2, tEnum, deep.path+".A0.InA0")
		deep.field("e_b0", 3, tEnum, a1.path+".B0.InB0")
		deep.field("e_a1", 4, tEnum, a1.path+".InA1")
		deep.repeated("e_deep", 5, tEnum, deep.path+".InDeep")
		deep.field("leaf", 1, tMessage, c1.path)
		f.MessageType = append(f.MessageType, outer.msg, rec.msg, ma.msg, mbb.msg, deep.msg)
		add(&Schema{Name: "nest", Files: []*descriptorpb.FileDescriptorProto{f}})
	}

	// ---- imports across two Go packages
	{
		fa := file("vc/imp/a.proto", "vc.imp.a", goPkg("imp", "a"))
		fa.EnumType = append(fa.EnumType, enum("Kind", "KIND_UNSPECIFIED", 0, "KIND_X", 5))
		am := newMsg("vc.imp.a", "Shared")
		am.field("id", 1, tUint64, "")
		fa.MessageType = append(fa.MessageType, am.msg)
		fb := file("vc/imp/b.proto", "vc.imp.b", goPkg("imp", "b"), "vc/imp/a.proto")
		bm := newMsg("vc.imp.b", "User")
		bm.field("shared", 1, tMessage, am.path)
		bm.repeated("shareds", 2, tMessage, am.path)
		bm.field("kind", 3, tEnum, ".vc.imp.a.Kind")
		bm.repeated("kinds", 4, tEnum, ".vc.imp.a.Kind")
		bm.mapField("by_id", 5, tUint64, tMessage, am.path)
		bm.mapField("kind_of", 6, tString, tEnum, ".vc.imp.a.Kind")
		o := bm.oneof("x")
		bm.member(o, "x_shared", 7, tMessage, am.path)
		bm.member(o, "x_kind", 8, tEnum, ".vc.imp.a.Kind")
		fb.MessageType = append(fb.MessageType, bm.msg)
		// a service whose methods take and return messages of the imported file
		fb.Service = append(fb.Service, &descriptorpb.ServiceDescriptorProto{Name: proto.String("Users"), Method: []*descriptorpb.MethodDescriptorProto{
			{Name: proto.String("Lookup"), InputType: proto.String(am.path), OutputType: proto.String(bm.path)},
			{Name: proto.String("Share"), InputType: proto.String(bm.path), OutputType: proto.String(am.path), ClientStreaming: proto.Bool(true)},
		}})
		add(&Schema{Name: "imp", Files: []*descriptorpb.FileDescriptorProto{fa, fb}})
		// only b requested: a must not be generated
		add(&Schema{Name: "imp_only_b", Files: []*descriptorpb.FileDescriptorProto{fa, fb}, Generate: []string{"vc/imp/b.proto"}, Tier: "thorough"})
	}

	// ---- two Go packages with the same package name but different import paths, one importing the other
	{
		fa := file("vc/samename/one.proto", "vc.samename.one", goPkg("samename", "one/types"))
		am := newMsg("vc.samename.one", "Thing")
		am.field("id", 1, tInt64, "")
		fa.MessageType = append(fa.MessageType, am.msg)
		fb := file("vc/samename/two.proto", "vc.samename.two", goPkg("samename", "two/types"), "vc/samename/one.proto")
		bm := newMsg("vc.samename.two", "Holder")
		bm.field("thing", 1, tMessage, am.path)
		bm.repeated("things", 2, tMessage, am.path)
		fb.MessageType = append(fb.MessageType, bm.msg)
		// the same short message name in the second package, with names that need rewriting in both
		am.field("type", 2, tString, "")
		bt := newMsg("vc.samename.two", "Thing")
		bt.field("type", 1, tInt32, "")
		bt.field("get", 2, tString, "")
		bo := bt.oneof("has")
		bt.member(bo, "clear", 3, tBool, "")
		fb.MessageType = append(fb.MessageType, bt.msg)
		// oneof / map / list members whose message type lives in the other package while a same-named local type exists
		ho := bm.oneof("sel")
		bm.member(ho, "remote", 3, tMessage, am.path)
		bm.member(ho, "local", 4, tMessage, bt.path)
		bm.mapField("remote_by_id", 5, tInt64, tMessage, am.path)
		bm.mapField("local_by_id", 6, tInt64, tMessage, bt.path)
		bm.repeated("locals", 7, tMessage, bt.path)
		// and two files of the SAME Go package, one importing the other (init chaining within a package)
		fc := file("vc/samename/three.proto", "vc.samename.two", goPkg("samename", "two/types"), "vc/samename/two.proto")
		cm := newMsg("vc.samename.two", "Outer")
		cm.field("holder", 1, tMessage, bm.path)
		fc.MessageType = append(fc.MessageType, cm.msg)
		// and an import that no Go identifier of the file refers to (imported for its options, or simply unused), from yet
		// another directory whose Go package is again called "types": it must still be linked in (blank import)
		fu := file("vc/samename/unused.proto", "vc.samename.unused", goPkg("samename", "unused/types"))
		fu.EnumType = append(fu.EnumType, enum("Flag", "FLAG_UNSPECIFIED", 0, "FLAG_SET", 1))
		fc.Dependency = append(fc.Dependency, "vc/samename/unused.proto")
		add(&Schema{Name: "samename", Files: []*descriptorpb.FileDescriptorProto{fa, fb, fu, fc}})
		// the same files, one plugin invocation per file (what `protoc a.proto; protoc b.proto` does)
		cl := func(f *descriptorpb.FileDescriptorProto, from, to string) *descriptorpb.FileDescriptorProto {
			c := proto.Clone(f).(*descriptorpb.FileDescriptorProto)
			c.Options.GoPackage = proto.String(strings.Replace(c.Options.GetGoPackage(), from, to, 1))
			return c
		}
		add(&Schema{Name: "perfile", Files: []*descriptorpb.FileDescriptorProto{cl(fa, "/samename/", "/perfile/"), cl(fb, "/samename/", "/perfile/"), cl(fu, "/samename/", "/perfile/"), cl(fc, "/samename/", "/perfile/")}, PerFile: true})
	}

	// ---- services (method input/output dependencies)
	{
		pkg := "vc.svc"
		f := file("vc/svc.proto", pkg, goPkg("svc", ""))
		rq := newMsg(pkg, "Req")
		rq.field("q", 1, tString, "")
		rs := newMsg(pkg, "Resp")
		rs.field("r", 1, tInt64, "")
		ev := newMsg(pkg, "Event")
		ev.field("e", 1, tBytes, "")
		f.MessageType = append(f.MessageType, rq.msg, rs.msg, ev.msg)
		f.Service = append(f.Service, &descriptorpb.ServiceDescriptorProto{Name: proto.String("Svc"), Method: []*descriptorpb.MethodDescriptorProto{
			{Name: proto.String("Ask"), InputType: proto.String(rq.path), OutputType: proto.String(rs.path)},
			{Name: proto.String("Watch"), InputType: proto.String(rs.path), OutputType: proto.String(ev.path), ServerStreaming: proto.Bool(true)},
		}})
		add(&Schema{Name: "svc", Files: []*descriptorpb.FileDescriptorProto{f}})
	}

	// ---- well-known types
	{
		pkg := "vc.wkt"
		f := file("vc/wkt.proto", pkg, goPkg("wkt", ""), "google/protobuf/any.proto", "google/protobuf/timestamp.proto", "google/protobuf/duration.proto", "google/protobuf/field_mask.proto", "google/protobuf/wrappers.proto")
		m := newMsg(pkg, "W")
		wk := []string{".google.protobuf.Any", ".google.protobuf.Timestamp", ".google.protobuf.Duration", ".google.protobuf.FieldMask", ".google.protobuf.StringValue", ".google.protobuf.Int64Value", ".google.protobuf.BytesValue"}
		n := int32(1)
		for _, w := range wk {
			short := strings.ToLower(w[strings.LastIndex(w, ".")+1:])
			m.field("s_"+short, n, tMessage, w)
			n++
			m.repeated("r_"+short, n, tMessage, w)
			n++
			m.mapField("m_"+short, n, tString, tMessage, w)
			n++
		}
		o := m.oneof("pick")
		for _, w := range wk[:4] {
			short := strings.ToLower(w[strings.LastIndex(w, ".")+1:])
			m.member(o, "o_"+short, n, tMessage, w)
			n++
		}
		f.MessageType = append(f.MessageType, m.msg)
		add(&Schema{Name: "wkt", Files: []*descriptorpb.FileDescriptorProto{f}})
	}

	// ---- names colliding with protoreflect.Message methods and local identifiers (fields only)
	{
		pkg := "vc.names"
		f := file("vc/names.proto", pkg, goPkg("names", ""))
		m := newMsg(pkg, "Collide")
		names := []string{"get", "set", "has", "clear", "range", "type", "new", "descriptor", "interface", "mutable", "new_field", "which_oneof", "get_unknown", "set_unknown", "is_valid", "proto_methods",
			"x", "n", "l", "i", "options", "dAtA", "size", "input", "value", "iNdEx", "wire", "fieldNum", "wireType", "b", "v", "k", "f", "fd", "err", "state", "unknown_fields", "size_cache", "string", "reset", "proto_message",
			"proto_reflect", "slow_proto_reflect", "marshal", "unmarshal", "extension_range_array", "extension_map"}
		kinds := []T{tString, tInt32, tBool, tBytes, tDouble, tSint64}
		for i, nme := range names {
			m.field(nme, int32(i+1), kinds[i%len(kinds)], "")
		}
		f.MessageType = append(f.MessageType, m.msg)
		// a message whose NAME collides with identifiers
		m2 := newMsg(pkg, "Message")
		m2.field("message", 1, tMessage, m2.path)
		m2.repeated("list", 2, tString, "")
		m2.mapField("map", 3, tString, tString, "")
		f.MessageType = append(f.MessageType, m2.msg)
		// a field-less "namespace" message whose nested messages have colliding field and oneof names
		ns := newMsg(pkg, "Namespace")
		in1 := ns.nested("Inner")
		in1.field("get", 1, tString, "")
		in1.field("has", 2, tInt32, "")
		io := in1.oneof("range")
		in1.member(io, "is_valid", 3, tBool, "")
		in1.member(io, "type", 4, tString, "")
		deep := in1.nested("Deeper")
		deep.field("descriptor", 1, tString, "")
		deep.field("new", 2, tBytes, "")
		f.MessageType = append(f.MessageType, ns.msg)
		// messages that repeat the SHORT names of earlier ones (nested elsewhere) and collide again
		ot := newMsg(pkg, "Other")
		oin := ot.nested("Inner")
		oin.field("type", 1, tString, "")
		oin.field("clear", 2, tInt64, "")
		oo := oin.oneof("get")
		oin.member(oo, "set", 3, tBool, "")
		oin.member(oo, "mutable", 4, tBytes, "")
		oc := ot.nested("Collide")
		oc.field("has", 1, tString, "")
		oc.field("range", 2, tInt32, "")
		od := oin.nested("Deeper")
		od.field("interface", 1, tString, "")
		om := ot.nested("Message")
		om.field("new_field", 1, tString, "")
		ot.field("inner", 1, tMessage, oin.path)
		f.MessageType = append(f.MessageType, ot.msg)
		// Go keywords and predeclared identifiers as field, oneof, enum-value and message names; leading/trailing/double
		// underscores; digits; reserved numbers and names beside them
		kw := newMsg(pkg, "Keywords")
		for i, nme := range []string{"break", "case", "chan", "const", "continue", "default", "defer", "else", "fallthrough", "for", "func", "go", "goto", "if", "import",
			"interface", "map", "package", "return", "select", "struct", "switch", "var", "string", "int", "len", "cap", "nil", "true", "false", "error", "any", "append", "make", "new", "copy",
			"foo_", "bar__baz", "x1", "y_1", "a1b2_c3"} {
			kw.field(nme, int32(i+1), kinds[i%len(kinds)], "")
		}
		kwo := kw.oneof("func_")
		kw.member(kwo, "chan_msg", 100, tString, "")
		kw.member(kwo, "select_one", 101, tInt32, "")
		kw.msg.ReservedRange = append(kw.msg.ReservedRange, &descriptorpb.DescriptorProto_ReservedRange{Start: proto.Int32(200), End: proto.Int32(300)})
		kw.msg.ReservedName = append(kw.msg.ReservedName, "old_name", "type")
		// (enum values live in the scope that holds the enum: a top-level enum, so that they do not clash with the fields)
		f.EnumType = append(f.EnumType, enum("Type", "type_unknown", 0, "func", 1, "nil", 2, "TYPE_X", 3, "range", 4, "string", 5))
		kw.field("kind_of", 102, tEnum, "."+pkg+".Type")
		f.MessageType = append(f.MessageType, kw.msg)
		// oneof members and fields named after a nested message / enum of the same message (protogen appends `_` to the
		// wrapper type on a clash)
		shape := newMsg(pkg, "Shape")
		circle := shape.nested("Circle")
		circle.field("r", 1, tDouble, "")
		shape.msg.EnumType = append(shape.msg.EnumType, enum("Square", "SQUARE_ZERO", 0, "SQUARE_ONE", 1))
		so := shape.oneof("kind")
		shape.member(so, "circle", 1, tMessage, circle.path)
		shape.member(so, "square", 2, tEnum, shape.path+".Square")
		shape.member(so, "label", 3, tString, "")
		shape.nested("Label").field("text", 1, tString, "")
		f.MessageType = append(f.MessageType, shape.msg)
		// a message with more fields than fit one machine word of presence bits
		wide := newMsg(pkg, "Wide")
		for i := 1; i <= 70; i++ {
			wide.field(fmt.Sprintf("w%d", i), int32(i), kinds[i%len(kinds)], "")
		}
		f.MessageType = append(f.MessageType, wide.msg)
		add(&Schema{Name: "names", Files: []*descriptorpb.FileDescriptorProto{f}})
		// go_package with an explicit package name that differs from the directory
		{
			ga := file("vc/gopkgname/a.proto", "vc.gopkgname.a", CorpusModule+"/gopkgname/adir;apkg")
			gam := newMsg("vc.gopkgname.a", "Thing")
			gam.field("id", 1, tInt64, "")
			ga.MessageType = append(ga.MessageType, gam.msg)
			ga.EnumType = append(ga.EnumType, enum("Sort", "SORT_UNSPECIFIED", 0, "SORT_UP", 1))
			gb := file("vc/gopkgname/b.proto", "vc.gopkgname.b", CorpusModule+"/gopkgname/bdir;bpkg", "vc/gopkgname/a.proto")
			gbm := newMsg("vc.gopkgname.b", "Uses")
			gbm.field("thing", 1, tMessage, gam.path)
			gbm.mapField("things", 2, tString, tMessage, gam.path)
			gbm.field("sort", 3, tEnum, ".vc.gopkgname.a.Sort")
			gb.MessageType = append(gb.MessageType, gbm.msg)
			add(&Schema{Name: "gopkgname", Files: []*descriptorpb.FileDescriptorProto{ga, gb}})
		}
	}

	// ---- enums with negative and sparse numbers
	{
		pkg := "vc.enumneg"
		f := file("vc/enumneg.proto", pkg, goPkg("enumneg", ""))
		f.EnumType = append(f.EnumType, enum("Sparse", "S_ZERO", 0, "S_NEG", -1, "S_MIN", -2147483648, "S_MAX", 2147483647, "S_MID", 70000))
		m := newMsg(pkg, "HasEnum")
		m.field("e", 1, tEnum, "."+pkg+".Sparse")
		m.repeated("es", 2, tEnum, "."+pkg+".Sparse")
		m.unpacked("ues", 3, tEnum, "."+pkg+".Sparse")
		m.mapField("me", 4, tInt32, tEnum, "."+pkg+".Sparse")
		o := m.oneof("o")
		m.member(o, "oe", 5, tEnum, "."+pkg+".Sparse")
		f.MessageType = append(f.MessageType, m.msg)
		add(&Schema{Name: "enumneg", Files: []*descriptorpb.FileDescriptorProto{f}})
	}

	// ---- empty message and message with only a oneof / only a map
	{
		pkg := "vc.edge"
		f := file("vc/edge.proto", pkg, goPkg("edge", ""))
		e := newMsg(pkg, "Empty")
		oo := newMsg(pkg, "OnlyOneof")
		o := oo.oneof("o")
		oo.member(o, "a", 1, tBool, "")
		om := newMsg(pkg, "OnlyMap")
		om.mapField("m", 1, tBool, tBytes, "")
		// the field-less message used as a field type in every position (its only content can be unknown fields)
		ue := newMsg(pkg, "UsesEmpty")
		ue.field("one", 1, tMessage, e.path)
		ue.repeated("many", 2, tMessage, e.path)
		ue.mapField("by_name", 3, tString, tMessage, e.path)
		uo := ue.oneof("kind")
		ue.member(uo, "none", 4, tMessage, e.path)
		ue.member(uo, "other", 5, tMessage, e.path)
		ue.member(uo, "num", 6, tInt32, "")
		f.MessageType = append(f.MessageType, e.msg, oo.msg, om.msg, ue.msg)
		add(&Schema{Name: "edge", Files: []*descriptorpb.FileDescriptorProto{f}})
		// standard field options that do not change the Go API: they must survive into the embedded descriptor
		// together with the ones that do (packed)
		g := file("vc/fieldopts.proto", "vc.fieldopts", goPkg("fieldopts", ""))
		fo := newMsg("vc.fieldopts", "Opts")
		fo.unpacked("ids", 1, tInt64, "").Options.Jstype = descriptorpb.FieldOptions_JS_STRING.Enum()
		fo.unpacked("codes", 2, tUint32, "").Options.Ctype = descriptorpb.FieldOptions_CORD.Enum()
		fo.repeated("packed_ids", 3, tSint64, "").Options = &descriptorpb.FieldOptions{Jstype: descriptorpb.FieldOptions_JS_NUMBER.Enum(), Packed: proto.Bool(true)}
		fo.field("big", 4, tFixed64, "").Options = &descriptorpb.FieldOptions{Jstype: descriptorpb.FieldOptions_JS_STRING.Enum()}
		fo.field("text", 5, tString, "").Options = &descriptorpb.FieldOptions{Ctype: descriptorpb.FieldOptions_STRING_PIECE.Enum()}
		fo.field("lazy_sub", 6, tMessage, ".vc.fieldopts.Opts").Options = &descriptorpb.FieldOptions{Lazy: proto.Bool(true)}
		fo.unpacked("flags", 7, tBool, "").Options.Deprecated = proto.Bool(true)
		fo.unpacked("ratios", 8, tDouble, "").Options.Jstype = descriptorpb.FieldOptions_JS_NORMAL.Enum()
		g.MessageType = append(g.MessageType, fo.msg)
		add(&Schema{Name: "fieldopts", Files: []*descriptorpb.FileDescriptorProto{g}})
	}

	// ---- F1: sint32/sint64 oneof members (isolated)
	{
		pkg := "vc.sintoneof"
		f := file("vc/sintoneof.proto", pkg, goPkg("sintoneof", ""))
		m := newMsg(pkg, "M")
		o := m.oneof("o")
		m.member(o, "a", 1, tSint32, "")
		m.member(o, "b", 2, tSint64, "")
		m.member(o, "c", 3, tString, "")
		f.MessageType = append(f.MessageType, m.msg)
		add(&Schema{Name: "sintoneof", Files: []*descriptorpb.FileDescriptorProto{f}})
	}

	// ---- F2: oneof names colliding with protoreflect.Message methods (isolated)
	{
		pkg := "vc.oneofnames"
		f := file("vc/oneofnames.proto", pkg, goPkg("oneofnames", ""))
		for i, nme := range []string{"type", "get", "range", "descriptor", "is_valid", "new_field"} {
			m := newMsg(pkg, fmt.Sprintf("O%d", i))
			o := m.oneof(nme)
			m.member(o, "a", 1, tString, "")
			m.member(o, "b", 2, tInt32, "")
			f.MessageType = append(f.MessageType, m.msg)
		}
		add(&Schema{Name: "oneofnames", Files: []*descriptorpb.FileDescriptorProto{f}})
	}

	// ---- several messages (same file, nested, and a second file of the same invocation) whose oneofs, fields and
	// nested types share names: anything the generator remembers between messages or files shows up here
	{
		pkg := "vc.oneofsame"
		fa := file("vc/oneofsame/a.proto", pkg, goPkg("oneofsame", "a"))
		fb := file("vc/oneofsame/b.proto", pkg+".b", goPkg("oneofsame", "b"))
		mk := func(f *descriptorpb.FileDescriptorProto, p string, names ...string) {
			for i, n := range names {
				m := newMsg(p, n)
				m.field("id", 1, tInt64, "")
				m.mapField("attrs", 2, tString, tInt32, "")
				o := m.oneof("value")
				m.member(o, "text", 3, tString, "")
				m.member(o, "num", 4, T(int(tSint32)+i%2), "")
				m.member(o, "raw", 5, tBytes, "")
				o2 := m.oneof("extra")
				m.member(o2, "flag", 6, tBool, "")
				m.member(o2, "ratio", 7, tDouble, "")
				in := m.nested("Item")
				oi := in.oneof("value")
				in.member(oi, "text", 1, tString, "")
				in.member(oi, "num", 2, tFixed32, "")
				m.repeated("items", 8, tMessage, in.path)
				f.MessageType = append(f.MessageType, m.msg)
			}
		}
		mk(fa, pkg, "Request", "Response", "Event")
		mk(fb, pkg+".b", "Request", "Response")
		add(&Schema{Name: "oneofsame", Files: []*descriptorpb.FileDescriptorProto{fa, fb}})
	}

	// ---- enum with allow_alias (two names for one number)
	{
		pkg := "vc.enumalias"
		f := file("vc/enumalias.proto", pkg, goPkg("enumalias", ""))
		e := enum("Level", "LEVEL_UNSPECIFIED", 0, "LEVEL_LOW", 1, "LEVEL_MIN", 1, "LEVEL_HIGH", 2, "LEVEL_MAX", 2, "LEVEL_DEFAULT", 0)
		e.Options = &descriptorpb.EnumOptions{AllowAlias: proto.Bool(true)}
		f.EnumType = append(f.EnumType, e)
		m := newMsg(pkg, "HasLevel")
		m.field("level", 1, tEnum, "."+pkg+".Level")
		m.repeated("levels", 2, tEnum, "."+pkg+".Level")
		m.mapField("by_name", 3, tString, tEnum, "."+pkg+".Level")
		ne := enum("Inner", "A", 0, "B", 0, "C", 5)
		ne.Options = &descriptorpb.EnumOptions{AllowAlias: proto.Bool(true)}
		m.msg.EnumType = append(m.msg.EnumType, ne)
		o := m.oneof("o")
		m.member(o, "inner", 4, tEnum, m.path+".Inner")
		f.MessageType = append(f.MessageType, m.msg)
		add(&Schema{Name: "enumalias", Files: []*descriptorpb.FileDescriptorProto{f}})
	}

	// ---- unusual proto file names (upper case, dashes, dots, leading digit) in one Go package, importing each other
	{
		pkg := "vc.filenames"
		fa := file("vc/Bank/TxMsgs.proto", pkg, goPkg("filenames", ""))
		am := newMsg(pkg, "Tx")
		am.field("id", 1, tUint64, "")
		fa.MessageType = append(fa.MessageType, am.msg)
		fa.EnumType = append(fa.EnumType, enum("TxKind", "TX_KIND_UNSPECIFIED", 0, "TX_KIND_SEND", 1))
		fb := file("vc/my-file.v1.proto", pkg, goPkg("filenames", ""), "vc/Bank/TxMsgs.proto")
		bm := newMsg(pkg, "Batch")
		bm.repeated("txs", 1, tMessage, am.path)
		bm.field("kind", 2, tEnum, "."+pkg+".TxKind")
		fb.MessageType = append(fb.MessageType, bm.msg)
		fc := file("vc/9lives_UPPER.proto", pkg, goPkg("filenames", ""), "vc/my-file.v1.proto")
		cm := newMsg(pkg, "Ledger")
		cm.mapField("batches", 1, tString, tMessage, bm.path)
		fc.MessageType = append(fc.MessageType, cm.msg)
		// the text `File_` / `file_` inside the path itself
		fd := file("vc/store/File_index.file_x.proto", pkg, goPkg("filenames", ""), "vc/9lives_UPPER.proto", "vc/Bank/TxMsgs.proto")
		dm := newMsg(pkg, "FileIndex")
		dm.field("ledger", 1, tMessage, cm.path)
		dm.field("kind", 2, tEnum, "."+pkg+".TxKind")
		fd.MessageType = append(fd.MessageType, dm.msg)
		add(&Schema{Name: "filenames", Files: []*descriptorpb.FileDescriptorProto{fa, fb, fc, fd}})
	}

	// ---- a file that declares only enums (and one that declares nothing), imported from another Go package and from the same one
	{
		pkg := "vc.enumonly"
		fe := file("vc/enumonly/kinds.proto", pkg, goPkg("enumonly", "kinds"))
		fe.EnumType = append(fe.EnumType, enum("Kind", "KIND_UNSPECIFIED", 0, "KIND_A", 1, "KIND_B", 2), enum("Mode", "MODE_OFF", 0, "MODE_ON", 1))
		fs := file("vc/enumonly/same.proto", pkg+".m", goPkg("enumonly", "m"))
		fs.EnumType = append(fs.EnumType, enum("Local", "LOCAL_ZERO", 0, "LOCAL_ONE", 1))
		fm := file("vc/enumonly/m.proto", pkg+".m", goPkg("enumonly", "m"), "vc/enumonly/kinds.proto", "vc/enumonly/same.proto")
		m := newMsg(pkg+".m", "UsesEnums")
		m.field("kind", 1, tEnum, "."+pkg+".Kind")
		m.repeated("modes", 2, tEnum, "."+pkg+".Mode")
		m.mapField("locals", 3, tInt32, tEnum, "."+pkg+".m.Local")
		o := m.oneof("pick")
		m.member(o, "k", 4, tEnum, "."+pkg+".Kind")
		m.member(o, "l", 5, tEnum, "."+pkg+".m.Local")
		fm.MessageType = append(fm.MessageType, m.msg)
		// the same-package import of same.proto marked weak (an import modifier that changes nothing for a file of the
		// same Go package: it is still initialised first)
		fm.WeakDependency = []int32{1}
		// a file that declares nothing at all, in its own Go package and imported by m.proto; and one that declares only a
		// service over imported messages
		fz := file("vc/enumonly/empty.proto", pkg+".z", goPkg("enumonly", "z"))
		fm.Dependency = append(fm.Dependency, "vc/enumonly/empty.proto")
		fv := file("vc/enumonly/svconly.proto", pkg+".v", goPkg("enumonly", "v"), "vc/enumonly/m.proto")
		fv.Service = append(fv.Service, &descriptorpb.ServiceDescriptorProto{Name: proto.String("OnlyService"), Method: []*descriptorpb.MethodDescriptorProto{
			{Name: proto.String("Do"), InputType: proto.String(m.path), OutputType: proto.String(m.path)},
		}})
		add(&Schema{Name: "enumonly", Files: []*descriptorpb.FileDescriptorProto{fe, fs, fz, fm, fv}})
	}

	// ---- a file that declares custom options (extensions of the descriptor option messages), alternating extendees,
	// scalar / enum / message / repeated extension types, and a second file that uses them
	{
		pkg := "vc.exts"
		f := file("vc/exts/opts.proto", pkg, goPkg("exts", "optpb"), "google/protobuf/descriptor.proto")
		mk := newMsg(pkg, "Marker")
		mk.field("note", 1, tString, "")
		f.MessageType = append(f.MessageType, mk.msg)
		f.EnumType = append(f.EnumType, enum("Level", "LEVEL_NONE", 0, "LEVEL_SOME", 1))
		ext := func(name string, num int32, t T, typeName, extendee string, rep bool) {
			x := &descriptorpb.FieldDescriptorProto{Name: proto.String(name), Number: proto.Int32(num), Type: t.Enum(),
				Label: descriptorpb.FieldDescriptorProto_LABEL_OPTIONAL.Enum(), JsonName: proto.String(jsonName(name)), Extendee: proto.String(".google.protobuf." + extendee)}
			if rep {
				x.Label = descriptorpb.FieldDescriptorProto_LABEL_REPEATED.Enum()
			}
			if typeName != "" {
				x.TypeName = proto.String(typeName)
			}
			f.Extension = append(f.Extension, x)
		}
		ext("msg_a", 50001, tString, "", "MessageOptions", false)
		ext("fld_b", 50002, tString, "", "FieldOptions", false)
		ext("msg_c", 50003, tMessage, mk.path, "MessageOptions", false)
		ext("file_d", 50004, tEnum, "."+pkg+".Level", "FileOptions", false)
		ext("fld_e", 50005, tInt64, "", "FieldOptions", true)
		ext("msg_f", 50006, tBool, "", "MessageOptions", false)
		ext("enum_g", 50007, tBytes, "", "EnumOptions", false)
		// a user of the options, in another Go package
		f2 := file("vc/exts/use.proto", pkg+".use", goPkg("exts", "use"), "vc/exts/opts.proto")
		u := newMsg(pkg+".use", "Tagged")
		fd := u.field("v", 1, tString, "")
		fo := &descriptorpb.FieldOptions{}
		fo.ProtoReflect().SetUnknown(protowire.AppendString(protowire.AppendTag(nil, 50002, protowire.BytesType), "on-field"))
		fd.Options = fo
		mo := &descriptorpb.MessageOptions{}
		mo.ProtoReflect().SetUnknown(protowire.AppendVarint(protowire.AppendTag(protowire.AppendString(protowire.AppendTag(nil, 50001, protowire.BytesType), "on-message"), 50006, protowire.VarintType), 1))
		u.msg.Options = mo
		f2.MessageType = append(f2.MessageType, u.msg)
		add(&Schema{Name: "exts", Files: []*descriptorpb.FileDescriptorProto{f, f2}})
	}

	// ---- imported Go packages named like the packages generated code itself imports (fmt, math, sort, io, ...):
	// every reference the templates emit must go through the import table, never through a literal package name
	{
		var files []*descriptorpb.FileDescriptorProto
		mainPkg := "vc.pkgnames"
		var deps []string
		type ref struct{ path string }
		var refs []ref
		for _, n := range []string{"fmt", "math", "sort", "io", "runtime", "proto", "protoreflect", "protoiface", "protoimpl", "sync", "binary", "bits", "utf8", "reflect", "errors", "strings"} {
			pkg := "vc.pkgnames." + n + "pkg"
			f := file("vc/pkgnames/"+n+".proto", pkg, goPkg("pkgnames", n))
			m := newMsg(pkg, "T")
			m.field("v", 1, tString, "")
			f.MessageType = append(f.MessageType, m.msg)
			f.EnumType = append(f.EnumType, enum("E", "E_ZERO", 0, "E_ONE", 1))
			files = append(files, f)
			deps = append(deps, f.GetName())
			refs = append(refs, ref{m.path})
		}
		fm := file("vc/pkgnames/main.proto", mainPkg, goPkg("pkgnames", ""), deps...)
		first := newMsg(mainPkg, "First")
		for i, r := range refs {
			first.field(fmt.Sprintf("t%d", i), int32(i+1), tMessage, r.path)
		}
		// list and map views are emitted before the accessors of the message: their element types are the first
		// references to the imported packages
		for i, r := range refs {
			first.repeated(fmt.Sprintf("l%d", i), int32(100+i), tMessage, r.path)
			first.mapField(fmt.Sprintf("m%d", i), int32(200+i), tString, tMessage, r.path)
		}
		second := newMsg(mainPkg, "Second")
		second.mapField("weights", 1, tString, tDouble, "")
		second.mapField("ratios", 2, tInt32, tFloat, "")
		second.field("d", 3, tDouble, "")
		second.field("f", 4, tFloat, "")
		second.repeated("ds", 5, tDouble, "")
		second.field("fx32", 6, tFixed32, "")
		second.field("fx64", 7, tSfixed64, "")
		second.field("s", 8, tString, "")
		second.mapField("by_name", 9, tString, tMessage, refs[0].path)
		o := second.oneof("pick")
		second.member(o, "od", 10, tDouble, "")
		second.member(o, "om", 11, tMessage, refs[1].path)
		second.field("e", 12, tEnum, ".vc.pkgnames.sortpkg.E")
		fm.MessageType = append(fm.MessageType, first.msg, second.msg)
		files = append(files, fm)
		add(&Schema{Name: "pkgnames", Files: files})
	}

	// ---- lower-case message names made of the letters of the package name (prefix vs cutset trimming), nested
	{
		pkg := "demo.mode"
		f := file("vc/lowernames.proto", pkg, goPkg("lowernames", ""))
		for _, n := range []string{"mode", "data", "demo", "dome", "e", "moo"} {
			m := newMsg(pkg, n)
			m.field("v", 1, tString, "")
			in := m.nested("deed")
			in.field("w", 1, tInt32, "")
			deep := in.nested("m")
			deep.field("x", 1, tBool, "")
			m.field("inner", 2, tMessage, in.path)
			m.repeated("deeps", 3, tMessage, deep.path)
			f.MessageType = append(f.MessageType, m.msg)
		}
		add(&Schema{Name: "lowernames", Files: []*descriptorpb.FileDescriptorProto{f}})
	}

	// ---- the features parameter may repeat or reorder feature names: the result is the same code
	{
		gq := file("vc/featdup.proto", "vc.featdup", goPkg("featdup", ""))
		mq := newMsg("vc.featdup", "M")
		mq.field("a", 1, tString, "")
		mq.mapField("m", 2, tString, tInt64, "")
		gq.MessageType = append(gq.MessageType, mq.msg)
		add(&Schema{Name: "featdup", Files: []*descriptorpb.FileDescriptorProto{gq}, Param: "features=protoc+fast+protoc+fast"})
		gr := file("vc/featrev.proto", "vc.featrev", goPkg("featrev", ""))
		mr := newMsg("vc.featrev", "M")
		mr.field("a", 1, tString, "")
		gr.MessageType = append(gr.MessageType, mr.msg)
		add(&Schema{Name: "featrev", Files: []*descriptorpb.FileDescriptorProto{gr}, Param: "features=fast+protoc"})
		// "all" spelt together with a feature it already contains, over a schema that needs the reserved-name rename
		for i, prm := range []string{"features=all+protoc", "features=protoc+all"} {
			nm := fmt.Sprintf("featall%d", i+1)
			ga := file("vc/"+nm+".proto", "vc."+nm, goPkg(nm, ""))
			ma := newMsg("vc."+nm, "M")
			ma.field("type", 1, tString, "")
			ma.field("range", 2, tInt32, "")
			oa := ma.oneof("get")
			ma.member(oa, "set", 3, tInt64, "")
			ma.member(oa, "has", 4, tBool, "")
			na := ma.nested("Inner")
			na.field("descriptor", 1, tString, "")
			ga.MessageType = append(ga.MessageType, ma.msg)
			add(&Schema{Name: nm, Files: []*descriptorpb.FileDescriptorProto{ga}, Param: prm})
		}
	}

	// ---- deprecated fields, messages, enums, enum values and oneof members (comments emitted around their Go API)
	{
		pkg := "vc.deprecated"
		f := file("vc/deprecated.proto", pkg, goPkg("deprecated", ""))
		e := enum("OldEnum", "OLD_ZERO", 0, "OLD_ONE", 1)
		e.Options = &descriptorpb.EnumOptions{Deprecated: proto.Bool(true)}
		e.Value[1].Options = &descriptorpb.EnumValueOptions{Deprecated: proto.Bool(true)}
		f.EnumType = append(f.EnumType, e)
		m := newMsg(pkg, "HasOld")
		dep := func(fd *descriptorpb.FieldDescriptorProto) { fd.Options = &descriptorpb.FieldOptions{Deprecated: proto.Bool(true)} }
		dep(m.field("old_name", 1, tString, ""))
		m.field("name", 2, tString, "")
		dep(m.repeated("old_ids", 3, tInt64, ""))
		dep(m.mapField("old_map", 4, tString, tInt32, ""))
		dep(m.field("old_enum", 5, tEnum, "."+pkg+".OldEnum"))
		o := m.oneof("pick")
		dep(m.member(o, "old_choice", 6, tBytes, ""))
		m.member(o, "choice", 7, tBool, "")
		old := newMsg(pkg, "OldMsg")
		old.msg.Options = &descriptorpb.MessageOptions{Deprecated: proto.Bool(true)}
		old.field("v", 1, tInt32, "")
		dep(m.field("old_msg", 8, tMessage, old.path))
		f.MessageType = append(f.MessageType, m.msg, old.msg)
		add(&Schema{Name: "deprecated", Files: []*descriptorpb.FileDescriptorProto{f}})
	}

	// ---- source_code_info: comments of every placement (leading, trailing, detached; one line, several lines, awkward
	// characters) on every element kind, the way protoc passes them on
	{
		pkg := "vc.comments"
		f := file("vc/comments.proto", pkg, goPkg("comments", ""))
		f.EnumType = append(f.EnumType, enum("Mood", "MOOD_UNSPECIFIED", 0, "MOOD_GOOD", 1))
		m := newMsg(pkg, "Doc")
		m.field("title", 1, tString, "")
		m.repeated("pages", 2, tInt32, "")
		m.mapField("index", 3, tString, tInt64, "")
		m.field("mood", 4, tEnum, "."+pkg+".Mood")
		o := m.oneof("body")
		m.member(o, "text", 5, tString, "")
		m.member(o, "blob", 6, tBytes, "")
		in := m.nested("Section")
		in.field("heading", 1, tString, "")
		in.msg.EnumType = append(in.msg.EnumType, enum("Level", "LEVEL_ZERO", 0, "LEVEL_ONE", 1))
		m.field("section", 7, tMessage, in.path)
		e := newMsg(pkg, "Nothing")
		f.MessageType = append(f.MessageType, m.msg, e.msg)
		f.Service = append(f.Service, &descriptorpb.ServiceDescriptorProto{Name: proto.String("Docs"), Method: []*descriptorpb.MethodDescriptorProto{
			{Name: proto.String("Fetch"), InputType: proto.String(e.path), OutputType: proto.String(m.path)},
		}})
		f.SourceCodeInfo = commentEverything(f)
		add(&Schema{Name: "comments", Files: []*descriptorpb.FileDescriptorProto{f}})
	}

	// ---- plugin parameters other than features=: paths=source_relative, module=, M mappings; files to generate listed
	// in reverse dependency order
	{
		pair := func(name string) (*descriptorpb.FileDescriptorProto, *descriptorpb.FileDescriptorProto) {
			pa, pb := "vc."+name+".a", "vc."+name+".b"
			fa := file("vc/"+name+"/a.proto", pa, goPkg(name, "a"))
			fa.EnumType = append(fa.EnumType, enum("Kind", "KIND_UNSPECIFIED", 0, "KIND_X", 5))
			am := newMsg(pa, "Shared")
			am.field("id", 1, tUint64, "")
			fa.MessageType = append(fa.MessageType, am.msg)
			fb := file("vc/"+name+"/b.proto", pb, goPkg(name, "b"), "vc/"+name+"/a.proto")
			bm := newMsg(pb, "User")
			bm.field("shared", 1, tMessage, am.path)
			bm.repeated("kinds", 2, tEnum, "."+pa+".Kind")
			bm.mapField("by_id", 3, tUint64, tMessage, am.path)
			o := bm.oneof("x")
			bm.member(o, "x_shared", 4, tMessage, am.path)
			bm.member(o, "x_kind", 5, tEnum, "."+pa+".Kind")
			fb.MessageType = append(fb.MessageType, bm.msg)
			return fa, fb
		}
		fa, fb := pair("srcrel")
		add(&Schema{Name: "srcrel", Files: []*descriptorpb.FileDescriptorProto{fa, fb}, Param: "paths=source_relative",
			OutMap: map[string]string{"vc/srcrel/a.pulsar.go": goPkg("srcrel", "a") + "/a.pulsar.go", "vc/srcrel/b.pulsar.go": goPkg("srcrel", "b") + "/b.pulsar.go"}})
		fa, fb = pair("modopt")
		add(&Schema{Name: "modopt", Files: []*descriptorpb.FileDescriptorProto{fa, fb}, Param: "module=" + CorpusModule + "/modopt",
			OutMap: map[string]string{"a/a.pulsar.go": goPkg("modopt", "a") + "/a.pulsar.go", "b/b.pulsar.go": goPkg("modopt", "b") + "/b.pulsar.go"}})
		fa, fb = pair("mmap")
		add(&Schema{Name: "mmap", Files: []*descriptorpb.FileDescriptorProto{fa, fb}, Param: "Mvc/mmap/a.proto=" + goPkg("mmap", "a2") + ",features=protoc+fast"})
		// pool= names Go types for memory pooling; no feature of this plugin uses it, so the output is the ordinary one
		fa, fb = pair("poolopt")
		add(&Schema{Name: "poolopt", Files: []*descriptorpb.FileDescriptorProto{fa, fb}, Param: "pool=" + goPkg("poolopt", "a") + ".Shared,pool=" + goPkg("poolopt", "b") + ".User,features=fast+protoc"})
		// protogen's own parameter annotate_code=true: every annotation the generator makes must name a symbol it emits
		{
			an := file("vc/annotated.proto", "vc.annotated", goPkg("annotated", ""))
			an.EnumType = append(an.EnumType, enum("Mode", "MODE_UNSPECIFIED", 0, "MODE_ON", 1))
			am := newMsg("vc.annotated", "Holder")
			am.field("name", 1, tString, "")
			am.mapField("labels", 2, tString, tString, "")
			am.mapField("by_id", 3, tInt64, tMessage, ".vc.annotated.Holder")
			ao := am.oneof("choice")
			am.member(ao, "mode", 4, tEnum, ".vc.annotated.Mode")
			am.member(ao, "text", 5, tString, "")
			in := am.nested("Inner")
			in.field("v", 1, tInt32, "")
			an.MessageType = append(an.MessageType, am.msg)
			an.SourceCodeInfo = commentEverything(an)
			add(&Schema{Name: "annotated", Files: []*descriptorpb.FileDescriptorProto{an}, Param: "annotate_code=true"})
		}
		fa, fb = pair("revorder")
		add(&Schema{Name: "revorder", Files: []*descriptorpb.FileDescriptorProto{fa, fb}, Generate: []string{"vc/revorder/b.proto", "vc/revorder/a.proto"}})
	}

	// ---- look-alikes: ordinary declarations that resemble what the generator treats specially when it goes by name or
	// shape instead of asking the descriptor — messages called ...Entry with key/value fields (not map entries), messages
	// named like the well-known types in a user package, a hand-written oneof called `_f` around a field f (not a
	// proto3-optional), nested and top-level names that flatten alike, reserved field names with an explicit json_name
	{
		const pkg = "vc.lookalike"
		f := file("vc/lookalike.proto", pkg, goPkg("lookalike", ""))
		le := newMsg(pkg, "LogEntry")
		le.field("ts", 1, tInt64, "")
		le.field("text", 2, tString, "")
		jr := newMsg(pkg, "Journal")
		jle := jr.nested("LogEntry")
		jle.field("key", 1, tString, "")
		jle.field("value", 2, tString, "")
		jp := jr.nested("Pair")
		jp.field("key", 1, tString, "")
		jp.field("value", 2, tBytes, "")
		jr.repeated("entries", 1, tMessage, jle.path)
		jr.mapField("by_id", 2, tString, tMessage, jle.path)
		jr.field("pair", 3, tMessage, jp.path)
		jr.field("first", 4, tMessage, le.path)
		jr.mapField("pairs", 5, tInt32, tMessage, jp.path)
		or := newMsg(pkg, "Order")
		oi := or.nested("Item")
		oi.field("n", 1, tInt32, "")
		or.field("item", 1, tMessage, oi.path)
		oit := newMsg(pkg, "OrderItem")
		oit.field("m", 1, tInt32, "")
		oit.field("order", 2, tMessage, or.path)
		ty := newMsg(pkg, "Typed")
		ty.field("type", 1, tString, "").JsonName = proto.String("@type")
		ty.field("get", 2, tInt32, "").JsonName = proto.String("fetch")
		ty.field("plain", 3, tString, "").JsonName = proto.String("Type")
		op := newMsg(pkg, "Opt")
		op.field("name", 1, tString, "")
		oo := op.oneof("_timeout")
		op.member(oo, "timeout", 2, tInt32, "")
		oo2 := op.oneof("_label")
		op.member(oo2, "label", 3, tString, "")
		op.member(oo2, "label_id", 4, tInt64, "")
		// (a real proto3-optional is not part of the corpus: the plugin does not announce FEATURE_PROTO3_OPTIONAL, so
		// protoc never hands it one)
		op.field("limit", 5, tInt32, "")
		f.MessageType = append(f.MessageType, le.msg, jr.msg, or.msg, oit.msg, ty.msg, op.msg)
		// the well-known names, in a user package
		du := newMsg(pkg, "Duration")
		du.field("seconds", 1, tInt64, "")
		du.field("nanos", 2, tInt32, "")
		ts := newMsg(pkg, "Timestamp")
		ts.field("seconds", 1, tInt64, "")
		ts.field("nanos", 2, tInt32, "")
		an := newMsg(pkg, "Any")
		an.field("type_url", 1, tString, "")
		an.field("value", 2, tBytes, "")
		va := newMsg(pkg, "Value")
		vo := va.oneof("kind")
		va.member(vo, "number_value", 2, tDouble, "")
		va.member(vo, "string_value", 3, tString, "")
		st := newMsg(pkg, "Struct")
		st.mapField("fields", 1, tString, tMessage, va.path)
		lv := newMsg(pkg, "ListValue")
		lv.repeated("values", 1, tMessage, va.path)
		fmk := newMsg(pkg, "FieldMask")
		fmk.repeated("paths", 1, tString, "")
		em := newMsg(pkg, "Empty")
		bv := newMsg(pkg, "BoolValue")
		bv.field("value", 1, tBool, "")
		sv := newMsg(pkg, "StringValue")
		sv.field("value", 1, tString, "")
		f.MessageType = append(f.MessageType, du.msg, ts.msg, an.msg, va.msg, st.msg, lv.msg, fmk.msg, em.msg, bv.msg, sv.msg)
		f.EnumType = append(f.EnumType, enum("NullValue", "NULL_VALUE", 0))
		add(&Schema{Name: "lookalike", Files: []*descriptorpb.FileDescriptorProto{f}})
	}
	// ---- more oneofs in one message than a machine word has bits (a generator that keeps "oneof already emitted" in a
	// bitmask handles the first 64), the late ones with two members; and a user package whose name starts like
	// google.protobuf with reserved field names
	{
		const pkg = "vc.manyoneofs"
		f := file("vc/manyoneofs.proto", pkg, goPkg("manyoneofs", ""))
		m := newMsg(pkg, "Wide")
		num := int32(1)
		for i := 0; i < 67; i++ {
			o := m.oneof(fmt.Sprintf("o%d", i))
			m.member(o, fmt.Sprintf("a%d", i), num, tInt32, "")
			num++
			if i >= 62 {
				m.member(o, fmt.Sprintf("b%d", i), num, tString, "")
				num++
			}
		}
		m.field("tail", num, tBool, "")
		f.MessageType = append(f.MessageType, m.msg)
		add(&Schema{Name: "manyoneofs", Files: []*descriptorpb.FileDescriptorProto{f}})
		g := file("google/protobufx/audit/audit.proto", "google.protobufx.audit", goPkg("gpx", "audit"))
		am := newMsg("google.protobufx.audit", "Record")
		am.field("type", 1, tString, "")
		am.field("range", 2, tInt32, "")
		ao := am.oneof("get")
		am.member(ao, "is_valid", 3, tBool, "")
		am.member(ao, "descriptor", 4, tString, "")
		g.MessageType = append(g.MessageType, am.msg)
		add(&Schema{Name: "gpx", Files: []*descriptorpb.FileDescriptorProto{g}})
	}
	// ---- valid proto3 the repository's own schemas never use: a public import, an extension declared inside a message,
	// a dependency whose Go package is called like a local of the generated code
	{
		mk := func(schema, optsPkg, inPkg string) []*descriptorpb.FileDescriptorProto {
			base := "vc." + schema
			fo := file("vc/"+schema+"/"+optsPkg+"/o.proto", base+"."+optsPkg, goPkg(schema, optsPkg))
			fo.EnumType = append(fo.EnumType, enum("Level", "LEVEL_UNSPECIFIED", 0, "LEVEL_HIGH", 1))
			om := newMsg(base+"."+optsPkg, "Settings")
			om.field("verbose", 1, tBool, "")
			fo.MessageType = append(fo.MessageType, om.msg)
			// a message whose Go name starts like the file descriptor variable (File_…), with a nested enum and message
			fm0 := newMsg(base+"."+optsPkg, "File")
			fm0.msg.EnumType = append(fm0.msg.EnumType, enum("Kind", "REGULAR", 0, "DIRECTORY", 1))
			fm0.field("kind", 1, tEnum, "."+base+"."+optsPkg+".File.Kind")
			fm0.field("path", 2, tString, "")
			fp := fm0.nested("Part")
			fp.field("n", 1, tInt32, "")
			fo0 := fm0.oneof("body")
			fm0.member(fo0, "text", 3, tString, "")
			fm0.member(fo0, "part", 4, tMessage, fp.path)
			fo.MessageType = append(fo.MessageType, fm0.msg)
			fi := file("vc/"+schema+"/"+inPkg+"/i.proto", base+"."+inPkg, goPkg(schema, inPkg))
			im := newMsg(base+"."+inPkg, "Item")
			im.field("id", 1, tInt64, "")
			fi.MessageType = append(fi.MessageType, im.msg)
			// mid re-exports o.proto
			fm := file("vc/"+schema+"/mid.proto", base+".mid", goPkg(schema, "mid"), fo.GetName())
			fm.PublicDependency = []int32{0}
			mm := newMsg(base+".mid", "Mid")
			mm.field("settings", 1, tMessage, om.path)
			fm.MessageType = append(fm.MessageType, mm.msg)
			// top uses both packages (through the public import and directly)
			ft := file("vc/"+schema+"/top.proto", base+".top", goPkg(schema, "top"), fm.GetName(), fi.GetName(), fo.GetName())
			tm := newMsg(base+".top", "Top")
			tm.field("settings", 1, tMessage, om.path)
			tm.field("level", 2, tEnum, "."+base+"."+optsPkg+".Level")
			tm.repeated("items", 3, tMessage, im.path)
			tm.mapField("by_name", 4, tString, tMessage, om.path)
			tm.field("mid", 5, tMessage, mm.path)
			ft.MessageType = append(ft.MessageType, tm.msg)
			// two files of one Go package, the first re-exporting the second
			s2 := file("vc/"+schema+"/same/s2.proto", base+".same", goPkg(schema, "same"))
			s2.EnumType = append(s2.EnumType, enum("Mode", "MODE_UNSPECIFIED", 0, "MODE_ON", 1))
			s1 := file("vc/"+schema+"/same/s1.proto", base+".same", goPkg(schema, "same"), s2.GetName())
			s1.PublicDependency = []int32{0}
			sm := newMsg(base+".same", "UsesMode")
			sm.field("mode", 1, tEnum, "."+base+".same.Mode")
			s1.MessageType = append(s1.MessageType, sm.msg)
			// an umbrella file: nothing but public imports (one of them of a file that declares only a service)
			sv := file("vc/"+schema+"/svc/only.proto", base+".svc", goPkg(schema, "svc"), fi.GetName())
			sv.Service = append(sv.Service, &descriptorpb.ServiceDescriptorProto{Name: proto.String("Only"), Method: []*descriptorpb.MethodDescriptorProto{
				{Name: proto.String("Get"), InputType: proto.String(im.path), OutputType: proto.String(im.path)}}})
			um := file("vc/"+schema+"/umb/all.proto", base+".umb", goPkg(schema, "umb"), fo.GetName(), sv.GetName())
			um.PublicDependency = []int32{0, 1}
			// a user of the umbrella
			uu := file("vc/"+schema+"/user.proto", base+".user", goPkg(schema, "user"), um.GetName(), s1.GetName())
			um2 := newMsg(base+".user", "User")
			um2.field("settings", 1, tMessage, om.path)
			um2.field("mode", 2, tEnum, "."+base+".same.Mode")
			uu.MessageType = append(uu.MessageType, um2.msg)
			return []*descriptorpb.FileDescriptorProto{fo, fi, fm, ft, s2, s1, sv, um, uu}
		}
		add(&Schema{Name: "pubimp", Files: mk("pubimp", "settings", "items")})
		// the same with the dependencies' Go packages called like locals of the generated closures (`options`, `input`):
		// known finding F21, isolated here
		add(&Schema{Name: "pkglocals", Files: mk("pkglocals", "options", "input"), Known: "F21"})
	}
	// ---- proto2 neighbours (generated by the stock protoc-gen-go into the same workspace): publicly imported from another
	// Go package (forwarding declarations incl. default-value constants), and imported from a proto3 file of the SAME Go
	// package (init chaining across the two generators)
	{
		l2 := file("vc/mixed/legacy/old.proto", "vc.mixed.legacy", goPkg("mixed", "legacy"))
		l2.Syntax = proto.String("proto2")
		l2.EnumType = append(l2.EnumType, enum("Level", "LEVEL_LOW", 0, "LEVEL_MID", 1, "LEVEL_HIGH", 3))
		lo := newMsg("vc.mixed.legacy", "Old")
		lf := lo.field("level", 1, tEnum, ".vc.mixed.legacy.Level")
		lf.DefaultValue = proto.String("LEVEL_HIGH")
		lo.field("name", 2, tString, "").DefaultValue = proto.String("x")
		lo.field("count", 3, tInt32, "").DefaultValue = proto.String("7")
		lo.field("raw", 4, tBytes, "").DefaultValue = proto.String("a\\001b")
		lo.field("lo", 5, tDouble, "").DefaultValue = proto.String("-inf")
		lo.field("hi", 6, tFloat, "").DefaultValue = proto.String("inf")
		lo.field("nn", 7, tDouble, "").DefaultValue = proto.String("nan")
		lo.field("on", 8, tBool, "").DefaultValue = proto.String("true")
		lo.field("big", 9, tUint64, "").DefaultValue = proto.String("18446744073709551615")
		lo.field("ratio", 10, tFloat, "").DefaultValue = proto.String("1.5")
		// a field whose Go name this plugin would rename in a file of its own (`type` -> Type_): the proto2 file is not
		// its file, the names the stock generator gave stay
		lo.field("type", 11, tInt32, "").DefaultValue = proto.String("3")
		l2.MessageType = append(l2.MessageType, lo.msg)
		mid := file("vc/mixed/mid.proto", "vc.mixed.mid", goPkg("mixed", "mid"), l2.GetName())
		mid.PublicDependency = []int32{0}
		mm := newMsg("vc.mixed.mid", "Mid")
		mm.field("old", 1, tMessage, lo.path)
		mid.MessageType = append(mid.MessageType, mm.msg)
		// same Go package: z.proto (proto2, sorts last) imported by a.proto (proto3, sorts first)
		z := file("vc/mixed/same/z.proto", "vc.mixed.same", goPkg("mixed", "same"))
		z.Syntax = proto.String("proto2")
		zm := newMsg("vc.mixed.same", "Legacy")
		zm.field("v", 1, tInt32, "")
		z.MessageType = append(z.MessageType, zm.msg)
		a := file("vc/mixed/same/a.proto", "vc.mixed.same", goPkg("mixed", "same"), z.GetName())
		am := newMsg("vc.mixed.same", "Modern")
		am.field("legacy", 1, tMessage, zm.path)
		am.repeated("more", 2, tMessage, zm.path)
		a.MessageType = append(a.MessageType, am.msg)
		add(&Schema{Name: "mixed", Files: []*descriptorpb.FileDescriptorProto{l2, mid, z, a}, Generate: []string{mid.GetName(), a.GetName()}, PbGo: []string{l2.GetName(), z.GetName()}})
		// the same request with the proto2 files listed as files to generate too (protoc lists whatever is on its command
		// line): they produce no file, and what is generated for the others does not change
		cl2 := func(f *descriptorpb.FileDescriptorProto) *descriptorpb.FileDescriptorProto {
			c := proto.Clone(f).(*descriptorpb.FileDescriptorProto)
			c.Name = proto.String(strings.Replace(c.GetName(), "vc/mixed/", "vc/mixedall/", 1))
			c.Package = proto.String(strings.Replace(c.GetPackage(), "vc.mixed", "vc.mixedall", 1))
			c.Options.GoPackage = proto.String(strings.Replace(c.Options.GetGoPackage(), "/mixed/", "/mixedall/", 1))
			for i, d := range c.Dependency {
				c.Dependency[i] = strings.Replace(d, "vc/mixed/", "vc/mixedall/", 1)
			}
			var fix func(m *descriptorpb.DescriptorProto)
			fix = func(m *descriptorpb.DescriptorProto) {
				for _, fd := range m.Field {
					if fd.TypeName != nil {
						fd.TypeName = proto.String(strings.Replace(fd.GetTypeName(), ".vc.mixed.", ".vc.mixedall.", 1))
					}
				}
				for _, n := range m.NestedType {
					fix(n)
				}
			}
			for _, m := range c.MessageType {
				fix(m)
			}
			return c
		}
		l2b, midb, zb, ab := cl2(l2), cl2(mid), cl2(z), cl2(a)
		add(&Schema{Name: "mixedall", Files: []*descriptorpb.FileDescriptorProto{l2b, midb, zb, ab}, PbGo: []string{l2b.GetName(), zb.GetName()}, SomeNoFile: []string{l2b.GetName(), zb.GetName()}})
	}
	{
		f := file("vc/nestedext.proto", "vc.nestedext", goPkg("nestedext", ""), "google/protobuf/descriptor.proto")
		m := newMsg("vc.nestedext", "Scope")
		m.field("name", 1, tString, "")
		m.msg.Extension = append(m.msg.Extension, &descriptorpb.FieldDescriptorProto{Name: proto.String("note"), Number: proto.Int32(50001), Type: tString.Enum(),
			Label: descriptorpb.FieldDescriptorProto_LABEL_OPTIONAL.Enum(), JsonName: proto.String("note"), Extendee: proto.String(".google.protobuf.FieldOptions")})
		m.msg.Extension = append(m.msg.Extension, &descriptorpb.FieldDescriptorProto{Name: proto.String("weight"), Number: proto.Int32(50002), Type: tInt32.Enum(),
			Label: descriptorpb.FieldDescriptorProto_LABEL_OPTIONAL.Enum(), JsonName: proto.String("weight"), Extendee: proto.String(".google.protobuf.MessageOptions")})
		in := m.nested("Inner")
		in.field("v", 1, tInt32, "")
		in.msg.Extension = append(in.msg.Extension, &descriptorpb.FieldDescriptorProto{Name: proto.String("inner_note"), Number: proto.Int32(50003), Type: tMessage.Enum(), TypeName: proto.String(".vc.nestedext.Scope"),
			Label: descriptorpb.FieldDescriptorProto_LABEL_OPTIONAL.Enum(), JsonName: proto.String("innerNote"), Extendee: proto.String(".google.protobuf.FieldOptions")})
		f.MessageType = append(f.MessageType, m.msg)
		add(&Schema{Name: "nestedext", Files: []*descriptorpb.FileDescriptorProto{f}})
	}

	// ---- the well-known files themselves as files to generate (their special helper functions: Any, Timestamp, Duration,
	// FieldMask, Struct/Value/ListValue, the wrappers), into private Go packages
	{
		var files []*descriptorpb.FileDescriptorProto
		for _, n := range []string{"any", "duration", "timestamp", "field_mask", "struct", "wrappers", "empty"} {
			fd, err := protoregistry.GlobalFiles.FindFileByPath("google/protobuf/" + n + ".proto")
			if err != nil {
				continue
			}
			fp := protodesc.ToFileDescriptorProto(fd)
			if fp.Options == nil {
				fp.Options = &descriptorpb.FileOptions{}
			}
			fp.Options.GoPackage = proto.String(goPkg("wktgen", n+"pb"))
			files = append(files, fp)
		}
		add(&Schema{Name: "wktgen", Files: files})
	}

	// ---- two proto packages that share one Go package, one importing the other
	{
		fa := file("vc/twopkg/a.proto", "vc.twopkg.alpha", goPkg("twopkg", ""))
		am := newMsg("vc.twopkg.alpha", "Alpha")
		am.field("id", 1, tInt32, "")
		fa.MessageType = append(fa.MessageType, am.msg)
		fa.EnumType = append(fa.EnumType, enum("Grade", "GRADE_UNSPECIFIED", 0, "GRADE_A", 1))
		fb := file("vc/twopkg/b.proto", "vc.twopkg.beta", goPkg("twopkg", ""), "vc/twopkg/a.proto")
		bm := newMsg("vc.twopkg.beta", "Beta")
		bm.field("alpha", 1, tMessage, am.path)
		bm.mapField("grades", 2, tString, tEnum, ".vc.twopkg.alpha.Grade")
		fb.MessageType = append(fb.MessageType, bm.msg)
		// message options that carry unknown (custom) option records of every wire type, a group among them
		var unk []byte
		unk = protowire.AppendTag(unk, 50020, protowire.StartGroupType)
		unk = protowire.AppendTag(unk, 1, protowire.VarintType)
		unk = protowire.AppendVarint(unk, 5)
		unk = protowire.AppendTag(unk, 2, protowire.BytesType)
		unk = protowire.AppendBytes(unk, []byte("in group"))
		unk = protowire.AppendTag(unk, 50020, protowire.EndGroupType)
		unk = protowire.AppendTag(unk, 50021, protowire.Fixed32Type)
		unk = protowire.AppendFixed32(unk, 7)
		unk = protowire.AppendTag(unk, 50022, protowire.Fixed64Type)
		unk = protowire.AppendFixed64(unk, 9)
		unk = protowire.AppendTag(unk, 50023, protowire.BytesType)
		unk = protowire.AppendBytes(unk, []byte("custom"))
		unk = protowire.AppendTag(unk, 37383685, protowire.VarintType) // protoc-gen-go's track_field_use annotation, off
		unk = protowire.AppendVarint(unk, 0)
		bm.msg.Options = &descriptorpb.MessageOptions{}
		bm.msg.Options.ProtoReflect().SetUnknown(unk)
		add(&Schema{Name: "twopkg", Files: []*descriptorpb.FileDescriptorProto{fa, fb}})
	}

	// ---- two more known findings, each isolated in a schema of its own
	{
		// F24: descriptor variables are named fd_<MessageGoName>_<field name>: A.B_c and A.B.c both give fd_A_B_c
		f := file("vc/fdclash.proto", "vc.fdclash", goPkg("fdclash", ""))
		a := newMsg("vc.fdclash", "A")
		b := a.nested("B")
		b.field("c", 1, tInt32, "")
		a.field("B_c", 1, tString, "")
		a.field("b", 2, tMessage, b.path)
		f.MessageType = append(f.MessageType, a.msg)
		add(&Schema{Name: "fdclash", Files: []*descriptorpb.FileDescriptorProto{f}, Known: "F24"})
		// F25: the `_` suffix given to a reserved name can hit a name that already exists
		g := file("vc/renameclash.proto", "vc.renameclash", goPkg("renameclash", ""))
		m := newMsg("vc.renameclash", "M")
		o := m.oneof("type")
		m.member(o, "a", 1, tString, "")
		m.field("type_", 2, tInt32, "")
		g.MessageType = append(g.MessageType, m.msg)
		// the same through a getter: `get` becomes Get_, whose getter GetGet_ is the field protogen made of `get_get`
		m2 := newMsg("vc.renameclash", "N")
		m2.field("get", 1, tInt32, "")
		m2.field("get_get", 2, tInt32, "")
		g.MessageType = append(g.MessageType, m2.msg)
		add(&Schema{Name: "renameclash", Files: []*descriptorpb.FileDescriptorProto{g}, Known: "F25"})
	}

	// ---- requests that must not produce code
	{
		f := file("vc/p2.proto", "vc.p2", goPkg("p2", ""))
		f.Syntax = proto.String("proto2")
		m := newMsg("vc.p2", "Old")
		m.field("a", 1, tInt32, "")
		f.MessageType = append(f.MessageType, m.msg)
		add(&Schema{Name: "proto2", Files: []*descriptorpb.FileDescriptorProto{f}, ExpectNoFile: true})
		g := file("vc/feat.proto", "vc.feat", goPkg("feat", ""))
		gm := newMsg("vc.feat", "M")
		gm.field("a", 1, tInt32, "")
		g.MessageType = append(g.MessageType, gm.msg)
		add(&Schema{Name: "unknown_feature", Files: []*descriptorpb.FileDescriptorProto{g}, Param: "features=protoc+nosuchfeature", ExpectError: true})
		// an empty feature name is not a feature either: `features=`, a doubled or a trailing '+'
		add(&Schema{Name: "unknown_feature_empty", Files: []*descriptorpb.FileDescriptorProto{g}, Param: "features=", ExpectError: true})
		add(&Schema{Name: "unknown_feature_gap", Files: []*descriptorpb.FileDescriptorProto{g}, Param: "features=protoc++fast", ExpectError: true})
		add(&Schema{Name: "unknown_feature_trail", Files: []*descriptorpb.FileDescriptorProto{g}, Param: "features=protoc+fast+", ExpectError: true})
		// an unknown name after (or before) the catch-all
		add(&Schema{Name: "unknown_feature_after_all", Files: []*descriptorpb.FileDescriptorProto{g}, Param: "features=all+nosuchfeature", ExpectError: true})
		add(&Schema{Name: "unknown_feature_before_all", Files: []*descriptorpb.FileDescriptorProto{g}, Param: "features=nosuchfeature+all", ExpectError: true})
		// the feature names are checked whatever the request contains: also when no proto3 file is to be generated
		p2 := proto.Clone(f).(*descriptorpb.FileDescriptorProto)
		p2.Name = proto.String("vc/p2only.proto")
		p2.Options.GoPackage = proto.String(goPkg("p2only", ""))
		add(&Schema{Name: "unknown_feature_no_proto3", Files: []*descriptorpb.FileDescriptorProto{p2}, Param: "features=protoc+nosuchfeature", ExpectError: true})
		g2 := proto.Clone(g).(*descriptorpb.FileDescriptorProto)
		g2.Options.GoPackage = proto.String(goPkg("featexplicit", ""))
		g2.Name = proto.String("vc/featexplicit.proto")
		add(&Schema{Name: "featexplicit", Files: []*descriptorpb.FileDescriptorProto{g2}, Param: "features=protoc+fast"})
	}

	out = append(out, embedded...)
	return out
}


// commentEverything attaches comments to the syntax and package statements and to every message, field, oneof, enum,
// enum value, service and method of the file (paths as protoc numbers them).
func commentEverything(f *descriptorpb.FileDescriptorProto) *descriptorpb.SourceCodeInfo {
	texts := []string{
		" one line\n",
		" first line\n second line\n\n after a blank line\n",
		" tabs\tand \"quotes\" and `backticks` and a backslash \\ and */ and /* and %d %s\n",
		" unicode: żółć ✓ — and trailing spaces   \n  indented continuation\n",
		"no leading space\nTODO(x): something\n",
		" ends without newline",
	}
	n := 0
	next := func() string { n++; return texts[n%len(texts)] }
	sci := &descriptorpb.SourceCodeInfo{}
	add := func(path ...int32) {
		loc := &descriptorpb.SourceCodeInfo_Location{Path: path, Span: []int32{int32(n), 0, int32(n), 10},
			LeadingComments: proto.String(next())}
		if n%2 == 0 {
			loc.TrailingComments = proto.String(next())
		}
		if n%3 == 0 {
			loc.LeadingDetachedComments = []string{next(), next()}
		}
		sci.Location = append(sci.Location, loc)
	}
	add(12) // syntax
	add(2)  // package
	var msg func(m *descriptorpb.DescriptorProto, path []int32)
	ext := func(p []int32, more ...int32) []int32 { return append(append([]int32{}, p...), more...) }
	msg = func(m *descriptorpb.DescriptorProto, path []int32) {
		add(path...)
		for i := range m.Field {
			add(ext(path, 2, int32(i))...)
		}
		for i := range m.OneofDecl {
			add(ext(path, 8, int32(i))...)
		}
		for i, e := range m.EnumType {
			add(ext(path, 4, int32(i))...)
			for j := range e.Value {
				add(ext(path, 4, int32(i), 2, int32(j))...)
			}
		}
		for i, nm := range m.NestedType {
			if nm.GetOptions().GetMapEntry() {
				continue
			}
			msg(nm, ext(path, 3, int32(i)))
		}
	}
	for i, m := range f.MessageType {
		msg(m, []int32{4, int32(i)})
	}
	for i, e := range f.EnumType {
		add(5, int32(i))
		for j := range e.Value {
			add(5, int32(i), 2, int32(j))
		}
	}
	for i, sv := range f.Service {
		add(6, int32(i))
		for j := range sv.Method {
			add(6, int32(i), 2, int32(j))
		}
	}
	return sci
}
