package codec

import (
	"fmt"
	"sort"
	"strings"

	"google.golang.org/protobuf/encoding/protowire"
	"google.golang.org/protobuf/reflect/protoreflect"

	"verif/checker/internal/model"
)

// ---------------------------------------------------------------------------
// Poly: linear forms over opaque atoms (canonical sums)

type Poly map[string]int64 // atom -> coefficient; "" is the constant term

func pConst(k int64) Poly { return Poly{"": k} }
func pAtom(a string) Poly { return Poly{a: 1} }

func (p Poly) add(q Poly) Poly {
	out := Poly{}
	for k, v := range p {
		out[k] += v
	}
	for k, v := range q {
		out[k] += v
	}
	for k, v := range out {
		if v == 0 {
			delete(out, k)
		}
	}
	return out
}

func (p Poly) scale(c int64) Poly {
	out := Poly{}
	for k, v := range p {
		if v*c != 0 {
			out[k] = v * c
		}
	}
	return out
}

// pSum is the sum of inner over the elements of a list, in one canonical form: the constant part of the summand counts
// once per element (k*len(coll)), whether the code adds it inside the loop or once in front of it.
func pSum(coll string, inner Poly) Poly {
	if len(inner) == 0 {
		return Poly{}
	}
	out := Poly{}
	rest := Poly{}
	for k, v := range inner {
		if k == "" {
			out["len("+coll+")"] = v
		} else {
			rest[k] = v
		}
	}
	if len(rest) > 0 {
		out["sum("+coll+"){"+rest.String()+"}"] = 1
	}
	return out
}

func (p Poly) isConst() (int64, bool) {
	for k := range p {
		if k != "" {
			return 0, false
		}
	}
	return p[""], true
}

func (p Poly) String() string {
	var ks []string
	for k := range p {
		if k != "" {
			ks = append(ks, k)
		}
	}
	sort.Strings(ks)
	var parts []string
	for _, k := range ks {
		if p[k] == 1 {
			parts = append(parts, k)
		} else {
			parts = append(parts, fmt.Sprintf("%d*%s", p[k], k))
		}
	}
	if c := p[""]; c != 0 || len(parts) == 0 {
		parts = append(parts, fmt.Sprintf("%d", c))
	}
	return strings.Join(parts, " + ")
}

// ---------------------------------------------------------------------------
// Wire sentences

type W interface{}
type WTag struct{ B []byte }
type WVarint struct{ T string }
type WFixed struct {
	Width int
	T     string
}
type WBool struct{ T string }
type WRaw struct{ T string } // raw bytes of T (string, []byte or Marshal(m))
// WLen is the minimal varint holding the byte length of Body (a length prefix).
type WLen struct{ Body []W }
type WLoop struct {
	Coll string
	Body []W
}
type WMap struct {
	Coll string
	Body []W
}

func render(ws []W) string {
	var parts []string
	for _, w := range ws {
		switch t := w.(type) {
		case WTag:
			parts = append(parts, fmt.Sprintf("tag(%x)", t.B))
		case WVarint:
			parts = append(parts, "varint("+t.T+")")
		case WFixed:
			parts = append(parts, fmt.Sprintf("fixed%d(%s)", t.Width*8, t.T))
		case WBool:
			parts = append(parts, "bool("+t.T+")")
		case WRaw:
			parts = append(parts, "raw("+t.T+")")
		case WLen:
			parts = append(parts, "varint(nat("+sizeOf(t.Body, false).String()+"))")
		case WLoop:
			parts = append(parts, "loop("+t.Coll+"){"+render(t.Body)+"}")
		case WMap:
			parts = append(parts, "maploop("+t.Coll+"){"+render(t.Body)+"}")
		default:
			parts = append(parts, fmt.Sprintf("?%T", w))
		}
	}
	return strings.Join(parts, " ")
}

// lenOfRaw gives the length term of raw data: len(T), or Size(m) for T = Marshal(m) in size mode.
func lenOfRaw(t string, sizeMode bool) string {
	if sizeMode && strings.HasPrefix(t, "Marshal(") {
		return "Size(" + t[8:len(t)-1] + ")"
	}
	return "len(" + t + ")"
}

// sizeOf computes the byte length of a wire sentence as a Poly.
func sizeOf(ws []W, sizeMode bool) Poly {
	p := Poly{}
	for _, w := range ws {
		switch t := w.(type) {
		case WTag:
			p = p.add(pConst(int64(len(t.B))))
		case WVarint:
			p = p.add(pAtom("Sov(" + t.T + ")"))
		case WLen:
			p = p.add(pAtom("Sov(nat(" + sizeOf(t.Body, sizeMode).String() + "))"))
		case WFixed:
			p = p.add(pConst(int64(t.Width)))
		case WBool:
			p = p.add(pConst(1))
		case WRaw:
			p = p.add(pAtom(lenOfRaw(t.T, sizeMode)))
		case WLoop:
			b := sizeOf(t.Body, sizeMode)
			p = p.add(pSum(t.Coll, b))
		case WMap:
			b := sizeOf(t.Body, sizeMode)
			p = p.add(pAtom("sum(" + t.Coll + "){" + b.String() + "}"))
		}
	}
	return p
}

func wireTypeOf(k protoreflect.Kind) protowire.Type {
	switch k {
	case protoreflect.BoolKind, protoreflect.EnumKind, protoreflect.Int32Kind, protoreflect.Sint32Kind, protoreflect.Uint32Kind,
		protoreflect.Int64Kind, protoreflect.Sint64Kind, protoreflect.Uint64Kind:
		return protowire.VarintType
	case protoreflect.Sfixed32Kind, protoreflect.Fixed32Kind, protoreflect.FloatKind:
		return protowire.Fixed32Type
	case protoreflect.Sfixed64Kind, protoreflect.Fixed64Kind, protoreflect.DoubleKind:
		return protowire.Fixed64Type
	}
	return protowire.BytesType
}

// payload gives the wire sentence of one value of the kind, held by lvalue term L.
func payload(k protoreflect.Kind, L string) []W {
	switch k {
	case protoreflect.BoolKind:
		return []W{WBool{L}}
	case protoreflect.Int32Kind, protoreflect.Int64Kind, protoreflect.EnumKind:
		return []W{WVarint{"sx(" + L + ")"}}
	case protoreflect.Uint32Kind, protoreflect.Uint64Kind:
		return []W{WVarint{L}}
	case protoreflect.Sint32Kind, protoreflect.Sint64Kind:
		return []W{WVarint{"zz(" + L + ")"}}
	case protoreflect.Fixed32Kind:
		return []W{WFixed{4, L}}
	case protoreflect.Sfixed32Kind:
		return []W{WFixed{4, "b32(" + L + ")"}}
	case protoreflect.FloatKind:
		return []W{WFixed{4, "f32bits(" + L + ")"}}
	case protoreflect.Fixed64Kind:
		return []W{WFixed{8, L}}
	case protoreflect.Sfixed64Kind:
		return []W{WFixed{8, "sx(" + L + ")"}}
	case protoreflect.DoubleKind:
		return []W{WFixed{8, "f64bits(" + L + ")"}}
	case protoreflect.StringKind, protoreflect.BytesKind:
		return []W{WLen{[]W{WRaw{L}}}, WRaw{L}}
	case protoreflect.MessageKind:
		return []W{WLen{[]W{WRaw{"Marshal(" + L + ")"}}}, WRaw{"Marshal(" + L + ")"}}
	}
	return []W{WRaw{"?unsupported kind " + k.String()}}
}

// presence gives the proto3 presence predicate of a singular non-oneof field.
func presence(fd protoreflect.FieldDescriptor, L string) string {
	switch {
	case fd.IsList() || fd.IsMap():
		return "nonempty(" + L + ")"
	}
	switch fd.Kind() {
	case protoreflect.BoolKind:
		return "true(" + L + ")"
	case protoreflect.FloatKind, protoreflect.DoubleKind:
		return "nonzero(" + L + ") || signbit(" + L + ")"
	case protoreflect.StringKind, protoreflect.BytesKind:
		return "nonempty(" + L + ")"
	case protoreflect.MessageKind:
		return "nonnil(" + L + ")"
	}
	return "nonzero(" + L + ")"
}

// FieldSpec is what the spec demands of one field, rendered canonically.
type FieldSpec struct {
	F     *model.Field
	Guard string // "" for oneof members (arm selection is the guard)
	Wire  []W
}

func tagBytes(num protoreflect.FieldNumber, wt protowire.Type) []byte {
	return protowire.AppendTag(nil, protowire.Number(num), wt)
}

// specOf builds the expected wire sentence of a field; L is "x.<GoName>" or "w.<GoName>" for oneof members.
func specOf(f *model.Field) FieldSpec {
	fd := f.Desc
	L := "x." + f.GoName
	if f.Oneof != nil {
		L = "w." + f.GoName
	}
	sp := FieldSpec{F: f}
	switch {
	case fd.IsMap():
		k, v := fd.MapKey(), fd.MapValue()
		body := []W{WTag{tagBytes(1, wireTypeOf(k.Kind()))}}
		body = append(body, payload(k.Kind(), "key("+L+")")...)
		body = append(body, WTag{tagBytes(2, wireTypeOf(v.Kind()))})
		body = append(body, payload(v.Kind(), "val("+L+")")...)
		entry := []W{WTag{tagBytes(fd.Number(), protowire.BytesType)}, WLen{body}}
		entry = append(entry, body...)
		sp.Guard = presence(fd, L)
		sp.Wire = []W{WMap{L, entry}}
	case fd.IsList() && fd.IsPacked():
		body := payload(fd.Kind(), "elem("+L+")")
		block := []W{WLoop{L, body}}
		sp.Guard = presence(fd, L)
		sp.Wire = append([]W{WTag{tagBytes(fd.Number(), protowire.BytesType)}, WLen{block}}, block...)
	case fd.IsList():
		body := append([]W{WTag{tagBytes(fd.Number(), wireTypeOf(fd.Kind()))}}, payload(fd.Kind(), "elem("+L+")")...)
		sp.Guard = presence(fd, L)
		sp.Wire = []W{WLoop{L, body}}
	default:
		sp.Wire = append([]W{WTag{tagBytes(fd.Number(), wireTypeOf(fd.Kind()))}}, payload(fd.Kind(), L)...)
		if f.Oneof == nil {
			sp.Guard = presence(fd, L)
		}
	}
	return sp
}

func (sp FieldSpec) encString() string {
	s := render(sp.Wire)
	if sp.Guard != "" {
		return "if(" + sp.Guard + "){" + s + "}"
	}
	return s
}

func (sp FieldSpec) sizeString() string {
	s := sizeOf(sp.Wire, true).String()
	if sp.Guard != "" {
		return "if(" + sp.Guard + "){" + s + "}"
	}
	return s
}
