package codec

import (
	"fmt"
	"go/ast"
	"go/token"
	"go/types"
	"strings"

	"verif/checker/internal/core"
)

// mapBlock recognises the body of a map field's marshal block:
//
//	entry := func(k K, v V) (MarshalOutput, error) { baseI := i; …emit…; return MarshalOutput{}, nil }
//	if options.Deterministic { keys := collect(C); sort(keys); for reverse keys { v := C[key]; out, err := entry(key, v); if err != nil { return out, err } } }
//	else { for k := range C { v := C[k]; out, err := entry(k, v); if err != nil { return out, err } } }
//
// It returns isMap=false when the statements do not start with a function literal definition.
func (w *encWalker) mapBlock(list []ast.Stmt, out *wout) (string, error, bool) {
	info := w.e.info
	if len(list) < 1 {
		return "", nil, false
	}
	def, ok := list[0].(*ast.AssignStmt)
	if !ok || def.Tok != token.DEFINE || len(def.Lhs) != 1 || len(def.Rhs) != 1 {
		return "", nil, false
	}
	fl, ok := def.Rhs[0].(*ast.FuncLit)
	if !ok {
		return "", nil, false
	}
	if len(list) != 2 {
		return "", und("map block: expected the entry closure followed by the deterministic/plain iteration"), true
	}
	fnObj := info.ObjectOf(def.Lhs[0].(*ast.Ident))
	// parameters
	var params []types.Object
	for _, f := range fl.Type.Params.List {
		for _, n := range f.Names {
			params = append(params, info.ObjectOf(n))
		}
	}
	if len(params) != 2 {
		return "", und("map entry closure must take (key, value)"), true
	}
	// iteration
	is, ok := list[1].(*ast.IfStmt)
	if !ok || is.Init != nil || is.Else == nil {
		return "", fmt.Errorf("map entries are not emitted under `if options.Deterministic {sorted} else {range}`"), true
	}
	cond := ast.Unparen(is.Cond)
	sel, ok := cond.(*ast.SelectorExpr)
	if !ok || sel.Sel.Name != "Deterministic" || !w.isIdent(sel.X, w.opts) {
		return "", fmt.Errorf("map iteration is selected by %s, not by options.Deterministic", types.ExprString(cond)), true
	}
	// ---- else arm: plain range
	eb, ok := is.Else.(*ast.BlockStmt)
	if !ok || len(eb.List) != 1 {
		return "", und("map block else arm"), true
	}
	collElse, err := w.plainMapLoop(eb.List[0], fnObj)
	if err != nil {
		return "", err, true
	}
	// ---- then arm: collect, sort, reverse iterate
	collThen, err := w.sortedMapLoop(is.Body.List, fnObj)
	if err != nil {
		return "", err, true
	}
	if collThen != collElse {
		return "", fmt.Errorf("deterministic arm iterates %s but the plain arm iterates %s", collThen, collElse), true
	}
	// analyse the closure body with key/value bound to the entry of that map
	ce := w.e.child()
	ce.set(params[0], "key("+collThen+")")
	ce.set(params[1], "val("+collThen+")")
	body := fl.Body.List
	if len(body) < 2 {
		return "", und("map entry closure body"), true
	}
	b0, ok := body[0].(*ast.AssignStmt)
	if !ok || b0.Tok != token.DEFINE || len(b0.Lhs) != 1 || !w.isIdent(b0.Rhs[0], w.iVar) {
		return "", und("map entry closure must start with baseI := i"), true
	}
	ce.set(info.ObjectOf(b0.Lhs[0].(*ast.Ident)), "$baseI")
	last, ok := body[len(body)-1].(*ast.ReturnStmt)
	if !ok || len(last.Results) < 1 || len(last.Results) > 2 || types.ExprString(last.Results[len(last.Results)-1]) != "nil" {
		return "", und("map entry closure must end with return …, nil"), true
	}
	sub := &wout{}
	saved := w.e
	w.e = ce
	mark := func() (Poly, bool) { return sizeOf(sub.ws, false), true }
	err = w.stmts(body[1:len(body)-1], sub, mark)
	w.e = saved
	if err != nil {
		return "", err, true
	}
	out.prepend(WMap{collThen, sub.ws})
	w.detOK = append(w.detOK, collThen)
	return collThen, nil, true
}

func substW(ws []W, from1, to1, from2, to2 string) []W {
	r := strings.NewReplacer(from1, to1, from2, to2)
	var out []W
	for _, x := range ws {
		switch t := x.(type) {
		case WVarint:
			out = append(out, WVarint{r.Replace(t.T)})
		case WFixed:
			out = append(out, WFixed{t.Width, r.Replace(t.T)})
		case WBool:
			out = append(out, WBool{r.Replace(t.T)})
		case WRaw:
			out = append(out, WRaw{r.Replace(t.T)})
		case WLoop:
			out = append(out, WLoop{r.Replace(t.Coll), substW(t.Body, from1, to1, from2, to2)})
		default:
			out = append(out, x)
		}
	}
	return out
}

// callEntry checks `v := C[key]; out, err := entry(key, v); if err != nil { return out, err }`
// where keyTerm is the term of the key at this point; returns nil on success.
func (w *encWalker) callEntry(body []ast.Stmt, e *env, coll, keyTerm string, fnObj types.Object) error {
	return w.callEntryV(body, e, coll, keyTerm, fnObj, nil)
}

// callEntryV: as callEntry; when vPre is set the value is already bound by the range clause (`for k, v := range C`),
// which is the value of that key, and the lookup statement is absent.
func (w *encWalker) callEntryV(body []ast.Stmt, e *env, coll, keyTerm string, fnObj types.Object, vPre types.Object) error {
	info := w.e.info
	// `if err := entry(k, v); err != nil { return …, err }` (a closure that returns the error alone) is the call followed
	// by the error check
	if n := len(body); n > 0 {
		if is, ok := body[n-1].(*ast.IfStmt); ok && is.Else == nil {
			if as, ok := is.Init.(*ast.AssignStmt); ok && as.Tok == token.DEFINE && len(as.Lhs) == 1 && len(as.Rhs) == 1 {
				if call, ok := as.Rhs[0].(*ast.CallExpr); ok && w.isIdent(call.Fun, fnObj) {
					if sig, ok := info.TypeOf(call.Fun).(*types.Signature); ok && sig.Results().Len() == 1 {
						two := &ast.AssignStmt{Lhs: []ast.Expr{ast.NewIdent("_"), as.Lhs[0]}, Tok: token.DEFINE, TokPos: as.TokPos, Rhs: as.Rhs}
						chk := &ast.IfStmt{If: is.If, Cond: is.Cond, Body: is.Body}
						body = append(append([]ast.Stmt{}, body[:n-1]...), two, chk)
					}
				}
			}
		}
	}
	if vPre != nil {
		if len(body) != 2 {
			return und("map loop body must be: entry call, error check")
		}
		c, ok := body[0].(*ast.AssignStmt)
		if !ok || c.Tok != token.DEFINE || len(c.Lhs) != 2 {
			return und("map loop body: entry call")
		}
		call, ok := c.Rhs[0].(*ast.CallExpr)
		if !ok || !w.isIdent(call.Fun, fnObj) || len(call.Args) != 2 {
			return und("map loop body: entry call form")
		}
		a0, err := e.term(call.Args[0])
		if err != nil {
			return err
		}
		if a0 != keyTerm || !w.isIdent(call.Args[1], vPre) {
			return fmt.Errorf("entry closure is called with (%s, %s), expected (%s, value of that key)", a0, types.ExprString(call.Args[1]), keyTerm)
		}
		errID, _ := c.Lhs[1].(*ast.Ident)
		if errID == nil || !w.isErrReturn(body[1], errID) {
			return fmt.Errorf("error of the entry closure is not returned")
		}
		return nil
	}
	if len(body) != 3 {
		return und("map loop body must be: value lookup, entry call, error check")
	}
	d, ok := body[0].(*ast.AssignStmt)
	if !ok || d.Tok != token.DEFINE || len(d.Lhs) != 1 {
		return und("map loop body: value lookup")
	}
	ix, ok := ast.Unparen(d.Rhs[0]).(*ast.IndexExpr)
	if !ok {
		return und("map loop body: value lookup form")
	}
	base, err := e.term(ix.X)
	if err != nil {
		return err
	}
	k, err := e.term(ix.Index)
	if err != nil {
		return err
	}
	if base != coll || k != keyTerm {
		return fmt.Errorf("value is looked up as %s[%s], expected %s[%s]", base, k, coll, keyTerm)
	}
	vObj := info.ObjectOf(d.Lhs[0].(*ast.Ident))
	c, ok := body[1].(*ast.AssignStmt)
	if !ok || c.Tok != token.DEFINE || len(c.Lhs) != 2 {
		return und("map loop body: entry call")
	}
	call, ok := c.Rhs[0].(*ast.CallExpr)
	if !ok || !w.isIdent(call.Fun, fnObj) || len(call.Args) != 2 {
		return und("map loop body: entry call form")
	}
	a0, err := e.term(call.Args[0])
	if err != nil {
		return err
	}
	if a0 != keyTerm || !w.isIdent(call.Args[1], vObj) {
		return fmt.Errorf("entry closure is called with (%s, %s), expected (%s, value of that key)", a0, types.ExprString(call.Args[1]), keyTerm)
	}
	errID, _ := c.Lhs[1].(*ast.Ident)
	if errID == nil || !w.isErrReturn(body[2], errID) {
		return fmt.Errorf("error of the entry closure is not returned")
	}
	return nil
}

func (w *encWalker) plainMapLoop(s ast.Stmt, fnObj types.Object) (string, error) {
	info := w.e.info
	rs, ok := s.(*ast.RangeStmt)
	if !ok {
		return "", und("plain arm is not a range loop")
	}
	coll, err := w.e.term(rs.X)
	if err != nil {
		return "", err
	}
	if t := info.TypeOf(rs.X); t == nil {
		return "", und("range operand type")
	} else if _, isMap := t.Underlying().(*types.Map); !isMap {
		return "", und("plain arm does not range over the map")
	}
	kv, _ := rs.Key.(*ast.Ident)
	if kv == nil {
		return "", und("plain arm must bind the key")
	}
	ce := w.e.child()
	ce.set(info.ObjectOf(kv), "key("+coll+")")
	var vPre types.Object
	if rs.Value != nil {
		vid, ok := rs.Value.(*ast.Ident)
		if !ok || vid.Name == "_" {
			return "", und("plain arm range value form")
		}
		vPre = info.ObjectOf(vid)
	}
	if err := w.callEntryV(rs.Body.List, ce, coll, "key("+coll+")", fnObj, vPre); err != nil {
		return "", err
	}
	return coll, nil
}

// sortedMapLoop checks the deterministic arm.
func (w *encWalker) sortedMapLoop(list []ast.Stmt, fnObj types.Object) (string, error) {
	info := w.e.info
	if len(list) != 4 {
		return "", fmt.Errorf("deterministic arm must be: allocate keys, collect all keys, sort, reverse-iterate (found %d statements)", len(list))
	}
	// keys := make([]K, 0, len(C))
	d, ok := list[0].(*ast.AssignStmt)
	if !ok || d.Tok != token.DEFINE || len(d.Lhs) != 1 {
		return "", und("deterministic arm: keys allocation")
	}
	keys := info.ObjectOf(d.Lhs[0].(*ast.Ident))
	mk, ok := d.Rhs[0].(*ast.CallExpr)
	if !ok {
		return "", und("deterministic arm: keys allocation form")
	}
	if b, ok := core.CalleeObj(info, mk).(*types.Builtin); !ok || b.Name() != "make" || len(mk.Args) < 2 {
		return "", und("deterministic arm: keys must be a fresh slice")
	}
	if k, ok := constInt(info, mk.Args[1]); !ok || k != 0 {
		return "", fmt.Errorf("deterministic arm: key slice must start empty (length %s)", types.ExprString(mk.Args[1]))
	}
	// for k := range C { keys = append(keys, K(k)) }
	rs, ok := list[1].(*ast.RangeStmt)
	if !ok || rs.Value != nil {
		return "", und("deterministic arm: key collection loop")
	}
	coll, err := w.e.term(rs.X)
	if err != nil {
		return "", err
	}
	if t := info.TypeOf(rs.X); t == nil {
		return "", und("range operand type")
	} else if _, isMap := t.Underlying().(*types.Map); !isMap {
		return "", fmt.Errorf("deterministic arm collects keys from %s, which is not the map", coll)
	}
	kv, _ := rs.Key.(*ast.Ident)
	if kv == nil || len(rs.Body.List) != 1 {
		return "", und("deterministic arm: key collection loop body")
	}
	ap, ok := rs.Body.List[0].(*ast.AssignStmt)
	if !ok || ap.Tok != token.ASSIGN || !w.isIdent(ap.Lhs[0], keys) {
		return "", fmt.Errorf("deterministic arm: not every key is appended to the key slice")
	}
	apc, ok := ap.Rhs[0].(*ast.CallExpr)
	if !ok || len(apc.Args) != 2 || !w.isIdent(apc.Args[0], keys) {
		return "", und("deterministic arm: append form")
	}
	if b, ok := core.CalleeObj(info, apc).(*types.Builtin); !ok || b.Name() != "append" {
		return "", und("deterministic arm: append form")
	}
	ce := w.e.child()
	ce.set(info.ObjectOf(kv), "key("+coll+")")
	if kt, err := ce.term(apc.Args[1]); err != nil || kt != "key("+coll+")" {
		return "", fmt.Errorf("deterministic arm appends %s instead of the key", types.ExprString(apc.Args[1]))
	}
	// sort
	es, ok := list[2].(*ast.ExprStmt)
	if !ok {
		return "", fmt.Errorf("deterministic arm: keys are not sorted before emission")
	}
	sc, ok := es.X.(*ast.CallExpr)
	if !ok || len(sc.Args) < 1 || !w.isIdent(sc.Args[0], keys) {
		return "", fmt.Errorf("deterministic arm: keys are not sorted before emission")
	}
	elemT := keys.Type().Underlying().(*types.Slice).Elem()
	q := core.QualName(core.CalleeObj(info, sc))
	// `for _, k := range keys` walks the sorted keys front to back: the order in the slice must then be descending
	fwd, desc := list[3].(*ast.RangeStmt)
	if desc {
		if fwd.Tok != token.DEFINE || !w.isIdent(fwd.X, keys) || fwd.Value == nil || (fwd.Key != nil && types.ExprString(fwd.Key) != "_") {
			return "", und("deterministic arm: range over the sorted keys")
		}
	}
	switch q {
	case "sort.Strings", "sort.Ints", "sort.Float64s", "slices.Sort":
		if basicKind(elemT) == types.Bool {
			return "", und("library sort on bool keys")
		}
		if desc {
			return "", fmt.Errorf("deterministic arm: keys sorted ascending by %s are walked front to back into a buffer filled backwards: descending key order on the wire", q)
		}
	case "sort.Slice", "sort.SliceStable":
		if len(sc.Args) != 2 {
			return "", und("sort.Slice arity")
		}
		if err := w.checkLess(sc.Args[1], keys, elemT, desc); err != nil {
			return "", err
		}
	default:
		return "", fmt.Errorf("deterministic arm: %s is not a recognised sort of the key slice", q)
	}
	if desc {
		w.e.set(keys, "$keys")
		le := w.e.child()
		le.set(info.ObjectOf(fwd.Value.(*ast.Ident)), "elem($keys)")
		if fnObj == nil {
			saved := w.e
			w.e = le
			sub := &wout{}
			err := w.stmts(fwd.Body.List, sub, nil)
			w.e = saved
			if err != nil {
				return "", err
			}
			w.inlineEntry = substW(sub.ws, coll+"[elem($keys)]", "val("+coll+")", "elem($keys)", "key("+coll+")")
			return coll, nil
		}
		if err := w.callEntry(fwd.Body.List, (&keyEnv{le}).env, coll, "elem($keys)", fnObj); err != nil {
			return "", err
		}
		return coll, nil
	}
	// reverse loop
	fs, ok := list[3].(*ast.ForStmt)
	if !ok {
		return "", fmt.Errorf("deterministic arm: sorted keys must be iterated in reverse (the buffer is filled backwards)")
	}
	w.e.set(keys, "$keys")
	c2, idx, ok := w.reverseLoop(fs)
	if !ok || c2 != "$keys" {
		return "", fmt.Errorf("deterministic arm: sorted keys must be iterated by a reverse index loop (the buffer is filled backwards); a forward or range loop emits descending key order")
	}
	le := w.e.child()
	le.set(idx, w.idxMarker+"($keys)")
	// keyTerm: elem($keys) – conversions K(keys[i]) are identity on the key type
	le2 := &keyEnv{le}
	if fnObj == nil {
		// no entry closure: the loop body encodes the entry itself
		saved := w.e
		w.e = le
		sub := &wout{}
		err := w.stmts(fs.Body.List, sub, nil)
		w.e = saved
		if err != nil {
			return "", err
		}
		w.inlineEntry = substW(sub.ws, coll+"[elem($keys)]", "val("+coll+")", "elem($keys)", "key("+coll+")")
		return coll, nil
	}
	if err := w.callEntry(fs.Body.List, le2.env, coll, "elem($keys)", fnObj); err != nil {
		return "", err
	}
	return coll, nil
}

// mapBlockInline recognises a map field's marshal block without an entry closure:
//
//	if options.Deterministic { keys := collect(C); sort(keys); for reverse keys { k := keys[i]; v := C[k]; end := i; …emit… } }
//	else { for k[, v] := range C { [v := C[k];] end := i; …emit… } }
//
// Both loop bodies are interpreted; they must write the same entry.
func (w *encWalker) mapBlockInline(list []ast.Stmt, out *wout) (string, error, bool) {
	info := w.e.info
	if len(list) != 1 {
		return "", nil, false
	}
	is, ok := list[0].(*ast.IfStmt)
	if !ok || is.Init != nil || is.Else == nil {
		return "", nil, false
	}
	sel, ok := ast.Unparen(is.Cond).(*ast.SelectorExpr)
	if !ok || sel.Sel.Name != "Deterministic" || !w.isIdent(sel.X, w.opts) {
		return "", nil, false
	}
	eb, ok := is.Else.(*ast.BlockStmt)
	if !ok || len(eb.List) != 1 {
		return "", und("map block else arm"), true
	}
	rs, ok := eb.List[0].(*ast.RangeStmt)
	if !ok {
		return "", und("plain arm is not a range loop"), true
	}
	collElse, err := w.e.term(rs.X)
	if err != nil {
		return "", err, true
	}
	if t := info.TypeOf(rs.X); t == nil {
		return "", und("range operand type"), true
	} else if _, isMap := t.Underlying().(*types.Map); !isMap {
		return "", und("plain arm does not range over the map"), true
	}
	kv, _ := rs.Key.(*ast.Ident)
	if kv == nil || kv.Name == "_" {
		return "", und("plain arm must bind the key"), true
	}
	ce := w.e.child()
	ce.set(info.ObjectOf(kv), "key("+collElse+")")
	if rs.Value != nil {
		vid, ok := rs.Value.(*ast.Ident)
		if !ok {
			return "", und("plain arm range value form"), true
		}
		if vid.Name != "_" {
			ce.set(info.ObjectOf(vid), "val("+collElse+")")
		}
	}
	saved := w.e
	w.e = ce
	sub := &wout{}
	err = w.stmts(rs.Body.List, sub, nil)
	w.e = saved
	if err != nil {
		return "", fmt.Errorf("plain arm: %w", err), true
	}
	w.inlineEntry = nil
	collThen, err := w.sortedMapLoop(is.Body.List, nil)
	if err != nil {
		return "", err, true
	}
	if collThen != collElse {
		return "", fmt.Errorf("deterministic arm iterates %s but the plain arm iterates %s", collThen, collElse), true
	}
	if a, b := render(w.inlineEntry), render(sub.ws); a != b {
		return "", fmt.Errorf("the deterministic arm writes the entry %s, the plain arm writes %s", a, b), true
	}
	out.prepend(WMap{collThen, sub.ws})
	w.detOK = append(w.detOK, collThen)
	return collThen, nil, true
}

type keyEnv struct{ *env }

// checkLess evaluates the comparator abstractly on all orderings of two keys.
// Keys are touched only through comparisons, so {a<b, a=b, a>b} (for bool the
// four value pairs) is exhaustive. It must be the strict order `<` of
// order.GenericKeyOrder (false < true for bool).
func (w *encWalker) checkLess(fn ast.Expr, keys types.Object, elemT types.Type, desc bool) error {
	info := w.e.info
	fl, ok := fn.(*ast.FuncLit)
	if !ok || len(fl.Body.List) != 1 {
		return und("sort comparator is not a single-statement function literal")
	}
	var ps []types.Object
	for _, f := range fl.Type.Params.List {
		for _, n := range f.Names {
			ps = append(ps, info.ObjectOf(n))
		}
	}
	if len(ps) != 2 {
		return und("comparator arity")
	}
	rs, ok := fl.Body.List[0].(*ast.ReturnStmt)
	if !ok || len(rs.Results) != 1 {
		return und("comparator body is not a single return")
	}
	isBool := basicKind(elemT) == types.Bool
	// abstract evaluation
	type val struct {
		b    bool
		n    int
		kind int // 0 bool, 1 ordinal
	}
	var eval func(x ast.Expr, a, b val) (val, error)
	eval = func(x ast.Expr, a, b val) (val, error) {
		x = ast.Unparen(x)
		switch t := x.(type) {
		case *ast.IndexExpr:
			if !w.isIdent(t.X, keys) {
				return val{}, und("comparator reads %s", types.ExprString(t.X))
			}
			if w.isIdent(t.Index, ps[0]) {
				return a, nil
			}
			if w.isIdent(t.Index, ps[1]) {
				return b, nil
			}
			return val{}, und("comparator index %s", types.ExprString(t.Index))
		case *ast.UnaryExpr:
			if t.Op == token.NOT {
				v, err := eval(t.X, a, b)
				if err != nil {
					return val{}, err
				}
				return val{b: !v.b}, nil
			}
		case *ast.BinaryExpr:
			l, err := eval(t.X, a, b)
			if err != nil {
				return val{}, err
			}
			r, err := eval(t.Y, a, b)
			if err != nil {
				return val{}, err
			}
			switch t.Op {
			case token.LAND:
				return val{b: l.b && r.b}, nil
			case token.LOR:
				return val{b: l.b || r.b}, nil
			case token.LSS:
				return val{b: l.n < r.n}, nil
			case token.GTR:
				return val{b: l.n > r.n}, nil
			case token.LEQ:
				return val{b: l.n <= r.n}, nil
			case token.GEQ:
				return val{b: l.n >= r.n}, nil
			case token.EQL:
				return val{b: l.n == r.n && l.b == r.b}, nil
			case token.NEQ:
				return val{b: l.n != r.n || l.b != r.b}, nil
			}
		case *ast.CallExpr:
			// a conversion keeps the ordering only when it is injective and monotone on the operand's type:
			// identical underlying types, or a widening within the signed / unsigned integers (and int32/uint32 ->
			// float64, float32 -> float64). Anything else (int64 -> float64, narrowing, signed <-> unsigned) can
			// map different keys to the same value or reorder them: the finite-ordering evaluation would be wrong.
			if tv, ok := info.Types[t.Fun]; ok && tv.IsType() && len(t.Args) == 1 {
				from, to := info.TypeOf(t.Args[0]), tv.Type
				if !orderPreserving(from, to) {
					return val{}, fmt.Errorf("comparator converts %s to %s, which does not preserve the order of all keys", from, to)
				}
				return eval(t.Args[0], a, b)
			}
		}
		return val{}, und("comparator expression %s outside the table", types.ExprString(x))
	}
	type pair struct{ a, b val }
	var cases []pair
	if isBool {
		for _, x := range []bool{false, true} {
			for _, y := range []bool{false, true} {
				n1, n2 := 0, 0
				if x {
					n1 = 1
				}
				if y {
					n2 = 1
				}
				cases = append(cases, pair{val{b: x, n: n1}, val{b: y, n: n2}})
			}
		}
	} else {
		cases = []pair{{val{n: 1}, val{n: 2}}, {val{n: 2}, val{n: 2}}, {val{n: 2}, val{n: 1}}}
	}
	for _, cs := range cases {
		got, err := eval(rs.Results[0], cs.a, cs.b)
		if err != nil {
			return err
		}
		want := cs.a.n < cs.b.n
		how := "GenericKeyOrder (ascending, false<true), the sorted keys being walked from the last to the first,"
		if desc {
			// the keys are walked front to back while the buffer is filled from its end: descending order in the slice is
			// ascending order on the wire
			want = cs.a.n > cs.b.n
			how = "GenericKeyOrder (ascending, false<true) on the wire, the sorted keys being walked front to back into a buffer filled backwards,"
		}
		if got.b != want {
			return fmt.Errorf("sort comparator returns %v for keys ordered a%sb; %s demands %v", got.b, ord3(cs.a.n, cs.b.n), how, want)
		}
	}
	return nil
}

func ord3(a, b int) string {
	switch {
	case a < b:
		return "<"
	case a > b:
		return ">"
	}
	return "="
}

// orderPreserving: converting from -> to is injective and monotone.
func orderPreserving(from, to types.Type) bool {
	if from == nil || to == nil {
		return false
	}
	fb, ok1 := from.Underlying().(*types.Basic)
	tb, ok2 := to.Underlying().(*types.Basic)
	if !ok1 || !ok2 {
		return false
	}
	if fb.Kind() == tb.Kind() {
		return true
	}
	bits := map[types.BasicKind]int{types.Int8: 8, types.Int16: 16, types.Int32: 32, types.Int64: 64, types.Int: 32,
		types.Uint8: 8, types.Uint16: 16, types.Uint32: 32, types.Uint64: 64, types.Uint: 32}
	signed := func(k types.BasicKind) bool { return k == types.Int8 || k == types.Int16 || k == types.Int32 || k == types.Int64 || k == types.Int }
	unsigned := func(k types.BasicKind) bool { return k == types.Uint8 || k == types.Uint16 || k == types.Uint32 || k == types.Uint64 || k == types.Uint }
	f, t := fb.Kind(), tb.Kind()
	switch {
	case signed(f) && signed(t), unsigned(f) && unsigned(t):
		fw, tw := bits[f], bits[t]
		if f == types.Int || f == types.Uint {
			fw = 64 // may be 64 bits wide
		}
		return tw >= fw
	case unsigned(f) && signed(t):
		fw := bits[f]
		if f == types.Uint {
			fw = 64
		}
		return bits[t] > fw && t != types.Int
	case (signed(f) || unsigned(f)) && t == types.Float64:
		fw := bits[f]
		if f == types.Int || f == types.Uint {
			fw = 64
		}
		return fw <= 32
	case f == types.Float32 && t == types.Float64:
		return true
	case f == types.String && t == types.String, f == types.Bool && t == types.Bool:
		return true
	}
	return false
}
