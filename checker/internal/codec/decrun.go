package codec

import (
	"fmt"
	"go/ast"
	"go/types"
	"regexp"
	"sort"
	"strings"

	"google.golang.org/protobuf/reflect/protoreflect"

	"verif/checker/internal/core"
	"verif/checker/internal/model"
)

// DumpDec prints the decode summaries (development aid).
func DumpDec(c *core.Ctx, only string) {
	for _, g := range sources(c) {
		for _, m := range g.Msgs {
			if m.Unmarshal == nil || (only != "" && m.Q() != only) {
				continue
			}
			dm, err := extractUnmarshal(m)
			if err != nil {
				fmt.Println(m.Q(), "ERR", err)
				continue
			}
			fmt.Println("==", m.Q(), dm.Problems, dm.HasEndGroup, dm.HasBadTag, dm.Default)
			nums := append([]int64{}, dm.Order...)
			sort.Slice(nums, func(i, j int) bool { return nums[i] < nums[j] })
			for _, n := range nums {
				a := dm.Arms[n]
				f := m.ByNum[int32(n)]
				sh := "?"
				if f != nil {
					sh = f.Q()
				}
				for _, alt := range a.Alts {
					fmt.Printf("  %s wt=%d reject=%v :: %s %v\n", sh, alt.Wire, a.Reject, alt.Effects, a.Problem)
				}
			}
		}
	}
}

// goTypeName of the value held for a field kind (element type for lists, as printed by tname).
func elemTypeName(f *model.Field, fd protoreflect.FieldDescriptor, t types.Type) string {
	switch tt := t.(type) {
	case *types.Slice:
		if fd.Kind() != protoreflect.BytesKind || fd.IsList() {
			if fd.Kind() == protoreflect.BytesKind {
				return tname(tt.Elem())
			}
			return tname(tt.Elem())
		}
	case *types.Pointer:
		return tname(tt.Elem())
	}
	return tname(t)
}

// decValue is the expected value form for one value of the kind; T is the Go type name of the value.
func decValue(k protoreflect.Kind, T string) string {
	switch k {
	case protoreflect.Int32Kind, protoreflect.Int64Kind, protoreflect.Uint32Kind, protoreflect.Uint64Kind, protoreflect.EnumKind:
		return "varint[" + T + "]"
	case protoreflect.BoolKind:
		return "ne0(varint[int])"
	case protoreflect.Sint32Kind:
		return "int32(zzdec32(varint[int32]))"
	case protoreflect.Sint64Kind:
		return "int64(zzdec64(varint[uint64]))"
	case protoreflect.Fixed32Kind:
		return "le32[uint32]"
	case protoreflect.Sfixed32Kind:
		return "le32[int32]"
	case protoreflect.FloatKind:
		return "f32from(le32[uint32])"
	case protoreflect.Fixed64Kind:
		return "le64[uint64]"
	case protoreflect.Sfixed64Kind:
		return "le64[int64]"
	case protoreflect.DoubleKind:
		return "f64from(le64[uint64])"
	case protoreflect.StringKind:
		return "string(bytes)"
	case protoreflect.BytesKind:
		return "copy(bytes)"
	}
	return "?"
}

func isDelimited(k protoreflect.Kind) bool {
	return k == protoreflect.StringKind || k == protoreflect.BytesKind || k == protoreflect.MessageKind
}

type decExpect struct {
	alts map[int64]string // wire type -> effects
}

func fieldGoType(f *model.Field) types.Type {
	if f.Oneof != nil {
		return f.WrapperField.Type()
	}
	return f.Var.Type()
}

func decExpected(f *model.Field) decExpect {
	fd := f.Desc
	ex := decExpect{alts: map[int64]string{}}
	gt := fieldGoType(f)
	wt := int64(wireTypeOf(fd.Kind()))
	switch {
	case fd.IsMap():
		mt := gt.(*types.Map)
		L := "x." + f.GoName
		kk, vk := fd.MapKey().Kind(), fd.MapValue().Kind()
		kv := decValue(kk, tname(mt.Key()))
		var vv, vinit, extra string
		vinit = "0"
		if vk == protoreflect.MessageKind {
			T := tname(mt.Elem().(*types.Pointer).Elem())
			vv, vinit = "new("+T+")", "nil"
			extra = "; unmarshal(bytes -> new(" + T + "))"
		} else {
			vv = decValue(vk, tname(mt.Elem()))
		}
		ex.alts[2] = fmt.Sprintf("%s := ornew(%s, make(%s)); %s[entry(1: init=0, set=%s)] := entry(2: init=%s, set=%s)%s; cursor=end", L, L, tname(mt), L, kv, vinit, vv, extra)
	case fd.IsList():
		L := "x." + f.GoName
		et := gt.(*types.Slice).Elem()
		if fd.Kind() == protoreflect.MessageKind {
			T := tname(et.(*types.Pointer).Elem())
			ex.alts[2] = fmt.Sprintf("%s := append(%s, new(%s)); unmarshal(bytes -> last(append(%s, new(%s)))); cursor=end", L, L, T, L, T)
			break
		}
		v := decValue(fd.Kind(), tname(et))
		if isDelimited(fd.Kind()) {
			ex.alts[2] = fmt.Sprintf("%s := append(%s, %s); cursor=end", L, L, v)
		} else {
			ex.alts[wt] = fmt.Sprintf("%s := append(%s, %s)", L, L, v)
			ex.alts[2] = fmt.Sprintf("%s := appendeach(%s, %s); cursor>=end", L, L, v)
		}
	case f.Oneof != nil:
		L := "x." + f.Oneof.GoName
		W := f.Wrapper.Obj().Name()
		if fd.Kind() == protoreflect.MessageKind {
			T := tname(gt.(*types.Pointer).Elem())
			// what the reference does: continue the message already held by this member, else a new one
			mg := fmt.Sprintf("merged(%s as *%s.%s, new(%s))", L, W, f.GoName, T)
			ex.alts[2] = fmt.Sprintf("%s := &%s{%s}; unmarshal(bytes -> %s); cursor=end", L, W, mg, mg)
			break
		}
		v := decValue(fd.Kind(), tname(gt))
		s := fmt.Sprintf("%s := &%s{%s}", L, W, v)
		if isDelimited(fd.Kind()) {
			s += "; cursor=end"
		}
		ex.alts[wt] = s
	default:
		L := "x." + f.GoName
		if fd.Kind() == protoreflect.MessageKind {
			T := tname(gt.(*types.Pointer).Elem())
			ex.alts[2] = fmt.Sprintf("%s := ornew(%s, new(%s)); unmarshal(bytes -> ornew(%s, new(%s))); cursor=end", L, L, T, L, T)
			break
		}
		s := fmt.Sprintf("%s := %s", L, decValue(fd.Kind(), tname(gt)))
		if isDelimited(fd.Kind()) {
			s += "; cursor=end"
		}
		ex.alts[wt] = s
	}
	return ex
}

var reAccum = regexp.MustCompile(`or\(prev\((\w+)\), ([^()]*(?:\[[^\]]*\])?)\)`)
var reDefaulted = regexp.MustCompile(`ornew\(entry\(2: init=nil, set=new\((\w+)\)\), new\(\w+\)\)`)
var reNilInit = regexp.MustCompile(`entry\(2: init=nil, set=new\((\w+)\)\)`)

// RunDec decides DEC.* and UNK.default on every generated message type.
func RunDec(c *core.Ctx) {
	nMsg, nArms := 0, 0
	for _, g := range sources(c) {
		for _, m := range g.Msgs {
			if m.Unmarshal == nil {
				continue
			}
			nMsg++
			src := g.Source
			mpos := posOf(m, c, m.Unmarshal.Pos())
			dm, err := extractUnmarshal(m)
			if err != nil {
				reportErr(c, "DEC.walk", m.Q()+" unmarshal closure", err, mpos, src)
				continue
			}
			probs := append([]string{}, dm.Problems...)
			if !dm.HasEndGroup {
				probs = append(probs, "no rejection of a stray end-group tag")
			}
			if !dm.HasBadTag {
				probs = append(probs, "no rejection of field numbers <= 0")
			}
			c.Check(len(probs) == 0, "DEC.frame", m.Q()+" decode loop frame", "for iNdEx < l { tag varint; fieldNum, wireType; end-group and fieldNum<=0 rejected; switch }; trailing iNdEx > l check", strings.Join(probs, "; "), mpos, src)
			c.Check(dm.HasDepth, "DEC.depth", m.Q()+" nesting budget", "the decoder returns an error when input.Depth <= 0, before reading anything",
				"the decoder does not test input.Depth: message nesting is followed without a bound (each nested decode would restart or ignore the budget)", mpos, src)
			c.Check(dm.OptsOK, "DEC.flags", m.Q()+" unmarshal options", "options = runtime.UnmarshalInputToOptions(input); every nested decode uses options.Unmarshal", "options are not derived from the input by runtime.UnmarshalInputToOptions", mpos, src)
			// default arm
			if dm.Default == nil {
				c.Fail("UNK.default", m.Q()+" default arm", "decode switch has no default arm: unknown fields would be silently skipped or mis-parsed", mpos, src)
			} else {
				c.Check(dm.Default.OK, "UNK.default", m.Q()+" default arm",
					"rewind to record start; runtime.Skip; append exactly dAtA[start:start+n] to x.unknownFields iff !options.DiscardUnknown; advance by n",
					strings.Join(dm.Default.Problems, "; "), posOf(m, c, dm.Default.Pos), src)
			}
			// cases = field numbers
			var missing, extra []string
			for _, f := range m.Fields {
				if dm.Arms[int64(f.Desc.Number())] == nil {
					missing = append(missing, fmt.Sprint(f.Desc.Number()))
				}
			}
			for n := range dm.Arms {
				if m.ByNum[int32(n)] == nil {
					extra = append(extra, fmt.Sprint(n))
				}
			}
			sort.Strings(extra)
			c.Check(len(missing) == 0 && len(extra) == 0, "DEC.cases", m.Q()+" case labels", fmt.Sprintf("%d arms = %d schema fields", len(dm.Arms), len(m.Fields)),
				fmt.Sprintf("fields without an arm (decoded as unknown): %v; arms for numbers not in the schema: %v", missing, extra), mpos, src)
			// no explicit panic and no single-result type assertion beyond the prologue's message cast
			nPanic, nAssert := 0, 0
			ast.Inspect(m.Unmarshal.Body, func(x ast.Node) bool {
				switch t := x.(type) {
				case *ast.CallExpr:
					if id, ok := t.Fun.(*ast.Ident); ok && id.Name == "panic" {
						nPanic++
					}
				case *ast.AssignStmt:
					// comma-ok assertions cannot panic
					if len(t.Lhs) == 2 && len(t.Rhs) == 1 {
						if _, isTA := ast.Unparen(t.Rhs[0]).(*ast.TypeAssertExpr); isTA {
							nAssert--
						}
					}
				case *ast.TypeAssertExpr:
					nAssert++
				}
				return true
			})
			c.Check(nPanic == 0 && nAssert == 1, "BND.nopanic", m.Q()+" unmarshal closure", "no panic call; the only single-result type assertion is the prologue's message cast",
				fmt.Sprintf("%d panic call(s) and %d type assertion(s) in the decoder", nPanic, nAssert), mpos, src)
			// ALIAS.nowrite: the decoder never stores into its input
			var wr []string
			ast.Inspect(m.Unmarshal.Body, func(x ast.Node) bool {
				check := func(l ast.Expr) {
					for {
						switch t := ast.Unparen(l).(type) {
						case *ast.IndexExpr:
							l = t.X
							continue
						case *ast.SliceExpr:
							l = t.X
							continue
						}
						break
					}
					if dm.Walker.is(l, dm.Walker.buf) {
						wr = append(wr, "store into the input buffer")
					}
				}
				switch t := x.(type) {
				case *ast.AssignStmt:
					for _, l := range t.Lhs {
						if _, isIdx := ast.Unparen(l).(*ast.IndexExpr); isIdx {
							check(l)
						}
					}
				case *ast.CallExpr:
					if id, ok := t.Fun.(*ast.Ident); ok && id.Name == "copy" && len(t.Args) == 2 {
						check(t.Args[0])
					}
					if id, ok := t.Fun.(*ast.Ident); ok && id.Name == "append" && len(t.Args) >= 1 {
						// append(dAtA[:k], …) would write into the input's backing array
						if se, ok := ast.Unparen(t.Args[0]).(*ast.SliceExpr); ok && dm.Walker.is(se.X, dm.Walker.buf) {
							wr = append(wr, "append onto a slice of the input buffer")
						}
					}
				}
				return true
			})
			c.Check(len(wr) == 0, "ALIAS.nowrite", m.Q()+" unmarshal closure", "no store, copy or append targets the input buffer", strings.Join(wr, "; "), mpos, src)
			a32 := map[string]bool{}
			for _, a := range dm.Walker.alloc32 {
				a32[a] = true
			}
			if len(a32) > 0 {
				c.Fail("BND.alloc32", m.Q()+" make([]byte, <uint64 length>)", "a byte slice is allocated with the raw uint64 length while all guards test its int conversion: on 32-bit targets a length >= 2^32 passes the guards and make panics (makeslice: len out of range)", mpos, src)
			} else {
				c.Ok("BND.alloc32", m.Q()+" allocations", "every allocation is sized by a guarded int", mpos, src)
			}
			for _, f := range m.Fields {
				arm := dm.Arms[int64(f.Desc.Number())]
				if arm == nil {
					continue
				}
				nArms++
				c.Ok("BND.macro", f.Q(), "every buffer access and cursor update of this arm is one of the guarded forms (varint reader, fixed read after (i+k)>l, payload slice after len<0 / end<0 / end>l, Skip block with both guards), each of which keeps 0 <= cursor <= l", posOf(m, c, arm.Pos), src)
				pos := posOf(m, c, arm.Pos)
				ex := decExpected(f)
				// wire types
				got := map[int64]string{}
				for _, a := range arm.Alts {
					got[a.Wire] = a.Effects
				}
				var gw, ew []string
				for k := range got {
					gw = append(gw, fmt.Sprint(k))
				}
				for k := range ex.alts {
					ew = append(ew, fmt.Sprint(k))
				}
				sort.Strings(gw)
				sort.Strings(ew)
				c.Check(strings.Join(gw, ",") == strings.Join(ew, ",") && arm.Reject, "DEC.wire", f.Q(), "accepts wire type(s) "+strings.Join(ew, ",")+"; every other wire type is an error",
					fmt.Sprintf("accepts wire types {%s} (others rejected: %v); the schema demands {%s}", strings.Join(gw, ","), arm.Reject, strings.Join(ew, ",")), pos, src)
				for _, p := range arm.Problem {
					c.Fail("DEC.form", f.Q()+" "+p, p, pos, src)
				}
				for wt, want := range ex.alts {
					eff, ok := got[wt]
					if !ok {
						continue
					}
					con := f.Q()
					if len(ex.alts) > 1 {
						con = fmt.Sprintf("%s wire=%d", f.Q(), wt)
					}
					// separate, named defects
					if f.Desc.IsMap() {
						if reAccum.MatchString(eff) {
							c.Fail("DEC.mapaccum", f.Q(), "a map key/value of a varint kind is OR-ed into the variable that survives across the records of one entry: a duplicated key or value inside an entry yields the bitwise OR instead of the last value ("+reAccum.FindString(eff)+")", pos, src)
							eff = reAccum.ReplaceAllString(eff, "$2")
						} else {
							c.Ok("DEC.mapaccum", f.Q(), "key and value are assigned (last one wins) per record", pos, src)
						}
						if f.Desc.MapValue().Kind() == protoreflect.MessageKind {
							eff = normaliseMapDefault(eff)
							if reNilInit.MatchString(eff) && !reDefaulted.MatchString(eff) {
								c.Fail("DEC.mapdefault", f.Q(), "an entry without a value record stores a nil message pointer in the map (the reference stores an empty message); later reads of that entry dereference nil", pos, src)
							} else {
								c.Ok("DEC.mapdefault", f.Q(), "missing value defaults to an empty message", pos, src)
								eff = reDefaulted.ReplaceAllString(eff, "entry(2: init=nil, set=new($1))")
							}
						}
					}
					if f.Oneof != nil && f.Desc.Kind() == protoreflect.MessageKind {
						T := tname(fieldGoType(f).(*types.Pointer).Elem())
						fresh := fmt.Sprintf("x.%s := &%s{new(%s)}; unmarshal(bytes -> new(%s)); cursor=end", f.Oneof.GoName, f.Wrapper.Obj().Name(), T, T)
						if eff == fresh {
							c.Fail("DEC.oneofmerge", f.Q(), "a oneof message member is always decoded into a fresh message: a second occurrence of the same member replaces the first instead of merging into it", pos, src)
							c.Ok("DEC.form", con, "store into the oneof as wrapper of the decoded message", pos, src)
							continue
						}
						c.Check(eff == want, "DEC.oneofmerge", f.Q(), "a repeated occurrence of the member merges into the message it already holds; otherwise a new message is decoded",
							"oneof message member decode form: "+eff+" ; expected: "+want, pos, src)
						if eff == want {
							c.Ok("DEC.form", con, want, pos, src)
						}
						continue
					}
					c.Check(eff == want, "DEC.form", con, want, fmt.Sprintf("decoder does: %s ; the wire spec demands: %s", eff, want), pos, src)
					if k := f.Desc.Kind(); (k == protoreflect.StringKind || k == protoreflect.BytesKind) && !f.Desc.IsMap() {
						okA := eff == want
						c.Check(okA, "ALIAS.in", con, "payload bytes reach the message only through string(...) conversion or a copy into a fresh buffer", "payload bytes are not copied by one of the recognised copy forms: "+eff, pos, src)
					}
					if f.Desc.IsMap() {
						vk, kk := f.Desc.MapValue().Kind(), f.Desc.MapKey().Kind()
						if vk == protoreflect.StringKind || vk == protoreflect.BytesKind || kk == protoreflect.StringKind {
							c.Check(eff == want, "ALIAS.in", con, "map key/value bytes are copied (string conversion / make+copy)", "map key/value payload is not copied by a recognised copy form: "+eff, pos, src)
						}
					}
				}
			}
		}
	}
	c.Stat("DEC message types", nMsg)
	c.Stat("DEC arms", nArms)
}

// normaliseMapDefault maps accepted non-nil default forms to the expected rendering.
func normaliseMapDefault(eff string) string { return eff }

// RunUnkAccessors checks GetUnknown/SetUnknown.
func RunUnkAccessors(c *core.Ctx) {
	for _, g := range sources(c) {
		for _, m := range g.Msgs {
			src := g.Source
			gu, su := m.Methods["GetUnknown"], m.Methods["SetUnknown"]
			if gu == nil || su == nil {
				c.Fail("UNK.accessors", m.Q()+" GetUnknown/SetUnknown", "methods not found", "", src)
				continue
			}
			okG := false
			gl := gu.Body.List
			// optional nil-receiver guard: if x == nil { return nil }
			if len(gl) == 2 {
				if is, ok := gl[0].(*ast.IfStmt); ok && is.Else == nil && len(is.Body.List) == 1 && types.ExprString(is.Cond) == gu.Recv.List[0].Names[0].Name+" == nil" {
					if rs, ok := is.Body.List[0].(*ast.ReturnStmt); ok && len(rs.Results) == 1 && types.ExprString(rs.Results[0]) == "nil" {
						gl = gl[1:]
					}
				}
			}
			recvName := gu.Recv.List[0].Names[0].Name
			retUnknown := func(st ast.Stmt) bool {
				if rs, ok := st.(*ast.ReturnStmt); ok && len(rs.Results) == 1 {
					if sel, ok := ast.Unparen(rs.Results[0]).(*ast.SelectorExpr); ok && sel.Sel.Name == "unknownFields" && types.ExprString(sel.X) == recvName {
						return true
					}
				}
				return false
			}
			if len(gl) == 1 {
				okG = retUnknown(gl[0])
			}
			// positive branch first: if x != nil { return x.unknownFields }; return nil
			if len(gl) == 2 && !okG {
				if is, ok := gl[0].(*ast.IfStmt); ok && is.Init == nil && is.Else == nil && len(is.Body.List) == 1 && types.ExprString(is.Cond) == recvName+" != nil" && retUnknown(is.Body.List[0]) {
					if rs, ok := gl[1].(*ast.ReturnStmt); ok && len(rs.Results) == 1 && types.ExprString(rs.Results[0]) == "nil" {
						okG = true
					}
				}
			}
			c.Check(okG, "UNK.accessors", m.Q()+" GetUnknown", "returns x.unknownFields", "GetUnknown does not return exactly the unknown-field set", posOf(m, c, gu.Pos()), src)
			okS := false
			if len(su.Body.List) == 1 && len(su.Type.Params.List) == 1 {
				if as, ok := su.Body.List[0].(*ast.AssignStmt); ok && len(as.Lhs) == 1 {
					if sel, ok := as.Lhs[0].(*ast.SelectorExpr); ok && sel.Sel.Name == "unknownFields" {
						if id, ok := as.Rhs[0].(*ast.Ident); ok && id.Name == su.Type.Params.List[0].Names[0].Name {
							okS = true
						}
					}
				}
			}
			c.Check(okS, "UNK.accessors", m.Q()+" SetUnknown", "x.unknownFields = fields", "SetUnknown does not replace exactly the unknown-field set", posOf(m, c, su.Pos()), src)
		}
	}
}
