package codec

import (
	"regexp"
	"fmt"
	"go/ast"
	"go/token"
	"go/types"
	"sort"
	"strings"

	"verif/checker/internal/core"
	"verif/checker/internal/model"
)

// decArm is the summary of one `case N:` arm of the decode switch.
type decArm struct {
	Num     int64
	Pos     token.Pos
	Alts    []decAlt // one per accepted wire type
	Reject  bool     // every other wire type returns an error
	Problem []string
}

type decAlt struct {
	Wire    int64
	Packed  bool
	Effects string
}

type decModel struct {
	Arms        map[int64]*decArm
	Order       []int64
	Problems    []string
	OptsOK      bool
	Default     *unkSummary
	FrameOK     []string
	Walker      *decWalker
	HasEndGroup bool
	HasBadTag   bool
	HasDepth    bool // prologue rejects an exhausted nesting budget: if input.Depth <= 0 { return …, err }
}

type unkSummary struct {
	Pos      token.Pos
	Problems []string
	OK       bool
}

type decWalker struct {
	m    *model.Msg
	info *types.Info
	msgV types.Object
	buf  types.Object
	lVar types.Object
	idx  types.Object
	opts types.Object
	wt   types.Object // wireType
	fnum types.Object // fieldNum
	wire types.Object
	pre  types.Object // preIndex

	vals    map[types.Object]string
	fields  map[string]string
	touched []string
	post    types.Object // end of the current length-delimited payload
	lenTerm string       // term of the length the current post index was computed from
	atStart bool         // cursor is at the payload start (unchanged since the length guards)
	effects []string
	probs   []string
	alloc32 []string // allocations sized by a raw 64-bit length whose guards are on its int conversion
	payloadVars map[types.Object]bool // locals bound to the record's payload slice
	readers  map[types.Object]bool // closures of the prologue recognised as the shared varint reader
	lenReaders map[types.Object]string // closures recognised as the shared length-prefix reader -> term of the length
	elemClosures map[types.Object]*ast.FuncLit // arm-local `func() error` closures: a call stands for the body
	inElemClosure bool
	inReader bool                  // the reader closure's own body is being matched
}

func (w *decWalker) is(x ast.Expr, o types.Object) bool {
	id, ok := ast.Unparen(x).(*ast.Ident)
	return ok && o != nil && w.info.ObjectOf(id) == o
}

func tname(t types.Type) string {
	return types.TypeString(t, func(p *types.Package) string { return "" })
}

// isPkgSel: e is the qualified identifier pkg.name (protoiface's input/output types are aliases of anonymous structs,
// so the type itself carries no name).
func isPkgSel(info *types.Info, e ast.Expr, pkg, name string) bool {
	sel, ok := e.(*ast.SelectorExpr)
	if !ok || sel.Sel.Name != name {
		return false
	}
	id, ok := sel.X.(*ast.Ident)
	if !ok {
		return false
	}
	pn, ok := info.Uses[id].(*types.PkgName)
	return ok && pn.Imported().Path() == pkg
}

// isErrRet: block is a single `return <out>, <non-nil error expr>`.
func (w *decWalker) isErrRet(b *ast.BlockStmt) bool {
	if b == nil || len(b.List) != 1 {
		return false
	}
	rs, ok := b.List[0].(*ast.ReturnStmt)
	if ok && w.inElemClosure {
		// inside an arm-local closure `func() error` the error is the only result
		return len(rs.Results) == 1 && types.ExprString(rs.Results[0]) != "nil"
	}
	if !ok || len(rs.Results) != 2 {
		return false
	}
	return types.ExprString(rs.Results[1]) != "nil"
}

// lval renders an assignable location: x.F, local var, x.F[mapkey] …
func (w *decWalker) lval(x ast.Expr) (string, types.Object, error) {
	x = ast.Unparen(x)
	switch t := x.(type) {
	case *ast.Ident:
		return "", w.info.ObjectOf(t), nil
	case *ast.SelectorExpr:
		if w.is(t.X, w.msgV) {
			return "x." + t.Sel.Name, nil, nil
		}
	case *ast.IndexExpr:
		if b, _, err := w.lval(t.X); err == nil && b != "" {
			k, err := w.term(t.Index)
			if err != nil {
				return "", nil, err
			}
			return b + "[" + k + "]", nil, nil
		}
	}
	return "", nil, und("assignment target %s", nodeStr(x))
}

func (w *decWalker) fieldVal(l string) string {
	if v, ok := w.fields[l]; ok {
		return v
	}
	return l
}

func (w *decWalker) setField(l, v string) {
	if _, ok := w.fields[l]; !ok {
		w.touched = append(w.touched, l)
	}
	w.fields[l] = v
}

// payload reports whether x is dAtA[idx:post] for the current record, with the cursor at the payload start.
func (w *decWalker) payload(x ast.Expr) bool {
	// a local that was bound to the payload slice (`p := dAtA[iNdEx:postIndex]`) denotes it from then on
	if id, isID := ast.Unparen(x).(*ast.Ident); isID && w.payloadVars[w.info.ObjectOf(id)] {
		return true
	}
	se, ok := ast.Unparen(x).(*ast.SliceExpr)
	if !ok || se.Max != nil {
		return false
	}
	return w.is(se.X, w.buf) && w.is(se.Low, w.idx) && w.post != nil && w.is(se.High, w.post) && w.atStart
}

func (w *decWalker) term(x ast.Expr) (string, error) {
	info := w.info
	x = ast.Unparen(x)
	if k, ok := constInt(info, x); ok {
		return fmt.Sprint(k), nil
	}
	switch t := x.(type) {
	case *ast.Ident:
		o := info.ObjectOf(t)
		if v, ok := w.vals[o]; ok {
			return v, nil
		}
		if _, isNil := o.(*types.Nil); isNil {
			return "nil", nil
		}
		if w.payloadVars[o] {
			return "", fmt.Errorf("the input slice held by %s is used as a value (aliases the caller's buffer)", t.Name)
		}
		return "", und("value of %s is not tracked", t.Name)
	case *ast.SelectorExpr:
		if w.is(t.X, w.msgV) {
			return w.fieldVal("x." + t.Sel.Name), nil
		}
	case *ast.IndexExpr:
		// x.F[len(x.F)-1]
		base, err := w.term(t.X)
		if err != nil {
			return "", err
		}
		if be, ok := ast.Unparen(t.Index).(*ast.BinaryExpr); ok && be.Op == token.SUB {
			if k, ok := constInt(info, be.Y); ok && k == 1 {
				if c, ok := ast.Unparen(be.X).(*ast.CallExpr); ok {
					if b, ok := core.CalleeObj(info, c).(*types.Builtin); ok && b.Name() == "len" {
						if b2, err := w.term(c.Args[0]); err == nil && b2 == base {
							if !strings.HasPrefix(base, "append(") {
								return "", fmt.Errorf("last element of %s is addressed although nothing was appended in this arm (the list may be empty: index out of range)", base)
							}
							return "last(" + base + ")", nil
						}
					}
				}
			}
		}
		k, err := w.term(t.Index)
		if err != nil {
			return "", err
		}
		return base + "[" + k + "]", nil
	case *ast.UnaryExpr:
		if t.Op == token.AND {
			if cl, ok := ast.Unparen(t.X).(*ast.CompositeLit); ok {
				tn := tname(info.TypeOf(cl))
				if len(cl.Elts) == 0 {
					return "new(" + tn + ")", nil
				}
				if len(cl.Elts) == 1 {
					el := cl.Elts[0]
					if kv, ok := el.(*ast.KeyValueExpr); ok {
						el = kv.Value
					}
					v, err := w.term(el)
					if err != nil {
						return "", err
					}
					return "&" + tn + "{" + v + "}", nil
				}
			}
			v, err := w.term(t.X)
			if err != nil {
				return "", err
			}
			return "&" + v, nil
		}
	case *ast.CompositeLit:
		if len(t.Elts) == 0 {
			return "empty(" + tname(info.TypeOf(t)) + ")", nil
		}
	case *ast.BinaryExpr:
		if t.Op == token.NEQ {
			if k, ok := constInt(info, t.Y); ok && k == 0 {
				v, err := w.term(t.X)
				if err != nil {
					return "", err
				}
				return "ne0(" + v + ")", nil
			}
		}
		if t.Op == token.XOR {
			if v, ok := w.zigzagDec(t); ok {
				return v, nil
			}
		}
		if t.Op == token.SUB && w.is(t.X, w.post) && w.is(t.Y, w.idx) && w.atStart {
			return "len(bytes)", nil
		}
	case *ast.CallExpr:
		if tv, ok := info.Types[t.Fun]; ok && tv.IsType() && len(t.Args) == 1 {
			if basicKind(tv.Type) == types.String && w.payload(t.Args[0]) {
				return "string(bytes)", nil
			}
			a, err := w.term(t.Args[0])
			if err != nil {
				return "", err
			}
			if st := info.TypeOf(t.Args[0]); st != nil && types.Identical(st, tv.Type) {
				return a, nil
			}
			// T(v) of a varint read into a uint64 keeps the low bits of the varint, exactly what accumulating the
			// groups in a T does (a group shifted beyond T's width contributes nothing): varint[T]
			if a == "varint[uint64]" {
				if b, isB := tv.Type.Underlying().(*types.Basic); isB && b.Info()&types.IsInteger != 0 {
					return "varint[" + tname(tv.Type) + "]", nil
				}
			}
			return tname(tv.Type) + "(" + a + ")", nil
		}
		obj := core.CalleeObj(info, t)
		if b, ok := obj.(*types.Builtin); ok {
			switch b.Name() {
			case "append":
				if len(t.Args) == 2 {
					// append(x.F[:0], payload...)  => copy(bytes)
					if t.Ellipsis.IsValid() && w.payload(t.Args[1]) {
						if se, ok := ast.Unparen(t.Args[0]).(*ast.SliceExpr); ok && se.Low == nil && se.Max == nil {
							if k, ok := constInt(info, se.High); ok && k == 0 {
								return "copy(bytes)", nil
							}
						}
						// append([]byte{}, payload...) / append([]byte(nil), payload...): a fresh slice holding a copy
						switch a := ast.Unparen(t.Args[0]).(type) {
						case *ast.CompositeLit:
							if sl, ok := info.TypeOf(a).Underlying().(*types.Slice); ok && len(a.Elts) == 0 && basicKind(sl.Elem()) == types.Uint8 {
								return "copy(bytes)", nil
							}
						case *ast.CallExpr:
							if tv, ok := info.Types[a.Fun]; ok && tv.IsType() && len(a.Args) == 1 && types.ExprString(a.Args[0]) == "nil" {
								if sl, ok := tv.Type.Underlying().(*types.Slice); ok && basicKind(sl.Elem()) == types.Uint8 {
									return "copy(bytes)", nil
								}
							}
						}
						a0, err := w.term(t.Args[0])
						if err != nil {
							return "", err
						}
						return "append(" + a0 + ", bytes...)", nil
					}
					if t.Ellipsis.IsValid() {
						return "", und("append with spread %s", nodeStr(x))
					}
					a0, err := w.term(t.Args[0])
					if err != nil {
						return "", err
					}
					a1, err := w.term(t.Args[1])
					if err != nil {
						return "", err
					}
					if w.sliceOfInput(t.Args[1]) {
						return "", fmt.Errorf("a slice of the input buffer is appended as an element (aliases the caller's buffer)")
					}
					return "append(" + a0 + ", " + a1 + ")", nil
				}
			case "make":
				if len(t.Args) >= 2 {
					n, err := w.term(t.Args[1])
					if err != nil {
						return "", err
					}
					if w.atStart && w.lenTerm != "" && (n == w.lenTerm || "int("+n+")" == w.lenTerm) {
						if n != w.lenTerm {
							// make([]byte, L) with L uint64 while every guard is on int(L): equal on 64-bit targets only
							w.alloc32 = append(w.alloc32, types.ExprString(t.Args[1]))
						}
						n = "len(bytes)" // the length the payload end was computed from
					}
					tn := tname(info.TypeOf(t.Args[0]))
					if len(t.Args) == 3 {
						return "make(" + tn + ", " + n + ", cap)", nil
					}
					return "make(" + tn + ", " + n + ")", nil
				}
				return "make(" + tname(info.TypeOf(t.Args[0])) + ")", nil
			case "len":
				// len(p) of the payload slice is the payload length
				if len(t.Args) == 1 && w.payload(t.Args[0]) {
					return "len(bytes)", nil
				}
				a, err := w.term(t.Args[0])
				if err != nil {
					return "", err
				}
				return "len(" + a + ")", nil
			}
		}
		switch core.QualName(obj) {
		case "math.Float32frombits":
			a, err := w.term(t.Args[0])
			if err != nil {
				return "", err
			}
			return "f32from(" + a + ")", nil
		case "math.Float64frombits":
			a, err := w.term(t.Args[0])
			if err != nil {
				return "", err
			}
			return "f64from(" + a + ")", nil
		case "google.golang.org/protobuf/encoding/protowire.DecodeZigZag":
			a, err := w.term(t.Args[0])
			if err != nil {
				return "", err
			}
			return "int64(zzdec64(" + a + "))", nil // the library function returns int64
		}
	case *ast.SliceExpr:
		if w.payload(x) {
			return "", fmt.Errorf("the input slice dAtA[iNdEx:postIndex] is used as a value (aliases the caller's buffer)")
		}
	}
	return "", und("decode expression %s", nodeStr(x))
}

func (w *decWalker) sliceOfInput(x ast.Expr) bool {
	se, ok := ast.Unparen(x).(*ast.SliceExpr)
	return ok && w.is(se.X, w.buf)
}

// zigzagDec recognises (uint32(v) >> 1) ^ uint32(((v&1)<<31)>>31) and (v >> 1) ^ uint64((int64(v&1)<<63)>>63).
func (w *decWalker) zigzagDec(b *ast.BinaryExpr) (string, bool) {
	info := w.info
	try := func(l, r ast.Expr) (string, bool) {
		l, r = ast.Unparen(l), ast.Unparen(r)
		shr, ok := l.(*ast.BinaryExpr)
		if !ok || shr.Op != token.SHR {
			return "", false
		}
		if k, ok := constInt(info, shr.Y); !ok || k != 1 {
			return "", false
		}
		lt := info.TypeOf(shr.X)
		if lt == nil || !isUnsigned(lt) {
			return "", false // logical shift required
		}
		width := int64(64)
		if basicKind(lt) == types.Uint32 {
			width = 32
		} else if basicKind(lt) != types.Uint64 {
			return "", false
		}
		// operand value
		lhs := ast.Unparen(shr.X)
		if c, ok := lhs.(*ast.CallExpr); ok && len(c.Args) == 1 {
			if tv, ok := info.Types[c.Fun]; ok && tv.IsType() {
				lhs = ast.Unparen(c.Args[0])
			}
		}
		vterm, err := w.term(lhs)
		if err != nil {
			return "", false
		}
		// right: uintW( (S(v&1) << (W-1)) >> (W-1) ) with S signed of width W
		rc, ok := r.(*ast.CallExpr)
		if !ok || len(rc.Args) != 1 {
			return "", false
		}
		if tv, ok := info.Types[rc.Fun]; !ok || !tv.IsType() || basicKind(tv.Type) != basicKind(lt) {
			return "", false
		}
		sar, ok := ast.Unparen(rc.Args[0]).(*ast.BinaryExpr)
		if !ok || sar.Op != token.SHR {
			return "", false
		}
		if k, ok := constInt(info, sar.Y); !ok || k != width-1 {
			return "", false
		}
		st := info.TypeOf(sar.X)
		if st == nil || !isSigned(st) {
			return "", false // arithmetic shift required
		}
		if (width == 32 && basicKind(st) != types.Int32) || (width == 64 && basicKind(st) != types.Int64) {
			return "", false
		}
		shl, ok := ast.Unparen(sar.X).(*ast.BinaryExpr)
		if !ok || shl.Op != token.SHL {
			return "", false
		}
		if k, ok := constInt(info, shl.Y); !ok || k != width-1 {
			return "", false
		}
		and := ast.Unparen(shl.X)
		if c, ok := and.(*ast.CallExpr); ok && len(c.Args) == 1 {
			if tv, ok := info.Types[c.Fun]; ok && tv.IsType() {
				and = ast.Unparen(c.Args[0])
			}
		}
		ab, ok := and.(*ast.BinaryExpr)
		if !ok || ab.Op != token.AND {
			return "", false
		}
		if k, ok := constInt(info, ab.Y); !ok || k != 1 {
			return "", false
		}
		v2, err := w.term(ab.X)
		if err != nil || v2 != vterm {
			return "", false
		}
		return fmt.Sprintf("zzdec%d(%s)", width, vterm), true
	}
	if s, ok := try(b.X, b.Y); ok {
		return s, true
	}
	return try(b.Y, b.X)
}

// varintLoop recognises the varint reader; returns the accumulator expression and its type.
func (w *decWalker) varintLoop(fs *ast.ForStmt) (ast.Expr, types.Type, bool) {
	info := w.info
	init, ok := fs.Init.(*ast.AssignStmt)
	if !ok || init.Tok != token.DEFINE || len(init.Lhs) != 1 || fs.Cond != nil {
		return nil, nil, false
	}
	shift := info.ObjectOf(init.Lhs[0].(*ast.Ident))
	if st := shift.Type(); !isUnsigned(st) {
		return nil, nil, false
	}
	if c, ok := ast.Unparen(init.Rhs[0]).(*ast.CallExpr); !ok || len(c.Args) != 1 {
		return nil, nil, false
	} else if k, ok := constInt(info, c.Args[0]); !ok || k != 0 {
		return nil, nil, false
	}
	post, ok := fs.Post.(*ast.AssignStmt)
	if !ok || post.Tok != token.ADD_ASSIGN || !w.is(post.Lhs[0], shift) {
		return nil, nil, false
	}
	if k, ok := constInt(info, post.Rhs[0]); !ok || k != 7 {
		return nil, nil, false
	}
	b := fs.Body.List
	if len(b) != 6 {
		return nil, nil, false
	}
	// if shift >= 64 {ret}
	g1, ok := b[0].(*ast.IfStmt)
	if !ok || !w.isErrRet(g1.Body) {
		return nil, nil, false
	}
	if c, ok := g1.Cond.(*ast.BinaryExpr); !ok || c.Op != token.GEQ || !w.is(c.X, shift) {
		return nil, nil, false
	} else if k, ok := constInt(info, c.Y); !ok || k != 64 {
		return nil, nil, false
	}
	// if idx >= l {ret}
	g2, ok := b[1].(*ast.IfStmt)
	if !ok || !w.isErrRet(g2.Body) {
		return nil, nil, false
	}
	if c, ok := g2.Cond.(*ast.BinaryExpr); !ok || c.Op != token.GEQ || !w.is(c.X, w.idx) || !w.is(c.Y, w.lVar) {
		return nil, nil, false
	}
	// b := dAtA[idx]
	d, ok := b[2].(*ast.AssignStmt)
	if !ok || d.Tok != token.DEFINE || len(d.Lhs) != 1 {
		return nil, nil, false
	}
	bv := info.ObjectOf(d.Lhs[0].(*ast.Ident))
	ie, ok := ast.Unparen(d.Rhs[0]).(*ast.IndexExpr)
	if !ok || !w.is(ie.X, w.buf) || !w.is(ie.Index, w.idx) {
		return nil, nil, false
	}
	// idx++
	inc, ok := b[3].(*ast.IncDecStmt)
	if !ok || inc.Tok != token.INC || !w.is(inc.X, w.idx) {
		return nil, nil, false
	}
	// ACC |= T(b&0x7F) << shift
	acc, ok := b[4].(*ast.AssignStmt)
	if !ok || acc.Tok != token.OR_ASSIGN || len(acc.Lhs) != 1 {
		return nil, nil, false
	}
	shl, ok := ast.Unparen(acc.Rhs[0]).(*ast.BinaryExpr)
	if !ok || shl.Op != token.SHL || !w.is(shl.Y, shift) {
		return nil, nil, false
	}
	conv, ok := ast.Unparen(shl.X).(*ast.CallExpr)
	if !ok || len(conv.Args) != 1 {
		return nil, nil, false
	}
	tv, ok := info.Types[conv.Fun]
	if !ok || !tv.IsType() {
		return nil, nil, false
	}
	and, ok := ast.Unparen(conv.Args[0]).(*ast.BinaryExpr)
	if !ok || and.Op != token.AND || !w.is(and.X, bv) {
		return nil, nil, false
	}
	if k, ok := constInt(info, and.Y); !ok || k != 0x7f {
		return nil, nil, false
	}
	at := info.TypeOf(acc.Lhs[0])
	if at == nil || !types.Identical(at, tv.Type) {
		return nil, nil, false
	}
	// if b < 0x80 { break }
	g3, ok := b[5].(*ast.IfStmt)
	if !ok || len(g3.Body.List) != 1 {
		return nil, nil, false
	}
	if br, ok := g3.Body.List[0].(*ast.BranchStmt); !ok || br.Tok != token.BREAK {
		// inside the shared reader closure the terminating byte returns the accumulator: `return v, nil`
		rs, isRet := g3.Body.List[0].(*ast.ReturnStmt)
		if !w.inReader || !isRet || len(rs.Results) != 2 || types.ExprString(rs.Results[1]) != "nil" ||
			types.ExprString(ast.Unparen(rs.Results[0])) != types.ExprString(ast.Unparen(acc.Lhs[0])) {
			return nil, nil, false
		}
	}
	if c, ok := g3.Cond.(*ast.BinaryExpr); !ok || c.Op != token.LSS || !w.is(c.X, bv) {
		return nil, nil, false
	} else if k, ok := constInt(info, c.Y); !ok || k != 0x80 {
		return nil, nil, false
	}
	return acc.Lhs[0], tv.Type, true
}

// readerClosure: func() (uint64, error) { var v uint64; for shift := uint(0); ; shift += 7 { …; if b < 0x80 { return v, nil } } }
func (w *decWalker) readerClosure(fl *ast.FuncLit) bool {
	info := w.info
	if fl.Type.Params != nil && len(fl.Type.Params.List) != 0 {
		return false
	}
	if fl.Type.Results == nil || len(fl.Type.Results.List) != 2 {
		return false
	}
	if basicKind(info.TypeOf(fl.Type.Results.List[0].Type)) != types.Uint64 || info.TypeOf(fl.Type.Results.List[1].Type).String() != "error" {
		return false
	}
	body := w.normVarint(fl.Body.List)
	if len(body) != 2 {
		return false
	}
	d, ok := body[0].(*ast.DeclStmt)
	if !ok {
		return false
	}
	gd, ok := d.Decl.(*ast.GenDecl)
	if !ok || gd.Tok != token.VAR || len(gd.Specs) != 1 {
		return false
	}
	vs := gd.Specs[0].(*ast.ValueSpec)
	if len(vs.Names) != 1 || len(vs.Values) != 0 {
		return false
	}
	v := info.ObjectOf(vs.Names[0])
	fs, ok := body[1].(*ast.ForStmt)
	if !ok {
		return false
	}
	w.inReader = true
	acc, T, ok := w.varintLoop(fs)
	w.inReader = false
	return ok && w.is(acc, v) && basicKind(T) == types.Uint64
}

// lenReaderClosure: func() (int, error) whose body reads a length varint into an int, applies the three guards
// (length < 0, end < 0, end > l) and returns the payload end. The body is interpreted by the arm walker itself.
func (w *decWalker) lenReaderClosure(fl *ast.FuncLit) (string, bool) {
	info := w.info
	if (fl.Type.Params != nil && len(fl.Type.Params.List) != 0) || fl.Type.Results == nil || len(fl.Type.Results.List) != 2 {
		return "", false
	}
	if basicKind(info.TypeOf(fl.Type.Results.List[0].Type)) != types.Int || info.TypeOf(fl.Type.Results.List[1].Type).String() != "error" {
		return "", false
	}
	body := fl.Body.List
	if len(body) < 2 {
		return "", false
	}
	ret, ok := body[len(body)-1].(*ast.ReturnStmt)
	if !ok || len(ret.Results) != 2 || types.ExprString(ret.Results[1]) != "nil" {
		return "", false
	}
	sub := &decWalker{m: w.m, info: w.info, msgV: w.msgV, buf: w.buf, lVar: w.lVar, idx: w.idx, opts: w.opts, readers: w.readers}
	sub.reset()
	if err := sub.stmts(body[:len(body)-1]); err != nil || len(sub.probs) > 0 || sub.post == nil || !sub.atStart || len(sub.touched) > 0 || len(sub.effects) > 0 {
		return "", false
	}
	if !sub.is(ret.Results[0], sub.post) {
		return "", false
	}
	return sub.lenTerm, true
}

// lenReaderCall handles `post, err := readLen()` followed by `if err != nil { return …, err }`.
func (w *decWalker) lenReaderCall(list []ast.Stmt, i int) (int, bool) {
	info := w.info
	as, ok := list[i].(*ast.AssignStmt)
	if !ok || as.Tok != token.DEFINE || len(as.Lhs) != 2 || len(as.Rhs) != 1 || i+1 >= len(list) {
		return 0, false
	}
	call, ok := ast.Unparen(as.Rhs[0]).(*ast.CallExpr)
	if !ok || len(call.Args) != 0 {
		return 0, false
	}
	fid, ok := ast.Unparen(call.Fun).(*ast.Ident)
	if !ok {
		return 0, false
	}
	lt, isReader := w.lenReaders[info.ObjectOf(fid)]
	if !isReader {
		return 0, false
	}
	pid, _ := as.Lhs[0].(*ast.Ident)
	eid, _ := as.Lhs[1].(*ast.Ident)
	if pid == nil || eid == nil || pid.Name == "_" || eid.Name == "_" {
		return 0, false
	}
	chk, ok := list[i+1].(*ast.IfStmt)
	if !ok || chk.Init != nil || chk.Else != nil || !w.isErrRet(chk.Body) || types.ExprString(chk.Cond) != eid.Name+" != nil" {
		return 0, false
	}
	if rs := chk.Body.List[0].(*ast.ReturnStmt); types.ExprString(rs.Results[1]) != eid.Name {
		return 0, false
	}
	w.post = info.ObjectOf(pid)
	w.lenTerm = lt
	w.atStart = true
	return 2, true
}

// elemClosureCall: `if err := name(); err != nil { return …, err }` for an arm-local closure.
func (w *decWalker) elemClosureCall(s ast.Stmt) *ast.FuncLit {
	is, ok := s.(*ast.IfStmt)
	if !ok || is.Init == nil || is.Else != nil || len(w.elemClosures) == 0 {
		return nil
	}
	as, ok := is.Init.(*ast.AssignStmt)
	if !ok || as.Tok != token.DEFINE || len(as.Lhs) != 1 || len(as.Rhs) != 1 {
		return nil
	}
	call, ok := ast.Unparen(as.Rhs[0]).(*ast.CallExpr)
	if !ok || len(call.Args) != 0 {
		return nil
	}
	fid, ok := ast.Unparen(call.Fun).(*ast.Ident)
	if !ok {
		return nil
	}
	fl := w.elemClosures[w.info.ObjectOf(fid)]
	eid, _ := as.Lhs[0].(*ast.Ident)
	if fl == nil || eid == nil || types.ExprString(is.Cond) != eid.Name+" != nil" {
		return nil
	}
	// the caller hands the closure's error on (two results, the error last)
	saved := w.inElemClosure
	w.inElemClosure = false
	okRet := w.isErrRet(is.Body)
	w.inElemClosure = saved
	if !okRet {
		return nil
	}
	if rs := is.Body.List[0].(*ast.ReturnStmt); types.ExprString(rs.Results[1]) != eid.Name {
		return nil
	}
	return fl
}

// readerCall handles `u, err := readVarint()` followed by `if err != nil { return …, err }`: u holds one varint
// read at the cursor (errors: overflow and truncated input, as in the inline loop). Returns the statements consumed.
func (w *decWalker) readerCall(list []ast.Stmt, i int) (int, bool) {
	info := w.info
	as, ok := list[i].(*ast.AssignStmt)
	if !ok || as.Tok != token.DEFINE || len(as.Lhs) != 2 || len(as.Rhs) != 1 || i+1 >= len(list) {
		return 0, false
	}
	call, ok := ast.Unparen(as.Rhs[0]).(*ast.CallExpr)
	if !ok || len(call.Args) != 0 {
		return 0, false
	}
	fid, ok := ast.Unparen(call.Fun).(*ast.Ident)
	if !ok || !w.readers[info.ObjectOf(fid)] {
		return 0, false
	}
	uid, _ := as.Lhs[0].(*ast.Ident)
	eid, _ := as.Lhs[1].(*ast.Ident)
	if uid == nil || eid == nil || uid.Name == "_" || eid.Name == "_" {
		return 0, false
	}
	chk, ok := list[i+1].(*ast.IfStmt)
	if !ok || chk.Init != nil || chk.Else != nil || !w.isErrRet(chk.Body) || types.ExprString(chk.Cond) != eid.Name+" != nil" {
		return 0, false
	}
	// the error handed back must be the reader's
	if rs := chk.Body.List[0].(*ast.ReturnStmt); types.ExprString(rs.Results[1]) != eid.Name {
		return 0, false
	}
	w.atStart = false
	w.vals[info.ObjectOf(uid)] = "varint[uint64]"
	return 2, true
}

// applyVarint performs ACC = ACC | varint[T].
func (w *decWalker) applyVarint(acc ast.Expr, T types.Type) error {
	l, obj, err := w.lval(acc)
	if err != nil {
		return err
	}
	w.atStart = false
	var prev string
	if obj != nil {
		p, ok := w.vals[obj]
		if !ok {
			return und("accumulator %s has no tracked value", obj.Name())
		}
		prev = p
	} else {
		prev = w.fieldVal(l)
	}
	v := "varint[" + tname(T) + "]"
	if prev != "0" {
		v = "or(" + prev + ", " + v + ")"
	}
	if obj != nil {
		w.vals[obj] = v
	} else {
		w.setField(l, v)
	}
	return nil
}

// stmts interprets the statements of an arm (or alternative).
// normVarint rewrites the bounded form of the varint reader
//
//	shift := uint(0); for ; shift < 64; shift += 7 { <body> }; if shift >= 64 { return overflow }
//
// into the form the matcher knows (`for shift := uint(0); ; shift += 7 { if shift >= 64 { return overflow }; <body> }`).
// The two are equivalent: the body is entered only while shift < 64; leaving through the loop condition means the
// last byte read still had its continuation bit and shift is now >= 64 (overflow), leaving through the body's break
// leaves shift < 64. shift may not be used afterwards.
func (w *decWalker) normVarint(list []ast.Stmt) []ast.Stmt {
	info := w.info
	var out []ast.Stmt
	for i := 0; i < len(list); i++ {
		if i+2 < len(list) {
			def, ok1 := list[i].(*ast.AssignStmt)
			fs, ok2 := list[i+1].(*ast.ForStmt)
			chk, ok3 := list[i+2].(*ast.IfStmt)
			if ok1 && ok2 && ok3 && def.Tok == token.DEFINE && len(def.Lhs) == 1 && fs.Init == nil && fs.Cond != nil && chk.Else == nil && chk.Init == nil {
				shift := info.ObjectOf(def.Lhs[0].(*ast.Ident))
				cond, okc := ast.Unparen(fs.Cond).(*ast.BinaryExpr)
				cc, okk := ast.Unparen(chk.Cond).(*ast.BinaryExpr)
				if shift != nil && okc && okk && cond.Op == token.LSS && w.is(cond.X, shift) && cc.Op == token.GEQ && w.is(cc.X, shift) {
					k1, a := constInt(info, cond.Y)
					k2, b := constInt(info, cc.Y)
					usedLater := false
					for _, later := range list[i+3:] {
						ast.Inspect(later, func(n ast.Node) bool {
							if id, ok := n.(*ast.Ident); ok && info.ObjectOf(id) == shift {
								usedLater = true
							}
							return true
						})
					}
					if a && b && k1 == 64 && k2 == 64 && !usedLater {
						body := append([]ast.Stmt{chk}, fs.Body.List...)
						out = append(out, &ast.ForStmt{For: fs.For, Init: def, Post: fs.Post, Body: &ast.BlockStmt{Lbrace: fs.Body.Lbrace, List: body, Rbrace: fs.Body.Rbrace}})
						i += 2
						continue
					}
				}
			}
		}
		out = append(out, list[i])
	}
	return out
}

func (w *decWalker) stmts(list []ast.Stmt) error {
	info := w.info
	list = w.normVarint(list)
	for i := 0; i < len(list); i++ {
		s := list[i]
		if n, ok := w.readerCall(list, i); ok {
			i += n - 1
			continue
		}
		if n, ok := w.lenReaderCall(list, i); ok {
			i += n - 1
			continue
		}
		if fl := w.elemClosureCall(s); fl != nil {
			saved := w.inElemClosure
			w.inElemClosure = true
			err := w.stmts(fl.Body.List[:len(fl.Body.List)-1])
			w.inElemClosure = saved
			if err != nil {
				return err
			}
			continue
		}
		switch t := s.(type) {
		case *ast.DeclStmt:
			gd, ok := t.Decl.(*ast.GenDecl)
			if !ok || gd.Tok != token.VAR || len(gd.Specs) != 1 {
				return und("declaration %s", nodeStr(s))
			}
			vs := gd.Specs[0].(*ast.ValueSpec)
			if len(vs.Names) != 1 || len(vs.Values) != 0 {
				return und("declaration %s", nodeStr(s))
			}
			o := info.ObjectOf(vs.Names[0])
			if _, isPtr := o.Type().Underlying().(*types.Pointer); isPtr {
				w.vals[o] = "nil"
			} else {
				w.vals[o] = "0"
			}
		case *ast.ForStmt:
			if acc, T, ok := w.varintLoop(t); ok {
				if err := w.applyVarint(acc, T); err != nil {
					return err
				}
				continue
			}
			// for idx < post { … }
			if c, ok := t.Cond.(*ast.BinaryExpr); ok && t.Init == nil && t.Post == nil && c.Op == token.LSS && w.is(c.X, w.idx) && w.post != nil && w.is(c.Y, w.post) {
				if err := w.innerLoop(t); err != nil {
					return err
				}
				continue
			}
			return und("loop %s", nodeStr(t.Cond))
		case *ast.RangeStmt:
			// packed element-count pre-pass: for _, b := range dAtA[idx:post] { if b < 128 { count++ } }
			if w.payload(t.X) {
				okCount := len(t.Body.List) == 1
				if okCount {
					is, ok := t.Body.List[0].(*ast.IfStmt)
					okCount = ok && is.Else == nil && len(is.Body.List) == 1
					if okCount {
						inc, ok := is.Body.List[0].(*ast.IncDecStmt)
						okCount = ok && inc.Tok == token.INC
						if okCount {
							_, o, _ := w.lval(inc.X)
							if o == nil {
								okCount = false
							} else {
								w.vals[o] = "hint"
							}
						}
					}
				}
				if okCount {
					continue
				}
			}
			return und("range loop %s", nodeStr(t.X))
		case *ast.IfStmt:
			if err := w.ifStmt(t, list, &i); err != nil {
				return err
			}
		case *ast.AssignStmt:
			if err := w.assign(t, list, &i); err != nil {
				return err
			}
		case *ast.ExprStmt:
			call, ok := t.X.(*ast.CallExpr)
			if !ok {
				return und("statement %s", nodeStr(s))
			}
			if b, ok := core.CalleeObj(info, call).(*types.Builtin); ok && b.Name() == "copy" && len(call.Args) == 2 && w.payload(call.Args[1]) {
				dl, dobj, err := w.lval(call.Args[0])
				if err != nil {
					// x.F[len(x.F)-1]
					dt, err2 := w.term(call.Args[0])
					if err2 != nil {
						return err
					}
					if strings.HasPrefix(dt, "last(") {
						inner := dt[5 : len(dt)-1]
						// inner is the current value of the field: append(x.F, make([]byte, len(bytes)))
						for _, l := range w.touched {
							if w.fields[l] == inner && strings.HasSuffix(inner, ", make([]byte, len(bytes)))") {
								w.fields[l] = strings.TrimSuffix(inner, "make([]byte, len(bytes)))") + "copy(bytes))"
								dt = ""
							}
						}
						if dt == "" {
							continue
						}
					}
					return und("copy destination %s", nodeStr(call.Args[0]))
				}
				cur := ""
				if dobj != nil {
					cur = w.vals[dobj]
				} else {
					cur = w.fieldVal(dl)
				}
				if cur == "make([]byte, len(bytes))" || cur == "make([]byte, uint64len(bytes))" {
					if dobj != nil {
						w.vals[dobj] = "copy(bytes)"
					} else {
						w.setField(dl, "copy(bytes)")
					}
					continue
				}
				return fmt.Errorf("copy of the payload into %s, which is not a fresh buffer of the payload's length", cur)
			}
			return und("call %s", nodeStr(call))
		default:
			return und("statement %T %s", s, nodeStr(s))
		}
	}
	return nil
}

// ifStmt handles guards and the recognised conditional idioms.
func (w *decWalker) ifStmt(t *ast.IfStmt, list []ast.Stmt, i *int) error {
	info := w.info
	// if err := options.Unmarshal(payload, TARGET); err != nil { return …, err }
	if t.Init != nil {
		as, ok := t.Init.(*ast.AssignStmt)
		if ok && len(as.Rhs) == 1 {
			if call, ok := as.Rhs[0].(*ast.CallExpr); ok {
				q := core.QualName(core.CalleeObj(info, call))
				if q == "google.golang.org/protobuf/proto.UnmarshalOptions.Unmarshal" {
					sel := call.Fun.(*ast.SelectorExpr)
					if !w.is(sel.X, w.opts) {
						return fmt.Errorf("nested message is decoded with %s, not with the closure's options (DiscardUnknown/Resolver/depth are lost)", types.ExprString(sel.X))
					}
					if !w.payload(call.Args[0]) {
						return fmt.Errorf("nested decode does not receive exactly the record payload dAtA[iNdEx:postIndex]")
					}
					tgt, err := w.term(call.Args[1])
					if err != nil {
						return err
					}
					if !w.isErrRet(t.Body) {
						return fmt.Errorf("error of the nested decode is not returned")
					}
					w.effects = append(w.effects, "unmarshal(bytes -> "+tgt+")")
					return nil
				}
			}
		}
		// if o, ok := x.O.(*W); ok && o != nil && o.F != nil { v = o.F }   (continue the message the member already holds)
		if ok && as.Tok == token.DEFINE && len(as.Lhs) == 2 && len(as.Rhs) == 1 && t.Else == nil && len(t.Body.List) == 1 {
			if ta, isTA := ast.Unparen(as.Rhs[0]).(*ast.TypeAssertExpr); isTA && ta.Type != nil {
				oID, _ := as.Lhs[0].(*ast.Ident)
				okID, _ := as.Lhs[1].(*ast.Ident)
				body, isAs := t.Body.List[0].(*ast.AssignStmt)
				if oID != nil && okID != nil && isAs && body.Tok == token.ASSIGN && len(body.Lhs) == 1 && len(body.Rhs) == 1 {
					oObj, okObj := info.ObjectOf(oID), info.ObjectOf(okID)
					sel, isSel := ast.Unparen(body.Rhs[0]).(*ast.SelectorExpr)
					_, vObj, err := w.lval(body.Lhs[0])
					if isSel && w.is(sel.X, oObj) && err == nil && vObj != nil {
						// condition: ok && o != nil && o.F != nil  (any order of the three conjuncts)
						var conj []string
						var flat func(x ast.Expr)
						flat = func(x ast.Expr) {
							x = ast.Unparen(x)
							if be, isB := x.(*ast.BinaryExpr); isB && be.Op == token.LAND {
								flat(be.X)
								flat(be.Y)
								return
							}
							conj = append(conj, types.ExprString(x))
						}
						flat(t.Cond)
						sort.Strings(conj)
						want := []string{okObj.Name(), oObj.Name() + " != nil", oObj.Name() + "." + sel.Sel.Name + " != nil"}
						sort.Strings(want)
						src, err2 := w.term(ta.X)
						// without the `o.F != nil` conjunct, over a local that is still nil: the member's message or nil
						held := []string{okObj.Name(), oObj.Name() + " != nil"}
						sort.Strings(held)
						if strings.Join(conj, "&") == strings.Join(held, "&") && err2 == nil && w.vals[vObj] == "nil" {
							w.vals[vObj] = "held(" + src + " as " + tname(info.TypeOf(ta.Type)) + "." + sel.Sel.Name + ")"
							return nil
						}
						if strings.Join(conj, "&") == strings.Join(want, "&") && err2 == nil {
							wt := tname(info.TypeOf(ta.Type))
							prev := w.vals[vObj]
							w.vals[vObj] = "merged(" + src + " as " + wt + "." + sel.Sel.Name + ", " + prev + ")"
							return nil
						}
					}
				}
			}
		}
		return und("if with init %s", nodeStr(t.Init))
	}
	// error guards: recognised forms are skipped (their adequacy is BND's obligation)
	if w.isErrRet(t.Body) && t.Else == nil {
		c := ast.Unparen(t.Cond)
		if be, ok := c.(*ast.BinaryExpr); ok {
			switch {
			case be.Op == token.LSS && isZero(info, be.Y): // L < 0 : must be followed by post := idx + L (checked there)
				if *i+1 < len(list) {
					if as, ok := list[*i+1].(*ast.AssignStmt); ok && as.Tok == token.DEFINE && len(as.Rhs) == 1 {
						if b2, ok := ast.Unparen(as.Rhs[0]).(*ast.BinaryExpr); ok && b2.Op == token.ADD && w.is(b2.X, w.idx) && types.ExprString(b2.Y) == types.ExprString(be.X) {
							return nil
						}
					}
				}
				return und("guard %s is not followed by the payload-end computation", nodeStr(t.Cond))
			default:
				// (idx+k) > l, l < (idx+k), l-idx < k, k > l-idx: fewer than k bytes are left
				if k, ok := w.fewerThan(be); ok {
					// fixed read must follow
					return w.fixedRead(k, list, i)
				}
			}
		}
		return und("guard %s", nodeStr(t.Cond))
	}
	// if x.F == nil { x.F = <init> }   (allocate-if-nil / nil→empty fix-up)
	if be, ok := ast.Unparen(t.Cond).(*ast.BinaryExpr); ok && be.Op == token.EQL && t.Else == nil && len(t.Body.List) == 1 {
		if id, ok := ast.Unparen(be.Y).(*ast.Ident); ok && id.Name == "nil" {
			if as, ok := t.Body.List[0].(*ast.AssignStmt); ok && as.Tok == token.ASSIGN && len(as.Lhs) == 1 {
				l1, o1, e1 := w.lval(be.X)
				l2, o2, e2 := w.lval(as.Lhs[0])
				if e1 == nil && e2 == nil && l1 == l2 && o1 == o2 {
					init, err := w.term(as.Rhs[0])
					if err != nil {
						return err
					}
					cur := ""
					if o1 != nil {
						cur = w.vals[o1]
					} else {
						cur = w.fieldVal(l1)
					}
					nv := "ornew(" + cur + ", " + init + ")"
					if strings.HasPrefix(init, "empty(") {
						nv = cur // nil -> empty fix-up keeps the value
					}
					// `var v *M; if o, ok := x.O.(*W); ok && o != nil { v = o.F }; if v == nil { v = &M{} }`: the message the member
					// already holds if there is one, else a fresh one — the same value as `v := &M{}; if … && o.F != nil { v = o.F }`
					if o1 != nil && strings.HasPrefix(cur, "held(") && allocTermRe.MatchString(init) {
						nv = "merged(" + cur[5:len(cur)-1] + ", " + init + "@" + o1.Name() + ")"
					}
					if o1 != nil {
						w.vals[o1] = nv
					} else {
						w.setField(l1, nv)
					}
					return nil
				}
			}
		}
	}
	// v := x.F … if v == nil { v = <init>; x.F = v }   (the same through a local that holds the field's value)
	if be, ok := ast.Unparen(t.Cond).(*ast.BinaryExpr); ok && be.Op == token.EQL && t.Else == nil && t.Init == nil && len(t.Body.List) == 2 {
		if id, ok := ast.Unparen(be.Y).(*ast.Ident); ok && id.Name == "nil" {
			a1, ok1 := t.Body.List[0].(*ast.AssignStmt)
			a2, ok2 := t.Body.List[1].(*ast.AssignStmt)
			if ok1 && ok2 && a1.Tok == token.ASSIGN && a2.Tok == token.ASSIGN && len(a1.Lhs) == 1 && len(a2.Lhs) == 1 && len(a1.Rhs) == 1 && len(a2.Rhs) == 1 {
				_, ov, e0 := w.lval(be.X)
				_, o1, e1 := w.lval(a1.Lhs[0])
				l2, o2, e2 := w.lval(a2.Lhs[0])
				if e0 == nil && e1 == nil && e2 == nil && ov != nil && o1 == ov && o2 == nil && w.is(a2.Rhs[0], ov) && w.vals[ov] == w.fieldVal(l2) {
					init, err := w.term(a1.Rhs[0])
					if err != nil {
						return err
					}
					nv := "ornew(" + w.vals[ov] + ", " + init + ")"
					w.vals[ov] = nv
					w.setField(l2, nv)
					return nil
				}
			}
		}
	}
	// if elementCount != 0 && len(x.F) == 0 { x.F = make([]T, 0, elementCount) }  (capacity hint)
	if be, ok := ast.Unparen(t.Cond).(*ast.BinaryExpr); ok && be.Op == token.LAND && t.Else == nil && len(t.Body.List) == 1 {
		if as, ok := t.Body.List[0].(*ast.AssignStmt); ok && as.Tok == token.ASSIGN {
			if call, ok := as.Rhs[0].(*ast.CallExpr); ok && len(call.Args) == 3 {
				if b, ok := core.CalleeObj(info, call).(*types.Builtin); ok && b.Name() == "make" && isZero(info, call.Args[1]) {
					r, ok := ast.Unparen(be.Y).(*ast.BinaryExpr)
					if ok && r.Op == token.EQL && isZero(info, r.Y) {
						if lc, ok := ast.Unparen(r.X).(*ast.CallExpr); ok && len(lc.Args) == 1 {
							if types.ExprString(lc.Args[0]) == types.ExprString(as.Lhs[0]) {
								return nil // replaces an empty list by an empty list with capacity
							}
						}
					}
				}
			}
		}
	}
	return und("conditional %s", nodeStr(t.Cond))
}

func isZero(info *types.Info, x ast.Expr) bool {
	k, ok := constInt(info, x)
	return ok && k == 0
}

// fewerThan matches the conditions that say "fewer than k bytes are left at the cursor": (idx+k) > l, l < (idx+k),
// l-idx < k, k > l-idx (idx <= l holds throughout the closure, so the subtraction cannot wrap).
func (w *decWalker) fewerThan(be *ast.BinaryExpr) (int64, bool) {
	x, y := be.X, be.Y
	switch be.Op {
	case token.GTR:
	case token.LSS:
		x, y = y, x
	default:
		return 0, false
	}
	// x > y
	if w.is(y, w.lVar) {
		return w.idxPlus(x)
	}
	if sub, ok := ast.Unparen(y).(*ast.BinaryExpr); ok && sub.Op == token.SUB && w.is(sub.X, w.lVar) && w.is(sub.Y, w.idx) {
		return constInt(w.info, x)
	}
	return 0, false
}

// idxPlus matches (idx + k).
func (w *decWalker) idxPlus(x ast.Expr) (int64, bool) {
	be, ok := ast.Unparen(x).(*ast.BinaryExpr)
	if !ok || be.Op != token.ADD || !w.is(be.X, w.idx) {
		return 0, false
	}
	return constInt(w.info, be.Y)
}

// fixedRead: after `if (idx+k) > l {ret}`: V = T(binary.LittleEndian.UintN(dAtA[idx:])); idx += k
func (w *decWalker) fixedRead(k int64, list []ast.Stmt, i *int) error {
	info := w.info
	if *i+2 >= len(list) {
		return und("fixed-width read is incomplete")
	}
	// the cursor may be advanced before the read (`idx += k; V = …(dAtA[idx-k:idx])`): both orders stay behind the guard
	advFirst := false
	if adv0, ok := list[*i+1].(*ast.AssignStmt); ok && adv0.Tok == token.ADD_ASSIGN && len(adv0.Lhs) == 1 && w.is(adv0.Lhs[0], w.idx) {
		if kk, ok := constInt(info, adv0.Rhs[0]); ok && kk == k {
			advFirst = true
			list = append(append(append([]ast.Stmt{}, list[:*i+1]...), list[*i+2], list[*i+1]), list[*i+3:]...)
		}
	}
	as, ok := list[*i+1].(*ast.AssignStmt)
	if !ok || len(as.Lhs) != 1 || len(as.Rhs) != 1 || as.Tok != token.ASSIGN {
		return und("fixed-width read: assignment expected")
	}
	rhs := ast.Unparen(as.Rhs[0])
	var T types.Type
	if c, ok := rhs.(*ast.CallExpr); ok && len(c.Args) == 1 {
		if tv, ok := info.Types[c.Fun]; ok && tv.IsType() {
			T = tv.Type
			rhs = ast.Unparen(c.Args[0])
		}
	}
	call, ok := rhs.(*ast.CallExpr)
	if !ok || len(call.Args) != 1 {
		return und("fixed-width read form")
	}
	q := core.QualName(core.CalleeObj(info, call))
	want := fmt.Sprintf("encoding/binary.littleEndian.Uint%d", k*8)
	if q != want {
		return fmt.Errorf("bounds guard covers %d bytes but the read is %s", k, q)
	}
	se, ok := ast.Unparen(call.Args[0]).(*ast.SliceExpr)
	okSlice := ok && w.is(se.X, w.buf) && se.Max == nil
	if okSlice {
		if !advFirst {
			// dAtA[idx:] or dAtA[idx:idx+k]
			okSlice = w.is(se.Low, w.idx)
			if okSlice && se.High != nil {
				hk, isPlus := w.idxPlus(se.High)
				okSlice = isPlus && hk == k
			}
		} else {
			// dAtA[idx-k:idx] (or dAtA[idx-k:]) after idx += k
			lo, isSub := ast.Unparen(se.Low).(*ast.BinaryExpr)
			okSlice = isSub && lo.Op == token.SUB && w.is(lo.X, w.idx)
			if okSlice {
				lk, isK := constInt(info, lo.Y)
				okSlice = isK && lk == k && (se.High == nil || w.is(se.High, w.idx))
			}
		}
	}
	if !okSlice {
		return und("fixed-width read does not read at the cursor")
	}
	if T == nil {
		T = info.TypeOf(call)
	}
	adv, ok := list[*i+2].(*ast.AssignStmt)
	if !ok || adv.Tok != token.ADD_ASSIGN || !w.is(adv.Lhs[0], w.idx) {
		return fmt.Errorf("cursor is not advanced after the %d-byte read", k)
	}
	if kk, ok := constInt(info, adv.Rhs[0]); !ok || kk != k {
		return fmt.Errorf("cursor advances by %s after a %d-byte read", types.ExprString(adv.Rhs[0]), k)
	}
	v := fmt.Sprintf("le%d[%s]", k*8, tname(T))
	l, obj, err := w.lval(as.Lhs[0])
	if err != nil {
		return err
	}
	if obj != nil {
		w.vals[obj] = v
	} else {
		w.setField(l, v)
	}
	w.atStart = false
	*i += 2
	return nil
}

func (w *decWalker) assign(t *ast.AssignStmt, list []ast.Stmt, i *int) error {
	info := w.info
	if len(t.Lhs) != 1 || len(t.Rhs) != 1 {
		return und("assignment %s", nodeStr(t))
	}
	// post := idx + L
	if t.Tok == token.DEFINE {
		if be, ok := ast.Unparen(t.Rhs[0]).(*ast.BinaryExpr); ok && be.Op == token.ADD && w.is(be.X, w.idx) {
			if lt, err := w.term(be.Y); err == nil {
				postObj := info.ObjectOf(t.Lhs[0].(*ast.Ident))
				// BND.delimited: `if L < 0 {ret}` before, `if post < 0 {ret}` and `if post > l {ret}` after
				okPre := false
				if *i > 0 {
					if g, ok := list[*i-1].(*ast.IfStmt); ok && g.Else == nil && w.isErrRet(g.Body) {
						if c, ok := ast.Unparen(g.Cond).(*ast.BinaryExpr); ok && c.Op == token.LSS && isZero(info, c.Y) && types.ExprString(c.X) == types.ExprString(be.Y) {
							okPre = true
						}
					}
				}
				if !okPre && *i+2 < len(list) {
					// the same three tests with the sign tests combined after the addition:
					//   post := idx + L; if L < 0 || post < 0 { return error }; if post > l { return error }
					// (nothing uses post before both sign tests have passed)
					g1, ok1 := list[*i+1].(*ast.IfStmt)
					g2, ok2 := list[*i+2].(*ast.IfStmt)
					if ok1 && ok2 && g1.Else == nil && g2.Else == nil && g1.Init == nil && g2.Init == nil && w.isErrRet(g1.Body) && w.isErrRet(g2.Body) {
						or, isOr := ast.Unparen(g1.Cond).(*ast.BinaryExpr)
						c2, isC2 := ast.Unparen(g2.Cond).(*ast.BinaryExpr)
						if isOr && isC2 && or.Op == token.LOR && c2.Op == token.GTR && w.is(c2.X, postObj) && w.is(c2.Y, w.lVar) {
							neg := func(x ast.Expr, isLen bool) bool {
								c, ok := ast.Unparen(x).(*ast.BinaryExpr)
								if !ok || c.Op != token.LSS || !isZero(info, c.Y) {
									return false
								}
								if isLen {
									return types.ExprString(c.X) == types.ExprString(be.Y)
								}
								return w.is(c.X, postObj)
							}
							if (neg(or.X, true) && neg(or.Y, false)) || (neg(or.X, false) && neg(or.Y, true)) {
								if st := info.TypeOf(be.Y); st == nil || basicKind(st) != types.Int {
									return und("length operand %s is not an int", types.ExprString(be.Y))
								}
								w.lenTerm = lt
								w.post = postObj
								w.atStart = true
								*i += 2
								return nil
							}
						}
					}
				}
				if !okPre {
					return fmt.Errorf("payload end %s = cursor + %s is computed without the preceding `if %s < 0 { return error }` guard: a negative length moves the cursor backwards", postObj.Name(), types.ExprString(be.Y), types.ExprString(be.Y))
				}
				if st := info.TypeOf(be.Y); st == nil || basicKind(st) != types.Int {
					return und("length operand %s is not an int", types.ExprString(be.Y))
				}
				okPost := *i+2 < len(list)
				if okPost {
					g1, ok1 := list[*i+1].(*ast.IfStmt)
					g2, ok2 := list[*i+2].(*ast.IfStmt)
					okPost = ok1 && ok2 && g1.Else == nil && g2.Else == nil && w.isErrRet(g1.Body) && w.isErrRet(g2.Body)
					if okPost {
						c1, a := ast.Unparen(g1.Cond).(*ast.BinaryExpr)
						c2, b := ast.Unparen(g2.Cond).(*ast.BinaryExpr)
						okPost = a && b && c1.Op == token.LSS && isZero(info, c1.Y) && w.is(c1.X, postObj) &&
							c2.Op == token.GTR && w.is(c2.X, postObj) && w.is(c2.Y, w.lVar)
					}
				}
				if !okPost {
					return fmt.Errorf("payload end %s is not followed by `if %s < 0 { return error }` (overflow) and `if %s > l { return error }` (truncated input): the slice dAtA[iNdEx:%s] can be out of range", postObj.Name(), postObj.Name(), postObj.Name(), postObj.Name())
				}
				w.lenTerm = lt
				w.post = postObj
				w.atStart = true
				*i += 2
				return nil
			}
		}
	}
	// idx = post
	if t.Tok == token.ASSIGN && w.is(t.Lhs[0], w.idx) {
		if w.post != nil && w.is(t.Rhs[0], w.post) {
			w.effects = append(w.effects, "cursor=end")
			w.atStart = false
			return nil
		}
		return und("cursor assignment %s", nodeStr(t))
	}
	l, obj, err := w.lval(t.Lhs[0])
	if err != nil {
		return err
	}
	if t.Tok != token.ASSIGN && t.Tok != token.DEFINE {
		return und("assignment operator in %s", nodeStr(t))
	}
	// p := dAtA[iNdEx:postIndex]
	if t.Tok == token.DEFINE && obj != nil && len(t.Rhs) == 1 {
		if _, isSlice := ast.Unparen(t.Rhs[0]).(*ast.SliceExpr); isSlice && w.payload(t.Rhs[0]) {
			if w.payloadVars == nil {
				w.payloadVars = map[types.Object]bool{}
			}
			w.payloadVars[obj] = true
			return nil
		}
	}
	// x.F = runtime.Grow…(x.F, elementCount): more capacity, same length and elements (see capHelper); the amount is one of
	// the capacity hints below, which never exceed the number of payload bytes
	if obj == nil && t.Tok == token.ASSIGN {
		if call, ok := ast.Unparen(t.Rhs[0]).(*ast.CallExpr); ok && len(call.Args) == 2 {
			if f, ok := core.CalleeObj(info, call).(*types.Func); ok && capHelper(f) && types.ExprString(ast.Unparen(call.Args[0])) == types.ExprString(ast.Unparen(t.Lhs[0])) {
				n, err := w.term(call.Args[1])
				if err == nil && (n == "hint" || n == "0") {
					return nil
				}
				return fmt.Errorf("capacity reserved by %s is %s (%s), which is not bounded by the payload length", f.Name(), nodeStr(call.Args[1]), n)
			}
		}
	}
	// capacity hints: elementCount = packedLen / 8 | count | packedLen
	if obj != nil && basicKind(obj.Type()) == types.Int {
		rhs := ast.Unparen(t.Rhs[0])
		if be, ok := rhs.(*ast.BinaryExpr); ok && be.Op == token.QUO {
			if _, isK := constInt(info, be.Y); isK {
				if _, err := w.term(be.X); err == nil {
					w.vals[obj] = "hint"
					return nil
				}
			}
		}
		if cur, tracked := w.vals[obj]; tracked && (cur == "0" || cur == "hint") {
			if v, err := w.term(rhs); err == nil && (v == "hint" || strings.HasPrefix(v, "varint[int]")) {
				w.vals[obj] = "hint"
				return nil
			}
		}
	}
	v, err := w.term(t.Rhs[0])
	if err != nil {
		return err
	}
	if obj != nil {
		// a fresh message held in a new local keeps the local's name as its identity (see summary)
		if t.Tok == token.DEFINE && allocTermRe.MatchString(v) {
			v += "@" + obj.Name()
		}
		w.vals[obj] = v
	} else {
		w.setField(l, v)
	}
	return nil
}

var allocTermRe = regexp.MustCompile(`^new\([A-Za-z0-9_.]+\)$`)
var allocTagRe = regexp.MustCompile(`(new\([A-Za-z0-9_.]+\))@\w+`)
var appendTaggedRe = regexp.MustCompile(`^append\((.+), (new\([A-Za-z0-9_.]+\)@\w+)\)$`)

// innerLoop: `for idx < post { … }` — a packed run or a map-entry loop.
func (w *decWalker) innerLoop(fs *ast.ForStmt) error {
	body := fs.Body.List
	// map entry loop starts with `entryPreIndex := idx`
	if len(body) > 0 {
		if as, ok := body[0].(*ast.AssignStmt); ok && as.Tok == token.DEFINE && len(as.Lhs) == 1 && w.is(as.Rhs[0], w.idx) {
			return w.mapEntryLoop(fs)
		}
	}
	// packed run: body is the element reader; executed any number of times
	savedStart := w.atStart
	w.atStart = false
	before := map[string]string{}
	for k, v := range w.fields {
		before[k] = v
	}
	nTouched := len(w.touched)
	if err := w.stmts(body); err != nil {
		return err
	}
	_ = savedStart
	// the loop may append several elements: mark as repeated
	for _, l := range w.touched {
		if w.fields[l] != before[l] {
			prev, had := before[l]
			if !had {
				prev = l
			}
			if strings.HasPrefix(w.fields[l], "append("+prev+", ") {
				w.fields[l] = "appendeach(" + prev + ", " + strings.TrimPrefix(w.fields[l], "append("+prev+", ")
			} else {
				return fmt.Errorf("packed run body does not append to the list (%s := %s)", l, w.fields[l])
			}
		}
	}
	_ = nTouched
	w.effects = append(w.effects, "cursor>=end")
	return nil
}

// fastTag: the tag read with a one-byte fast path, directly after `pre := idx; var V uint64` at the head of a loop whose
// condition is idx < bound (bound <= l), so that the byte at the cursor exists:
//
//	if b := dAtA[idx]; b < 0x80 { V = uint64(b); idx++ } else { <the standard varint loop into V> }
//
// A one-byte varint is that byte, and the else branch starts from V == 0: the statement equals the varint loop alone,
// which is what the caller goes on with. Any other shape is left as it is (and stays undecided).
func (w *decWalker) fastTag(list []ast.Stmt, at int) []ast.Stmt {
	if at >= len(list) || at < 2 {
		return list
	}
	info := w.info
	pre, ok0 := list[at-2].(*ast.AssignStmt)
	d, ok1 := list[at-1].(*ast.DeclStmt)
	is, ok2 := list[at].(*ast.IfStmt)
	if !ok0 || !ok1 || !ok2 || pre.Tok != token.DEFINE || len(pre.Rhs) != 1 || !w.is(pre.Rhs[0], w.idx) {
		return list
	}
	gd, ok := d.Decl.(*ast.GenDecl)
	if !ok || gd.Tok != token.VAR || len(gd.Specs) != 1 {
		return list
	}
	vs := gd.Specs[0].(*ast.ValueSpec)
	if len(vs.Names) != 1 || len(vs.Values) != 0 {
		return list
	}
	v := info.ObjectOf(vs.Names[0])
	if basicKind(v.Type()) != types.Uint64 {
		return list
	}
	init, ok := is.Init.(*ast.AssignStmt)
	if !ok || init.Tok != token.DEFINE || len(init.Lhs) != 1 || len(init.Rhs) != 1 {
		return list
	}
	bID, ok := init.Lhs[0].(*ast.Ident)
	ix, ok2 := ast.Unparen(init.Rhs[0]).(*ast.IndexExpr)
	if !ok || !ok2 || !w.is(ix.X, w.buf) || !w.is(ix.Index, w.idx) {
		return list
	}
	b := info.ObjectOf(bID)
	c, ok := ast.Unparen(is.Cond).(*ast.BinaryExpr)
	if !ok || c.Op != token.LSS || !w.is(c.X, b) {
		return list
	}
	if k, ok := constInt(info, c.Y); !ok || k != 0x80 {
		return list
	}
	if len(is.Body.List) != 2 {
		return list
	}
	var sawSet, sawInc bool
	for _, st := range is.Body.List {
		switch t := st.(type) {
		case *ast.AssignStmt:
			if t.Tok == token.ASSIGN && len(t.Lhs) == 1 && len(t.Rhs) == 1 && w.is(t.Lhs[0], v) {
				if call, ok := ast.Unparen(t.Rhs[0]).(*ast.CallExpr); ok && len(call.Args) == 1 && w.is(call.Args[0], b) {
					if tv, ok := info.Types[call.Fun]; ok && tv.IsType() && basicKind(tv.Type) == types.Uint64 {
						sawSet = true
					}
				}
			}
		case *ast.IncDecStmt:
			if t.Tok == token.INC && w.is(t.X, w.idx) {
				sawInc = true
			}
		}
	}
	eb, ok := is.Else.(*ast.BlockStmt)
	if !sawSet || !sawInc || !ok || len(eb.List) != 1 {
		return list
	}
	fl, ok := eb.List[0].(*ast.ForStmt)
	if !ok {
		return list
	}
	out := append([]ast.Stmt{}, list[:at]...)
	out = append(out, fl)
	return append(out, list[at+1:]...)
}

// mapEntryLoop interprets the entry sub-loop.
func (w *decWalker) mapEntryLoop(fs *ast.ForStmt) error {
	info := w.info
	body := w.fastTag(w.normVarint(fs.Body.List), 2)
	entryPre := info.ObjectOf(body[0].(*ast.AssignStmt).Lhs[0].(*ast.Ident))
	entryPost := w.post
	var tagVar types.Object
	if n, ok := w.readerCall(body, 1); ok && len(body) == 6 {
		// u, err := readVarint(); if err != nil {…}; wire := u
		uObj := info.ObjectOf(body[1].(*ast.AssignStmt).Lhs[0].(*ast.Ident))
		as, isAs := body[1+n].(*ast.AssignStmt)
		if !isAs || as.Tok != token.DEFINE || len(as.Lhs) != 1 || len(as.Rhs) != 1 || !w.is(as.Rhs[0], uObj) {
			return und("map entry loop: the tag read by the shared reader is not bound to the tag variable")
		}
		tagVar = info.ObjectOf(as.Lhs[0].(*ast.Ident))
		// continue with the common tail: [pre, tagdecl, read, fieldNum, dispatch]
		body = []ast.Stmt{body[0], body[1], body[2], body[4], body[5]}
	} else {
		if len(body) != 5 {
			return und("map entry loop form (%d statements)", len(body))
		}
		// var wire uint64; varint; fieldNum := int32(wire >> 3)
		d, ok := body[1].(*ast.DeclStmt)
		if !ok {
			return und("map entry loop: tag variable")
		}
		tagVar = info.ObjectOf(d.Decl.(*ast.GenDecl).Specs[0].(*ast.ValueSpec).Names[0])
		fl, ok := body[2].(*ast.ForStmt)
		if !ok {
			return und("map entry loop: tag read")
		}
		acc, T, ok := w.varintLoop(fl)
		if !ok || !w.is(acc, tagVar) || basicKind(T) != types.Uint64 {
			return und("map entry loop: tag read form")
		}
	}
	fa, ok := body[3].(*ast.AssignStmt)
	if !ok || fa.Tok != token.DEFINE {
		return und("map entry loop: field number")
	}
	fnum := info.ObjectOf(fa.Lhs[0].(*ast.Ident))
	if s := types.ExprString(fa.Rhs[0]); s != "int32("+tagVar.Name()+" >> 3)" {
		return und("map entry loop: field number is %s", s)
	}
	chain, ok := body[4].(*ast.IfStmt)
	if !ok {
		// `switch fieldNum { case 1: … case 2: … default: … }` is the same dispatch, provided no arm leaves it
		// with an unlabelled break (which would end the switch there, but the entry loop in the if-chain form)
		if sw, isSw := body[4].(*ast.SwitchStmt); isSw && sw.Init == nil && sw.Tag != nil && w.is(sw.Tag, fnum) {
			chain = switchToIfChain(sw)
		}
		if chain == nil {
			return und("map entry loop: dispatch")
		}
	}
	// all locals declared outside the loop have an unknown value on re-entry
	outer := map[types.Object]string{}
	for o, v := range w.vals {
		outer[o] = v
		w.vals[o] = "prev(" + o.Name() + ")"
	}
	w.atStart = false
	results := map[int64]map[types.Object]string{}
	var skipOK bool
	for cur := chain; cur != nil; {
		be, ok := ast.Unparen(cur.Cond).(*ast.BinaryExpr)
		if !ok || be.Op != token.EQL || !w.is(be.X, fnum) {
			return und("map entry dispatch condition %s", nodeStr(cur.Cond))
		}
		k, ok := constInt(info, be.Y)
		if !ok {
			return und("map entry dispatch constant")
		}
		snapshot := map[types.Object]string{}
		for o, v := range w.vals {
			snapshot[o] = v
		}
		w.post = nil
		if err := w.stmts(cur.Body.List); err != nil {
			return fmt.Errorf("map entry field %d: %w", k, err)
		}
		res := map[types.Object]string{}
		for o, v := range w.vals {
			if pv, had := snapshot[o]; had && pv != v {
				res[o] = v
			}
		}
		results[k] = res
		// drop cursor=end effects of inner records
		w.effects = dropInner(w.effects)
		for o := range w.vals {
			if _, had := snapshot[o]; !had {
				delete(w.vals, o)
			} else {
				w.vals[o] = snapshot[o]
			}
		}
		switch e := cur.Else.(type) {
		case *ast.IfStmt:
			cur = e
		case *ast.BlockStmt:
			skipOK = w.skipBlock(e.List, entryPre, entryPost)
			cur = nil
		default:
			cur = nil
		}
	}
	w.post = entryPost
	if !skipOK {
		w.probs = append(w.probs, "other records inside a map entry are not skipped by runtime.Skip bounded by the entry end")
	}
	// after the loop each outer variable is: its initial value, or the branch result
	var parts []string
	for _, k := range []int64{1, 2} {
		res := results[k]
		if len(res) != 1 {
			return fmt.Errorf("map entry field %d updates %d variables, expected exactly one", k, len(res))
		}
		for o, v := range res {
			init := outer[o]
			w.vals[o] = "entry(" + fmt.Sprint(k) + ": init=" + init + ", set=" + v + ")"
			parts = append(parts, w.vals[o])
		}
	}
	for o, v := range outer {
		if strings.HasPrefix(w.vals[o], "prev(") {
			w.vals[o] = v
		}
	}
	return nil
}

func dropInner(eff []string) []string {
	var out []string
	for _, e := range eff {
		if e != "cursor=end" && e != "cursor>=end" {
			out = append(out, e)
		}
	}
	return out
}

// skipGuards checks `if (sk < 0) || (idx+sk) < 0 {ret}` and `if (idx+sk) > bound {ret}`.
func (w *decWalker) skipGuards(g1s, g2s ast.Stmt, sk, bound types.Object) bool {
	return w.skipGuardsAt(g1s, g2s, sk, bound, w.idx, nil)
}

// skipGuardsAt: `if sk < 0 || S < 0 {err}; if S > bound {err}` where S is base+sk written out or the local holding it.
func (w *decWalker) skipGuardsAt(g1s, g2s ast.Stmt, sk, bound, base, end types.Object) bool {
	g1, ok1 := g1s.(*ast.IfStmt)
	g2, ok2 := g2s.(*ast.IfStmt)
	if !ok1 || !ok2 || g1.Else != nil || g2.Else != nil || g1.Init != nil || g2.Init != nil || !w.isErrRet(g1.Body) || !w.isErrRet(g2.Body) {
		return false
	}
	sum := func(x ast.Expr) bool {
		if end != nil && w.is(x, end) {
			return true
		}
		be, ok := ast.Unparen(x).(*ast.BinaryExpr)
		return ok && be.Op == token.ADD && ((w.is(be.X, base) && w.is(be.Y, sk)) || (w.is(be.X, sk) && w.is(be.Y, base)))
	}
	or, ok := ast.Unparen(g1.Cond).(*ast.BinaryExpr)
	if !ok || or.Op != token.LOR {
		return false
	}
	a, okA := ast.Unparen(or.X).(*ast.BinaryExpr)
	b, okB := ast.Unparen(or.Y).(*ast.BinaryExpr)
	if !okA || !okB || a.Op != token.LSS || b.Op != token.LSS || !isZero(w.info, a.Y) || !isZero(w.info, b.Y) || !w.is(a.X, sk) || !sum(b.X) {
		return false
	}
	c, ok := ast.Unparen(g2.Cond).(*ast.BinaryExpr)
	return ok && c.Op == token.GTR && sum(c.X) && w.is(c.Y, bound)
}

// skipBlock: the record that starts at `pre` is skipped as a whole and the cursor ends behind it, within `bound`:
//   idx = pre; sk, err := runtime.Skip(buf[idx:]); err guard; sign and bound guards on idx+sk; idx += sk
// or, without rewinding the cursor first,
//   sk, err := runtime.Skip(buf[pre:]); err guard; [end := pre + sk]; guards on pre+sk / end; idx = pre+sk / end
func (w *decWalker) skipBlock(list []ast.Stmt, pre, bound types.Object) bool {
	info := w.info
	base := pre
	if len(list) > 0 {
		if a0, ok := list[0].(*ast.AssignStmt); ok && a0.Tok == token.ASSIGN && len(a0.Lhs) == 1 && w.is(a0.Lhs[0], w.idx) && w.is(a0.Rhs[0], pre) {
			base = w.idx
			list = list[1:]
		}
	}
	if len(list) < 5 {
		return false
	}
	a1, ok := list[0].(*ast.AssignStmt)
	if !ok || len(a1.Lhs) != 2 || a1.Tok != token.DEFINE {
		return false
	}
	call, ok := a1.Rhs[0].(*ast.CallExpr)
	if !ok || core.QualName(core.CalleeObj(info, call)) != core.RepoModule+"/runtime.Skip" {
		return false
	}
	se, ok := ast.Unparen(call.Args[0]).(*ast.SliceExpr)
	if !ok || !w.is(se.X, w.buf) || !w.is(se.Low, base) || se.High != nil {
		return false
	}
	sk := info.ObjectOf(a1.Lhs[0].(*ast.Ident))
	g0, ok := list[1].(*ast.IfStmt)
	if !ok || g0.Init != nil || g0.Else != nil || !w.isErrRet(g0.Body) || types.ExprString(g0.Cond) != info.ObjectOf(a1.Lhs[1].(*ast.Ident)).Name()+" != nil" {
		return false
	}
	rest := list[2:]
	var end types.Object
	if as, ok := rest[0].(*ast.AssignStmt); ok && as.Tok == token.DEFINE && len(as.Lhs) == 1 && len(as.Rhs) == 1 {
		be, ok := ast.Unparen(as.Rhs[0]).(*ast.BinaryExpr)
		if !ok || be.Op != token.ADD || !((w.is(be.X, base) && w.is(be.Y, sk)) || (w.is(be.X, sk) && w.is(be.Y, base))) {
			return false
		}
		end = info.ObjectOf(as.Lhs[0].(*ast.Ident))
		rest = rest[1:]
	}
	if len(rest) != 3 || !w.skipGuardsAt(rest[0], rest[1], sk, bound, base, end) {
		return false
	}
	adv, ok := rest[2].(*ast.AssignStmt)
	if !ok || len(adv.Lhs) != 1 || len(adv.Rhs) != 1 || !w.is(adv.Lhs[0], w.idx) {
		return false
	}
	if adv.Tok == token.ADD_ASSIGN {
		return base == w.idx && w.is(adv.Rhs[0], sk)
	}
	if adv.Tok != token.ASSIGN {
		return false
	}
	if end != nil && w.is(adv.Rhs[0], end) {
		return true
	}
	be, ok := ast.Unparen(adv.Rhs[0]).(*ast.BinaryExpr)
	return ok && be.Op == token.ADD && ((w.is(be.X, base) && w.is(be.Y, sk)) || (w.is(be.X, sk) && w.is(be.Y, base)))
}

// summary renders the effects of the interpreted statements.
func (w *decWalker) summary() string {
	var parts []string
	ls := append([]string{}, w.touched...)
	sort.Strings(ls)
	effects := append([]string{}, w.effects...)
	for _, l := range ls {
		// `e := new(T); x.F = append(x.F, e); unmarshal(bytes -> e)`: e is the element just appended
		if m := appendTaggedRe.FindStringSubmatch(w.fields[l]); m != nil {
			for i, e := range effects {
				if e == "unmarshal(bytes -> "+m[2]+")" {
					effects[i] = "unmarshal(bytes -> last(" + w.fields[l] + "))"
				}
			}
		}
	}
	for _, l := range ls {
		parts = append(parts, l+" := "+w.fields[l])
	}
	parts = append(parts, effects...)
	out := allocTagRe.ReplaceAllString(strings.Join(parts, "; "), "$1")
	// sint32 through the 64-bit library decoder: int32(DecodeZigZag(uint64(uint32(v)))) keeps the low 32 bits of the
	// varint and un-zig-zags them, which is the 32-bit decoder applied to the varint read as a 32-bit value
	return zz64as32Re.ReplaceAllString(out, "int32(zzdec32(varint[int32]))")
}

var zz64as32Re = regexp.MustCompile(`int32\(int64\(zzdec64\(uint64\(uint32\(varint\[u?int(32|64)\]\)\)\)\)\)`)

func (w *decWalker) reset() {
	w.vals = map[types.Object]string{}
	w.fields = map[string]string{}
	w.touched = nil
	w.post = nil
	w.atStart = false
	w.effects = nil
}

// ---------------------------------------------------------------------------

func extractUnmarshal(m *model.Msg) (*decModel, error) {
	fl := m.Unmarshal
	info := m.Pkg.Info
	dm := &decModel{Arms: map[int64]*decArm{}}
	w := &decWalker{m: m, info: info}
	dm.Walker = w
	w.reset()
	list := fl.Body.List
	var inputVar types.Object
	if len(fl.Type.Params.List) == 1 && len(fl.Type.Params.List[0].Names) == 1 {
		inputVar = info.ObjectOf(fl.Type.Params.List[0].Names[0])
	}
	var loop *ast.ForStmt
	pos := 0
	for ; pos < len(list); pos++ {
		s := list[pos]
		switch t := s.(type) {
		case *ast.AssignStmt:
			if t.Tok == token.DEFINE && len(t.Lhs) == 1 {
				id := t.Lhs[0].(*ast.Ident)
				rhs := ast.Unparen(t.Rhs[0])
				if ta, ok := rhs.(*ast.TypeAssertExpr); ok && strings.HasSuffix(types.ExprString(ta.X), ".Message.Interface()") {
					if pt, ok := info.TypeOf(ta.Type).(*types.Pointer); ok && types.Identical(pt.Elem(), m.Named) {
						w.msgV = info.ObjectOf(id)
						continue
					}
				}
				// out := protoiface.UnmarshalOutput{…: input.…}: the value every return hands back, built once
				if cl, ok := rhs.(*ast.CompositeLit); ok && isPkgSel(info, cl.Type, "google.golang.org/protobuf/runtime/protoiface", "UnmarshalOutput") {
					pure := true
					for _, e := range cl.Elts {
						kv, ok := e.(*ast.KeyValueExpr)
						if !ok {
							pure = false
							break
						}
						if sel, ok := ast.Unparen(kv.Value).(*ast.SelectorExpr); !ok || !w.is(sel.X, inputVar) {
							pure = false
						}
					}
					if pure {
						continue
					}
				}
				if call, ok := rhs.(*ast.CallExpr); ok {
					if core.QualName(core.CalleeObj(info, call)) == core.RepoModule+"/runtime.UnmarshalInputToOptions" && len(call.Args) == 1 && w.is(call.Args[0], inputVar) {
						w.opts = info.ObjectOf(id)
						dm.OptsOK = true
						continue
					}
					if b, ok := core.CalleeObj(info, call).(*types.Builtin); ok && b.Name() == "len" && w.is(call.Args[0], w.buf) {
						w.lVar = info.ObjectOf(id)
						continue
					}
				}
				if sel, ok := rhs.(*ast.SelectorExpr); ok && sel.Sel.Name == "Buf" && w.is(sel.X, inputVar) {
					w.buf = info.ObjectOf(id)
					continue
				}
				if k, ok := constInt(info, rhs); ok && k == 0 && w.lVar != nil {
					w.idx = info.ObjectOf(id)
					continue
				}
				// readVarint := func() (uint64, error) { var v uint64; <the varint reader, returning v> }: one reader shared
				// by every arm; a call reads one varint at the cursor exactly as the inline loop does
				if fl, ok := rhs.(*ast.FuncLit); ok && w.idx != nil && w.buf != nil && w.lVar != nil && w.readerClosure(fl) {
					if w.readers == nil {
						w.readers = map[types.Object]bool{}
					}
					w.readers[info.ObjectOf(id)] = true
					continue
				}
				// readLen := func() (int, error) { <length varint>; <the three guards>; return postIndex, nil }: one reader of
				// length prefixes shared by every length-delimited arm; a call leaves the cursor at the payload start and
				// returns the guarded payload end
				if fl, ok := rhs.(*ast.FuncLit); ok && w.idx != nil && w.buf != nil && w.lVar != nil {
					if lt, ok := w.lenReaderClosure(fl); ok {
						if w.lenReaders == nil {
							w.lenReaders = map[types.Object]string{}
						}
						w.lenReaders[info.ObjectOf(id)] = lt
						continue
					}
				}
			}
			if t.Tok == token.ASSIGN {
				if id, ok := t.Lhs[0].(*ast.Ident); ok && id.Name == "_" {
					continue
				}
			}
		case *ast.IfStmt:
			if be, ok := t.Cond.(*ast.BinaryExpr); ok && be.Op == token.EQL && w.is(be.X, w.msgV) && w.opts == nil {
				continue
			}
			// if err := runtime.<Helper>(input); err != nil { return …, err } with a helper that is the depth check
			if as, ok := t.Init.(*ast.AssignStmt); ok && as.Tok == token.DEFINE && len(as.Lhs) == 1 && len(as.Rhs) == 1 && t.Else == nil && w.opts == nil && w.isErrRet(t.Body) {
				if call, ok := ast.Unparen(as.Rhs[0]).(*ast.CallExpr); ok && len(call.Args) == 1 && w.is(call.Args[0], inputVar) && depthHelper(info, call) {
					eid, _ := as.Lhs[0].(*ast.Ident)
					rs := t.Body.List[0].(*ast.ReturnStmt)
					if eid != nil && types.ExprString(t.Cond) == eid.Name+" != nil" && types.ExprString(rs.Results[1]) == eid.Name {
						dm.HasDepth = true
						continue
					}
				}
			}
			// if input.Depth <= 0 { return …, err }
			if be, ok := t.Cond.(*ast.BinaryExpr); ok && be.Op == token.LEQ && isZero(info, be.Y) && w.isErrRet(t.Body) && t.Else == nil {
				if sel, ok := ast.Unparen(be.X).(*ast.SelectorExpr); ok && sel.Sel.Name == "Depth" && w.is(sel.X, inputVar) && w.opts == nil {
					dm.HasDepth = true
					continue
				}
			}
		case *ast.ForStmt:
			loop = t
		}
		if loop != nil {
			break
		}
		return nil, und("unmarshal prologue statement %s", nodeStr(s))
	}
	if loop == nil || w.msgV == nil || w.opts == nil || w.buf == nil || w.lVar == nil || w.idx == nil {
		return nil, und("unmarshal prologue not recognised")
	}
	if c, ok := loop.Cond.(*ast.BinaryExpr); !ok || c.Op != token.LSS || !w.is(c.X, w.idx) || !w.is(c.Y, w.lVar) || loop.Init != nil || loop.Post != nil {
		return nil, und("main decode loop is not `for iNdEx < l`")
	}
	// epilogue: if idx > l {ret EOF}; return …, nil
	rest := list[pos+1:]
	okEpi := len(rest) == 2
	if okEpi {
		is, ok := rest[0].(*ast.IfStmt)
		okEpi = ok && w.isErrRet(is.Body)
		if okEpi {
			be, ok := is.Cond.(*ast.BinaryExpr)
			okEpi = ok && be.Op == token.GTR && w.is(be.X, w.idx) && w.is(be.Y, w.lVar)
		}
		rs, ok := rest[1].(*ast.ReturnStmt)
		okEpi = okEpi && ok && len(rs.Results) == 2 && types.ExprString(rs.Results[1]) == "nil"
	}
	// the guard may be absent: every cursor update inside the loop keeps iNdEx <= l (BND.macro decides that arm by arm), so
	// the loop `for iNdEx < l` can only be left with iNdEx == l and the test after it never fires
	if !okEpi && len(rest) == 1 {
		if rs, ok := rest[0].(*ast.ReturnStmt); ok && len(rs.Results) == 2 && types.ExprString(rs.Results[1]) == "nil" {
			okEpi = true
		}
	}
	if !okEpi {
		dm.Problems = append(dm.Problems, "epilogue is not `if iNdEx > l { return …, io.ErrUnexpectedEOF }; return …, nil`")
	}
	// loop body: preIndex := idx; var wire; varint; fieldNum; wireType; guards; switch
	lb := w.fastTag(w.normVarint(loop.Body.List), 2)
	bi := 0
	next := func() ast.Stmt {
		if bi < len(lb) {
			s := lb[bi]
			bi++
			return s
		}
		return nil
	}
	if as, ok := next().(*ast.AssignStmt); ok && as.Tok == token.DEFINE && w.is(as.Rhs[0], w.idx) {
		w.pre = info.ObjectOf(as.Lhs[0].(*ast.Ident))
	} else {
		return nil, und("decode loop does not start with preIndex := iNdEx")
	}
	if n, ok := w.readerCall(lb, bi); ok && bi+n < len(lb) {
		// u, err := readVarint(); if err != nil {…}; wire := u
		uObj := info.ObjectOf(lb[bi].(*ast.AssignStmt).Lhs[0].(*ast.Ident))
		bi += n
		as, isAs := next().(*ast.AssignStmt)
		if !isAs || as.Tok != token.DEFINE || len(as.Lhs) != 1 || len(as.Rhs) != 1 || !w.is(as.Rhs[0], uObj) {
			return nil, und("decode loop: the tag read by the shared reader is not bound to the tag variable")
		}
		w.wire = info.ObjectOf(as.Lhs[0].(*ast.Ident))
		w.vals[w.wire] = "varint[uint64]"
	} else if d, ok := next().(*ast.DeclStmt); ok {
		w.wire = info.ObjectOf(d.Decl.(*ast.GenDecl).Specs[0].(*ast.ValueSpec).Names[0])
		w.vals[w.wire] = "0"
		if fl2, ok := next().(*ast.ForStmt); ok {
			acc, T, ok := w.varintLoop(fl2)
			if !ok || !w.is(acc, w.wire) || basicKind(T) != types.Uint64 {
				return nil, und("decode loop: tag is not read by the standard varint reader into a zeroed uint64")
			}
		} else {
			return nil, und("decode loop: tag read")
		}
	} else {
		return nil, und("decode loop: tag variable")
	}
	for k := 0; k < 2; k++ {
		as, ok := next().(*ast.AssignStmt)
		if !ok || as.Tok != token.DEFINE {
			return nil, und("decode loop: fieldNum / wireType")
		}
		rs := types.ExprString(as.Rhs[0])
		switch rs {
		case "int32(" + w.wire.Name() + " >> 3)":
			w.fnum = info.ObjectOf(as.Lhs[0].(*ast.Ident))
		case "int(" + w.wire.Name() + " & 0x7)", "int(" + w.wire.Name() + " & 7)",
			// the same three bits as a protowire.Type (an int8): every wire type 0..7 fits, comparisons with the named
			// constants are comparisons with their numbers
			"protowire.Type(" + w.wire.Name() + " & 0x7)", "protowire.Type(" + w.wire.Name() + " & 7)":
			w.wt = info.ObjectOf(as.Lhs[0].(*ast.Ident))
		default:
			return nil, und("decode loop: %s", rs)
		}
	}
	if w.fnum == nil || w.wt == nil {
		return nil, und("decode loop: fieldNum / wireType not both derived from the tag")
	}
	var sw *ast.SwitchStmt
	for s := next(); s != nil; s = next() {
		switch t := s.(type) {
		case *ast.IfStmt:
			if !w.isErrRet(t.Body) {
				return nil, und("decode loop guard %s", nodeStr(t.Cond))
			}
			cs := types.ExprString(t.Cond)
			isEndGroup := false
			if be, ok := ast.Unparen(t.Cond).(*ast.BinaryExpr); ok && be.Op == token.EQL && w.is(be.X, w.wt) {
				if k, ok := constInt(info, be.Y); ok && k == 4 { // also by its name, protowire.EndGroupType
					isEndGroup = true
				}
			}
			if isEndGroup {
				dm.HasEndGroup = true
			} else if cs == w.fnum.Name()+" <= 0" {
				dm.HasBadTag = true
			} else {
				return nil, und("decode loop guard %s", cs)
			}
		case *ast.SwitchStmt:
			sw = t
		default:
			return nil, und("decode loop statement %s", nodeStr(s))
		}
	}
	if sw == nil || !w.is(sw.Tag, w.fnum) {
		return nil, und("decode loop has no switch on the field number")
	}
	for _, cs := range sw.Body.List {
		cc := cs.(*ast.CaseClause)
		if cc.List == nil {
			dm.Default = w.unknownArm(cc)
			continue
		}
		if len(cc.List) != 1 {
			return nil, und("case with several field numbers")
		}
		num, ok := constInt(info, cc.List[0])
		if !ok {
			return nil, und("case label")
		}
		arm := &decArm{Num: num, Pos: cc.Pos()}
		if err := w.arm(cc.Body, arm); err != nil {
			return nil, wrapPos(m, cc.Pos(), fmt.Errorf("case %d: %w", num, err))
		}
		if _, dup := dm.Arms[num]; dup {
			dm.Problems = append(dm.Problems, fmt.Sprintf("duplicate case %d", num))
		}
		dm.Arms[num] = arm
		dm.Order = append(dm.Order, num)
	}
	return dm, nil
}

// arm interprets one case body: wire-type dispatch + alternatives.
func (w *decWalker) arm(body []ast.Stmt, arm *decArm) error {
	info := w.info
	if len(body) == 0 {
		return und("empty case")
	}
	// arm-local closures `name := func() error { …; return nil }` (an element decoder shared by the packed and the
	// unpacked alternative): each call `if err := name(); err != nil { return …, err }` is interpreted as the body
	for len(body) > 1 {
		as, isAs := body[0].(*ast.AssignStmt)
		if !isAs || as.Tok != token.DEFINE || len(as.Lhs) != 1 || len(as.Rhs) != 1 {
			break
		}
		fl, isLit := as.Rhs[0].(*ast.FuncLit)
		if !isLit || (fl.Type.Params != nil && len(fl.Type.Params.List) != 0) || fl.Type.Results == nil || len(fl.Type.Results.List) != 1 ||
			info.TypeOf(fl.Type.Results.List[0].Type).String() != "error" || len(fl.Body.List) == 0 {
			break
		}
		last, isRet := fl.Body.List[len(fl.Body.List)-1].(*ast.ReturnStmt)
		if !isRet || len(last.Results) != 1 || types.ExprString(last.Results[0]) != "nil" {
			break
		}
		if w.elemClosures == nil {
			w.elemClosures = map[types.Object]*ast.FuncLit{}
		}
		w.elemClosures[info.ObjectOf(as.Lhs[0].(*ast.Ident))] = fl
		body = body[1:]
	}
	first, ok := body[0].(*ast.IfStmt)
	if !ok {
		// form B written as `switch wireType { case K: … case 2: … default: return err }`
		if sw, isSw := body[0].(*ast.SwitchStmt); isSw && sw.Init == nil && sw.Tag != nil && w.is(sw.Tag, w.wt) {
			first = switchToIfChain(sw)
		}
		if first == nil {
			return fmt.Errorf("the arm does not start with a wire-type test")
		}
	}
	// form A: if wireType != K { return err } ; rest
	if be, ok := first.Cond.(*ast.BinaryExpr); ok && be.Op == token.NEQ && w.is(be.X, w.wt) && first.Else == nil {
		k, ok := constInt(info, be.Y)
		if !ok || !w.isErrRet(first.Body) {
			return fmt.Errorf("wire-type mismatch does not return an error")
		}
		w.reset()
		if err := w.stmts(body[1:]); err != nil {
			return err
		}
		arm.Alts = append(arm.Alts, decAlt{Wire: k, Effects: w.summary()})
		arm.Problem = append(arm.Problem, w.probs...)
		w.probs = nil
		arm.Reject = true
		return nil
	}
	// form C: if wireType != K1 && wireType != K2 { return err }; if wireType == K2 {packed} else {elem}
	if allowed, ok := w.wireGuardSet(first); ok && len(allowed) >= 2 && len(body) == 2 {
		if !w.isErrRet(first.Body) {
			return fmt.Errorf("wire-type mismatch does not return an error")
		}
		chain, isIf := body[1].(*ast.IfStmt)
		if !isIf || chain.Init != nil {
			return und("statements after the wire-type guard")
		}
		left := map[int64]bool{}
		for _, k := range allowed {
			left[k] = true
		}
		for cur := chain; cur != nil; {
			be, ok := ast.Unparen(cur.Cond).(*ast.BinaryExpr)
			if !ok || be.Op != token.EQL || !w.is(be.X, w.wt) {
				return und("wire-type dispatch condition %s", nodeStr(cur.Cond))
			}
			k, ok := constInt(info, be.Y)
			if !ok || !left[k] {
				return und("wire-type dispatch tests a type the guard does not admit")
			}
			delete(left, k)
			w.reset()
			if err := w.stmts(cur.Body.List); err != nil {
				return fmt.Errorf("wire type %d: %w", k, err)
			}
			arm.Alts = append(arm.Alts, decAlt{Wire: k, Effects: w.summary()})
			arm.Problem = append(arm.Problem, w.probs...)
			w.probs = nil
			switch e := cur.Else.(type) {
			case *ast.IfStmt:
				cur = e
			case *ast.BlockStmt:
				// the remaining admitted wire type
				if len(left) != 1 {
					return und("else arm of the wire-type dispatch covers %d admitted types", len(left))
				}
				for k2 := range left {
					w.reset()
					if err := w.stmts(e.List); err != nil {
						return fmt.Errorf("wire type %d: %w", k2, err)
					}
					arm.Alts = append(arm.Alts, decAlt{Wire: k2, Effects: w.summary()})
					arm.Problem = append(arm.Problem, w.probs...)
					w.probs = nil
					delete(left, k2)
				}
				cur = nil
			default:
				cur = nil
			}
		}
		if len(left) != 0 {
			return und("an admitted wire type has no decoding arm")
		}
		arm.Reject = true
		return nil
	}
	// form B: if wireType == K {elem} else if wireType == 2 {packed} else {return err}
	if len(body) != 1 {
		return und("statements after the wire-type dispatch")
	}
	for cur := first; cur != nil; {
		be, ok := cur.Cond.(*ast.BinaryExpr)
		if !ok || be.Op != token.EQL || !w.is(be.X, w.wt) {
			return und("wire-type dispatch condition %s", nodeStr(cur.Cond))
		}
		k, ok := constInt(info, be.Y)
		if !ok {
			return und("wire-type constant")
		}
		w.reset()
		if err := w.stmts(cur.Body.List); err != nil {
			return fmt.Errorf("wire type %d: %w", k, err)
		}
		arm.Alts = append(arm.Alts, decAlt{Wire: k, Effects: w.summary()})
		arm.Problem = append(arm.Problem, w.probs...)
		w.probs = nil
		switch e := cur.Else.(type) {
		case *ast.IfStmt:
			cur = e
		case *ast.BlockStmt:
			arm.Reject = w.isErrRet(e)
			cur = nil
		default:
			cur = nil
		}
	}
	return nil
}

// wireGuardSet: `if wireType != K1 && wireType != K2 … { … }` (no else, no init) — the wire types the guard admits.
func (w *decWalker) wireGuardSet(is *ast.IfStmt) ([]int64, bool) {
	if is.Init != nil || is.Else != nil {
		return nil, false
	}
	var out []int64
	var walk func(x ast.Expr) bool
	walk = func(x ast.Expr) bool {
		be, ok := ast.Unparen(x).(*ast.BinaryExpr)
		if !ok {
			return false
		}
		if be.Op == token.LAND {
			return walk(be.X) && walk(be.Y)
		}
		if be.Op != token.NEQ || !w.is(be.X, w.wt) {
			return false
		}
		k, ok := constInt(w.info, be.Y)
		if !ok {
			return false
		}
		out = append(out, k)
		return true
	}
	if !walk(is.Cond) {
		return nil, false
	}
	return out, true
}

// unknownArm checks the default arm (UNK rules).
func (w *decWalker) unknownArm(cc *ast.CaseClause) *unkSummary {
	info := w.info
	u := &unkSummary{Pos: cc.Pos()}
	b := cc.Body
	bad := func(f string, a ...interface{}) *unkSummary {
		u.Problems = append(u.Problems, fmt.Sprintf(f, a...))
		return u
	}
	// optional local for the record end: end := iNdEx + skippy (after the Skip error check)
	var endObj types.Object
	if len(b) == 8 {
		if as, ok := b[3].(*ast.AssignStmt); ok && as.Tok == token.DEFINE && len(as.Lhs) == 1 && len(as.Rhs) == 1 {
			if a1x, ok := b[1].(*ast.AssignStmt); ok && len(a1x.Lhs) == 2 {
				skx := info.ObjectOf(a1x.Lhs[0].(*ast.Ident))
				if be, ok := ast.Unparen(as.Rhs[0]).(*ast.BinaryExpr); ok && be.Op == token.ADD && ((w.is(be.X, w.idx) && w.is(be.Y, skx)) || (w.is(be.X, skx) && w.is(be.Y, w.idx))) {
					endObj = info.ObjectOf(as.Lhs[0].(*ast.Ident))
					b = append(append([]ast.Stmt{}, b[:3]...), b[4:]...)
				}
			}
		}
	}
	if len(b) != 7 {
		return bad("default arm has %d statements, expected: rewind, Skip, three guards, conditional append, advance", len(cc.Body))
	}
	a0, ok := b[0].(*ast.AssignStmt)
	if !ok || a0.Tok != token.ASSIGN || !w.is(a0.Lhs[0], w.idx) || !w.is(a0.Rhs[0], w.pre) {
		return bad("default arm does not rewind the cursor to the start of the record (iNdEx = preIndex)")
	}
	a1, ok := b[1].(*ast.AssignStmt)
	if !ok || len(a1.Lhs) != 2 || len(a1.Rhs) != 1 {
		return bad("default arm: Skip call")
	}
	call, ok := a1.Rhs[0].(*ast.CallExpr)
	if !ok || core.QualName(core.CalleeObj(info, call)) != core.RepoModule+"/runtime.Skip" {
		return bad("default arm does not measure the record with runtime.Skip")
	}
	se, ok := ast.Unparen(call.Args[0]).(*ast.SliceExpr)
	if !ok || !w.is(se.X, w.buf) || !w.is(se.Low, w.idx) || se.High != nil {
		return bad("runtime.Skip is not given dAtA[iNdEx:]")
	}
	sk := info.ObjectOf(a1.Lhs[0].(*ast.Ident))
	errV := info.ObjectOf(a1.Lhs[1].(*ast.Ident))
	g0, ok := b[2].(*ast.IfStmt)
	if !ok || !w.isErrRet(g0.Body) || types.ExprString(g0.Cond) != errV.Name()+" != nil" {
		return bad("error of runtime.Skip is not returned")
	}
	if !w.skipGuardsAt(b[3], b[4], sk, w.lVar, w.idx, endObj) {
		return bad("default arm lacks the guards `if skippy < 0 || iNdEx+skippy < 0 { return error }` and `if iNdEx+skippy > l { return error }`: the slice dAtA[iNdEx:iNdEx+skippy] can be out of range")
	}
	// if !options.DiscardUnknown { x.unknownFields = append(x.unknownFields, dAtA[idx:idx+skippy]...) }
	cnd, ok := b[5].(*ast.IfStmt)
	if !ok || cnd.Else != nil || len(cnd.Body.List) < 1 || len(cnd.Body.List) > 2 {
		return bad("default arm does not keep the record under `if !options.DiscardUnknown`")
	}
	// optional local for the record: rec := dAtA[iNdEx:end]
	var recObj types.Object
	var recSlice *ast.SliceExpr
	keep := cnd.Body.List
	if len(keep) == 2 {
		ra, ok := keep[0].(*ast.AssignStmt)
		if !ok || ra.Tok != token.DEFINE || len(ra.Lhs) != 1 || len(ra.Rhs) != 1 {
			return bad("default arm: statements under `if !options.DiscardUnknown`")
		}
		recSlice, _ = ast.Unparen(ra.Rhs[0]).(*ast.SliceExpr)
		if recSlice == nil {
			return bad("default arm: statements under `if !options.DiscardUnknown`")
		}
		recObj = info.ObjectOf(ra.Lhs[0].(*ast.Ident))
		keep = keep[1:]
	}
	ue, ok := ast.Unparen(cnd.Cond).(*ast.UnaryExpr)
	if !ok || ue.Op != token.NOT {
		return bad("unknown record is kept under condition %s, expected !options.DiscardUnknown", nodeStr(cnd.Cond))
	}
	sel, ok := ast.Unparen(ue.X).(*ast.SelectorExpr)
	if !ok || sel.Sel.Name != "DiscardUnknown" || !w.is(sel.X, w.opts) {
		return bad("unknown record is kept under condition %s, expected !options.DiscardUnknown", nodeStr(cnd.Cond))
	}
	as, ok := keep[0].(*ast.AssignStmt)
	if !ok || as.Tok != token.ASSIGN {
		return bad("default arm: append form")
	}
	l, _, err := w.lval(as.Lhs[0])
	if err != nil || l != "x.unknownFields" {
		return bad("unknown record is stored into %s, not x.unknownFields", nodeStr(as.Lhs[0]))
	}
	ap, ok := as.Rhs[0].(*ast.CallExpr)
	if !ok || len(ap.Args) != 2 || !ap.Ellipsis.IsValid() {
		return bad("unknown record is not appended (copied) with append(x.unknownFields, …...)")
	}
	if bi, ok := core.CalleeObj(info, ap).(*types.Builtin); !ok || bi.Name() != "append" {
		return bad("unknown record is not appended")
	}
	if l0, _, err := w.lval(ap.Args[0]); err != nil || l0 != "x.unknownFields" {
		return bad("append target is not x.unknownFields (arrival order would be lost)")
	}
	rs, ok := ast.Unparen(ap.Args[1]).(*ast.SliceExpr)
	if !ok && recObj != nil && w.is(ap.Args[1], recObj) {
		rs, ok = recSlice, true
	}
	if !ok || !w.is(rs.X, w.buf) || !w.is(rs.Low, w.idx) || rs.Max != nil {
		return bad("appended bytes do not start at the record start")
	}
	isEnd := func(x ast.Expr) bool {
		if endObj != nil && w.is(x, endObj) {
			return true
		}
		hb, ok := ast.Unparen(x).(*ast.BinaryExpr)
		return ok && hb.Op == token.ADD && ((w.is(hb.X, w.idx) && w.is(hb.Y, sk)) || (w.is(hb.X, sk) && w.is(hb.Y, w.idx)))
	}
	if !isEnd(rs.High) {
		return bad("appended bytes are not exactly dAtA[iNdEx:iNdEx+skippy]")
	}
	adv, ok := b[6].(*ast.AssignStmt)
	if !ok || len(adv.Lhs) != 1 || len(adv.Rhs) != 1 || !w.is(adv.Lhs[0], w.idx) ||
		!((adv.Tok == token.ADD_ASSIGN && w.is(adv.Rhs[0], sk)) || (adv.Tok == token.ASSIGN && isEnd(adv.Rhs[0]))) {
		return bad("cursor does not advance by exactly the record length")
	}
	u.OK = true
	return u
}

// switchToIfChain rewrites `switch tag { case k: … default: … }` (single constant per case, no fallthrough, no
// unlabelled break belonging to the switch) into `if tag == k {…} else if … else {…}`; nil when it does not apply.
func switchToIfChain(sw *ast.SwitchStmt) *ast.IfStmt {
	var deflt *ast.CaseClause
	var cases []*ast.CaseClause
	for _, cs := range sw.Body.List {
		cc := cs.(*ast.CaseClause)
		if cc.List == nil {
			deflt = cc
			continue
		}
		if len(cc.List) != 1 {
			return nil
		}
		cases = append(cases, cc)
	}
	bad := false
	var scan func(n ast.Node)
	scan = func(n ast.Node) {
		ast.Inspect(n, func(x ast.Node) bool {
			switch t := x.(type) {
			case *ast.ForStmt, *ast.RangeStmt, *ast.SwitchStmt, *ast.TypeSwitchStmt, *ast.SelectStmt, *ast.FuncLit:
				return false // a break inside belongs to that statement
			case *ast.BranchStmt:
				if (t.Tok == token.BREAK && t.Label == nil) || t.Tok == token.FALLTHROUGH || t.Tok == token.GOTO {
					bad = true
				}
			}
			return true
		})
	}
	for _, cs := range sw.Body.List {
		for _, st := range cs.(*ast.CaseClause).Body {
			scan(st)
		}
	}
	if bad || len(cases) == 0 {
		return nil
	}
	var tail ast.Stmt
	if deflt != nil {
		tail = &ast.BlockStmt{List: deflt.Body}
	}
	var head *ast.IfStmt
	for i := len(cases) - 1; i >= 0; i-- {
		cc := cases[i]
		head = &ast.IfStmt{If: cc.Pos(), Cond: &ast.BinaryExpr{X: sw.Tag, Op: token.EQL, Y: cc.List[0]}, Body: &ast.BlockStmt{List: cc.Body}, Else: tail}
		tail = head
	}
	return head
}


// depthHelper: the callee is a function of the repository's runtime package whose whole body is
// `if <param>.Depth <= 0 { return <non-nil error> }; return nil`.
func depthHelper(info *types.Info, call *ast.CallExpr) bool {
	f, _ := core.CalleeObj(info, call).(*types.Func)
	if helperCtx == nil || f == nil || f.Pkg() == nil || f.Pkg().Path() != core.RepoModule+"/runtime" {
		return false
	}
	rp := helperCtx.Pkg("runtime")
	if rp == nil {
		return false
	}
	fd := core.FuncDecls(rp)[f.Name()]
	if fd == nil || fd.Body == nil || fd.Recv != nil || len(fd.Body.List) != 2 || len(fd.Type.Params.List) != 1 || len(fd.Type.Params.List[0].Names) != 1 {
		return false
	}
	pn := fd.Type.Params.List[0].Names[0].Name
	is, ok := fd.Body.List[0].(*ast.IfStmt)
	rs, ok2 := fd.Body.List[1].(*ast.ReturnStmt)
	if !ok || !ok2 || is.Init != nil || is.Else != nil || len(is.Body.List) != 1 || len(rs.Results) != 1 || types.ExprString(rs.Results[0]) != "nil" {
		return false
	}
	if types.ExprString(is.Cond) != pn+".Depth <= 0" {
		return false
	}
	er, ok := is.Body.List[0].(*ast.ReturnStmt)
	if !ok || len(er.Results) != 1 {
		return false
	}
	// the error returned is a package-level error variable (never nil)
	id, ok := ast.Unparen(er.Results[0]).(*ast.Ident)
	if !ok {
		return false
	}
	v, ok := rp.TypesInfo.Uses[id].(*types.Var)
	return ok && v.Parent() == rp.Types.Scope() && v.Type().String() == "error"
}
