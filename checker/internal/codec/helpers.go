package codec

import (
	"go/ast"
	"go/token"
	"go/types"
	"strings"

	"verif/checker/internal/core"
)

// Summaries of helpers of the repository's runtime package that generated code may call besides the confirmed ones
// (Sov, Soz, EncodeVarint, Skip, the option mappers): a helper whose whole body is
//
//	for _, v := range vs { n += Sov(uint64(v)) }   // or Soz
//	return n
//
// is the sum, over the elements of its argument, of the varint (or zig-zag varint) size of the element — the same
// quantity the emitted summing loop computes. The body is read from the working tree on every run; a helper of any
// other shape has no summary and the call stays undecided.

var helperCtx *core.Ctx

// sumHelper returns "Sov" or "Soz" if f is such a helper.
func sumHelper(f *types.Func) string {
	if helperCtx == nil || f == nil || f.Pkg() == nil || f.Pkg().Path() != core.RepoModule+"/runtime" {
		return ""
	}
	p := helperCtx.Pkg("runtime")
	if p == nil {
		return ""
	}
	for _, file := range p.Syntax {
		for _, d := range file.Decls {
			fd, ok := d.(*ast.FuncDecl)
			if !ok || fd.Body == nil || fd.Recv != nil || fd.Name.Name != f.Name() {
				continue
			}
			info := p.TypesInfo
			if len(fd.Type.Params.List) != 1 || len(fd.Type.Params.List[0].Names) != 1 || fd.Type.Results == nil || len(fd.Type.Results.List) != 1 {
				return ""
			}
			param := info.Defs[fd.Type.Params.List[0].Names[0]]
			if _, isSlice := param.Type().Underlying().(*types.Slice); !isSlice {
				return ""
			}
			var acc types.Object
			body := fd.Body.List
			if names := fd.Type.Results.List[0].Names; len(names) == 1 {
				acc = info.Defs[names[0]]
			} else if len(body) == 3 {
				// var n int / n := 0
				switch t := body[0].(type) {
				case *ast.DeclStmt:
					if gd, ok := t.Decl.(*ast.GenDecl); ok && gd.Tok == token.VAR && len(gd.Specs) == 1 {
						if vs := gd.Specs[0].(*ast.ValueSpec); len(vs.Names) == 1 && len(vs.Values) == 0 {
							acc = info.Defs[vs.Names[0]]
						}
					}
				case *ast.AssignStmt:
					if t.Tok == token.DEFINE && len(t.Lhs) == 1 && len(t.Rhs) == 1 {
						if k, ok := constInt(info, t.Rhs[0]); ok && k == 0 {
							acc = info.Defs[t.Lhs[0].(*ast.Ident)]
						}
					}
				}
				body = body[1:]
			}
			if acc == nil || len(body) != 2 || basicKind(acc.Type()) != types.Int {
				return ""
			}
			rs, ok := body[0].(*ast.RangeStmt)
			ret, ok2 := body[1].(*ast.ReturnStmt)
			if !ok || !ok2 || len(ret.Results) != 1 || rs.Tok != token.DEFINE || len(rs.Body.List) != 1 {
				return ""
			}
			if id, ok := ast.Unparen(ret.Results[0]).(*ast.Ident); !ok || info.Uses[id] != acc {
				return ""
			}
			if id, ok := ast.Unparen(rs.X).(*ast.Ident); !ok || info.Uses[id] != param {
				return ""
			}
			if k, ok := rs.Key.(*ast.Ident); rs.Key != nil && (!ok || k.Name != "_") {
				return ""
			}
			ev, _ := rs.Value.(*ast.Ident)
			as, ok := rs.Body.List[0].(*ast.AssignStmt)
			if ev == nil || !ok || as.Tok != token.ADD_ASSIGN || len(as.Lhs) != 1 || len(as.Rhs) != 1 {
				return ""
			}
			if id, ok := as.Lhs[0].(*ast.Ident); !ok || info.Uses[id] != acc {
				return ""
			}
			call, ok := ast.Unparen(as.Rhs[0]).(*ast.CallExpr)
			if !ok || len(call.Args) != 1 {
				return ""
			}
			q := core.QualName(core.CalleeObj(info, call))
			conv, ok := ast.Unparen(call.Args[0]).(*ast.CallExpr)
			if !ok || len(conv.Args) != 1 {
				return ""
			}
			if tv, ok := info.Types[conv.Fun]; !ok || !tv.IsType() || basicKind(tv.Type) != types.Uint64 {
				return ""
			}
			if id, ok := ast.Unparen(conv.Args[0]).(*ast.Ident); !ok || info.Uses[id] != info.Defs[ev] {
				return ""
			}
			switch q {
			case core.RepoModule + "/runtime.Sov":
				return "Sov"
			case core.RepoModule + "/runtime.Soz":
				return "Soz"
			}
			return ""
		}
	}
	return ""
}

// helperSum evaluates a call of a summing helper at its call site: the element type is the argument's.
func helperSum(info *types.Info, call *ast.CallExpr, term func(ast.Expr) (string, error)) (Poly, bool, error) {
	f, _ := core.CalleeObj(info, call).(*types.Func)
	kind := sumHelper(f)
	if kind == "" || len(call.Args) != 1 {
		return nil, false, nil
	}
	st, ok := info.TypeOf(call.Args[0]).Underlying().(*types.Slice)
	if !ok {
		return nil, false, nil
	}
	coll, err := term(call.Args[0])
	if err != nil {
		return nil, true, err
	}
	val := convTerm(types.Typ[types.Uint64], st.Elem(), "elem("+coll+")")
	atom := "Sov(" + val + ")"
	if kind == "Soz" {
		if strings.HasPrefix(val, "sx(") {
			atom = "Sov(zz(" + val[3:len(val)-1] + "))"
		} else {
			atom = "Sov(zz64(" + val + "))"
		}
	}
	return pAtom("sum(" + coll + "){" + atom + "}"), true, nil
}

// capHelper: f is a function of the runtime package func(s []T, n int) []T that hands back its first argument with the
// same length and elements and at most more capacity — every statement is an `if` over side-effect-free conditions or a
// `return`, and every returned value is s itself, s[:len(s)], or append(s, …)[:len(s)] (what slices.Grow does). The
// amount it may allocate is its second argument plus what append's amortised growth adds.
func capHelper(f *types.Func) bool {
	if helperCtx == nil || f == nil || f.Pkg() == nil || f.Pkg().Path() != core.RepoModule+"/runtime" {
		return false
	}
	p := helperCtx.Pkg("runtime")
	if p == nil {
		return false
	}
	for _, file := range p.Syntax {
		for _, d := range file.Decls {
			fd, ok := d.(*ast.FuncDecl)
			if !ok || fd.Body == nil || fd.Recv != nil || fd.Name.Name != f.Name() {
				continue
			}
			info := p.TypesInfo
			var params []types.Object
			for _, fl := range fd.Type.Params.List {
				for _, n := range fl.Names {
					params = append(params, info.Defs[n])
				}
			}
			if len(params) != 2 || fd.Type.Results == nil || len(fd.Type.Results.List) != 1 || len(fd.Type.Results.List[0].Names) != 0 {
				return false
			}
			s := params[0]
			if _, isSlice := s.Type().Underlying().(*types.Slice); !isSlice || basicKind(params[1].Type()) != types.Int {
				return false
			}
			isS := func(x ast.Expr) bool {
				id, ok := ast.Unparen(x).(*ast.Ident)
				return ok && info.Uses[id] == s
			}
			lenS := func(x ast.Expr) bool {
				c, ok := ast.Unparen(x).(*ast.CallExpr)
				if !ok || len(c.Args) != 1 || !isS(c.Args[0]) {
					return false
				}
				b, ok := core.CalleeObj(info, c).(*types.Builtin)
				return ok && b.Name() == "len"
			}
			pure := func(x ast.Expr) bool {
				ok := true
				ast.Inspect(x, func(n ast.Node) bool {
					if c, isC := n.(*ast.CallExpr); isC {
						if b, isB := core.CalleeObj(info, c).(*types.Builtin); !isB || (b.Name() != "len" && b.Name() != "cap") {
							ok = false
						}
					}
					return true
				})
				return ok
			}
			same := func(x ast.Expr) bool {
				x = ast.Unparen(x)
				if isS(x) {
					return true
				}
				se, ok := x.(*ast.SliceExpr)
				if !ok || se.Slice3 || se.Low != nil || !lenS(se.High) {
					return false
				}
				if isS(se.X) {
					return true
				}
				c, ok := ast.Unparen(se.X).(*ast.CallExpr)
				if !ok || len(c.Args) < 1 || !isS(c.Args[0]) {
					return false
				}
				b, ok := core.CalleeObj(info, c).(*types.Builtin)
				return ok && b.Name() == "append"
			}
			var okStmts func(list []ast.Stmt) bool
			okStmts = func(list []ast.Stmt) bool {
				for _, st := range list {
					switch t := st.(type) {
					case *ast.ReturnStmt:
						if len(t.Results) != 1 || !same(t.Results[0]) {
							return false
						}
					case *ast.IfStmt:
						if t.Init != nil || !pure(t.Cond) || !okStmts(t.Body.List) {
							return false
						}
						switch e := t.Else.(type) {
						case nil:
						case *ast.BlockStmt:
							if !okStmts(e.List) {
								return false
							}
						case *ast.IfStmt:
							if !okStmts([]ast.Stmt{e}) {
								return false
							}
						}
					default:
						return false
					}
				}
				return true
			}
			return okStmts(fd.Body.List)
		}
	}
	return false
}
