package codec

import (
	"regexp"
	"google.golang.org/protobuf/encoding/protowire"
	"fmt"
	"go/ast"
	"go/token"
	"go/types"
	"strings"

	"verif/checker/internal/core"
	"verif/checker/internal/model"
)

type sizeBlock struct {
	Kind string // "field" | "oneof" | "unknown"
	Str  string
	Pos  token.Pos
	Arms []encArm
	On   string
	IfForm bool // oneof written as guarded type assertions instead of a type switch
}

type sizeModel struct {
	Blocks   []*sizeBlock
	Problems []string
	OptsOK   bool
}

type sizeWalker struct {
	m     *model.Msg
	e     *env
	polys map[types.Object]Poly
	nVar  types.Object
	opts  types.Object
	funcs map[types.Object]*ast.FuncLit
	// entryReturns: the map entry closure being analysed returns the entry's size instead of adding it to n
	entryReturns bool
}

func (w *sizeWalker) isIdent(x ast.Expr, o types.Object) bool {
	id, ok := ast.Unparen(x).(*ast.Ident)
	return ok && o != nil && w.e.info.ObjectOf(id) == o
}

// poly evaluates an int expression of the size closure.
func (w *sizeWalker) poly(x ast.Expr) (Poly, error) {
	info := w.e.info
	x = ast.Unparen(x)
	if k, ok := constInt(info, x); ok {
		return pConst(k), nil
	}
	switch t := x.(type) {
	case *ast.Ident:
		if p, ok := w.polys[info.ObjectOf(t)]; ok {
			return p, nil
		}
		return nil, und("int variable %s has no value", t.Name)
	case *ast.BinaryExpr:
		switch t.Op {
		case token.ADD:
			l, err := w.poly(t.X)
			if err != nil {
				return nil, err
			}
			r, err := w.poly(t.Y)
			if err != nil {
				return nil, err
			}
			return l.add(r), nil
		case token.MUL:
			if k, ok := constInt(info, t.Y); ok {
				l, err := w.poly(t.X)
				if err != nil {
					return nil, err
				}
				return l.scale(k), nil
			}
			if k, ok := constInt(info, t.X); ok {
				r, err := w.poly(t.Y)
				if err != nil {
					return nil, err
				}
				return r.scale(k), nil
			}
		}
		return nil, und("size arithmetic %s", nodeStr(x))
	case *ast.CallExpr:
		obj := core.CalleeObj(info, t)
		if b, ok := obj.(*types.Builtin); ok && b.Name() == "len" {
			s, err := w.e.term(t.Args[0])
			if err != nil {
				return nil, err
			}
			return pAtom("len(" + s + ")"), nil
		}
		q := core.QualName(obj)
		switch q {
		case core.RepoModule + "/runtime.Sov", core.RepoModule + "/runtime.Soz":
			arg := ast.Unparen(t.Args[0])
			if conv, ok := arg.(*ast.CallExpr); ok && len(conv.Args) == 1 {
				if tv, ok := info.Types[conv.Fun]; ok && tv.IsType() && basicKind(tv.Type) == types.Uint64 {
					if st := info.TypeOf(conv.Args[0]); st != nil && basicKind(st) == types.Int {
						if strings.HasSuffix(q, "Soz") {
							return nil, fmt.Errorf("zig-zag size of a length")
						}
						p, err := w.poly(conv.Args[0])
						if err != nil {
							return nil, err
						}
						return pAtom("Sov(nat(" + p.String() + "))"), nil
					}
				}
			}
			s, err := w.e.term(t)
			if err != nil {
				return nil, err
			}
			return pAtom(s), nil
		case "google.golang.org/protobuf/proto.MarshalOptions.Size":
			sel := t.Fun.(*ast.SelectorExpr)
			if !w.isIdent(sel.X, w.opts) {
				return nil, fmt.Errorf("nested size is computed with %s, not with the closure's options", types.ExprString(sel.X))
			}
			s, err := w.e.term(t.Args[0])
			if err != nil {
				return nil, err
			}
			return pAtom("Size(" + s + ")"), nil
		}
		if p, is, err := helperSum(info, t, w.e.term); is {
			return p, err
		}
		switch q {
		case "google.golang.org/protobuf/encoding/protowire.SizeBytes":
			// SizeBytes(n) = SizeVarint(uint64(n)) + n
			if len(t.Args) == 1 {
				p, err := w.poly(t.Args[0])
				if err != nil {
					return nil, err
				}
				return p.add(pAtom("Sov(nat(" + p.String() + "))")), nil
			}
		case "google.golang.org/protobuf/encoding/protowire.SizeTag":
			if len(t.Args) == 1 {
				if k, ok := constInt(info, t.Args[0]); ok && k > 0 && k < 1<<29 {
					return pConst(int64(protowire.SizeTag(protowire.Number(k)))), nil
				}
			}
		case "google.golang.org/protobuf/encoding/protowire.SizeVarint":
			if len(t.Args) == 1 {
				// same quantity as runtime.Sov: evaluate as such
				arg := ast.Unparen(t.Args[0])
				if conv, ok := arg.(*ast.CallExpr); ok && len(conv.Args) == 1 {
					if tv, ok := info.Types[conv.Fun]; ok && tv.IsType() && basicKind(tv.Type) == types.Uint64 {
						if st := info.TypeOf(conv.Args[0]); st != nil && basicKind(st) == types.Int {
							p, err := w.poly(conv.Args[0])
							if err != nil {
								return nil, err
							}
							return pAtom("Sov(nat(" + p.String() + "))"), nil
						}
					}
				}
				a, err := w.e.term(t.Args[0])
				if err != nil {
					return nil, err
				}
				return pAtom("Sov(" + a + ")"), nil
			}
		}
		return nil, und("call %s in size arithmetic", q)
	}
	return nil, und("size expression %s", nodeStr(x))
}

// cond normalises a guard, substituting poly-valued locals (`l > 0` with l = len(x.F)).
func (w *sizeWalker) cond(x ast.Expr) (string, error) {
	x = ast.Unparen(x)
	if be, ok := x.(*ast.BinaryExpr); ok && (be.Op == token.GTR || be.Op == token.NEQ) {
		if id, ok := ast.Unparen(be.X).(*ast.Ident); ok {
			if p, ok := w.polys[w.e.info.ObjectOf(id)]; ok {
				if k, ok2 := constInt(w.e.info, be.Y); ok2 && k == 0 && len(p) == 1 {
					for a, c := range p {
						if c == 1 && strings.HasPrefix(a, "len(") {
							return "nonempty(" + a[4:len(a)-1] + ")", nil
						}
					}
				}
				return "", und("guard on %s = %s", id.Name, p)
			}
		}
	}
	return w.e.cond(x)
}

// exec runs statements; returns the Poly added to n by them.
func (w *sizeWalker) exec(list []ast.Stmt) (Poly, error) {
	info := w.e.info
	total := Poly{}
	for i := 0; i < len(list); i++ {
		s := list[i]
		switch t := s.(type) {
		case *ast.AssignStmt:
			if len(t.Lhs) != 1 || len(t.Rhs) != 1 {
				return nil, und("statement %s", nodeStr(s))
			}
			id, ok := t.Lhs[0].(*ast.Ident)
			if !ok {
				return nil, und("assignment target %s", nodeStr(s))
			}
			if id.Name == "_" {
				continue
			}
			obj := info.ObjectOf(id)
			if fl, ok := t.Rhs[0].(*ast.FuncLit); ok && t.Tok == token.DEFINE {
				w.funcs[obj] = fl
				continue
			}
			switch t.Tok {
			case token.ADD_ASSIGN:
				p, err := w.poly(t.Rhs[0])
				if err != nil {
					return nil, err
				}
				if obj == w.nVar {
					total = total.add(p)
				} else if cur, ok := w.polys[obj]; ok {
					w.polys[obj] = cur.add(p)
				} else {
					return nil, und("+= on %s", id.Name)
				}
			case token.ASSIGN, token.DEFINE:
				if obj == w.nVar {
					return nil, fmt.Errorf("n is overwritten (%s): earlier contributions are lost", nodeStr(s))
				}
				if basicKind(info.TypeOf(t.Rhs[0])) == types.Int {
					p, err := w.poly(t.Rhs[0])
					if err != nil {
						return nil, err
					}
					w.polys[obj] = p
				} else {
					v, err := w.e.term(t.Rhs[0])
					if err != nil {
						return nil, err
					}
					w.e.set(obj, v)
				}
			default:
				return nil, und("statement %s", nodeStr(s))
			}
		case *ast.RangeStmt:
			p, err := w.rangeLoop(t)
			if err != nil {
				return nil, err
			}
			total = total.add(p)
		case *ast.IfStmt:
			// A2 idiom: if v != nil { l = options.Size(v) } with l == 0 before
			if t.Else == nil && t.Init == nil && len(t.Body.List) == 1 {
				if as, ok := t.Body.List[0].(*ast.AssignStmt); ok && as.Tok == token.ASSIGN && len(as.Lhs) == 1 {
					if id, ok := as.Lhs[0].(*ast.Ident); ok {
						obj := info.ObjectOf(id)
						if cur, isPoly := w.polys[obj]; isPoly && obj != w.nVar {
							if c, ok := cur.isConst(); ok && c == 0 {
								cnd, err := w.e.cond(t.Cond)
								if err != nil {
									return nil, err
								}
								p, err := w.poly(as.Rhs[0])
								if err != nil {
									return nil, err
								}
								if strings.HasPrefix(cnd, "nonnil(") && p.String() == "Size("+cnd[7:len(cnd)-1]+")" {
									w.polys[obj] = p // Size(nil) = 0 (A2)
									continue
								}
							}
						}
					}
				}
			}
			return nil, und("nested if %s", nodeStr(t.Cond))
		case *ast.ReturnStmt:
			// the map entry closure hands its size back instead of adding it to n
			if w.entryReturns && i == len(list)-1 && len(t.Results) == 1 {
				p, err := w.poly(t.Results[0])
				if err != nil {
					return nil, err
				}
				return total.add(p), nil
			}
			return nil, und("statement %s", nodeStr(s))
		case *ast.ExprStmt:
			return nil, und("statement %s", nodeStr(s))
		default:
			return nil, und("statement %s", nodeStr(s))
		}
	}
	return total, nil
}

// rangeLoop: for _, e := range C { … }  — accumulations become sums over C.
func (w *sizeWalker) rangeLoop(rs *ast.RangeStmt) (Poly, error) {
	info := w.e.info
	coll, err := w.e.term(rs.X)
	if err != nil {
		return nil, err
	}
	if rs.Key != nil {
		if id, ok := rs.Key.(*ast.Ident); !ok || id.Name != "_" {
			return nil, und("range loop uses the index")
		}
	}
	ev, _ := rs.Value.(*ast.Ident)
	if ev == nil {
		return nil, und("range loop without element")
	}
	// accumulators other than n that are += in the body: snapshot and reset to 0
	saved := w.e
	w.e = w.e.child()
	w.e.set(info.ObjectOf(ev), "elem("+coll+")")
	accs := map[types.Object]Poly{}
	ast.Inspect(rs.Body, func(n ast.Node) bool {
		if as, ok := n.(*ast.AssignStmt); ok && as.Tok == token.ADD_ASSIGN {
			if id, ok := as.Lhs[0].(*ast.Ident); ok {
				o := info.ObjectOf(id)
				if o != w.nVar {
					if cur, ok := w.polys[o]; ok {
						accs[o] = cur
					}
				}
			}
		}
		return true
	})
	for o := range accs {
		// an accumulator must not also be plainly assigned in the body
		w.polys[o] = Poly{}
	}
	body, err := w.exec(rs.Body.List)
	w.e = saved
	if err != nil {
		return nil, err
	}
	wrap := func(p Poly) Poly { return pSum(coll, p) }
	for o, before := range accs {
		w.polys[o] = before.add(wrap(w.polys[o]))
	}
	return wrap(body), nil
}

func extractSize(m *model.Msg) (*sizeModel, error) {
	fl := m.Size
	info := m.Pkg.Info
	sm := &sizeModel{}
	e := newEnv(m)
	w := &sizeWalker{m: m, e: e, polys: map[types.Object]Poly{}, funcs: map[types.Object]*ast.FuncLit{}}
	list := fl.Body.List
	var inputVar types.Object
	if len(fl.Type.Params.List) == 1 && len(fl.Type.Params.List[0].Names) == 1 {
		inputVar = info.ObjectOf(fl.Type.Params.List[0].Names[0])
	}
	pos := 0
	for ; pos < len(list); pos++ {
		s := list[pos]
		switch t := s.(type) {
		case *ast.AssignStmt:
			if t.Tok == token.DEFINE && len(t.Lhs) == 1 {
				id := t.Lhs[0].(*ast.Ident)
				rhs := ast.Unparen(t.Rhs[0])
				if ta, ok := rhs.(*ast.TypeAssertExpr); ok && strings.HasSuffix(types.ExprString(ta.X), ".Message.Interface()") {
					if pt, ok := info.TypeOf(ta.Type).(*types.Pointer); ok && types.Identical(pt.Elem(), m.Named) {
						e.msgVar = info.ObjectOf(id)
						continue
					}
				}
				if call, ok := rhs.(*ast.CallExpr); ok && core.QualName(core.CalleeObj(info, call)) == core.RepoModule+"/runtime.SizeInputToOptions" {
					if len(call.Args) == 1 && w.isIdent(call.Args[0], inputVar) {
						w.opts = info.ObjectOf(id)
						e.set(w.opts, "options")
						sm.OptsOK = true
						continue
					}
				}
			}
			if t.Tok == token.ASSIGN {
				if id, ok := t.Lhs[0].(*ast.Ident); ok && id.Name == "_" {
					continue
				}
			}
		case *ast.DeclStmt:
			if gd, ok := t.Decl.(*ast.GenDecl); ok && gd.Tok == token.VAR {
				vs := gd.Specs[0].(*ast.ValueSpec)
				if len(vs.Names) == 1 && len(vs.Values) == 0 && basicKind(info.TypeOf(vs.Type)) == types.Int {
					o := info.ObjectOf(vs.Names[0])
					if w.nVar == nil {
						w.nVar = o
					} else {
						w.polys[o] = Poly{}
					}
					continue
				}
			}
		case *ast.IfStmt:
			if c, err := e.cond(t.Cond); err == nil && c == "isnil(x)" && w.nVar == nil {
				okRet := false
				if len(t.Body.List) == 1 {
					if rs, ok := t.Body.List[0].(*ast.ReturnStmt); ok && len(rs.Results) == 1 {
						if cl, ok := rs.Results[0].(*ast.CompositeLit); ok {
							for _, el := range cl.Elts {
								if kv, ok := el.(*ast.KeyValueExpr); ok && types.ExprString(kv.Key) == "Size" {
									if k, ok := constInt(info, kv.Value); ok && k == 0 {
										okRet = true
									}
								}
							}
						}
					}
				}
				if !okRet {
					sm.Problems = append(sm.Problems, "nil message early return does not report Size 0")
				}
				continue
			}
		}
		break
	}
	if e.msgVar == nil || w.opts == nil || w.nVar == nil {
		return nil, und("size prologue not recognised")
	}
	// body
	for ; pos < len(list); pos++ {
		s := list[pos]
		switch t := s.(type) {
		case *ast.ReturnStmt:
			okRet := false
			if len(t.Results) == 1 {
				if cl, ok := t.Results[0].(*ast.CompositeLit); ok {
					for _, el := range cl.Elts {
						if kv, ok := el.(*ast.KeyValueExpr); ok && types.ExprString(kv.Key) == "Size" && w.isIdent(kv.Value, w.nVar) {
							okRet = true
						}
					}
				}
			}
			if !okRet || pos != len(list)-1 {
				sm.Problems = append(sm.Problems, "final return does not report Size: n")
			}
		case *ast.AssignStmt:
			// top-level scratch assignment: l = len(x.F); or the unknown bytes counted without a guard
			// (len of a nil slice is 0, so `n += len(x.unknownFields)` equals the guarded form)
			pl, err := w.exec([]ast.Stmt{t})
			if err != nil {
				return nil, wrapPos(m, t.Pos(), err)
			}
			if pl.String() == "len(x.unknownFields)" {
				sm.Blocks = append(sm.Blocks, &sizeBlock{Kind: "unknown", Str: "if(nonnil(x.unknownFields)){len(x.unknownFields)}", Pos: t.Pos()})
			} else if mm := bareLenRe.FindStringSubmatch(pl.String()); mm != nil {
				// k*len(x.F) added without a guard: 0 for the empty list, so it equals the guarded form
				sm.Blocks = append(sm.Blocks, &sizeBlock{Kind: "field", Str: "if(nonempty(" + mm[1] + ")){" + pl.String() + "}", Pos: t.Pos()})
			}
		case *ast.IfStmt:
			// a oneof member as `if v, ok := x.O.(*W); ok && v != nil { … }`: consecutive ones over the same oneof form one block
			if onX, wrapper, vObj, isArm := oneofIfArm(w.e.info, t); isArm {
				on, err := w.e.term(onX)
				if err != nil {
					return nil, wrapPos(m, t.Pos(), err)
				}
				arm := encArm{Wrapper: wrapper, Pos: t.Pos(), NilGuard: true}
				saved := w.e
				w.e = w.e.child()
				w.e.set(vObj, "w")
				p, err := w.exec(t.Body.List)
				w.e = saved
				if err != nil {
					return nil, wrapPos(m, t.Pos(), err)
				}
				arm.Str = p.String()
				if n := len(sm.Blocks); n > 0 && sm.Blocks[n-1].Kind == "oneof" && sm.Blocks[n-1].On == on && sm.Blocks[n-1].IfForm {
					sm.Blocks[n-1].Arms = append(sm.Blocks[n-1].Arms, arm)
				} else {
					sm.Blocks = append(sm.Blocks, &sizeBlock{Kind: "oneof", On: on, Pos: t.Pos(), Arms: []encArm{arm}, IfForm: true})
				}
				continue
			}
			if t.Init != nil || t.Else != nil {
				return nil, wrapPos(m, t.Pos(), und("top-level if form"))
			}
			c, err := w.cond(t.Cond)
			if err != nil {
				return nil, wrapPos(m, t.Pos(), err)
			}
			var p Poly
			if mp, err, isMap := w.mapBlock(t.Body.List); isMap {
				if err != nil {
					return nil, wrapPos(m, t.Pos(), err)
				}
				p = mp
			} else {
				p, err = w.exec(t.Body.List)
				if err != nil {
					return nil, wrapPos(m, t.Pos(), err)
				}
			}
			kind := "field"
			if c == "nonnil(x.unknownFields)" || c == "nonempty(x.unknownFields)" {
				// both guards only skip adding 0
				kind, c = "unknown", "nonnil(x.unknownFields)"
			}
			sm.Blocks = append(sm.Blocks, &sizeBlock{Kind: kind, Str: "if(" + c + "){" + p.String() + "}", Pos: t.Pos()})
		case *ast.TypeSwitchStmt:
			blk, err := w.oneofSwitch(t)
			if err != nil {
				return nil, wrapPos(m, t.Pos(), err)
			}
			sm.Blocks = append(sm.Blocks, blk)
		case *ast.RangeStmt:
			// an unpacked list summed by a bare loop: the sum over an empty list is 0, so it equals the loop wrapped in
			// `if len(x.F) > 0 { … }`
			coll, err := w.e.term(t.X)
			if err != nil {
				return nil, wrapPos(m, t.Pos(), err)
			}
			p, err := w.exec([]ast.Stmt{t})
			if err != nil {
				return nil, wrapPos(m, t.Pos(), err)
			}
			sm.Blocks = append(sm.Blocks, &sizeBlock{Kind: "field", Str: "if(nonempty(" + coll + ")){" + p.String() + "}", Pos: t.Pos()})
		default:
			return nil, wrapPos(m, s.Pos(), und("top-level statement %s", nodeStr(s)))
		}
	}
	return sm, nil
}

func (w *sizeWalker) oneofSwitch(ts *ast.TypeSwitchStmt) (*sizeBlock, error) {
	info := w.e.info
	as, ok := ts.Assign.(*ast.AssignStmt)
	if !ok || len(as.Rhs) != 1 {
		return nil, und("type switch without binding")
	}
	ta, ok := as.Rhs[0].(*ast.TypeAssertExpr)
	if !ok {
		return nil, und("type switch form")
	}
	on, err := w.e.term(ta.X)
	if err != nil {
		return nil, err
	}
	blk := &sizeBlock{Kind: "oneof", On: on, Pos: ts.Pos()}
	for _, cs := range ts.Body.List {
		cc := cs.(*ast.CaseClause)
		if len(cc.List) != 1 {
			return nil, und("oneof arm with %d types", len(cc.List))
		}
		pt, ok := info.TypeOf(cc.List[0]).(*types.Pointer)
		if !ok {
			return nil, und("oneof arm type")
		}
		named, _ := pt.Elem().(*types.Named)
		if named == nil {
			return nil, und("oneof arm type")
		}
		arm := encArm{Wrapper: named.Obj().Name(), Pos: cc.Pos()}
		saved := w.e
		w.e = w.e.child()
		if o := info.Implicits[cc]; o != nil {
			w.e.set(o, "w")
		}
		body := cc.Body
		if len(body) > 0 {
			if is, ok := body[0].(*ast.IfStmt); ok && is.Else == nil && len(is.Body.List) == 1 {
				if c, err := w.e.cond(is.Cond); err == nil && c == "isnil(w)" {
					if br, ok := is.Body.List[0].(*ast.BranchStmt); ok && br.Tok == token.BREAK {
						arm.NilGuard = true
						body = body[1:]
					}
				}
			}
		}
		// arms may be `l = len(w.F); n += …` (no guard inside oneofs)
		p, err := w.exec(body)
		w.e = saved
		if err != nil {
			return nil, wrapPos(w.m, cc.Pos(), err)
		}
		arm.Str = p.String()
		blk.Arms = append(blk.Arms, arm)
	}
	return blk, nil
}

// mapBlock of the size closure: entry := func(k, v) {…n += …}; if options.Deterministic {collect; [sort]; for k in keys {v := C[k]; entry(k,v)}} else {for k, v := range C {entry(k, v)}}
func (w *sizeWalker) mapBlock(list []ast.Stmt) (Poly, error, bool) {
	info := w.e.info
	if len(list) < 1 {
		return nil, nil, false
	}
	def, ok := list[0].(*ast.AssignStmt)
	if !ok || def.Tok != token.DEFINE || len(def.Lhs) != 1 || len(def.Rhs) != 1 {
		return nil, nil, false
	}
	fl, ok := def.Rhs[0].(*ast.FuncLit)
	if !ok {
		return nil, nil, false
	}
	if len(list) != 2 {
		return nil, und("map size block form"), true
	}
	fnObj := info.ObjectOf(def.Lhs[0].(*ast.Ident))
	var params []types.Object
	for _, f := range fl.Type.Params.List {
		for _, n := range f.Names {
			params = append(params, info.ObjectOf(n))
		}
	}
	if len(params) != 2 {
		return nil, und("map size closure must take (key, value)"), true
	}
	// the closure either adds the entry's size to n, or returns it (then every call site is `n += entry(k, v)`)
	w.entryReturns = false
	if fl.Type.Results != nil {
		if len(fl.Type.Results.List) != 1 || len(fl.Type.Results.List[0].Names) > 1 || basicKind(info.TypeOf(fl.Type.Results.List[0].Type)) != types.Int {
			return nil, und("map size closure result"), true
		}
		w.entryReturns = true
	}
	defer func() { w.entryReturns = false }()
	// the sum does not depend on the visiting order: a single `for k, v := range C { entry(k, v) }` is enough
	if rs, ok := list[1].(*ast.RangeStmt); ok {
		coll, err := w.e.term(rs.X)
		if err != nil {
			return nil, err, true
		}
		if t := info.TypeOf(rs.X); t == nil {
			return nil, und("range operand type"), true
		} else if _, isMap := t.Underlying().(*types.Map); !isMap {
			return nil, und("map size loop does not range over the map"), true
		}
		kv, _ := rs.Key.(*ast.Ident)
		vv, _ := rs.Value.(*ast.Ident)
		if kv == nil || vv == nil || len(rs.Body.List) != 1 {
			return nil, und("map size loop form"), true
		}
		if !w.isEntryCall(rs.Body.List[0], fnObj, info.ObjectOf(kv), info.ObjectOf(vv)) {
			return nil, fmt.Errorf("map size loop does not call the entry closure with (key, value)"), true
		}
		saved := w.e
		w.e = w.e.child()
		w.e.set(params[0], "key("+coll+")")
		w.e.set(params[1], "val("+coll+")")
		entry, err := w.exec(fl.Body.List)
		w.e = saved
		if err != nil {
			return nil, err, true
		}
		return pAtom("sum(" + coll + "){" + entry.String() + "}"), nil, true
	}
	is, ok := list[1].(*ast.IfStmt)
	if !ok || is.Else == nil {
		return nil, und("map size iteration form"), true
	}
	sel, ok := ast.Unparen(is.Cond).(*ast.SelectorExpr)
	if !ok || sel.Sel.Name != "Deterministic" || !w.isIdent(sel.X, w.opts) {
		return nil, und("map size iteration condition %s", nodeStr(is.Cond)), true
	}
	// else: for k, v := range C { entry(k, v) }
	eb, ok := is.Else.(*ast.BlockStmt)
	if !ok || len(eb.List) != 1 {
		return nil, und("map size else arm"), true
	}
	rs, ok := eb.List[0].(*ast.RangeStmt)
	if !ok {
		return nil, und("map size else arm is not a range"), true
	}
	coll, err := w.e.term(rs.X)
	if err != nil {
		return nil, err, true
	}
	kv, _ := rs.Key.(*ast.Ident)
	vv, _ := rs.Value.(*ast.Ident)
	if kv == nil || vv == nil || len(rs.Body.List) != 1 {
		return nil, und("map size else arm form"), true
	}
	if !w.isEntryCall(rs.Body.List[0], fnObj, info.ObjectOf(kv), info.ObjectOf(vv)) {
		return nil, fmt.Errorf("plain arm does not call the entry closure with (key, value)"), true
	}
	saved := w.e
	w.e = w.e.child()
	w.e.set(params[0], "key("+coll+")")
	w.e.set(params[1], "val("+coll+")")
	entry, err := w.exec(fl.Body.List)
	w.e = saved
	if err != nil {
		return nil, err, true
	}
	// then: keys collection and iteration
	tl := is.Body.List
	if len(tl) < 3 {
		return nil, und("map size deterministic arm form"), true
	}
	d, ok := tl[0].(*ast.AssignStmt)
	if !ok || d.Tok != token.DEFINE {
		return nil, und("map size deterministic arm: keys"), true
	}
	keys := info.ObjectOf(d.Lhs[0].(*ast.Ident))
	crs, ok := tl[1].(*ast.RangeStmt)
	if !ok || crs.Value != nil {
		return nil, und("map size deterministic arm: collection loop"), true
	}
	c2, err := w.e.term(crs.X)
	if err != nil {
		return nil, err, true
	}
	if c2 != coll {
		return nil, fmt.Errorf("deterministic arm sizes %s, plain arm sizes %s", c2, coll), true
	}
	ck, _ := crs.Key.(*ast.Ident)
	okCollect := false
	if ck != nil && len(crs.Body.List) == 1 {
		if ap, ok := crs.Body.List[0].(*ast.AssignStmt); ok && w.isIdent(ap.Lhs[0], keys) {
			if call, ok := ap.Rhs[0].(*ast.CallExpr); ok && len(call.Args) == 2 && w.isIdent(call.Args[0], keys) {
				a := ast.Unparen(call.Args[1])
				if cv, ok := a.(*ast.CallExpr); ok && len(cv.Args) == 1 {
					a = ast.Unparen(cv.Args[0])
				}
				if w.isIdent(a, info.ObjectOf(ck)) {
					okCollect = true
				}
			}
		}
	}
	if !okCollect {
		return nil, fmt.Errorf("deterministic arm does not collect every key"), true
	}
	lrs, ok := tl[len(tl)-1].(*ast.RangeStmt)
	if !ok || !w.isIdent(lrs.X, keys) || len(lrs.Body.List) != 2 {
		return nil, und("map size deterministic arm: iteration over the collected keys"), true
	}
	lk, _ := lrs.Value.(*ast.Ident)
	if lk == nil {
		return nil, und("map size deterministic arm: key variable"), true
	}
	vd, ok := lrs.Body.List[0].(*ast.AssignStmt)
	if !ok || vd.Tok != token.DEFINE {
		return nil, und("map size deterministic arm: value lookup"), true
	}
	ix, ok := ast.Unparen(vd.Rhs[0]).(*ast.IndexExpr)
	if !ok {
		return nil, und("map size deterministic arm: value lookup form"), true
	}
	b, err := w.e.term(ix.X)
	if err != nil || b != coll || !w.isIdent(ix.Index, info.ObjectOf(lk)) {
		return nil, fmt.Errorf("deterministic arm looks the value up in the wrong map or under the wrong key"), true
	}
	if !w.isEntryCall(lrs.Body.List[1], fnObj, info.ObjectOf(lk), info.ObjectOf(vd.Lhs[0].(*ast.Ident))) {
		return nil, fmt.Errorf("deterministic arm does not call the entry closure with (key, value)"), true
	}
	// middle statements may only sort the keys
	for _, s := range tl[2 : len(tl)-1] {
		es, ok := s.(*ast.ExprStmt)
		if !ok {
			return nil, und("map size deterministic arm: unexpected statement"), true
		}
		call, ok := es.X.(*ast.CallExpr)
		if !ok || !strings.HasPrefix(core.QualName(core.CalleeObj(info, call)), "sort.") && !strings.HasPrefix(core.QualName(core.CalleeObj(info, call)), "slices.") {
			return nil, und("map size deterministic arm: unexpected call"), true
		}
	}
	return pAtom("sum(" + coll + "){" + entry.String() + "}"), nil, true
}

// isEntryCall: `entry(k, v)` for a closure that adds to n itself, `n += entry(k, v)` for one that returns the entry's size.
func (w *sizeWalker) isEntryCall(s ast.Stmt, fn, k, v types.Object) bool {
	var x ast.Expr
	switch t := s.(type) {
	case *ast.ExprStmt:
		if w.entryReturns {
			return false // the returned size would be dropped
		}
		x = t.X
	case *ast.AssignStmt:
		if !w.entryReturns || t.Tok != token.ADD_ASSIGN || len(t.Lhs) != 1 || len(t.Rhs) != 1 || !w.isIdent(t.Lhs[0], w.nVar) {
			return false
		}
		x = t.Rhs[0]
	default:
		return false
	}
	call, ok := ast.Unparen(x).(*ast.CallExpr)
	return ok && w.isIdent(call.Fun, fn) && len(call.Args) == 2 && w.isIdent(call.Args[0], k) && w.isIdent(call.Args[1], v)
}

var bareLenRe = regexp.MustCompile(`^\d+\*len\((x\.\w+)\)$`)
