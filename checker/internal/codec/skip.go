package codec

import (
	"fmt"
	"go/ast"
	"go/token"
	"go/types"

	"verif/checker/internal/core"
)

// RunSkip decides the clauses of C15 about runtime.Skip:
//   - never panics: every index expression on the input is dominated by the
//     `iNdEx >= l` guard of its reader, and the cursor is non-negative at every
//     loop head (the `iNdEx < 0` overflow check follows every addition);
//   - progress: every iteration of the record loop consumes the tag (>= 1 byte);
//   - skip table: per wire type the cursor advances by exactly the payload
//     (varint: bytes up to the first < 0x80; 1: 8; 5: 4; 2: length; 3/4: depth +-1;
//     other: error) and the result is returned only at depth 0.
//
// The function is matched statement by statement (resolved objects, not names);
// any other statement is undecided.
func RunSkip(c *core.Ctx) {
	const src = "S0"
	p := c.Pkg("runtime")
	if p == nil {
		c.Fail("L.anchor", "runtime", "package not found", "", src)
		return
	}
	fd := core.FuncDecls(p)["Skip"]
	if fd == nil {
		c.Fail("L.anchor", "runtime.Skip", "function not found", "", src)
		return
	}
	info := p.TypesInfo
	pos := c.PosStr(p.Fset, fd.Pos())
	fail := func(rule, con, msg string, n ast.Node) {
		pp := pos
		if n != nil {
			pp = c.PosStr(p.Fset, n.Pos())
		}
		c.Fail(rule, "runtime.Skip "+con, msg, pp, src)
	}
	undecided := func(msg string, n ast.Node) {
		pp := pos
		if n != nil {
			pp = c.PosStr(p.Fset, n.Pos())
		}
		c.Undec("L.skip", "runtime.Skip structure", msg, pp, src)
	}
	is := func(x ast.Expr, o types.Object) bool {
		id, ok := ast.Unparen(x).(*ast.Ident)
		return ok && o != nil && info.ObjectOf(id) == o
	}
	isErrRet := func(b *ast.BlockStmt) bool {
		if b == nil || len(b.List) != 1 {
			return false
		}
		rs, ok := b.List[0].(*ast.ReturnStmt)
		if !ok || len(rs.Results) != 2 {
			return false
		}
		if k, ok := constInt(info, rs.Results[0]); !ok || k != 0 {
			return false
		}
		return types.ExprString(rs.Results[1]) != "nil"
	}
	if len(fd.Type.Params.List) != 1 || len(fd.Type.Params.List[0].Names) != 1 {
		undecided("signature", nil)
		return
	}
	buf := info.ObjectOf(fd.Type.Params.List[0].Names[0])
	body := fd.Body.List
	if len(body) != 5 {
		undecided(fmt.Sprintf("body has %d statements, expected: l, cursor, depth, record loop, final EOF return", len(body)), nil)
		return
	}
	var lVar, idx, depth types.Object
	for i := 0; i < 3; i++ {
		as, ok := body[i].(*ast.AssignStmt)
		if !ok || as.Tok != token.DEFINE || len(as.Lhs) != 1 {
			undecided("prologue statement", body[i])
			return
		}
		o := info.ObjectOf(as.Lhs[0].(*ast.Ident))
		rhs := ast.Unparen(as.Rhs[0])
		if call, ok := rhs.(*ast.CallExpr); ok {
			if b, ok := core.CalleeObj(info, call).(*types.Builtin); ok && b.Name() == "len" && is(call.Args[0], buf) {
				lVar = o
				continue
			}
		}
		if k, ok := constInt(info, rhs); ok && k == 0 {
			if idx == nil {
				idx = o
			} else {
				depth = o
			}
			continue
		}
		undecided("prologue statement", body[i])
		return
	}
	if lVar == nil || idx == nil || depth == nil {
		undecided("prologue must define l := len(dAtA), cursor := 0, depth := 0", nil)
		return
	}
	loop, ok := body[3].(*ast.ForStmt)
	if !ok || loop.Init != nil || loop.Post != nil {
		undecided("record loop form", body[3])
		return
	}
	if cnd, ok := loop.Cond.(*ast.BinaryExpr); !ok || cnd.Op != token.LSS || !is(cnd.X, idx) || !is(cnd.Y, lVar) {
		undecided("record loop condition is not cursor < l", loop)
		return
	}
	fin, ok := body[4].(*ast.ReturnStmt)
	c.Check(ok && len(fin.Results) == 2 && types.ExprString(fin.Results[1]) != "nil" && types.ExprString(fin.Results[0]) == "0", "L.skip", "runtime.Skip truncated input", "falling out of the record loop returns an error", "input that ends inside a record/group is not reported as an error", c.PosStr(p.Fset, body[4].Pos()), src)

	// varint reader matcher. kind: "acc" (accumulates into a variable) or "skip".
	type vr struct {
		acc  types.Object
		accT types.Type
	}
	matchVarint := func(fs *ast.ForStmt) (*vr, string) {
		init, ok := fs.Init.(*ast.AssignStmt)
		if !ok || init.Tok != token.DEFINE || len(init.Lhs) != 1 || fs.Cond != nil {
			return nil, "loop header"
		}
		shift := info.ObjectOf(init.Lhs[0].(*ast.Ident))
		if !isUnsigned(shift.Type()) {
			return nil, "shift counter must be unsigned"
		}
		post, ok := fs.Post.(*ast.AssignStmt)
		if !ok || post.Tok != token.ADD_ASSIGN || !is(post.Lhs[0], shift) {
			return nil, "loop post statement"
		}
		if k, ok := constInt(info, post.Rhs[0]); !ok || k != 7 {
			return nil, "shift step is not 7"
		}
		b := fs.Body.List
		if len(b) < 4 {
			return nil, "reader body"
		}
		g1, ok := b[0].(*ast.IfStmt)
		if !ok || !isErrRet(g1.Body) {
			return nil, "overflow guard"
		}
		if cc, ok := g1.Cond.(*ast.BinaryExpr); !ok || cc.Op != token.GEQ || !is(cc.X, shift) {
			return nil, "overflow guard"
		} else if k, ok := constInt(info, cc.Y); !ok || k != 64 {
			return nil, "overflow guard bound is not 64"
		}
		g2, ok := b[1].(*ast.IfStmt)
		if !ok || !isErrRet(g2.Body) {
			return nil, "bounds guard"
		}
		if cc, ok := g2.Cond.(*ast.BinaryExpr); !ok || cc.Op != token.GEQ || !is(cc.X, idx) || !is(cc.Y, lVar) {
			return nil, "bounds guard is not cursor >= l"
		}
		isBreakIf := func(s ast.Stmt, byteExpr func(ast.Expr) bool) bool {
			g, ok := s.(*ast.IfStmt)
			if !ok || g.Else != nil || len(g.Body.List) != 1 {
				return false
			}
			if br, ok := g.Body.List[0].(*ast.BranchStmt); !ok || br.Tok != token.BREAK {
				return false
			}
			cc, ok := g.Cond.(*ast.BinaryExpr)
			if !ok || cc.Op != token.LSS || !byteExpr(cc.X) {
				return false
			}
			k, ok := constInt(info, cc.Y)
			return ok && k == 0x80
		}
		// form "skip": idx++ ; if buf[idx-1] < 0x80 {break}
		if len(b) == 4 {
			inc, ok := b[2].(*ast.IncDecStmt)
			if ok && inc.Tok == token.INC && is(inc.X, idx) {
				if isBreakIf(b[3], func(x ast.Expr) bool {
					ie, ok := ast.Unparen(x).(*ast.IndexExpr)
					if !ok || !is(ie.X, buf) {
						return false
					}
					be, ok := ast.Unparen(ie.Index).(*ast.BinaryExpr)
					if !ok || be.Op != token.SUB || !is(be.X, idx) {
						return false
					}
					k, ok := constInt(info, be.Y)
					return ok && k == 1
				}) {
					return &vr{}, ""
				}
			}
			return nil, "skip-reader body"
		}
		if len(b) != 6 {
			return nil, "reader body"
		}
		d, ok := b[2].(*ast.AssignStmt)
		if !ok || d.Tok != token.DEFINE || len(d.Lhs) != 1 {
			return nil, "byte load"
		}
		bv := info.ObjectOf(d.Lhs[0].(*ast.Ident))
		ie, ok := ast.Unparen(d.Rhs[0]).(*ast.IndexExpr)
		if !ok || !is(ie.X, buf) || !is(ie.Index, idx) {
			return nil, "byte load is not dAtA[cursor]"
		}
		inc, ok := b[3].(*ast.IncDecStmt)
		if !ok || inc.Tok != token.INC || !is(inc.X, idx) {
			return nil, "cursor increment"
		}
		acc, ok := b[4].(*ast.AssignStmt)
		if !ok || acc.Tok != token.OR_ASSIGN || len(acc.Lhs) != 1 {
			return nil, "accumulation"
		}
		accID, ok := acc.Lhs[0].(*ast.Ident)
		if !ok {
			return nil, "accumulator"
		}
		shl, ok := ast.Unparen(acc.Rhs[0]).(*ast.BinaryExpr)
		if !ok || shl.Op != token.SHL || !is(shl.Y, shift) {
			return nil, "accumulation shift"
		}
		// T(b&0x7F) or (T(b) & 0x7F)
		seven := func(x ast.Expr) bool {
			x = ast.Unparen(x)
			if cv, ok := x.(*ast.CallExpr); ok && len(cv.Args) == 1 {
				if tv, ok := info.Types[cv.Fun]; ok && tv.IsType() {
					and, ok := ast.Unparen(cv.Args[0]).(*ast.BinaryExpr)
					if ok && and.Op == token.AND && is(and.X, bv) {
						k, ok := constInt(info, and.Y)
						return ok && k == 0x7f
					}
				}
				return false
			}
			if and, ok := x.(*ast.BinaryExpr); ok && and.Op == token.AND {
				if k, ok := constInt(info, and.Y); ok && k == 0x7f {
					if cv, ok := ast.Unparen(and.X).(*ast.CallExpr); ok && len(cv.Args) == 1 {
						if tv, ok := info.Types[cv.Fun]; ok && tv.IsType() {
							return is(cv.Args[0], bv)
						}
					}
				}
			}
			return false
		}
		if !seven(shl.X) {
			return nil, "accumulated value is not the low 7 bits of the byte"
		}
		if !isBreakIf(b[5], func(x ast.Expr) bool { return is(x, bv) }) {
			return nil, "termination test is not b < 0x80"
		}
		o := info.ObjectOf(accID)
		return &vr{acc: o, accT: o.Type()}, ""
	}

	lb := loop.Body.List
	if len(lb) != 6 {
		undecided(fmt.Sprintf("record loop body has %d statements, expected: tag var, tag reader, wireType, switch, overflow check, depth check", len(lb)), loop)
		return
	}
	d0, ok := lb[0].(*ast.DeclStmt)
	if !ok {
		undecided("tag variable declaration", lb[0])
		return
	}
	wire := info.ObjectOf(d0.Decl.(*ast.GenDecl).Specs[0].(*ast.ValueSpec).Names[0])
	tl, ok := lb[1].(*ast.ForStmt)
	if !ok {
		undecided("tag reader", lb[1])
		return
	}
	tv, why := matchVarint(tl)
	if tv == nil || tv.acc != wire || basicKind(tv.accT) != types.Uint64 {
		fail("L.skip", "tag reader", "the tag is not read by the guarded varint reader into a fresh uint64 ("+why+")", tl)
		return
	}
	c.Ok("L.skip", "runtime.Skip tag reader", "guarded varint reader (cursor >= l and shift >= 64 return errors; dAtA[cursor] is read only after the bounds guard); consumes >= 1 byte per record", c.PosStr(p.Fset, tl.Pos()), src)
	c.Ok("L.skip.progress", "runtime.Skip record loop", "every iteration consumes the tag (>= 1 byte) before anything else, the cursor never decreases", c.PosStr(p.Fset, loop.Pos()), src)
	wt, ok := lb[2].(*ast.AssignStmt)
	var wtObj types.Object
	if ok && wt.Tok == token.DEFINE {
		// wire & 7, possibly converted to some integer type (int, protowire.Type, ...)
		rhs := ast.Unparen(wt.Rhs[0])
		if call, ok := rhs.(*ast.CallExpr); ok && len(call.Args) == 1 {
			if tv, ok := info.Types[call.Fun]; ok && tv.IsType() {
				if b, ok := tv.Type.Underlying().(*types.Basic); ok && b.Info()&types.IsInteger != 0 {
					rhs = ast.Unparen(call.Args[0])
				}
			}
		}
		if be, ok := rhs.(*ast.BinaryExpr); ok && be.Op == token.AND {
			x, y := be.X, be.Y
			if _, isC := constInt(info, x); isC {
				x, y = y, x
			}
			if k, isC := constInt(info, y); isC && k == 7 && is(x, wire) {
				wtObj = info.ObjectOf(wt.Lhs[0].(*ast.Ident))
			}
		}
	}
	if wtObj == nil {
		fail("L.skip", "wire type", "wire type is not the low three bits of the tag", lb[2])
		return
	}
	sw, ok := lb[3].(*ast.SwitchStmt)
	if !ok || !is(sw.Tag, wtObj) {
		undecided("switch on the wire type", lb[3])
		return
	}
	seen := map[int64]bool{}
	hasDefault := false
	advConst := func(list []ast.Stmt, k int64) bool {
		if len(list) != 1 {
			return false
		}
		as, ok := list[0].(*ast.AssignStmt)
		if !ok || as.Tok != token.ADD_ASSIGN || !is(as.Lhs[0], idx) {
			return false
		}
		v, ok := constInt(info, as.Rhs[0])
		return ok && v == k
	}
	for _, cs := range sw.Body.List {
		cc := cs.(*ast.CaseClause)
		cpos := c.PosStr(p.Fset, cc.Pos())
		if cc.List == nil {
			hasDefault = true
			okD := len(cc.Body) == 1
			if okD {
				rs, ok := cc.Body[0].(*ast.ReturnStmt)
				okD = ok && len(rs.Results) == 2 && types.ExprString(rs.Results[1]) != "nil"
			}
			c.Check(okD, "L.skip.table", "runtime.Skip wire type other", "illegal wire types (6, 7) return an error", "illegal wire types do not return an error", cpos, src)
			continue
		}
		if len(cc.List) != 1 {
			undecided("case with several wire types", cc)
			continue
		}
		k, ok := constInt(info, cc.List[0])
		if !ok {
			undecided("case label", cc)
			continue
		}
		seen[k] = true
		con := fmt.Sprintf("runtime.Skip wire type %d", k)
		switch k {
		case 0:
			okV := len(cc.Body) == 1
			if okV {
				fl, ok := cc.Body[0].(*ast.ForStmt)
				okV = ok
				if ok {
					v, _ := matchVarint(fl)
					okV = v != nil
				}
			}
			c.Check(okV, "L.skip.table", con, "advance = bytes up to and including the first byte < 0x80 (guarded reader)", "varint payload is not skipped by the guarded varint reader", cpos, src)
		case 1:
			c.Check(advConst(cc.Body, 8), "L.skip.table", con, "advance = 8", "fixed64 payload does not advance the cursor by exactly 8", cpos, src)
		case 5:
			c.Check(advConst(cc.Body, 4), "L.skip.table", con, "advance = 4", "fixed32 payload does not advance the cursor by exactly 4", cpos, src)
		case 2:
			okL := len(cc.Body) == 4
			var why string
			if okL {
				d, ok := cc.Body[0].(*ast.DeclStmt)
				fl, ok2 := cc.Body[1].(*ast.ForStmt)
				g, ok3 := cc.Body[2].(*ast.IfStmt)
				adv, ok4 := cc.Body[3].(*ast.AssignStmt)
				okL = ok && ok2 && ok3 && ok4
				if okL {
					ln := info.ObjectOf(d.Decl.(*ast.GenDecl).Specs[0].(*ast.ValueSpec).Names[0])
					v, w2 := matchVarint(fl)
					why = w2
					okL = v != nil && v.acc == ln && basicKind(v.accT) == types.Int
					if okL {
						gc, ok := g.Cond.(*ast.BinaryExpr)
						okL = ok && gc.Op == token.LSS && is(gc.X, ln) && isZero(info, gc.Y) && isErrRet(g.Body) && g.Else == nil
						if !okL {
							why = "negative length is not rejected"
						}
					}
					if okL {
						okL = adv.Tok == token.ADD_ASSIGN && is(adv.Lhs[0], idx) && is(adv.Rhs[0], ln)
						if !okL {
							why = "cursor does not advance by the length"
						}
					}
				}
			}
			c.Check(okL, "L.skip.table", con, "advance = length varint + length (negative lengths rejected)", "length-delimited payload is not skipped as varint length + length: "+why, cpos, src)
		case 3:
			okS := len(cc.Body) == 1
			if okS {
				inc, ok := cc.Body[0].(*ast.IncDecStmt)
				okS = ok && inc.Tok == token.INC && is(inc.X, depth)
			}
			c.Check(okS, "L.skip.table", con, "depth++", "start-group does not increase the depth", cpos, src)
		case 4:
			okE := len(cc.Body) == 2
			if okE {
				g, ok := cc.Body[0].(*ast.IfStmt)
				dec, ok2 := cc.Body[1].(*ast.IncDecStmt)
				okE = ok && ok2 && isErrRet(g.Body) && dec.Tok == token.DEC && is(dec.X, depth)
				if okE {
					gc, ok := g.Cond.(*ast.BinaryExpr)
					okE = ok && gc.Op == token.EQL && is(gc.X, depth) && isZero(info, gc.Y)
				}
			}
			c.Check(okE, "L.skip.table", con, "error at depth 0, else depth--", "end-group is not rejected at depth 0 / does not decrease the depth", cpos, src)
		default:
			c.Fail("L.skip.table", con, "unexpected wire-type arm", cpos, src)
		}
	}
	for _, k := range []int64{0, 1, 2, 3, 4, 5} {
		if !seen[k] {
			c.Fail("L.skip.table", fmt.Sprintf("runtime.Skip wire type %d", k), "wire type has no arm", c.PosStr(p.Fset, sw.Pos()), src)
		}
	}
	if !hasDefault {
		c.Fail("L.skip.table", "runtime.Skip wire type other", "no default arm", c.PosStr(p.Fset, sw.Pos()), src)
	}
	// overflow check and depth check
	g4, ok := lb[4].(*ast.IfStmt)
	okO := ok && g4.Else == nil && isErrRet(g4.Body)
	if okO {
		gc, ok := g4.Cond.(*ast.BinaryExpr)
		okO = ok && gc.Op == token.LSS && is(gc.X, idx) && isZero(info, gc.Y)
	}
	c.Check(okO, "L.skip.nopanic", "runtime.Skip cursor overflow check", "after every addition to the cursor `cursor < 0` returns an error, so the cursor is non-negative at every index expression", "additions to the cursor are not followed by the `cursor < 0` overflow check: a huge length wraps the cursor negative and the next dAtA[cursor] panics", c.PosStr(p.Fset, lb[4].Pos()), src)
	g5, ok := lb[5].(*ast.IfStmt)
	okR := ok && g5.Else == nil && len(g5.Body.List) == 1
	if okR {
		gc, ok := g5.Cond.(*ast.BinaryExpr)
		okR = ok && gc.Op == token.EQL && is(gc.X, depth) && isZero(info, gc.Y)
		rs, ok2 := g5.Body.List[0].(*ast.ReturnStmt)
		okR = okR && ok2 && len(rs.Results) == 2 && is(rs.Results[0], idx) && types.ExprString(rs.Results[1]) == "nil"
	}
	c.Check(okR, "L.skip.table", "runtime.Skip result", "returns the cursor (length of the first record, groups included) exactly when depth is 0", "the record length is not returned exactly when the group depth is back to 0", c.PosStr(p.Fset, lb[5].Pos()), src)
	// no other index expressions on the buffer
	nIdx := 0
	ast.Inspect(fd.Body, func(n ast.Node) bool {
		if ie, ok := n.(*ast.IndexExpr); ok && is(ie.X, buf) {
			nIdx++
		}
		if se, ok := n.(*ast.SliceExpr); ok && is(se.X, buf) {
			nIdx += 100
		}
		return true
	})
	c.Check(nIdx == 3, "L.skip.nopanic", "runtime.Skip index sites", "3 index expressions on the input, each inside a guarded reader", fmt.Sprintf("index/slice expressions on the input outside the guarded readers (count code %d)", nIdx), pos, src)
}
