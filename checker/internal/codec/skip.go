package codec

import (
	"fmt"
	"go/ast"
	"go/token"
	"go/types"

	"verif/checker/internal/core"
)

// RunSkip decides the clauses of C15 about runtime.Skip:
//   - never panics: every index expression on the input is dominated by the
//     `iNdEx >= l` guard of its reader, and the cursor is non-negative at every
//     loop head (the `iNdEx < 0` overflow check follows every addition);
//   - progress: every iteration of the record loop consumes the tag (>= 1 byte);
//   - skip table: per wire type the cursor advances by exactly the payload
//     (varint: bytes up to the first < 0x80; 1: 8; 5: 4; 2: length; 3/4: depth +-1;
//     other: error) and the result is returned only at depth 0.
//
// The function is matched statement by statement (resolved objects, not names);
// any other statement is undecided.
func RunSkip(c *core.Ctx) {
	const src = "S0"
	p := c.Pkg("runtime")
	if p == nil {
		c.Fail("L.anchor", "runtime", "package not found", "", src)
		return
	}
	fd := core.FuncDecls(p)["Skip"]
	if fd == nil {
		c.Fail("L.anchor", "runtime.Skip", "function not found", "", src)
		return
	}
	info := p.TypesInfo
	pos := c.PosStr(p.Fset, fd.Pos())
	fail := func(rule, con, msg string, n ast.Node) {
		pp := pos
		if n != nil {
			pp = c.PosStr(p.Fset, n.Pos())
		}
		c.Fail(rule, "runtime.Skip "+con, msg, pp, src)
	}
	undecided := func(msg string, n ast.Node) {
		pp := pos
		if n != nil {
			pp = c.PosStr(p.Fset, n.Pos())
		}
		c.Undec("L.skip", "runtime.Skip structure", msg, pp, src)
	}
	is := func(x ast.Expr, o types.Object) bool {
		id, ok := ast.Unparen(x).(*ast.Ident)
		return ok && o != nil && info.ObjectOf(id) == o
	}
	isErrRet := func(b *ast.BlockStmt) bool {
		if b == nil || len(b.List) != 1 {
			return false
		}
		rs, ok := b.List[0].(*ast.ReturnStmt)
		if !ok || len(rs.Results) != 2 {
			return false
		}
		if k, ok := constInt(info, rs.Results[0]); !ok || k != 0 {
			return false
		}
		return types.ExprString(rs.Results[1]) != "nil"
	}
	if len(fd.Type.Params.List) != 1 || len(fd.Type.Params.List[0].Names) != 1 {
		undecided("signature", nil)
		return
	}
	buf := info.ObjectOf(fd.Type.Params.List[0].Names[0])
	body := fd.Body.List
	// closures defined between the three prologue definitions and the record loop (`name := func() ... {...}`)
	var extraPrologue []ast.Stmt
	{
		var kept []ast.Stmt
		for i, st := range body {
			if as, ok := st.(*ast.AssignStmt); ok && i >= 3 && as.Tok == token.DEFINE && len(as.Lhs) == 1 && len(as.Rhs) == 1 {
				if _, isLit := as.Rhs[0].(*ast.FuncLit); isLit {
					extraPrologue = append(extraPrologue, st)
					continue
				}
			}
			kept = append(kept, st)
		}
		body = kept
	}
	if len(body) != 5 {
		undecided(fmt.Sprintf("body has %d statements, expected: l, cursor, depth, record loop, final EOF return", len(body)), nil)
		return
	}
	var lVar, idx, depth types.Object
	for i := 0; i < 3; i++ {
		as, ok := body[i].(*ast.AssignStmt)
		if !ok || as.Tok != token.DEFINE || len(as.Lhs) != 1 {
			undecided("prologue statement", body[i])
			return
		}
		o := info.ObjectOf(as.Lhs[0].(*ast.Ident))
		rhs := ast.Unparen(as.Rhs[0])
		if call, ok := rhs.(*ast.CallExpr); ok {
			if b, ok := core.CalleeObj(info, call).(*types.Builtin); ok && b.Name() == "len" && is(call.Args[0], buf) {
				lVar = o
				continue
			}
		}
		if k, ok := constInt(info, rhs); ok && k == 0 {
			if idx == nil {
				idx = o
			} else {
				depth = o
			}
			continue
		}
		undecided("prologue statement", body[i])
		return
	}
	if lVar == nil || idx == nil || depth == nil {
		undecided("prologue must define l := len(dAtA), cursor := 0, depth := 0", nil)
		return
	}
	loop, ok := body[3].(*ast.ForStmt)
	if !ok || loop.Init != nil || loop.Post != nil {
		undecided("record loop form", body[3])
		return
	}
	if cnd, ok := loop.Cond.(*ast.BinaryExpr); !ok || cnd.Op != token.LSS || !is(cnd.X, idx) || !is(cnd.Y, lVar) {
		undecided("record loop condition is not cursor < l", loop)
		return
	}
	fin, ok := body[4].(*ast.ReturnStmt)
	c.Check(ok && len(fin.Results) == 2 && types.ExprString(fin.Results[1]) != "nil" && types.ExprString(fin.Results[0]) == "0", "L.skip", "runtime.Skip truncated input", "falling out of the record loop returns an error", "input that ends inside a record/group is not reported as an error", c.PosStr(p.Fset, body[4].Pos()), src)

	// varint reader matcher. kind: "acc" (accumulates into a variable) or "skip".
	type vr struct {
		acc  types.Object
		accT types.Type
	}
	// rctx: what "cursor", "limit", "buffer", "error exit" and "done" mean for the loop being matched: inside Skip
	// itself they are the cursor, l, dAtA, `return 0, err` and `break`; inside a reader function they are its own
	// parameter / captured variables and its return statements.
	type rctx struct {
		isIdx, isLimit, isBuf func(ast.Expr) bool
		isErrExit             func(*ast.BlockStmt) bool
		isDone                func(ast.Stmt, types.Object) bool // leaves the loop with the value read (acc may be nil)
	}
	validIdx := map[*ast.IndexExpr]bool{}
	var matchVarintCtx func(fs *ast.ForStmt, cx rctx) (*vr, string)
	skipCtx := rctx{
		isIdx:     func(x ast.Expr) bool { return is(x, idx) },
		isLimit:   func(x ast.Expr) bool { return is(x, lVar) },
		isBuf:     func(x ast.Expr) bool { return is(x, buf) },
		isErrExit: isErrRet,
		isDone: func(s ast.Stmt, _ types.Object) bool {
			br, ok := s.(*ast.BranchStmt)
			return ok && br.Tok == token.BREAK && br.Label == nil
		},
	}
	matchVarint := func(fs *ast.ForStmt) (*vr, string) { return matchVarintCtx(fs, skipCtx) }
	matchVarintCtx = func(fs *ast.ForStmt, cx rctx) (*vr, string) {
		is := func(x ast.Expr, o types.Object) bool {
			id, ok := ast.Unparen(x).(*ast.Ident)
			return ok && o != nil && info.ObjectOf(id) == o
		}
		isErrRet := cx.isErrExit
		init, ok := fs.Init.(*ast.AssignStmt)
		if !ok || init.Tok != token.DEFINE || len(init.Lhs) != 1 || fs.Cond != nil {
			return nil, "loop header"
		}
		shift := info.ObjectOf(init.Lhs[0].(*ast.Ident))
		if !isUnsigned(shift.Type()) {
			return nil, "shift counter must be unsigned"
		}
		post, ok := fs.Post.(*ast.AssignStmt)
		if !ok || post.Tok != token.ADD_ASSIGN || !is(post.Lhs[0], shift) {
			return nil, "loop post statement"
		}
		if k, ok := constInt(info, post.Rhs[0]); !ok || k != 7 {
			return nil, "shift step is not 7"
		}
		b := fs.Body.List
		if len(b) < 4 {
			return nil, "reader body"
		}
		g1, ok := b[0].(*ast.IfStmt)
		if !ok || !isErrRet(g1.Body) {
			return nil, "overflow guard"
		}
		if cc, ok := g1.Cond.(*ast.BinaryExpr); !ok || cc.Op != token.GEQ || !is(cc.X, shift) {
			return nil, "overflow guard"
		} else if k, ok := constInt(info, cc.Y); !ok || k != 64 {
			return nil, "overflow guard bound is not 64"
		}
		g2, ok := b[1].(*ast.IfStmt)
		if !ok || !isErrRet(g2.Body) {
			return nil, "bounds guard"
		}
		if cc, ok := g2.Cond.(*ast.BinaryExpr); !ok || cc.Op != token.GEQ || !cx.isIdx(cc.X) || !cx.isLimit(cc.Y) {
			return nil, "bounds guard is not cursor >= l"
		}
		var accObj types.Object
		isBreakIf := func(s ast.Stmt, byteExpr func(ast.Expr) bool) bool {
			g, ok := s.(*ast.IfStmt)
			if !ok || g.Else != nil || len(g.Body.List) != 1 {
				return false
			}
			if !cx.isDone(g.Body.List[0], accObj) {
				return false
			}
			cc, ok := g.Cond.(*ast.BinaryExpr)
			if !ok || cc.Op != token.LSS || !byteExpr(cc.X) {
				return false
			}
			k, ok := constInt(info, cc.Y)
			return ok && k == 0x80
		}
		// form "skip": idx++ ; if buf[idx-1] < 0x80 {break}
		if len(b) == 4 {
			inc, ok := b[2].(*ast.IncDecStmt)
			if ok && inc.Tok == token.INC && cx.isIdx(inc.X) {
				if isBreakIf(b[3], func(x ast.Expr) bool {
					ie, ok := ast.Unparen(x).(*ast.IndexExpr)
					if !ok || !cx.isBuf(ie.X) {
						return false
					}
					be, ok := ast.Unparen(ie.Index).(*ast.BinaryExpr)
					if !ok || be.Op != token.SUB || !cx.isIdx(be.X) {
						return false
					}
					k, ok := constInt(info, be.Y)
					if ok && k == 1 {
						validIdx[ie] = true
					}
					return ok && k == 1
				}) {
					return &vr{}, ""
				}
			}
			return nil, "skip-reader body"
		}
		if len(b) != 6 {
			return nil, "reader body"
		}
		d, ok := b[2].(*ast.AssignStmt)
		if !ok || d.Tok != token.DEFINE || len(d.Lhs) != 1 {
			return nil, "byte load"
		}
		bv := info.ObjectOf(d.Lhs[0].(*ast.Ident))
		ie, ok := ast.Unparen(d.Rhs[0]).(*ast.IndexExpr)
		if !ok || !cx.isBuf(ie.X) || !cx.isIdx(ie.Index) {
			return nil, "byte load is not dAtA[cursor]"
		}
		validIdx[ie] = true
		inc, ok := b[3].(*ast.IncDecStmt)
		if !ok || inc.Tok != token.INC || !cx.isIdx(inc.X) {
			return nil, "cursor increment"
		}
		acc, ok := b[4].(*ast.AssignStmt)
		if !ok || acc.Tok != token.OR_ASSIGN || len(acc.Lhs) != 1 {
			return nil, "accumulation"
		}
		accID, ok := acc.Lhs[0].(*ast.Ident)
		if !ok {
			return nil, "accumulator"
		}
		shl, ok := ast.Unparen(acc.Rhs[0]).(*ast.BinaryExpr)
		if !ok || shl.Op != token.SHL || !is(shl.Y, shift) {
			return nil, "accumulation shift"
		}
		// T(b&0x7F) or (T(b) & 0x7F)
		seven := func(x ast.Expr) bool {
			x = ast.Unparen(x)
			if cv, ok := x.(*ast.CallExpr); ok && len(cv.Args) == 1 {
				if tv, ok := info.Types[cv.Fun]; ok && tv.IsType() {
					and, ok := ast.Unparen(cv.Args[0]).(*ast.BinaryExpr)
					if ok && and.Op == token.AND && is(and.X, bv) {
						k, ok := constInt(info, and.Y)
						return ok && k == 0x7f
					}
				}
				return false
			}
			if and, ok := x.(*ast.BinaryExpr); ok && and.Op == token.AND {
				if k, ok := constInt(info, and.Y); ok && k == 0x7f {
					if cv, ok := ast.Unparen(and.X).(*ast.CallExpr); ok && len(cv.Args) == 1 {
						if tv, ok := info.Types[cv.Fun]; ok && tv.IsType() {
							return is(cv.Args[0], bv)
						}
					}
				}
			}
			return false
		}
		if !seven(shl.X) {
			return nil, "accumulated value is not the low 7 bits of the byte"
		}
		accObj = info.ObjectOf(accID)
		if !isBreakIf(b[5], func(x ast.Expr) bool { return is(x, bv) }) {
			return nil, "termination test is not b < 0x80"
		}
		o := info.ObjectOf(accID)
		return &vr{acc: o, accT: o.Type()}, ""
	}

	// ---- varint reader functions: the same guarded loop factored out, either as a closure over the cursor
	// (`func() (uint64, error)`) or as a package function `(buf []byte, i int) (v uint64, next int, err error)`.
	// readers maps the function object (local variable or package function) to its kind once its body matched.
	type readerFn struct{ closure bool }
	readers := map[types.Object]*readerFn{}
	zeroOrNilExcept := func(rs *ast.ReturnStmt) bool { // return 0..., <non-nil err>
		if len(rs.Results) < 2 || types.ExprString(rs.Results[len(rs.Results)-1]) == "nil" {
			return false
		}
		for _, r := range rs.Results[:len(rs.Results)-1] {
			if k, ok := constInt(info, r); !ok || k != 0 {
				return false
			}
		}
		return true
	}
	matchReaderBody := func(ft *ast.FuncType, body *ast.BlockStmt, closure bool) bool {
		var pBuf, pIdx types.Object
		nRes := 0
		if ft.Results != nil {
			for _, r := range ft.Results.List {
				if len(r.Names) == 0 {
					nRes++
				} else {
					nRes += len(r.Names)
				}
			}
		}
		if closure {
			if len(ft.Params.List) != 0 || nRes != 2 {
				return false
			}
		} else {
			var ps []*ast.Ident
			for _, f := range ft.Params.List {
				ps = append(ps, f.Names...)
			}
			if len(ps) != 2 || nRes != 3 {
				return false
			}
			pBuf, pIdx = info.ObjectOf(ps[0]), info.ObjectOf(ps[1])
			if _, isSlice := pBuf.Type().Underlying().(*types.Slice); !isSlice || basicKind(pIdx.Type()) != types.Int {
				return false
			}
		}
		list := body.List
		// optional `var v uint64`
		if len(list) == 2 {
			if _, ok := list[0].(*ast.DeclStmt); !ok {
				return false
			}
			list = list[1:]
		}
		if len(list) != 1 {
			return false
		}
		fs, ok := list[0].(*ast.ForStmt)
		if !ok {
			return false
		}
		cx := skipCtx
		if !closure {
			cx.isIdx = func(x ast.Expr) bool { return is(x, pIdx) }
			cx.isBuf = func(x ast.Expr) bool { return is(x, pBuf) }
			cx.isLimit = func(x ast.Expr) bool {
				call, ok := ast.Unparen(x).(*ast.CallExpr)
				if !ok || len(call.Args) != 1 {
					return false
				}
				b, ok := core.CalleeObj(info, call).(*types.Builtin)
				return ok && b.Name() == "len" && is(call.Args[0], pBuf)
			}
		}
		cx.isErrExit = func(b *ast.BlockStmt) bool {
			if b == nil || len(b.List) != 1 {
				return false
			}
			rs, ok := b.List[0].(*ast.ReturnStmt)
			return ok && len(rs.Results) == nRes && zeroOrNilExcept(rs)
		}
		cx.isDone = func(st ast.Stmt, acc types.Object) bool {
			rs, ok := st.(*ast.ReturnStmt)
			if !ok || len(rs.Results) != nRes || acc == nil || !is(rs.Results[0], acc) || types.ExprString(rs.Results[nRes-1]) != "nil" {
				return false
			}
			return closure || is(rs.Results[1], pIdx)
		}
		v, _ := matchVarintCtx(fs, cx)
		return v != nil && v.acc != nil && basicKind(v.accT) == types.Uint64
	}
	// closures defined in Skip's own prologue are looked for among the statements before the record loop: the
	// prologue matcher above insists on exactly three definitions, so a closure makes the body longer; it is
	// accepted as an extra statement `name := func() (uint64, error) {...}` (see bodyStmts below).
	for _, st := range extraPrologue {
		as := st.(*ast.AssignStmt)
		fl := as.Rhs[0].(*ast.FuncLit)
		ro := info.ObjectOf(as.Lhs[0].(*ast.Ident))
		// the variable keeps this function: it is never assigned again and its address is never taken
		reassigned := false
		ast.Inspect(fd.Body, func(n ast.Node) bool {
			switch t := n.(type) {
			case *ast.AssignStmt:
				if t != as {
					for _, l := range t.Lhs {
						if is(l, ro) {
							reassigned = true
						}
					}
				}
			case *ast.UnaryExpr:
				if t.Op == token.AND && is(t.X, ro) {
					reassigned = true
				}
			}
			return true
		})
		if !reassigned && matchReaderBody(fl.Type, fl.Body, true) {
			readers[ro] = &readerFn{closure: true}
		} else {
			undecided("local function literal is not a guarded varint reader", st)
			return
		}
	}
	for name, hd := range core.FuncDecls(p) {
		if name == "Skip" || hd.Body == nil || hd.Recv != nil {
			continue
		}
		if o := info.Defs[hd.Name]; o != nil && matchReaderBody(hd.Type, hd.Body, false) {
			readers[o] = &readerFn{closure: false}
		}
	}
	errIsReturned := func(st ast.Stmt, errObj types.Object) bool { // if err != nil { return 0, err }
		g, ok := st.(*ast.IfStmt)
		if !ok || g.Else != nil || g.Init != nil || len(g.Body.List) != 1 {
			return false
		}
		cc, ok := g.Cond.(*ast.BinaryExpr)
		if !ok || cc.Op != token.NEQ || !is(cc.X, errObj) || types.ExprString(cc.Y) != "nil" {
			return false
		}
		rs, ok := g.Body.List[0].(*ast.ReturnStmt)
		if !ok || len(rs.Results) != 2 || !is(rs.Results[1], errObj) {
			return false
		}
		k, ok := constInt(info, rs.Results[0])
		return ok && k == 0
	}
	// readerCall: `X, err (:=|=) R()` or `X, cursor, err = R(buf, cursor)`: returns the value target (nil for _) and err
	readerCall := func(as *ast.AssignStmt) (val types.Object, discard bool, errObj types.Object, ok bool) {
		if len(as.Rhs) != 1 {
			return
		}
		call, isCall := ast.Unparen(as.Rhs[0]).(*ast.CallExpr)
		if !isCall {
			return
		}
		fid, isId := ast.Unparen(call.Fun).(*ast.Ident)
		if !isId {
			return
		}
		r := readers[info.ObjectOf(fid)]
		if r == nil {
			return
		}
		if r.closure {
			if len(call.Args) != 0 || len(as.Lhs) != 2 {
				return
			}
		} else {
			if len(call.Args) != 2 || !is(call.Args[0], buf) || !is(call.Args[1], idx) || len(as.Lhs) != 3 || !is(as.Lhs[1], idx) {
				return
			}
		}
		v0, isId0 := as.Lhs[0].(*ast.Ident)
		e0, isIdE := as.Lhs[len(as.Lhs)-1].(*ast.Ident)
		if !isId0 || !isIdE || e0.Name == "_" {
			return
		}
		if v0.Name == "_" {
			return nil, true, info.ObjectOf(e0), true
		}
		return info.ObjectOf(v0), false, info.ObjectOf(e0), true
	}
	// readStep matches one varint read at list[i:]: the inline loop (with its accumulator declaration) or a reader
	// call followed by the error test. It returns the value read (nil when discarded) and the statements consumed.
	readStep := func(list []ast.Stmt, i int) (acc types.Object, n int, why string) {
		if i >= len(list) {
			return nil, 0, "no statement"
		}
		// inline, accumulating: var X T; for ... {}
		if d, ok := list[i].(*ast.DeclStmt); ok && i+1 < len(list) {
			if gd, ok := d.Decl.(*ast.GenDecl); ok && gd.Tok == token.VAR && len(gd.Specs) == 1 {
				vs := gd.Specs[0].(*ast.ValueSpec)
				if len(vs.Names) == 1 && len(vs.Values) == 0 {
					x := info.ObjectOf(vs.Names[0])
					if fl, ok := list[i+1].(*ast.ForStmt); ok {
						v, w := matchVarint(fl)
						if v != nil && v.acc == x {
							return x, 2, ""
						}
						return nil, 0, w
					}
					// var X T; X, cursor, err = R(buf, cursor); if err != nil {...}
					if as, ok := list[i+1].(*ast.AssignStmt); ok && as.Tok == token.ASSIGN && i+2 < len(list) {
						if val, _, errObj, ok := readerCall(as); ok && val == x && errIsReturned(list[i+2], errObj) {
							return x, 3, ""
						}
					}
				}
			}
		}
		// inline, skipping
		if fl, ok := list[i].(*ast.ForStmt); ok {
			v, w := matchVarint(fl)
			if v != nil && v.acc == nil {
				return nil, 1, ""
			}
			return nil, 0, w
		}
		// X, err := R(); if err != nil { return 0, err }
		if as, ok := list[i].(*ast.AssignStmt); ok && i+1 < len(list) {
			if val, _, errObj, ok := readerCall(as); ok && errIsReturned(list[i+1], errObj) {
				return val, 2, ""
			}
		}
		// if _, err := R(); err != nil { return 0, err }
		if g, ok := list[i].(*ast.IfStmt); ok && g.Init != nil {
			if as, ok := g.Init.(*ast.AssignStmt); ok {
				if _, discard, errObj, ok := readerCall(as); ok && discard {
					if errIsReturned(&ast.IfStmt{Cond: g.Cond, Body: g.Body}, errObj) {
						return nil, 1, ""
					}
				}
			}
		}
		return nil, 0, "not a guarded varint read"
	}

	lb := loop.Body.List
	wire, nTag, why := readStep(lb, 0)
	if nTag == 0 || wire == nil || basicKind(wire.Type()) != types.Uint64 {
		fail("L.skip", "tag reader", "the tag is not read by the guarded varint reader into a fresh uint64 ("+why+")", loop)
		return
	}
	if len(lb) != nTag+4 {
		undecided(fmt.Sprintf("record loop body has %d statements, expected: tag read, wireType, switch, overflow check, depth check", len(lb)), loop)
		return
	}
	tl := lb[0]
	lb = append([]ast.Stmt{nil, nil}, lb[nTag:]...) // keep the positions used below: lb[2] wireType, lb[3] switch, lb[4], lb[5]
	c.Ok("L.skip", "runtime.Skip tag reader", "guarded varint reader (cursor >= l and shift >= 64 return errors; dAtA[cursor] is read only after the bounds guard); consumes >= 1 byte per record", c.PosStr(p.Fset, tl.Pos()), src)
	c.Ok("L.skip.progress", "runtime.Skip record loop", "every iteration consumes the tag (>= 1 byte) before anything else, the cursor never decreases", c.PosStr(p.Fset, loop.Pos()), src)
	wt, ok := lb[2].(*ast.AssignStmt)
	var wtObj types.Object
	if ok && wt.Tok == token.DEFINE {
		// wire & 7, possibly converted to some integer type (int, protowire.Type, ...)
		rhs := ast.Unparen(wt.Rhs[0])
		if call, ok := rhs.(*ast.CallExpr); ok && len(call.Args) == 1 {
			if tv, ok := info.Types[call.Fun]; ok && tv.IsType() {
				if b, ok := tv.Type.Underlying().(*types.Basic); ok && b.Info()&types.IsInteger != 0 {
					rhs = ast.Unparen(call.Args[0])
				}
			}
		}
		if be, ok := rhs.(*ast.BinaryExpr); ok && be.Op == token.AND {
			x, y := be.X, be.Y
			if _, isC := constInt(info, x); isC {
				x, y = y, x
			}
			if k, isC := constInt(info, y); isC && k == 7 && is(x, wire) {
				wtObj = info.ObjectOf(wt.Lhs[0].(*ast.Ident))
			}
		}
	}
	if wtObj == nil {
		fail("L.skip", "wire type", "wire type is not the low three bits of the tag", lb[2])
		return
	}
	sw, ok := lb[3].(*ast.SwitchStmt)
	if !ok || !is(sw.Tag, wtObj) {
		undecided("switch on the wire type", lb[3])
		return
	}
	seen := map[int64]bool{}
	hasDefault := false
	advConst := func(list []ast.Stmt, k int64) bool {
		if len(list) != 1 {
			return false
		}
		as, ok := list[0].(*ast.AssignStmt)
		if !ok || as.Tok != token.ADD_ASSIGN || !is(as.Lhs[0], idx) {
			return false
		}
		v, ok := constInt(info, as.Rhs[0])
		return ok && v == k
	}
	for _, cs := range sw.Body.List {
		cc := cs.(*ast.CaseClause)
		cpos := c.PosStr(p.Fset, cc.Pos())
		if cc.List == nil {
			hasDefault = true
			okD := len(cc.Body) == 1
			if okD {
				rs, ok := cc.Body[0].(*ast.ReturnStmt)
				okD = ok && len(rs.Results) == 2 && types.ExprString(rs.Results[1]) != "nil"
			}
			c.Check(okD, "L.skip.table", "runtime.Skip wire type other", "illegal wire types (6, 7) return an error", "illegal wire types do not return an error", cpos, src)
			continue
		}
		if len(cc.List) != 1 {
			undecided("case with several wire types", cc)
			continue
		}
		k, ok := constInt(info, cc.List[0])
		if !ok {
			undecided("case label", cc)
			continue
		}
		seen[k] = true
		con := fmt.Sprintf("runtime.Skip wire type %d", k)
		switch k {
		case 0:
			_, n0, _ := readStep(cc.Body, 0)
			okV := n0 > 0 && n0 == len(cc.Body)
			c.Check(okV, "L.skip.table", con, "advance = bytes up to and including the first byte < 0x80 (guarded reader)", "varint payload is not skipped by the guarded varint reader", cpos, src)
		case 1:
			c.Check(advConst(cc.Body, 8), "L.skip.table", con, "advance = 8", "fixed64 payload does not advance the cursor by exactly 8", cpos, src)
		case 5:
			c.Check(advConst(cc.Body, 4), "L.skip.table", con, "advance = 4", "fixed32 payload does not advance the cursor by exactly 4", cpos, src)
		case 2:
			ln, nL, why := readStep(cc.Body, 0)
			rest := cc.Body[min(nL, len(cc.Body)):]
			// a reader function yields a uint64: `length := int(v)` turns it into the int that is added to the cursor
			if nL > 0 && ln != nil && basicKind(ln.Type()) == types.Uint64 && len(rest) > 0 {
				if as, ok := rest[0].(*ast.AssignStmt); ok && as.Tok == token.DEFINE && len(as.Lhs) == 1 && len(as.Rhs) == 1 {
					if cv, ok := ast.Unparen(as.Rhs[0]).(*ast.CallExpr); ok && len(cv.Args) == 1 && is(cv.Args[0], ln) {
						if tv, ok := info.Types[cv.Fun]; ok && tv.IsType() && basicKind(tv.Type) == types.Int {
							ln = info.ObjectOf(as.Lhs[0].(*ast.Ident))
							rest = rest[1:]
						}
					}
				}
			}
			okL := nL > 0 && ln != nil && len(rest) == 2
			if okL {
				g, ok3 := rest[0].(*ast.IfStmt)
				adv, ok4 := rest[1].(*ast.AssignStmt)
				okL = ok3 && ok4
				if okL {
					okL = basicKind(ln.Type()) == types.Int
					if okL {
						gc, ok := g.Cond.(*ast.BinaryExpr)
						okL = ok && gc.Op == token.LSS && is(gc.X, ln) && isZero(info, gc.Y) && isErrRet(g.Body) && g.Else == nil
						if !okL {
							why = "negative length is not rejected"
						}
					}
					if okL {
						okL = adv.Tok == token.ADD_ASSIGN && is(adv.Lhs[0], idx) && is(adv.Rhs[0], ln)
						if !okL {
							why = "cursor does not advance by the length"
						}
					}
				}
			}
			c.Check(okL, "L.skip.table", con, "advance = length varint + length (negative lengths rejected)", "length-delimited payload is not skipped as varint length + length: "+why, cpos, src)
		case 3:
			okS := len(cc.Body) == 1
			if okS {
				inc, ok := cc.Body[0].(*ast.IncDecStmt)
				okS = ok && inc.Tok == token.INC && is(inc.X, depth)
			}
			c.Check(okS, "L.skip.table", con, "depth++", "start-group does not increase the depth", cpos, src)
		case 4:
			okE := len(cc.Body) == 2
			if okE {
				g, ok := cc.Body[0].(*ast.IfStmt)
				dec, ok2 := cc.Body[1].(*ast.IncDecStmt)
				okE = ok && ok2 && isErrRet(g.Body) && dec.Tok == token.DEC && is(dec.X, depth)
				if okE {
					gc, ok := g.Cond.(*ast.BinaryExpr)
					okE = ok && gc.Op == token.EQL && is(gc.X, depth) && isZero(info, gc.Y)
				}
			}
			c.Check(okE, "L.skip.table", con, "error at depth 0, else depth--", "end-group is not rejected at depth 0 / does not decrease the depth", cpos, src)
		default:
			c.Fail("L.skip.table", con, "unexpected wire-type arm", cpos, src)
		}
	}
	for _, k := range []int64{0, 1, 2, 3, 4, 5} {
		if !seen[k] {
			c.Fail("L.skip.table", fmt.Sprintf("runtime.Skip wire type %d", k), "wire type has no arm", c.PosStr(p.Fset, sw.Pos()), src)
		}
	}
	if !hasDefault {
		c.Fail("L.skip.table", "runtime.Skip wire type other", "no default arm", c.PosStr(p.Fset, sw.Pos()), src)
	}
	// overflow check and depth check
	g4, ok := lb[4].(*ast.IfStmt)
	okO := ok && g4.Else == nil && isErrRet(g4.Body)
	if okO {
		gc, ok := g4.Cond.(*ast.BinaryExpr)
		okO = ok && gc.Op == token.LSS && is(gc.X, idx) && isZero(info, gc.Y)
	}
	c.Check(okO, "L.skip.nopanic", "runtime.Skip cursor overflow check", "after every addition to the cursor `cursor < 0` returns an error, so the cursor is non-negative at every index expression", "additions to the cursor are not followed by the `cursor < 0` overflow check: a huge length wraps the cursor negative and the next dAtA[cursor] panics", c.PosStr(p.Fset, lb[4].Pos()), src)
	g5, ok := lb[5].(*ast.IfStmt)
	okR := ok && g5.Else == nil && len(g5.Body.List) == 1
	if okR {
		gc, ok := g5.Cond.(*ast.BinaryExpr)
		okR = ok && gc.Op == token.EQL && is(gc.X, depth) && isZero(info, gc.Y)
		rs, ok2 := g5.Body.List[0].(*ast.ReturnStmt)
		okR = okR && ok2 && len(rs.Results) == 2 && is(rs.Results[0], idx) && types.ExprString(rs.Results[1]) == "nil"
	}
	c.Check(okR, "L.skip.table", "runtime.Skip result", "returns the cursor (length of the first record, groups included) exactly when depth is 0", "the record length is not returned exactly when the group depth is back to 0", c.PosStr(p.Fset, lb[5].Pos()), src)
	// no other index expressions on the buffer
	nIdx, nBad := 0, 0
	ast.Inspect(fd.Body, func(n ast.Node) bool {
		if ie, ok := n.(*ast.IndexExpr); ok && is(ie.X, buf) {
			nIdx++
			if !validIdx[ie] {
				nBad++
			}
		}
		if se, ok := n.(*ast.SliceExpr); ok && is(se.X, buf) {
			nBad += 100
		}
		return true
	})
	c.Check(nBad == 0, "L.skip.nopanic", "runtime.Skip index sites", fmt.Sprintf("%d index expressions on the input in Skip, each inside a guarded reader (reader functions are matched as a whole)", nIdx), fmt.Sprintf("index/slice expressions on the input outside the guarded readers (count code %d)", nBad), pos, src)
}
