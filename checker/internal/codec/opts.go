package codec

import (
	"regexp"
	"fmt"
	"go/ast"
	"go/token"
	"go/types"
	"strings"

	"golang.org/x/tools/go/packages"

	"verif/checker/internal/core"
)

// depthExprOK: the RecursionLimit expression is f(input.Depth) for a runtime function f whose body, evaluated by
// the checker for every relevant class of depth (<=0, 1, 2, large), returns a non-zero value < depth (for depth >= 1).
func depthExprOK(p *packages.Package, fns map[string]*ast.FuncDecl, v string) bool {
	v = strings.ReplaceAll(v, " ", "")
	i := strings.Index(v, "(input.Depth)")
	if i <= 0 || i+len("(input.Depth)") != len(v) {
		return false
	}
	fd := fns[v[:i]]
	if fd == nil || fd.Body == nil || len(fd.Type.Params.List) != 1 || len(fd.Type.Params.List[0].Names) != 1 {
		return false
	}
	param := fd.Type.Params.List[0].Names[0].Name
	for _, d := range []int64{-3, 0, 1, 2, 3, 10000, 1 << 40} {
		r, ok := evalIntFunc(p.TypesInfo, fd.Body.List, map[string]int64{param: d})
		if !ok || r == 0 {
			return false
		}
		if d >= 1 && r >= d {
			return false
		}
		if d <= 0 && r > 0 {
			return false
		}
	}
	return true
}

// evalIntFunc interprets `if <cmp> { return e }; return e` bodies over integers.
func evalIntFunc(info *types.Info, list []ast.Stmt, env map[string]int64) (int64, bool) {
	var evalE func(x ast.Expr) (int64, bool)
	evalE = func(x ast.Expr) (int64, bool) {
		x = ast.Unparen(x)
		if k, ok := constInt(info, x); ok {
			return k, true
		}
		switch t := x.(type) {
		case *ast.Ident:
			v, ok := env[t.Name]
			return v, ok
		case *ast.UnaryExpr:
			if t.Op == token.SUB {
				v, ok := evalE(t.X)
				return -v, ok
			}
		case *ast.BinaryExpr:
			l, ok1 := evalE(t.X)
			r, ok2 := evalE(t.Y)
			if !ok1 || !ok2 {
				return 0, false
			}
			switch t.Op {
			case token.ADD:
				return l + r, true
			case token.SUB:
				return l - r, true
			}
		}
		return 0, false
	}
	evalC := func(x ast.Expr) (bool, bool) {
		be, ok := ast.Unparen(x).(*ast.BinaryExpr)
		if !ok {
			return false, false
		}
		l, ok1 := evalE(be.X)
		r, ok2 := evalE(be.Y)
		if !ok1 || !ok2 {
			return false, false
		}
		switch be.Op {
		case token.LSS:
			return l < r, true
		case token.LEQ:
			return l <= r, true
		case token.GTR:
			return l > r, true
		case token.GEQ:
			return l >= r, true
		case token.EQL:
			return l == r, true
		case token.NEQ:
			return l != r, true
		}
		return false, false
	}
	for _, s := range list {
		switch t := s.(type) {
		case *ast.ReturnStmt:
			if len(t.Results) != 1 {
				return 0, false
			}
			return evalE(t.Results[0])
		case *ast.IfStmt:
			if t.Init != nil {
				return 0, false
			}
			c, ok := evalC(t.Cond)
			if !ok {
				return 0, false
			}
			if c {
				return evalIntFunc(info, t.Body.List, env)
			}
			if t.Else != nil {
				if b, ok := t.Else.(*ast.BlockStmt); ok {
					return evalIntFunc(info, b.List, env)
				}
				return 0, false
			}
		default:
			return 0, false
		}
	}
	return 0, false
}

// evalOptsFunc evaluates a function that builds a struct value into field -> expression text: a returned composite
// literal, or a local initialised by a composite literal or by a call of another package function of the same
// shape (parameters substituted by the argument texts), followed by assignments to its fields, and returned.
func evalOptsFunc(info *types.Info, fns map[string]*ast.FuncDecl, fd *ast.FuncDecl, sub map[string]string, depth int) (map[string]string, string) {
	v, why := evalOptsValue(info, fns, fd, sub, depth)
	if v == nil {
		return nil, why
	}
	if !v.isStruct {
		return nil, "the function returns a scalar"
	}
	return v.fields, ""
}

// optVal: a struct value (field -> expression text over the caller's parameters) or a scalar expression text.
type optVal struct {
	isStruct bool
	fields   map[string]string
	scalar   string
}

// evalOptsValue evaluates a straight-line function symbolically: locals hold struct values (composite literals,
// `var x T`, results of package functions of the same kind, updated by `x.F = e`) or scalar expressions; every
// expression is rendered over the function's parameters (sub maps parameter names to the caller's argument texts).
func evalOptsValue(info *types.Info, fns map[string]*ast.FuncDecl, fd *ast.FuncDecl, sub map[string]string, depth int) (*optVal, string) {
	if depth > 3 {
		return nil, "helper chain too deep"
	}
	locals := map[string]*optVal{}
	word := func(name string) *regexp.Regexp {
		return regexp.MustCompile(`(^|[^A-Za-z0-9_.])` + regexp.QuoteMeta(name) + `($|[^A-Za-z0-9_])`)
	}
	render := func(e ast.Expr) string {
		out := types.ExprString(e)
		// fields of struct locals, then scalar locals, then parameters
		for name, v := range locals {
			if v.isStruct {
				for f, fv := range v.fields {
					out = regexp.MustCompile(`(^|[^A-Za-z0-9_.])`+regexp.QuoteMeta(name+"."+f)+`($|[^A-Za-z0-9_])`).ReplaceAllString(out, "${1}"+fv+"${2}")
				}
			}
		}
		for name, v := range locals {
			if !v.isStruct {
				out = word(name).ReplaceAllString(out, "${1}"+v.scalar+"${2}")
			}
		}
		for from, to := range sub {
			out = word(from).ReplaceAllString(out, "${1}"+to+"${2}")
		}
		return out
	}
	var fromExpr func(e ast.Expr) (*optVal, string)
	fromExpr = func(e ast.Expr) (*optVal, string) {
		switch t := ast.Unparen(e).(type) {
		case *ast.CompositeLit:
			vals := map[string]string{}
			for _, el := range t.Elts {
				kv, ok := el.(*ast.KeyValueExpr)
				if !ok {
					return nil, "unkeyed composite literal"
				}
				vals[types.ExprString(kv.Key)] = render(kv.Value)
			}
			return &optVal{isStruct: true, fields: vals}, ""
		case *ast.Ident:
			if v, ok := locals[t.Name]; ok {
				return v, ""
			}
		case *ast.CallExpr:
			if f, ok := core.CalleeObj(info, t).(*types.Func); ok {
				if cf := fns[f.Name()]; cf != nil && cf.Body != nil && cf.Recv == nil && f.Pkg() != nil && info.Defs[cf.Name] == types.Object(f) {
					if st, isStruct := f.Type().(*types.Signature).Results().At(0).Type().Underlying().(*types.Struct); isStruct && st != nil {
						var names []string
						for _, fl := range cf.Type.Params.List {
							for _, n := range fl.Names {
								names = append(names, n.Name)
							}
						}
						if len(names) != len(t.Args) {
							return nil, "helper arity"
						}
						s2 := map[string]string{}
						for i, n := range names {
							s2[n] = render(t.Args[i])
						}
						return evalOptsValue(info, fns, cf, s2, depth+1)
					}
				}
			}
		}
		// anything else is a scalar expression over the parameters
		return &optVal{scalar: render(e)}, ""
	}
	for _, st := range fd.Body.List {
		switch t := st.(type) {
		case *ast.ReturnStmt:
			if len(t.Results) != 1 {
				return nil, "return arity"
			}
			return fromExpr(t.Results[0])
		case *ast.DeclStmt:
			gd, ok := t.Decl.(*ast.GenDecl)
			if !ok || gd.Tok != token.VAR {
				return nil, "declaration statement"
			}
			for _, sp := range gd.Specs {
				vs := sp.(*ast.ValueSpec)
				for i, n := range vs.Names {
					if i < len(vs.Values) {
						v, why := fromExpr(vs.Values[i])
						if v == nil {
							return nil, why
						}
						locals[n.Name] = v
						continue
					}
					if _, isStruct := info.TypeOf(n).Underlying().(*types.Struct); !isStruct {
						return nil, "zero-valued scalar local " + n.Name
					}
					locals[n.Name] = &optVal{isStruct: true, fields: map[string]string{}}
				}
			}
		case *ast.AssignStmt:
			if len(t.Lhs) != 1 || len(t.Rhs) != 1 {
				return nil, "multi-assignment"
			}
			if id, ok := t.Lhs[0].(*ast.Ident); ok && (t.Tok == token.DEFINE || t.Tok == token.ASSIGN) {
				v, why := fromExpr(t.Rhs[0])
				if v == nil {
					return nil, why
				}
				if v.isStruct {
					cp := &optVal{isStruct: true, fields: map[string]string{}}
					for k, x := range v.fields {
						cp.fields[k] = x
					}
					v = cp
				}
				locals[id.Name] = v
				continue
			}
			if sel, ok := t.Lhs[0].(*ast.SelectorExpr); ok && t.Tok == token.ASSIGN {
				if id, ok := sel.X.(*ast.Ident); ok {
					if v := locals[id.Name]; v != nil && v.isStruct {
						v.fields[sel.Sel.Name] = render(t.Rhs[0])
						continue
					}
				}
			}
			return nil, "statement " + types.ExprString(t.Lhs[0]) + " " + t.Tok.String() + " ..."
		default:
			return nil, fmt.Sprintf("statement %T", st)
		}
	}
	return nil, "no return"
}

// RunOpts decides the option-mapping table of runtime.*InputToOptions.
func RunOpts(c *core.Ctx) {
	const src = "S0"
	p := c.Pkg("runtime")
	if p == nil {
		c.Fail("OPTS.anchor", "runtime", "package not found", "", src)
		return
	}
	fns := core.FuncDecls(p)
	type want struct {
		field string
		check func(v string) bool
		desc  string
		rule  string
	}
	flag := func(name string) func(string) bool {
		return func(v string) bool {
			v = strings.ReplaceAll(v, " ", "")
			return v == "input.Flags&protoiface."+name+"!=0" || v == "protoiface."+name+"&input.Flags!=0" || v == "(input.Flags&protoiface."+name+")!=0"
		}
	}
	tables := map[string][]want{
		"SizeInputToOptions": {
			{"Deterministic", flag("MarshalDeterministic"), "input.Flags&MarshalDeterministic != 0", "OPTS.det"},
			{"UseCachedSize", flag("MarshalUseCachedSize"), "input.Flags&MarshalUseCachedSize != 0", "OPTS.map"},
			{"AllowPartial", func(v string) bool { return v == "true" }, "true (required-field check is done by the caller)", "OPTS.map"},
		},
		"MarshalInputToOptions": {
			{"Deterministic", flag("MarshalDeterministic"), "input.Flags&MarshalDeterministic != 0", "OPTS.det"},
			{"UseCachedSize", flag("MarshalUseCachedSize"), "input.Flags&MarshalUseCachedSize != 0", "OPTS.map"},
			{"AllowPartial", func(v string) bool { return v == "true" }, "true", "OPTS.map"},
		},
		"UnmarshalInputToOptions": {
			{"DiscardUnknown", flag("UnmarshalDiscardUnknown"), "input.Flags&UnmarshalDiscardUnknown != 0", "OPTS.discard"},
			{"Resolver", func(v string) bool { return v == "input.Resolver" }, "input.Resolver", "OPTS.map"},
			{"AllowPartial", func(v string) bool { return v == "true" }, "true", "OPTS.map"},
			{"Merge", func(v string) bool { return v == "true" }, "true: a nested decode continues a message the parent kept or just allocated, it must not reset it", "OPTS.merge"},
			{"RecursionLimit", func(v string) bool { return depthExprOK(p, fns, v) }, "a value that is smaller than input.Depth whenever input.Depth > 0 and never 0 (0 means 'default' to proto.UnmarshalOptions), so the nesting budget of the outer decode shrinks at every level", "OPTS.depth"},
		},
	}
	for fn, ws := range tables {
		fd := fns[fn]
		if fd == nil || fd.Body == nil {
			c.Undec("OPTS.map", "runtime."+fn, "function not found", "", src)
			continue
		}
		pos := c.PosStr(p.Fset, fd.Pos())
		// the parameter is called input in the textual forms above; normalise by renaming
		sub := map[string]string{}
		if len(fd.Type.Params.List) == 1 && len(fd.Type.Params.List[0].Names) == 1 {
			sub[fd.Type.Params.List[0].Names[0].Name] = "input"
		}
		vals, why := evalOptsFunc(p.TypesInfo, fns, fd, sub, 0)
		if vals == nil {
			c.Undec("OPTS.map", "runtime."+fn, "the options value is not built by a composite literal, field assignments and (one level of) helper calls: "+why, pos, src)
			continue
		}
		for _, w := range ws {
			con := fmt.Sprintf("runtime.%s field %s", fn, w.field)
			v, present := vals[w.field]
			if !present {
				v = "<zero value>"
			}
			c.Check(present && w.check(v), w.rule, con, w.field+" = "+v, fmt.Sprintf("%s is %s; must be %s", w.field, v, w.desc), pos, src)
		}
	}
}
