package codec

import (
	"fmt"
	"go/ast"
	"go/types"
	"strings"

	"verif/checker/internal/core"
)

// RunOpts decides the option-mapping table of runtime.*InputToOptions.
func RunOpts(c *core.Ctx) {
	const src = "S0"
	p := c.Pkg("runtime")
	if p == nil {
		c.Fail("OPTS.anchor", "runtime", "package not found", "", src)
		return
	}
	fns := core.FuncDecls(p)
	type want struct {
		field string
		check func(v string) bool
		desc  string
		rule  string
	}
	flag := func(name string) func(string) bool {
		return func(v string) bool {
			v = strings.ReplaceAll(v, " ", "")
			return v == "input.Flags&protoiface."+name+"!=0" || v == "protoiface."+name+"&input.Flags!=0" || v == "(input.Flags&protoiface."+name+")!=0"
		}
	}
	tables := map[string][]want{
		"SizeInputToOptions": {
			{"Deterministic", flag("MarshalDeterministic"), "input.Flags&MarshalDeterministic != 0", "OPTS.det"},
			{"UseCachedSize", flag("MarshalUseCachedSize"), "input.Flags&MarshalUseCachedSize != 0", "OPTS.map"},
			{"AllowPartial", func(v string) bool { return v == "true" }, "true (required-field check is done by the caller)", "OPTS.map"},
		},
		"MarshalInputToOptions": {
			{"Deterministic", flag("MarshalDeterministic"), "input.Flags&MarshalDeterministic != 0", "OPTS.det"},
			{"UseCachedSize", flag("MarshalUseCachedSize"), "input.Flags&MarshalUseCachedSize != 0", "OPTS.map"},
			{"AllowPartial", func(v string) bool { return v == "true" }, "true", "OPTS.map"},
		},
		"UnmarshalInputToOptions": {
			{"DiscardUnknown", flag("UnmarshalDiscardUnknown"), "input.Flags&UnmarshalDiscardUnknown != 0", "OPTS.discard"},
			{"Resolver", func(v string) bool { return v == "input.Resolver" }, "input.Resolver", "OPTS.map"},
			{"AllowPartial", func(v string) bool { return v == "true" }, "true", "OPTS.map"},
			{"Merge", func(v string) bool { return v == "true" }, "true: a nested decode continues a message the parent kept or just allocated, it must not reset it", "OPTS.merge"},
			{"RecursionLimit", func(v string) bool { return strings.Contains(v, "input.Depth") }, "derived from input.Depth, so the nesting budget of the outer decode carries into nested decodes", "OPTS.depth"},
		},
	}
	for fn, ws := range tables {
		fd := fns[fn]
		if fd == nil || fd.Body == nil || len(fd.Body.List) != 1 {
			c.Undec("OPTS.map", "runtime."+fn, "function is not a single return of a composite literal", "", src)
			continue
		}
		pos := c.PosStr(p.Fset, fd.Pos())
		rs, ok := fd.Body.List[0].(*ast.ReturnStmt)
		var cl *ast.CompositeLit
		if ok && len(rs.Results) == 1 {
			cl, _ = rs.Results[0].(*ast.CompositeLit)
		}
		if cl == nil {
			c.Undec("OPTS.map", "runtime."+fn, "function is not a single return of a composite literal", pos, src)
			continue
		}
		// the parameter must be called input for the textual forms above; normalise by renaming
		pname := "input"
		if len(fd.Type.Params.List) == 1 && len(fd.Type.Params.List[0].Names) == 1 {
			pname = fd.Type.Params.List[0].Names[0].Name
		}
		vals := map[string]string{}
		for _, e := range cl.Elts {
			kv, ok := e.(*ast.KeyValueExpr)
			if !ok {
				continue
			}
			v := types.ExprString(kv.Value)
			if pname != "input" {
				v = strings.ReplaceAll(v, pname+".", "input.")
			}
			vals[types.ExprString(kv.Key)] = v
		}
		for _, w := range ws {
			con := fmt.Sprintf("runtime.%s field %s", fn, w.field)
			v, present := vals[w.field]
			if !present {
				v = "<zero value>"
			}
			c.Check(present && w.check(v), w.rule, con, w.field+" = "+v, fmt.Sprintf("%s is %s; must be %s", w.field, v, w.desc), pos, src)
		}
	}
}
