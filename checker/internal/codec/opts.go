package codec

import (
	"fmt"
	"go/ast"
	"go/token"
	"go/types"
	"strings"

	"golang.org/x/tools/go/packages"

	"verif/checker/internal/core"
)

// depthExprOK: the RecursionLimit expression is f(input.Depth) for a runtime function f whose body, evaluated by
// the checker for every relevant class of depth (<=0, 1, 2, large), returns a non-zero value < depth (for depth >= 1).
func depthExprOK(p *packages.Package, fns map[string]*ast.FuncDecl, v string) bool {
	v = strings.ReplaceAll(v, " ", "")
	i := strings.Index(v, "(input.Depth)")
	if i <= 0 || i+len("(input.Depth)") != len(v) {
		return false
	}
	fd := fns[v[:i]]
	if fd == nil || fd.Body == nil || len(fd.Type.Params.List) != 1 || len(fd.Type.Params.List[0].Names) != 1 {
		return false
	}
	param := fd.Type.Params.List[0].Names[0].Name
	for _, d := range []int64{-3, 0, 1, 2, 3, 10000, 1 << 40} {
		r, ok := evalIntFunc(p.TypesInfo, fd.Body.List, map[string]int64{param: d})
		if !ok || r == 0 {
			return false
		}
		if d >= 1 && r >= d {
			return false
		}
		if d <= 0 && r > 0 {
			return false
		}
	}
	return true
}

// evalIntFunc interprets `if <cmp> { return e }; return e` bodies over integers.
func evalIntFunc(info *types.Info, list []ast.Stmt, env map[string]int64) (int64, bool) {
	var evalE func(x ast.Expr) (int64, bool)
	evalE = func(x ast.Expr) (int64, bool) {
		x = ast.Unparen(x)
		if k, ok := constInt(info, x); ok {
			return k, true
		}
		switch t := x.(type) {
		case *ast.Ident:
			v, ok := env[t.Name]
			return v, ok
		case *ast.UnaryExpr:
			if t.Op == token.SUB {
				v, ok := evalE(t.X)
				return -v, ok
			}
		case *ast.BinaryExpr:
			l, ok1 := evalE(t.X)
			r, ok2 := evalE(t.Y)
			if !ok1 || !ok2 {
				return 0, false
			}
			switch t.Op {
			case token.ADD:
				return l + r, true
			case token.SUB:
				return l - r, true
			}
		}
		return 0, false
	}
	evalC := func(x ast.Expr) (bool, bool) {
		be, ok := ast.Unparen(x).(*ast.BinaryExpr)
		if !ok {
			return false, false
		}
		l, ok1 := evalE(be.X)
		r, ok2 := evalE(be.Y)
		if !ok1 || !ok2 {
			return false, false
		}
		switch be.Op {
		case token.LSS:
			return l < r, true
		case token.LEQ:
			return l <= r, true
		case token.GTR:
			return l > r, true
		case token.GEQ:
			return l >= r, true
		case token.EQL:
			return l == r, true
		case token.NEQ:
			return l != r, true
		}
		return false, false
	}
	for _, s := range list {
		switch t := s.(type) {
		case *ast.ReturnStmt:
			if len(t.Results) != 1 {
				return 0, false
			}
			return evalE(t.Results[0])
		case *ast.IfStmt:
			if t.Init != nil {
				return 0, false
			}
			c, ok := evalC(t.Cond)
			if !ok {
				return 0, false
			}
			if c {
				return evalIntFunc(info, t.Body.List, env)
			}
			if t.Else != nil {
				if b, ok := t.Else.(*ast.BlockStmt); ok {
					return evalIntFunc(info, b.List, env)
				}
				return 0, false
			}
		default:
			return 0, false
		}
	}
	return 0, false
}

// RunOpts decides the option-mapping table of runtime.*InputToOptions.
func RunOpts(c *core.Ctx) {
	const src = "S0"
	p := c.Pkg("runtime")
	if p == nil {
		c.Fail("OPTS.anchor", "runtime", "package not found", "", src)
		return
	}
	fns := core.FuncDecls(p)
	type want struct {
		field string
		check func(v string) bool
		desc  string
		rule  string
	}
	flag := func(name string) func(string) bool {
		return func(v string) bool {
			v = strings.ReplaceAll(v, " ", "")
			return v == "input.Flags&protoiface."+name+"!=0" || v == "protoiface."+name+"&input.Flags!=0" || v == "(input.Flags&protoiface."+name+")!=0"
		}
	}
	tables := map[string][]want{
		"SizeInputToOptions": {
			{"Deterministic", flag("MarshalDeterministic"), "input.Flags&MarshalDeterministic != 0", "OPTS.det"},
			{"UseCachedSize", flag("MarshalUseCachedSize"), "input.Flags&MarshalUseCachedSize != 0", "OPTS.map"},
			{"AllowPartial", func(v string) bool { return v == "true" }, "true (required-field check is done by the caller)", "OPTS.map"},
		},
		"MarshalInputToOptions": {
			{"Deterministic", flag("MarshalDeterministic"), "input.Flags&MarshalDeterministic != 0", "OPTS.det"},
			{"UseCachedSize", flag("MarshalUseCachedSize"), "input.Flags&MarshalUseCachedSize != 0", "OPTS.map"},
			{"AllowPartial", func(v string) bool { return v == "true" }, "true", "OPTS.map"},
		},
		"UnmarshalInputToOptions": {
			{"DiscardUnknown", flag("UnmarshalDiscardUnknown"), "input.Flags&UnmarshalDiscardUnknown != 0", "OPTS.discard"},
			{"Resolver", func(v string) bool { return v == "input.Resolver" }, "input.Resolver", "OPTS.map"},
			{"AllowPartial", func(v string) bool { return v == "true" }, "true", "OPTS.map"},
			{"Merge", func(v string) bool { return v == "true" }, "true: a nested decode continues a message the parent kept or just allocated, it must not reset it", "OPTS.merge"},
			{"RecursionLimit", func(v string) bool { return depthExprOK(p, fns, v) }, "a value that is smaller than input.Depth whenever input.Depth > 0 and never 0 (0 means 'default' to proto.UnmarshalOptions), so the nesting budget of the outer decode shrinks at every level", "OPTS.depth"},
		},
	}
	for fn, ws := range tables {
		fd := fns[fn]
		if fd == nil || fd.Body == nil || len(fd.Body.List) != 1 {
			c.Undec("OPTS.map", "runtime."+fn, "function is not a single return of a composite literal", "", src)
			continue
		}
		pos := c.PosStr(p.Fset, fd.Pos())
		rs, ok := fd.Body.List[0].(*ast.ReturnStmt)
		var cl *ast.CompositeLit
		if ok && len(rs.Results) == 1 {
			cl, _ = rs.Results[0].(*ast.CompositeLit)
		}
		if cl == nil {
			c.Undec("OPTS.map", "runtime."+fn, "function is not a single return of a composite literal", pos, src)
			continue
		}
		// the parameter must be called input for the textual forms above; normalise by renaming
		pname := "input"
		if len(fd.Type.Params.List) == 1 && len(fd.Type.Params.List[0].Names) == 1 {
			pname = fd.Type.Params.List[0].Names[0].Name
		}
		vals := map[string]string{}
		for _, e := range cl.Elts {
			kv, ok := e.(*ast.KeyValueExpr)
			if !ok {
				continue
			}
			v := types.ExprString(kv.Value)
			if pname != "input" {
				v = strings.ReplaceAll(v, pname+".", "input.")
			}
			vals[types.ExprString(kv.Key)] = v
		}
		for _, w := range ws {
			con := fmt.Sprintf("runtime.%s field %s", fn, w.field)
			v, present := vals[w.field]
			if !present {
				v = "<zero value>"
			}
			c.Check(present && w.check(v), w.rule, con, w.field+" = "+v, fmt.Sprintf("%s is %s; must be %s", w.field, v, w.desc), pos, src)
		}
	}
}
