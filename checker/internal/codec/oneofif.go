package codec

import (
	"go/ast"
	"go/token"
	"go/types"
)

// oneofIfArm recognises one member of a oneof written as a guarded type assertion instead of a type-switch arm:
//
//	if v, ok := E.(*W); ok && v != nil { body }
//
// (the two operands of && in either order). Exactly one of a run of such statements over the same E can fire, since
// the dynamic type of E is one wrapper type at most; a typed-nil wrapper is skipped as by `if v == nil { break }`.
func oneofIfArm(info *types.Info, is *ast.IfStmt) (on ast.Expr, wrapper string, v types.Object, ok bool) {
	if is.Init == nil || is.Else != nil {
		return nil, "", nil, false
	}
	as, isAs := is.Init.(*ast.AssignStmt)
	if !isAs || as.Tok != token.DEFINE || len(as.Lhs) != 2 || len(as.Rhs) != 1 {
		return nil, "", nil, false
	}
	ta, isTA := ast.Unparen(as.Rhs[0]).(*ast.TypeAssertExpr)
	if !isTA || ta.Type == nil {
		return nil, "", nil, false
	}
	pt, isP := info.TypeOf(ta.Type).(*types.Pointer)
	if !isP {
		return nil, "", nil, false
	}
	named, _ := pt.Elem().(*types.Named)
	vid, _ := as.Lhs[0].(*ast.Ident)
	okid, _ := as.Lhs[1].(*ast.Ident)
	if named == nil || vid == nil || okid == nil || vid.Name == "_" || okid.Name == "_" {
		return nil, "", nil, false
	}
	vObj, okObj := info.Defs[vid], info.Defs[okid]
	be, isB := ast.Unparen(is.Cond).(*ast.BinaryExpr)
	if !isB || be.Op != token.LAND || vObj == nil || okObj == nil {
		return nil, "", nil, false
	}
	isOK := func(e ast.Expr) bool {
		id, isID := ast.Unparen(e).(*ast.Ident)
		return isID && info.Uses[id] == okObj
	}
	isNonNil := func(e ast.Expr) bool {
		c, isC := ast.Unparen(e).(*ast.BinaryExpr)
		if !isC || c.Op != token.NEQ {
			return false
		}
		x, y := ast.Unparen(c.X), ast.Unparen(c.Y)
		if tv, has := info.Types[x]; has && tv.IsNil() {
			x, y = y, x
		}
		id, isID := x.(*ast.Ident)
		tv, has := info.Types[y]
		return isID && info.Uses[id] == vObj && has && tv.IsNil()
	}
	if !((isOK(be.X) && isNonNil(be.Y)) || (isOK(be.Y) && isNonNil(be.X))) {
		return nil, "", nil, false
	}
	return ta.X, named.Obj().Name(), vObj, true
}
