package codec

import (
	"fmt"
	"go/ast"
	"go/token"
	"go/types"
	"strings"

	"verif/checker/internal/core"
	"verif/checker/internal/model"
)

// encBlock is one top-level contribution of the marshal closure, rendered canonically.
type encBlock struct {
	Kind    string // "unknown" | "field" | "oneof"
	Str     string // canonical rendering (wire order)
	Pos     token.Pos
	Arms    []encArm // for oneof
	On      string
	DetInfo []string // DET findings inside this block (problems)
	DetOK   []string // DET obligations discharged (map blocks)
	IfForm  bool     // oneof written as guarded type assertions instead of a type switch
}

type encArm struct {
	Wrapper  string
	Str      string
	NilGuard bool
	Pos      token.Pos
}

// encWalker abstractly executes the marshal closure.
type encWalker struct {
	m     *model.Msg
	e     *env
	polys map[types.Object]Poly // int-valued locals (pksize, …)
	iVar  types.Object          // the cursor `i`
	buf   types.Object          // dAtA
	opts  types.Object          // options
	det   []string
	detOK []string
	// closure for map entries
	closures map[types.Object]*ast.FuncLit
	lenOf    map[types.Object]string // scratch locals holding len(S): local -> term of S
	marks    map[types.Object]func() (Poly, bool) // locals holding an earlier cursor value -> bytes written since
	inlineEntry []W // what the deterministic arm of a closure-less map block writes per entry
	idxMarker string // "idx" or "idx1": how the index variable of the reverse loop just matched relates to the element index
}

func (w *encWalker) isIdent(x ast.Expr, o types.Object) bool {
	id, ok := ast.Unparen(x).(*ast.Ident)
	return ok && o != nil && w.e.info.ObjectOf(id) == o
}

// bufAtI recognises dAtA[i:] / dAtA[i].
func (w *encWalker) bufSliceAtI(x ast.Expr) bool {
	se, ok := ast.Unparen(x).(*ast.SliceExpr)
	return ok && w.isIdent(se.X, w.buf) && w.isIdent(se.Low, w.iVar) && se.High == nil && se.Max == nil
}

func (w *encWalker) bufIndexAtI(x ast.Expr) bool {
	ie, ok := ast.Unparen(x).(*ast.IndexExpr)
	return ok && w.isIdent(ie.X, w.buf) && w.isIdent(ie.Index, w.iVar)
}

// polyOf evaluates an int-typed length expression to a Poly.
func (w *encWalker) polyOf(x ast.Expr, since func() (Poly, bool)) (Poly, error) {
	x = ast.Unparen(x)
	if k, ok := constInt(w.e.info, x); ok {
		return pConst(k), nil
	}
	switch t := x.(type) {
	case *ast.Ident:
		if p, ok := w.polys[w.e.info.ObjectOf(t)]; ok {
			return p, nil
		}
	case *ast.BinaryExpr:
		switch t.Op {
		case token.ADD:
			l, err := w.polyOf(t.X, since)
			if err != nil {
				return nil, err
			}
			r, err := w.polyOf(t.Y, since)
			if err != nil {
				return nil, err
			}
			return l.add(r), nil
		case token.MUL:
			if k, ok := constInt(w.e.info, t.Y); ok {
				l, err := w.polyOf(t.X, since)
				if err != nil {
					return nil, err
				}
				return l.scale(k), nil
			}
			if k, ok := constInt(w.e.info, t.X); ok {
				r, err := w.polyOf(t.Y, since)
				if err != nil {
					return nil, err
				}
				return r.scale(k), nil
			}
		case token.SUB:
			// baseI - i
			if since != nil && w.isIdent(t.Y, w.iVar) {
				if id, ok := ast.Unparen(t.X).(*ast.Ident); ok {
					if s, ok := w.e.lookup(w.e.info.ObjectOf(id)); ok && s == "$baseI" {
						if p, ok := since(); ok {
							return p, nil
						}
					}
				}
			}
			if w.isIdent(t.Y, w.iVar) {
				if id, ok := ast.Unparen(t.X).(*ast.Ident); ok {
					if m := w.marks[w.e.info.ObjectOf(id)]; m != nil {
						if p, ok := m(); ok {
							return p, nil
						}
					}
				}
			}
		}
	case *ast.CallExpr:
		if b, ok := core.CalleeObj(w.e.info, t).(*types.Builtin); ok && b.Name() == "len" {
			s, err := w.e.term(t.Args[0])
			if err != nil {
				return nil, err
			}
			return pAtom("len(" + s + ")"), nil
		}
	}
	return nil, und("length expression %s", types.ExprString(x))
}

// out is a wire-order sentence built by prepending (the buffer is back-filled).
type wout struct {
	ws      []W
	noMerge bool // the next element starts a counted region: it is not merged into the one before
}

func (o *wout) prepend(w W) {
	if o.noMerge {
		o.noMerge = false
		o.ws = append([]W{w}, o.ws...)
		return
	}
	// merge constant tag bytes
	if t, ok := w.(WTag); ok && len(o.ws) > 0 {
		if t2, ok := o.ws[0].(WTag); ok {
			o.ws[0] = WTag{append(append([]byte{}, t.B...), t2.B...)}
			return
		}
	}
	o.ws = append([]W{w}, o.ws...)
}

// stmts executes a statement list; emissions go to out.
func (w *encWalker) stmts(list []ast.Stmt, out *wout, baseMark func() (Poly, bool)) error {
	info := w.e.info
	for i := 0; i < len(list); i++ {
		s := list[i]
		switch t := s.(type) {
		case *ast.IncDecStmt:
			// i--  followed by a one-byte write
			if t.Tok == token.DEC && w.isIdent(t.X, w.iVar) {
				if i+1 >= len(list) {
					return und("i-- without a following write")
				}
				nx := list[i+1]
				if as, ok := nx.(*ast.AssignStmt); ok && len(as.Lhs) == 1 && as.Tok == token.ASSIGN && w.bufIndexAtI(as.Lhs[0]) {
					k, ok := constInt(info, as.Rhs[0])
					if !ok || k < 0 || k > 255 {
						return und("byte written after i-- is not a constant")
					}
					out.prepend(WTag{[]byte{byte(k)}})
					i++
					continue
				}
				if is, ok := nx.(*ast.IfStmt); ok && is.Init == nil && is.Else != nil {
					// if E { dAtA[i] = 1 } else { dAtA[i] = 0 }
					eb, ok := is.Else.(*ast.BlockStmt)
					one := func(b *ast.BlockStmt, want int64) bool {
						if len(b.List) != 1 {
							return false
						}
						as, ok := b.List[0].(*ast.AssignStmt)
						if !ok || len(as.Lhs) != 1 || !w.bufIndexAtI(as.Lhs[0]) {
							return false
						}
						k, ok := constInt(info, as.Rhs[0])
						return ok && k == want
					}
					if ok && one(is.Body, 1) && one(eb, 0) {
						c, err := w.e.term(is.Cond)
						if err != nil {
							return err
						}
						out.prepend(WBool{c})
						i++
						continue
					}
				}
				return und("i-- is not followed by a recognised one-byte write")
			}
			return und("statement %s", nodeStr(s))
		case *ast.AssignStmt:
			// scratch length: l = len(S) (the length of a payload evaluated once)
			if (t.Tok == token.ASSIGN || t.Tok == token.DEFINE) && len(t.Lhs) == 1 && len(t.Rhs) == 1 {
				if id, ok := t.Lhs[0].(*ast.Ident); ok && !w.isIdent(id, w.iVar) && id.Name != "_" {
					if call, ok := ast.Unparen(t.Rhs[0]).(*ast.CallExpr); ok && len(call.Args) == 1 {
						if b, ok := core.CalleeObj(info, call).(*types.Builtin); ok && b.Name() == "len" && basicKind(info.TypeOf(id)) == types.Int {
							src, err := w.e.term(call.Args[0])
							if err != nil {
								return err
							}
							if w.lenOf == nil {
								w.lenOf = map[types.Object]string{}
							}
							o := info.ObjectOf(id)
							w.lenOf[o] = src
							w.polys[o] = pAtom("len(" + src + ")")
							continue
						}
					}
				}
			}
			// i -= X
			if t.Tok == token.SUB_ASSIGN && len(t.Lhs) == 1 && w.isIdent(t.Lhs[0], w.iVar) {
				if i+1 >= len(list) {
					return und("i -= … without a following write")
				}
				nx := list[i+1]
				// i -= k; dAtA[i] = c0; dAtA[i+1] = c1; … : k constant bytes (a multi-byte tag written in one step)
				if k, ok := constInt(info, t.Rhs[0]); ok && k >= 1 && k <= 10 && i+int(k) < len(list) {
					var bs []byte
					for j := int64(0); j < k; j++ {
						as, ok := list[i+1+int(j)].(*ast.AssignStmt)
						if !ok || as.Tok != token.ASSIGN || len(as.Lhs) != 1 || len(as.Rhs) != 1 {
							break
						}
						ie, ok := ast.Unparen(as.Lhs[0]).(*ast.IndexExpr)
						if !ok || !w.isIdent(ie.X, w.buf) {
							break
						}
						okIdx := false
						if j == 0 && w.isIdent(ie.Index, w.iVar) {
							okIdx = true
						} else if be, ok := ast.Unparen(ie.Index).(*ast.BinaryExpr); ok && be.Op == token.ADD && w.isIdent(be.X, w.iVar) {
							if off, ok := constInt(info, be.Y); ok && off == j {
								okIdx = true
							}
						}
						c, isC := constInt(info, as.Rhs[0])
						if !okIdx || !isC || c < 0 || c > 255 {
							break
						}
						bs = append(bs, byte(c))
					}
					if int64(len(bs)) == k {
						out.prepend(WTag{bs})
						i += int(k)
						continue
					}
				}
				// the whole block of a packed fixed-width list reserved at once and filled front to back at fixed offsets:
				//   i -= len(C)*k; for idx, v := range C { binary.LittleEndian.PutUintN(dAtA[i+idx*k:], V(v)) }      (k = 4, 8)
				//   i -= len(C);   for idx, v := range C { if v { dAtA[i+idx] = 1 } else { dAtA[i+idx] = 0 } }          (bool)
				// element idx lands at offset idx*k of the block: the elements in list order, exactly what the reverse
				// element-by-element loop produces
				if blkColl, blkK, ok := w.lenTimes(t.Rhs[0]); ok {
					if rs, isRange := nx.(*ast.RangeStmt); isRange && rs.Tok == token.DEFINE && rs.Key != nil && rs.Value != nil && len(rs.Body.List) == 1 {
						if c2, err := w.e.term(rs.X); err == nil && c2 == blkColl {
							kID, _ := rs.Key.(*ast.Ident)
							vID, _ := rs.Value.(*ast.Ident)
							if kID != nil && vID != nil && kID.Name != "_" {
								idxObj, vObj := info.ObjectOf(kID), info.ObjectOf(vID)
								// dAtA[i+idx*k] / dAtA[i+idx*k:]
								atSlot := func(x ast.Expr) bool {
									be, ok := ast.Unparen(x).(*ast.BinaryExpr)
									if !ok || be.Op != token.ADD || !w.isIdent(be.X, w.iVar) {
										return false
									}
									if blkK == 1 && w.isIdent(be.Y, idxObj) {
										return true
									}
									m, ok := ast.Unparen(be.Y).(*ast.BinaryExpr)
									if !ok || m.Op != token.MUL {
										return false
									}
									if kk, ok := constInt(info, m.Y); ok && kk == blkK && w.isIdent(m.X, idxObj) {
										return true
									}
									if kk, ok := constInt(info, m.X); ok && kk == blkK && w.isIdent(m.Y, idxObj) {
										return true
									}
									return false
								}
								ce := w.e.child()
								ce.set(vObj, "elem("+blkColl+")")
								switch st := rs.Body.List[0].(type) {
								case *ast.ExprStmt:
									if call, ok := st.X.(*ast.CallExpr); ok && len(call.Args) == 2 && (blkK == 4 || blkK == 8) {
										q := core.QualName(core.CalleeObj(info, call))
										want := fmt.Sprintf("encoding/binary.littleEndian.PutUint%d", blkK*8)
										se, isSl := ast.Unparen(call.Args[0]).(*ast.SliceExpr)
										if q == want && isSl && se.High == nil && !se.Slice3 && w.isIdent(se.X, w.buf) && atSlot(se.Low) {
											v, err := ce.term(call.Args[1])
											if err != nil {
												return err
											}
											out.prepend(WLoop{blkColl, []W{WFixed{int(blkK), v}}})
											i++
											continue
										}
									}
								case *ast.IfStmt:
									// if v { dAtA[slot] = 1 } else { dAtA[slot] = 0 }
									eb, hasElse := st.Else.(*ast.BlockStmt)
									if blkK == 1 && st.Init == nil && hasElse && w.isIdent(st.Cond, vObj) && len(st.Body.List) == 1 && len(eb.List) == 1 {
										store := func(s ast.Stmt, want int64) bool {
											as, ok := s.(*ast.AssignStmt)
											if !ok || as.Tok != token.ASSIGN || len(as.Lhs) != 1 || len(as.Rhs) != 1 {
												return false
											}
											ie, ok := ast.Unparen(as.Lhs[0]).(*ast.IndexExpr)
											if !ok || !w.isIdent(ie.X, w.buf) || !atSlot(ie.Index) {
												return false
											}
											c, ok := constInt(info, as.Rhs[0])
											return ok && c == want
										}
										if store(st.Body.List[0], 1) && store(eb.List[0], 0) {
											out.prepend(WLoop{blkColl, []W{WBool{"elem(" + blkColl + ")"}}})
											i++
											continue
										}
									}
								}
							}
						}
					}
				}
				// i -= l with l = len(S): the same as i -= len(S)
				if id, ok := ast.Unparen(t.Rhs[0]).(*ast.Ident); ok {
					if src, ok := w.lenOf[info.ObjectOf(id)]; ok {
						if es, ok := nx.(*ast.ExprStmt); ok {
							if c2, ok := es.X.(*ast.CallExpr); ok {
								if b2, ok := core.CalleeObj(info, c2).(*types.Builtin); ok && b2.Name() == "copy" && len(c2.Args) == 2 && w.bufSliceAtI(c2.Args[0]) {
									s2, err := w.e.term(c2.Args[1])
									if err != nil {
										return err
									}
									if s2 != src {
										return fmt.Errorf("cursor moved by len(%s) but %s is copied", src, s2)
									}
									out.prepend(WRaw{src})
									i++
									continue
								}
							}
						}
						return und("i -= len(%s) is not followed by copy(dAtA[i:], %s)", src, src)
					}
				}
				// fixed width
				if k, ok := constInt(info, t.Rhs[0]); ok && (k == 4 || k == 8) {
					if es, ok := nx.(*ast.ExprStmt); ok {
						if call, ok := es.X.(*ast.CallExpr); ok {
							q := core.QualName(core.CalleeObj(info, call))
							want := "encoding/binary.littleEndian.PutUint32"
							if k == 8 {
								want = "encoding/binary.littleEndian.PutUint64"
							}
							if q == want && len(call.Args) == 2 && w.bufSliceAtI(call.Args[0]) {
								v, err := w.e.term(call.Args[1])
								if err != nil {
									return err
								}
								out.prepend(WFixed{int(k), v})
								i++
								continue
							}
						}
					}
					return und("i -= %d is not followed by binary.LittleEndian.PutUint%d(dAtA[i:], …)", k, k*8)
				}
				// i -= len(S); copy(dAtA[i:], S)
				if call, ok := ast.Unparen(t.Rhs[0]).(*ast.CallExpr); ok {
					if b, ok := core.CalleeObj(info, call).(*types.Builtin); ok && b.Name() == "len" {
						src, err := w.e.term(call.Args[0])
						if err != nil {
							return err
						}
						if es, ok := nx.(*ast.ExprStmt); ok {
							if c2, ok := es.X.(*ast.CallExpr); ok {
								if b2, ok := core.CalleeObj(info, c2).(*types.Builtin); ok && b2.Name() == "copy" && len(c2.Args) == 2 && w.bufSliceAtI(c2.Args[0]) {
									s2, err := w.e.term(c2.Args[1])
									if err != nil {
										return err
									}
									if s2 != src {
										return fmt.Errorf("cursor moved by len(%s) but %s is copied", src, s2)
									}
									out.prepend(WRaw{src})
									i++
									continue
								}
							}
						}
						return und("i -= len(%s) is not followed by copy(dAtA[i:], %s)", src, src)
					}
				}
				// packed varint block: i -= pksize; j := i; forward loop
				if id, ok := ast.Unparen(t.Rhs[0]).(*ast.Ident); ok {
					if pk, ok := w.polys[info.ObjectOf(id)]; ok {
						n, err := w.packedBlock(list[i+1:], pk, out)
						if err != nil {
							return err
						}
						i += n
						continue
					}
				}
				return und("cursor decrement %s", nodeStr(s))
			}
			// i = runtime.EncodeVarint(dAtA, i, E)
			if t.Tok == token.ASSIGN && len(t.Lhs) == 1 && w.isIdent(t.Lhs[0], w.iVar) {
				call, ok := t.Rhs[0].(*ast.CallExpr)
				if ok && core.QualName(core.CalleeObj(info, call)) == core.RepoModule+"/runtime.EncodeVarint" && len(call.Args) == 3 &&
					w.isIdent(call.Args[0], w.buf) && w.isIdent(call.Args[1], w.iVar) {
					arg := ast.Unparen(call.Args[2])
					// uint64(<int length expr>) or a value term
					if conv, ok := arg.(*ast.CallExpr); ok && len(conv.Args) == 1 {
						if tv, ok := info.Types[conv.Fun]; ok && tv.IsType() && basicKind(tv.Type) == types.Uint64 {
							if st := info.TypeOf(conv.Args[0]); st != nil && basicKind(st) == types.Int {
								p, err := w.polyOf(conv.Args[0], baseMark2(out, baseMark))
								if err != nil {
									return err
								}
								out.prepend(WVarint{"nat(" + p.String() + ")"})
								continue
							}
						}
					}
					v, err := w.e.term(arg)
					if err != nil {
						return err
					}
					out.prepend(WVarint{v})
					continue
				}
				// i = runtime.<Helper>(dAtA, i, V): another encoding helper of the runtime package — its body is walked by
				// this same engine with its buffer, cursor and value parameters bound, and what it writes is prepended here
				if ok && len(call.Args) == 3 && w.isIdent(call.Args[0], w.buf) && w.isIdent(call.Args[1], w.iVar) {
					if ws, is, err := w.encodeHelper(call); is {
						if err != nil {
							return err
						}
						for k := len(ws) - 1; k >= 0; k-- {
							out.prepend(ws[k])
						}
						continue
					}
				}
				return und("assignment to the cursor: %s", nodeStr(s))
			}
			// local definitions
			if t.Tok == token.DEFINE {
				// encoded, err := options.Marshal(E)  + error check
				if len(t.Lhs) == 2 && len(t.Rhs) == 1 {
					if call, ok := t.Rhs[0].(*ast.CallExpr); ok {
						q := core.QualName(core.CalleeObj(info, call))
						if q == "google.golang.org/protobuf/proto.MarshalOptions.Marshal" {
							sel := call.Fun.(*ast.SelectorExpr)
							if !w.isIdent(sel.X, w.opts) {
								return fmt.Errorf("nested message is marshalled with %s, not with the closure's options (flags such as Deterministic are lost)", types.ExprString(sel.X))
							}
							arg, err := w.e.term(call.Args[0])
							if err != nil {
								return err
							}
							enc, _ := t.Lhs[0].(*ast.Ident)
							errID, _ := t.Lhs[1].(*ast.Ident)
							if enc == nil || errID == nil || i+1 >= len(list) || !w.isErrReturn(list[i+1], errID) {
								return fmt.Errorf("error of options.Marshal(%s) is not returned", arg)
							}
							w.e.set(info.ObjectOf(enc), "Marshal("+arg+")")
							i++
							continue
						}
						// out, err := MaRsHaLmAp(k, v) handled by the map block
					}
				}
				if len(t.Lhs) == 1 && len(t.Rhs) == 1 {
					id, _ := t.Lhs[0].(*ast.Ident)
					if id != nil {
						// end := i — remembers the cursor; `end - i` later is the number of bytes written in between
						if w.isIdent(t.Rhs[0], w.iVar) {
							if t.Tok != token.DEFINE {
								return und("cursor copy %s into an existing variable", id.Name)
							}
							n0 := len(out.ws)
							out.noMerge = true // bytes written from here on are counted on their own
							if w.marks == nil {
								w.marks = map[types.Object]func() (Poly, bool){}
							}
							o := out
							w.marks[info.ObjectOf(id)] = func() (Poly, bool) {
								if len(o.ws) < n0 {
									return nil, false
								}
								return sizeOf(o.ws[:len(o.ws)-n0], false), true
							}
							continue
						}
						if fl, ok := t.Rhs[0].(*ast.FuncLit); ok {
							w.closures[info.ObjectOf(id)] = fl
							continue
						}
						// pksize := runtime.SovPacked(x.F): a summing helper of the runtime package
						if call, ok := ast.Unparen(t.Rhs[0]).(*ast.CallExpr); ok && basicKind(info.TypeOf(t.Rhs[0])) == types.Int {
							if p, is, err := helperSum(info, call, w.e.term); is {
								if err != nil {
									return err
								}
								w.polys[info.ObjectOf(id)] = p
								continue
							}
						}
						v, err := w.e.term(t.Rhs[0])
						if err != nil {
							return err
						}
						w.e.set(info.ObjectOf(id), v)
						continue
					}
				}
			}
			return und("statement %s", nodeStr(s))
		case *ast.DeclStmt:
			// var pksize int
			gd, ok := t.Decl.(*ast.GenDecl)
			if ok && gd.Tok == token.VAR && len(gd.Specs) == 1 {
				vs := gd.Specs[0].(*ast.ValueSpec)
				if len(vs.Names) == 1 && len(vs.Values) == 0 && basicKind(info.TypeOf(vs.Type)) == types.Int {
					// accumulator: next statement must be the summing loop
					acc := info.ObjectOf(vs.Names[0])
					if i+1 < len(list) {
						if rs, ok := list[i+1].(*ast.RangeStmt); ok {
							p, err := w.sumLoop(rs, acc)
							if err != nil {
								return err
							}
							w.polys[acc] = p
							i++
							continue
						}
					}
				}
			}
			return und("declaration %s", nodeStr(s))
		case *ast.IfStmt:
			return und("nested if %s", nodeStr(t.Cond))
		case *ast.ForStmt:
			coll, idx, ok := w.reverseLoop(t)
			if !ok {
				return und("loop %s is not the reverse index loop", nodeStr(t))
			}
			sub := &wout{}
			ce := w.e.child()
			ce.set(idx, w.idxMarker+"("+coll+")")
			saved := w.e
			w.e = ce
			err := w.stmts(t.Body.List, sub, nil)
			w.e = saved
			if err != nil {
				return err
			}
			out.prepend(WLoop{coll, sub.ws})
		default:
			return und("statement %s", nodeStr(s))
		}
	}
	return nil
}

// lenTimes matches len(C) (k = 1), len(C)*k and k*len(C) for a list C of the message.
func (w *encWalker) lenTimes(x ast.Expr) (string, int64, bool) {
	info := w.e.info
	x = ast.Unparen(x)
	k := int64(1)
	if be, ok := x.(*ast.BinaryExpr); ok && be.Op == token.MUL {
		if c, ok := constInt(info, be.Y); ok {
			k, x = c, ast.Unparen(be.X)
		} else if c, ok := constInt(info, be.X); ok {
			k, x = c, ast.Unparen(be.Y)
		} else {
			return "", 0, false
		}
	}
	call, ok := x.(*ast.CallExpr)
	if !ok || len(call.Args) != 1 {
		return "", 0, false
	}
	if b, ok := core.CalleeObj(info, call).(*types.Builtin); !ok || b.Name() != "len" {
		return "", 0, false
	}
	if _, isSlice := info.TypeOf(call.Args[0]).Underlying().(*types.Slice); !isSlice {
		return "", 0, false
	}
	coll, err := w.e.term(call.Args[0])
	if err != nil || (k != 1 && k != 4 && k != 8) {
		return "", 0, false
	}
	return coll, k, true
}

func baseMark2(out *wout, mark func() (Poly, bool)) func() (Poly, bool) {
	return mark
}

func nodeStr(n ast.Node) string {
	switch t := n.(type) {
	case ast.Expr:
		return clipS(types.ExprString(t), 80)
	case *ast.AssignStmt:
		var l, r []string
		for _, x := range t.Lhs {
			l = append(l, types.ExprString(x))
		}
		for _, x := range t.Rhs {
			r = append(r, types.ExprString(x))
		}
		return clipS(strings.Join(l, ",")+" "+t.Tok.String()+" "+strings.Join(r, ","), 80)
	case *ast.ExprStmt:
		return clipS(types.ExprString(t.X), 80)
	case *ast.IncDecStmt:
		return types.ExprString(t.X) + t.Tok.String()
	}
	return fmt.Sprintf("%T", n)
}

func clipS(s string, n int) string {
	if len(s) > n {
		return s[:n] + "…"
	}
	return s
}

// isErrReturn: `if err != nil { return <any>, err }`
func (w *encWalker) isErrReturn(s ast.Stmt, errID *ast.Ident) bool {
	is, ok := s.(*ast.IfStmt)
	if !ok || is.Init != nil || is.Else != nil || len(is.Body.List) != 1 {
		return false
	}
	be, ok := is.Cond.(*ast.BinaryExpr)
	if !ok || be.Op != token.NEQ || !w.isIdent(be.X, w.e.info.ObjectOf(errID)) {
		return false
	}
	if id, ok := be.Y.(*ast.Ident); !ok || id.Name != "nil" {
		return false
	}
	rs, ok := is.Body.List[0].(*ast.ReturnStmt)
	if !ok || len(rs.Results) < 1 || len(rs.Results) > 2 {
		return false
	}
	// (…, err) in the marshal closure; a bare err in a helper closure that returns nothing but the error
	return w.isIdent(rs.Results[len(rs.Results)-1], w.e.info.ObjectOf(errID))
}

// reverseLoop recognises `for idx := len(C) - 1; idx >= 0; idx--`.
func (w *encWalker) reverseLoop(fs *ast.ForStmt) (string, types.Object, bool) {
	info := w.e.info
	init, ok := fs.Init.(*ast.AssignStmt)
	if !ok || init.Tok != token.DEFINE || len(init.Lhs) != 1 {
		return "", nil, false
	}
	iv, ok := init.Lhs[0].(*ast.Ident)
	if !ok {
		return "", nil, false
	}
	// for i := len(C)-1; i >= 0; i-- { … C[i] … }   or   for i := len(C); i > 0; i-- { … C[i-1] … }
	w.idxMarker = "idx"
	lenExpr := ast.Unparen(init.Rhs[0])
	wantOp, wantK := token.GEQ, int64(0)
	if be, ok := lenExpr.(*ast.BinaryExpr); ok {
		if be.Op != token.SUB {
			return "", nil, false
		}
		if k, ok := constInt(info, be.Y); !ok || k != 1 {
			return "", nil, false
		}
		lenExpr = ast.Unparen(be.X)
	} else {
		w.idxMarker = "idx1"
		wantOp = token.GTR
	}
	call, ok := lenExpr.(*ast.CallExpr)
	if !ok {
		return "", nil, false
	}
	if b, ok := core.CalleeObj(info, call).(*types.Builtin); !ok || b.Name() != "len" {
		return "", nil, false
	}
	coll, err := w.e.term(call.Args[0])
	if err != nil {
		return "", nil, false
	}
	cond, ok := fs.Cond.(*ast.BinaryExpr)
	if !ok || cond.Op != wantOp || !w.isIdent(cond.X, info.ObjectOf(iv)) {
		return "", nil, false
	}
	if k, ok := constInt(info, cond.Y); !ok || k != wantK {
		return "", nil, false
	}
	post, ok := fs.Post.(*ast.IncDecStmt)
	if !ok || post.Tok != token.DEC || !w.isIdent(post.X, info.ObjectOf(iv)) {
		return "", nil, false
	}
	// the index variable must not be assigned in the body
	bad := false
	ast.Inspect(fs.Body, func(n ast.Node) bool {
		switch t := n.(type) {
		case *ast.AssignStmt:
			for _, l := range t.Lhs {
				if w.isIdent(l, info.ObjectOf(iv)) {
					bad = true
				}
			}
		case *ast.IncDecStmt:
			if w.isIdent(t.X, info.ObjectOf(iv)) {
				bad = true
			}
		}
		return true
	})
	if bad {
		return "", nil, false
	}
	return coll, info.ObjectOf(iv), true
}

// sumLoop: for _, e := range C { acc += F(e) }  ==> sum(C){F(elem(C))}
func (w *encWalker) sumLoop(rs *ast.RangeStmt, acc types.Object) (Poly, error) {
	info := w.e.info
	coll, err := w.e.term(rs.X)
	if err != nil {
		return nil, err
	}
	if rs.Key != nil {
		if id, ok := rs.Key.(*ast.Ident); !ok || id.Name != "_" {
			return nil, und("summing loop uses the index")
		}
	}
	ev, _ := rs.Value.(*ast.Ident)
	if ev == nil || len(rs.Body.List) != 1 {
		return nil, und("summing loop form")
	}
	as, ok := rs.Body.List[0].(*ast.AssignStmt)
	if !ok || as.Tok != token.ADD_ASSIGN || !w.isIdent(as.Lhs[0], acc) {
		return nil, und("summing loop body is not acc += …")
	}
	ce := w.e.child()
	ce.set(info.ObjectOf(ev), "elem("+coll+")")
	t, err := ce.term(as.Rhs[0])
	if err != nil {
		return nil, err
	}
	if !strings.HasPrefix(t, "Sov(") {
		return nil, und("summing loop adds %s, expected a varint size", t)
	}
	return pAtom("sum(" + coll + "){" + t + "}"), nil
}

// packedBlock: j := i; for _, e := range C { [num := T(e)]; for num >= 1<<7 { dAtA[j] = uint8(uint64(num)&0x7f|0x80); num >>= 7; j++ }; dAtA[j] = uint8(num); j++ }
// Verified facts: the region reserved (pk) equals the sum of the minimal varint sizes of exactly the values written.
func (w *encWalker) packedBlock(list []ast.Stmt, pk Poly, out *wout) (int, error) {
	info := w.e.info
	if len(list) < 2 {
		return 0, und("packed block too short")
	}
	as, ok := list[0].(*ast.AssignStmt)
	if !ok || as.Tok != token.DEFINE || len(as.Lhs) != 1 || !w.isIdent(as.Rhs[0], w.iVar) {
		return 0, und("packed block: expected j := i after reserving the region")
	}
	jv := info.ObjectOf(as.Lhs[0].(*ast.Ident))
	rs, ok := list[1].(*ast.RangeStmt)
	if !ok {
		return 0, und("packed block: expected a range loop over the elements")
	}
	coll, err := w.e.term(rs.X)
	if err != nil {
		return 0, err
	}
	if rs.Key != nil {
		if id, ok := rs.Key.(*ast.Ident); !ok || id.Name != "_" {
			return 0, und("packed loop uses the index")
		}
	}
	ev, _ := rs.Value.(*ast.Ident)
	if ev == nil {
		return 0, und("packed loop has no element variable")
	}
	ce := w.e.child()
	ce.set(info.ObjectOf(ev), "elem("+coll+")")
	body := rs.Body.List
	// optional transform:  v := T(e)
	cur := info.ObjectOf(ev)
	curTerm := "elem(" + coll + ")"
	if len(body) > 0 {
		if d, ok := body[0].(*ast.AssignStmt); ok && d.Tok == token.DEFINE && len(d.Lhs) == 1 {
			t, err := ce.term(d.Rhs[0])
			if err != nil {
				return 0, err
			}
			cur = info.ObjectOf(d.Lhs[0].(*ast.Ident))
			curTerm = t
			body = body[1:]
		}
	}
	// value encoded: uint64(cur) semantics
	ct := cur.Type()
	val := curTerm
	if isSigned(ct) {
		val = "sx(" + curTerm + ")"
	}
	// j += binary.PutUvarint(dAtA[j:], V): the library writes the minimal varint of V at j and reports its length
	if len(body) == 1 {
		if as, ok := body[0].(*ast.AssignStmt); ok && as.Tok == token.ADD_ASSIGN && len(as.Lhs) == 1 && len(as.Rhs) == 1 && w.isIdent(as.Lhs[0], jv) {
			if call, ok := ast.Unparen(as.Rhs[0]).(*ast.CallExpr); ok && len(call.Args) == 2 && core.QualName(core.CalleeObj(info, call)) == "encoding/binary.PutUvarint" {
				se, ok := ast.Unparen(call.Args[0]).(*ast.SliceExpr)
				if !ok || se.High != nil || se.Slice3 || !w.isIdent(se.X, w.buf) || !w.isIdent(se.Low, jv) {
					return 0, und("packed varint: PutUvarint does not write at the forward cursor")
				}
				v, err := ce.term(call.Args[1])
				if err != nil {
					return 0, err
				}
				if cur != info.ObjectOf(ev) {
					v = strings.ReplaceAll(v, cur.Name(), curTerm)
				}
				want := pAtom("sum(" + coll + "){Sov(" + v + ")}")
				if want.String() != pk.String() {
					return 0, fmt.Errorf("packed block reserves %s bytes but writes %s", pk.String(), want.String())
				}
				out.prepend(WLoop{coll, []W{WVarint{v}}})
				return 2, nil
			}
		}
	}
	if len(body) != 3 {
		return 0, und("packed inline varint: expected loop, final store, increment")
	}
	fl, ok := body[0].(*ast.ForStmt)
	if !ok || fl.Init != nil || fl.Post != nil {
		return 0, und("packed inline varint loop form")
	}
	cond, ok := fl.Cond.(*ast.BinaryExpr)
	if !ok || cond.Op != token.GEQ || !w.isIdent(cond.X, cur) {
		return 0, und("packed inline varint loop condition")
	}
	if k, ok := constInt(info, cond.Y); !ok || k != 128 {
		return 0, und("packed inline varint loop bound is not 1<<7")
	}
	if isSigned(ct) {
		return 0, fmt.Errorf("packed inline varint shifts a signed value (arithmetic shift never terminates for negatives)")
	}
	// loop body: store cont byte; shift; j++ (shift and j++ in either order)
	var sawStore, sawShift, sawInc bool
	for k, st := range fl.Body.List {
		switch t := st.(type) {
		case *ast.AssignStmt:
			if t.Tok == token.ASSIGN && len(t.Lhs) == 1 {
				if ie, ok := t.Lhs[0].(*ast.IndexExpr); ok && w.isIdent(ie.X, w.buf) && w.isIdent(ie.Index, jv) {
					if k != 0 || !w.isContByte(t.Rhs[0], cur) {
						return 0, und("packed inline varint: continuation byte form")
					}
					sawStore = true
					continue
				}
			}
			if t.Tok == token.SHR_ASSIGN && w.isIdent(t.Lhs[0], cur) {
				if kk, ok := constInt(info, t.Rhs[0]); ok && kk == 7 && sawStore {
					sawShift = true
					continue
				}
			}
			return 0, und("packed inline varint loop statement %s", nodeStr(st))
		case *ast.IncDecStmt:
			if t.Tok == token.INC && w.isIdent(t.X, jv) && sawStore {
				sawInc = true
				continue
			}
			return 0, und("packed inline varint loop statement %s", nodeStr(st))
		default:
			return 0, und("packed inline varint loop statement %s", nodeStr(st))
		}
	}
	if !(sawStore && sawShift && sawInc) || len(fl.Body.List) != 3 {
		return 0, und("packed inline varint loop must store, shift by 7 and advance")
	}
	fin, ok := body[1].(*ast.AssignStmt)
	if !ok || fin.Tok != token.ASSIGN || len(fin.Lhs) != 1 {
		return 0, und("packed inline varint final store")
	}
	ie, ok := fin.Lhs[0].(*ast.IndexExpr)
	if !ok || !w.isIdent(ie.X, w.buf) || !w.isIdent(ie.Index, jv) || !w.isLastByte(fin.Rhs[0], cur) {
		return 0, und("packed inline varint final store form")
	}
	inc, ok := body[2].(*ast.IncDecStmt)
	if !ok || inc.Tok != token.INC || !w.isIdent(inc.X, jv) {
		return 0, und("packed inline varint final increment")
	}
	// reserved size must be exactly the bytes written
	want := pAtom("sum(" + coll + "){Sov(" + val + ")}")
	if want.String() != pk.String() {
		return 0, fmt.Errorf("packed block reserves %s bytes but writes %s", pk.String(), want.String())
	}
	out.prepend(WLoop{coll, []W{WVarint{val}}})
	return 2, nil
}

func (w *encWalker) isContByte(x ast.Expr, v types.Object) bool {
	// uint8(uint64(v)&0x7f | 0x80)
	info := w.e.info
	c, ok := ast.Unparen(x).(*ast.CallExpr)
	if !ok || len(c.Args) != 1 {
		return false
	}
	if tv, ok := info.Types[c.Fun]; !ok || !tv.IsType() || basicKind(tv.Type) != types.Uint8 {
		return false
	}
	or, ok := ast.Unparen(c.Args[0]).(*ast.BinaryExpr)
	if !ok || or.Op != token.OR {
		return false
	}
	if k, ok := constInt(info, or.Y); !ok || k != 0x80 {
		return false
	}
	and, ok := ast.Unparen(or.X).(*ast.BinaryExpr)
	if !ok || and.Op != token.AND {
		return false
	}
	if k, ok := constInt(info, and.Y); !ok || k != 0x7f {
		return false
	}
	inner := ast.Unparen(and.X)
	if c2, ok := inner.(*ast.CallExpr); ok && len(c2.Args) == 1 {
		if tv, ok := info.Types[c2.Fun]; ok && tv.IsType() && isUnsigned(tv.Type) {
			inner = ast.Unparen(c2.Args[0])
		}
	}
	return w.isIdent(inner, v)
}

func (w *encWalker) isLastByte(x ast.Expr, v types.Object) bool {
	info := w.e.info
	c, ok := ast.Unparen(x).(*ast.CallExpr)
	if !ok || len(c.Args) != 1 {
		return false
	}
	if tv, ok := info.Types[c.Fun]; !ok || !tv.IsType() || basicKind(tv.Type) != types.Uint8 {
		return false
	}
	return w.isIdent(c.Args[0], v)
}

// ---------------------------------------------------------------------------

// extractMarshal walks the marshal closure and returns its top-level blocks
// (in statement order = reverse wire order) plus prologue/epilogue findings.
type marshalModel struct {
	Blocks   []*encBlock
	Problems []string // structural problems of prologue/epilogue
	OptsOK   bool
	Walker   *encWalker
}

func extractMarshal(m *model.Msg) (*marshalModel, error) {
	fl := m.Marshal
	info := m.Pkg.Info
	mm := &marshalModel{}
	e := newEnv(m)
	w := &encWalker{m: m, e: e, polys: map[types.Object]Poly{}, closures: map[types.Object]*ast.FuncLit{}}
	mm.Walker = w
	list := fl.Body.List
	pos := 0
	// prologue
	var sizeVar types.Object
	var inputVar types.Object
	if len(fl.Type.Params.List) == 1 && len(fl.Type.Params.List[0].Names) == 1 {
		inputVar = info.ObjectOf(fl.Type.Params.List[0].Names[0])
	}
	var lVar types.Object
	// the window form: `var buf []byte; if input.Buf == nil { buf = make([]byte, size) } else { buf = append(input.Buf,
	// make([]byte, size)...) }; dAtA := buf[len(input.Buf):]` — the encoding is written into the tail of the grown
	// destination and `buf` is what the final return hands back
	var outBuf, outBufDecl types.Object
	isInputBuf := func(x ast.Expr) bool {
		sel, ok := ast.Unparen(x).(*ast.SelectorExpr)
		return ok && sel.Sel.Name == "Buf" && inputVar != nil && w.isIdent(sel.X, inputVar)
	}
	isMakeSize := func(x ast.Expr) bool {
		call, ok := ast.Unparen(x).(*ast.CallExpr)
		if !ok || len(call.Args) != 2 || sizeVar == nil {
			return false
		}
		b, ok := core.CalleeObj(info, call).(*types.Builtin)
		return ok && b.Name() == "make" && w.isIdent(call.Args[1], sizeVar) && types.ExprString(call.Args[0]) == "[]byte"
	}
	for ; pos < len(list); pos++ {
		s := list[pos]
		switch t := s.(type) {
		case *ast.AssignStmt:
			if t.Tok == token.DEFINE && len(t.Lhs) == 1 && len(t.Rhs) == 1 {
				id := t.Lhs[0].(*ast.Ident)
				rhs := ast.Unparen(t.Rhs[0])
				if se, ok := rhs.(*ast.SliceExpr); ok && outBuf != nil && w.buf == nil && se.High == nil && !se.Slice3 && w.isIdent(se.X, outBuf) {
					if call, ok := ast.Unparen(se.Low).(*ast.CallExpr); ok && len(call.Args) == 1 && isInputBuf(call.Args[0]) {
						if b, ok := core.CalleeObj(info, call).(*types.Builtin); ok && b.Name() == "len" {
							w.buf = info.ObjectOf(id)
							continue
						}
					}
				}
				// x := input.Message.Interface().(*T)
				if ta, ok := rhs.(*ast.TypeAssertExpr); ok {
					if strings.HasSuffix(types.ExprString(ta.X), ".Message.Interface()") {
						if pt, ok := info.TypeOf(ta.Type).(*types.Pointer); ok && types.Identical(pt.Elem(), m.Named) {
							e.msgVar = info.ObjectOf(id)
							continue
						}
					}
					return nil, und("prologue: message variable %s", nodeStr(s))
				}
				if call, ok := rhs.(*ast.CallExpr); ok {
					q := core.QualName(core.CalleeObj(info, call))
					switch {
					case q == core.RepoModule+"/runtime.MarshalInputToOptions":
						if len(call.Args) == 1 && w.isIdent(call.Args[0], inputVar) {
							w.opts = info.ObjectOf(id)
							e.set(w.opts, "options")
							mm.OptsOK = true
							continue
						}
					case q == "google.golang.org/protobuf/proto.MarshalOptions.Size":
						sel := call.Fun.(*ast.SelectorExpr)
						if w.isIdent(sel.X, w.opts) && w.isIdent(call.Args[0], e.msgVar) {
							sizeVar = info.ObjectOf(id)
							continue
						}
					}
					if b, ok := core.CalleeObj(info, call).(*types.Builtin); ok {
						if b.Name() == "make" && len(call.Args) == 2 && w.isIdent(call.Args[1], sizeVar) && types.ExprString(call.Args[0]) == "[]byte" {
							w.buf = info.ObjectOf(id)
							continue
						}
						if b.Name() == "len" && w.isIdent(call.Args[0], w.buf) {
							w.iVar = info.ObjectOf(id)
							continue
						}
					}
				}
			}
			if t.Tok == token.ASSIGN && len(t.Lhs) == 1 {
				if id, ok := t.Lhs[0].(*ast.Ident); ok && id.Name == "_" {
					continue
				}
			}
		case *ast.DeclStmt:
			if gd, ok := t.Decl.(*ast.GenDecl); ok && gd.Tok == token.VAR {
				vs := gd.Specs[0].(*ast.ValueSpec)
				if len(vs.Names) == 1 && len(vs.Values) == 0 {
					if sizeVar != nil && w.buf == nil && types.ExprString(vs.Type) == "[]byte" {
						outBufDecl = info.ObjectOf(vs.Names[0])
						continue
					}
					lVar = info.ObjectOf(vs.Names[0])
					continue
				}
			}
		case *ast.IfStmt:
			if eb, isBlock := t.Else.(*ast.BlockStmt); isBlock && t.Init == nil && outBufDecl != nil && outBuf == nil && len(t.Body.List) == 1 && len(eb.List) == 1 {
				if be, ok := ast.Unparen(t.Cond).(*ast.BinaryExpr); ok && (be.Op == token.EQL || be.Op == token.NEQ) && isInputBuf(be.X) && types.ExprString(be.Y) == "nil" {
					fresh, grown := t.Body.List[0], eb.List[0]
					if be.Op == token.NEQ {
						fresh, grown = grown, fresh
					}
					rhsOf := func(st ast.Stmt) ast.Expr {
						as, ok := st.(*ast.AssignStmt)
						if !ok || as.Tok != token.ASSIGN || len(as.Lhs) != 1 || len(as.Rhs) != 1 || !w.isIdent(as.Lhs[0], outBufDecl) {
							return nil
						}
						return as.Rhs[0]
					}
					okGrown := false
					if call, ok := rhsOf(grown).(*ast.CallExpr); ok && len(call.Args) == 2 && call.Ellipsis.IsValid() && isInputBuf(call.Args[0]) && isMakeSize(call.Args[1]) {
						if b, ok := core.CalleeObj(info, call).(*types.Builtin); ok && b.Name() == "append" {
							okGrown = true
						}
					}
					if f := rhsOf(fresh); f != nil && isMakeSize(f) && okGrown {
						outBuf = outBufDecl
						continue
					}
				}
			}
			// if x == nil { return MarshalOutput{…Buf: input.Buf}, nil }
			if c, err := e.cond(t.Cond); err == nil && c == "isnil(x)" && e.msgVar != nil && w.iVar == nil {
				okRet := false
				if len(t.Body.List) == 1 {
					if rs, ok := t.Body.List[0].(*ast.ReturnStmt); ok && len(rs.Results) == 2 && types.ExprString(rs.Results[1]) == "nil" {
						if cl, ok := rs.Results[0].(*ast.CompositeLit); ok {
							for _, el := range cl.Elts {
								if kv, ok := el.(*ast.KeyValueExpr); ok && types.ExprString(kv.Key) == "Buf" && strings.HasSuffix(types.ExprString(kv.Value), ".Buf") {
									okRet = true
								}
							}
						}
					}
				}
				if !okRet {
					mm.Problems = append(mm.Problems, "nil message early return does not return the input buffer unchanged with a nil error")
				}
				continue
			}
		}
		break
	}
	_ = lVar
	if e.msgVar == nil || w.opts == nil || w.buf == nil || w.iVar == nil {
		return nil, und("prologue not recognised (message variable / options / buffer sized by options.Size / cursor)")
	}
	// body blocks until the epilogue `if input.Buf != nil`
	for ; pos < len(list); pos++ {
		s := list[pos]
		is, ok := s.(*ast.IfStmt)
		if ok && is.Init == nil {
			cs := types.ExprString(is.Cond)
			if strings.HasSuffix(cs, ".Buf != nil") || strings.HasSuffix(cs, ".Buf == nil") {
				break
			}
			c, err := e.cond(is.Cond)
			if err != nil {
				return nil, err
			}
			if is.Else != nil {
				return nil, und("top-level if/else")
			}
			out := &wout{}
			w.det, w.detOK = nil, nil
			// map block?
			if mb, err, isMap := w.mapBlock(is.Body.List, out); isMap {
				if err != nil {
					return nil, fmt.Errorf("map block at line %d: %w", m.Pkg.Fset.Position(is.Pos()).Line, err)
				}
				_ = mb
			} else if mb, err, isMap := w.mapBlockInline(is.Body.List, out); isMap {
				if err != nil {
					return nil, fmt.Errorf("map block at line %d: %w", m.Pkg.Fset.Position(is.Pos()).Line, err)
				}
				_ = mb
			} else if err := w.stmts(is.Body.List, out, nil); err != nil {
				return nil, wrapPos(m, is.Pos(), err)
			}
			kind := "field"
			if c == "nonnil(x.unknownFields)" || c == "nonempty(x.unknownFields)" {
				// both guards only skip copying zero bytes
				kind, c = "unknown", "nonnil(x.unknownFields)"
			}
			mm.Blocks = append(mm.Blocks, &encBlock{Kind: kind, Str: "if(" + c + "){" + render(out.ws) + "}", Pos: is.Pos(), DetInfo: w.det, DetOK: w.detOK})
			continue
		}
		if ts, ok := s.(*ast.TypeSwitchStmt); ok {
			blk, err := w.oneofSwitch(ts)
			if err != nil {
				return nil, wrapPos(m, ts.Pos(), err)
			}
			mm.Blocks = append(mm.Blocks, blk)
			continue
		}
		// a oneof member as `if v, ok := x.O.(*W); ok && v != nil { … }`: consecutive ones over the same oneof form one block
		if ok && is.Init != nil {
			if onX, wrapper, vObj, isArm := oneofIfArm(info, is); isArm {
				on, err := w.e.term(onX)
				if err != nil {
					return nil, wrapPos(m, is.Pos(), err)
				}
				arm := encArm{Wrapper: wrapper, Pos: is.Pos(), NilGuard: true}
				saved := w.e
				w.e = w.e.child()
				w.e.set(vObj, "w")
				out := &wout{}
				err = w.stmts(is.Body.List, out, nil)
				w.e = saved
				if err != nil {
					return nil, wrapPos(m, is.Pos(), err)
				}
				arm.Str = render(out.ws)
				if n := len(mm.Blocks); n > 0 && mm.Blocks[n-1].Kind == "oneof" && mm.Blocks[n-1].On == on && mm.Blocks[n-1].IfForm {
					mm.Blocks[n-1].Arms = append(mm.Blocks[n-1].Arms, arm)
				} else {
					mm.Blocks = append(mm.Blocks, &encBlock{Kind: "oneof", On: on, Pos: is.Pos(), Arms: []encArm{arm}, IfForm: true})
				}
				continue
			}
		}
		// the unknown bytes copied without a guard: i -= len(x.unknownFields); copy(dAtA[i:], x.unknownFields)
		// (copying a nil slice copies nothing, so this equals the guarded form)
		if pos+1 < len(list) {
			out := &wout{}
			if err := w.stmts(list[pos:pos+2], out, nil); err == nil && render(out.ws) == "raw(x.unknownFields)" {
				mm.Blocks = append(mm.Blocks, &encBlock{Kind: "unknown", Str: "if(nonnil(x.unknownFields)){raw(x.unknownFields)}", Pos: s.Pos()})
				pos++
				continue
			}
		}
		// an unpacked list written by a bare reverse loop: the loop does nothing for an empty list, so it equals the
		// loop wrapped in `if len(x.F) > 0 { … }`
		if fs, ok := s.(*ast.ForStmt); ok {
			out := &wout{}
			w.det, w.detOK = nil, nil
			if err := w.stmts([]ast.Stmt{fs}, out, nil); err != nil {
				return nil, wrapPos(m, s.Pos(), err)
			}
			if len(out.ws) == 1 {
				if wl, ok := out.ws[0].(WLoop); ok {
					mm.Blocks = append(mm.Blocks, &encBlock{Kind: "field", Str: "if(nonempty(" + wl.Coll + ")){" + render(out.ws) + "}", Pos: s.Pos(), DetInfo: w.det, DetOK: w.detOK})
					continue
				}
			}
		}
		// the window form's single final return: the grown destination itself
		if outBuf != nil {
			if rs, ok := s.(*ast.ReturnStmt); ok && pos == len(list)-1 && len(rs.Results) == 2 && types.ExprString(rs.Results[1]) == "nil" {
				if cl, ok := rs.Results[0].(*ast.CompositeLit); ok {
					for _, el := range cl.Elts {
						if kv, ok := el.(*ast.KeyValueExpr); ok && types.ExprString(kv.Key) == "Buf" && w.isIdent(kv.Value, outBuf) {
							return mm, nil
						}
					}
				}
				mm.Problems = append(mm.Problems, "final return does not return the grown destination buffer with a nil error")
				return mm, nil
			}
		}
		return nil, wrapPos(m, s.Pos(), und("top-level statement %s", nodeStr(s)))
	}
	// epilogue
	if pos >= len(list) {
		mm.Problems = append(mm.Problems, "epilogue `if input.Buf != nil` not found")
		return mm, nil
	}
	ep := list[pos].(*ast.IfStmt)
	// equivalent epilogue with early return: `if input.Buf == nil { return {Buf: dAtA}, nil }; return {Buf: append(input.Buf, dAtA...)}, nil`
	// (or the mirrored test)
	{
		bufOf := func(st ast.Stmt) ast.Expr {
			rs, ok := st.(*ast.ReturnStmt)
			if !ok || len(rs.Results) != 2 || types.ExprString(rs.Results[1]) != "nil" {
				return nil
			}
			cl, ok := rs.Results[0].(*ast.CompositeLit)
			if !ok {
				return nil
			}
			for _, el := range cl.Elts {
				if kv, ok := el.(*ast.KeyValueExpr); ok && types.ExprString(kv.Key) == "Buf" {
					return kv.Value
				}
			}
			return nil
		}
		isFresh := func(x ast.Expr) bool { return x != nil && w.isIdent(x, w.buf) }
		isAppend := func(x ast.Expr) bool {
			call, ok := x.(*ast.CallExpr)
			if !ok || len(call.Args) != 2 || !call.Ellipsis.IsValid() {
				return false
			}
			b, ok := core.CalleeObj(info, call).(*types.Builtin)
			return ok && b.Name() == "append" && strings.HasSuffix(types.ExprString(call.Args[0]), ".Buf") && w.isIdent(call.Args[1], w.buf)
		}
		if ep.Else == nil && len(ep.Body.List) == 1 && pos == len(list)-2 {
			inner, outer := bufOf(ep.Body.List[0]), bufOf(list[pos+1])
			isNil := strings.HasSuffix(types.ExprString(ep.Cond), ".Buf == nil")
			if inner != nil && outer != nil {
				if (isNil && isFresh(inner) && isAppend(outer)) || (!isNil && isAppend(inner) && isFresh(outer)) {
					return mm, nil
				}
			}
		}
	}
	okThen, okElse := false, false
	if len(ep.Body.List) == 1 {
		if as, ok := ep.Body.List[0].(*ast.AssignStmt); ok && strings.HasSuffix(types.ExprString(as.Lhs[0]), ".Buf") {
			if call, ok := as.Rhs[0].(*ast.CallExpr); ok && len(call.Args) == 2 && call.Ellipsis.IsValid() {
				if b, ok := core.CalleeObj(info, call).(*types.Builtin); ok && b.Name() == "append" &&
					strings.HasSuffix(types.ExprString(call.Args[0]), ".Buf") && w.isIdent(call.Args[1], w.buf) {
					okThen = true
				}
			}
		}
	}
	if eb, ok := ep.Else.(*ast.BlockStmt); ok && len(eb.List) == 1 {
		if as, ok := eb.List[0].(*ast.AssignStmt); ok && strings.HasSuffix(types.ExprString(as.Lhs[0]), ".Buf") && w.isIdent(as.Rhs[0], w.buf) {
			okElse = true
		}
	}
	if !okThen || !okElse {
		mm.Problems = append(mm.Problems, "epilogue is not `if input.Buf != nil { input.Buf = append(input.Buf, dAtA...) } else { input.Buf = dAtA }`")
	}
	pos++
	okFinal := false
	if pos < len(list) {
		if rs, ok := list[pos].(*ast.ReturnStmt); ok && len(rs.Results) == 2 && types.ExprString(rs.Results[1]) == "nil" {
			if cl, ok := rs.Results[0].(*ast.CompositeLit); ok {
				for _, el := range cl.Elts {
					if kv, ok := el.(*ast.KeyValueExpr); ok && types.ExprString(kv.Key) == "Buf" && strings.HasSuffix(types.ExprString(kv.Value), ".Buf") {
						okFinal = true
					}
				}
			}
		}
	}
	if !okFinal || pos != len(list)-1 {
		mm.Problems = append(mm.Problems, "final return does not return input.Buf with a nil error")
	}
	return mm, nil
}

func wrapPos(m *model.Msg, p token.Pos, err error) error {
	pp := m.Pkg.Fset.Position(p)
	if u, ok := err.(undecided); ok {
		return undecided{fmt.Sprintf("%s (line %d)", u.msg, pp.Line)}
	}
	return fmt.Errorf("%v (line %d)", err, pp.Line)
}

// oneofSwitch: switch x := x.O.(type) { case *W: … }
func (w *encWalker) oneofSwitch(ts *ast.TypeSwitchStmt) (*encBlock, error) {
	info := w.e.info
	as, ok := ts.Assign.(*ast.AssignStmt)
	if !ok || len(as.Rhs) != 1 {
		return nil, und("type switch without binding")
	}
	ta, ok := as.Rhs[0].(*ast.TypeAssertExpr)
	if !ok {
		return nil, und("type switch form")
	}
	on, err := w.e.term(ta.X)
	if err != nil {
		return nil, err
	}
	blk := &encBlock{Kind: "oneof", On: on, Pos: ts.Pos()}
	for _, cs := range ts.Body.List {
		cc := cs.(*ast.CaseClause)
		if len(cc.List) != 1 {
			return nil, und("oneof arm with %d types", len(cc.List))
		}
		pt, ok := info.TypeOf(cc.List[0]).(*types.Pointer)
		if !ok {
			return nil, und("oneof arm type")
		}
		named, _ := pt.Elem().(*types.Named)
		if named == nil {
			return nil, und("oneof arm type")
		}
		arm := encArm{Wrapper: named.Obj().Name(), Pos: cc.Pos()}
		ce := w.e.child()
		if o := info.Implicits[cc]; o != nil {
			ce.set(o, "w")
		}
		body := cc.Body
		// optional nil guard: if x == nil { break }
		if len(body) > 0 {
			if is, ok := body[0].(*ast.IfStmt); ok && is.Else == nil && len(is.Body.List) == 1 {
				if c, err := ce.cond(is.Cond); err == nil && c == "isnil(w)" {
					if br, ok := is.Body.List[0].(*ast.BranchStmt); ok && br.Tok == token.BREAK {
						arm.NilGuard = true
						body = body[1:]
					}
				}
			}
		}
		saved := w.e
		w.e = ce
		out := &wout{}
		err := w.stmts(body, out, nil)
		w.e = saved
		if err != nil {
			return nil, wrapPos(w.m, cc.Pos(), err)
		}
		arm.Str = render(out.ws)
		blk.Arms = append(blk.Arms, arm)
	}
	return blk, nil
}


// encodeHelper walks `func H(dAtA []byte, offset int, v T) int` of the runtime package as a piece of the encoder: the
// statements before the final return are interpreted with the helper's own buffer and cursor, the value parameter bound
// to the argument's term; the final `return offset` / `return EncodeVarint(dAtA, offset, E)` closes it.
func (w *encWalker) encodeHelper(call *ast.CallExpr) ([]W, bool, error) {
	f, _ := core.CalleeObj(w.e.info, call).(*types.Func)
	if helperCtx == nil || f == nil || f.Pkg() == nil || f.Pkg().Path() != core.RepoModule+"/runtime" {
		return nil, false, nil
	}
	rp := helperCtx.Pkg("runtime")
	if rp == nil {
		return nil, false, nil
	}
	var fd *ast.FuncDecl
	for _, file := range rp.Syntax {
		for _, d := range file.Decls {
			if x, ok := d.(*ast.FuncDecl); ok && x.Recv == nil && x.Body != nil && rp.TypesInfo.Defs[x.Name] == types.Object(f) {
				fd = x
			}
		}
	}
	if fd == nil {
		// a generic helper: Defs holds the generic object, the callee is its instantiation
		for _, file := range rp.Syntax {
			for _, d := range file.Decls {
				if x, ok := d.(*ast.FuncDecl); ok && x.Recv == nil && x.Body != nil && x.Name.Name == f.Name() {
					fd = x
				}
			}
		}
	}
	if fd == nil {
		return nil, false, nil
	}
	var params []*ast.Ident
	for _, fl := range fd.Type.Params.List {
		params = append(params, fl.Names...)
	}
	if len(params) != 3 || fd.Type.Results == nil || len(fd.Type.Results.List) != 1 || len(fd.Body.List) == 0 {
		return nil, true, und("encoding helper %s: signature", f.Name())
	}
	info := rp.TypesInfo
	bufO, curO, valO := info.Defs[params[0]], info.Defs[params[1]], info.Defs[params[2]]
	if bufO == nil || curO == nil || valO == nil || basicKind(curO.Type()) != types.Int {
		return nil, true, und("encoding helper %s: parameters", f.Name())
	}
	arg, err := w.e.term(call.Args[2])
	if err != nil {
		return nil, true, err
	}
	sub := &encWalker{m: w.m, e: &env{g: w.e.g, info: info, bind: map[types.Object]string{}, msg: w.e.msg}, polys: map[types.Object]Poly{}, iVar: curO, buf: bufO, opts: nil,
		closures: map[types.Object]*ast.FuncLit{}, lenOf: map[types.Object]string{}}
	sub.e.set(valO, arg)
	body := append([]ast.Stmt{}, fd.Body.List...)
	ret, ok := body[len(body)-1].(*ast.ReturnStmt)
	if !ok || len(ret.Results) != 1 {
		return nil, true, und("encoding helper %s does not end in a return of the cursor", f.Name())
	}
	body = body[:len(body)-1]
	if id, isID := ast.Unparen(ret.Results[0]).(*ast.Ident); !isID || info.ObjectOf(id) != curO {
		// return EncodeVarint(dAtA, offset, E)  ==  offset = EncodeVarint(dAtA, offset, E); return offset
		body = append(body, &ast.AssignStmt{Lhs: []ast.Expr{params[1]}, Tok: token.ASSIGN, Rhs: []ast.Expr{ret.Results[0]}})
	}
	out := &wout{}
	if err := sub.stmts(body, out, nil); err != nil {
		return nil, true, fmt.Errorf("encoding helper %s: %w", f.Name(), err)
	}
	return out.ws, true, nil
}
