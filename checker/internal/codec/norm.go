// Package codec holds the engines that decide the wire-format clauses on the
// generated size / marshal / unmarshal closures and the accessors' presence
// predicates: ENC, SIZE, DEC, PRES, DET, UNK, OPTS.
//
// Generated code is matched semantically: expressions are normalised to value
// terms over resolved objects (struct fields by types.Var, locals by their
// reaching definition), so renaming locals or reformatting does not matter.
// Anything outside the tables below is *undecided*, which fails the check.
package codec

import (
	"fmt"
	"go/ast"
	"go/constant"
	"go/token"
	"go/types"
	"strings"

	"verif/checker/internal/core"
	"verif/checker/internal/model"
)

type undecided struct{ msg string }

func (u undecided) Error() string { return u.msg }
func und(f string, a ...interface{}) error {
	return undecided{fmt.Sprintf(f, a...)}
}

// env binds local objects to value terms.
type env struct {
	g      *model.GenPkg
	info   *types.Info
	bind   map[types.Object]string
	msgVar types.Object // `x` (pointer to the message struct)
	msg    *model.Msg
	parent *env
}

func newEnv(m *model.Msg) *env {
	return &env{g: m.Pkg, info: m.Pkg.Info, bind: map[types.Object]string{}, msg: m}
}

func (e *env) child() *env {
	return &env{g: e.g, info: e.info, bind: map[types.Object]string{}, msgVar: e.msgVar, msg: e.msg, parent: e}
}

func (e *env) lookup(o types.Object) (string, bool) {
	for c := e; c != nil; c = c.parent {
		if s, ok := c.bind[o]; ok {
			return s, true
		}
	}
	return "", false
}

func (e *env) set(o types.Object, s string) { e.bind[o] = s }

func isSigned(t types.Type) bool {
	b, ok := t.Underlying().(*types.Basic)
	return ok && b.Info()&types.IsInteger != 0 && b.Info()&types.IsUnsigned == 0
}
func isUnsigned(t types.Type) bool {
	b, ok := t.Underlying().(*types.Basic)
	return ok && b.Info()&types.IsUnsigned != 0
}
func basicKind(t types.Type) types.BasicKind {
	if b, ok := t.Underlying().(*types.Basic); ok {
		return b.Kind()
	}
	return types.Invalid
}

func constInt(info *types.Info, e ast.Expr) (int64, bool) {
	tv, ok := info.Types[e]
	if !ok || tv.Value == nil {
		return 0, false
	}
	if tv.Value.Kind() != constant.Int {
		return 0, false
	}
	return constant.Int64Val(tv.Value)
}

// term normalises a value expression.
func (e *env) term(x ast.Expr) (string, error) {
	x = ast.Unparen(x)
	info := e.info
	if tv, ok := info.Types[x]; ok && tv.Value != nil {
		switch tv.Value.Kind() {
		case constant.Int:
			return tv.Value.ExactString(), nil
		case constant.Bool:
			return tv.Value.String(), nil
		case constant.String:
			return fmt.Sprintf("%q", constant.StringVal(tv.Value)), nil
		case constant.Float:
			if f, _ := constant.Float64Val(tv.Value); f == 0 {
				return "0", nil
			}
			return tv.Value.String(), nil
		}
	}
	switch t := x.(type) {
	case *ast.Ident:
		o := info.ObjectOf(t)
		if s, ok := e.lookup(o); ok {
			return s, nil
		}
		if o == e.msgVar && o != nil {
			return "x", nil
		}
		if _, isNil := o.(*types.Nil); isNil {
			return "nil", nil
		}
		return "", und("identifier %s has no binding", t.Name)
	case *ast.SelectorExpr:
		if sel, ok := info.Selections[t]; ok && sel.Kind() == types.FieldVal {
			base, err := e.term(t.X)
			if err != nil {
				return "", err
			}
			return base + "." + sel.Obj().Name(), nil
		}
		// qualified identifier
		if o := info.Uses[t.Sel]; o != nil && o.Pkg() != nil {
			return o.Pkg().Path() + "." + o.Name(), nil
		}
		return "", und("selector %s", types.ExprString(t))
	case *ast.StarExpr:
		s, err := e.term(t.X)
		if err != nil {
			return "", err
		}
		return "*" + s, nil
	case *ast.IndexExpr:
		base, err := e.term(t.X)
		if err != nil {
			return "", err
		}
		idx, err := e.term(t.Index)
		if err != nil {
			return "", err
		}
		// index variable bound as "idx(<coll>)"
		if idx == "idx("+base+")" {
			return "elem(" + base + ")", nil
		}
		if bt := info.TypeOf(t.X); bt != nil {
			if _, isMap := bt.Underlying().(*types.Map); isMap {
				// map lookup by a bound key
				if strings.HasPrefix(idx, "key(") && idx == "key("+base+")" {
					return "val(" + base + ")", nil
				}
				return base + "[" + idx + "]", nil
			}
		}
		return base + "[" + idx + "]", nil
	case *ast.UnaryExpr:
		s, err := e.term(t.X)
		if err != nil {
			return "", err
		}
		switch t.Op {
		case token.NOT:
			return "!(" + s + ")", nil
		case token.SUB:
			return "-(" + s + ")", nil
		case token.AND:
			return "&" + s, nil
		}
		return "", und("unary %s", t.Op)
	case *ast.BinaryExpr:
		if t.Op == token.XOR {
			if v, ok := e.zigzag(t); ok {
				return v, nil
			}
		}
		l, err := e.term(t.X)
		if err != nil {
			return "", err
		}
		r, err := e.term(t.Y)
		if err != nil {
			return "", err
		}
		// the index of a reverse loop that counts from len(C) down to 1: i-1 is the element index
		if t.Op == token.SUB && r == "1" && strings.HasPrefix(l, "idx1(") {
			return "idx(" + l[5:], nil
		}
		return "(" + l + " " + t.Op.String() + " " + r + ")", nil
	case *ast.CallExpr:
		// conversion
		if tv, ok := info.Types[t.Fun]; ok && tv.IsType() && len(t.Args) == 1 {
			a, err := e.term(t.Args[0])
			if err != nil {
				return "", err
			}
			return convTerm(tv.Type, info.TypeOf(t.Args[0]), a), nil
		}
		obj := core.CalleeObj(info, t)
		if b, ok := obj.(*types.Builtin); ok {
			switch b.Name() {
			case "len":
				a, err := e.term(t.Args[0])
				if err != nil {
					return "", err
				}
				return "len(" + a + ")", nil
			}
			return "", und("builtin %s", b.Name())
		}
		q := core.QualName(obj)
		var args []string
		for _, a := range t.Args {
			s, err := e.term(a)
			if err != nil {
				return "", err
			}
			args = append(args, s)
		}
		switch q {
		case "math.Float32bits":
			return "f32bits(" + args[0] + ")", nil
		case "math.Float64bits":
			return "f64bits(" + args[0] + ")", nil
		case "math.Float32frombits":
			return "f32from(" + args[0] + ")", nil
		case "math.Float64frombits":
			return "f64from(" + args[0] + ")", nil
		case "math.Signbit":
			return "signbit(" + strings.TrimSuffix(strings.TrimPrefix(args[0], "f64("), ")") + ")", nil
		case core.RepoModule + "/runtime.Sov":
			return "Sov(" + args[0] + ")", nil
		case core.RepoModule + "/runtime.Soz":
			// Soz(u) = Sov(zigzag64(u)); for u = sx(T) this is Sov(zz(T))
			if strings.HasPrefix(args[0], "sx(") {
				return "Sov(zz(" + args[0][3:len(args[0])-1] + "))", nil
			}
			return "Sov(zz64(" + args[0] + "))", nil
		case "google.golang.org/protobuf/encoding/protowire.EncodeZigZag":
			// EncodeZigZag(int64(v)) of a 32-bit v equals the 32-bit zig-zag of v zero-extended (|v| < 2^31)
			a := args[0]
			for _, pre := range []string{"i64(", "conv[int64](", "sx("} {
				if strings.HasPrefix(a, pre) && strings.HasSuffix(a, ")") {
					a = a[len(pre) : len(a)-1]
					break
				}
			}
			return "zz(" + a + ")", nil
		case "google.golang.org/protobuf/proto.MarshalOptions.Size":
			if sel, ok := t.Fun.(*ast.SelectorExpr); ok {
				recv, err := e.term(sel.X)
				if err != nil {
					return "", err
				}
				if recv != "options" {
					return "", und("Size called on %s, not on the closure's options", recv)
				}
			}
			return "Size(" + args[0] + ")", nil
		}
		return "", und("call %s", q)
	}
	return "", und("expression %T %s", x, types.ExprString(x))
}

// convTerm normalises T(a) given the source type.
func convTerm(dst, src types.Type, a string) string {
	dk, sk := basicKind(dst), basicKind(src)
	switch dk {
	case types.Uint64:
		switch {
		case sk == types.Int:
			return "nat(" + a + ")"
		case src != nil && isSigned(src):
			return "sx(" + a + ")"
		case src != nil && isUnsigned(src):
			return a // value preserving
		}
	case types.Uint32:
		switch {
		case sk == types.Uint32:
			return a
		case sk == types.Int32:
			return "b32(" + a + ")"
		}
	case types.Float32:
		if sk == types.Float32 {
			return a
		}
	case types.Float64:
		if sk == types.Float64 {
			return a
		}
		if sk == types.Float32 {
			return "f64(" + a + ")"
		}
	case types.Int64:
		if sk == types.Int64 {
			return a
		}
		if sk == types.Uint64 {
			return "i64(" + a + ")"
		}
	case types.Int32:
		if sk == types.Int32 {
			return a
		}
	case types.Bool:
		if sk == types.Bool {
			return a
		}
	case types.String:
		if sk == types.String {
			return a
		}
	}
	// named types with identical underlying representation (enum <-> int32, MapKey etc.)
	if dst != nil && src != nil && types.Identical(dst.Underlying(), src.Underlying()) {
		return a
	}
	return "conv[" + types.TypeString(dst, func(p *types.Package) string { return p.Name() }) + "](" + a + ")"
}

// zigzag recognises (uintN(v) << 1) ^ uintN(v >> (N-1)) for N in {32,64}.
func (e *env) zigzag(b *ast.BinaryExpr) (string, bool) {
	info := e.info
	try := func(l, r ast.Expr) (string, bool) {
		l, r = ast.Unparen(l), ast.Unparen(r)
		shl, ok := l.(*ast.BinaryExpr)
		if !ok || shl.Op != token.SHL {
			return "", false
		}
		if k, ok := constInt(info, shl.Y); !ok || k != 1 {
			return "", false
		}
		c1, ok := ast.Unparen(shl.X).(*ast.CallExpr)
		if !ok || len(c1.Args) != 1 {
			return "", false
		}
		tv1, ok := info.Types[c1.Fun]
		if !ok || !tv1.IsType() {
			return "", false
		}
		width := int64(0)
		switch basicKind(tv1.Type) {
		case types.Uint32:
			width = 32
		case types.Uint64:
			width = 64
		default:
			return "", false
		}
		c2, ok := r.(*ast.CallExpr)
		if !ok || len(c2.Args) != 1 {
			return "", false
		}
		tv2, ok := info.Types[c2.Fun]
		if !ok || !tv2.IsType() || basicKind(tv2.Type) != basicKind(tv1.Type) {
			return "", false
		}
		shr, ok := ast.Unparen(c2.Args[0]).(*ast.BinaryExpr)
		if !ok || shr.Op != token.SHR {
			return "", false
		}
		if k, ok := constInt(info, shr.Y); !ok || k != width-1 {
			return "", false
		}
		// operand must be a signed integer of that width (arithmetic shift)
		vt := info.TypeOf(shr.X)
		if vt == nil || !isSigned(vt) {
			return "", false
		}
		if (width == 32 && basicKind(vt) != types.Int32) || (width == 64 && basicKind(vt) != types.Int64) {
			return "", false
		}
		v1, err1 := e.term(c1.Args[0])
		v2, err2 := e.term(shr.X)
		if err1 != nil || err2 != nil || v1 != v2 {
			return "", false
		}
		return "zz(" + v1 + ")", true
	}
	if s, ok := try(b.X, b.Y); ok {
		return s, true
	}
	return try(b.Y, b.X)
}

// cond normalises a presence / guard condition to a canonical predicate.
func (e *env) cond(x ast.Expr) (string, error) {
	x = ast.Unparen(x)
	switch t := x.(type) {
	case *ast.BinaryExpr:
		switch t.Op {
		case token.LOR, token.LAND:
			l, err := e.cond(t.X)
			if err != nil {
				return "", err
			}
			r, err := e.cond(t.Y)
			if err != nil {
				return "", err
			}
			return l + " " + t.Op.String() + " " + r, nil
		case token.NEQ, token.GTR, token.EQL:
			l, err := e.term(t.X)
			if err != nil {
				return "", err
			}
			r, err := e.term(t.Y)
			if err != nil {
				return "", err
			}
			lt := e.info.TypeOf(t.X)
			// len(v) > 0, len(v) != 0, v != ""  ==> nonempty(v)
			if strings.HasPrefix(l, "len(") && r == "0" && (t.Op == token.GTR || t.Op == token.NEQ) {
				return "nonempty(" + l[4:len(l)-1] + ")", nil
			}
			if t.Op == token.NEQ && r == `""` {
				return "nonempty(" + l + ")", nil
			}
			if t.Op == token.NEQ && (r == "false") {
				return "true(" + l + ")", nil
			}
			if t.Op == token.NEQ && r == "0" {
				// the bit pattern of a float is non-zero exactly when the value is not +0: x != 0 || signbit(x)
				for _, p := range []string{"f32bits(", "f64bits("} {
					if strings.HasPrefix(l, p) && strings.HasSuffix(l, ")") {
						in := l[len(p) : len(l)-1]
						return "nonzero(" + in + ") || signbit(" + in + ")", nil
					}
				}
				return "nonzero(" + l + ")", nil
			}
			if t.Op == token.NEQ && r == "nil" {
				return "nonnil(" + l + ")", nil
			}
			if t.Op == token.EQL && r == "nil" {
				return "isnil(" + l + ")", nil
			}
			_ = lt
			return "(" + l + " " + t.Op.String() + " " + r + ")", nil
		}
	case *ast.UnaryExpr:
		if t.Op == token.NOT {
			s, err := e.cond(t.X)
			if err != nil {
				return "", err
			}
			return "!" + s, nil
		}
	}
	s, err := e.term(x)
	if err != nil {
		return "", err
	}
	if strings.HasPrefix(s, "signbit(") {
		return s, nil
	}
	if bt := e.info.TypeOf(x); bt != nil && basicKind(bt) == types.Bool {
		return "true(" + s + ")", nil
	}
	return s, nil
}

func posOf(m *model.Msg, c *core.Ctx, p token.Pos) string { return c.PosStr(m.Pkg.Fset, p) }
