package codec

import (
	"google.golang.org/protobuf/reflect/protoreflect"
	"regexp"
	"fmt"
	"sort"
	"strings"

	"verif/checker/internal/core"
	"verif/checker/internal/model"
	"verif/checker/internal/source"
)

// sources returns the generated packages to analyse for this run.
func sources(c *core.Ctx) []*model.GenPkg {
	helperCtx = c
	s := source.GetS2(c)
	if s.Err != nil {
		c.Fail("GEN.build", "working-tree generator", s.Err.Error(), "", "S2")
		return source.GetS1(c).S1
	}
	return s.All()
}

// expectedOrder gives the fields/oneofs in the order the back-filled encoder must emit them:
// unknown, oneofs in reverse declaration order, then non-oneof fields in descending number.
type expItem struct {
	kind  string // unknown | oneof | field
	field *model.Field
	oneof *model.Oneof
}

func expectedOrder(m *model.Msg) []expItem {
	out := []expItem{{kind: "unknown"}}
	oo := append([]*model.Oneof{}, m.Oneofs...)
	sort.Slice(oo, func(i, j int) bool { return oo[i].Desc.Index() > oo[j].Desc.Index() })
	for _, o := range oo {
		out = append(out, expItem{kind: "oneof", oneof: o})
	}
	var fs []*model.Field
	for _, f := range m.Fields {
		if f.Oneof == nil {
			fs = append(fs, f)
		}
	}
	sort.Slice(fs, func(i, j int) bool { return fs[i].Desc.Number() > fs[j].Desc.Number() })
	for _, f := range fs {
		out = append(out, expItem{kind: "field", field: f})
	}
	return out
}

var boolConstRe = regexp.MustCompile(`tag\(([0-9a-f]+)\) bool\([^()]*\)`)

// RunEnc decides ENC.* and DET.* on every generated message type.
func RunEnc(c *core.Ctx) {
	nMsg, nField := 0, 0
	for _, g := range sources(c) {
		for _, m := range g.Msgs {
			if m.Marshal == nil {
				continue
			}
			nMsg++
			src := g.Source
			mpos := posOf(m, c, m.Marshal.Pos())
			mm, err := extractMarshal(m)
			if err != nil {
				reportErr(c, "ENC.walk", m.Q()+" marshal closure", err, mpos, src)
				continue
			}
			c.Check(len(mm.Problems) == 0, "ENC.frame", m.Q()+" marshal prologue/epilogue",
				"nil message returns the input buffer; buffer sized by options.Size(x); result appended to input.Buf", strings.Join(mm.Problems, "; "), mpos, src)
			exp := expectedOrder(m)
			c.Check(len(exp) == len(mm.Blocks), "ENC.total", m.Q()+" contributions",
				fmt.Sprintf("%d blocks: unknown + %d oneofs + fields", len(mm.Blocks), len(m.Oneofs)),
				fmt.Sprintf("marshal closure has %d top-level contributions, schema demands %d (unknown fields, %d oneofs, %d plain fields)", len(mm.Blocks), len(exp), len(m.Oneofs), len(exp)-1-len(m.Oneofs)), mpos, src)
			for i, ex := range exp {
				var blk *encBlock
				if i < len(mm.Blocks) {
					blk = mm.Blocks[i]
				}
				switch ex.kind {
				case "unknown":
					want := "if(nonnil(x.unknownFields)){raw(x.unknownFields)}"
					got := ""
					p := mpos
					if blk != nil {
						got, p = blk.Str, posOf(m, c, blk.Pos)
					}
					c.Check(got == want, "ENC.unknown", m.Q()+" unknown fields first in the back-filled buffer", "unknown bytes are emitted last on the wire, verbatim",
						fmt.Sprintf("first contribution is %q, expected %q", got, want), p, src)
				case "oneof":
					o := ex.oneof
					con := fmt.Sprintf("%s oneof %s", m.Q(), o.Desc.Name())
					if blk == nil || blk.Kind != "oneof" || blk.On != "x."+o.GoName {
						got := "<missing>"
						p := mpos
						if blk != nil {
							got, p = blk.Kind+" "+blk.On+blk.Str, posOf(m, c, blk.Pos)
						}
						c.Fail("ENC.order", con, fmt.Sprintf("position %d of the back-filled encoder should be the type switch over oneof %s (oneofs in reverse declaration order, before the plain fields); found %s", i, o.GoName, clipS(got, 120)), p, src)
						continue
					}
					c.Ok("ENC.order", con, fmt.Sprintf("position %d", i), posOf(m, c, blk.Pos), src)
					arms := map[string]encArm{}
					for _, a := range blk.Arms {
						arms[a.Wrapper] = a
					}
					for _, f := range o.Members {
						nField++
						fcon := f.Q()
						a, ok := arms[f.Wrapper.Obj().Name()]
						if !ok {
							c.Fail("ENC.field", fcon, "no arm for this oneof member in the marshal type switch: a set member would be dropped", posOf(m, c, blk.Pos), src)
							continue
						}
						want := specOf(f).encString()
						c.Check(a.Str == want, "ENC.field", fcon, want, fmt.Sprintf("encoder emits %s ; spec demands %s", a.Str, want), posOf(m, c, a.Pos), src)
						c.Check(a.NilGuard, "ENC.nilwrap", fcon, "typed-nil wrapper is skipped", "oneof arm dereferences the wrapper without a nil guard (size has one): a typed-nil wrapper makes Marshal panic while Size reports 0", posOf(m, c, a.Pos), src)
					}
					c.Check(len(blk.Arms) == len(o.Members), "ENC.total", con+" arms", fmt.Sprintf("%d arms", len(blk.Arms)), fmt.Sprintf("%d arms for %d members", len(blk.Arms), len(o.Members)), posOf(m, c, blk.Pos), src)
				case "field":
					f := ex.field
					nField++
					want := specOf(f).encString()
					got := "<missing>"
					p := mpos
					if blk != nil {
						got, p = blk.Str, posOf(m, c, blk.Pos)
						if blk.Kind == "oneof" {
							got = "oneof " + blk.On
						}
					}
					// a singular bool is written only under `if x.F`: inside that guard the value byte is the constant 1
					if f.Desc.Kind() == protoreflect.BoolKind && !f.Desc.IsList() && f.Oneof == nil && strings.HasPrefix(want, "if(true(") {
						if alt := boolConstRe.ReplaceAllString(want, "tag(${1}01)"); got == alt {
							got = want
						}
					}
					if got == want {
						c.Ok("ENC.field", f.Q(), want, p, src)
						c.Ok("ENC.order", f.Q(), fmt.Sprintf("position %d (descending field number in the back-filled buffer)", i), p, src)
					} else {
						// is it present elsewhere? then it is an order violation
						found := -1
						for j, b := range mm.Blocks {
							if b.Str == want {
								found = j
							}
						}
						if found >= 0 {
							c.Ok("ENC.field", f.Q(), want, p, src)
							c.Fail("ENC.order", f.Q(), fmt.Sprintf("field is emitted at position %d of the back-filled encoder, expected %d: wire order differs from ascending field numbers followed by oneofs", found, i), posOf(m, c, mm.Blocks[found].Pos), src)
						} else {
							c.Fail("ENC.field", f.Q(), fmt.Sprintf("encoder emits %s ; spec demands %s", clipS(got, 400), want), p, src)
						}
					}
					if f.Desc.IsMap() && blk != nil {
						c.Check(len(blk.DetOK) == 1, "DET.map", f.Q(), "entries are emitted in ascending key order when options.Deterministic (all keys collected, sorted by a strict order equal to GenericKeyOrder, reverse-iterated into the back-filled buffer); both arms emit the same entry",
							"map block was not recognised as deterministic-sorted", p, src)
					}
				}
			}
			c.Check(mm.OptsOK, "DET.flow", m.Q()+" marshal options", "options = runtime.MarshalInputToOptions(input); every nested Marshal uses it", "options are not derived from the input by runtime.MarshalInputToOptions", mpos, src)
		}
	}
	c.Stat("ENC message types", nMsg)
	c.Stat("ENC fields", nField)
}

func reportErr(c *core.Ctx, rule, con string, err error, pos, src string) {
	if _, ok := err.(undecided); ok {
		c.Undec(rule, con, err.Error(), pos, src)
	} else {
		c.Fail(rule, con, err.Error(), pos, src)
	}
}

// RunSize decides SIZE.* on every generated message type.
func RunSize(c *core.Ctx) {
	nMsg := 0
	for _, g := range sources(c) {
		for _, m := range g.Msgs {
			if m.Size == nil {
				continue
			}
			nMsg++
			src := g.Source
			mpos := posOf(m, c, m.Size.Pos())
			sm, err := extractSize(m)
			if err != nil {
				reportErr(c, "SIZE.walk", m.Q()+" size closure", err, mpos, src)
				continue
			}
			c.Check(len(sm.Problems) == 0, "SIZE.frame", m.Q()+" size prologue/epilogue", "nil message has size 0; result is n", strings.Join(sm.Problems, "; "), mpos, src)
			// expected multiset
			used := make([]bool, len(sm.Blocks))
			find := func(pred func(b *sizeBlock) bool) *sizeBlock {
				for i, b := range sm.Blocks {
					if !used[i] && pred(b) {
						used[i] = true
						return b
					}
				}
				return nil
			}
			for _, f := range m.Fields {
				if f.Oneof != nil {
					continue
				}
				want := specOf(f).sizeString()
				b := find(func(b *sizeBlock) bool { return b.Kind == "field" && b.Str == want })
				if b != nil {
					c.Ok("SIZE.count", f.Q(), want, posOf(m, c, b.Pos), src)
				} else {
					// nearest candidate: same guard prefix
					cand := ""
					for i, b2 := range sm.Blocks {
						if !used[i] && strings.Contains(b2.Str, "x."+f.GoName+")") || strings.Contains(b2.Str, "x."+f.GoName+" ") {
							cand = b2.Str
						}
					}
					c.Fail("SIZE.count", f.Q(), fmt.Sprintf("size closure has no contribution equal to the encoded length %s (closest: %s)", want, clipS(cand, 300)), mpos, src)
				}
			}
			for _, o := range m.Oneofs {
				con := fmt.Sprintf("%s oneof %s", m.Q(), o.Desc.Name())
				b := find(func(b *sizeBlock) bool { return b.Kind == "oneof" && b.On == "x."+o.GoName })
				if b == nil {
					c.Fail("SIZE.count", con, "size closure has no type switch over this oneof", mpos, src)
					continue
				}
				arms := map[string]encArm{}
				for _, a := range b.Arms {
					arms[a.Wrapper] = a
				}
				for _, f := range o.Members {
					a, ok := arms[f.Wrapper.Obj().Name()]
					if !ok {
						c.Fail("SIZE.count", f.Q(), "no arm for this oneof member in the size type switch", posOf(m, c, b.Pos), src)
						continue
					}
					want := specOf(f).sizeString()
					c.Check(a.Str == want, "SIZE.count", f.Q(), want, fmt.Sprintf("size adds %s ; encoded length is %s", a.Str, want), posOf(m, c, a.Pos), src)
					c.Check(a.NilGuard, "SIZE.nilwrap", f.Q(), "typed-nil wrapper contributes 0", "size arm dereferences the wrapper without a nil guard", posOf(m, c, a.Pos), src)
				}
			}
			ub := find(func(b *sizeBlock) bool { return b.Kind == "unknown" })
			c.Check(ub != nil && ub.Str == "if(nonnil(x.unknownFields)){len(x.unknownFields)}", "SIZE.unknown", m.Q()+" unknown fields counted", "n += len(x.unknownFields)", "unknown field bytes are not counted exactly once", mpos, src)
			var extra []string
			for i, b := range sm.Blocks {
				if !used[i] {
					extra = append(extra, clipS(b.Kind+" "+b.On+b.Str, 160))
				}
			}
			c.Check(len(extra) == 0, "SIZE.total", m.Q()+" no other contributions", "every contribution belongs to exactly one schema field", "size closure has contributions that match no schema field: "+strings.Join(extra, " ; "), mpos, src)
			c.Check(sm.OptsOK, "DET.flow", m.Q()+" size options", "options = runtime.SizeInputToOptions(input)", "size options are not derived from the input by runtime.SizeInputToOptions", mpos, src)
		}
	}
	c.Stat("SIZE message types", nMsg)
}
