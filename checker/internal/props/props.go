// Package props maps each property to the engines that decide it, the rule
// ids that belong to it, and the vacuity floors confirmed by hand.
package props

import (
	"verif/checker/internal/core"
	"verif/checker/internal/codec"
	"verif/checker/internal/lib"
	"verif/checker/internal/refl"
	"verif/checker/internal/tmpl"
)

type Prop struct {
	ID           string
	LevelText    string // MANIFEST level_claimed.text
	LevelNote    string // MANIFEST level_note
	Technique    string
	DesignRef    string
	Engines      []func(*core.Ctx)
	RulePrefixes []string
	Floors       []core.Floor
	Explanation  string
	RuleText     string
	Assumptions  []string
}

var Trusted = []string{
	"A3 protobuf-go v1.34.0 (proto, protowire, protodesc, impl, dynamicpb) implements the wire spec and its documented option semantics",
	"A4 the Go compiler, go/types and go/ssa (x/tools v0.29.0) are correct",
	"A5 the checker's own spec tables (wire types, presence predicates, orderings) are right",
}

var Table = map[string]*Prop{}

// NotYet lists properties not (yet) claimed, with the reason.
var NotYet = map[string]string{}

func reg(p *Prop) {
	if p.Assumptions == nil {
		p.Assumptions = Trusted
	}
	if p.RuleText == "" {
		p.RuleText = "one obligation per rule instance keyed by rule id + resolved construct (never a line number); distinct = distinct (rule, construct) pairs"
	}
	if p.LevelNote == "" {
		p.LevelNote = "Static analysis only; relative to A3 (protobuf-go is correct), A4 (go/types, go/ssa correct), A5 (checker's spec tables). Decides the structural clauses listed in the text; runtime-value clauses listed as 'not decided' are not claimed."
	}
	Table[p.ID] = p
}

type E = []func(*core.Ctx)

func init() {
	for _, id := range []string{} {
		NotYet[id] = "engine for this property is designed (DESIGN.md section 4) but not yet armed in this commit; not claimed until its check runs clean on the pinned tree"
	}

	reg(&Prop{
		ID:        "C15",
		Technique: "abstract interpretation on a bit-length domain (exhaustive over classes) + zone/difference-bound analysis of Skip on SSA",
		DesignRef: "DESIGN.md 3.13, 4 C15",
		LevelText: "Sov/Soz are evaluated abstractly for every bit-length class of uint64 (65 / 128 classes; every operation they use is exact on the domain, so this is a complete case analysis of all 2^64 inputs) against protowire.SizeVarint/EncodeZigZag computed by the checker; EncodeVarint is executed abstractly per class: stores land exactly on [offset-n, offset), ascending, continuation forms, result offset-n. Any operation outside the exact table makes the obligation undecided (reported). Skip is matched statement by statement against its guarded-reader structure: every index expression sits behind the cursor>=l guard, every addition to the cursor is followed by the cursor<0 overflow check, every record consumes >= 1 byte, and the per-wire-type advance table (varint / 8 / 4 / length / group depth +-1 / error) and the depth-0 return are exact.",
		Engines:   E{lib.RunVarint, codec.RunSkip},
		RulePrefixes: []string{"L.sov", "L.soz", "L.encvarint", "L.skip", "L.anchor"},
		Floors: []core.Floor{
			{Rule: "L.sov", Min: 65, Why: "65 bit-length classes of uint64"},
			{Rule: "L.soz", Min: 128, Why: "2 signs x 64 magnitude lengths"},
			{Rule: "L.encvarint", Min: 65, Why: "65 bit-length classes"},
			{Rule: "L.skip.table", Min: 8, Why: "6 wire types + default + result"},
			{Rule: "L.skip.nopanic", Min: 2, Why: "overflow check + index sites"},
		},
		Explanation: "Sov/Soz: exhaustive abstract evaluation on the bit-length domain (every operation used is exact on it) against protowire.SizeVarint / EncodeZigZag evaluated by the checker on class representatives; EncodeVarint: abstract execution per class (stores at exactly [off-n,off), ascending, continuation forms, result off-n).",
	})

	reg(&Prop{
		ID:        "C17",
		Technique: "symbolic path enumeration with interval refinement (Add); finite-ordering abstract evaluation (Compare, overflowPanic, DurationIsNegative)",
		DesignRef: "DESIGN.md 3.13, 4 C17",
		LevelText: "Every path of timepb.Add is enumerated symbolically for all valid inputs (t.Nanos in [0,1e9), d.Nanos in (-1e9,1e9), seconds unconstrained): each return is exact (t+d with carry k in {-1,0,1}), normalised (Nanos interval inside [0,1e9)), fresh (address of a local), and preceded by overflowPanic(t,&result,DurationIsNegative(d)) after the last write. Compare/DurationIsNegative/overflowPanic touch their arguments only through comparisons (checked), so evaluation on one representative per abstract ordering is exhaustive: Compare is lexicographic, antisymmetric, total; overflowPanic panics iff the result moved against the sign of d. AddStd: every non-nil return is a fresh value and the computed one is returned only after overflowPanic(t, result, d < 0). Not decided: agreement of Add with AddStd as values (time.Time arithmetic) and wrap detection for inputs outside the valid ranges.",
		Engines:      E{lib.RunTimepb},
		RulePrefixes: []string{"TIME"},
		Floors: []core.Floor{
			{Rule: "TIME.cmp", Min: 14, Why: "9 orderings + side-condition + antisymmetry + 3 nil cases"},
			{Rule: "TIME.neg", Min: 10, Why: "9 sign combinations + side-condition"},
			{Rule: "TIME.ovf", Min: 18, Why: "9 orderings x 2 signs"},
			{Rule: "TIME.norm", Min: 3, Why: "copy, carry, borrow/plain returns of Add"},
			{Rule: "TIME.exact", Min: 3, Why: "returns of Add"},
			{Rule: "TIME.fresh", Min: 3, Why: "returns of Add"},
			{Rule: "TIME.ovf.call", Min: 3, Why: "returns of Add"},
			{Rule: "TIME.std", Min: 4, Why: "returns of AddStd"},
		},
		Explanation: "Add: every path of the function is enumerated symbolically (result fields as linear terms of the inputs, interval of t.Nanos+d.Nanos refined by the branch conditions, inputs ranging over all valid timestamps/durations); each return is checked for exactness (t+d with carry k), normalisation (Nanos interval inside [0,1e9)), freshness and a dominating overflowPanic call with the right arguments. Compare/DurationIsNegative/overflowPanic: finite abstraction — their arguments are touched only through comparisons (checked), so evaluating the body on one representative per ordering is exhaustive. Not decided: agreement with AddStd (time.Time arithmetic), detection of 64-bit wrap for inputs outside the valid ranges.",
	})

	reg(&Prop{
		ID:        "C16",
		Technique: "SSA dataflow/dominance rules specific to anyutil (store ordering vs error returns, value provenance, must-check of error results, no panicking instruction forms)",
		DesignRef: "DESIGN.md 4 C16",
		LevelText: "On the SSA of anyutil: TypeUrl is exactly \"/\"+string(src.ProtoReflect().Descriptor().FullName()) and no host-like constant exists in the package; Value is opts.Marshal(src) with the caller's options; no store to *dst can be followed by an error return (failed pack leaves dst untouched); Unpack/MarshalFrom/New contain no single-result type assertion, explicit panic, index or slice expression; Unpack consults the type resolver first with any.TypeUrl, falls back to the file resolver only on protoregistry.NotFound with TrimPrefix(TypeUrl,\"/\"), returns every other resolver error, checks every error result before using the value, builds the dynamic type from the found descriptor via a guarded comma-ok assertion, decodes into typ.New().Interface() and returns it; any/alias.go binds the three functions. Not decided: equality of the unpacked message with m and agreement of the two resolver paths on values (library behaviour, A3).",
		Engines:      E{lib.RunAnyutil},
		RulePrefixes: []string{"ANY"},
		Floors: []core.Floor{
			{Rule: "ANY.atomic", Min: 4, Why: "dst-escape + 2 error returns + count"},
			{Rule: "ANY.url", Min: 3, Why: "TypeUrl store, stores present, host scan"},
			{Rule: "ANY.value", Min: 2, Why: "Value store, New delegates"},
			{Rule: "ANY.nopanic", Min: 4, Why: "3 function scans + the descriptor assertion"},
			{Rule: "ANY.fallback", Min: 8, Why: "structure of Unpack"},
			{Rule: "ANY.errors", Min: 2, Why: "FindDescriptorByName, UnmarshalTo"},
			{Rule: "ANY.alias", Min: 3, Why: "three aliases"},
		},
		Explanation: "SSA rules on anyutil.MarshalFrom/New/Unpack and any/alias.go; see level text. The runtime-value clauses (round-trip equality, agreement of registry paths) are not decided.",
	})

	reg(&Prop{
		ID:        "C18",
		Technique: "call-graph cycle analysis with depth-argument weights, SSA provenance rules (write-through origins, enum numbers, constant ranges), dominance rules for option tests, interprocedural nil-argument flow",
		DesignRef: "DESIGN.md 4 C18",
		LevelText: "Structural necessary conditions of the generator's guarantees, decided on SSA/AST of rapidproto: every recursion cycle among the generator methods increases the depth argument by >=1 and passes a function that returns when depth exceeds the limit; every loop is a counted loop; every mutating List/Map/Message call acts on a write-through view or an owned message (a detached NewField value that is never stored back is reported); ValueOfEnum receives a declared EnumValueDescriptor.Number(); the constant ranges of the Timestamp/Duration draws lie inside the valid ranges of timestamppb/durationpb with sign agreement; list lower bound is 1 iff NoEmptyLists; a message field is skipped only on the !DisallowNilMessages edge; field mappers run before the per-kind draws; no method is called on a FieldDescriptor parameter that can receive nil without a nil test. Not decided: UTF-8 validity of drawn strings, that drawn messages round-trip, resolvability of Any URLs (runtime/configuration facts).",
		Engines:      E{lib.RunRapid},
		RulePrefixes: []string{"RAPID"},
		Floors: []core.Floor{
			{Rule: "RAPID.term", Min: 6, Why: "edges of the setFields/setFieldValue/genAny cycle + guard + progress"},
			{Rule: "RAPID.term.loop", Min: 3, Why: "three counted loops"},
			{Rule: "RAPID.set", Min: 12, Why: "mutating reflection calls"},
			{Rule: "RAPID.enum", Min: 1, Why: "one ValueOfEnum"},
			{Rule: "RAPID.range", Min: 5, Why: "2x(seconds,nanos)+mapping"},
			{Rule: "RAPID.opts", Min: 3, Why: "three option rules"},
			{Rule: "RAPID.nil", Min: 2, Why: "nil sources + method calls"},
			{Rule: "RAPID.utf8", Min: 3, Why: "ValueOfString sites"},
			{Rule: "RAPID.any", Min: 3, Why: "genAny consistency, the result of at least one genAny call, Truncate after a failed element"},
			{Rule: "RAPID.dispatch", Min: 4, Why: "four well-known types"},
			{Rule: "RAPID.fresh", Min: 1, Why: "MessageGenerator"},
			{Rule: "RAPID.url", Min: 3, Why: "WithAnyTypes, WithInterfaceHint, genAny"},
		},
		Explanation: "SSA/AST rules on rapidproto; see level text. Runtime-value clauses (UTF-8, round trip, URL resolvability) are not decided.",
	})

	reg(&Prop{
		ID:        "C12",
		Technique: "emitted-brace typestate over the template functions (all schemas) + compile-fail witness: the working-tree generator is run as a build step on a schema corpus and its output is type-checked with go/types",
		DesignRef: "DESIGN.md 3.12, 4 C12",
		LevelText: "T.brace: every function of the template packages that emits code is abstractly interpreted with state = net braces/parens of the constant text it emits; branch conditions over never-reassigned locals are enumerated as atoms, switch arms are nondeterministic; all paths of a function must agree, loop bodies and root emitters must be balanced - this holds for all schemas, not only the corpus. GEN.*: the generator built from the working tree must answer every corpus schema (kind x shape matrix, 1..5-byte tags, interleaved oneofs, nesting/recursion, cross-package imports, well-known types, name collisions, sparse enums, the schemas embedded in the checked-in files) with sources that type-check (thorough: also GOARCH=386 and the full 12x17 map matrix), an unknown feature with an error, proto2 / unrequested files with no output. The emitted code is only analysed, never run; the codec engines of C01-C04/C06/C14 (SIZE, ENC, DEC, DET, UNK, BND) are applied to everything the working-tree generator emitted, so a template change that breaks a wire-format clause for some kind x shape x tag-width cell of the corpus is reported here as well. Not decided: totality for schemas outside the corpus beyond T.*; M/paths= parameter handling is protogen's.",
		Engines:      E{tmpl.RunBrace, tmpl.RunNames, tmpl.RunImports, tmpl.RunKinds, tmpl.RunFlow, tmpl.RunDetPure, tmpl.RunS2, codec.RunSize, codec.RunEnc, codec.RunDec, refl.RunCoh},
		RulePrefixes: []string{"COH.md", "COH.gotypes", "COH.depidx", "COH.builder", "COH.msgindex", "COH.msginfo", "COH.initchain", "COH.imports", "COH.pkgname", "COH.ext", "COH.getter", "COH.pubfwd", "T.brace", "T.names", "T.imports", "T.kinds", "T.flow", "T.pure", "T.anchor", "GEN", "G.model", "G.anchor", "SIZE", "ENC", "DEC", "DET", "UNK.default", "BND"},
		Floors: []core.Floor{
			{Rule: "T.brace", Min: 60, Why: "emitting template functions"},
			{Rule: "T.names", Min: 19, Why: "16 methods + 3 structure rules"},
			{Rule: "T.kinds", Min: 30, Why: "kind switches in the templates"},
			{Rule: "T.flow", Min: 8, Why: "driver guards and error propagation"},
			{Rule: "GEN.run", Min: 14, Why: "quick corpus schemas"},
			{Rule: "GEN.types", Min: 12, Why: "generated packages"},
			{Rule: "GEN.matrix", Min: 1, Why: "corpus coverage of kind x shape cells"},
		},
		Explanation: "Template-level brace typestate (all schemas) plus generator run + type-check over the schema corpus; see level text.",
	})

	reg(&Prop{
		ID:        "C13",
		Technique: "who-may-call / effect rules on the generator's typed syntax: banned nondeterminism sources by resolved object, package-state writes, map-range idiom classification, sort comparator shape, cross-file state readers",
		DesignRef: "DESIGN.md 3.12, 4 C13",
		LevelText: "The absence of every nondeterminism source is decided on the generator's own source: no identifier in any generator package resolves to a clock, environment, host, path, random, network or file-system function (by go/types object, so aliases and wrappers in the repo are seen); package-level variables are written only by init-time registration; every range over a Go map is one of the confirmed order-insensitive idioms (collect-then-sort verified up to the sort call, write-into-map, unique-match scan on a descriptor full name) and its body emits nothing; every sort.Slice comparator is a strict '<' on one key of elements i and j; GenerateHelpers bodies are empty and no template reads LocalPackages/Ext/IsLocalMessage (state that depends on the co-generated file set). Not decided: byte identity across process runs as an observation (it follows from the absence of any source under A3: protogen itself is deterministic).",
		Engines:      E{tmpl.RunDetPure},
		RulePrefixes: []string{"T.det", "T.pure", "T.anchor"},
		Floors: []core.Floor{
			{Rule: "T.det", Min: 2, Why: "2 map ranges (sort comparators are checked when present)"},
			{Rule: "T.pure", Min: 12, Why: "7 package scans + registration write + 2 GenerateHelpers + 3 reader scans"},
		},
		Explanation: "Effect/who-may-call rules on all generator packages; see level text.",
	})

	reg(&Prop{
		ID:        "C04",
		Technique: "symbolic walk of the size and marshal closures to canonical wire sentences / length polynomials, compared with the protobuf wire spec instantiated from the statically parsed descriptor",
		DesignRef: "DESIGN.md 3.2, 3.3, 4 C04",
		LevelText: "For every field of every generated message type (checked-in packages and packages regenerated from the working-tree templates for the schema corpus) the size closure's contribution is, as a symbolic polynomial over tag sizes, Sov(value), len(...) and nested Size(...), equal to the byte length of the wire sentence the spec prescribes, and the marshal closure writes exactly that sentence (tag bytes, payload form, guard) with every write preceded by its own cursor decrement; the buffer is make([]byte, options.Size(x)); so Size = bytes written = reference size for every value and both option settings, the cursor ends at 0 and no write is out of range. The epilogue is append(input.Buf, dAtA...) / input.Buf = dAtA and a nil message returns the input buffer unchanged. Relies on C15 (Sov/EncodeVarint) and A1 (len(options.Marshal(m)) = options.Size(m) for nested m).",
		Engines:      E{codec.RunSize, codec.RunEnc, lib.RunVarint, codec.RunOpts},
		RulePrefixes: []string{"OPTS.map", "OPTS.det", "SIZE", "ENC.field", "ENC.total", "ENC.frame", "ENC.walk", "ENC.unknown", "L.sov", "L.soz", "L.encvarint", "L.anchor", "G.model", "G.anchor", "GEN.build"},
		Floors: []core.Floor{
			{Rule: "SIZE.count", Min: 400, Why: "fields of S1 (255) + quick corpus"},
			{Rule: "ENC.field", Min: 400, Why: "fields of S1 + quick corpus"},
			{Rule: "SIZE.total", Min: 50, Why: "message types"},
			{Rule: "ENC.frame", Min: 50, Why: "message types"},
		},
		Explanation: "SIZE/ENC symbolic walks against the wire spec; see level text.",
	})

	reg(&Prop{
		ID:        "C02",
		Technique: "symbolic walk of the marshal closure to a canonical wire sentence per field, compared with the wire spec (tags from protowire.AppendTag, payload forms, proto3 omission, LegacyFieldOrder, GenericKeyOrder comparator evaluated on all key orderings)",
		DesignRef: "DESIGN.md 3.2, 3.6, 4 C02",
		LevelText: "For every field of every generated type (checked-in and regenerated for the corpus, 1..5-byte tags, every map key/value kind pair in the thorough tier): the bytes written are exactly tag (= protowire.AppendTag) + payload form of the kind (minimal varints: the only varint writers are runtime.EncodeVarint, proved in C15, and the recognised inline packed loop whose reserved size must equal the sum of minimal sizes), packed iff the descriptor says so, under the proto3 omission predicate; blocks appear in the back-filled buffer as unknown, oneofs in reverse declaration order, fields in descending number (= reference 'legacy' order on the wire); map entries always carry key then value; when options.Deterministic all keys are collected, sorted by a comparator that is evaluated on every ordering of two keys and must equal ascending GenericKeyOrder (false<true), and reverse-iterated into the back-filled buffer. Byte equality with the reference as an executed comparison is not decided; it is implied by the above under A3.",
		Engines:      E{codec.RunEnc, codec.RunOpts, lib.RunVarint},
		RulePrefixes: []string{"ENC.field", "ENC.order", "ENC.total", "ENC.frame", "ENC.walk", "ENC.unknown", "DET.map", "DET.flow", "OPTS.det", "OPTS.map", "L.sov", "L.soz", "L.encvarint", "L.anchor", "G.model", "G.anchor", "GEN.build"},
		Floors: []core.Floor{
			{Rule: "ENC.field", Min: 400, Why: "fields of S1 + quick corpus"},
			{Rule: "ENC.order", Min: 300, Why: "plain fields + oneofs"},
			{Rule: "DET.map", Min: 40, Why: "map fields"},
			{Rule: "OPTS.det", Min: 2, Why: "size and marshal option mappings"},
		},
		Explanation: "ENC/DET symbolic walks against the wire spec; see level text.",
	})
	reg(&Prop{
		ID:        "C01",
		Technique: "symbolic walks of the marshal and unmarshal closures to canonical per-field summaries, each compared with the wire spec so that encode and decode forms are mutually inverse per kind",
		DesignRef: "DESIGN.md 3.2, 3.4, 4 C01",
		LevelText: "Per field of every generated type: the encoder's payload form and the decoder's read form are the inverse pair the spec prescribes for the kind (varint<->varint accumulated from a zeroed variable of the Go type, zig-zag encode/decode forms, little-endian fixed 4/8, Float bits/frombits so NaN payloads and -0 survive bit-exactly, copy for string/bytes, nested Marshal/Unmarshal through the same options); the decoder has exactly one arm per schema field storing into the Go field mapped to that number, accepting exactly the declared wire type(s); oneof members are emitted unconditionally and decoded as their wrapper; unknown bytes are emitted verbatim and collected verbatim; the encoder's omission guard is the proto3 presence predicate (so a skipped value is the zero value the decoder leaves); marshal's only error return is a nested Marshal error. Not decided: equality of the decoded value for all inputs as an executed comparison (follows from the inverse pairs under A3-A5); UTF-8 validity.",
		Engines:      E{codec.RunEnc, codec.RunSize, codec.RunDec, codec.RunSkip, lib.RunVarint, codec.RunOpts},
		RulePrefixes: []string{"OPTS", "ENC", "DEC.form", "DEC.oneofmerge", "DEC.mapaccum", "DEC.wire", "DEC.cases", "DEC.frame", "DEC.walk", "SIZE.count", "SIZE.walk", "UNK.default", "L.skip", "L.sov", "L.soz", "L.encvarint", "L.anchor", "G.model", "G.anchor", "GEN.build"},
		Floors: []core.Floor{
			{Rule: "ENC.field", Min: 400, Why: "fields"},
			{Rule: "DEC.form", Min: 400, Why: "arms"},
			{Rule: "DEC.wire", Min: 400, Why: "arms"},
			{Rule: "DEC.cases", Min: 50, Why: "message types"},
		},
		Explanation: "ENC/DEC symbolic walks; inverse pairs per kind; see level text.",
	})
	reg(&Prop{
		ID:        "C03",
		Technique: "symbolic interpretation of every decode arm (value provenance from zeroed accumulators, store operation, cursor discipline) compared with the decoding rules of the wire spec; option-mapping table for nested decodes",
		DesignRef: "DESIGN.md 3.4, 3.9, 4 C03",
		LevelText: "Per arm of every generated decoder: scalars are assigned from a varint accumulated into a zeroed variable (last wins, no residue of an earlier occurrence), repeated fields append, repeated numerics accept the element wire type and the packed form whose loop runs the same element reader until the payload end (so split runs and mixed forms concatenate), oneof members replace the interface value, map entries read key and value per record with defaults from zero-valued variables and store after the whole entry, singular messages decode into the existing value allocated only when nil, nested decodes use options.Unmarshal of the closure's options whose Merge flag is true (OPTS.merge), every other wire type is an error, the cursor ends exactly at the payload end. Concatenation = merge because the loop is a left fold over records. Open findings are reported as KNOWN-FINDING (F5 oneof message members, F6 map default, F16 varint map keys/values). Not decided: equality with the reference decoder on every stream as an executed comparison.",
		Engines:      E{codec.RunDec, codec.RunOpts, codec.RunSkip, refl.RunCoh},
		RulePrefixes: []string{"DEC", "OPTS.merge", "OPTS.map", "COH.msgindex", "L.skip", "G.model", "G.anchor", "GEN.build"},
		Floors: []core.Floor{
			{Rule: "DEC.form", Min: 400, Why: "arms"},
			{Rule: "DEC.wire", Min: 400, Why: "arms"},
			{Rule: "DEC.mapaccum", Min: 40, Why: "map fields"},
			{Rule: "OPTS.merge", Min: 1, Why: "UnmarshalInputToOptions"},
		},
		Explanation: "DEC symbolic interpretation; see level text.",
	})
	reg(&Prop{
		ID:        "C14",
		Technique: "structural rules on the default arm of every decoder (rewind, Skip, exact slice append under !DiscardUnknown, advance), on marshal/size unknown blocks, on GetUnknown/SetUnknown, and the option mapping of DiscardUnknown",
		DesignRef: "DESIGN.md 4 C14",
		LevelText: "For every generated type: the decoder has exactly one arm per schema field (so no known field reaches the default arm and no unknown number is decoded as a field); the default arm rewinds to the record start, measures the record with runtime.Skip (whose per-wire-type advance is decided in C15), appends exactly dAtA[start:start+n] to x.unknownFields iff !options.DiscardUnknown, and advances by n; options come from runtime.UnmarshalInputToOptions which maps the flag and is handed to every nested decode; marshal writes x.unknownFields first into the back-filled buffer (last on the wire) verbatim and size counts len(x.unknownFields); GetUnknown/SetUnknown read and replace exactly that field. Not decided: a known number arriving with a foreign wire type is rejected, not kept as unknown (outside well-typed streams).",
		Engines:      E{codec.RunDec, codec.RunEnc, codec.RunSize, codec.RunUnkAccessors, codec.RunOpts, codec.RunSkip, refl.RunCoh, refl.RunNil},
		RulePrefixes: []string{"COH.msgindex", "NIL.msgmut", "UNK", "DEC.cases", "DEC.flags", "DEC.walk", "DEC.form", "DEC.oneofmerge", "DEC.mapaccum", "ENC.unknown", "ENC.order", "ENC.walk", "SIZE.unknown", "SIZE.walk", "OPTS.discard", "L.skip", "G.model", "G.anchor", "GEN.build"},
		Floors: []core.Floor{
			{Rule: "UNK.default", Min: 50, Why: "message types"},
			{Rule: "UNK.accessors", Min: 100, Why: "2 per message type"},
			{Rule: "ENC.unknown", Min: 50, Why: "message types"},
			{Rule: "SIZE.unknown", Min: 50, Why: "message types"},
			{Rule: "OPTS.discard", Min: 1, Why: "UnmarshalInputToOptions"},
		},
		Explanation: "UNK rules; see level text.",
	})

	reg(&Prop{
		ID:        "C06",
		Technique: "guarded-macro typestate on every decode arm (each buffer access / cursor update must be one of the verified guarded forms that keep 0 <= cursor <= len), structural proof of runtime.Skip, option-mapping rule for the recursion budget, nil-store and nil-receiver rules",
		DesignRef: "DESIGN.md 3.7, 3.8, 4 C06",
		LevelText: "For every arm of every generated decoder (checked-in and regenerated corpus): every access to the input and every cursor update is one of a closed set of guarded forms whose guards are required verbatim and in order (varint reader with cursor>=l and shift>=64 guards; fixed read behind (cursor+k)>l; payload slice only after len<0, end<0 (overflow) and end>l; Skip block with err, negative/overflow and bound guards; last-element access only right after an append); each form preserves 0 <= cursor <= l, so no index or slice expression can be out of range for any byte string; every loop consumes >= 1 byte per iteration (tag reader first; Skip returns >= 1, decided on Skip itself), so decoding terminates; no panic call or unchecked assertion exists in a decoder; allocations are sized by guarded ints bounded by the remaining input (capacity hints <= payload length). The nesting budget is carried: every decoder returns an error when input.Depth <= 0 before reading anything (DEC.depth) and hands nested decodes a RecursionLimit that the checker evaluates to be non-zero and strictly smaller than input.Depth (OPTS.depth), so nesting deeper than the budget of the outermost call is rejected. Accepted messages are safe to read: no nil message pointer is planted (DEC.mapdefault; F6, fixed) and read accessors do not dereference nil (NIL.recv; F7, fixed); and they are safe to marshal: every size contribution equals the encoded length of the same field (SIZE.count, with Sov/Soz/EncodeVarint decided on the bit-length domain), so the back-filling encoder never runs out of buffer. Not decided: stack depth in bytes, wall-clock or allocator behaviour as quantities.",
		Engines:      E{codec.RunDec, codec.RunSkip, codec.RunOpts, refl.RunNil, codec.RunSize, codec.RunEnc, lib.RunVarint},
		RulePrefixes: []string{"BND", "DEC.walk", "DEC.frame", "DEC.mapdefault", "DEC.depth", "OPTS.depth", "L.skip", "NIL.recv", "NIL.wrap", "SIZE.count", "SIZE.walk", "ENC.walk", "ENC.frame", "L.sov", "L.soz", "L.encvarint", "L.anchor", "G.model", "G.anchor", "GEN.build", "UNK.default"},
		Floors: []core.Floor{
			{Rule: "BND.macro", Min: 400, Why: "decode arms"},
			{Rule: "BND.nopanic", Min: 50, Why: "message types"},
			{Rule: "DEC.frame", Min: 50, Why: "message types"},
			{Rule: "L.skip.table", Min: 8, Why: "Skip arms"},
			{Rule: "OPTS.depth", Min: 1, Why: "UnmarshalInputToOptions"},
			{Rule: "NIL.recv", Min: 500, Why: "11 read methods x message types"},
		},
		Explanation: "Guarded-macro typestate for decoders + Skip structure + depth/nil rules; see level text.",
	})
	reg(&Prop{
		ID:        "C09",
		Technique: "nil-dereference analysis on the typed syntax of every read accessor, getter, view method and codec closure (a dereference must be dominated by a nil test of the same variable); mutators must not return silently on read-only empties",
		DesignRef: "DESIGN.md 3.8, 4 C09",
		LevelText: "For every generated type: each read method of the fast-reflection type (Descriptor, Type, New, Interface, Range, Has, Get, WhichOneof, GetUnknown, IsValid, ProtoMethods), each plain getter, each read method of the list/map views and the size/marshal/unmarshal closures either never dereference the receiver / backing pointer / oneof wrapper or do so only under a nil test of that same variable (structured dominance); size of a nil message is 0 and marshal returns the input buffer (ENC/SIZE.frame); view mutators touch the backing store on every path and never return early on a nil backing pointer (writes into read-only empties panic rather than being dropped). Get of an unpopulated message / oneof message member returns the typed-nil read-only message and of an empty list/map the view with a nil backing pointer (ACC.get, ACC.view); IsValid is `x != nil` and the type's Zero() is the typed nil of this very fast-reflection type (COH.type). Open findings: F7 (Has/Get/Range/WhichOneof/GetUnknown dereference a nil receiver), F8 (typed-nil oneof wrappers in Marshal/Get/Range). Not decided: behaviour of protojson/prototext/Clone/Merge on nil beyond the accessors they call (A3).",
		Engines:      E{refl.RunNil, codec.RunEnc, codec.RunSize, refl.RunAcc, refl.RunCoh},
		RulePrefixes: []string{"COH.msginfo", "COH.msgindex", "COH.type", "NIL", "ENC.nilwrap", "SIZE.nilwrap", "ENC.frame", "SIZE.frame", "ENC.walk", "SIZE.walk", "ACC.get", "ACC.has", "ACC.view", "ACC.whichoneof", "ACC.range", "G.model", "G.anchor", "GEN.build"},
		Floors: []core.Floor{
			{Rule: "NIL.recv", Min: 500, Why: "11 read methods x message types"},
			{Rule: "NIL.getter", Min: 400, Why: "getters"},
			{Rule: "NIL.view", Min: 100, Why: "view read methods"},
			{Rule: "NIL.mut", Min: 100, Why: "view mutators"},
			{Rule: "ENC.frame", Min: 50, Why: "message types"},
		},
		Explanation: "Nil-dereference rules on accessors, getters, views and codec closures; see level text.",
	})

	reg(&Prop{
		ID:        "C05",
		Technique: "DET rules on every map block of the marshal closure (collect-all, strict-order comparator evaluated on all key orderings, reverse iteration), option flow (same options value at every nested call; flag mapped by runtime.*InputToOptions), effect analysis showing marshal has no hidden state",
		DesignRef: "DESIGN.md 3.6, 3.10, 4 C05",
		LevelText: "The only order-dependent construct of an encoder is a range over a Go map; for every map field of every generated type that range sits in the else-arm of `if options.Deterministic`, while the then-arm collects every key of the same map into a fresh slice, sorts it with a comparator that is abstractly evaluated on all orderings of two keys (four value pairs for bool) and must be the strict ascending order, and iterates it in reverse into the back-filled buffer; both arms call the same entry closure. Every nested Size/Marshal call is a method call on the closure's own options value (no proto.Marshal, no fresh options), options is runtime.Marshal/SizeInputToOptions(input), and those map Deterministic from the input flag, so the flag reaches every depth (list elements, map values, oneof members). nil and empty containers are both skipped by the len>0 guards (ENC.field). PURE shows size/marshal write nothing but fresh locals, so the output is a function of the message value. Nothing of the statement remains outside A1-A5.",
		Engines:      E{codec.RunEnc, codec.RunSize, codec.RunOpts, refl.RunPure},
		RulePrefixes: []string{"DET", "OPTS.det", "ENC.walk", "ENC.field", "SIZE.walk", "PURE", "G.model", "G.anchor", "GEN.build"},
		Floors: []core.Floor{
			{Rule: "DET.map", Min: 40, Why: "map fields"},
			{Rule: "DET.flow", Min: 100, Why: "size+marshal closures"},
			{Rule: "OPTS.det", Min: 2, Why: "two option mappings"},
			{Rule: "PURE", Min: 1000, Why: "read-only entry points"},
		},
		Explanation: "DET + option flow + PURE; see level text.",
	})
	reg(&Prop{
		ID:        "C07",
		Technique: "taint-style rules on the decode interpreter (payload bytes may only flow through string conversion, copy into a fresh buffer, spread-append, or the nested decoder), store scan on the input buffer, buffer provenance of marshal, effect analysis of all read-only entry points",
		DesignRef: "DESIGN.md 3.10, 4 C07",
		LevelText: "Decoders: in every arm the payload slice dAtA[i:end] flows only into string(...), copy into make([]byte, len) / append(x.F[:0], ...), the spread operand of append onto x.unknownFields, the element-count pre-pass, or options.Unmarshal for the nested message (same rule by induction; protobuf-go copies: A3); any other use (stored, appended as an element, captured) is reported; no statement stores, copies or appends into the input buffer. Encoders: the output is make([]byte, size) filled only by byte stores/copy/PutUint and returned as append(input.Buf, dAtA...) or dAtA. Read-only calls (Size, Marshal, Has, Get, Range, WhichOneof, getters, String, view reads): PURE shows they perform no store to memory reachable from the message, parameters or globals (down to nil-vs-empty: no store at all). Not decided: proto.Equal itself is library code (A3).",
		Engines:      E{codec.RunDec, codec.RunEnc, refl.RunPure, refl.RunCoh},
		RulePrefixes: []string{"COH.msgindex", "ALIAS", "PURE", "ENC.frame", "ENC.walk", "DEC.walk", "UNK.default", "G.model", "G.anchor", "GEN.build"},
		Floors: []core.Floor{
			{Rule: "ALIAS.in", Min: 60, Why: "string/bytes fields in all positions"},
			{Rule: "ALIAS.nowrite", Min: 50, Why: "message types"},
			{Rule: "ENC.frame", Min: 50, Why: "message types"},
			{Rule: "PURE", Min: 1000, Why: "read-only entry points"},
		},
		Explanation: "ALIAS + PURE; see level text.",
	})
	reg(&Prop{
		ID:        "C11",
		Technique: "effect analysis (no-write argument): every read-only entry point is shown to perform no non-atomic store to memory reachable from the shared message or from globals",
		DesignRef: "DESIGN.md 3.10, 4 C11",
		LevelText: "A data race needs a write. For every read-only entry point of every generated type - Descriptor, Type, New, Interface, Range, Has, Get, WhichOneof, GetUnknown, IsValid, NewField, the size and marshal closures, ProtoReflect, slowProtoReflect, String, the legacy Descriptor, every getter, the read methods of list/map views and the message-type singleton - every store targets a local variable or memory allocated in the same activation, and every callee is in the effect summary table (pure, or writing only into a fresh buffer); the lazy message-info initialisation uses the atomic Load/StoreMessageInfo accessors and rawDescGZIP writes its package variable only inside sync.Once.Do. Hence no two of them can race, for any schedule. Embedded protobuf-go types (Any, Timestamp) are A3. Not decided separately: that each reader observes the sequential result (follows from purity).",
		Engines:      E{refl.RunPure},
		RulePrefixes: []string{"PURE", "G.model", "G.anchor", "GEN.build"},
		Floors: []core.Floor{
			{Rule: "PURE", Min: 1000, Why: "read-only entry points"},
		},
		Explanation: "PURE (no-write argument); see level text.",
	})

	reg(&Prop{
		ID:        "C08",
		Technique: "canonicalisation of every accessor arm / view method (positional renaming, temporary substitution that never duplicates an allocation, identity-conversion removal) compared with the per-kind forms derived from the descriptor; presence predicates and effect analysis for the read side",
		DesignRef: "DESIGN.md 3.11, 4 C08",
		LevelText: "A generated message's whole state is its Go struct and every accessor is a function of (struct state, arguments) only (PURE: read accessors write nothing), so per-operation conformance on all states gives conformance on all histories. For every field of every generated type, each arm of Has, Clear, Get, Set, Mutable, NewField (exactly one arm per schema field; unknown descriptors panic), each block of Range (each field exactly once, under its presence predicate, with its own descriptor variable and the value Get returns; a false callback stops), each arm of WhichOneof and every method of every list/map view is canonicalised and must equal the form the protoreflect contract prescribes for the field's kind and shape: value constructor / unwrapper / conversion of the kind, zero value, oneof wrapper asserted and constructed, view backed by a pointer to the field (write-through), allocation on Mutable, detached values from NewField/NewElement/NewValue. Open finding F9: Clear of a oneof member is unconditional. Not decided: agreement of returned values with dynamicpb as executed comparisons; panic message texts.",
		Engines:      E{refl.RunAcc, refl.RunPure, codec.RunUnkAccessors, refl.RunCoh, refl.RunNil},
		RulePrefixes: []string{"ACC", "PURE", "UNK.accessors", "COH.msginfo", "COH.msgindex", "COH.type", "NIL.msgmut", "NIL.mut", "G.model", "G.anchor", "GEN.build"},
		Floors: []core.Floor{
			{Rule: "ACC.arms", Min: 300, Why: "6 methods x message types"},
			{Rule: "ACC.get", Min: 400, Why: "fields"},
			{Rule: "ACC.set", Min: 400, Why: "fields"},
			{Rule: "ACC.has", Min: 400, Why: "fields"},
			{Rule: "ACC.mutable", Min: 400, Why: "fields"},
			{Rule: "ACC.newfield", Min: 400, Why: "fields"},
			{Rule: "ACC.range", Min: 400, Why: "fields + oneofs + totals"},
			{Rule: "ACC.view", Min: 1000, Why: "view methods"},
			{Rule: "ACC.whichoneof", Min: 60, Why: "message types + oneofs"},
		},
		Explanation: "ACC canonical forms; see level text.",
	})

	reg(&Prop{
		ID:        "C10",
		Technique: "table rule on the protoiface.Methods literal (no override of Merge/CheckInitialized, exact flags) plus the accessor-conformance and effect rules restricted to the operations the generic algorithms use",
		DesignRef: "DESIGN.md 4 C10",
		LevelText: "proto.Equal/Clone/Merge/Reset/CheckInitialized and protojson/prototext are generic protobuf-go algorithms over protoreflect; statically the only levers are what they consume. Decided (narrow, stated as such): (i) every accessor those algorithms use (Range, Has, Get, Set, Mutable, NewField, Clear, WhichOneof and the list/map Append/AppendMutable/NewElement/Mutable/Set/Range/Len/Get/Has) has, per field kind and shape, the form the protoreflect contract prescribes (ACC); (ii) the protoiface.Methods literal leaves Merge and CheckInitialized nil so the generic code runs, and advertises exactly SupportMarshalDeterministic|SupportUnmarshalDiscardUnknown (a non-nil override is reported: its correctness would be a runtime-value question); (iii) Reset assigns the zero composite of its own type to *x. Not decided: output text of protojson/prototext and the results of Equal/Clone/Merge as values (runtime equalities against a reference; A3).",
		Engines:      E{refl.RunAcc, refl.RunMeth, refl.RunCoh},
		RulePrefixes: []string{"ACC", "METH", "COH.msgindex", "G.model", "G.anchor", "GEN.build"},
		Floors: []core.Floor{
			{Rule: "METH", Min: 50, Why: "message types"},
			{Rule: "ACC.view", Min: 1000, Why: "view methods"},
			{Rule: "ACC.mutable", Min: 400, Why: "fields"},
			{Rule: "COH.msgindex", Min: 100, Why: "Reset + slowProtoReflect per message"},
		},
		Explanation: "METH + ACC + Reset form; see level text.",
	})
	reg(&Prop{
		ID:        "C19",
		Technique: "table agreement between the statically parsed descriptor and the generated Go tables/methods: raw descriptor vs request (regenerated code) and vs the parsed .proto sources (checked-in code), struct tags, TypeBuilder's flattened Go-type table and dependency indexes, per-message / per-enum table indexes, descriptor variables, type singletons, getters, Reset, enum maps (canonical-form comparison)",
		DesignRef: "DESIGN.md 4 C19",
		LevelText: "For every generated package (checked-in and regenerated corpus): the embedded raw descriptor equals the schema given to the generator byte-for-field (regenerated packages: proto.Equal against the request, options included; checked-in packages: proto.Equal against the .proto source next to each file, which the checker parses itself - names, numbers, kinds, labels, json names, oneof membership, map entries, nesting order, enums, services, imports and options including the cosmos_proto extension options; file options that buf managed mode adds are not compared); every struct tag agrees with its descriptor field (wire keyword, number, label, packed, name, oneof, map key/value tags) and the Go type with the kind; goTypes lists the enums then the messages in protobuf-go's flattened order, each bound to its own Go type (nil for map entries), depIdxs resolves every field dependency to the right entry and the TypeBuilder literal carries the right counts and tables; slowProtoReflect and Reset of message k use msgTypes[k] and enum k's String/Descriptor/Type/Number use enumTypes[k]; md_/fd_ variables resolve through the parent chain to the message's own descriptor and fields; the type singleton's New/Zero/Descriptor and the message's Type/Descriptor/New/Interface/ProtoReflect yield that same Go type; getters are nil-safe and return the mapped field (oneof getters assert the member's wrapper) with the kind's zero value; Reset zeroes *x; <Enum>_name/_value equal the descriptor's values; Range visits every populated field exactly once (ACC.range: String(), which is built on Range, would otherwise print a field twice and the text would not parse back); a file that publicly imports a file of another Go package forwards every schema symbol that file declares (types, enum constants, name/value maps, extension descriptors). Not decided: that String() text parses back (library) and registry lookups at run time (they follow from TypeBuilder under A3).",
		Engines:      E{refl.RunCoh, refl.RunNil, refl.RunAcc},
		RulePrefixes: []string{"COH", "NIL.getter", "ACC.range", "G.model", "G.anchor", "GEN.build"},
		Floors: []core.Floor{
			{Rule: "COH.rawdesc", Min: 15, Why: "generated files"},
			{Rule: "COH.legacy", Min: 15, Why: "generated files"},
			{Rule: "COH.ext", Min: 3, Why: "table, variables and TypeBuilder of the extension-declaring corpus file"},
			{Rule: "COH.initchain", Min: 20, Why: "registration of every generated file + same-package imports in testpb, test3 and the corpus"},
			{Rule: "COH.imports", Min: 20, Why: "one per generated file: testpb (3), test3 (3) and the corpus"},
			{Rule: "COH.pubfwd", Min: 3, Why: "public imports across Go packages in the corpus (pubimp: mid, umbrella; proto2 neighbours)"},
			{Rule: "COH.proto", Min: 6, Why: "six checked-in generated files with a .proto next to them"},
			{Rule: "COH.gotypes", Min: 15, Why: "generated files"},
			{Rule: "COH.depidx", Min: 15, Why: "generated files"},
			{Rule: "COH.msgindex", Min: 100, Why: "2 per message"},
			{Rule: "COH.type", Min: 500, Why: "10 per message"},
			{Rule: "COH.tags", Min: 400, Why: "fields"},
			{Rule: "COH.getter", Min: 400, Why: "getters"},
			{Rule: "COH.enum", Min: 30, Why: "5 per enum"},
			{Rule: "COH.msginfo", Min: 20, Why: "OneofWrappers lists"},
		},
		Explanation: "COH table agreement; see level text.",
	})
}
