package model

import (
	"fmt"
	"go/ast"
	"go/token"
	"go/types"
	"regexp"
	"sort"
	"strings"
)

// GlobalWrites lists writes to package-level variables of a generated package that occur outside
// the places where generated code initialises them. Every rule reads descriptors, type tables and
// descriptor variables through these globals; a stray assignment (for instance from an extra
// init function or a hand-written file added to the package) would silently change what the
// analysed code means at run time.
func GlobalWrites(g *GenPkg) []string {
	info := g.Info
	// only the variables that generated files declare are guarded: a hand-written file of the package may keep state of its own
	genFile := map[string]bool{}
	for _, f := range g.Files {
		for _, cg := range f.Comments {
			if cg.Pos() < f.Package && strings.Contains(cg.Text(), "Code generated") {
				genFile[g.Fset.Position(f.Pos()).Filename] = true
			}
		}
	}
	pkgVars := map[types.Object]bool{}
	for _, n := range g.Types.Scope().Names() {
		if v, ok := g.Types.Scope().Lookup(n).(*types.Var); ok && genFile[g.Fset.Position(v.Pos()).Filename] {
			pkgVars[v] = true
		}
	}
	type rule struct{ fn, v *regexp.Regexp }
	allowed := []rule{
		{regexp.MustCompile(`^init$`), regexp.MustCompile(`^(md|fd)_`)},
		{regexp.MustCompile(`^file_.*_init$`), regexp.MustCompile(`^(File_.*|file_.*_(rawDesc|goTypes|depIdxs|msgTypes|enumTypes))$`)},
		{regexp.MustCompile(`^file_.*_rawDescGZIP$`), regexp.MustCompile(`^file_.*_rawDesc(Data|Once)$`)},
	}
	addrOK := []rule{
		{regexp.MustCompile(`\.(slowProtoReflect|Reset)$`), regexp.MustCompile(`^file_.*_msgTypes$`)},
		{regexp.MustCompile(`\.(Type|Descriptor)$`), regexp.MustCompile(`^file_.*_enumTypes$`)},
		{regexp.MustCompile(`^file_.*_rawDescGZIP$`), regexp.MustCompile(`^file_.*_rawDescOnce$`)},
		{regexp.MustCompile(`^file_.*_init$`), regexp.MustCompile(`^file_.*_(msgTypes|enumTypes)$`)},
	}
	var out []string
	root := func(x ast.Expr) *ast.Ident {
		for {
			switch t := x.(type) {
			case *ast.ParenExpr:
				x = t.X
			case *ast.SelectorExpr:
				x = t.X
			case *ast.IndexExpr:
				x = t.X
			case *ast.StarExpr:
				x = t.X
			case *ast.SliceExpr:
				x = t.X
			case *ast.Ident:
				return t
			default:
				return nil
			}
		}
	}
	names := make([]string, 0, len(g.Funcs))
	for k := range g.Funcs {
		names = append(names, k)
	}
	sort.Strings(names)
	inits := 0
	writes := map[string]int{}
	for _, file := range g.Files {
		for _, d := range file.Decls {
			fd, ok := d.(*ast.FuncDecl)
			if !ok || fd.Body == nil {
				continue
			}
			fname := fd.Name.Name
			if fd.Recv != nil && len(fd.Recv.List) == 1 {
				fname = recvName(fd.Recv.List[0].Type) + "." + fname
			}
			if fd.Name.Name == "init" && fd.Recv == nil {
				inits++
			}
			check := func(lhs ast.Expr, rules []rule, what string) {
				id := root(lhs)
				if id == nil || !pkgVars[info.ObjectOf(id)] {
					return
				}
				if what == "assigns" {
					if _, direct := ast.Unparen(lhs).(*ast.Ident); direct {
						writes[id.Name]++
						if writes[id.Name] == 2 {
							out = append(out, fmt.Sprintf("package variable %s is assigned more than once (second assignment in %s)", id.Name, fname))
						}
					}
				}
				for _, r := range rules {
					if r.fn.MatchString(fname) && r.v.MatchString(id.Name) {
						return
					}
				}
				p := g.Fset.Position(lhs.Pos())
				out = append(out, fmt.Sprintf("%s %s package variable %s (%s:%d)", fname, what, id.Name, p.Filename[strings.LastIndex(p.Filename, "/")+1:], p.Line))
			}
			ast.Inspect(fd.Body, func(n ast.Node) bool {
				switch t := n.(type) {
				case *ast.AssignStmt:
					if t.Tok != token.DEFINE {
						for _, l := range t.Lhs {
							check(l, allowed, "assigns")
						}
					}
				case *ast.IncDecStmt:
					check(t.X, allowed, "modifies")
				case *ast.UnaryExpr:
					if t.Op == token.AND {
						check(t.X, addrOK, "takes the address of")
					}
				case *ast.CallExpr:
					if sel, ok := t.Fun.(*ast.SelectorExpr); ok {
						if si, ok := info.Selections[sel]; ok && si.Kind() == types.MethodVal {
							if f, ok := si.Obj().(*types.Func); ok {
								if sig := f.Type().(*types.Signature); sig.Recv() != nil {
									if _, isPtr := sig.Recv().Type().(*types.Pointer); isPtr {
										if _, recvIsPtr := info.TypeOf(sel.X).(*types.Pointer); !recvIsPtr {
											check(sel.X, addrOK, "calls a pointer-receiver method on")
										}
									}
								}
							}
						}
					}
				}
				return true
			})
		}
	}
	return out
}
