// Package model is engine G: the shared model of a generated package —
// descriptors (parsed statically from the embedded byte literals), message
// structs, field <-> descriptor mapping through struct tags, the
// fastReflection methods and the three ProtoMethods closures.
package model

import (
	"fmt"
	"go/ast"
	"go/token"
	"go/types"
	"reflect"
	"sort"
	"strconv"
	"strings"

	"google.golang.org/protobuf/reflect/protodesc"
	"google.golang.org/protobuf/reflect/protoreflect"
	"google.golang.org/protobuf/reflect/protoregistry"
	"google.golang.org/protobuf/types/descriptorpb"
	_ "google.golang.org/protobuf/types/known/anypb"
	_ "google.golang.org/protobuf/types/known/durationpb"
	_ "google.golang.org/protobuf/types/known/emptypb"
	_ "google.golang.org/protobuf/types/known/fieldmaskpb"
	_ "google.golang.org/protobuf/types/known/structpb"
	_ "google.golang.org/protobuf/types/known/timestamppb"
	_ "google.golang.org/protobuf/types/known/wrapperspb"

	"verif/checker/internal/gen"
)

// Linker links FileDescriptorProtos into protoreflect descriptors.
type Linker struct {
	Protos map[string]*descriptorpb.FileDescriptorProto
	linked map[string]protoreflect.FileDescriptor
	files  *protoregistry.Files
}

func NewLinker() *Linker {
	return &Linker{Protos: map[string]*descriptorpb.FileDescriptorProto{}, linked: map[string]protoreflect.FileDescriptor{}, files: new(protoregistry.Files)}
}

func (l *Linker) Add(fd *descriptorpb.FileDescriptorProto) { l.Protos[fd.GetName()] = fd }

type linkResolver struct{ l *Linker }

func (r linkResolver) FindFileByPath(p string) (protoreflect.FileDescriptor, error) {
	if fd, err := r.l.Link(p); err == nil {
		return fd, nil
	}
	return protoregistry.GlobalFiles.FindFileByPath(p)
}
func (r linkResolver) FindDescriptorByName(n protoreflect.FullName) (protoreflect.Descriptor, error) {
	if d, err := r.l.files.FindDescriptorByName(n); err == nil {
		return d, nil
	}
	return protoregistry.GlobalFiles.FindDescriptorByName(n)
}

func (l *Linker) Link(name string) (protoreflect.FileDescriptor, error) {
	if fd, ok := l.linked[name]; ok {
		return fd, nil
	}
	p, ok := l.Protos[name]
	if !ok {
		return nil, fmt.Errorf("file %s not known", name)
	}
	for _, dep := range p.GetDependency() {
		if _, ok := l.Protos[dep]; ok {
			if _, err := l.Link(dep); err != nil {
				return nil, err
			}
		}
	}
	fd, err := protodesc.NewFile(p, linkResolver{l})
	if err != nil {
		return nil, err
	}
	l.linked[name] = fd
	l.files.RegisterFile(fd)
	return fd, nil
}

// GenPkg is one generated package under analysis.
type GenPkg struct {
	Name   string // display name, e.g. "testpb" or "k_scalar"
	Source string // "S1" or "S2:<schema>"
	Fset   *token.FileSet
	Files  []*ast.File
	Info   *types.Info
	Types  *types.Package

	RawVars   map[string]*descriptorpb.FileDescriptorProto // file_x_rawDesc -> proto
	RawBytes  map[string][]byte
	FileDescs map[string]protoreflect.FileDescriptor // rawDesc var name -> linked
	Msgs      []*Msg
	MsgByGo   map[string]*Msg
	Enums     []*Enum
	Funcs     map[string]*ast.FuncDecl // "Recv.Name" / "Name"
	Problems  []string
}

type Enum struct {
	Desc   protoreflect.EnumDescriptor
	GoName string
	Named  *types.Named
}

type Msg struct {
	Pkg    *GenPkg
	Desc   protoreflect.MessageDescriptor
	GoName string
	Named  *types.Named
	Struct *types.Struct
	Fast   *types.Named // fastReflection_X
	Fields []*Field     // descriptor order
	Oneofs []*Oneof
	ByNum  map[int32]*Field

	Methods      map[string]*ast.FuncDecl // methods of fastReflection_X
	ProtoMethods *ast.FuncDecl
	Size         *ast.FuncLit
	Marshal      *ast.FuncLit
	Unmarshal    *ast.FuncLit
	MethodsLit   ast.Node // where the protoiface.Methods value is created
	MethodsFields map[string]ast.Expr // field -> value of the protoiface.Methods ProtoMethods returns
	MethodsReturned bool // ProtoMethods returns (the address of) that value
	UnknownVar   *types.Var
	RawVar       string // rawDesc variable of the file declaring the message
	Path         []int  // legacy Descriptor() index path
}

type Field struct {
	Msg    *Msg
	Desc   protoreflect.FieldDescriptor
	GoName string     // struct field name (for oneof members: field of the wrapper struct)
	Var    *types.Var // struct field var (nil for oneof members: see Wrapper)
	Oneof  *Oneof
	// oneof members
	Wrapper      *types.Named
	WrapperField *types.Var
	Tag          string
}

type Oneof struct {
	Desc    protoreflect.OneofDescriptor
	GoName  string
	Var     *types.Var
	Iface   *types.Named
	Members []*Field
}

func (m *Msg) Q() string { return m.Pkg.Name + "." + m.GoName }

func (f *Field) Q() string {
	return fmt.Sprintf("%s#%d(%s)", f.Msg.Q(), f.Desc.Number(), Shape(f.Desc))
}

// Shape renders kind and cardinality of a field: e.g. "repeated/packed sint32", "map<string,message>", "oneof string".
func Shape(fd protoreflect.FieldDescriptor) string {
	switch {
	case fd.IsMap():
		return fmt.Sprintf("map<%s,%s>", fd.MapKey().Kind(), fd.MapValue().Kind())
	case fd.IsList():
		if fd.IsPacked() {
			return "packed " + fd.Kind().String()
		}
		return "repeated " + fd.Kind().String()
	case fd.ContainingOneof() != nil && !fd.ContainingOneof().IsSynthetic():
		return "oneof " + fd.Kind().String()
	}
	return fd.Kind().String()
}

// Build constructs the model of a generated package.
func Build(name, source string, fset *token.FileSet, files []*ast.File, info *types.Info, tp *types.Package, l *Linker) (*GenPkg, error) {
	g := &GenPkg{Name: name, Source: source, Fset: fset, Files: files, Info: info, Types: tp,
		FileDescs: map[string]protoreflect.FileDescriptor{}, MsgByGo: map[string]*Msg{}, Funcs: map[string]*ast.FuncDecl{}}
	raws, rawBytes, err := gen.RawDescs(files, info)
	if err != nil {
		return nil, err
	}
	g.RawVars, g.RawBytes = raws, rawBytes
	for _, fd := range raws {
		l.Add(fd)
	}
	for v, fd := range raws {
		lf, err := l.Link(fd.GetName())
		if err != nil {
			return nil, fmt.Errorf("link %s: %v", fd.GetName(), err)
		}
		g.FileDescs[v] = lf
	}
	for _, f := range files {
		for _, d := range f.Decls {
			fd, ok := d.(*ast.FuncDecl)
			if !ok {
				continue
			}
			n := fd.Name.Name
			if fd.Recv != nil && len(fd.Recv.List) == 1 {
				n = recvName(fd.Recv.List[0].Type) + "." + n
			}
			g.Funcs[n] = fd
		}
	}
	// message structs: named struct types with the legacy Descriptor() ([]byte, []int) method
	scope := tp.Scope()
	names := scope.Names()
	sort.Strings(names)
	for _, n := range names {
		tn, ok := scope.Lookup(n).(*types.TypeName)
		if !ok {
			continue
		}
		named, ok := tn.Type().(*types.Named)
		if !ok {
			continue
		}
		st, isStruct := named.Underlying().(*types.Struct)
		legacy := g.Funcs[n+".Descriptor"]
		if isStruct && legacy != nil && legacy.Type.Results != nil && len(legacy.Type.Results.List) == 2 && hasField(st, "unknownFields") {
			rawVar, path, err := legacyPath(legacy)
			if err != nil {
				g.Problems = append(g.Problems, fmt.Sprintf("%s.Descriptor: %v", n, err))
				continue
			}
			fdesc := g.FileDescs[rawVar]
			if fdesc == nil {
				g.Problems = append(g.Problems, fmt.Sprintf("%s.Descriptor refers to unknown descriptor variable %s", n, rawVar))
				continue
			}
			md := msgAt(fdesc, path)
			if md == nil {
				g.Problems = append(g.Problems, fmt.Sprintf("%s.Descriptor path %v does not resolve", n, path))
				continue
			}
			m := &Msg{Pkg: g, Desc: md, GoName: n, Named: named, Struct: st, ByNum: map[int32]*Field{}, Methods: map[string]*ast.FuncDecl{}, RawVar: rawVar, Path: path}
			g.Msgs = append(g.Msgs, m)
			g.MsgByGo[n] = m
			continue
		}
		// enums: named int32 with EnumDescriptor() legacy method
		if b, ok := named.Underlying().(*types.Basic); ok && b.Kind() == types.Int32 {
			if legacy := g.Funcs[n+".EnumDescriptor"]; legacy != nil {
				rawVar, path, err := legacyPath(legacy)
				if err == nil && g.FileDescs[rawVar] != nil {
					if ed := enumAt(g.FileDescs[rawVar], path); ed != nil {
						g.Enums = append(g.Enums, &Enum{Desc: ed, GoName: n, Named: named})
						continue
					}
				}
				g.Problems = append(g.Problems, fmt.Sprintf("%s.EnumDescriptor does not resolve", n))
			}
		}
	}
	for _, m := range g.Msgs {
		g.fillMsg(m)
	}
	return g, nil
}

func recvName(e ast.Expr) string {
	switch t := e.(type) {
	case *ast.StarExpr:
		return recvName(t.X)
	case *ast.Ident:
		return t.Name
	}
	return "?"
}

func hasField(st *types.Struct, name string) bool {
	for i := 0; i < st.NumFields(); i++ {
		if st.Field(i).Name() == name {
			return true
		}
	}
	return false
}

// legacyPath reads `return file_x_rawDescGZIP(), []int{a, b}`.
func legacyPath(fd *ast.FuncDecl) (string, []int, error) {
	if fd.Body == nil || len(fd.Body.List) != 1 {
		return "", nil, fmt.Errorf("unexpected body")
	}
	rs, ok := fd.Body.List[0].(*ast.ReturnStmt)
	if !ok || len(rs.Results) != 2 {
		return "", nil, fmt.Errorf("unexpected return")
	}
	call, ok := rs.Results[0].(*ast.CallExpr)
	if !ok {
		return "", nil, fmt.Errorf("first result is not a call")
	}
	id, ok := call.Fun.(*ast.Ident)
	if !ok || !strings.HasSuffix(id.Name, "_rawDescGZIP") {
		return "", nil, fmt.Errorf("first result is not file_*_rawDescGZIP()")
	}
	cl, ok := rs.Results[1].(*ast.CompositeLit)
	if !ok {
		return "", nil, fmt.Errorf("second result is not a literal")
	}
	var path []int
	for _, e := range cl.Elts {
		bl, ok := e.(*ast.BasicLit)
		if !ok {
			return "", nil, fmt.Errorf("path element")
		}
		v, err := strconv.Atoi(bl.Value)
		if err != nil {
			return "", nil, err
		}
		path = append(path, v)
	}
	return strings.TrimSuffix(id.Name, "GZIP"), path, nil
}

func msgAt(fd protoreflect.FileDescriptor, path []int) protoreflect.MessageDescriptor {
	if len(path) == 0 {
		return nil
	}
	ms := fd.Messages()
	var md protoreflect.MessageDescriptor
	for _, i := range path {
		if i < 0 || i >= ms.Len() {
			return nil
		}
		md = ms.Get(i)
		ms = md.Messages()
	}
	return md
}

func enumAt(fd protoreflect.FileDescriptor, path []int) protoreflect.EnumDescriptor {
	if len(path) == 0 {
		return nil
	}
	if len(path) == 1 {
		if path[0] < fd.Enums().Len() {
			return fd.Enums().Get(path[0])
		}
		return nil
	}
	md := msgAt(fd, path[:len(path)-1])
	if md == nil || path[len(path)-1] >= md.Enums().Len() {
		return nil
	}
	return md.Enums().Get(path[len(path)-1])
}

// TagNumber parses the field number and keyword list of a protobuf struct tag.
func TagNumber(tag string) (num int32, parts []string, ok bool) {
	t := reflect.StructTag(tag).Get("protobuf")
	if t == "" {
		return 0, nil, false
	}
	parts = strings.Split(t, ",")
	if len(parts) < 2 {
		return 0, nil, false
	}
	n, err := strconv.Atoi(parts[1])
	if err != nil {
		return 0, nil, false
	}
	return int32(n), parts, true
}

func (g *GenPkg) fillMsg(m *Msg) {
	st := m.Struct
	oneofByName := map[string]*Oneof{}
	for i := 0; i < st.NumFields(); i++ {
		v := st.Field(i)
		tag := st.Tag(i)
		if v.Name() == "unknownFields" {
			m.UnknownVar = v
		}
		if on := reflect.StructTag(tag).Get("protobuf_oneof"); on != "" {
			od := m.Desc.Oneofs().ByName(protoreflect.Name(on))
			if od == nil {
				g.Problems = append(g.Problems, fmt.Sprintf("%s: struct field %s has protobuf_oneof:%q which the descriptor lacks", m.GoName, v.Name(), on))
				continue
			}
			o := &Oneof{Desc: od, GoName: v.Name(), Var: v}
			if n, ok := v.Type().(*types.Named); ok {
				o.Iface = n
			}
			m.Oneofs = append(m.Oneofs, o)
			oneofByName[on] = o
			continue
		}
		num, _, ok := TagNumber(tag)
		if !ok {
			continue
		}
		fd := m.Desc.Fields().ByNumber(protoreflect.FieldNumber(num))
		if fd == nil {
			g.Problems = append(g.Problems, fmt.Sprintf("%s: struct field %s has tag number %d which the descriptor lacks", m.GoName, v.Name(), num))
			continue
		}
		f := &Field{Msg: m, Desc: fd, GoName: v.Name(), Var: v, Tag: tag}
		m.ByNum[num] = f
	}
	// oneof wrappers: named structs in the package implementing the oneof interface
	scope := g.Types.Scope()
	for _, n := range scope.Names() {
		tn, ok := scope.Lookup(n).(*types.TypeName)
		if !ok {
			continue
		}
		named, ok := tn.Type().(*types.Named)
		if !ok {
			continue
		}
		wst, ok := named.Underlying().(*types.Struct)
		if !ok || wst.NumFields() != 1 {
			continue
		}
		for _, o := range m.Oneofs {
			if o.Iface == nil {
				continue
			}
			iface, ok := o.Iface.Underlying().(*types.Interface)
			if !ok || !types.Implements(types.NewPointer(named), iface) {
				continue
			}
			num, parts, ok := TagNumber(wst.Tag(0))
			if !ok {
				continue
			}
			isOneof := false
			for _, p := range parts {
				if p == "oneof" {
					isOneof = true
				}
			}
			fd := m.Desc.Fields().ByNumber(protoreflect.FieldNumber(num))
			if !isOneof || fd == nil || fd.ContainingOneof() != o.Desc {
				g.Problems = append(g.Problems, fmt.Sprintf("%s: wrapper %s does not match a member of oneof %s", m.GoName, n, o.Desc.Name()))
				continue
			}
			f := &Field{Msg: m, Desc: fd, GoName: wst.Field(0).Name(), Oneof: o, Wrapper: named, WrapperField: wst.Field(0), Tag: wst.Tag(0)}
			m.ByNum[num] = f
			o.Members = append(o.Members, f)
		}
	}
	for _, o := range m.Oneofs {
		sort.Slice(o.Members, func(i, j int) bool { return o.Members[i].Desc.Index() < o.Members[j].Desc.Index() })
	}
	fds := m.Desc.Fields()
	for i := 0; i < fds.Len(); i++ {
		fd := fds.Get(i)
		f := m.ByNum[int32(fd.Number())]
		if f == nil {
			g.Problems = append(g.Problems, fmt.Sprintf("%s: descriptor field %s (#%d) has no Go struct field", m.GoName, fd.Name(), fd.Number()))
			continue
		}
		m.Fields = append(m.Fields, f)
	}
	// fastReflection type & methods
	fastName := ""
	for n, fd := range g.Funcs {
		if !strings.HasSuffix(n, ".ProtoReflect") || fd.Recv == nil {
			continue
		}
		if recvName(fd.Recv.List[0].Type) != m.GoName {
			continue
		}
		// return (*fastReflection_X)(x)
		if len(fd.Body.List) == 1 {
			if rs, ok := fd.Body.List[0].(*ast.ReturnStmt); ok && len(rs.Results) == 1 {
				if call, ok := rs.Results[0].(*ast.CallExpr); ok {
					if tv, ok := g.Info.Types[call.Fun]; ok && tv.IsType() {
						if p, ok := tv.Type.(*types.Pointer); ok {
							if nn, ok := p.Elem().(*types.Named); ok {
								m.Fast = nn
								fastName = nn.Obj().Name()
							}
						}
					}
				}
			}
		}
	}
	if m.Fast == nil {
		g.Problems = append(g.Problems, fmt.Sprintf("%s: ProtoReflect does not convert to a fast-reflection type", m.GoName))
		return
	}
	for n, fd := range g.Funcs {
		if strings.HasPrefix(n, fastName+".") {
			m.Methods[strings.TrimPrefix(n, fastName+".")] = fd
		}
	}
	pm := m.Methods["ProtoMethods"]
	m.ProtoMethods = pm
	if pm == nil || pm.Body == nil {
		g.Problems = append(g.Problems, fmt.Sprintf("%s: no ProtoMethods", m.GoName))
		return
	}
	// `return pkgVar` where a generated file declares `var pkgVar = func() *protoiface.Methods { … }()`: the value is
	// built once, by that function literal (GlobalWrites reports any other write to a generated package variable)
	body := pm.Body
	if len(body.List) == 1 {
		if rs, ok := body.List[0].(*ast.ReturnStmt); ok && len(rs.Results) == 1 {
			if id, ok := ast.Unparen(rs.Results[0]).(*ast.Ident); ok {
				if v, ok := g.Info.Uses[id].(*types.Var); ok && v.Parent() == g.Types.Scope() {
					for _, f := range g.Files {
						for _, d := range f.Decls {
							gd, ok := d.(*ast.GenDecl)
							if !ok || gd.Tok != token.VAR {
								continue
							}
							for _, sp := range gd.Specs {
								vs := sp.(*ast.ValueSpec)
								for i, nm := range vs.Names {
									if g.Info.Defs[nm] != v || len(vs.Values) != len(vs.Names) {
										continue
									}
									if call, ok := ast.Unparen(vs.Values[i]).(*ast.CallExpr); ok && len(call.Args) == 0 {
										if fl, ok := ast.Unparen(call.Fun).(*ast.FuncLit); ok {
											body = fl.Body
										}
									}
								}
							}
						}
					}
				}
			}
		}
	}
	// closures: ident -> FuncLit
	lits := map[types.Object]*ast.FuncLit{}
	for _, s := range body.List {
		if as, ok := s.(*ast.AssignStmt); ok && as.Tok == token.DEFINE && len(as.Lhs) == 1 && len(as.Rhs) == 1 {
			if id, ok := as.Lhs[0].(*ast.Ident); ok {
				if fl, ok := as.Rhs[0].(*ast.FuncLit); ok {
					lits[g.Info.Defs[id]] = fl
				}
			}
		}
	}
	// the protoiface.Methods value ProtoMethods returns: `return &Methods{…}`, or a local (`v := &Methods{…}`,
	// `v := new(Methods)`, `var v Methods`) filled by top-level `v.F = E` assignments and returned (`return v` / `return &v`)
	isMethods := func(t types.Type) bool {
		if p, ok := t.(*types.Pointer); ok {
			t = p.Elem()
		}
		return t != nil && strings.HasSuffix(t.String(), "protoiface.Methods")
	}
	fields := map[string]ast.Expr{}
	fromLit := func(x ast.Expr) (*ast.CompositeLit, bool) {
		x = ast.Unparen(x)
		if ue, ok := x.(*ast.UnaryExpr); ok && ue.Op == token.AND {
			x = ast.Unparen(ue.X)
		}
		cl, ok := x.(*ast.CompositeLit)
		if !ok || !isMethods(g.Info.TypeOf(cl)) {
			return nil, false
		}
		for _, e := range cl.Elts {
			if kv, ok := e.(*ast.KeyValueExpr); ok {
				if k, ok := kv.Key.(*ast.Ident); ok {
					fields[k.Name] = kv.Value
				}
			}
		}
		return cl, true
	}
	var sv types.Object // the local holding the Methods value
	svPtr := false
	for _, st := range body.List {
		switch t := st.(type) {
		case *ast.AssignStmt:
			if t.Tok == token.DEFINE && len(t.Lhs) == 1 && len(t.Rhs) == 1 {
				id, _ := t.Lhs[0].(*ast.Ident)
				if id == nil || !isMethods(g.Info.TypeOf(t.Rhs[0])) {
					continue
				}
				if cl, ok := fromLit(t.Rhs[0]); ok {
					_, svPtr = ast.Unparen(t.Rhs[0]).(*ast.UnaryExpr)
					sv, m.MethodsLit = g.Info.Defs[id], cl
				} else if call, ok := ast.Unparen(t.Rhs[0]).(*ast.CallExpr); ok && len(call.Args) == 1 {
					if fid, ok := call.Fun.(*ast.Ident); ok && fid.Name == "new" {
						if _, isB := g.Info.Uses[fid].(*types.Builtin); isB {
							sv, svPtr, m.MethodsLit = g.Info.Defs[id], true, call
						}
					}
				}
				continue
			}
			if t.Tok == token.ASSIGN && len(t.Lhs) == 1 && len(t.Rhs) == 1 && sv != nil {
				if sel, ok := t.Lhs[0].(*ast.SelectorExpr); ok {
					if id, ok := ast.Unparen(sel.X).(*ast.Ident); ok && g.Info.Uses[id] == sv {
						fields[sel.Sel.Name] = t.Rhs[0]
					}
				}
			}
		case *ast.DeclStmt:
			if gd, ok := t.Decl.(*ast.GenDecl); ok && gd.Tok == token.VAR {
				for _, sp := range gd.Specs {
					if vs, ok := sp.(*ast.ValueSpec); ok && len(vs.Names) == 1 && len(vs.Values) == 0 && isMethods(g.Info.TypeOf(vs.Names[0])) {
						if _, isPtr := g.Info.TypeOf(vs.Names[0]).(*types.Pointer); !isPtr {
							sv, svPtr, m.MethodsLit = g.Info.Defs[vs.Names[0]], false, vs
						}
					}
				}
			}
		case *ast.ReturnStmt:
			if len(t.Results) != 1 {
				continue
			}
			r := ast.Unparen(t.Results[0])
			if cl, ok := fromLit(r); ok && sv == nil {
				m.MethodsLit, m.MethodsReturned = cl, true
				continue
			}
			if ue, ok := r.(*ast.UnaryExpr); ok && ue.Op == token.AND && !svPtr {
				r = ast.Unparen(ue.X)
			} else if !svPtr {
				continue
			}
			if id, ok := r.(*ast.Ident); ok && sv != nil && g.Info.Uses[id] == sv {
				m.MethodsReturned = true
			}
		}
	}
	// the local must not be used in any other way (passed on, re-assigned, written in a nested block)
	if sv != nil {
		uses := 0
		ast.Inspect(body, func(n ast.Node) bool {
			if id, ok := n.(*ast.Ident); ok && g.Info.Uses[id] == sv {
				uses++
			}
			return true
		})
		top := 0
		for _, st := range body.List {
			switch t := st.(type) {
			case *ast.AssignStmt:
				if t.Tok == token.ASSIGN && len(t.Lhs) == 1 {
					if sel, ok := t.Lhs[0].(*ast.SelectorExpr); ok {
						if id, ok := ast.Unparen(sel.X).(*ast.Ident); ok && g.Info.Uses[id] == sv {
							top++
							ast.Inspect(t.Rhs[0], func(n ast.Node) bool {
								if id, ok := n.(*ast.Ident); ok && g.Info.Uses[id] == sv {
									top-- // the value refers to the local itself: not understood
								}
								return true
							})
						}
					}
				}
			case *ast.ReturnStmt:
				ast.Inspect(t, func(n ast.Node) bool {
					if id, ok := n.(*ast.Ident); ok && g.Info.Uses[id] == sv {
						top++
					}
					return true
				})
			}
		}
		if uses != top {
			m.MethodsReturned = false
			g.Problems = append(g.Problems, fmt.Sprintf("%s: the protoiface.Methods value built in ProtoMethods is used in a way the model does not follow", m.GoName))
		}
	}
	m.MethodsFields = fields
	for k, v := range fields {
		vid, _ := ast.Unparen(v).(*ast.Ident)
		if vid == nil {
			continue
		}
		fl := lits[g.Info.Uses[vid]]
		// a named package-level function in place of the closure: same parameter list and body, read the same way
		if fl == nil {
			if fo, ok := g.Info.Uses[vid].(*types.Func); ok && fo.Pkg() == g.Types {
				if fd := g.Funcs[fo.Name()]; fd != nil && fd.Recv == nil && fd.Body != nil {
					fl = &ast.FuncLit{Type: fd.Type, Body: fd.Body}
				}
			}
		}
		switch k {
		case "Size":
			m.Size = fl
		case "Marshal":
			m.Marshal = fl
		case "Unmarshal":
			m.Unmarshal = fl
		}
	}
	if m.Size == nil || m.Marshal == nil || m.Unmarshal == nil {
		g.Problems = append(g.Problems, fmt.Sprintf("%s: Size/Marshal/Unmarshal closures not all found in the protoiface.Methods value", m.GoName))
	}
}
