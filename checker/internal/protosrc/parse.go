// Package protosrc is a small parser for the proto3 sources checked into the
// repository. It turns a .proto file into the FileDescriptorProto protoc would
// hand to a plugin (without source info), so that the descriptor embedded in a
// checked-in *.pulsar.go can be compared with the schema it claims to come from.
//
// Supported: syntax, package, import [public|weak], file/message/field/enum/
// enum-value/oneof/service/method options with scalar values (including
// extension options declared in an imported file), messages, nested messages,
// enums, oneofs, map fields, repeated fields, reserved, services, extend blocks.
// Anything else (groups, proto2 labels, proto3 optional, aggregate option
// values, option sub-fields) is an error: the caller reports it as undecided.
package protosrc

import (
	"fmt"
	"os"
	"sort"
	"strconv"
	"strings"

	"google.golang.org/protobuf/encoding/protowire"
	"google.golang.org/protobuf/proto"
	"google.golang.org/protobuf/reflect/protoreflect"
	"google.golang.org/protobuf/types/descriptorpb"
)

type tokKind int

const (
	tEOF tokKind = iota
	tIdent
	tInt
	tFloat
	tStr
	tSym
)

type token struct {
	kind tokKind
	text string
	line int
}

type lexer struct {
	src  []byte
	pos  int
	line int
	toks []token
}

func isIdentStart(c byte) bool { return c == '_' || (c >= 'a' && c <= 'z') || (c >= 'A' && c <= 'Z') }
func isDigit(c byte) bool      { return c >= '0' && c <= '9' }

func lex(src []byte) ([]token, error) {
	l := &lexer{src: src, line: 1}
	for {
		// skip space and comments
		for l.pos < len(l.src) {
			c := l.src[l.pos]
			if c == '\n' {
				l.line++
				l.pos++
			} else if c == ' ' || c == '\t' || c == '\r' || c == '\f' || c == '\v' || c == 0xef || c == 0xbb || c == 0xbf {
				l.pos++
			} else if c == '/' && l.pos+1 < len(l.src) && l.src[l.pos+1] == '/' {
				for l.pos < len(l.src) && l.src[l.pos] != '\n' {
					l.pos++
				}
			} else if c == '/' && l.pos+1 < len(l.src) && l.src[l.pos+1] == '*' {
				l.pos += 2
				for l.pos+1 < len(l.src) && !(l.src[l.pos] == '*' && l.src[l.pos+1] == '/') {
					if l.src[l.pos] == '\n' {
						l.line++
					}
					l.pos++
				}
				if l.pos+1 >= len(l.src) {
					return nil, fmt.Errorf("line %d: unterminated block comment", l.line)
				}
				l.pos += 2
			} else {
				break
			}
		}
		if l.pos >= len(l.src) {
			l.toks = append(l.toks, token{tEOF, "", l.line})
			return l.toks, nil
		}
		c := l.src[l.pos]
		start := l.pos
		switch {
		case isIdentStart(c):
			for l.pos < len(l.src) && (isIdentStart(l.src[l.pos]) || isDigit(l.src[l.pos])) {
				l.pos++
			}
			l.toks = append(l.toks, token{tIdent, string(l.src[start:l.pos]), l.line})
		case isDigit(c) || (c == '.' && l.pos+1 < len(l.src) && isDigit(l.src[l.pos+1])):
			isFloat := false
			if c == '0' && l.pos+1 < len(l.src) && (l.src[l.pos+1] == 'x' || l.src[l.pos+1] == 'X') {
				l.pos += 2
				for l.pos < len(l.src) && (isDigit(l.src[l.pos]) || (l.src[l.pos]|0x20 >= 'a' && l.src[l.pos]|0x20 <= 'f')) {
					l.pos++
				}
			} else {
				for l.pos < len(l.src) && (isDigit(l.src[l.pos]) || l.src[l.pos] == '.' || l.src[l.pos]|0x20 == 'e' ||
					((l.src[l.pos] == '+' || l.src[l.pos] == '-') && l.src[l.pos-1]|0x20 == 'e')) {
					if l.src[l.pos] == '.' || l.src[l.pos]|0x20 == 'e' {
						isFloat = true
					}
					l.pos++
				}
			}
			k := tInt
			if isFloat {
				k = tFloat
			}
			l.toks = append(l.toks, token{k, string(l.src[start:l.pos]), l.line})
		case c == '"' || c == '\'':
			q := c
			l.pos++
			var sb []byte
			for {
				if l.pos >= len(l.src) || l.src[l.pos] == '\n' {
					return nil, fmt.Errorf("line %d: unterminated string", l.line)
				}
				ch := l.src[l.pos]
				if ch == q {
					l.pos++
					break
				}
				if ch == '\\' {
					l.pos++
					if l.pos >= len(l.src) {
						return nil, fmt.Errorf("line %d: bad escape", l.line)
					}
					e := l.src[l.pos]
					l.pos++
					switch e {
					case 'n':
						sb = append(sb, '\n')
					case 't':
						sb = append(sb, '\t')
					case 'r':
						sb = append(sb, '\r')
					case 'a':
						sb = append(sb, 7)
					case 'b':
						sb = append(sb, 8)
					case 'f':
						sb = append(sb, 12)
					case 'v':
						sb = append(sb, 11)
					case '\\', '\'', '"', '?':
						sb = append(sb, e)
					case 'x', 'X':
						v := 0
						n := 0
						for n < 2 && l.pos < len(l.src) {
							d := l.src[l.pos]
							var dv int
							switch {
							case isDigit(d):
								dv = int(d - '0')
							case d|0x20 >= 'a' && d|0x20 <= 'f':
								dv = int(d|0x20-'a') + 10
							default:
								dv = -1
							}
							if dv < 0 {
								break
							}
							v = v*16 + dv
							l.pos++
							n++
						}
						if n == 0 {
							return nil, fmt.Errorf("line %d: bad hex escape", l.line)
						}
						sb = append(sb, byte(v))
					default:
						if e >= '0' && e <= '7' {
							v := int(e - '0')
							n := 1
							for n < 3 && l.pos < len(l.src) && l.src[l.pos] >= '0' && l.src[l.pos] <= '7' {
								v = v*8 + int(l.src[l.pos]-'0')
								l.pos++
								n++
							}
							sb = append(sb, byte(v))
						} else {
							return nil, fmt.Errorf("line %d: unsupported escape \\%c", l.line, e)
						}
					}
					continue
				}
				sb = append(sb, ch)
				l.pos++
			}
			l.toks = append(l.toks, token{tStr, string(sb), l.line})
		default:
			l.pos++
			l.toks = append(l.toks, token{tSym, string(c), l.line})
		}
	}
}

// ImportResolver returns the descriptor of an imported file by its import path.
type ImportResolver func(path string) (*descriptorpb.FileDescriptorProto, error)

type typeRef struct {
	set   func(full string, isEnum bool)
	name  string
	scope string // full name of the enclosing message or package ("" = root)
	line  int
	what  string
}

type optRef struct {
	target  proto.Message // *descriptorpb.XOptions
	extName string
	scope   string
	val     constVal
	line    int
}

type constVal struct {
	kind tokKind // tIdent, tInt, tFloat, tStr
	text string
	neg  bool
}

type parser struct {
	toks    []token
	i       int
	fd      *descriptorpb.FileDescriptorProto
	refs    []typeRef
	optRefs []optRef
	imports []*descriptorpb.FileDescriptorProto
}

func (p *parser) peek() token { return p.toks[p.i] }
func (p *parser) next() token {
	t := p.toks[p.i]
	if t.kind != tEOF {
		p.i++
	}
	return t
}
func (p *parser) errf(t token, format string, a ...interface{}) error {
	return fmt.Errorf("line %d: %s", t.line, fmt.Sprintf(format, a...))
}
func (p *parser) isSym(s string) bool   { t := p.peek(); return t.kind == tSym && t.text == s }
func (p *parser) isIdent(s string) bool { t := p.peek(); return t.kind == tIdent && t.text == s }
func (p *parser) expectSym(s string) error {
	t := p.next()
	if t.kind != tSym || t.text != s {
		return p.errf(t, "expected %q, found %q", s, t.text)
	}
	return nil
}
func (p *parser) ident() (string, error) {
	t := p.next()
	if t.kind != tIdent {
		return "", p.errf(t, "expected identifier, found %q", t.text)
	}
	return t.text, nil
}

// fullIdent: [.] ident { . ident }
func (p *parser) fullIdent() (string, error) {
	s := ""
	if p.isSym(".") {
		p.next()
		s = "."
	}
	for {
		id, err := p.ident()
		if err != nil {
			return "", err
		}
		s += id
		if p.isSym(".") {
			p.next()
			s += "."
			continue
		}
		return s, nil
	}
}

func (p *parser) strLit() (string, error) {
	t := p.next()
	if t.kind != tStr {
		return "", p.errf(t, "expected string, found %q", t.text)
	}
	s := t.text
	for p.peek().kind == tStr {
		s += p.next().text
	}
	return s, nil
}

func (p *parser) intLit() (int64, error) {
	neg := false
	if p.isSym("-") {
		p.next()
		neg = true
	}
	t := p.next()
	if t.kind != tInt {
		return 0, p.errf(t, "expected integer, found %q", t.text)
	}
	v, err := strconv.ParseUint(t.text, 0, 64)
	if err != nil {
		return 0, p.errf(t, "bad integer %q", t.text)
	}
	if neg {
		return -int64(v), nil
	}
	return int64(v), nil
}

func (p *parser) constant() (constVal, error) {
	if p.isSym("{") {
		return constVal{}, p.errf(p.peek(), "aggregate option values are not modelled")
	}
	neg := false
	if p.isSym("-") {
		p.next()
		neg = true
	} else if p.isSym("+") {
		p.next()
	}
	t := p.peek()
	switch t.kind {
	case tStr:
		s, err := p.strLit()
		return constVal{kind: tStr, text: s}, err
	case tInt, tFloat, tIdent:
		p.next()
		return constVal{kind: t.kind, text: t.text, neg: neg}, nil
	}
	return constVal{}, p.errf(t, "expected constant, found %q", t.text)
}

// option body after the keyword "option" (or inside [...]): name = constant
func (p *parser) optionAssign(target proto.Message, scope string, jsonName *string) error {
	t := p.peek()
	if p.isSym("(") {
		p.next()
		name, err := p.fullIdent()
		if err != nil {
			return err
		}
		if err := p.expectSym(")"); err != nil {
			return err
		}
		if p.isSym(".") {
			return p.errf(p.peek(), "option sub-fields are not modelled")
		}
		if err := p.expectSym("="); err != nil {
			return err
		}
		v, err := p.constant()
		if err != nil {
			return err
		}
		p.optRefs = append(p.optRefs, optRef{target: target, extName: name, scope: scope, val: v, line: t.line})
		return nil
	}
	name, err := p.ident()
	if err != nil {
		return err
	}
	if p.isSym(".") {
		return p.errf(p.peek(), "option sub-fields are not modelled")
	}
	if err := p.expectSym("="); err != nil {
		return err
	}
	v, err := p.constant()
	if err != nil {
		return err
	}
	if jsonName != nil && name == "json_name" {
		if v.kind != tStr {
			return p.errf(t, "json_name must be a string")
		}
		*jsonName = v.text
		return nil
	}
	if jsonName != nil && name == "default" {
		return p.errf(t, "default values are not proto3")
	}
	m := target.ProtoReflect()
	f := m.Descriptor().Fields().ByName(protoreflect.Name(name))
	if f == nil {
		return p.errf(t, "unknown option %s for %s", name, m.Descriptor().FullName())
	}
	if name == "uninterpreted_option" || name == "features" {
		return p.errf(t, "option %s is not modelled", name)
	}
	val, err := scalarValue(f, v)
	if err != nil {
		return p.errf(t, "option %s: %v", name, err)
	}
	if f.IsList() {
		m.Mutable(f).List().Append(val)
	} else {
		m.Set(f, val)
	}
	return nil
}

func scalarValue(f protoreflect.FieldDescriptor, v constVal) (protoreflect.Value, error) {
	parseInt := func() (int64, error) {
		if v.kind != tInt {
			return 0, fmt.Errorf("expected an integer")
		}
		u, err := strconv.ParseUint(v.text, 0, 64)
		if err != nil {
			return 0, err
		}
		if v.neg {
			return -int64(u), nil
		}
		return int64(u), nil
	}
	switch f.Kind() {
	case protoreflect.BoolKind:
		if v.kind == tIdent && (v.text == "true" || v.text == "false") {
			return protoreflect.ValueOfBool(v.text == "true"), nil
		}
		return protoreflect.Value{}, fmt.Errorf("expected true or false")
	case protoreflect.StringKind:
		if v.kind != tStr {
			return protoreflect.Value{}, fmt.Errorf("expected a string")
		}
		return protoreflect.ValueOfString(v.text), nil
	case protoreflect.BytesKind:
		if v.kind != tStr {
			return protoreflect.Value{}, fmt.Errorf("expected a string")
		}
		return protoreflect.ValueOfBytes([]byte(v.text)), nil
	case protoreflect.EnumKind:
		if v.kind != tIdent {
			return protoreflect.Value{}, fmt.Errorf("expected an enum value name")
		}
		ev := f.Enum().Values().ByName(protoreflect.Name(v.text))
		if ev == nil {
			return protoreflect.Value{}, fmt.Errorf("unknown enum value %s", v.text)
		}
		return protoreflect.ValueOfEnum(ev.Number()), nil
	case protoreflect.Int32Kind, protoreflect.Sint32Kind, protoreflect.Sfixed32Kind:
		n, err := parseInt()
		return protoreflect.ValueOfInt32(int32(n)), err
	case protoreflect.Int64Kind, protoreflect.Sint64Kind, protoreflect.Sfixed64Kind:
		n, err := parseInt()
		return protoreflect.ValueOfInt64(n), err
	case protoreflect.Uint32Kind, protoreflect.Fixed32Kind:
		n, err := parseInt()
		return protoreflect.ValueOfUint32(uint32(n)), err
	case protoreflect.Uint64Kind, protoreflect.Fixed64Kind:
		n, err := parseInt()
		return protoreflect.ValueOfUint64(uint64(n)), err
	}
	return protoreflect.Value{}, fmt.Errorf("option values of kind %s are not modelled", f.Kind())
}

// bracket options: [ a = b, (x.y) = "z" ]
func (p *parser) bracketOptions(target proto.Message, scope string, jsonName *string) error {
	if !p.isSym("[") {
		return nil
	}
	p.next()
	for {
		if err := p.optionAssign(target, scope, jsonName); err != nil {
			return err
		}
		if p.isSym(",") {
			p.next()
			continue
		}
		return p.expectSym("]")
	}
}

func (p *parser) optionStmt(target proto.Message, scope string) error {
	p.next() // "option"
	if err := p.optionAssign(target, scope, nil); err != nil {
		return err
	}
	return p.expectSym(";")
}

var scalarTypes = map[string]descriptorpb.FieldDescriptorProto_Type{
	"double": descriptorpb.FieldDescriptorProto_TYPE_DOUBLE, "float": descriptorpb.FieldDescriptorProto_TYPE_FLOAT,
	"int32": descriptorpb.FieldDescriptorProto_TYPE_INT32, "int64": descriptorpb.FieldDescriptorProto_TYPE_INT64,
	"uint32": descriptorpb.FieldDescriptorProto_TYPE_UINT32, "uint64": descriptorpb.FieldDescriptorProto_TYPE_UINT64,
	"sint32": descriptorpb.FieldDescriptorProto_TYPE_SINT32, "sint64": descriptorpb.FieldDescriptorProto_TYPE_SINT64,
	"fixed32": descriptorpb.FieldDescriptorProto_TYPE_FIXED32, "fixed64": descriptorpb.FieldDescriptorProto_TYPE_FIXED64,
	"sfixed32": descriptorpb.FieldDescriptorProto_TYPE_SFIXED32, "sfixed64": descriptorpb.FieldDescriptorProto_TYPE_SFIXED64,
	"bool": descriptorpb.FieldDescriptorProto_TYPE_BOOL, "string": descriptorpb.FieldDescriptorProto_TYPE_STRING,
	"bytes": descriptorpb.FieldDescriptorProto_TYPE_BYTES,
}

// JSONName is protoc's ToJsonName.
func JSONName(n string) string {
	var sb strings.Builder
	up := false
	for i := 0; i < len(n); i++ {
		c := n[i]
		if c == '_' {
			up = true
			continue
		}
		if up && c >= 'a' && c <= 'z' {
			c -= 'a' - 'A'
		}
		up = false
		sb.WriteByte(c)
	}
	return sb.String()
}

// mapEntryName is protoc's MapEntryName: CamelCase of the field name + "Entry".
func mapEntryName(n string) string {
	var sb strings.Builder
	up := true
	for i := 0; i < len(n); i++ {
		c := n[i]
		if c == '_' {
			up = true
			continue
		}
		if up && c >= 'a' && c <= 'z' {
			c -= 'a' - 'A'
		}
		up = false
		sb.WriteByte(c)
	}
	return sb.String() + "Entry"
}

func (p *parser) setType(f *descriptorpb.FieldDescriptorProto, typ, scope string, line int) {
	if t, ok := scalarTypes[typ]; ok {
		f.Type = t.Enum()
		return
	}
	p.refs = append(p.refs, typeRef{name: typ, scope: scope, line: line, what: "field " + f.GetName(), set: func(full string, isEnum bool) {
		if isEnum {
			f.Type = descriptorpb.FieldDescriptorProto_TYPE_ENUM.Enum()
		} else {
			f.Type = descriptorpb.FieldDescriptorProto_TYPE_MESSAGE.Enum()
		}
		f.TypeName = proto.String(full)
	}})
}

func join(scope, name string) string {
	if scope == "" {
		return name
	}
	return scope + "." + name
}

// field parses one field; label may already have been consumed.
func (p *parser) field(msg *descriptorpb.DescriptorProto, scope string, oneofIdx int32, inExtend string) (*descriptorpb.FieldDescriptorProto, error) {
	start := p.peek()
	label := descriptorpb.FieldDescriptorProto_LABEL_OPTIONAL
	if p.isIdent("repeated") {
		p.next()
		label = descriptorpb.FieldDescriptorProto_LABEL_REPEATED
	} else if p.isIdent("optional") || p.isIdent("required") {
		// could also be a type named "optional"; proto3 optional is outside the supported subset either way
		if nx := p.toks[p.i+1]; nx.kind == tIdent || (nx.kind == tSym && nx.text == ".") {
			return nil, p.errf(start, "label %q is not modelled (proto3 optional / proto2)", p.peek().text)
		}
	} else if p.isIdent("group") {
		return nil, p.errf(start, "groups are not modelled")
	}
	if p.isIdent("map") && p.toks[p.i+1].kind == tSym && p.toks[p.i+1].text == "<" {
		if label != descriptorpb.FieldDescriptorProto_LABEL_OPTIONAL || oneofIdx >= 0 || msg == nil {
			return nil, p.errf(start, "map field in an invalid position")
		}
		p.next()
		p.next()
		kt, err := p.ident()
		if err != nil {
			return nil, err
		}
		if _, ok := scalarTypes[kt]; !ok {
			return nil, p.errf(start, "invalid map key type %s", kt)
		}
		if err := p.expectSym(","); err != nil {
			return nil, err
		}
		vt, err := p.fullIdent()
		if err != nil {
			return nil, err
		}
		if err := p.expectSym(">"); err != nil {
			return nil, err
		}
		name, err := p.ident()
		if err != nil {
			return nil, err
		}
		if err := p.expectSym("="); err != nil {
			return nil, err
		}
		num, err := p.intLit()
		if err != nil {
			return nil, err
		}
		en := mapEntryName(name)
		entry := &descriptorpb.DescriptorProto{Name: proto.String(en), Options: &descriptorpb.MessageOptions{MapEntry: proto.Bool(true)}}
		kf := &descriptorpb.FieldDescriptorProto{Name: proto.String("key"), Number: proto.Int32(1), Label: descriptorpb.FieldDescriptorProto_LABEL_OPTIONAL.Enum(), JsonName: proto.String("key")}
		kf.Type = scalarTypes[kt].Enum()
		vf := &descriptorpb.FieldDescriptorProto{Name: proto.String("value"), Number: proto.Int32(2), Label: descriptorpb.FieldDescriptorProto_LABEL_OPTIONAL.Enum(), JsonName: proto.String("value")}
		p.setType(vf, vt, scope, start.line)
		entry.Field = []*descriptorpb.FieldDescriptorProto{kf, vf}
		msg.NestedType = append(msg.NestedType, entry)
		f := &descriptorpb.FieldDescriptorProto{Name: proto.String(name), Number: proto.Int32(int32(num)), Label: descriptorpb.FieldDescriptorProto_LABEL_REPEATED.Enum(),
			Type: descriptorpb.FieldDescriptorProto_TYPE_MESSAGE.Enum(), TypeName: proto.String("." + join(scope, en))}
		jn := JSONName(name)
		opts := &descriptorpb.FieldOptions{}
		if err := p.bracketOptions(opts, scope, &jn); err != nil {
			return nil, err
		}
		f.JsonName = proto.String(jn)
		f.Options = opts
		return f, p.expectSym(";")
	}
	typ, err := p.fullIdent()
	if err != nil {
		return nil, err
	}
	name, err := p.ident()
	if err != nil {
		return nil, err
	}
	if err := p.expectSym("="); err != nil {
		return nil, err
	}
	num, err := p.intLit()
	if err != nil {
		return nil, err
	}
	f := &descriptorpb.FieldDescriptorProto{Name: proto.String(name), Number: proto.Int32(int32(num)), Label: label.Enum()}
	p.setType(f, typ, scope, start.line)
	if oneofIdx >= 0 {
		f.OneofIndex = proto.Int32(oneofIdx)
	}
	jn := JSONName(name)
	opts := &descriptorpb.FieldOptions{}
	if err := p.bracketOptions(opts, scope, &jn); err != nil {
		return nil, err
	}
	f.JsonName = proto.String(jn)
	f.Options = opts
	if inExtend != "" {
		ff := f
		p.refs = append(p.refs, typeRef{name: inExtend, scope: scope, line: start.line, what: "extendee", set: func(full string, isEnum bool) { ff.Extendee = proto.String(full) }})
	}
	return f, p.expectSym(";")
}

func (p *parser) reserved(addRange func(lo, hi int64), addName func(string)) error {
	p.next() // reserved
	if p.peek().kind == tStr {
		for {
			s, err := p.strLit()
			if err != nil {
				return err
			}
			addName(s)
			if p.isSym(",") {
				p.next()
				continue
			}
			return p.expectSym(";")
		}
	}
	for {
		lo, err := p.intLit()
		if err != nil {
			return err
		}
		hi := lo
		if p.isIdent("to") {
			p.next()
			if p.isIdent("max") {
				p.next()
				hi = -1 // caller maps
			} else {
				hi, err = p.intLit()
				if err != nil {
					return err
				}
			}
		}
		addRange(lo, hi)
		if p.isSym(",") {
			p.next()
			continue
		}
		return p.expectSym(";")
	}
}

func (p *parser) enum(scope string) (*descriptorpb.EnumDescriptorProto, error) {
	p.next() // enum
	name, err := p.ident()
	if err != nil {
		return nil, err
	}
	e := &descriptorpb.EnumDescriptorProto{Name: proto.String(name)}
	opts := &descriptorpb.EnumOptions{}
	if err := p.expectSym("{"); err != nil {
		return nil, err
	}
	for !p.isSym("}") {
		switch {
		case p.peek().kind == tEOF:
			return nil, p.errf(p.peek(), "unexpected end of file in enum %s", name)
		case p.isSym(";"):
			p.next()
		case p.isIdent("option"):
			if err := p.optionStmt(opts, join(scope, name)); err != nil {
				return nil, err
			}
		case p.isIdent("reserved") && (p.toks[p.i+1].kind == tInt || p.toks[p.i+1].kind == tStr || (p.toks[p.i+1].kind == tSym && p.toks[p.i+1].text == "-")):
			err := p.reserved(func(lo, hi int64) {
				if hi == -1 {
					hi = 2147483647
				}
				e.ReservedRange = append(e.ReservedRange, &descriptorpb.EnumDescriptorProto_EnumReservedRange{Start: proto.Int32(int32(lo)), End: proto.Int32(int32(hi))})
			}, func(s string) { e.ReservedName = append(e.ReservedName, s) })
			if err != nil {
				return nil, err
			}
		default:
			vn, err := p.ident()
			if err != nil {
				return nil, err
			}
			if err := p.expectSym("="); err != nil {
				return nil, err
			}
			num, err := p.intLit()
			if err != nil {
				return nil, err
			}
			v := &descriptorpb.EnumValueDescriptorProto{Name: proto.String(vn), Number: proto.Int32(int32(num))}
			vo := &descriptorpb.EnumValueOptions{}
			if err := p.bracketOptions(vo, join(scope, name), nil); err != nil {
				return nil, err
			}
			v.Options = vo
			if err := p.expectSym(";"); err != nil {
				return nil, err
			}
			e.Value = append(e.Value, v)
		}
	}
	p.next()
	e.Options = opts
	return e, nil
}

func (p *parser) message(scope string) (*descriptorpb.DescriptorProto, error) {
	p.next() // message
	name, err := p.ident()
	if err != nil {
		return nil, err
	}
	full := join(scope, name)
	m := &descriptorpb.DescriptorProto{Name: proto.String(name)}
	opts := &descriptorpb.MessageOptions{}
	if err := p.expectSym("{"); err != nil {
		return nil, err
	}
	for !p.isSym("}") {
		switch {
		case p.peek().kind == tEOF:
			return nil, p.errf(p.peek(), "unexpected end of file in message %s", name)
		case p.isSym(";"):
			p.next()
		case p.isIdent("option") && !(p.toks[p.i+2].kind == tSym && p.toks[p.i+2].text == "=" && p.toks[p.i+3].kind == tInt):
			if err := p.optionStmt(opts, full); err != nil {
				return nil, err
			}
		case p.isIdent("message") && p.toks[p.i+1].kind == tIdent && p.toks[p.i+2].kind == tSym && p.toks[p.i+2].text == "{":
			n, err := p.message(full)
			if err != nil {
				return nil, err
			}
			m.NestedType = append(m.NestedType, n)
		case p.isIdent("enum") && p.toks[p.i+1].kind == tIdent && p.toks[p.i+2].kind == tSym && p.toks[p.i+2].text == "{":
			e, err := p.enum(full)
			if err != nil {
				return nil, err
			}
			m.EnumType = append(m.EnumType, e)
		case p.isIdent("extend") && p.toks[p.i+2].kind == tSym && (p.toks[p.i+2].text == "{" || p.toks[p.i+2].text == "."):
			return nil, p.errf(p.peek(), "nested extend blocks are not modelled")
		case p.isIdent("extensions") && p.toks[p.i+1].kind == tInt:
			return nil, p.errf(p.peek(), "extension ranges are not proto3")
		case p.isIdent("oneof") && p.toks[p.i+1].kind == tIdent && p.toks[p.i+2].kind == tSym && p.toks[p.i+2].text == "{":
			p.next()
			on, _ := p.ident()
			p.next() // {
			idx := int32(len(m.OneofDecl))
			od := &descriptorpb.OneofDescriptorProto{Name: proto.String(on)}
			oo := &descriptorpb.OneofOptions{}
			m.OneofDecl = append(m.OneofDecl, od)
			for !p.isSym("}") {
				switch {
				case p.peek().kind == tEOF:
					return nil, p.errf(p.peek(), "unexpected end of file in oneof %s", on)
				case p.isSym(";"):
					p.next()
				case p.isIdent("option") && !(p.toks[p.i+2].kind == tSym && p.toks[p.i+2].text == "="):
					if err := p.optionStmt(oo, full); err != nil {
						return nil, err
					}
				default:
					if p.isIdent("repeated") || p.isIdent("map") && p.toks[p.i+1].text == "<" {
						return nil, p.errf(p.peek(), "repeated/map field inside oneof")
					}
					f, err := p.field(m, full, idx, "")
					if err != nil {
						return nil, err
					}
					m.Field = append(m.Field, f)
				}
			}
			p.next()
			od.Options = oo
		case p.isIdent("reserved") && (p.toks[p.i+1].kind == tInt || p.toks[p.i+1].kind == tStr):
			err := p.reserved(func(lo, hi int64) {
				if hi == -1 {
					hi = 536870911
				}
				m.ReservedRange = append(m.ReservedRange, &descriptorpb.DescriptorProto_ReservedRange{Start: proto.Int32(int32(lo)), End: proto.Int32(int32(hi + 1))})
			}, func(s string) { m.ReservedName = append(m.ReservedName, s) })
			if err != nil {
				return nil, err
			}
		default:
			f, err := p.field(m, full, -1, "")
			if err != nil {
				return nil, err
			}
			m.Field = append(m.Field, f)
		}
	}
	p.next()
	m.Options = opts
	return m, nil
}

func (p *parser) service(scope string) (*descriptorpb.ServiceDescriptorProto, error) {
	p.next()
	name, err := p.ident()
	if err != nil {
		return nil, err
	}
	s := &descriptorpb.ServiceDescriptorProto{Name: proto.String(name)}
	so := &descriptorpb.ServiceOptions{}
	if err := p.expectSym("{"); err != nil {
		return nil, err
	}
	for !p.isSym("}") {
		switch {
		case p.peek().kind == tEOF:
			return nil, p.errf(p.peek(), "unexpected end of file in service %s", name)
		case p.isSym(";"):
			p.next()
		case p.isIdent("option"):
			if err := p.optionStmt(so, join(scope, name)); err != nil {
				return nil, err
			}
		case p.isIdent("rpc"):
			start := p.next()
			mn, err := p.ident()
			if err != nil {
				return nil, err
			}
			md := &descriptorpb.MethodDescriptorProto{Name: proto.String(mn)}
			mo := &descriptorpb.MethodOptions{}
			one := func(stream **bool, set func(string)) error {
				if err := p.expectSym("("); err != nil {
					return err
				}
				if p.isIdent("stream") && !(p.toks[p.i+1].kind == tSym && p.toks[p.i+1].text == ")") {
					p.next()
					*stream = proto.Bool(true)
				}
				tn, err := p.fullIdent()
				if err != nil {
					return err
				}
				p.refs = append(p.refs, typeRef{name: tn, scope: scope, line: start.line, what: "rpc " + mn, set: func(full string, isEnum bool) { set(full) }})
				return p.expectSym(")")
			}
			if err := one(&md.ClientStreaming, func(s string) { md.InputType = proto.String(s) }); err != nil {
				return nil, err
			}
			if !p.isIdent("returns") {
				return nil, p.errf(p.peek(), "expected returns")
			}
			p.next()
			if err := one(&md.ServerStreaming, func(s string) { md.OutputType = proto.String(s) }); err != nil {
				return nil, err
			}
			if p.isSym("{") {
				p.next()
				for !p.isSym("}") {
					switch {
					case p.peek().kind == tEOF:
						return nil, p.errf(p.peek(), "unexpected end of file in rpc %s", mn)
					case p.isSym(";"):
						p.next()
					case p.isIdent("option"):
						if err := p.optionStmt(mo, join(scope, name)); err != nil {
							return nil, err
						}
					default:
						return nil, p.errf(p.peek(), "unexpected %q in rpc body", p.peek().text)
					}
				}
				p.next()
			} else if err := p.expectSym(";"); err != nil {
				return nil, err
			}
			md.Options = mo
			s.Method = append(s.Method, md)
		default:
			return nil, p.errf(p.peek(), "unexpected %q in service", p.peek().text)
		}
	}
	p.next()
	s.Options = so
	return s, nil
}

// symbols of a file: full name (no leading dot) -> isEnum; extensions: full name -> field
type symtab struct {
	types map[string]bool
	exts  map[string]*descriptorpb.FieldDescriptorProto
}

func (st *symtab) addFile(fd *descriptorpb.FileDescriptorProto) {
	pkg := fd.GetPackage()
	var addMsg func(scope string, m *descriptorpb.DescriptorProto)
	addMsg = func(scope string, m *descriptorpb.DescriptorProto) {
		full := join(scope, m.GetName())
		st.types[full] = false
		for _, n := range m.NestedType {
			addMsg(full, n)
		}
		for _, e := range m.EnumType {
			st.types[join(full, e.GetName())] = true
		}
		for _, x := range m.Extension {
			st.exts[join(full, x.GetName())] = x
		}
	}
	for _, m := range fd.MessageType {
		addMsg(pkg, m)
	}
	for _, e := range fd.EnumType {
		st.types[join(pkg, e.GetName())] = true
	}
	for _, x := range fd.Extension {
		st.exts[join(pkg, x.GetName())] = x
	}
}

// resolveIn implements protobuf's scoping: the name is looked up from the innermost scope outwards
// (the sources are assumed to compile with protoc, so its "first component shadows" error case cannot arise).
func resolveIn(has func(string) bool, name, scope string) (string, bool) {
	if strings.HasPrefix(name, ".") {
		n := name[1:]
		return n, has(n)
	}
	for {
		full := join(scope, name)
		if has(full) {
			return full, true
		}
		if scope == "" {
			return "", false
		}
		if i := strings.LastIndex(scope, "."); i >= 0 {
			scope = scope[:i]
		} else {
			scope = ""
		}
	}
}

// Parse parses the file at path. name is the descriptor's file name (as registered).
func Parse(path, name string, resolveImport ImportResolver) (*descriptorpb.FileDescriptorProto, error) {
	src, err := os.ReadFile(path)
	if err != nil {
		return nil, err
	}
	toks, err := lex(src)
	if err != nil {
		return nil, err
	}
	p := &parser{toks: toks, fd: &descriptorpb.FileDescriptorProto{Name: proto.String(name)}}
	fopts := &descriptorpb.FileOptions{}
	// first pass: syntax / package / imports are needed before scopes are known -> scan for package first
	pkg := ""
	for i := 0; i+2 < len(toks); i++ {
		if toks[i].kind == tIdent && toks[i].text == "package" && (i == 0 || (toks[i-1].kind == tSym && (toks[i-1].text == ";" || toks[i-1].text == "}"))) {
			save := p.i
			p.i = i + 1
			if s, err := p.fullIdent(); err == nil && p.isSym(";") {
				pkg = s
			}
			p.i = save
			break
		}
	}
	syntaxSeen := false
	for p.peek().kind != tEOF {
		switch {
		case p.isSym(";"):
			p.next()
		case p.isIdent("syntax"):
			p.next()
			if err := p.expectSym("="); err != nil {
				return nil, err
			}
			s, err := p.strLit()
			if err != nil {
				return nil, err
			}
			if s != "proto3" {
				return nil, fmt.Errorf("syntax %q is not modelled", s)
			}
			p.fd.Syntax = proto.String(s)
			syntaxSeen = true
			if err := p.expectSym(";"); err != nil {
				return nil, err
			}
		case p.isIdent("edition"):
			return nil, p.errf(p.peek(), "editions are not modelled")
		case p.isIdent("package"):
			p.next()
			s, err := p.fullIdent()
			if err != nil {
				return nil, err
			}
			p.fd.Package = proto.String(s)
			if err := p.expectSym(";"); err != nil {
				return nil, err
			}
		case p.isIdent("import"):
			p.next()
			idx := int32(len(p.fd.Dependency))
			if p.isIdent("public") {
				p.next()
				p.fd.PublicDependency = append(p.fd.PublicDependency, idx)
			} else if p.isIdent("weak") {
				p.next()
				p.fd.WeakDependency = append(p.fd.WeakDependency, idx)
			}
			s, err := p.strLit()
			if err != nil {
				return nil, err
			}
			p.fd.Dependency = append(p.fd.Dependency, s)
			if err := p.expectSym(";"); err != nil {
				return nil, err
			}
		case p.isIdent("option"):
			if err := p.optionStmt(fopts, pkg); err != nil {
				return nil, err
			}
		case p.isIdent("message"):
			m, err := p.message(pkg)
			if err != nil {
				return nil, err
			}
			p.fd.MessageType = append(p.fd.MessageType, m)
		case p.isIdent("enum"):
			e, err := p.enum(pkg)
			if err != nil {
				return nil, err
			}
			p.fd.EnumType = append(p.fd.EnumType, e)
		case p.isIdent("service"):
			s, err := p.service(pkg)
			if err != nil {
				return nil, err
			}
			p.fd.Service = append(p.fd.Service, s)
		case p.isIdent("extend"):
			p.next()
			ext, err := p.fullIdent()
			if err != nil {
				return nil, err
			}
			if err := p.expectSym("{"); err != nil {
				return nil, err
			}
			for !p.isSym("}") {
				if p.peek().kind == tEOF {
					return nil, p.errf(p.peek(), "unexpected end of file in extend")
				}
				if p.isSym(";") {
					p.next()
					continue
				}
				f, err := p.field(nil, pkg, -1, ext)
				if err != nil {
					return nil, err
				}
				p.fd.Extension = append(p.fd.Extension, f)
			}
			p.next()
		default:
			return nil, p.errf(p.peek(), "unexpected %q at file level", p.peek().text)
		}
	}
	if !syntaxSeen {
		return nil, fmt.Errorf("no syntax statement (proto2 is not modelled)")
	}
	p.fd.Options = fopts

	// imports (transitively through public imports)
	st := &symtab{types: map[string]bool{}, exts: map[string]*descriptorpb.FieldDescriptorProto{}}
	st.addFile(p.fd)
	seen := map[string]bool{}
	var addImport func(path string, depth int) error
	addImport = func(ip string, depth int) error {
		if seen[ip] {
			return nil
		}
		seen[ip] = true
		fd, err := resolveImport(ip)
		if err != nil {
			return fmt.Errorf("import %q: %v", ip, err)
		}
		st.addFile(fd)
		for _, pi := range fd.PublicDependency {
			if int(pi) < len(fd.Dependency) {
				if err := addImport(fd.Dependency[pi], depth+1); err != nil {
					return err
				}
			}
		}
		return nil
	}
	for _, d := range p.fd.Dependency {
		if err := addImport(d, 0); err != nil {
			return nil, err
		}
	}
	hasType := func(n string) bool { _, ok := st.types[n]; return ok }
	for _, r := range p.refs {
		full, ok := resolveIn(hasType, r.name, r.scope)
		if !ok {
			return nil, fmt.Errorf("line %d: %s: type %q not found from scope %q", r.line, r.what, r.name, r.scope)
		}
		r.set("."+full, st.types[full])
	}
	// extension options -> unknown fields of the options message, in field-number order
	type extBytes struct {
		num int32
		seq int
		b   []byte
	}
	perTarget := map[proto.Message][]extBytes{}
	var order []proto.Message
	hasExt := func(n string) bool { _, ok := st.exts[n]; return ok }
	for i, o := range p.optRefs {
		full, ok := resolveIn(hasExt, o.extName, o.scope)
		if !ok {
			return nil, fmt.Errorf("line %d: extension option (%s) not found", o.line, o.extName)
		}
		x := st.exts[full]
		want := string(o.target.ProtoReflect().Descriptor().FullName())
		if strings.TrimPrefix(x.GetExtendee(), ".") != want {
			return nil, fmt.Errorf("line %d: option (%s) extends %s, used on %s", o.line, o.extName, x.GetExtendee(), want)
		}
		var b []byte
		num := protowire.Number(x.GetNumber())
		switch x.GetType() {
		case descriptorpb.FieldDescriptorProto_TYPE_STRING, descriptorpb.FieldDescriptorProto_TYPE_BYTES:
			if o.val.kind != tStr {
				return nil, fmt.Errorf("line %d: option (%s) needs a string", o.line, o.extName)
			}
			b = protowire.AppendTag(b, num, protowire.BytesType)
			b = protowire.AppendString(b, o.val.text)
		case descriptorpb.FieldDescriptorProto_TYPE_BOOL:
			if o.val.kind != tIdent || (o.val.text != "true" && o.val.text != "false") {
				return nil, fmt.Errorf("line %d: option (%s) needs a bool", o.line, o.extName)
			}
			b = protowire.AppendTag(b, num, protowire.VarintType)
			v := uint64(0)
			if o.val.text == "true" {
				v = 1
			}
			b = protowire.AppendVarint(b, v)
		case descriptorpb.FieldDescriptorProto_TYPE_INT32, descriptorpb.FieldDescriptorProto_TYPE_INT64, descriptorpb.FieldDescriptorProto_TYPE_UINT32, descriptorpb.FieldDescriptorProto_TYPE_UINT64:
			if o.val.kind != tInt {
				return nil, fmt.Errorf("line %d: option (%s) needs an integer", o.line, o.extName)
			}
			u, err := strconv.ParseUint(o.val.text, 0, 64)
			if err != nil {
				return nil, err
			}
			if o.val.neg {
				u = uint64(-int64(u))
			}
			b = protowire.AppendTag(b, num, protowire.VarintType)
			b = protowire.AppendVarint(b, u)
		default:
			return nil, fmt.Errorf("line %d: option (%s) of type %s is not modelled", o.line, o.extName, x.GetType())
		}
		if _, ok := perTarget[o.target]; !ok {
			order = append(order, o.target)
		}
		perTarget[o.target] = append(perTarget[o.target], extBytes{int32(num), i, b})
	}
	for _, t := range order {
		l := perTarget[t]
		sort.SliceStable(l, func(i, j int) bool { return l[i].num < l[j].num })
		var raw []byte
		for _, e := range l {
			raw = append(raw, e.b...)
		}
		t.ProtoReflect().SetUnknown(raw)
	}
	// protoc leaves options unset when empty
	stripEmptyOptions(p.fd)
	return p.fd, nil
}

func emptyMsg(m proto.Message) bool {
	r := m.ProtoReflect()
	n := 0
	r.Range(func(protoreflect.FieldDescriptor, protoreflect.Value) bool { n++; return false })
	return n == 0 && len(r.GetUnknown()) == 0
}

func stripEmptyOptions(fd *descriptorpb.FileDescriptorProto) {
	if fd.Options != nil && emptyMsg(fd.Options) {
		fd.Options = nil
	}
	var doMsg func(m *descriptorpb.DescriptorProto)
	doEnum := func(e *descriptorpb.EnumDescriptorProto) {
		if e.Options != nil && emptyMsg(e.Options) {
			e.Options = nil
		}
		for _, v := range e.Value {
			if v.Options != nil && emptyMsg(v.Options) {
				v.Options = nil
			}
		}
	}
	doField := func(f *descriptorpb.FieldDescriptorProto) {
		if f.Options != nil && emptyMsg(f.Options) {
			f.Options = nil
		}
	}
	doMsg = func(m *descriptorpb.DescriptorProto) {
		if m.Options != nil && emptyMsg(m.Options) {
			m.Options = nil
		}
		for _, f := range m.Field {
			doField(f)
		}
		for _, o := range m.OneofDecl {
			if o.Options != nil && emptyMsg(o.Options) {
				o.Options = nil
			}
		}
		for _, n := range m.NestedType {
			doMsg(n)
		}
		for _, e := range m.EnumType {
			doEnum(e)
		}
	}
	for _, m := range fd.MessageType {
		doMsg(m)
	}
	for _, e := range fd.EnumType {
		doEnum(e)
	}
	for _, x := range fd.Extension {
		doField(x)
	}
	for _, s := range fd.Service {
		if s.Options != nil && emptyMsg(s.Options) {
			s.Options = nil
		}
		for _, m := range s.Method {
			if m.Options != nil && emptyMsg(m.Options) {
				m.Options = nil
			}
		}
	}
}

// Diff lists up to max differences between two messages of the same type, as paths.
func Diff(want, got protoreflect.Message, path string, max int, out *[]string) {
	if len(*out) >= max {
		return
	}
	fds := want.Descriptor().Fields()
	for i := 0; i < fds.Len(); i++ {
		fd := fds.Get(i)
		p := path + "." + string(fd.Name())
		hw, hg := want.Has(fd), got.Has(fd)
		if !hw && !hg {
			continue
		}
		if hw != hg {
			if hw {
				*out = append(*out, fmt.Sprintf("%s: schema has %s, descriptor has nothing", p, short(want.Get(fd), fd)))
			} else {
				*out = append(*out, fmt.Sprintf("%s: descriptor has %s, schema has nothing", p, short(got.Get(fd), fd)))
			}
			if len(*out) >= max {
				return
			}
			continue
		}
		vw, vg := want.Get(fd), got.Get(fd)
		switch {
		case fd.IsList():
			lw, lg := vw.List(), vg.List()
			if lw.Len() != lg.Len() {
				*out = append(*out, fmt.Sprintf("%s: schema has %d entries, descriptor has %d", p, lw.Len(), lg.Len()))
				if len(*out) >= max {
					return
				}
			}
			n := lw.Len()
			if lg.Len() < n {
				n = lg.Len()
			}
			for k := 0; k < n; k++ {
				ep := fmt.Sprintf("%s[%d]", p, k)
				if fd.Message() != nil {
					if nf := fd.Message().Fields().ByName("name"); nf != nil && nf.Kind() == protoreflect.StringKind {
						ep = fmt.Sprintf("%s[%s]", p, lw.Get(k).Message().Get(nf).String())
					}
					Diff(lw.Get(k).Message(), lg.Get(k).Message(), ep, max, out)
				} else if !lw.Get(k).Equal(lg.Get(k)) {
					*out = append(*out, fmt.Sprintf("%s: schema %v, descriptor %v", ep, lw.Get(k), lg.Get(k)))
				}
				if len(*out) >= max {
					return
				}
			}
		case fd.Message() != nil:
			Diff(vw.Message(), vg.Message(), p, max, out)
		default:
			if !vw.Equal(vg) {
				*out = append(*out, fmt.Sprintf("%s: schema %s, descriptor %s", p, short(vw, fd), short(vg, fd)))
			}
		}
		if len(*out) >= max {
			return
		}
	}
	if string(want.GetUnknown()) != string(got.GetUnknown()) {
		*out = append(*out, fmt.Sprintf("%s: extension options differ: schema %x, descriptor %x", path, []byte(want.GetUnknown()), []byte(got.GetUnknown())))
	}
}

func short(v protoreflect.Value, fd protoreflect.FieldDescriptor) string {
	if fd.IsList() {
		return fmt.Sprintf("%d entries", v.List().Len())
	}
	if fd.Message() != nil {
		return "a " + string(fd.Message().Name())
	}
	if fd.Enum() != nil {
		if ev := fd.Enum().Values().ByNumber(v.Enum()); ev != nil {
			return string(ev.Name())
		}
	}
	s := fmt.Sprintf("%v", v.Interface())
	if fd.Kind() == protoreflect.StringKind {
		s = strconv.Quote(s)
	}
	return s
}
