package tmpl

import (
	"fmt"
	"go/ast"
	"go/constant"
	"go/token"
	"go/types"
	"sort"
	"strings"

	"golang.org/x/tools/go/packages"

	"verif/checker/internal/core"
)

// T.brace — emitted-brace typestate.
//
// Every function of the template packages that (transitively) calls
// (*protogen.GeneratedFile).P is abstractly interpreted: the state is the net
// number of '{' minus '}' (and '(' minus ')') occurring, outside string/rune
// literals and comments, in the constant text it emits. Branch conditions that
// are boolean combinations of side-effect-free expressions over never-reassigned
// locals are *atoms*: all truth assignments are enumerated and an atom has the
// same value at every occurrence on a path (this is what correlates
// `if !oneof { P("if … {") } … if !oneof { P("}") }`). switch/type-switch arms
// and every other condition are nondeterministic. Every path must yield the same
// net delta; loop bodies must yield 0; root emitters must yield 0.

// delta is the abstract state: net braces and parens emitted so far, the known values of the function's boolean flag
// locals (two bits each: 0 unknown, 1 false, 2 true) and, at a return, the constant boolean the function returns
// (0 none/unknown, 1 false, 2 true). A flag is a bool local assigned from constants or from the boolean result of an
// emitting helper: `guarded := false; if c { P("if … {"); guarded = true } … if guarded { P("}") }` and
// `guarded := g.openGuard(…)` are followed exactly instead of treating `if guarded` as a free choice.
type delta struct {
	brace, paren int
	fl           uint32
	ret          uint8
}

func (d delta) flag(i int) uint32 { return (d.fl >> uint(2*i)) & 3 }
func (d delta) withFlag(i int, v uint32) delta {
	d.fl = d.fl&^(3<<uint(2*i)) | v<<uint(2*i)
	return d
}

func sortedKeys(in dset) []delta {
	var ks []delta
	for k := range in {
		ks = append(ks, k)
	}
	sort.Slice(ks, func(i, j int) bool {
		a, b := ks[i], ks[j]
		if a.brace != b.brace {
			return a.brace < b.brace
		}
		if a.paren != b.paren {
			return a.paren < b.paren
		}
		if a.ret != b.ret {
			return a.ret < b.ret
		}
		return a.fl < b.fl
	})
	return ks
}

// deltasOf: the distinct brace/paren deltas of a summary, whatever is returned with them.
func deltasOf(in dset) []delta {
	seen := map[delta]bool{}
	var out []delta
	for _, k := range sortedKeys(in) {
		d := delta{brace: k.brace, paren: k.paren}
		if !seen[d] {
			seen[d] = true
			out = append(out, d)
		}
	}
	return out
}

func setFlag(in dset, i int, v uint32) dset {
	out := dset{}
	for k, p := range in {
		out.add(k.withFlag(i, v), p)
	}
	return out
}

func groupByFlags(in dset) ([]uint32, map[uint32]dset) {
	g := map[uint32]dset{}
	var ks []uint32
	for k, p := range in {
		if g[k.fl] == nil {
			g[k.fl] = dset{}
			ks = append(ks, k.fl)
		}
		g[k.fl][k] = p
	}
	sort.Slice(ks, func(i, j int) bool { return ks[i] < ks[j] })
	return ks, g
}

type pathInfo struct {
	atoms string
	trail []string
}

type dset map[delta]pathInfo

func (d dset) add(k delta, p pathInfo) {
	if _, ok := d[k]; !ok {
		d[k] = p
	}
}

type braceFn struct {
	decl    *ast.FuncDecl
	pkg     *packages.Package
	obj     *types.Func
	emits   bool
	summary dset // possible net deltas at return
	counts  map[delta]int
	state   int // 0 new, 1 in progress, 2 done
	undec   []string
	loopBad []string
}

type braceEngine struct {
	c    *core.Ctx
	fns  map[*types.Func]*braceFn
	pObj map[types.Object]bool
}

func isPMethod(o types.Object) bool {
	f, ok := o.(*types.Func)
	if !ok || f.Name() != "P" {
		return false
	}
	sig := f.Type().(*types.Signature)
	if sig.Recv() == nil {
		return false
	}
	return strings.HasSuffix(sig.Recv().Type().String(), "protogen.GeneratedFile")
}

// lexDelta counts braces/parens of one emitted line, skipping Go string, rune and raw-string literals and // comments.
func lexDelta(line string) delta {
	var d delta
	i := 0
	for i < len(line) {
		ch := line[i]
		switch ch {
		case '"':
			i++
			for i < len(line) && line[i] != '"' {
				if line[i] == '\\' {
					i++
				}
				i++
			}
		case '\'':
			i++
			for i < len(line) && line[i] != '\'' {
				if line[i] == '\\' {
					i++
				}
				i++
			}
		case '`':
			i++
			for i < len(line) && line[i] != '`' {
				i++
			}
		case '/':
			if i+1 < len(line) && line[i+1] == '/' {
				return d
			}
		case '{':
			d.brace++
		case '}':
			d.brace--
		case '(':
			d.paren++
		case ')':
			d.paren--
		}
		i++
	}
	return d
}

func (e *braceEngine) constStr(pkg *packages.Package, x ast.Expr) (string, bool) {
	tv, ok := pkg.TypesInfo.Types[x]
	if ok && tv.Value != nil && tv.Value.Kind() == constant.String {
		return constant.StringVal(tv.Value), true
	}
	return "", false
}

// RunBrace runs T.brace over the template packages.
func RunBrace(c *core.Ctx) {
	const src = "S0"
	e := &braceEngine{c: c, fns: map[*types.Func]*braceFn{}}
	rels := []string{"features/fastreflection", "features/protoc", "cmd/protoc-gen-go-pulsar", "generator"}
	for _, rel := range rels {
		p := c.Pkg(rel)
		if p == nil {
			c.Fail("T.anchor", rel, "template package not found", "", src)
			continue
		}
		for _, f := range p.Syntax {
			for _, d := range f.Decls {
				fd, ok := d.(*ast.FuncDecl)
				if !ok || fd.Body == nil {
					continue
				}
				obj, _ := p.TypesInfo.Defs[fd.Name].(*types.Func)
				if obj == nil {
					continue
				}
				e.fns[obj] = &braceFn{decl: fd, pkg: p, obj: obj}
			}
		}
	}
	// which functions emit (transitively)?
	changed := true
	for changed {
		changed = false
		for _, bf := range e.fns {
			if bf.emits {
				continue
			}
			ast.Inspect(bf.decl.Body, func(n ast.Node) bool {
				call, ok := n.(*ast.CallExpr)
				if !ok {
					return true
				}
				o := core.CalleeObj(bf.pkg.TypesInfo, call)
				if isPMethod(o) {
					bf.emits = true
				} else if f, ok := o.(*types.Func); ok {
					if cf := e.fns[f]; cf != nil && cf.emits {
						bf.emits = true
					}
				}
				return true
			})
			if bf.emits {
				changed = true
			}
		}
	}
	// string-building helpers: the texts a helper can return must agree in brace/paren balance
	{
		var hs []*braceFn
		for _, bf := range e.fns {
			sig := bf.obj.Type().(*types.Signature)
			if sig.Results().Len() == 1 && types.Identical(sig.Results().At(0).Type(), types.Typ[types.String]) {
				hs = append(hs, bf)
			}
		}
		sort.Slice(hs, func(i, j int) bool { return hs[i].obj.FullName() < hs[j].obj.FullName() })
		for _, bf := range hs {
			type rt struct {
				text string
				line int
			}
			var texts []rt
			ast.Inspect(bf.decl.Body, func(n ast.Node) bool {
				if _, ok := n.(*ast.FuncLit); ok {
					return false
				}
				if rs, ok := n.(*ast.ReturnStmt); ok && len(rs.Results) == 1 {
					if s, ok := e.textOf(bf.pkg, rs.Results[0], 1); ok {
						texts = append(texts, rt{s, bf.pkg.Fset.Position(rs.Pos()).Line})
					}
				}
				return true
			})
			if len(texts) < 2 {
				continue
			}
			name := strings.TrimPrefix(bf.obj.FullName(), core.RepoModule+"/")
			bad := ""
			for _, t := range texts[1:] {
				if lexDelta(t.text) != lexDelta(texts[0].text) {
					bad = fmt.Sprintf("%q (line %d) vs %q (line %d)", texts[0].text, texts[0].line, t.text, t.line)
					break
				}
			}
			c.Check(bad == "", "T.brace", name+" returned texts", fmt.Sprintf("%d returned texts have the same brace/paren balance", len(texts)),
				"the code fragments this helper returns differ in brace/paren balance: "+bad, c.PosStr(bf.pkg.Fset, bf.decl.Pos()), src)
		}
	}
	var list []*braceFn
	for _, bf := range e.fns {
		if bf.emits {
			list = append(list, bf)
		}
	}
	sort.Slice(list, func(i, j int) bool { return list[i].obj.FullName() < list[j].obj.FullName() })
	called := map[*types.Func]bool{}
	for _, bf := range list {
		e.analyze(bf)
	}
	for _, bf := range list {
		ast.Inspect(bf.decl.Body, func(n ast.Node) bool {
			if call, ok := n.(*ast.CallExpr); ok {
				if f, ok := core.CalleeObj(bf.pkg.TypesInfo, call).(*types.Func); ok && e.fns[f] != nil {
					called[f] = true
				}
			}
			return true
		})
	}
	nP := 0
	for _, bf := range list {
		name := shortFn(bf.obj)
		pos := c.PosStr(bf.pkg.Fset, bf.decl.Pos())
		for _, u := range bf.undec {
			c.Undec("T.brace", name+" "+u, "construct outside the brace-typestate table: "+u, pos, src)
		}
		for _, u := range bf.loopBad {
			c.Fail("T.brace", name+" loop", u, pos, src)
		}
		// per returned boolean (helpers that report whether they opened a block), every path must emit the same
		byRet := map[uint8][]delta{}
		agree := len(bf.summary) > 0
		for _, k := range sortedKeys(bf.summary) {
			d := delta{brace: k.brace, paren: k.paren}
			if l := byRet[k.ret]; len(l) == 0 || l[len(l)-1] != d {
				byRet[k.ret] = append(byRet[k.ret], d)
			}
		}
		for _, l := range byRet {
			agree = agree && len(l) == 1
		}
		if _, unknownRet := byRet[0]; unknownRet && len(byRet) > 1 {
			// some path returns a value the engine does not know: callers could not tell the paths apart
			agree = agree && len(deltasOf(bf.summary)) == 1
		}
		if agree {
			ds := deltasOf(bf.summary)
			d := ds[0]
			if len(ds) == 1 {
				c.Ok("T.brace", name+" paths agree", fmt.Sprintf("every path emits net braces %+d, parens %+d", d.brace, d.paren), pos, src)
			} else {
				c.Ok("T.brace", name+" paths agree", fmt.Sprintf("every path returning true emits net braces %+d, parens %+d; every path returning false emits %+d, %+d",
					byRet[2][0].brace, byRet[2][0].paren, byRet[1][0].brace, byRet[1][0].paren), pos, src)
			}
			isRoot := !called[bf.obj]
			if isRoot {
				for _, x := range ds {
					if x.brace != 0 || x.paren != 0 {
						d = x
					}
				}
				c.Check(d.brace == 0 && d.paren == 0, "T.brace", name+" root balanced", "root emitter is balanced",
					fmt.Sprintf("root emitter leaves braces %+d, parens %+d open", d.brace, d.paren), pos, src)
			}
		} else if len(bf.summary) == 0 {
			c.Ok("T.brace", name+" paths agree", "no returning path (always panics)", pos, src)
		} else {
			ks := sortedKeys(bf.summary)
			var parts []string
			for _, k := range ks {
				pi := bf.summary[k]
				rv := ""
				if k.ret != 0 {
					rv = fmt.Sprintf(" returning %v", k.ret == 2)
				}
				parts = append(parts, fmt.Sprintf("braces %+d parens %+d%s on path {%s} via [%s]", k.brace, k.paren, rv, pi.atoms, strings.Join(lastN(pi.trail, 6), " > ")))
			}
			c.Fail("T.brace", name+" paths agree", "emitted code is not brace-balanced on every template path: "+strings.Join(parts, " ; "), pos, src)
		}
		nP += countP(bf)
	}
	c.Stat("T.brace emitting functions", len(list))
	c.Stat("T.brace P calls", nP)
}

func lastN(s []string, n int) []string {
	if len(s) > n {
		return s[len(s)-n:]
	}
	return s
}

func countP(bf *braceFn) int {
	n := 0
	ast.Inspect(bf.decl.Body, func(x ast.Node) bool {
		if call, ok := x.(*ast.CallExpr); ok && isPMethod(core.CalleeObj(bf.pkg.TypesInfo, call)) {
			n++
		}
		return true
	})
	return n
}

func shortFn(f *types.Func) string {
	s := f.FullName()
	s = strings.ReplaceAll(s, core.RepoModule+"/", "")
	return s
}

// ---------------------------------------------------------------------------

type atomTable struct {
	names []string
	index map[string]int
}

func (e *braceEngine) analyze(bf *braceFn) {
	if bf.state == 2 {
		return
	}
	if bf.state == 1 {
		// recursion: assume balanced, verified by the caller's own check
		if bf.summary == nil {
			bf.summary = dset{}
		}
		bf.summary.add(delta{}, pathInfo{atoms: "recursive call assumed balanced"})
		return
	}
	bf.state = 1
	info := bf.pkg.TypesInfo
	// never-reassigned locals
	assignCount := map[types.Object]int{}
	ast.Inspect(bf.decl.Body, func(n ast.Node) bool {
		switch t := n.(type) {
		case *ast.AssignStmt:
			for _, l := range t.Lhs {
				if id, ok := l.(*ast.Ident); ok {
					if o := info.ObjectOf(id); o != nil {
						assignCount[o]++
					}
				}
			}
		case *ast.IncDecStmt:
			if id, ok := t.X.(*ast.Ident); ok {
				if o := info.ObjectOf(id); o != nil {
					assignCount[o] += 2
				}
			}
		case *ast.RangeStmt:
			for _, x := range []ast.Expr{t.Key, t.Value} {
				if id, ok := x.(*ast.Ident); ok {
					if o := info.ObjectOf(id); o != nil {
						assignCount[o] += 2 // loop variables change per iteration
					}
				}
			}
		case *ast.UnaryExpr:
			if t.Op == token.AND {
				if id, ok := t.X.(*ast.Ident); ok {
					if o := info.ObjectOf(id); o != nil {
						assignCount[o] += 2
					}
				}
			}
		}
		return true
	})
	flags := e.flagVars(bf)
	stable := func(x ast.Expr) bool {
		ok := true
		ast.Inspect(x, func(n ast.Node) bool {
			switch t := n.(type) {
			case *ast.Ident:
				o := info.ObjectOf(t)
				if v, isVar := o.(*types.Var); isVar && !v.IsField() {
					if _, isFlag := flags[o]; isFlag || assignCount[o] > 1 {
						ok = false
					}
				}
			case *ast.CallExpr:
				// pure descriptor queries only
				o := core.CalleeObj(info, t)
				if o == nil {
					if tv, isT := info.Types[t.Fun]; isT && (tv.IsType() || tv.IsBuiltin()) {
						return true
					}
					ok = false
					return false
				}
				if f, isF := o.(*types.Func); isF {
					if e.fns[f] != nil && e.fns[f].emits {
						ok = false
					}
				}
			case *ast.FuncLit:
				ok = false
			}
			return true
		})
		return ok
	}
	at := &atomTable{index: map[string]int{}}
	var collect func(x ast.Expr)
	collect = func(x ast.Expr) {
		x = ast.Unparen(x)
		switch t := x.(type) {
		case *ast.BinaryExpr:
			if t.Op == token.LAND || t.Op == token.LOR {
				collect(t.X)
				collect(t.Y)
				return
			}
		case *ast.UnaryExpr:
			if t.Op == token.NOT {
				collect(t.X)
				return
			}
		}
		if !stable(x) {
			return
		}
		s := types.ExprString(x)
		if _, ok := at.index[s]; !ok && len(at.names) < 12 {
			at.index[s] = len(at.names)
			at.names = append(at.names, s)
		}
	}
	ast.Inspect(bf.decl.Body, func(n ast.Node) bool {
		if _, ok := n.(*ast.FuncLit); ok {
			return false
		}
		if is, ok := n.(*ast.IfStmt); ok {
			collect(is.Cond)
		}
		return true
	})
	bf.summary = dset{}
	bf.counts = map[delta]int{}
	total := 1 << uint(len(at.names))
	for mask := 0; mask < total; mask++ {
		w := &bwalker{e: e, bf: bf, at: at, mask: mask, info: info, stable: stable, flags: flags}
		var names []string
		for i, n := range at.names {
			v := "F"
			if mask&(1<<uint(i)) != 0 {
				v = "T"
			}
			names = append(names, n+"="+v)
		}
		w.atomsDesc = strings.Join(names, ",")
		start := dset{delta{}: pathInfo{atoms: w.atomsDesc}}
		out := w.stmts(bf.decl.Body.List, start)
		for k, p := range out {
			k.fl, k.ret = 0, 0
			bf.summary.add(k, p)
			bf.counts[k]++
		}
		for k, p := range w.returns {
			k.fl = 0
			bf.summary.add(k, p)
			bf.counts[k]++
		}
	}
	bf.state = 2
}

// boolResult: the function has exactly one result, of type bool.
func boolResult(f *types.Func) bool {
	sig, ok := f.Type().(*types.Signature)
	return ok && sig.Results().Len() == 1 && types.Identical(sig.Results().At(0).Type(), types.Typ[types.Bool])
}

// emittingBoolCall: a call of an emitting function of the template packages whose single result is a bool.
func (e *braceEngine) emittingBoolCall(info *types.Info, x ast.Expr) (*braceFn, *ast.CallExpr) {
	call, ok := ast.Unparen(x).(*ast.CallExpr)
	if !ok {
		return nil, nil
	}
	f, ok := core.CalleeObj(info, call).(*types.Func)
	if !ok || e.fns[f] == nil || !e.fns[f].emits || !boolResult(f) {
		return nil, nil
	}
	return e.fns[f], call
}

// flagVars finds the boolean flag locals of a function: bool variables declared in its body that are, at least once,
// given a constant or the result of an emitting helper, are never assigned inside a function literal and never have
// their address taken. (Any other assignment to one makes its value unknown from there on.)
func (e *braceEngine) flagVars(bf *braceFn) map[types.Object]int {
	info := bf.pkg.TypesInfo
	cand := map[types.Object]bool{}
	bad := map[types.Object]bool{}
	local := func(x ast.Expr) types.Object {
		id, ok := x.(*ast.Ident)
		if !ok {
			return nil
		}
		v, ok := info.ObjectOf(id).(*types.Var)
		if !ok || v.IsField() || !types.Identical(v.Type(), types.Typ[types.Bool]) {
			return nil
		}
		if v.Pos() < bf.decl.Body.Pos() || v.Pos() > bf.decl.Body.End() {
			return nil // parameters and results are not flags
		}
		return v
	}
	isConst := func(x ast.Expr) bool {
		tv, ok := info.Types[x]
		return ok && tv.Value != nil && tv.Value.Kind() == constant.Bool
	}
	var walk func(n ast.Node, inLit bool)
	walk = func(n ast.Node, inLit bool) {
		ast.Inspect(n, func(x ast.Node) bool {
			switch t := x.(type) {
			case *ast.FuncLit:
				if !inLit {
					walk(t.Body, true)
					return false
				}
			case *ast.AssignStmt:
				for i, l := range t.Lhs {
					o := local(l)
					if o == nil {
						continue
					}
					if inLit {
						bad[o] = true
						continue
					}
					if len(t.Lhs) == len(t.Rhs) {
						if cf, _ := e.emittingBoolCall(info, t.Rhs[i]); isConst(t.Rhs[i]) || cf != nil {
							cand[o] = true
						}
					}
				}
			case *ast.ValueSpec:
				for i, nm := range t.Names {
					o := local(nm)
					if o == nil || inLit {
						continue
					}
					if len(t.Values) == 0 || (i < len(t.Values) && len(t.Values) == len(t.Names) && isConst(t.Values[i])) {
						cand[o] = true
					}
				}
			case *ast.UnaryExpr:
				if t.Op == token.AND {
					if o := local(ast.Unparen(t.X)); o != nil {
						bad[o] = true
					}
				}
			}
			return true
		})
	}
	walk(bf.decl.Body, false)
	var objs []types.Object
	for o := range cand {
		if !bad[o] {
			objs = append(objs, o)
		}
	}
	sort.Slice(objs, func(i, j int) bool { return objs[i].Pos() < objs[j].Pos() })
	if len(objs) > 12 {
		objs = objs[:12]
	}
	out := map[types.Object]int{}
	for i, o := range objs {
		out[o] = i
	}
	return out
}

type bframe struct {
	loop      bool
	brk, cont dset
	label     string
}

type bwalker struct {
	flags        map[types.Object]int // boolean flag locals -> index
	fl           uint32               // flag values of the group of states a condition is being evaluated for
	forced       map[string]int // condition text -> value, while a loop body is analysed for "every iteration but the last" / "the last"
	e            *braceEngine
	bf           *braceFn
	at           *atomTable
	mask         int
	info         *types.Info
	stable       func(ast.Expr) bool
	atomsDesc    string
	returns      dset
	breaks       []*bframe // stack for loops/switches
	pendingLabel string    // label of the statement being entered
}

func (w *bwalker) takeLabel() string {
	l := w.pendingLabel
	w.pendingLabel = ""
	return l
}

// cond evaluates a condition: 1 true, 0 false, -1 unknown (nondeterministic).
func (w *bwalker) cond(x ast.Expr) int {
	x = ast.Unparen(x)
	if v, ok := w.forced[types.ExprString(x)]; ok {
		return v
	}
	if tv, ok := w.info.Types[x]; ok && tv.Value != nil && tv.Value.Kind() == constant.Bool {
		if constant.BoolVal(tv.Value) {
			return 1
		}
		return 0
	}
	if id, ok := x.(*ast.Ident); ok {
		if i, isFlag := w.flags[w.info.ObjectOf(id)]; isFlag {
			switch (w.fl >> uint(2*i)) & 3 {
			case 1:
				return 0
			case 2:
				return 1
			}
			return -1
		}
	}
	switch t := x.(type) {
	case *ast.BinaryExpr:
		if t.Op == token.LAND {
			a, b := w.cond(t.X), w.cond(t.Y)
			if a == 0 || b == 0 {
				return 0
			}
			if a == 1 && b == 1 {
				return 1
			}
			return -1
		}
		if t.Op == token.LOR {
			a, b := w.cond(t.X), w.cond(t.Y)
			if a == 1 || b == 1 {
				return 1
			}
			if a == 0 && b == 0 {
				return 0
			}
			return -1
		}
	case *ast.UnaryExpr:
		if t.Op == token.NOT {
			a := w.cond(t.X)
			if a < 0 {
				return -1
			}
			return 1 - a
		}
	}
	if i, ok := w.at.index[types.ExprString(x)]; ok && w.stable(x) {
		if w.mask&(1<<uint(i)) != 0 {
			return 1
		}
		return 0
	}
	return -1
}

func (w *bwalker) addAll(in dset, d delta, label string) dset {
	out := dset{}
	for k, p := range in {
		np := p
		if label != "" {
			np.trail = append(append([]string{}, p.trail...), label)
		}
		out.add(delta{k.brace + d.brace, k.paren + d.paren, k.fl, k.ret}, np)
	}
	return out
}

func union(a, b dset) dset {
	out := dset{}
	for k, p := range a {
		out.add(k, p)
	}
	for k, p := range b {
		out.add(k, p)
	}
	return out
}

// calls applies the emission effect of every call inside an expression/statement node (not descending into closures).
func (w *bwalker) calls(n ast.Node, in dset) dset {
	cur := in
	if n == nil {
		return cur
	}
	var visit func(n ast.Node)
	visit = func(n ast.Node) {
		ast.Inspect(n, func(x ast.Node) bool {
			switch t := x.(type) {
			case *ast.FuncLit:
				// closures must not emit
				emits := false
				ast.Inspect(t.Body, func(y ast.Node) bool {
					if c2, ok := y.(*ast.CallExpr); ok {
						o := core.CalleeObj(w.info, c2)
						if isPMethod(o) {
							emits = true
						}
						if f, ok := o.(*types.Func); ok && w.e.fns[f] != nil && w.e.fns[f].emits {
							emits = true
						}
					}
					return true
				})
				if emits {
					sub := &bwalker{e: w.e, bf: w.bf, at: w.at, mask: w.mask, info: w.info, stable: w.stable, atomsDesc: w.atomsDesc, flags: w.flags}
					res := sub.stmts(t.Body.List, dset{delta{}: pathInfo{atoms: w.atomsDesc}})
					for k, p := range union(res, sub.returns) {
						if k.brace != 0 || k.paren != 0 {
							w.bf.loopBad = appendUniq(w.bf.loopBad, fmt.Sprintf("function literal at line %d emits net braces %+d parens %+d per call on path {%s} via [%s]",
								w.bf.pkg.Fset.Position(t.Pos()).Line, k.brace, k.paren, p.atoms, strings.Join(lastN(p.trail, 5), " > ")))
						}
					}
				}
				return false
			case *ast.CallExpr:
				// arguments first (evaluation order), then the call itself
				for _, a := range t.Args {
					visit(a)
				}
				visit(t.Fun)
				o := core.CalleeObj(w.info, t)
				if isPMethod(o) {
					line := ""
					if t.Ellipsis.IsValid() && len(t.Args) == 1 {
						// P(parts...): the parts are collected from the slice expression
						line = w.sliceText(t.Args[0], 0)
					} else {
						for _, a := range t.Args {
							if s, ok := w.e.constStr(w.bf.pkg, a); ok {
								line += s
							} else {
								line += w.placeholder(a)
							}
						}
					}
					d := lexDelta(line)
					lbl := ""
					if d.brace != 0 || d.paren != 0 {
						lbl = fmt.Sprintf("P(%s)@%d", clip(strings.TrimSpace(line), 40), w.bf.pkg.Fset.Position(t.Pos()).Line)
					}
					cur = w.addAll(cur, d, lbl)
				} else if f, ok := o.(*types.Func); ok {
					if cf := w.e.fns[f]; cf != nil && cf.emits {
						w.e.analyze(cf)
						// a callee whose paths disagree is reported at the callee; callers continue with its most frequent delta.
						// A bool-returning helper may legitimately emit differently per returned value: a caller that does not
						// keep the result in a flag (see assign) goes on with every delta the helper can leave.
						if boolResult(f) && len(deltasOf(cf.summary)) > 1 {
							out := dset{}
							for _, d := range deltasOf(cf.summary) {
								out = union(out, w.addAll(cur, d, fmt.Sprintf("%s()%+d", f.Name(), d.brace)))
							}
							cur = out
							return false
						}
						var best delta
						bestN := -1
						for _, k := range sortedKeys(cf.summary) {
							if n := cf.counts[k]; n > bestN || (n == bestN && (k.brace*k.brace+k.paren*k.paren) < (best.brace*best.brace+best.paren*best.paren)) {
								best, bestN = k, n
							}
						}
						if bestN >= 0 {
							lbl := ""
							if best.brace != 0 || best.paren != 0 {
								lbl = fmt.Sprintf("%s()%+d", f.Name(), best.brace)
							}
							cur = w.addAll(cur, best, lbl)
						}
					}
				}
				return false
			}
			return true
		})
	}
	visit(n)
	return cur
}

// placeholder for a non-constant P argument. Arguments are identifiers, type
// names and numbers in the template packages; a string variable initialised in
// this function from a constant is expanded so its braces are counted.
func (w *bwalker) placeholder(a ast.Expr) string {
	a = ast.Unparen(a)
	if id, ok := a.(*ast.Ident); ok {
		if o := w.info.ObjectOf(id); o != nil {
			if s, ok := w.localConst(o); ok {
				return s
			}
		}
	}
	if s, ok := w.e.textOf(w.bf.pkg, a, 0); ok {
		return s
	}
	return "X"
}

// textOf gives the brace-relevant text of a string expression built by fmt.Sprintf from a constant format
// (verbs stand for identifiers, type names and numbers), by concatenation, or by a template-package function
// all of whose returns are such expressions with one and the same brace/paren balance.
func (e *braceEngine) textOf(pkg *packages.Package, x ast.Expr, depth int) (string, bool) {
	if depth > 3 {
		return "", false
	}
	x = ast.Unparen(x)
	if s, ok := e.constStr(pkg, x); ok {
		return s, true
	}
	switch t := x.(type) {
	case *ast.BinaryExpr:
		if t.Op == token.ADD {
			l, ok1 := e.textOf(pkg, t.X, depth)
			r, ok2 := e.textOf(pkg, t.Y, depth)
			if !ok1 {
				l = "X"
			}
			if !ok2 {
				r = "X"
			}
			if ok1 || ok2 {
				return l + r, true
			}
		}
	case *ast.CallExpr:
		o := core.CalleeObj(pkg.TypesInfo, t)
		if core.QualName(o) == "fmt.Sprintf" && len(t.Args) >= 1 {
			if f, ok := e.constStr(pkg, t.Args[0]); ok {
				return f, true
			}
		}
		if f, ok := o.(*types.Func); ok {
			if bf := e.fns[f]; bf != nil && bf.decl != nil && bf.decl.Body != nil {
				var texts []string
				all := true
				ast.Inspect(bf.decl.Body, func(n ast.Node) bool {
					if _, ok := n.(*ast.FuncLit); ok {
						return false
					}
					if rs, ok := n.(*ast.ReturnStmt); ok && len(rs.Results) == 1 {
						if s, ok := e.textOf(bf.pkg, rs.Results[0], depth+1); ok {
							texts = append(texts, s)
						} else {
							all = false
						}
					}
					return true
				})
				if all && len(texts) > 0 {
					d0 := lexDelta(texts[0])
					for _, s := range texts[1:] {
						if lexDelta(s) != d0 {
							return "", false
						}
					}
					return texts[0], true
				}
			}
		}
	}
	return "", false
}

// sliceText gives the emitted text of a []interface{} argument list built from composite literals, append calls and
// single-assignment locals; parts that are not constant strings stand for identifiers.
func (w *bwalker) sliceText(x ast.Expr, depth int) string {
	if depth > 4 {
		return "X"
	}
	x = ast.Unparen(x)
	part := func(a ast.Expr) string {
		if s, ok := w.e.constStr(w.bf.pkg, a); ok {
			return s
		}
		return w.placeholder(a)
	}
	switch t := x.(type) {
	case *ast.CompositeLit:
		out := ""
		for _, e := range t.Elts {
			out += part(e)
		}
		return out
	case *ast.CallExpr:
		if id, ok := t.Fun.(*ast.Ident); ok && id.Name == "append" && len(t.Args) >= 1 {
			if _, isB := w.info.Uses[id].(*types.Builtin); isB {
				out := w.sliceText(t.Args[0], depth+1)
				if t.Ellipsis.IsValid() && len(t.Args) == 2 {
					return out + w.sliceText(t.Args[1], depth+1)
				}
				for _, a := range t.Args[1:] {
					out += part(a)
				}
				return out
			}
		}
	case *ast.Ident:
		o := w.info.ObjectOf(t)
		var rhs ast.Expr
		n := 0
		ast.Inspect(w.bf.decl.Body, func(nd ast.Node) bool {
			if as, ok := nd.(*ast.AssignStmt); ok {
				for i, l := range as.Lhs {
					if li, ok := l.(*ast.Ident); ok && w.info.ObjectOf(li) == o && i < len(as.Rhs) {
						rhs = as.Rhs[i]
						n++
					}
				}
			}
			return true
		})
		if n == 1 && rhs != nil {
			return w.sliceText(rhs, depth+1)
		}
	}
	return "X"
}

func (w *bwalker) localConst(o types.Object) (string, bool) {
	var val string
	found, multi := false, false
	ast.Inspect(w.bf.decl.Body, func(n ast.Node) bool {
		as, ok := n.(*ast.AssignStmt)
		if !ok {
			return true
		}
		for i, l := range as.Lhs {
			if id, ok := l.(*ast.Ident); ok && w.info.ObjectOf(id) == o && i < len(as.Rhs) {
				if s, ok := w.e.textOf(w.bf.pkg, as.Rhs[i], 1); ok && !found {
					val, found = s, true
				} else {
					multi = true
				}
			}
		}
		return true
	})
	if found && !multi {
		return val, true
	}
	return "", false
}

func appendUniq(s []string, v string) []string {
	for _, x := range s {
		if x == v {
			return s
		}
	}
	return append(s, v)
}

// forget makes every flag assigned somewhere in the node unknown (a loop body may have run any number of times).
func (w *bwalker) forget(n ast.Node, in dset) dset {
	cur := in
	if len(w.flags) == 0 {
		return cur
	}
	ast.Inspect(n, func(x ast.Node) bool {
		if as, ok := x.(*ast.AssignStmt); ok {
			for _, l := range as.Lhs {
				if id, ok := l.(*ast.Ident); ok {
					if i, isFlag := w.flags[w.info.ObjectOf(id)]; isFlag {
						cur = setFlag(cur, i, 0)
					}
				}
			}
		}
		return true
	})
	return cur
}

// assign applies an assignment or variable declaration: the calls in it take effect, and a flag on the left takes the
// constant, the result of the emitting helper, or becomes unknown.
func (w *bwalker) assign(lhs, rhs []ast.Expr, node ast.Node, in dset) dset {
	flagOf := func(x ast.Expr) (int, bool) {
		id, ok := x.(*ast.Ident)
		if !ok {
			return 0, false
		}
		i, ok := w.flags[w.info.ObjectOf(id)]
		return i, ok
	}
	any := false
	for _, l := range lhs {
		if _, ok := flagOf(l); ok {
			any = true
		}
	}
	if !any {
		return w.calls(node, in)
	}
	if len(rhs) == 0 {
		// var f bool
		cur := in
		for _, l := range lhs {
			if i, ok := flagOf(l); ok {
				cur = setFlag(cur, i, 1)
			}
		}
		return cur
	}
	if len(lhs) != len(rhs) {
		cur := w.calls(node, in)
		for _, l := range lhs {
			if i, ok := flagOf(l); ok {
				cur = setFlag(cur, i, 0)
			}
		}
		return cur
	}
	// Go evaluates the right-hand operands in order, then assigns
	cur := in
	type pend struct {
		i int
		v uint32
	}
	var sets []pend
	for k, r := range rhs {
		i, isFlag := flagOf(lhs[k])
		if isFlag {
			if cf, call := w.e.emittingBoolCall(w.info, r); cf != nil && len(lhs) == 1 {
				for _, a := range call.Args {
					cur = w.calls(a, cur)
				}
				cur = w.calls(call.Fun, cur)
				w.e.analyze(cf)
				out := dset{}
				for _, d := range sortedKeys(cf.summary) {
					lbl := ""
					if d.brace != 0 || d.paren != 0 {
						lbl = fmt.Sprintf("%s()%+d", cf.obj.Name(), d.brace)
					}
					out = union(out, setFlag(w.addAll(cur, d, lbl), i, uint32(d.ret)))
				}
				return out
			}
		}
		cur = w.calls(r, cur)
		if isFlag {
			v := uint32(0)
			if tv, ok := w.info.Types[r]; ok && tv.Value != nil && tv.Value.Kind() == constant.Bool {
				v = 1
				if constant.BoolVal(tv.Value) {
					v = 2
				}
			}
			sets = append(sets, pend{i, v})
		}
	}
	for _, l := range lhs {
		cur = w.calls(l, cur)
	}
	for _, s := range sets {
		cur = setFlag(cur, s.i, s.v)
	}
	return cur
}

func (w *bwalker) stmts(list []ast.Stmt, in dset) dset {
	cur := in
	for _, s := range list {
		if len(cur) == 0 {
			return cur
		}
		cur = w.stmt(s, cur)
	}
	return cur
}

func (w *bwalker) stmt(s ast.Stmt, in dset) dset {
	switch t := s.(type) {
	case *ast.ExprStmt:
		if call, ok := t.X.(*ast.CallExpr); ok {
			if id, ok := call.Fun.(*ast.Ident); ok && id.Name == "panic" {
				if _, isB := w.info.Uses[id].(*types.Builtin); isB {
					return dset{}
				}
			}
		}
		return w.calls(t, in)
	case *ast.AssignStmt:
		return w.assign(t.Lhs, t.Rhs, t, in)
	case *ast.DeclStmt:
		cur := in
		if gd, ok := t.Decl.(*ast.GenDecl); ok && gd.Tok == token.VAR {
			for _, sp := range gd.Specs {
				vs := sp.(*ast.ValueSpec)
				var lhs []ast.Expr
				for _, nm := range vs.Names {
					lhs = append(lhs, nm)
				}
				cur = w.assign(lhs, vs.Values, vs, cur)
			}
			return cur
		}
		return w.calls(t, in)
	case *ast.IncDecStmt, *ast.GoStmt, *ast.DeferStmt, *ast.SendStmt:
		return w.calls(t, in)
	case *ast.ReturnStmt:
		out := w.calls(t, in)
		if w.returns == nil {
			w.returns = dset{}
		}
		for k, p := range out {
			// the constant (or known flag) a bool-returning emitter hands back is part of its summary
			k.ret = 0
			if len(t.Results) == 1 && boolResult(w.bf.obj) {
				w.fl = k.fl
				switch w.cond(t.Results[0]) {
				case 0:
					k.ret = 1
				case 1:
					k.ret = 2
				}
				w.fl = 0
			}
			w.returns.add(k, p)
		}
		return dset{}
	case *ast.BlockStmt:
		return w.stmts(t.List, in)
	case *ast.IfStmt:
		cur := in
		if t.Init != nil {
			cur = w.stmt(t.Init, cur)
		}
		cur = w.calls(t.Cond, cur)
		out := dset{}
		ks, groups := groupByFlags(cur)
		for _, fl := range ks {
			g := groups[fl]
			w.fl = fl
			v := w.cond(t.Cond)
			w.fl = 0
			if v != 0 {
				out = union(out, w.stmts(t.Body.List, g))
			}
			if v != 1 {
				if t.Else != nil {
					out = union(out, w.stmt(t.Else, g))
				} else {
					out = union(out, g)
				}
			}
		}
		return out
	case *ast.SwitchStmt, *ast.TypeSwitchStmt:
		cur := in
		var body *ast.BlockStmt
		switch sw := t.(type) {
		case *ast.SwitchStmt:
			if sw.Init != nil {
				cur = w.stmt(sw.Init, cur)
			}
			if sw.Tag != nil {
				cur = w.calls(sw.Tag, cur)
			}
			body = sw.Body
		case *ast.TypeSwitchStmt:
			if sw.Init != nil {
				cur = w.stmt(sw.Init, cur)
			}
			body = sw.Body
		}
		w.breaks = append(w.breaks, &bframe{brk: dset{}, cont: dset{}, label: w.takeLabel()})
		out := dset{}
		hasDefault := false
		for i, cs := range body.List {
			cc := cs.(*ast.CaseClause)
			if cc.List == nil {
				hasDefault = true
			}
			lbl := "default"
			if cc.List != nil {
				lbl = "case " + clip(types.ExprString(cc.List[0]), 30)
			}
			start := w.addAll(cur, delta{}, lbl)
			res := w.stmts(cc.Body, start)
			// fallthrough is not used in the template packages
			for _, st := range cc.Body {
				if br, ok := st.(*ast.BranchStmt); ok && br.Tok == token.FALLTHROUGH {
					w.bf.undec = appendUniq(w.bf.undec, "fallthrough")
				}
			}
			_ = i
			out = union(out, res)
		}
		if !hasDefault {
			out = union(out, cur)
		}
		brk := w.breaks[len(w.breaks)-1].brk
		w.breaks = w.breaks[:len(w.breaks)-1]
		return union(out, brk)
	case *ast.ForStmt, *ast.RangeStmt:
		cur := in
		var body *ast.BlockStmt
		switch l := t.(type) {
		case *ast.ForStmt:
			if l.Init != nil {
				cur = w.stmt(l.Init, cur)
			}
			if l.Cond != nil {
				cur = w.calls(l.Cond, cur)
			}
			body = l.Body
		case *ast.RangeStmt:
			cur = w.calls(l.X, cur)
			body = l.Body
		}
		// `for i, v := range xs { if i < len(xs)-1 { A } else { B } }`: B runs in the last iteration only. Every other
		// iteration must be neutral; what the last one emits is emitted once (if xs can be empty: once or not at all).
		if rs, isRange := t.(*ast.RangeStmt); isRange {
			if condText, lastVal, ok := w.lastIterCond(rs); ok {
				lbl := w.takeLabel()
				run := func(v int) dset {
					if w.forced == nil {
						w.forced = map[string]int{}
					}
					w.forced[condText] = v
					w.breaks = append(w.breaks, &bframe{loop: true, brk: dset{}, cont: dset{}, label: lbl})
					res := w.stmts(body.List, dset{delta{}: pathInfo{atoms: w.atomsDesc}})
					fr := w.breaks[len(w.breaks)-1]
					w.breaks = w.breaks[:len(w.breaks)-1]
					delete(w.forced, condText)
					return union(union(res, fr.brk), fr.cont)
				}
				for k, p := range run(1 - lastVal) {
					if k.brace != 0 || k.paren != 0 {
						w.bf.loopBad = appendUniq(w.bf.loopBad, fmt.Sprintf("loop body at line %d emits net braces %+d parens %+d per iteration before the last on path {%s} via [%s]",
							w.bf.pkg.Fset.Position(s.Pos()).Line, k.brace, k.paren, p.atoms, strings.Join(lastN(p.trail, 5), " > ")))
					}
				}
				out := dset{}
				if !w.nonEmpty(rs.X, 0) {
					out = union(out, w.forget(body, cur))
				}
				cur = w.forget(body, cur)
				for k := range run(lastVal) {
					out = union(out, w.addAll(cur, k, "last iteration"))
				}
				return out
			}
		}
		// body must be neutral on every path (it may run any number of times)
		w.breaks = append(w.breaks, &bframe{loop: true, brk: dset{}, cont: dset{}, label: w.takeLabel()})
		res := w.stmts(body.List, dset{delta{}: pathInfo{atoms: w.atomsDesc}})
		fr := w.breaks[len(w.breaks)-1]
		w.breaks = w.breaks[:len(w.breaks)-1]
		for k, p := range union(union(res, fr.brk), fr.cont) {
			if k.brace != 0 || k.paren != 0 {
				w.bf.loopBad = appendUniq(w.bf.loopBad, fmt.Sprintf("loop body at line %d emits net braces %+d parens %+d per iteration on path {%s} via [%s]",
					w.bf.pkg.Fset.Position(s.Pos()).Line, k.brace, k.paren, p.atoms, strings.Join(lastN(p.trail, 5), " > ")))
			}
		}
		return cur
	case *ast.BranchStmt:
		switch t.Tok {
		case token.BREAK, token.CONTINUE:
			if t.Label != nil {
				// the frame that carries the label receives the state
				found := false
				for i := len(w.breaks) - 1; i >= 0; i-- {
					fr := w.breaks[i]
					if fr.label != t.Label.Name {
						continue
					}
					found = true
					dst := fr.brk
					if t.Tok == token.CONTINUE {
						dst = fr.cont
					}
					for k, p := range in {
						dst.add(k, p)
					}
					break
				}
				if !found {
					w.bf.undec = appendUniq(w.bf.undec, "branch to an unknown label")
				}
				return dset{}
			}
			for i := len(w.breaks) - 1; i >= 0; i-- {
				fr := w.breaks[i]
				if t.Tok == token.BREAK {
					for k, p := range in {
						fr.brk.add(k, p)
					}
					break
				}
				if fr.loop {
					for k, p := range in {
						fr.cont.add(k, p)
					}
					break
				}
			}
			return dset{}
		}
		w.bf.undec = appendUniq(w.bf.undec, "branch statement "+t.Tok.String())
		return in
	case *ast.LabeledStmt:
		w.pendingLabel = t.Label.Name
		out := w.stmt(t.Stmt, in)
		w.pendingLabel = ""
		return out
	case *ast.EmptyStmt:
		return in
	}
	w.bf.undec = appendUniq(w.bf.undec, fmt.Sprintf("statement %T", s))
	return in
}


// lastIterCond finds, in the body of `for i := range xs` / `for i, v := range xs`, a condition that singles out the last
// iteration: i < len(xs)-1, i+1 < len(xs), i != len(xs)-1 (true before the last) or i == len(xs)-1, i+1 == len(xs)
// (true in the last). It returns the condition's text and the value it has in the last iteration.
func (w *bwalker) lastIterCond(rs *ast.RangeStmt) (string, int, bool) {
	key, _ := rs.Key.(*ast.Ident)
	if key == nil || key.Name == "_" || rs.Tok != token.DEFINE {
		return "", 0, false
	}
	ko := w.info.Defs[key]
	xs := types.ExprString(rs.X)
	if t := w.info.TypeOf(rs.X); t == nil {
		return "", 0, false
	} else if _, isSlice := t.Underlying().(*types.Slice); !isSlice {
		return "", 0, false
	}
	// i and xs must not be assigned in the body
	mod := false
	ast.Inspect(rs.Body, func(n ast.Node) bool {
		switch t := n.(type) {
		case *ast.AssignStmt:
			for _, l := range t.Lhs {
				if id, ok := l.(*ast.Ident); ok && (w.info.ObjectOf(id) == ko || id.Name == xs) && t.Tok != token.DEFINE {
					mod = true
				}
			}
		case *ast.IncDecStmt:
			if id, ok := t.X.(*ast.Ident); ok && w.info.ObjectOf(id) == ko {
				mod = true
			}
		}
		return true
	})
	if mod {
		return "", 0, false
	}
	isKey := func(e ast.Expr) bool {
		id, ok := ast.Unparen(e).(*ast.Ident)
		return ok && w.info.Uses[id] == ko
	}
	isLen := func(e ast.Expr) bool {
		call, ok := ast.Unparen(e).(*ast.CallExpr)
		if !ok || len(call.Args) != 1 || types.ExprString(call.Args[0]) != xs {
			return false
		}
		id, ok := call.Fun.(*ast.Ident)
		if !ok {
			return false
		}
		_, isB := w.info.Uses[id].(*types.Builtin)
		return isB && id.Name == "len"
	}
	isOne := func(e ast.Expr) bool {
		tv, ok := w.info.Types[e]
		return ok && tv.Value != nil && tv.Value.ExactString() == "1"
	}
	// i ⋈ len(xs)-1   or   i+1 ⋈ len(xs)
	sides := func(l, r ast.Expr) bool {
		if isKey(l) {
			if be, ok := ast.Unparen(r).(*ast.BinaryExpr); ok && be.Op == token.SUB && isLen(be.X) && isOne(be.Y) {
				return true
			}
		}
		if be, ok := ast.Unparen(l).(*ast.BinaryExpr); ok && be.Op == token.ADD && isKey(be.X) && isOne(be.Y) && isLen(r) {
			return true
		}
		return false
	}
	text, last, found := "", 0, false
	ast.Inspect(rs.Body, func(n ast.Node) bool {
		is, ok := n.(*ast.IfStmt)
		if !ok || found {
			return !found
		}
		be, ok := ast.Unparen(is.Cond).(*ast.BinaryExpr)
		if !ok || !sides(be.X, be.Y) {
			return true
		}
		switch be.Op {
		case token.LSS, token.NEQ:
			text, last, found = types.ExprString(ast.Unparen(is.Cond)), 0, true
		case token.EQL:
			text, last, found = types.ExprString(ast.Unparen(is.Cond)), 1, true
		}
		return true
	})
	return text, last, found
}

// nonEmpty: the slice expression has at least one element whenever it is evaluated — a composite literal with
// elements, append(…, e) with at least one element, a local whose every assignment is such a value, or a call of a
// function of the package all of whose returns are.
func (w *bwalker) nonEmpty(x ast.Expr, depth int) bool {
	if depth > 4 {
		return false
	}
	x = ast.Unparen(x)
	switch t := x.(type) {
	case *ast.CompositeLit:
		return len(t.Elts) > 0
	case *ast.CallExpr:
		if id, ok := t.Fun.(*ast.Ident); ok {
			if _, isB := w.info.Uses[id].(*types.Builtin); isB && id.Name == "append" {
				return len(t.Args) >= 2 && !t.Ellipsis.IsValid()
			}
		}
		if f, ok := core.CalleeObj(w.info, t).(*types.Func); ok && f.Pkg() == w.bf.pkg.Types {
			for _, file := range w.bf.pkg.Syntax {
				for _, d := range file.Decls {
					fd, ok := d.(*ast.FuncDecl)
					if !ok || fd.Body == nil || w.info.Defs[fd.Name] != types.Object(f) {
						continue
					}
					all, n := true, 0
					ast.Inspect(fd.Body, func(y ast.Node) bool {
						if _, isLit := y.(*ast.FuncLit); isLit {
							return false
						}
						if rs, ok := y.(*ast.ReturnStmt); ok {
							n++
							if len(rs.Results) != 1 || !(&bwalker{info: w.info, bf: w.bf, e: w.e}).nonEmptyIn(rs.Results[0], fd.Body, depth+1) {
								all = false
							}
						}
						return true
					})
					return all && n > 0
				}
			}
		}
		return false
	case *ast.Ident:
		return w.nonEmptyIn(t, w.bf.decl.Body, depth)
	}
	return false
}

// nonEmptyIn resolves identifiers through their assignments inside the given function body.
func (w *bwalker) nonEmptyIn(x ast.Expr, body *ast.BlockStmt, depth int) bool {
	id, ok := ast.Unparen(x).(*ast.Ident)
	if !ok {
		return w.nonEmpty(x, depth)
	}
	o := w.info.ObjectOf(id)
	if o == nil || depth > 4 {
		return false
	}
	all, n := true, 0
	ast.Inspect(body, func(y ast.Node) bool {
		switch t := y.(type) {
		case *ast.AssignStmt:
			for i, l := range t.Lhs {
				lid, ok := l.(*ast.Ident)
				if !ok || w.info.ObjectOf(lid) != o {
					continue
				}
				n++
				if len(t.Lhs) != len(t.Rhs) || (t.Tok != token.DEFINE && t.Tok != token.ASSIGN) || !w.nonEmptyIn(t.Rhs[i], body, depth+1) {
					all = false
				}
			}
		case *ast.ValueSpec:
			for i, nm := range t.Names {
				if w.info.Defs[nm] != o {
					continue
				}
				if i < len(t.Values) {
					n++
					if !w.nonEmptyIn(t.Values[i], body, depth+1) {
						all = false
					}
				} else if !strings.HasPrefix(nm.Name, "__inl") {
					all = false // zero value: may be observed empty (result variables of inlined calls are always assigned before use)
				}
			}
		case *ast.UnaryExpr:
			if t.Op == token.AND {
				if aid, ok := ast.Unparen(t.X).(*ast.Ident); ok && w.info.ObjectOf(aid) == o {
					all = false
				}
			}
		}
		return true
	})
	return all && n > 0
}
