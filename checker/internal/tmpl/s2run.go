// Package tmpl holds the generator-level rules: running the working-tree
// generator on the corpus as a build step and type-checking what it emits
// (C12), and the template-level rules on the generator's own source (T.*).
package tmpl

import (
	"fmt"
	"sort"
	"strings"

	"google.golang.org/protobuf/encoding/protowire"

	"verif/checker/internal/core"
	"verif/checker/internal/gen"
	"verif/checker/internal/source"
)

// RunS2 checks that the generator answers every corpus schema as expected and
// that everything it emits type-checks (a compile-fail witness over the corpus).
func RunS2(c *core.Ctx) {
	s := source.GetS2(c)
	if s.Err != nil {
		c.Fail("GEN.build", "working-tree generator", s.Err.Error(), "", "S2")
		return
	}
	c.Ok("GEN.build", "working-tree generator", "cmd/protoc-gen-go-pulsar builds from the working tree", "", "S2")
	for _, r := range s.Results {
		sc := r.Schema
		src := "S2:" + sc.Name
		con := "schema " + sc.Name
		respErr := ""
		if r.Response != nil && r.Response.Error != nil {
			respErr = *r.Response.Error
		}
		switch {
		case r.RunErr != nil:
			c.Fail("GEN.run", con, "generator crashed or could not be driven: "+r.RunErr.Error(), "", src)
		case sc.ExpectError:
			c.Check(respErr != "" && len(r.Files) == 0, "GEN.run", con, "request that cannot be served is answered with an error message: "+firstLine(respErr),
				fmt.Sprintf("expected an error answer without files, got error=%q files=%d", firstLine(respErr), len(r.Files)), "", src)
		case sc.ExpectNoFile:
			c.Check(respErr == "" && len(r.Files) == 0, "GEN.run", con, "no output for this request (proto2 / not requested)",
				fmt.Sprintf("expected no output, got error=%q files=%d", firstLine(respErr), len(r.Files)), "", src)
		default:
			want := sc.Generate
			if want == nil {
				for _, f := range sc.Files {
					want = append(want, f.GetName())
				}
			}
			if len(sc.SomeNoFile) > 0 {
				var w2 []string
				for _, n := range want {
					skip := false
					for _, x := range sc.SomeNoFile {
						skip = skip || x == n
					}
					if !skip {
						w2 = append(w2, n)
					}
				}
				want = w2
			}
			if respErr != "" {
				c.Fail("GEN.run", con, "generator answered a valid proto3 schema with an error: "+clip(respErr, 300), "", src)
				break
			}
			// exactly one .pulsar.go per requested file
			var got []string
			for n := range r.Files {
				// annotate_code=true adds a .meta file (GeneratedCodeInfo) beside each source file
				if strings.HasSuffix(n, ".go.meta") && strings.Contains(sc.Param, "annotate_code=true") {
					continue
				}
				// companion files of the stock protoc-gen-go (Schema.PbGo)
				if strings.HasSuffix(n, ".pb.go") {
					continue
				}
				got = append(got, n)
			}
			sort.Strings(got)
			okFiles := len(got) == len(want)
			for _, w := range want {
				base := strings.TrimSuffix(w[strings.LastIndex(w, "/")+1:], ".proto") + ".pulsar.go"
				found := false
				for _, g := range got {
					if strings.HasSuffix(g, "/"+base) {
						found = true
					}
				}
				okFiles = okFiles && found
			}
			c.Check(okFiles, "GEN.run", con, fmt.Sprintf("%d file(s) generated for %d requested", len(got), len(want)),
				fmt.Sprintf("generated files %v do not correspond to the requested files %v", got, want), "", src)
		}
	}
	// type-check
	nPk := 0
	for _, p := range s.Pkgs {
		nPk++
		sc := s.SchemaOf[p.PkgPath]
		src := "S2"
		if sc != nil {
			src = "S2:" + sc.Name
		}
		con := "package " + strings.TrimPrefix(p.PkgPath, gen.CorpusModule+"/")
		if len(p.Errors) > 0 {
			var msgs []string
			for i, e := range p.Errors {
				if i < 4 {
					m := e.Msg
					if e.Pos != "" {
						m = e.Pos[strings.LastIndex(e.Pos, "/")+1:] + ": " + m
					}
					msgs = append(msgs, m)
				}
			}
			c.Fail("GEN.types", con, fmt.Sprintf("generated sources do not type-check (%d errors): %s", len(p.Errors), strings.Join(msgs, " | ")), "", src)
		} else {
			c.Ok("GEN.types", con, "generated sources type-check (amd64)", "", src)
		}
	}
	c.Stat("S2 packages type-checked", nPk)
	// corpus coverage: every kind in every legal shape, every map key kind, every tag width
	cells := map[string]bool{}
	widths := map[int]bool{}
	for _, g := range s.S2 {
		for _, m := range g.Msgs {
			for _, f := range m.Fields {
				fd := f.Desc
				widths[len(protowire.AppendTag(nil, protowire.Number(fd.Number()), 0))] = true
				switch {
				case fd.IsMap():
					cells["mapkey/"+fd.MapKey().Kind().String()] = true
					cells["mapvalue/"+fd.MapValue().Kind().String()] = true
				case fd.IsList() && fd.IsPacked():
					cells["packed/"+fd.Kind().String()] = true
				case fd.IsList():
					cells["repeated/"+fd.Kind().String()] = true
				case fd.ContainingOneof() != nil:
					cells["oneof/"+fd.Kind().String()] = true
				default:
					cells["singular/"+fd.Kind().String()] = true
				}
			}
		}
	}
	all := []string{"bool", "enum", "int32", "sint32", "uint32", "int64", "sint64", "uint64", "sfixed32", "fixed32", "float", "sfixed64", "fixed64", "double", "string", "bytes", "message"}
	var missing []string
	for _, k := range all {
		for _, sh := range []string{"singular", "oneof", "mapvalue"} {
			if !cells[sh+"/"+k] {
				missing = append(missing, sh+"/"+k)
			}
		}
		numeric := k != "string" && k != "bytes" && k != "message"
		if numeric {
			if !cells["packed/"+k] {
				missing = append(missing, "packed/"+k)
			}
			if !cells["repeated/"+k] {
				missing = append(missing, "unpacked/"+k)
			}
		} else if !cells["repeated/"+k] {
			missing = append(missing, "repeated/"+k)
		}
	}
	for _, k := range []string{"bool", "int32", "sint32", "uint32", "int64", "sint64", "uint64", "sfixed32", "fixed32", "sfixed64", "fixed64", "string"} {
		if !cells["mapkey/"+k] {
			missing = append(missing, "mapkey/"+k)
		}
	}
	for w := 1; w <= 5; w++ {
		if !widths[w] {
			missing = append(missing, fmt.Sprintf("tag width %d", w))
		}
	}
	c.Check(len(missing) == 0, "GEN.matrix", "corpus coverage", fmt.Sprintf("%d kind x shape cells, all map key kinds, tag widths 1..5 are present in the regenerated corpus", len(cells)),
		"the regenerated corpus lacks: "+strings.Join(missing, ", ")+" (a template branch would go unanalysed)", "", "S2")
	if c.Tier == "thorough" {
		pk386, err := s.WS.LoadGenerated("386")
		if err != nil {
			c.Fail("GEN.types386", "corpus", err.Error(), "", "S2")
		}
		for _, p := range pk386 {
			con := "package " + strings.TrimPrefix(p.PkgPath, gen.CorpusModule+"/") + " GOARCH=386"
			sc := s.SchemaOf[p.PkgPath]
			src := "S2"
			if sc != nil {
				src = "S2:" + sc.Name
			}
			if len(p.Errors) > 0 {
				c.Fail("GEN.types386", con, fmt.Sprintf("does not type-check for a 32-bit target: %s", p.Errors[0].Msg), "", src)
			} else {
				c.Ok("GEN.types386", con, "type-checks for GOARCH=386", "", src)
			}
		}
	}
}

func firstLine(s string) string {
	if i := strings.IndexByte(s, '\n'); i >= 0 {
		return s[:i]
	}
	return s
}

func clip(s string, n int) string {
	s = firstLine(s)
	if len(s) > n {
		return s[:n] + "…"
	}
	return s
}
